#!/usr/bin/env python3
"""merge_agent.py <name>: merge branch agent-<name> into the current branch; the three shared files are merged by union."""
import json, subprocess, sys, os
name = sys.argv[1]
br = "agent-" + name
base = subprocess.run(["git", "merge-base", "HEAD", br], stdout=subprocess.PIPE, text=True).stdout.strip()


def show(rev, path):
    r = subprocess.run(["git", "show", "%s:%s" % (rev, path)], stdout=subprocess.PIPE, stderr=subprocess.PIPE, text=True)
    return r.stdout if r.returncode == 0 else ""


ours = {p: open(p).read() for p in ("coq/_CoqProject", "coq/Extract/Extract.v", "known_findings.json")}
r = subprocess.run(["git", "merge", "--no-commit", "--no-ff", br], stdout=subprocess.PIPE, stderr=subprocess.STDOUT, text=True)
print(r.stdout[-1500:])
# _CoqProject: append lines the agent added
b, t = show(base, "coq/_CoqProject").splitlines(), show(br, "coq/_CoqProject").splitlines()
added = [l for l in t if l not in b and l.strip()]
cur = ours["coq/_CoqProject"].splitlines()
cur += [l for l in added if l not in cur]
open("coq/_CoqProject", "w").write("\n".join(cur) + "\n")
# Extract.v: lines added by the agent go before the markers
b, t = show(base, "coq/Extract/Extract.v").splitlines(), show(br, "coq/Extract/Extract.v").splitlines()
added = [l for l in t if l not in b and l.strip()]
req = [l for l in added if l.startswith("From ") or l.startswith("Require ")]
names = [l for l in added if l not in req]
e = ours["coq/Extract/Extract.v"]
e = e.replace("(* one Require line per area may be added below *)", "\n".join(req + ["(* one Require line per area may be added below *)"]))
e = e.replace("  (* add names below, one line per area *)", "\n".join(names + ["  (* add names below, one line per area *)"]))
open("coq/Extract/Extract.v", "w").write(e)
# known findings: union by id
k = json.loads(ours["known_findings.json"])
kt = json.loads(show(br, "known_findings.json") or '{"findings":[]}')
ids = {f.get("id") for f in k["findings"]}
for f in kt.get("findings", []):
    if f.get("id") not in ids:
        k["findings"].append(f)
json.dump(k, open("known_findings.json", "w"), indent=1)
subprocess.run(["git", "add", "coq/_CoqProject", "coq/Extract/Extract.v", "known_findings.json"])
r = subprocess.run(["git", "status", "--short"], stdout=subprocess.PIPE, text=True)
conf = [l for l in r.stdout.splitlines() if l[:2] in ("UU", "AA", "DU", "UD")]
print("remaining conflicts:", conf)
