#!/bin/bash
# replay one harness script against the library built from /repo's working tree.
# The harness is chosen from the replay directory (out/replay/<id>/...): store properties use h_store,
# file properties h_io, factorization properties h_fac, everything else h_solve.  QSX_ASAN=1: sanitizer build.
cd "$(dirname "$0")/.."
B=$(tools/build_repo.sh) || exit 2
case "$1" in
  *replay/C05/*|*replay/C06/*|*replay/C07/*|*replay/C16/*|*corpus/C05/*|*corpus/C06/*) H=h_store ;;
  *replay/C08/*|*replay/C09/*|*replay/C10/*|*replay/C11/*|*replay/C14/*|*replay/C19/*|*corpus/C11/*) H=h_io ;;
  *replay/C12/*|*replay/C13/*|*corpus/C12/*) H=h_fac ;;
  *) H=h_solve ;;
esac
[ -n "$QSX_HARNESS" ] && H=$QSX_HARNESS
D=$(mktemp -d /var/tmp/qsx_replay.XXXXXX)
grep -v '^#' "$1" | QSX_SCRATCH=$D "$B/$H${QSX_ASAN:+_asan}"
rc=$?
rm -rf "$D"
exit $rc
