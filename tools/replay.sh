#!/bin/bash
# replay one h_solve script against the library built from /repo's working tree
cd "$(dirname "$0")/.."
B=$(tools/build_repo.sh) || exit 2
grep -v '^#' "$1" | "$B/h_solve"
