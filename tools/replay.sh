#!/bin/bash
# replay one h_solve script against the library built from /repo's working tree
cd "$(dirname "$0")/.."
B=$(tools/build_repo.sh) || exit 2
D=$(mktemp -d /var/tmp/qsx_replay.XXXXXX)
grep -v '^#' "$1" | QSX_SCRATCH=$D "$B/h_solve${QSX_ASAN:+_asan}"
rc=$?
rm -rf "$D"
exit $rc
