#!/usr/bin/env python3
"""Regenerate coq/Gen/*.v from /repo's current source (translators).  Files are
rewritten only when their content changes, so unchanged sources cause no
recompilation."""
import os, sys, subprocess
HERE = os.path.dirname(os.path.abspath(__file__))
def main():
    for t in ("gen_consts.py", "gen_sites.py", "gen_guards.py"):
        p = os.path.join(HERE, t)
        if os.path.exists(p):
            r = subprocess.run([sys.executable, p])
            if r.returncode != 0:
                print("TRANSLATOR-FAILED", t, file=sys.stderr)
                sys.exit(2)
if __name__ == "__main__":
    main()
