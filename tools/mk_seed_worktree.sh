#!/bin/bash
# mk_seed_worktree.sh <dir> : scratch git worktree of /repo at HEAD, with the (untracked) autotools
# build system copied over and configured so that `make -j8 check` works inside it.
set -euo pipefail
D=$1
git -C /repo worktree add -q --detach "$D" HEAD
cd /repo
# untracked build-system files (no objects, no generated template instantiations)
for f in configure Makefile.in aclocal.m4 config.h.in config.guess config.sub install-sh ltmain.sh missing depcomp compile test-driver tap-driver.sh; do
  [ -e "$f" ] && [ ! -e "$D/$f" ] && cp -a "$f" "$D/$f"
done
[ -d m4 ] && rsync -a --ignore-existing m4/ "$D/m4/"
cd "$D"
./configure -q >/dev/null 2>&1 || { echo "configure failed" >&2; exit 2; }
echo "$D ready"
