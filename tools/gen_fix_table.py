#!/usr/bin/env python3
"""Rewrite the table of repairs (between the markers FIXTABLE-BEGIN / FIXTABLE-END) and the list of open findings
(OPEN-BEGIN / OPEN-END) of DESIGN.md from /repo's git log and known_findings.json."""
import json, re, subprocess, os
V = os.path.dirname(os.path.dirname(os.path.abspath(__file__)))
k = json.load(open(os.path.join(V, "known_findings.json")))
prop = {}
for f in k["findings"]:
    if f["state"] == "fixed":
        for c in re.findall(r"\b[0-9a-f]{7}\b", " ".join(f["text"].split(" ")[2:8])):
            prop.setdefault(c, set()).add(f["property"])
log = subprocess.run("git -C /repo log --reverse --format='%h|%s' ffc5c62..HEAD", shell=True, capture_output=True, text=True).stdout.strip().split("\n")
rows = []
for l in log:
    h, s = l.split("|", 1)
    if s.startswith("fix:"):
        rows.append("| %s | %s | %s |" % (h, " ".join(sorted(prop.get(h, []))) or "-", s[5:].replace("|", "/")))
table = "| commit | property | defect repaired (commit subject) |\n|---|---|---|\n" + "\n".join(rows) + "\n"
opens = [f for f in k["findings"] if f["state"] == "open"]
ol = "".join("* %s (%s): %s\n" % (f["id"], f["property"], f["text"][:260].replace("\n", " ") + ("..." if len(f["text"]) > 260 else "")) for f in opens)
p = os.path.join(V, "DESIGN.md")
s = open(p).read()
s = re.sub(r"(<!-- FIXTABLE-BEGIN -->\n).*?(<!-- FIXTABLE-END -->)", lambda m: m.group(1) + "%d repairs, all 20 tests pass after each.\n\n" % len(rows) + table + m.group(2), s, flags=re.S)
s = re.sub(r"(<!-- OPEN-BEGIN -->\n).*?(<!-- OPEN-END -->)", lambda m: m.group(1) + "%d open entries:\n\n" % len(opens) + ol + m.group(2), s, flags=re.S)
open(p, "w").write(s)
print(len(rows), "repairs,", len(opens), "open findings")
