#!/usr/bin/env python3
"""Translator for C20: lists every place of the *compiled* library (preprocessed translation units of
/repo's current working tree, hooks on) that can write to the process's standard streams:
calls of the stdio output family with their stream argument classified, and every other mention of
stdout/stderr.  Output: coq/Gen/Sites.v (rewritten only on change) and out/sites.json."""
import os, re, subprocess, sys, json

HERE = os.path.dirname(os.path.abspath(__file__))
VERIF = os.path.dirname(HERE)
FIRST = {"fprintf", "vfprintf", "dprintf", "vdprintf", "write"}
LAST = {"fputs", "fputc", "putc", "fwrite", "putc_unlocked", "fputs_unlocked", "fwrite_unlocked", "putw"}
IMPL_OUT = {"printf", "vprintf", "puts", "putchar", "putchar_unlocked"}
IMPL_ERR = {"perror", "psignal", "psiginfo"}
CALLEES = FIRST | LAST | IMPL_OUT | IMPL_ERR
NORETURN = {"abort", "exit", "_exit", "_Exit"}
TOK = re.compile(r'"(?:\\.|[^"\\])*"|\'(?:\\.|[^\'\\])*\'|[A-Za-z_]\w*|\d[\w.]*|->|\+\+|--|&&|\|\||[-+*/%<>=!&|^]=|<<|>>|[^\s]')


def build_dir():
    r = subprocess.run([os.path.join(HERE, "build_repo.sh")], stdout=subprocess.PIPE, stderr=subprocess.PIPE, text=True)
    if r.returncode != 0:
        sys.stderr.write(r.stderr)
        sys.exit(2)
    return r.stdout.strip().splitlines()[-1]


def compiled_files(src):
    main = "allocrus bgetopt eg_io eg_lpnum except urandom zeit names symtab util logging exact reporter eg_exutil eg_macros eg_memslab sortrus_common QSopt_ex_version".split()
    tmpl = "rawlp mps read_mps lp write_lp read_lp readline lpdata presolve factor basis price dstruct simplex fct ratio lib binary qsopt sortrus dheaps_i priority editor format eg_numutil".split()
    fs = [m + ".c" for m in main]
    for t in tmpl:
        fs += ["%s_%s.c" % (t, k) for k in ("dbl", "mpq", "mpf")]
    return [os.path.join(src, "qsopt_ex", f) for f in fs]


def scan(path, src):
    r = subprocess.run(["gcc", "-E", "-DHAVE_CONFIG_H", "-DQSX_VERIF", "-I.", "-Iqsopt_ex", path], cwd=src,
                       stdout=subprocess.PIPE, stderr=subprocess.PIPE, text=True, errors="replace")
    if r.returncode != 0:
        raise SystemExit("gcc -E failed on %s: %s" % (path, r.stderr[-500:]))
    sites = []
    cur_file, cur_line = path, 0
    toks = []    # (tok, file, line)
    for line in r.stdout.split("\n"):
        m = re.match(r'#\s*(\d+)\s+"([^"]*)"', line)
        if m:
            cur_line, cur_file = int(m.group(1)) - 1, m.group(2)
            continue
        cur_line += 1
        if "qsopt_ex/" not in cur_file and not cur_file.startswith("qsopt_ex"):
            continue                       # system headers
        for t in TOK.findall(line):
            toks.append((t, cur_file, cur_line))
    depth = 0
    func = None
    last_ident_at0 = None
    pdepth = 0
    consumed = set()
    i = 0
    n = len(toks)
    # first pass: function extents
    fn_of = [None] * n
    cand = None
    for i, (t, f, l) in enumerate(toks):
        if depth == 0:
            if t == "(":
                if pdepth == 0 and i > 0 and re.match(r"[A-Za-z_]\w*$", toks[i - 1][0]):
                    cand = toks[i - 1][0]
                pdepth += 1
            elif t == ")":
                pdepth -= 1
            elif t == "{":
                func = cand if (i > 0 and toks[i - 1][0] == ")") else None
                depth = 1
            elif t == ";":
                cand = None
        else:
            if t == "{":
                depth += 1
            elif t == "}":
                depth -= 1
                if depth == 0:
                    func = None
        fn_of[i] = func if depth > 0 else None

    def args_of(k):
        """tokens of the call starting at toks[k] == '(' -> (list of arg token lists, index after ')')"""
        d, cur, out = 0, [], []
        j = k
        while j < n:
            t = toks[j][0]
            if t in "([{":
                d += 1
                if d > 1:
                    cur.append(t)
            elif t in ")]}":
                d -= 1
                if d == 0:
                    out.append(cur)
                    return out, j + 1
                cur.append(t)
            elif t == "," and d == 1:
                out.append(cur)
                cur = []
            else:
                cur.append(t)
            j += 1
        return out, j

    def followed_by_noreturn(k):
        """is there a call of abort/exit later in the same block (before the enclosing '}')"""
        d = 0
        j = k
        while j < n:
            t = toks[j][0]
            if t == "{":
                d += 1
            elif t == "}":
                if d == 0:
                    return False
                d -= 1
            elif t in NORETURN and j + 1 < n and toks[j + 1][0] == "(" and d == 0:
                return True
            j += 1
        return False

    # file-scope statics of logging.c hold the registered handler: any function that assigns them, and any library function
    # that calls QSlog_set_handler, changes whether "a handler is installed" - the premise of the DefaultBranch exemption
    handler_vars = set()
    if os.path.basename(path) == "logging.c":
        for i, (t, f, l) in enumerate(toks):
            if fn_of[i] is None and t == "static":
                j = i + 1
                while j < n and toks[j][0] not in (";", "=", "(", "{"):
                    j += 1
                if j < n and toks[j][0] in (";", "=") and re.match(r"[A-Za-z_]\w*$", toks[j - 1][0]):
                    handler_vars.add(toks[j - 1][0])
    for i, (t, f, l) in enumerate(toks):
        if fn_of[i] is None:
            continue
        if t == "QSlog_set_handler" and i + 1 < n and toks[i + 1][0] == "(":
            sites.append(dict(file=f, line=l, func=fn_of[i], callee="<set-handler>", stream="handler-state", noreturn=False))
            continue
        if t in handler_vars and i + 1 < n and (toks[i + 1][0] in ("=", "++", "--") or re.match(r"[-+*/%&|^]=$|<<=|>>=", toks[i + 1][0])) and (i == 0 or toks[i - 1][0] not in (".", "->")):
            sites.append(dict(file=f, line=l, func=fn_of[i], callee="<handler-assign>", stream="handler-state", noreturn=False))
            continue
        if t in handler_vars and i > 0 and toks[i - 1][0] == "&":
            sites.append(dict(file=f, line=l, func=fn_of[i], callee="<handler-address>", stream="handler-state", noreturn=False))
            continue
        if t in CALLEES and i + 1 < n and toks[i + 1][0] == "(" and (i == 0 or toks[i - 1][0] not in (".", "->")):
            args, end = args_of(i + 1)
            if t in FIRST:
                s = args[0] if args else []
            elif t in LAST:
                s = args[-1] if args else []
            else:
                s = None
            if s is None:
                stream = "implicit-stdout" if t in IMPL_OUT else "implicit-stderr"
            else:
                txt = " ".join(s)
                if txt in ("stdout", "1") and (t != "write" or txt == "1"):
                    stream = "stdout"
                elif txt in ("stderr", "2") and (t != "write" or txt == "2"):
                    stream = "stderr"
                else:
                    stream = "handle:" + txt
                for j in range(i, end):
                    consumed.add(j)
            sites.append(dict(file=os.path.relpath(f, ".") if not f.startswith("/") else f, line=l, func=fn_of[i], callee=t, stream=stream,
                              noreturn=followed_by_noreturn(end)))
        elif t in ("stdout", "stderr") and i not in consumed:
            # any other escape of a standard stream (passed as argument, stored, compared)
            prev = toks[i - 1][0] if i else ""
            nxt = toks[i + 1][0] if i + 1 < n else ""
            kind = "compare" if prev in ("==", "!=") or nxt in ("==", "!=") else "escape"
            sites.append(dict(file=f, line=l, func=fn_of[i], callee="<" + kind + ">", stream=t, noreturn=False))
    return sites


def coq_str(s):
    return '"' + s.replace('"', '""') + '"'


def main():
    b = build_dir()
    src = os.path.join(b, "src")
    allsites = []
    for p in compiled_files(src):
        if os.path.exists(p):
            allsites += scan(p, src)
    # the three instantiations of a template share their origin: keep them all (they are different code),
    # but normalise the file name to the path inside qsopt_ex/
    for s in allsites:
        s["file"] = s["file"].split("qsopt_ex/")[-1]
    allsites.sort(key=lambda s: (s["file"], s["line"], s["callee"], s["stream"]))
    lines = ["(* GENERATED by tools/gen_sites.py from /repo's current source - do not edit. *)",
             "From Coq Require Import String List NArith.", "Import ListNotations.", "Local Open Scope string_scope.",
             "(* SHandlerState: the site does not write, it changes which log handler is registered *)",
             "Inductive stream := SStdout | SStderr | SImplicitOut | SImplicitErr | SHandlerState | SHandle (expr : string).",
             "(* s_base: enclosing function without the dbl_/mpf_/mpq_ instantiation prefix *)",
             "Record site := { s_file : string; s_line : N; s_func : string; s_base : string; s_callee : string; s_stream : stream; s_noreturn : bool }.",
             "Definition sites : list site := ["]
    body = []
    for s in allsites:
        st = {"stdout": "SStdout", "stderr": "SStderr", "implicit-stdout": "SImplicitOut", "implicit-stderr": "SImplicitErr", "handler-state": "SHandlerState"}.get(s["stream"])
        if st is None:
            st = "(SHandle %s)" % coq_str(s["stream"][7:][:60])
        fn = s["func"] or ""
        base = re.sub(r"^(dbl|mpf|mpq)_", "", fn)
        s["base"] = base
        body.append("  {| s_file := %s; s_line := %d%%N; s_func := %s; s_base := %s; s_callee := %s; s_stream := %s; s_noreturn := %s |}" % (
            coq_str(s["file"]), s["line"], coq_str(fn), coq_str(base), coq_str(s["callee"]), st, "true" if s["noreturn"] else "false"))
    lines.append(";\n".join(body))
    lines.append("].")
    os.makedirs(os.path.join(VERIF, "out"), exist_ok=True)
    json.dump(allsites, open(os.path.join(VERIF, "out", "sites.json"), "w"), indent=1)
    txt = "\n".join(lines) + "\n"
    out = os.path.join(VERIF, "coq", "Gen", "Sites.v")
    os.makedirs(os.path.dirname(out), exist_ok=True)
    if not os.path.exists(out) or open(out).read() != txt:
        open(out, "w").write(txt)
    print("sites: %d (direct std: %d)" % (len(allsites), sum(1 for s in allsites if not s["stream"].startswith("handle:"))), file=sys.stderr)


if __name__ == "__main__":
    main()
