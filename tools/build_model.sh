#!/bin/bash
# Build the Coq development (full .vo), extract the executable model, link the OCaml drivers.
# Usage: build_model.sh [clean]
set -euo pipefail
VERIF=$(cd "$(dirname "$0")/.." && pwd)
cd "$VERIF/coq"
exec 8>"$VERIF/coq/.build.lock"; flock 8        # checks running in parallel share one build
if [ "${1:-}" = clean ]; then
  [ -f Makefile ] && make -s clean >/dev/null 2>&1 || true
  find . -name '*.vo' -o -name '*.vos' -o -name '*.vok' -o -name '*.glob' -o -name '.*.aux' | xargs -r rm -f
  rm -rf "$VERIF/ocaml/gen"
fi
python3 "$VERIF/tools/gen_all.py"            # regenerate coq/Gen/*.v from /repo (only rewrites on change)
coq_makefile -f _CoqProject -o Makefile >/dev/null
mkdir -p "$VERIF/coq/.log"
if ! timeout 3000 make -k -j16 > "$VERIF/coq/.log/make.log" 2>&1; then
  echo "COQ-BUILD-INCOMPLETE (see coq/.log/make.log)" >&2
  grep -E "^File|Error" "$VERIF/coq/.log/make.log" | head -20 >&2 || true
fi
mkdir -p "$VERIF/ocaml/gen"
cd "$VERIF/ocaml/gen"
if [ ! -f model.ml ] || [ "$VERIF/coq/Extract/Extract.v" -nt model.ml ] || [ -n "$(find "$VERIF/coq" -name '*.vo' -not -path '*/Props/*' -newer model.ml | head -1)" ]; then
  timeout 600 coqc -Q "$VERIF/coq" QSX "$VERIF/coq/Extract/Extract.v" > extract.log 2>&1 || { cat extract.log >&2; echo "EXTRACT-FAILED" >&2; exit 2; }
fi
for d in "$VERIF"/ocaml/drv_*.ml; do
  n=$(basename "$d" .ml)
  if [ ! -x "$n" ] || [ "$d" -nt "$n" ] || [ model.ml -nt "$n" ] || [ "$VERIF/ocaml/glue.ml" -nt "$n" ]; then
    cp "$VERIF/ocaml/glue.ml" "$d" .
    # link under a temporary name and rename: a check that is running the old binary keeps it
    ocamlfind ocamlopt -O3 -w -a -package zarith,str -linkpkg model.mli model.ml glue.ml "$n.ml" -o "$n.new" 2> "build_$n.log" || \
    ocamlfind ocamlopt -w -a -package zarith,str -linkpkg model.mli model.ml glue.ml "$n.ml" -o "$n.new" 2> "build_$n.log" || { cat "build_$n.log" >&2; echo "OCAML-BUILD-FAILED $n" >&2; exit 2; }
    mv -f "$n.new" "$n"
  fi
done
echo OK
