#!/usr/bin/env python3
"""Translator for C07 (DESIGN 3.1): the range-check guards of the index arguments.

From the *preprocessed* translation units lib_mpq.c and qsopt_mpq.c of /repo's current working tree (QSX_REPO honoured through
tools/build_repo.sh) it extracts, for every function with an `int` / `int *` parameter that is compared with 0 and with a size
field (`->nrows ->ncols ->nstruct ->matrows ->matcols`, directly or through a local variable assigned from one of them or from
QSget_rowcount / QSget_colcount), the first `if (...)` that does so, as an expression tree over (index, nrows, nstruct, ncols),
and writes coq/Gen/Guards.v:

  guards      : list guard     (function, parameter, role, tree, source line)
  delegations : list (string * string * string * string)   public function.parameter -> the function.parameter whose guard covers it
  unguarded   : list (string * string)   public QS* function, index-like parameter without a guard on any path
  untranslated: list (string * string)   a condition that mentions an index parameter and a size field but is not of the
                                         translatable form (only comparisons, ||, &&, !)

The role (row | col = structural column | icol = internal column, logicals included) of a parameter is part of the interface, not
of the code: table ROLE below (by parameter name, with per-function exceptions).  coq/Store/GuardsOk.v proves that every extracted
guard rejects exactly the indices outside the range of its role; a weakened guard (`>` for `>=`, `ncols` for `nstruct`) breaks it.
The file is rewritten only when its content changes.  Exit status 0 unless the sources cannot be preprocessed."""
import os, re, subprocess, sys, json

HERE = os.path.dirname(os.path.abspath(__file__))
VERIF = os.path.dirname(HERE)
TOK = re.compile(r'"(?:\\.|[^"\\])*"|\'(?:\\.|[^\'\\])*\'|[A-Za-z_]\w*|\d[\w.]*|->|\+\+|--|&&|\|\||[-+*/%<>=!&|^]=|<<|>>|[^\s]')
IDENT = re.compile(r"[A-Za-z_]\w*$")
SIZE_FIELDS = {"nrows": "nrows", "ncols": "ncols", "nstruct": "nstruct", "matrows": "nrows", "matcols": "ncols"}
SIZE_CALLS = {"mpq_QSget_rowcount": "nrows", "mpq_QSget_colcount": "nstruct"}
INDEX_NAMES = {"indx", "rowindex", "colindex", "rowlist", "collist", "dellist", "rlist", "clist", "row", "col", "rowind", "colind",
               "ind", "rmatind", "cmatind", "colindx", "rowindx"}
# role of an index parameter: by name, with exceptions per function (the interface's meaning of the argument)
ROLE_BY_NAME = {"rowindex": "row", "rowlist": "row", "rlist": "row", "row": "row", "colindex": "col", "collist": "col", "col": "col"}
ROLE = {
    ("ILLlib_chgbnd", "indx"): "col", ("ILLlib_chgbnds", "indx"): "col", ("ILLlib_getbnd", "indx"): "col", ("ILLlib_chgobj", "indx"): "col",
    ("ILLlib_chgrhs", "indx"): "row", ("ILLlib_chgrange", "indx"): "row", ("ILLlib_chgsense", "rowlist"): "row",
    ("ILLlib_addrow", "ind"): "col", ("ILLlib_addrows", "rmatind"): "col", ("ILLlib_addcol", "ind"): "row", ("ILLlib_addcols", "cmatind"): "row",
    ("ILLlib_delrows", "dellist"): "row", ("ILLlib_delcols", "dellist"): "col",
    ("ILLlib_tableau", "row"): "row", ("ILLlib_getcoef", "rowindex"): "row", ("ILLlib_getcoef", "colindex"): "col",
    ("ILLlib_chgcoef", "rowindex"): "row", ("ILLlib_chgcoef", "colindex"): "col",
    # the matrix level works on internal columns (structurals and logicals): matcols = ncols, matrows = nrows
    ("matrix_addrow", "rowind"): "icol", ("matrix_addcol", "colind"): "row", ("matrix_addcoef", "row"): "row", ("matrix_addcoef", "col"): "icol",
    ("matrix_getcoef", "row"): "row", ("matrix_getcoef", "col"): "icol",
    ("QSopt_pivotin_col", "clist"): "icol", ("QSopt_pivotin_row", "rlist"): "row",
    ("QSget_binv_row", "indx"): "row", ("QSget_tableau_row", "indx"): "row",
    ("QSchange_objcoef", "indx"): "col", ("QSchange_rhscoef", "indx"): "row", ("QSchange_bound", "indx"): "col",
    ("QSdelete_rows", "dellist"): "row", ("QSdelete_cols", "dellist"): "col",
    ("QSget_bounds_list", "collist"): "col", ("ILLlib_getbnds_list", "collist"): "col",
}
# int* parameters with index-like names that are results, not arguments
OUT_PARAMS = {("QSget_column_index", "colindex"), ("QSget_row_index", "rowindex"), ("QSget_columns", "colind"), ("QSget_columns_list", "colind"),
              ("QSget_rows", "rowind"), ("QSget_rows_list", "rowind"), ("QSget_ranged_rows", "rowind"), ("QSget_ranged_rows_list", "rowind")}
PREFIX = "mpq_"


def build_dir():
    r = subprocess.run([os.path.join(HERE, "build_repo.sh")], stdout=subprocess.PIPE, stderr=subprocess.PIPE, text=True)
    if r.returncode != 0:
        sys.stderr.write(r.stderr)
        sys.exit(2)
    return r.stdout.strip().splitlines()[-1]


def tokens(path, src):
    r = subprocess.run(["gcc", "-E", "-DHAVE_CONFIG_H", "-DQSX_VERIF", "-I.", "-Iqsopt_ex", path], cwd=src,
                       stdout=subprocess.PIPE, stderr=subprocess.PIPE, text=True, errors="replace")
    if r.returncode != 0:
        raise SystemExit("gcc -E failed on %s: %s" % (path, r.stderr[-500:]))
    base = os.path.basename(path)
    cur_file, cur_line, toks = path, 0, []
    for line in r.stdout.split("\n"):
        m = re.match(r'#\s*(\d+)\s+"([^"]*)"', line)
        if m:
            cur_line, cur_file = int(m.group(1)) - 1, m.group(2)
            continue
        cur_line += 1
        if os.path.basename(cur_file) != base:
            continue
        for t in TOK.findall(line):
            toks.append((t, cur_line))
    return toks


def functions(toks):
    """[(name, params [(name, is_ptr)], body start, body end)] of the function definitions at brace depth 0"""
    out, depth, i, n = [], 0, 0, len(toks)
    while i < n:
        t = toks[i][0]
        if depth == 0 and t == "(" and i > 0 and IDENT.match(toks[i - 1][0]):
            name = toks[i - 1][0]
            j, d = i + 1, 1
            while j < n and d:
                d += toks[j][0] == "("
                d -= toks[j][0] == ")"
                j += 1
            if j < n and toks[j][0] == "{":
                params, cur = [], []
                for k in range(i + 1, j - 1):
                    if toks[k][0] == ",":
                        params.append(cur); cur = []
                    else:
                        cur.append(toks[k][0])
                params.append(cur)
                ps = []
                for p in params:
                    ids = [x for x in p if IDENT.match(x)]
                    if ids and "int" in p and "(" not in p:
                        ps.append((ids[-1], "*" in p or "[" in p))
                    elif ids:
                        ps.append((ids[-1], None))      # not an int parameter
                e, d = j + 1, 1
                while e < n and d:
                    d += toks[e][0] == "{"
                    d -= toks[e][0] == "}"
                    e += 1
                out.append((name, ps, j + 1, e - 1))
                i = e
                continue
            i = j
            continue
        if t == "{":
            depth += 1
        elif t == "}":
            depth -= 1
        i += 1
    return out


# ---- a small expression parser (conditions only) -------------------------------------------------------------------------
class P:
    def __init__(self, ts):
        self.ts, self.i = ts, 0

    def peek(self):
        return self.ts[self.i] if self.i < len(self.ts) else None

    def take(self):
        t = self.peek(); self.i += 1; return t

    def lor(self):
        a = self.land()
        while self.peek() == "||":
            self.take(); a = ("or", a, self.land())
        return a

    def land(self):
        a = self.cmp()
        while self.peek() == "&&":
            self.take(); a = ("and", a, self.cmp())
        return a

    def cmp(self):
        a = self.add()
        while self.peek() in ("<", "<=", ">", ">=", "==", "!="):
            op = self.take(); a = ("cmp", op, a, self.add())
        return a

    def add(self):
        a = self.unary()
        while self.peek() in ("+", "-", "*", "/", "%", "&", "|", "^", "<<", ">>"):
            op = self.take(); a = ("bin", op, a, self.unary())
        return a

    def unary(self):
        t = self.peek()
        if t == "!":
            self.take(); return ("not", self.unary())
        if t in ("-", "+", "*", "&", "~"):
            self.take(); return ("un", t, self.unary())
        return self.postfix()

    def postfix(self):
        t = self.take()
        if t is None:
            raise ValueError("eof")
        if t == "(":
            a = self.lor()
            if self.take() != ")":
                raise ValueError("paren")
        elif re.match(r"\d", t):
            a = ("num", t)
        elif t[0] in "'\"":
            a = ("lit", t)
        elif IDENT.match(t):
            a = ("id", t)
        else:
            raise ValueError("tok " + t)
        while True:
            t = self.peek()
            if t == "[":
                self.take(); ix = self.lor()
                if self.take() != "]":
                    raise ValueError("br")
                a = ("idx", a, ix)
            elif t in ("->", "."):
                self.take(); a = ("fld", a, self.take())
            elif t == "(":
                self.take(); args = []
                if self.peek() != ")":
                    args.append(self.lor())
                    while self.peek() == ",":
                        self.take(); args.append(self.lor())
                if self.take() != ")":
                    raise ValueError("call")
                a = ("call", a, args)
            else:
                return a


def parse(ts):
    p = P(ts)
    e = p.lor()
    if p.i != len(ts):
        raise ValueError("trailing")
    return e


def parse_arg(ts, alias):
    """one call argument; a local one-element array that holds a parameter (v[0] = p; f (.., v)) stands for that parameter"""
    for k in range(3):
        try:
            e = parse(ts)
            if e[0] == "id" and e[1] in alias:
                return ("id", alias[e[1]])
            return e
        except (ValueError, IndexError):
            if ts and ts[0] == "(" and ")" in ts:       # strip a leading cast
                ts = ts[ts.index(")") + 1:]
            else:
                break
    return ("unk",)


VALIAS = {}     # per function: local scalar -> the parameter it was loaded from (col = collist[j];)


def root_id(e):
    while e[0] in ("idx", "fld"):
        if e[0] == "fld":
            return None
        e = e[1]
    return VALIAS.get(e[1], e[1]) if e[0] == "id" else None


def mentions(e, names):
    if e[0] == "id":
        return {e[1]} & names
    s = set()
    for x in e[1:]:
        if isinstance(x, tuple):
            s |= mentions(x, names)
        elif isinstance(x, list):
            for y in x:
                s |= mentions(y, names)
    return s


def size_of(e, local):
    """nrows | ncols | nstruct when e denotes a size, else None"""
    if e[0] == "fld" and e[2] in SIZE_FIELDS:
        return SIZE_FIELDS[e[2]]
    if e[0] == "id" and e[1] in local:
        return local[e[1]]
    if e[0] == "call" and e[1][0] == "id" and e[1][1] in SIZE_CALLS:
        return SIZE_CALLS[e[1][1]]
    return None


def leaf(e, param, local):
    """comparison of the parameter with 0 or a size -> ('cmp', op, 'idx', term) | None"""
    _, op, a, b = e
    flip = {"<": ">", "<=": ">=", ">": "<", ">=": "<=", "==": "==", "!=": "!="}
    if root_id(b) == param and root_id(a) != param:
        a, b, op = b, a, flip[op]
    if root_id(a) != param:
        return None
    if b[0] == "num":
        try:
            return ("cmp", op, "idx", int(b[1], 0))
        except ValueError:
            return None
    s = size_of(b, local)
    return ("cmp", op, "idx", s) if s else None


def to_tree(e, param, local):
    """tree over the one parameter, or None if e is not of the translatable form"""
    if e[0] in ("or", "and"):
        a, b = to_tree(e[1], param, local), to_tree(e[2], param, local)
        return (e[0], a, b) if a and b else None
    if e[0] == "not":
        a = to_tree(e[1], param, local)
        return ("not", a) if a else None
    if e[0] == "cmp":
        return leaf(e, param, local)
    return None


def about(e, p):
    """the condition tests the parameter p itself (p or p[..] is one side of a comparison), not merely uses it in a subscript"""
    if e[0] == "cmp":
        return root_id(e[2]) == p or root_id(e[3]) == p
    if e[0] in ("or", "and"):
        return about(e[1], p) or about(e[2], p)
    if e[0] == "not":
        return about(e[1], p)
    return False


def disjuncts(e):
    return disjuncts(e[1]) + disjuncts(e[2]) if e[0] == "or" else [e]


def scan_function(name, params, toks, lo, hi):
    """guards {param: (tree, line)}, untranslated [(param, line)], calls [(callee, [arg expr])]"""
    ints = {p for p, ptr in params if ptr is not None}
    guards, bad, calls, local, alias = {}, [], [], {}, {}
    VALIAS.clear()
    i = lo
    while i < hi:
        t = toks[i][0]
        # local = <size>;
        if IDENT.match(t) and i + 1 < hi and toks[i + 1][0] == "=" and toks[i - 1][0] in (";", "{", "}", ",", "int", ")"):
            j = i + 2
            while j < hi and toks[j][0] not in (";", ","):
                j += 1
            try:
                rhs = parse([x[0] for x in toks[i + 2:j]])
                s = size_of(rhs, local)
                VALIAS.pop(t, None)
                if rhs[0] == "idx" and rhs[1][0] == "id" and rhs[1][1] in ints and t not in ints:
                    VALIAS[t] = rhs[1][1]
            except (ValueError, IndexError):
                s = None
            if s:
                local[t] = s
            elif t in local:
                del local[t]
        # v[0] = p;   (a single index handed on as a one-element list)
        if IDENT.match(t) and i + 6 < hi and [x[0] for x in toks[i + 1:i + 5]] == ["[", "0", "]", "="] and toks[i + 5][0] in ints and toks[i + 6][0] == ";":
            alias[t] = toks[i + 5][0]
        if t == "if" and toks[i + 1][0] == "(":
            j, d = i + 2, 1
            while j < hi and d:
                d += toks[j][0] == "("
                d -= toks[j][0] == ")"
                j += 1
            cond = [x[0] for x in toks[i + 2:j - 1]]
            line = toks[i][1]
            try:
                e = parse(cond)
            except (ValueError, IndexError):
                e = None
            if e is not None:
                for p in sorted(mentions(e, ints) | {VALIAS[x] for x in mentions(e, set(VALIAS))}):
                    if p in guards:
                        continue
                    ds = [d_ for d_ in disjuncts(e) if about(d_, p)]
                    mine = [d_ for d_ in ds if not any(about(d_, q) for q in ints - {p})]
                    trees = [to_tree(d_, p, local) for d_ in mine]
                    sizey = any(tr and any(isinstance(x, str) and x in ("nrows", "ncols", "nstruct") for x in flat(tr)) for tr in trees)
                    if not sizey:
                        continue                    # not a range check of p (e.g. `num < 0`, `p == 0`)
                    if len(mine) != len(ds) or any(tr is None for tr in trees):
                        bad.append((p, line)); continue
                    tr = trees[0]
                    for x in trees[1:]:
                        tr = ("or", tr, x)
                    guards[p] = (tr, line)
        if IDENT.match(t) and toks[i + 1][0] == "(" and t not in ("if", "while", "for", "switch", "return", "sizeof"):
            j, d = i + 2, 1
            while j < hi and d:
                d += toks[j][0] == "("
                d -= toks[j][0] == ")"
                j += 1
            args, cur, d = [], [], 0
            for x, _ in toks[i + 2:j - 1]:
                if x == "," and d == 0:
                    args.append(cur); cur = []
                else:
                    d += x in "(["
                    d -= x in ")]"
                    cur.append(x)
            if cur or args:
                args.append(cur)
            calls.append((t, [parse_arg(a, alias) for a in args]))
        i += 1
    return guards, bad, calls


def flat(tr):
    out = []
    for x in tr:
        if isinstance(x, tuple):
            out += flat(x)
        else:
            out.append(x)
    return out


def short(fn):
    fn = fn[len(PREFIX):] if fn.startswith(PREFIX) else fn
    return fn


def role_of(fn, p):
    return ROLE.get((short(fn), p)) or ROLE_BY_NAME.get(p) or "unknown"


def coq_tree(tr):
    if tr[0] in ("or", "and"):
        return "(%s %s %s)" % ("GOr" if tr[0] == "or" else "GAnd", coq_tree(tr[1]), coq_tree(tr[2]))
    if tr[0] == "not":
        return "(GNot %s)" % coq_tree(tr[1])
    _, op, _, b = tr
    c = {"<": "CLt", "<=": "CLe", ">": "CGt", ">=": "CGe", "==": "CEq", "!=": "CNe"}[op]
    term = {"nrows": "TNrows", "ncols": "TNcols", "nstruct": "TNstruct"}.get(b) if isinstance(b, str) else "(TConst (%d))" % b
    return "(GCmp %s %s)" % (c, term)


def main():
    b = build_dir()
    src = os.path.join(b, "src")
    fns = {}
    for f in ("lib_mpq.c", "qsopt_mpq.c"):
        toks = tokens(os.path.join(src, "qsopt_ex", f), src)
        for name, params, lo, hi in functions(toks):
            g, bad, calls = scan_function(name, params, toks, lo, hi)
            fns[name] = dict(file=f.replace("_mpq", ""), params=params, guards=g, bad=bad, calls=calls)
    guards, untranslated, deleg, unguarded = [], [], [], []
    for name in sorted(fns):
        d = fns[name]
        for p, (tr, line) in sorted(d["guards"].items()):
            guards.append((short(name), p, role_of(name, p), tr, "%s:%d" % (d["file"], line)))
        for p, line in d["bad"]:
            untranslated.append((short(name), "%s (%s:%d)" % (p, d["file"], line)))

    def covered(fn, p, depth=0, seen=()):
        """the (function, parameter) whose guard covers parameter p of fn: itself, or a callee that receives p unchanged"""
        d = fns.get(fn)
        if d is None or depth > 4 or (fn, p) in seen:
            return None
        if p in d["guards"]:
            return (fn, p)
        for callee, args in d["calls"]:
            cd = fns.get(callee)
            if cd is None:
                continue
            for k, a in enumerate(args):
                # the parameter itself, or the address of it (single index handed on as a one-element list)
                direct = (a[0] == "id" and a[1] == p) or (a[0] == "un" and a[1] == "&" and a[2][0] == "id" and a[2][1] == p)
                if direct and k < len(cd["params"]):
                    r = covered(callee, cd["params"][k][0], depth + 1, seen + ((fn, p),))
                    if r:
                        return r
        return None

    for name in sorted(fns):
        d = fns[name]
        if d["file"] != "qsopt.c" or not short(name).startswith("QS"):
            continue
        for p, ptr in d["params"]:
            if ptr is None or p not in INDEX_NAMES or (short(name), p) in OUT_PARAMS:
                continue
            r = covered(name, p)
            if r is None:
                unguarded.append((short(name), p))
            elif r != (name, p):
                deleg.append((short(name), p, short(r[0]), r[1]))
    lines = ["(* GENERATED by tools/gen_guards.py from qsopt_ex/lib.c and qsopt_ex/qsopt.c of the current source tree - do not edit.",
             "   One record per (function, index parameter): the first range check of that parameter, as a tree over",
             "   (index, nrows, nstruct, ncols).  Proofs about this list: coq/Store/GuardsOk.v. *)",
             "From Coq Require Import ZArith List String.", "From QSX Require Import Store.GuardDefs.", "Import ListNotations.",
             "Open Scope string_scope.", "Open Scope Z_scope.", "",
             "Definition guards : list guard := ["]
    lines.append(";\n".join('  {| g_fn := "%s"; g_arg := "%s"; g_role := %s; g_tree := %s; g_src := "%s" |}'
                            % (fn, p, {"row": "RRow", "col": "RCol", "icol": "RICol", "unknown": "RUnknown"}[role], coq_tree(tr), srcl)
                            for fn, p, role, tr, srcl in guards))
    lines += ["].", "", "(* public function . parameter -> the function . parameter whose guard covers it *)",
              "Definition delegations : list (string * string * string * string) := ["]
    lines.append(";\n".join('  ("%s", "%s", "%s", "%s")' % x for x in deleg))
    lines += ["].", "", "(* public QS* functions with an index-like parameter and no range check on any path *)",
              "Definition unguarded : list (string * string) := [" + "; ".join('("%s", "%s")' % x for x in unguarded) + "].", "",
              "(* conditions that mention an index parameter and a size but are not of the translatable form *)",
              "Definition untranslated : list (string * string) := [" + "; ".join('("%s", "%s")' % x for x in untranslated) + "].", ""]
    text = "\n".join(lines)
    out = os.path.join(VERIF, "coq", "Gen", "Guards.v")
    os.makedirs(os.path.dirname(out), exist_ok=True)
    if not os.path.exists(out) or open(out).read() != text:
        open(out, "w").write(text)
    od = os.environ.get("QSX_OUT", os.path.join(VERIF, "out"))
    os.makedirs(od, exist_ok=True)
    json.dump(dict(guards=[dict(fn=a, arg=b_, role=c, tree=coq_tree(d), src=e) for a, b_, c, d, e in guards], delegations=deleg, unguarded=unguarded,
                   untranslated=untranslated), open(os.path.join(od, "guards.json"), "w"), indent=1)
    print("guards: %d (delegations %d, unguarded %d, untranslated %d)" % (len(guards), len(deleg), len(unguarded), len(untranslated)))


if __name__ == "__main__":
    main()
