#!/bin/bash
# eval_seed.sh <worktree> <k> <Cxx> [more checks...]
#  1. confirm in the scratch worktree: patch applies, 20 tests pass, demo FAILS with / PASSES without the change
#  2. apply the patch to /repo, run the given checks (quick), revert /repo
# Prints a summary; copies the seed into /verif/seeded/<Cxx>_<k>/ when confirmed.
VERIF_DIR=$(cd "$(dirname "$0")/.." && pwd)     # works from any clone of /verif
WT=$1; K=$2; shift 2
S=$WT/_seeded/$K
cd "$WT" || exit 2
git checkout -q -- . ; git apply "$S/patch.diff" || { echo "PATCH-DOES-NOT-APPLY"; exit 2; }
make -j16 >/dev/null 2>&1; T=$(make -j16 check 2>&1 | grep -E "^# PASS:" | awk '{print $3}')
rundemo() {
  if [ -f "$S/run.sh" ]; then sh "$S/run.sh" >/dev/null 2>&1
  elif [ -f "$S/demo.sh" ]; then bash "$S/demo.sh" >/dev/null 2>&1
  else
    gcc -I. -Iqsopt_ex -I"$S" -DHAVE_CONFIG_H "$S/demo.c" -o "$S/demo" .libs/libqsopt_ex.so -lgmp -lm -Wl,-rpath,$PWD/.libs 2>/dev/null
    "$S/demo" >/dev/null 2>&1
  fi
}
rundemo; W=$?
git checkout -q -- . ; make -j16 >/dev/null 2>&1
rundemo; WO=$?
echo "CONFIRM tests_pass=$T demo_with_change_rc=$W demo_without_rc=$WO"
if [ "$T" != "20" ] || [ "$W" = "0" ] || [ "$WO" != "0" ]; then echo "NOT-CONFIRMED"; fi
cd "$VERIF_DIR"
# The checks are pointed at the scratch worktree (with the change applied) through QSX_REPO / QSX_CACHE instead
# of applying the patch to /repo itself: builder agents and background runs build from /repo concurrently and
# must never see a seeded change.  Same code path otherwise (tools/build_repo.sh honours QSX_REPO).
SCR=$(mktemp -d /var/tmp/qsx_seedrun.XXXXXX)     # evidence / replays written under a mutation go to a scratch directory
( cd "$WT" && git checkout -q -- . && git apply "$S/patch.diff" ) || { echo "PATCH-DOES-NOT-APPLY"; exit 2; }
export QSX_REPO="$WT" QSX_CACHE=$SCR/cache QSX_OUT=$SCR/out QSX_EVIDENCE=$SCR/evidence
mkdir -p $SCR/out $SCR/evidence
for c in "$@"; do
  out=$(timeout 1500 ./check $c quick 2>&1); rc=$?
  echo "CHECK $c rc=$rc  $(echo "$out" | grep -c '^VIOLATION') violation lines; first: $(echo "$out" | grep '^# ' | head -1 | cut -c1-220)"
done
( cd "$WT" && git checkout -q -- . )
rm -rf "$SCR"
