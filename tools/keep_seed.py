#!/usr/bin/env python3
"""keep_seed.py <seed worktree> <k> <name> <caught_by text> : copy a confirmed seeded change into /verif/seeded/<name>/
(patch.diff, demo*, README.txt, meta.json extended with caught_by / confirmed)."""
import sys, os, json, shutil, glob
wt, k, name, caught = sys.argv[1:5]
src = os.path.join(wt, "_seeded", k)
dst = os.path.join(os.path.dirname(os.path.dirname(os.path.abspath(__file__))), "seeded", name)
os.makedirs(dst, exist_ok=True)
for f in glob.glob(os.path.join(src, "*")):
    b = os.path.basename(f)
    if os.path.isfile(f) and (b in ("patch.diff", "README.txt", "meta.json") or b.startswith("demo") or b.startswith("run")) and os.path.getsize(f) < 400000 \
            and not os.access(f, os.X_OK) or b.endswith(".sh"):
        shutil.copy(f, os.path.join(dst, b))
m = json.load(open(os.path.join(src, "meta.json")))
m["caught_by"] = [c.strip() for c in caught.split(";") if c.strip()]
m["confirmed"] = "tools/eval_seed.sh in an isolated clone of /verif: patch applies on /repo HEAD, make check 20/20, demo fails with / passes without the change; checks run with QSX_REPO = the scratch worktree with the change applied"
json.dump(m, open(os.path.join(dst, "meta.json"), "w"), indent=1)
print(dst, sorted(os.listdir(dst)))
