#!/opt/veriftools/pyvenv/bin/python
import json, jsonschema, sys, glob
m = json.load(open('/verif/MANIFEST.json'))
jsonschema.validate(m, json.load(open('/root/.vp/MANIFEST.schema.json')))
es = json.load(open('/root/.vp/EVIDENCE.schema.json'))
for c in m['checks']:
    try:
        jsonschema.validate(json.load(open('/verif/' + c['evidence_file'])), es)
    except Exception as e:
        print('EVIDENCE INVALID', c['property_id'], str(e)[:300])
ids = [c['property_id'] for c in m['checks']] + [n['property_id'] for n in m.get('not_applicable', [])]
assert sorted(ids) == ['C%02d' % i for i in range(1, 21)], sorted(ids)
print('valid', len(m['checks']), 'checks')
