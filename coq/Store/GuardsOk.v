(* Every range check that tools/gen_guards.py finds in the CURRENT source (coq/Gen/Guards.v is regenerated on every run) is exact:
   it rejects precisely the indices outside the valid range of the argument's role - rows 0 <= i < nrows, structural columns
   0 <= j < nstruct, internal columns 0 <= j < ncols = nstruct + nrows.  The proof runs over the finite generated list: one goal
   per guard, each reduced to linear arithmetic.  A guard weakened in the source (`indx > nstruct`, `ncols` for `nstruct`, a
   dropped `< 0`) makes its goal false and this file stops compiling: checks/C07.py then reports the obligation as broken and
   looks for a concrete failing index (guard_accepts vs role_accepts at the boundary values, then on the library).
   Also: every public QS* function with an index argument reaches such a guard (unguarded = []), nothing was left
   untranslated, and every argument has a role. *)
From Coq Require Import ZArith List String Bool Lia.
From QSX Require Import Store.GuardDefs Gen.Guards.
Import ListNotations.
Open Scope Z_scope.

Ltac guard_goal :=
  unfold guard_exact; cbn [g_tree g_role rejects cmp_val term_val idx_in_range]; intros i nrows nstruct ncols Hr Hs Hc;
  rewrite ?orb_true_iff, ?andb_true_iff, ?negb_true_iff, ?orb_false_iff, ?andb_false_iff, ?negb_false_iff,
          ?Z.ltb_lt, ?Z.leb_le, ?Z.eqb_eq, ?Z.ltb_ge, ?Z.leb_gt, ?Z.eqb_neq;
  lia.

Theorem guards_exact : Forall guard_exact guards.
Proof. unfold guards. repeat (apply Forall_cons; [guard_goal|]). apply Forall_nil. Qed.

Theorem guards_complete : unguarded = [] /\ untranslated = [].
Proof. split; reflexivity. Qed.

Theorem guards_classified : forallb (fun g => match g_role g with RUnknown => false | _ => true end) guards = true.
Proof. vm_compute. reflexivity. Qed.

(* the executable comparison used by the check agrees with the theorem's notions *)
Lemma role_accepts_spec r i nrows nstruct : role_accepts r i nrows nstruct = true <-> idx_in_range r i nrows nstruct (nstruct + nrows).
Proof.
  destruct r; simpl; rewrite ?andb_true_iff, ?Z.leb_le, ?Z.ltb_lt; try tauto. split; [discriminate|intros []].
Qed.

Corollary guards_accept_iff_valid : Forall (fun g => forall i nrows nstruct, 0 <= nrows -> 0 <= nstruct ->
  guard_accepts g i nrows nstruct = role_accepts (g_role g) i nrows nstruct) guards.
Proof.
  eapply Forall_impl; [|exact guards_exact]. intros g E i nrows nstruct Hr Hs. specialize (E i nrows nstruct (nstruct + nrows) Hr Hs eq_refl).
  unfold guard_accepts. pose proof (role_accepts_spec (g_role g) i nrows nstruct) as S.
  destruct (rejects (g_tree g) i nrows nstruct (nstruct + nrows)); destruct (role_accepts (g_role g) i nrows nstruct); simpl; try reflexivity.
  - exfalso. apply (proj1 E eq_refl). apply S. reflexivity.
  - exfalso. assert (X : ~ idx_in_range (g_role g) i nrows nstruct (nstruct + nrows)) by (intros C; apply S in C; discriminate).
    apply E in X. discriminate.
Qed.

(* the number of guards the theorem covers (printed into the evidence) *)
Definition n_guards : nat := List.length guards.
Definition n_delegations : nat := List.length delegations.
