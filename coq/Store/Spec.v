(* L1 of DESIGN 4.5: the abstract reference model of the problem store.

   What a user would write down: columns and rows as lists with names; every
   column carries its *stored* coefficient entries (row index, value) in the
   order in which the calls created them - explicit zeros and repeated row
   indices are kept, because QSchange_coef stores zeros, QSget_nzcount counts
   stored entries and QSadd_row with a repeated column index stores both -;
   senses, right-hand sides, ranges, bounds, objective, objective sense,
   integer marks and the parameters that QSset_param* can set.

   [pstep M p op] is the documented meaning of one public call on one problem:
   it returns the new problem and either [ROk payload] or [RErr].  Validity of
   arguments is written from the text of property C07: indices in the
   structural / row range, names unique (new) or known (lookup/delete),
   senses in {L,G,E,R}, bound selectors in {L,U,B}, legal parameter values,
   index lists without repetition.  Calls on several rows/columns are atomic:
   either every item is valid and all are applied, or nothing changes.

   [sstep] lifts this to a store of several handles with create / load / copy /
   free (C16). *)
From Coq Require Import String Ascii DecimalString ZArith.
From QSX Require Export LP.User.
Local Open Scope Q_scope.

(* ---- data --------------------------------------------------------------------------- *)

Record scol := { sc_name : string; sc_obj : Q; sc_lo : Q; sc_up : Q; sc_int : bool; sc_ent : list (nat * Q) }.
Record srow := { sr_name : string; sr_sense : sense; sr_rhs : Q; sr_range : Q }.
Record params := { pa_pprice : Z; pa_dprice : Z; pa_display : Z; pa_maxiter : Z; pa_scaling : Z;
                   pa_maxtime : Q; pa_ulim : Q; pa_llim : Q }.
Record prob := { p_max : bool; p_cols : list scol; p_rows : list srow; p_par : params }.

Definition default_params (M : Q) : params :=
  {| pa_pprice := 3; pa_dprice := 7; pa_display := 0; pa_maxiter := 500000; pa_scaling := 1;
     pa_maxtime := 300000; pa_ulim := M; pa_llim := - M |}.
Definition empty_prob (M : Q) (mx : bool) : prob :=
  {| p_max := mx; p_cols := []; p_rows := []; p_par := default_params M |}.

Definition ncol (p : prob) := length (p_cols p).
Definition nrow (p : prob) := length (p_rows p).
Definition colnames (p : prob) := map sc_name (p_cols p).
Definition rownames (p : prob) := map sr_name (p_rows p).

Definition set_cols (p : prob) (c : list scol) : prob :=
  {| p_max := p_max p; p_cols := c; p_rows := p_rows p; p_par := p_par p |}.
Definition set_rows (p : prob) (r : list srow) : prob :=
  {| p_max := p_max p; p_cols := p_cols p; p_rows := r; p_par := p_par p |}.
Definition set_max (p : prob) (b : bool) : prob :=
  {| p_max := b; p_cols := p_cols p; p_rows := p_rows p; p_par := p_par p |}.
Definition set_par (p : prob) (a : params) : prob :=
  {| p_max := p_max p; p_cols := p_cols p; p_rows := p_rows p; p_par := a |}.
Definition set_ent (c : scol) (e : list (nat * Q)) : scol :=
  {| sc_name := sc_name c; sc_obj := sc_obj c; sc_lo := sc_lo c; sc_up := sc_up c; sc_int := sc_int c; sc_ent := e |}.

(* ---- arguments ---------------------------------------------------------------------- *)

(* an index argument is a C int: any integer; valid iff 0 <= z < n *)
Definition idx (n : nat) (z : Z) : option nat :=
  if ((0 <=? z)%Z && (z <? Z.of_nat n)%Z)%bool then Some (Z.to_nat z) else None.

Fixpoint idxs (n : nat) (l : list Z) : option (list nat) :=
  match l with
  | [] => Some []
  | z :: r => match idx n z, idxs n r with Some i, Some t => Some (i :: t) | _, _ => None end
  end.

Fixpoint conv_ent (n : nat) (e : list (Z * Q)) : option (list (nat * Q)) :=
  match e with
  | [] => Some []
  | (z, v) :: r => match idx n z, conv_ent n r with Some i, Some t => Some ((i, v) :: t) | _, _ => None end
  end.

Definition sense_of_ascii (a : ascii) : option sense :=
  if Ascii.eqb a "L" then Some SL else if Ascii.eqb a "G" then Some SG
  else if Ascii.eqb a "E" then Some SE else if Ascii.eqb a "R" then Some SR else None.
Definition sense_str (s : sense) : string :=
  match s with SL => "L" | SG => "G" | SE => "E" | SR => "R" end%string.

Inductive lusel := LuL | LuU | LuB.
Definition lu_of_ascii (a : ascii) : option lusel :=
  if Ascii.eqb a "L" then Some LuL else if Ascii.eqb a "U" then Some LuU
  else if Ascii.eqb a "B" then Some LuB else None.

Fixpoint memn (i : nat) (l : list nat) : bool :=
  match l with [] => false | k :: r => (Nat.eqb k i || memn i r)%bool end.
Fixpoint nodupn (l : list nat) : bool :=
  match l with [] => true | k :: r => (negb (memn k r) && nodupn r)%bool end.

(* ---- names -------------------------------------------------------------------------- *)

Definition mems (s : string) (l : list string) : bool := existsb (String.eqb s) l.
Definition dec (n : nat) : string := NilEmpty.string_of_uint (Nat.to_uint n).

(* ILLsymboltab_uname: <base>_0, <base>_1, ... with the table size as fuel *)
Fixpoint first_free (base : string) (names : list string) (fuel k : nat) : option string :=
  match fuel with
  | O => None
  | S f => let c := (base ++ "_" ++ dec k)%string in
           if mems c names then first_free base names f (S k) else Some c
  end.
(* ILLlib_findName with name == NULL: "c<nrows+1>" / "x<ncols+1>", made unique *)
Definition gen_name (pre : string) (names : list string) : option string :=
  let base := (pre ++ dec (S (length names)))%string in
  if mems base names then first_free base names (S (length names)) 0 else Some base.
Definition pick_name (pre : string) (names : list string) (nm : option string) : option string :=
  match nm with
  | None => gen_name pre names
  | Some s => if mems s names then None else Some s
  end.

Fixpoint find_name (s : string) (l : list string) (i0 : nat) : option nat :=
  match l with
  | [] => None
  | a :: r => if String.eqb a s then Some i0 else find_name s r (S i0)
  end.
Definition row_index (p : prob) (s : string) : option nat := find_name s (rownames p) 0.
Definition col_index (p : prob) (s : string) : option nat := find_name s (colnames p) 0.

Fixpoint find_names (names : list string) (l : list string) : option (list nat) :=
  match l with
  | [] => Some []
  | s :: r => match find_name s names 0, find_names names r with Some i, Some t => Some (i :: t) | _, _ => None end
  end.

(* ---- list helpers ------------------------------------------------------------------- *)

Fixpoint remove_nth {A} (i : nat) (l : list A) : list A :=
  match l, i with
  | [], _ => []
  | _ :: r, O => r
  | a :: r, S k => a :: remove_nth k r
  end.
Fixpoint upd_nth {A} (i : nat) (f : A -> A) (l : list A) : list A :=
  match l, i with
  | [], _ => []
  | a :: r, O => f a :: r
  | a :: r, S k => a :: upd_nth k f r
  end.
Fixpoint insert_desc (x : nat) (l : list nat) : list nat :=
  match l with [] => [x] | y :: r => if Nat.leb y x then x :: l else y :: insert_desc x r end.
Definition sort_desc (l : list nat) : list nat := fold_right insert_desc [] l.

(* ---- edits -------------------------------------------------------------------------- *)

Definition add_col (p : prob) (obj lo up : Q) (nm : option string) (ent : list (Z * Q)) : option prob :=
  match pick_name "x" (colnames p) nm, conv_ent (nrow p) ent with
  | Some s, Some e =>
      Some (set_cols p (p_cols p ++ [{| sc_name := s; sc_obj := obj; sc_lo := lo; sc_up := up; sc_int := false; sc_ent := e |}]))
  | _, _ => None
  end.

(* append to every column the entries the new row i has for it, in the order given *)
Fixpoint app_row (cols : list scol) (j0 i : nat) (ent : list (nat * Q)) : list scol :=
  match cols with
  | [] => []
  | c :: r => set_ent c (sc_ent c ++ map (fun e => (i, snd e)) (filter (fun e => Nat.eqb (fst e) j0) ent))
              :: app_row r (S j0) i ent
  end.

Definition add_row (p : prob) (rhs : Q) (sn : ascii) (rng : option Q) (nm : option string) (ent : list (Z * Q)) : option prob :=
  match sense_of_ascii sn, pick_name "c" (rownames p) nm, conv_ent (ncol p) ent with
  | Some s, Some name, Some e =>
      let r := {| sr_name := name; sr_sense := s; sr_rhs := rhs;
                  sr_range := match s, rng with SR, Some g => g | _, _ => 0 end |} in
      Some {| p_max := p_max p; p_cols := app_row (p_cols p) 0 (nrow p) e; p_rows := p_rows p ++ [r]; p_par := p_par p |}
  | _, _, _ => None
  end.

Definition colspec : Type := Q * Q * Q * option string * list (Z * Q).
Definition rowspec : Type := Q * ascii * option Q * option string * list (Z * Q).

Fixpoint add_cols (p : prob) (l : list colspec) : option prob :=
  match l with
  | [] => Some p
  | (obj, lo, up, nm, ent) :: r => match add_col p obj lo up nm ent with Some p' => add_cols p' r | None => None end
  end.
Fixpoint add_rows (p : prob) (l : list rowspec) : option prob :=
  match l with
  | [] => Some p
  | (rhs, sn, rng, nm, ent) :: r => match add_row p rhs sn rng nm ent with Some p' => add_rows p' r | None => None end
  end.

Definition del_ent (i : nat) (e : list (nat * Q)) : list (nat * Q) :=
  map (fun kv => (if Nat.ltb i (fst kv) then pred (fst kv) else fst kv, snd kv))
      (filter (fun kv => negb (Nat.eqb (fst kv) i)) e).
Definition del_row_one (p : prob) (i : nat) : prob :=
  {| p_max := p_max p; p_cols := map (fun c => set_ent c (del_ent i (sc_ent c))) (p_cols p);
     p_rows := remove_nth i (p_rows p); p_par := p_par p |}.
Definition del_col_one (p : prob) (j : nat) : prob := set_cols p (remove_nth j (p_cols p)).

(* deleting a set of rows = deleting them one at a time from the highest index down *)
Definition del_rows_n (p : prob) (ds : list nat) : prob := fold_left del_row_one (sort_desc ds) p.
Definition del_cols_n (p : prob) (ds : list nat) : prob := fold_left del_col_one (sort_desc ds) p.

Definition del_rows (p : prob) (l : list Z) : option prob :=
  match idxs (nrow p) l with
  | Some ds => if nodupn ds then Some (del_rows_n p ds) else None
  | None => None
  end.
Definition del_cols (p : prob) (l : list Z) : option prob :=
  match idxs (ncol p) l with
  | Some ds => if nodupn ds then Some (del_cols_n p ds) else None
  | None => None
  end.

(* QSdelete_setrows: flags[i] == 1 marks row i *)
Fixpoint flagged (flags : list Z) (i0 n : nat) : list nat :=
  match n with
  | O => []
  | S k => match flags with
           | [] => []
           | f :: r => if (f =? 1)%Z then i0 :: flagged r (S i0) k else flagged r (S i0) k
           end
  end.

Definition del_named_rows (p : prob) (l : list string) : option prob :=
  match find_names (rownames p) l with
  | Some ds => if nodupn ds then Some (del_rows_n p ds) else None
  | None => None
  end.
Definition del_named_cols (p : prob) (l : list string) : option prob :=
  match find_names (colnames p) l with
  | Some ds => if nodupn ds then Some (del_cols_n p ds) else None
  | None => None
  end.

(* QSchange_coef: overwrite the first stored entry of that row, else append one (zero included) *)
Fixpoint set_first (i : nat) (v : Q) (e : list (nat * Q)) : list (nat * Q) :=
  match e with
  | [] => [(i, v)]
  | kv :: r => if Nat.eqb (fst kv) i then (fst kv, v) :: r else kv :: set_first i v r
  end.
Definition chg_coef (p : prob) (i j : Z) (v : Q) : option prob :=
  match idx (nrow p) i, idx (ncol p) j with
  | Some i', Some j' => Some (set_cols p (upd_nth j' (fun c => set_ent c (set_first i' v (sc_ent c))) (p_cols p)))
  | _, _ => None
  end.

Definition set_obj (c : scol) (v : Q) : scol :=
  {| sc_name := sc_name c; sc_obj := v; sc_lo := sc_lo c; sc_up := sc_up c; sc_int := sc_int c; sc_ent := sc_ent c |}.
Definition set_lo (c : scol) (v : Q) : scol :=
  {| sc_name := sc_name c; sc_obj := sc_obj c; sc_lo := v; sc_up := sc_up c; sc_int := sc_int c; sc_ent := sc_ent c |}.
Definition set_up (c : scol) (v : Q) : scol :=
  {| sc_name := sc_name c; sc_obj := sc_obj c; sc_lo := sc_lo c; sc_up := v; sc_int := sc_int c; sc_ent := sc_ent c |}.
Definition set_int (c : scol) : scol :=
  {| sc_name := sc_name c; sc_obj := sc_obj c; sc_lo := sc_lo c; sc_up := sc_up c; sc_int := true; sc_ent := sc_ent c |}.
Definition set_rhs (r : srow) (v : Q) : srow :=
  {| sr_name := sr_name r; sr_sense := sr_sense r; sr_rhs := v; sr_range := sr_range r |}.
Definition set_range (r : srow) (v : Q) : srow :=
  {| sr_name := sr_name r; sr_sense := sr_sense r; sr_rhs := sr_rhs r; sr_range := v |}.
Definition set_sense (r : srow) (s : sense) : srow :=
  {| sr_name := sr_name r; sr_sense := s; sr_rhs := sr_rhs r;
     sr_range := match s with SR => sr_range r | _ => 0 end |}.   (* only a ranged row has a range *)

Definition chg_obj (p : prob) (j : Z) (v : Q) : option prob :=
  match idx (ncol p) j with Some j' => Some (set_cols p (upd_nth j' (fun c => set_obj c v) (p_cols p))) | None => None end.
Definition chg_rhs (p : prob) (i : Z) (v : Q) : option prob :=
  match idx (nrow p) i with Some i' => Some (set_rows p (upd_nth i' (fun r => set_rhs r v) (p_rows p))) | None => None end.
Definition dsrow : srow := {| sr_name := ""; sr_sense := SE; sr_rhs := 0; sr_range := 0 |}.
Definition dscol : scol := {| sc_name := ""; sc_obj := 0; sc_lo := 0; sc_up := 0; sc_int := false; sc_ent := [] |}.
Definition is_SR (s : sense) : bool := match s with SR => true | _ => false end.
Definition chg_range (p : prob) (i : Z) (v : Q) : option prob :=
  match idx (nrow p) i with
  | Some i' => if is_SR (sr_sense (nth i' (p_rows p) dsrow))
               then Some (set_rows p (upd_nth i' (fun r => set_range r v) (p_rows p))) else None
  | None => None
  end.

Fixpoint conv_senses (n : nat) (l : list (Z * ascii)) : option (list (nat * sense)) :=
  match l with
  | [] => Some []
  | (z, a) :: r => match idx n z, sense_of_ascii a, conv_senses n r with
                   | Some i, Some s, Some t => Some ((i, s) :: t) | _, _, _ => None end
  end.
Definition chg_senses (p : prob) (l : list (Z * ascii)) : option prob :=
  match conv_senses (nrow p) l with
  | Some t => Some (set_rows p (fold_left (fun rows is => upd_nth (fst is) (fun r => set_sense r (snd is)) rows) t (p_rows p)))
  | None => None
  end.

Fixpoint conv_bnds (n : nat) (l : list (Z * ascii * Q)) : option (list (nat * lusel * Q)) :=
  match l with
  | [] => Some []
  | (z, a, v) :: r => match idx n z, lu_of_ascii a, conv_bnds n r with
                      | Some i, Some s, Some t => Some ((i, s, v) :: t) | _, _, _ => None end
  end.
Definition app_bnd (c : scol) (s : lusel) (v : Q) : scol :=
  match s with LuL => set_lo c v | LuU => set_up c v | LuB => set_up (set_lo c v) v end.
Definition chg_bnds (p : prob) (l : list (Z * ascii * Q)) : option prob :=
  match conv_bnds (ncol p) l with
  | Some t => Some (set_cols p (fold_left (fun cols b => upd_nth (fst (fst b)) (fun c => app_bnd c (snd (fst b)) (snd b)) cols) t (p_cols p)))
  | None => None
  end.

Definition chg_objsense (p : prob) (code : Z) : option prob :=
  if (code =? 1)%Z then Some (set_max p false) else if (code =? -1)%Z then Some (set_max p true) else None.

Definition zin (v : Z) (l : list Z) : bool := existsb (Z.eqb v) l.
Definition set_param (p : prob) (id v : Z) : option prob :=
  let a := p_par p in
  let mk pp dp di mi sc := Some (set_par p {| pa_pprice := pp; pa_dprice := dp; pa_display := di; pa_maxiter := mi; pa_scaling := sc;
                                              pa_maxtime := pa_maxtime a; pa_ulim := pa_ulim a; pa_llim := pa_llim a |}) in
  if (id =? 0)%Z then (if zin v [1;2;3;4]%Z then mk v (pa_dprice a) (pa_display a) (pa_maxiter a) (pa_scaling a) else None)
  else if (id =? 2)%Z then (if zin v [6;7;8;9]%Z then mk (pa_pprice a) v (pa_display a) (pa_maxiter a) (pa_scaling a) else None)
  else if (id =? 4)%Z then (if ((0 <=? v) && (v <? 4))%Z%bool then mk (pa_pprice a) (pa_dprice a) v (pa_maxiter a) (pa_scaling a) else None)
  else if (id =? 5)%Z then (if (0 <? v)%Z then mk (pa_pprice a) (pa_dprice a) (pa_display a) v (pa_scaling a) else None)
  else if (id =? 7)%Z then (if zin v [0;1]%Z then mk (pa_pprice a) (pa_dprice a) (pa_display a) (pa_maxiter a) v else None)
  else None.
Definition set_paramq (M : Q) (p : prob) (id : Z) (v : Q) : option prob :=
  let a := p_par p in
  let mk mt ul ll := Some (set_par p {| pa_pprice := pa_pprice a; pa_dprice := pa_dprice a; pa_display := pa_display a;
                                        pa_maxiter := pa_maxiter a; pa_scaling := pa_scaling a;
                                        pa_maxtime := mt; pa_ulim := ul; pa_llim := ll |}) in
  if (id =? 6)%Z then (if Qltb 0 v then mk v (pa_ulim a) (pa_llim a) else None)
  else if (id =? 8)%Z then mk (pa_maxtime a) (if Qle_bool M v then M else v) (pa_llim a)
  else if (id =? 9)%Z then mk (pa_maxtime a) (pa_ulim a) (if Qle_bool v (- M) then - M else v)
  else None.

Definition mark_int (p : prob) (j : Z) : option prob :=
  match idx (ncol p) j with Some j' => Some (set_cols p (upd_nth j' set_int (p_cols p))) | None => None end.

(* ---- queries ------------------------------------------------------------------------ *)

Definition nz (p : prob) : nat := fold_right (fun c a => (length (sc_ent c) + a)%nat) O (p_cols p).

Fixpoint first_coef (i : nat) (e : list (nat * Q)) : Q :=
  match e with [] => 0 | kv :: r => if Nat.eqb (fst kv) i then snd kv else first_coef i r end.
Definition get_coef (p : prob) (i j : nat) : Q := first_coef i (sc_ent (nth j (p_cols p) dscol)).

(* row-wise extraction: columns in order, each column's stored entries in order *)
Fixpoint row_ents (cols : list scol) (j0 i : nat) : list (nat * Q) :=
  match cols with
  | [] => []
  | c :: r => map (fun e => (j0, snd e)) (filter (fun e => Nat.eqb (fst e) i) (sc_ent c)) ++ row_ents r (S j0) i
  end.
Definition get_row (p : prob) (i : nat) : list (nat * Q) := row_ents (p_cols p) 0 i.
Definition get_col (p : prob) (j : nat) : list (nat * Q) := sc_ent (nth j (p_cols p) dscol).

(* the user LP of LP/User.v denoted by a store state *)
Fixpoint urows_of (cols : list scol) (rows : list srow) (i0 : nat) : list urow :=
  match rows with
  | [] => []
  | r :: t => {| ur_sense := sr_sense r; ur_rhs := sr_rhs r; ur_range := sr_range r; ur_ent := row_ents cols 0 i0 |}
              :: urows_of cols t (S i0)
  end.
Definition to_ulp (p : prob) : ulp :=
  {| u_max := p_max p;
     u_cols := map (fun c => {| uc_obj := sc_obj c; uc_lo := sc_lo c; uc_up := sc_up c |}) (p_cols p);
     u_rows := urows_of (p_cols p) (p_rows p) 0 |}.

(* ---- results ------------------------------------------------------------------------ *)

Inductive tok := TZ (z : Z) | TQ (q : Q) | TS (s : string) | TBar.
Inductive result := ROk (out : list tok) | RErr | RSkip.

Definition tn (n : nat) : tok := TZ (Z.of_nat n).
Definition toks_ent (e : list (nat * Q)) : list tok := flat_map (fun kv => [tn (fst kv); TQ (snd kv)]) e.

Definition row_view (p : prob) (ranged : bool) (i : nat) : list tok :=
  let r := nth i (p_rows p) dsrow in
  let e := get_row p i in
  [TBar; TS (sr_name r); TS (sense_str (sr_sense r)); TQ (sr_rhs r)] ++ (if ranged then [TQ (sr_range r)] else []) ++
  [tn (length e)] ++ toks_ent e.
Definition col_view (p : prob) (j : nat) : list tok :=
  let c := nth j (p_cols p) dscol in
  [TBar; TS (sc_name c); TQ (sc_obj c); TQ (sc_lo c); TQ (sc_up c); tn (length (sc_ent c))] ++ toks_ent (sc_ent c).

Definition senses_str (p : prob) : string :=
  match p_rows p with [] => "-"%string | _ => String.concat "" (map (fun r => sense_str (sr_sense r)) (p_rows p)) end.

(* canonical dump, one token list per line *)
Definition dump_lines (p : prob) : list (list tok) :=
  [ [TS "ULP"; TZ (if p_max p then 1 else 0)%Z; tn (ncol p); tn (nrow p)] ] ++
  map (fun c => [TS "UC"; TS (sc_name c); TQ (sc_obj c); TQ (sc_lo c); TQ (sc_up c); TZ (if sc_int c then 1 else 0)%Z]) (p_cols p) ++
  map (fun i => let r := nth i (p_rows p) dsrow in let e := get_row p i in
                [TS "UR"; TS (sr_name r); TS (sense_str (sr_sense r)); TQ (sr_rhs r); TQ (sr_range r); tn (length e)] ++ toks_ent e)
      (seq 0 (nrow p)).

Definition param_val (p : prob) (id : Z) : option Z :=
  let a := p_par p in
  if (id =? 0)%Z then Some (pa_pprice a) else if (id =? 2)%Z then Some (pa_dprice a) else if (id =? 4)%Z then Some (pa_display a)
  else if (id =? 5)%Z then Some (pa_maxiter a) else if (id =? 7)%Z then Some (pa_scaling a) else None.
Definition paramq_val (p : prob) (id : Z) : option Q :=
  let a := p_par p in
  if (id =? 6)%Z then Some (pa_maxtime a) else if (id =? 8)%Z then Some (pa_ulim a) else if (id =? 9)%Z then Some (pa_llim a) else None.

(* ---- ops ---------------------------------------------------------------------------- *)

Inductive pop :=
| NewCol (obj lo up : Q) (nm : option string)
| AddCol (obj lo up : Q) (nm : option string) (ent : list (Z * Q))
| AddCols (l : list colspec)
| NewRow (rhs : Q) (sn : ascii) (nm : option string)
| AddRow (rhs : Q) (sn : ascii) (rng : option Q) (nm : option string) (ent : list (Z * Q))
| AddRows (l : list rowspec)
| DelRows (l : list Z) | DelSetRows (flags : list Z) | DelNRows (l : list string)
| DelCols (l : list Z) | DelSetCols (flags : list Z) | DelNCols (l : list string)
| ChgCoef (i j : Z) (v : Q) | ChgObj (j : Z) (v : Q) | ChgRhs (i : Z) (v : Q) | ChgRange (i : Z) (v : Q)
| ChgSenses (l : list (Z * ascii)) | ChgBnds (l : list (Z * ascii * Q)) | ChgObjSense (code : Z)
| SetParam (id v : Z) | SetParamQ (id : Z) (v : Q) | MarkInt (j : Z)
| QCounts | QCoef (i j : Z) | QObj | QObjList (l : list Z) | QRhs | QSenses | QBounds | QBound (j : Z) (lu : ascii)
| QBoundsList (l : list Z) | QObjSense | QRows (ranged : bool) (l : option (list Z)) | QCols (l : option (list Z))
| QRowNames | QColNames | QRowIdx (s : string) | QColIdx (s : string) | QIntFlags | QIntCount
| QParam (id : Z) | QParamQ (id : Z) | QParams.

Definition is_query (o : pop) : bool :=
  match o with
  | QCounts | QCoef _ _ | QObj | QObjList _ | QRhs | QSenses | QBounds | QBound _ _ | QBoundsList _ | QObjSense
  | QRows _ _ | QCols _ | QRowNames | QColNames | QRowIdx _ | QColIdx _ | QIntFlags | QIntCount
  | QParam _ | QParamQ _ | QParams => true
  | _ => false
  end.

Definition edit (p : prob) (r : option prob) : prob * result :=
  match r with Some p' => (p', ROk []) | None => (p, RErr) end.
Definition answer (p : prob) (r : option (list tok)) : prob * result :=
  match r with Some t => (p, ROk t) | None => (p, RErr) end.

Definition pstep (M : Q) (p : prob) (o : pop) : prob * result :=
  match o with
  | NewCol obj lo up nm => edit p (add_col p obj lo up nm [])
  | AddCol obj lo up nm ent => edit p (add_col p obj lo up nm ent)
  | AddCols l => edit p (add_cols p l)
  | NewRow rhs sn nm => edit p (add_row p rhs sn None nm [])
  | AddRow rhs sn rng nm ent => edit p (add_row p rhs sn rng nm ent)
  | AddRows l => edit p (add_rows p l)
  | DelRows l => edit p (del_rows p l)
  | DelSetRows f => edit p (Some (del_rows_n p (flagged f 0 (nrow p))))
  | DelNRows l => edit p (del_named_rows p l)
  | DelCols l => edit p (del_cols p l)
  | DelSetCols f => edit p (Some (del_cols_n p (flagged f 0 (ncol p))))
  | DelNCols l => edit p (del_named_cols p l)
  | ChgCoef i j v => edit p (chg_coef p i j v)
  | ChgObj j v => edit p (chg_obj p j v)
  | ChgRhs i v => edit p (chg_rhs p i v)
  | ChgRange i v => edit p (chg_range p i v)
  | ChgSenses l => edit p (chg_senses p l)
  | ChgBnds l => edit p (chg_bnds p l)
  | ChgObjSense c => edit p (chg_objsense p c)
  | SetParam id v => edit p (set_param p id v)
  | SetParamQ id v => edit p (set_paramq M p id v)
  | MarkInt j => edit p (mark_int p j)
  | QCounts => answer p (Some [tn (ncol p); tn (nrow p); tn (nz p)])
  | QCoef i j => answer p (match idx (nrow p) i, idx (ncol p) j with Some i', Some j' => Some [TQ (get_coef p i' j')] | _, _ => None end)
  | QObj => answer p (Some (map (fun c => TQ (sc_obj c)) (p_cols p)))
  | QObjList l => answer p (match idxs (ncol p) l with Some js => Some (map (fun j => TQ (sc_obj (nth j (p_cols p) dscol))) js) | None => None end)
  | QRhs => answer p (Some (map (fun r => TQ (sr_rhs r)) (p_rows p)))
  | QSenses => answer p (Some [TS (senses_str p)])
  | QBounds => answer p (Some (map (fun c => TQ (sc_lo c)) (p_cols p) ++ [TBar] ++ map (fun c => TQ (sc_up c)) (p_cols p)))
  | QBound j lu => answer p (match idx (ncol p) j, lu_of_ascii lu with
                             | Some j', Some LuL => Some [TQ (sc_lo (nth j' (p_cols p) dscol))]
                             | Some j', Some LuU => Some [TQ (sc_up (nth j' (p_cols p) dscol))]
                             | _, _ => None end)
  | QBoundsList l => answer p (match idxs (ncol p) l with
                               | Some js => Some (map (fun j => TQ (sc_lo (nth j (p_cols p) dscol))) js ++ [TBar] ++
                                                  map (fun j => TQ (sc_up (nth j (p_cols p) dscol))) js)
                               | None => None end)
  | QObjSense => answer p (Some [TS (if p_max p then "MAX" else "MIN")%string])
  | QRows ranged None => answer p (Some (tn (nrow p) :: flat_map (row_view p ranged) (seq 0 (nrow p))))
  | QRows ranged (Some l) => answer p (match idxs (nrow p) l with
                                       | Some is_ => Some (tn (length is_) :: flat_map (row_view p ranged) is_) | None => None end)
  | QCols None => answer p (Some (tn (ncol p) :: flat_map (col_view p) (seq 0 (ncol p))))
  | QCols (Some l) => answer p (match idxs (ncol p) l with
                                | Some js => Some (tn (length js) :: flat_map (col_view p) js) | None => None end)
  | QRowNames => answer p (Some (map TS (rownames p)))
  | QColNames => answer p (Some (map TS (colnames p)))
  | QRowIdx s => answer p (match row_index p s with Some i => Some [tn i] | None => None end)
  | QColIdx s => answer p (match col_index p s with Some j => Some [tn j] | None => None end)
  | QIntFlags => answer p (Some (map (fun c => TZ (if sc_int c then 1 else 0)%Z) (p_cols p)))
  | QIntCount => answer p (Some [tn (length (filter sc_int (p_cols p)))])
  | QParam id => answer p (match param_val p id with Some v => Some [TZ v] | None => None end)
  | QParamQ id => answer p (match paramq_val p id with Some v => Some [TQ v] | None => None end)
  | QParams => answer p (Some [TZ (pa_pprice (p_par p)); TZ (pa_dprice (p_par p)); TZ (pa_display (p_par p)); TZ (pa_maxiter (p_par p));
                               TZ (pa_scaling (p_par p)); TQ (pa_maxtime (p_par p)); TQ (pa_ulim (p_par p)); TQ (pa_llim (p_par p))])
  end.

Definition prun (M : Q) (p : prob) (l : list pop) : prob := fold_left (fun q o => fst (pstep M q o)) l p.

(* the arguments the property text calls valid *)
Definition valid_args (M : Q) (p : prob) (o : pop) : bool :=
  match snd (pstep M p o) with ROk _ => true | _ => false end.

(* ---- several handles ---------------------------------------------------------------- *)

Definition store := list (option prob).
Definition get_h (s : store) (h : nat) : option prob := nth h s None.
Fixpoint set_h (s : store) (h : nat) (v : option prob) : store :=
  match h, s with
  | O, [] => [v]
  | O, _ :: r => v :: r
  | S k, [] => None :: set_h [] k v
  | S k, a :: r => a :: set_h r k v
  end.

(* QSload_prob: rows first (no entries, no ranges), then the columns *)
Definition load_rowspec : Type := option string * ascii * Q.
Definition load_prob (M : Q) (mx : bool) (cols : list colspec) (rows : list load_rowspec) : option prob :=
  match add_rows (empty_prob M mx) (map (fun r => (snd r, snd (fst r), None, fst (fst r), [])) rows) with
  | Some p => add_cols p cols
  | None => None
  end.

Inductive sop :=
| SCreate (h : nat) (code : Z)
| SLoad (h : nat) (code : Z) (cols : list colspec) (rows : list load_rowspec)
| SFree (h : nat)
| SCopy (h h2 : nat)
| SOn (h : nat) (o : pop).

Definition sstep (M : Q) (s : store) (o : sop) : store * result :=
  match o with
  | SCreate h code => (set_h s h (Some (empty_prob M (code =? -1)%Z)), ROk [])
  | SLoad h code cols rows =>
      match load_prob M (code =? -1)%Z cols rows with
      | Some p => (set_h s h (Some p), ROk [])
      | None => (set_h s h None, RErr)
      end
  | SFree h => (set_h s h None, ROk [])
  | SCopy h h2 =>
      match get_h s h with
      | Some p => if Nat.eqb h h2 then (s, RSkip) else (set_h s h2 (Some p), ROk [])
      | None => (s, RSkip)
      end
  | SOn h o =>
      match get_h s h with
      | Some p => let (p', r) := pstep M p o in (set_h s h (Some p'), r)
      | None => (s, RSkip)
      end
  end.

Definition srun (M : Q) (s : store) (l : list sop) : store := fold_left (fun q o => fst (sstep M q o)) l s.
