(* Representation invariant of the concrete column store (Store.Matrix) and refinement:
   every operation preserves WF and commutes with the abstraction abs (column entry lists). *)
From Coq Require Import ZArith List Lia Bool Arith QArith.
From QSX Require Import Store.Spec Store.SpecInv Store.Matrix.
Import ListNotations.
Local Open Scope nat_scope.

(* ---- block read / write ------------------------------------------------------------------------ *)

Lemma nth_firstn_lt {A} (d : A) : forall n (l : list A) i, i < n -> nth i (firstn n l) d = nth i l d.
Proof.
  induction n as [|n IH]; intros l i H; [lia|]. destruct l as [|a l]; [destruct i; reflexivity|].
  destruct i as [|i]; simpl; [reflexivity|]. apply IH. lia.
Qed.

Lemma nth_skipn {A} (d : A) : forall b (l : list A) i, nth i (skipn b l) d = nth (b + i) l d.
Proof.
  induction b as [|b IH]; intros l i; [reflexivity|]. destruct l as [|a l]; [destruct i; reflexivity|]. simpl. apply IH.
Qed.

Lemma wr_length {A} k (blk l : list A) : k + length blk <= length l -> length (wr k blk l) = length l.
Proof.
  intros H. unfold wr. rewrite !app_length, firstn_length, skipn_length. lia.
Qed.

Lemma nth_wr {A} (d : A) k blk l i : k + length blk <= length l ->
  nth i (wr k blk l) d = if i <? k then nth i l d else if i <? k + length blk then nth (i - k) blk d else nth i l d.
Proof.
  intros H. unfold wr.
  assert (Lf : length (firstn k l) = k) by (rewrite firstn_length; lia).
  destruct (Nat.ltb_spec i k) as [H1|H1].
  - rewrite app_nth1 by lia. apply nth_firstn_lt. exact H1.
  - rewrite app_nth2 by lia. rewrite Lf. destruct (Nat.ltb_spec i (k + length blk)) as [H2|H2].
    + rewrite app_nth1 by lia. reflexivity.
    + rewrite app_nth2 by lia. rewrite nth_skipn. f_equal. lia.
Qed.

Lemma rd_length {A} b c (l : list A) : b + c <= length l -> length (rd b c l) = c.
Proof. intros H. unfold rd. rewrite firstn_length, skipn_length. lia. Qed.

Lemma rd_length_le {A} b c (l : list A) : length (rd b c l) <= c.
Proof. unfold rd. rewrite firstn_length. lia. Qed.

Lemma nth_rd {A} (d : A) b c l i : i < c -> nth i (rd b c l) d = nth (b + i) l d.
Proof. intros H. unfold rd. rewrite nth_firstn_lt by exact H. apply nth_skipn. Qed.

Lemma rd_ext {A} (d : A) b c (l l' : list A) :
  length l = length l' -> (forall i, b <= i < b + c -> nth i l d = nth i l' d) -> rd b c l = rd b c l'.
Proof.
  intros L H. apply (nth_ext _ _ d d).
  - unfold rd. rewrite !firstn_length, !skipn_length, L. reflexivity.
  - intros i Hi. assert (i < c) by (pose proof (rd_length_le b c l); lia).
    rewrite !nth_rd by assumption. apply H. lia.
Qed.

Lemma rd_ext2 {A} (d : A) b c (l l' : list A) :
  b + c <= length l -> b + c <= length l' -> (forall i, b <= i < b + c -> nth i l d = nth i l' d) -> rd b c l = rd b c l'.
Proof.
  intros L L' H. apply (nth_ext _ _ d d).
  - rewrite !rd_length by assumption. reflexivity.
  - intros i Hi. rewrite rd_length in Hi by assumption. rewrite !nth_rd by assumption. apply H. lia.
Qed.

Lemma rd_wr_other {A} b c k (blk l : list A) :
  k + length blk <= length l -> b + c <= k \/ k + length blk <= b -> rd b c (wr k blk l) = rd b c l.
Proof.
  intros H D. destruct l as [|d l'] eqn:E.
  - simpl in H. assert (k = 0) by lia. assert (length blk = 0) by lia. destruct blk; [|discriminate]. subst. unfold wr. simpl. reflexivity.
  - rewrite <- E in *. apply (rd_ext d); [apply wr_length; exact H|].
    intros i Hi. rewrite nth_wr by exact H.
    destruct (Nat.ltb_spec i k); [reflexivity|]. destruct (Nat.ltb_spec i (k + length blk)); [lia|reflexivity].
Qed.

Lemma rd_wr_same {A} k (blk l : list A) : k + length blk <= length l -> rd k (length blk) (wr k blk l) = blk.
Proof.
  intros H. destruct blk as [|d blk'] eqn:E; [reflexivity|]. rewrite <- E in *.
  apply (nth_ext _ _ d d).
  - rewrite rd_length; [reflexivity|]. rewrite wr_length by exact H. exact H.
  - intros i Hi. rewrite rd_length in Hi by (rewrite wr_length by exact H; exact H).
    rewrite nth_rd by exact Hi. rewrite nth_wr by exact H.
    destruct (Nat.ltb_spec (k + i) k); [lia|]. destruct (Nat.ltb_spec (k + i) (k + length blk)); [|lia].
    f_equal. lia.
Qed.

Lemma skipn_add {A} : forall b c (l : list A), skipn (b + c) l = skipn c (skipn b l).
Proof.
  induction b as [|b IH]; intros c l; [reflexivity|]. destruct l as [|a l]; [simpl; rewrite skipn_nil; reflexivity|]. simpl. apply IH.
Qed.

Lemma firstn_add {A} : forall c1 c2 (l : list A), firstn (c1 + c2) l = firstn c1 l ++ firstn c2 (skipn c1 l).
Proof.
  induction c1 as [|c1 IH]; intros c2 l; [reflexivity|]. destruct l as [|a l]; [simpl; rewrite firstn_nil; reflexivity|].
  simpl. rewrite IH. reflexivity.
Qed.

Lemma rd_split {A} b c1 c2 (l : list A) : rd b (c1 + c2) l = rd b c1 l ++ rd (b + c1) c2 l.
Proof. unfold rd. rewrite firstn_add, skipn_add. reflexivity. Qed.

Lemma rd_zero {A} b (l : list A) : rd b 0 l = [].
Proof. reflexivity. Qed.

Lemma rd_one {A} (d : A) b (l : list A) : b < length l -> rd b 1 l = [nth b l d].
Proof.
  intros H. apply (nth_ext _ _ d d).
  - rewrite rd_length by lia. reflexivity.
  - intros i Hi. rewrite rd_length in Hi by lia. assert (i = 0) by lia. subst. rewrite nth_rd by lia. simpl. f_equal. lia.
Qed.

(* ---- set_nth ------------------------------------------------------------------------------------ *)

Lemma set_nth_length {A} j (x : A) l : length (set_nth j x l) = length l.
Proof. apply upd_nth_length. Qed.

Lemma nth_upd_nth {A} (d : A) f : forall l j i, nth i (upd_nth j f l) d = if (i =? j) && (j <? length l) then f (nth j l d) else nth i l d.
Proof.
  induction l as [|a l IH]; intros j i.
  - destruct j; simpl; rewrite andb_false_r; reflexivity.
  - destruct j as [|j]; destruct i as [|i]; simpl; try reflexivity.
    rewrite IH. reflexivity.
Qed.

Lemma nth_set_nth {A} (d : A) x l j i : j < length l -> nth i (set_nth j x l) d = if i =? j then x else nth i l d.
Proof.
  intros H. unfold set_nth. rewrite nth_upd_nth. replace (j <? length l) with true by (symmetry; apply Nat.ltb_lt; exact H).
  rewrite andb_true_r. reflexivity.
Qed.

(* ---- the invariant ------------------------------------------------------------------------------ *)

(* R bounds the stored row indices: R = mrows m between calls, mrows m + 1 inside matrix_addrow *)
Record WFr (R : nat) (m : mat) : Prop := {
  wf_len : length (cnt m) = length (beg m);
  wf_free : mfree m <= msize m;
  wf_cap : mcols m <= colsize m;
  wf_tail : forall k, used m <= k < msize m -> ind_at m k = FREE;
  wf_in : forall j, j < mcols m -> begj m j + width (cntj m j) <= used m;
  wf_rows : forall j k, j < mcols m -> begj m j <= k < begj m j + cntj m j -> (0 <= ind_at m k < Z.of_nat R)%Z;
  wf_dummy : forall j, j < mcols m -> cntj m j = 0 -> ind_at m (begj m j) = DUMMY;
  wf_disj : forall j1 j2, j1 < mcols m -> j2 < mcols m -> j1 <> j2 ->
            begj m j1 + width (cntj m j1) <= begj m j2 \/ begj m j2 + width (cntj m j2) <= begj m j1 }.
Definition WF (m : mat) : Prop := WFr (mrows m) m.

Lemma WFr_mono R R' m : R <= R' -> WFr R m -> WFr R' m.
Proof.
  intros H W. destruct W. constructor; try assumption. intros j k Hj Hk. specialize (wf_rows0 j k Hj Hk). lia.
Qed.

Lemma WF_empty : WF empty_mat.
Proof. constructor; try reflexivity; unfold used, msize, mcols, empty_mat; simpl; intros; lia. Qed.

(* a slot inside a column is not free *)
Lemma col_slot_nonfree R m j k : WFr R m -> j < mcols m -> begj m j <= k < begj m j + width (cntj m j) -> ind_at m k <> FREE.
Proof.
  intros W Hj Hk. unfold width in Hk. destruct (cntj m j) as [|c] eqn:C.
  - assert (k = begj m j) by lia. subst. rewrite (wf_dummy _ _ W j Hj C). discriminate.
  - pose proof (wf_rows _ _ W j k Hj ltac:(lia)). unfold FREE. lia.
Qed.

Lemma used_le R m : WFr R m -> used m <= msize m.
Proof. unfold used. lia. Qed.

Lemma col_inside R m j : WFr R m -> j < mcols m -> begj m j + width (cntj m j) <= msize m.
Proof. intros W Hj. pose proof (wf_in _ _ W j Hj). unfold used in *. lia. Qed.

Lemma width_ge c : c <= width c /\ 1 <= width c.
Proof. unfold width. lia. Qed.

(* ---- replacing one column: the generic step -------------------------------------------------------- *)

Lemma begj_put m sl j b c fr j' : j < mcols m -> begj (put m sl j b c fr) j' = if j' =? j then b else begj m j'.
Proof. intros H. unfold begj, put; simpl. apply nth_set_nth. exact H. Qed.
Lemma cntj_put m sl j b c fr j' : j < length (cnt m) -> cntj (put m sl j b c fr) j' = if j' =? j then c else cntj m j'.
Proof. intros H. unfold cntj, put; simpl. apply nth_set_nth. exact H. Qed.

Lemma WFr_put R m sl j b c fr :
  WFr R m -> j < mcols m -> length sl = msize m ->
  fr <= msize m -> used m <= msize m - fr ->
  (forall k, msize m - fr <= k < msize m -> fst (nth k sl dslot) = FREE) ->
  b + width c <= msize m - fr ->
  (forall k, b <= k < b + c -> (0 <= fst (nth k sl dslot) < Z.of_nat R)%Z) ->
  (c = 0 -> fst (nth b sl dslot) = DUMMY) ->
  (forall j', j' < mcols m -> j' <> j -> b + width c <= begj m j' \/ begj m j' + width (cntj m j') <= b) ->
  (forall j' k, j' < mcols m -> j' <> j -> begj m j' <= k < begj m j' + width (cntj m j') -> nth k sl dslot = nth k (slots m) dslot) ->
  WFr R (put m sl j b c fr).
Proof.
  intros W Hj Ls Hfr Hus Htail Hin Hrows Hdummy Hdisj Hframe.
  assert (Lc : j < length (cnt m)) by (rewrite (wf_len _ _ W); exact Hj).
  assert (MC : mcols (put m sl j b c fr) = mcols m) by (unfold mcols, put; simpl; apply set_nth_length).
  assert (MS : msize (put m sl j b c fr) = msize m) by (unfold msize, put; simpl; exact Ls).
  assert (US : used (put m sl j b c fr) = msize m - fr) by (unfold used; rewrite MS; reflexivity).
  assert (IA : forall k, ind_at (put m sl j b c fr) k = fst (nth k sl dslot)) by reflexivity.
  constructor.
  - unfold put; simpl. rewrite !set_nth_length. apply (wf_len _ _ W).
  - rewrite MS. exact Hfr.
  - rewrite MC. apply (wf_cap _ _ W).
  - intros k Hk. rewrite US, MS in Hk. rewrite IA. apply Htail. exact Hk.
  - intros j' Hj'. rewrite MC in Hj'. rewrite begj_put, cntj_put, US by assumption.
    destruct (Nat.eqb_spec j' j); [exact Hin|]. pose proof (wf_in _ _ W j' Hj'). lia.
  - intros j' k Hj' Hk. rewrite MC in Hj'. rewrite begj_put, cntj_put in Hk by assumption. rewrite IA.
    destruct (Nat.eqb_spec j' j); [apply Hrows; exact Hk|].
    rewrite (Hframe j' k Hj' n) by (pose proof (width_ge (cntj m j')); lia). apply (wf_rows _ _ W j' k Hj' Hk).
  - intros j' Hj' C0. rewrite MC in Hj'. rewrite cntj_put in C0 by assumption. rewrite begj_put by assumption. rewrite IA.
    destruct (Nat.eqb_spec j' j); [apply Hdummy; exact C0|].
    rewrite (Hframe j' _ Hj' n) by (pose proof (width_ge (cntj m j')); lia). apply (wf_dummy _ _ W j' Hj' C0).
  - intros j1 j2 H1 H2 Hne. rewrite MC in H1, H2. rewrite !begj_put, !cntj_put by assumption.
    destruct (Nat.eqb_spec j1 j); destruct (Nat.eqb_spec j2 j); subst; try congruence.
    + apply Hdisj; [exact H2|congruence].
    + destruct (Hdisj j1 H1 n); [right|left]; assumption.
    + apply (wf_disj _ _ W); assumption.
Qed.

Lemma col_slots_put_same m sl j b c fr : j < mcols m -> length (cnt m) = length (beg m) ->
  col_slots (put m sl j b c fr) j = rd b c sl.
Proof.
  intros Hj L. unfold col_slots. rewrite begj_put, cntj_put by (try rewrite L; exact Hj). rewrite Nat.eqb_refl. reflexivity.
Qed.

Lemma col_slots_put_other m sl j b c fr j' : j < mcols m -> length (cnt m) = length (beg m) -> length sl = msize m -> j' <> j ->
  (forall k, begj m j' <= k < begj m j' + cntj m j' -> nth k sl dslot = nth k (slots m) dslot) ->
  col_slots (put m sl j b c fr) j' = col_slots m j'.
Proof.
  intros Hj L Ls Hne H. unfold col_slots. rewrite begj_put, cntj_put by (try rewrite L; exact Hj).
  destruct (Nat.eqb_spec j' j); [contradiction|]. apply (rd_ext dslot); [exact Ls|exact H].
Qed.

(* what "one entry e was appended to column j" means for the representation *)
Definition appended (R : nat) (m m' : mat) (j : nat) (e : slot) : Prop :=
  WFr R m' /\ mcols m' = mcols m /\ mrows m' = mrows m /\ colsize m' = colsize m /\
  col_slots m' j = col_slots m j ++ [e] /\ (forall j', j' <> j -> col_slots m' j' = col_slots m j').

Lemma fill_empty_ok R m j e :
  WFr R m -> j < mcols m -> cntj m j = 0 -> (0 <= fst e < Z.of_nat R)%Z ->
  appended R m (fill_empty m j (begj m j) e) j e /\ msize (fill_empty m j (begj m j) e) = msize m /\ mfree (fill_empty m j (begj m j) e) = mfree m.
Proof.
  intros W Hj C He. set (b := begj m j).
  pose proof (col_inside _ _ _ W Hj) as Hin. rewrite C in Hin. fold b in Hin. unfold width in Hin. simpl in Hin.
  assert (Hw : b + length [e] <= length (slots m)) by (simpl; unfold msize in Hin; lia).
  assert (Ls : length (wr b [e] (slots m)) = msize m) by (apply wr_length; exact Hw).
  assert (N : forall k, nth k (wr b [e] (slots m)) dslot = if k =? b then e else nth k (slots m) dslot).
  { intros k. rewrite nth_wr by exact Hw. simpl length.
    destruct (Nat.ltb_spec k b); destruct (Nat.eqb_spec k b); try lia; try reflexivity.
    - subst. destruct (Nat.ltb_spec b (b + 1)); [|lia]. rewrite Nat.sub_diag. reflexivity.
    - destruct (Nat.ltb_spec k (b + 1)); [lia|reflexivity]. }
  pose proof (wf_in _ _ W j Hj) as Hu. rewrite C in Hu. fold b in Hu. unfold width in Hu; simpl in Hu.
  assert (F : forall j' k, j' < mcols m -> j' <> j -> begj m j' <= k < begj m j' + width (cntj m j') -> k <> b).
  { intros j' k Hj' Hne Hk. destruct (wf_disj _ _ W j j' Hj Hj' ltac:(congruence)) as [D|D]; rewrite ?C in D; fold b in D; unfold width in *; lia. }
  split; [|split; [exact Ls|reflexivity]].
  unfold appended, fill_empty. split; [|split; [|split; [|split; [|split]]]].
  - apply WFr_put; try assumption.
    + apply (wf_free _ _ W).
    + unfold used. lia.
    + intros k Hk. rewrite N. destruct (Nat.eqb_spec k b); [unfold used in Hu; lia|]. apply (wf_tail _ _ W). unfold used. lia.
    + intros k Hk. rewrite N. assert (k = b) by lia. subst. rewrite Nat.eqb_refl. exact He.
    + discriminate.
    + intros j' Hj' Hne. destruct (wf_disj _ _ W j j' Hj Hj' ltac:(congruence)) as [D|D]; rewrite ?C in D; fold b in D; unfold width in *; [left|right]; lia.
    + intros j' k Hj' Hne Hk. rewrite N. destruct (Nat.eqb_spec k b); [exfalso; eapply F; eauto|reflexivity].
  - unfold mcols, put; simpl. apply set_nth_length.
  - reflexivity.
  - reflexivity.
  - rewrite col_slots_put_same by (try apply (wf_len _ _ W); exact Hj).
    unfold col_slots. rewrite C. fold b. rewrite rd_zero. simpl.
    change 1 with (length [e]). apply rd_wr_same. exact Hw.
  - intros j' Hne. destruct (Nat.lt_ge_cases j' (mcols m)) as [Hj'|Hj'].
    + apply col_slots_put_other; try assumption; [apply (wf_len _ _ W)|].
      intros k Hk. rewrite N. destruct (Nat.eqb_spec k b); [|reflexivity].
      exfalso. apply (F j' k Hj' Hne); [|assumption]. pose proof (width_ge (cntj m j')). lia.
    + unfold col_slots. rewrite begj_put, cntj_put by (try rewrite (wf_len _ _ W); exact Hj).
      destruct (Nat.eqb_spec j' j); [contradiction|].
      unfold cntj. rewrite (nth_overflow (cnt m)) by (rewrite (wf_len _ _ W); exact Hj'). reflexivity.
Qed.

Lemma col_slots_overflow m j : length (cnt m) = length (beg m) -> mcols m <= j -> col_slots m j = [].
Proof. intros L H. unfold col_slots, cntj. rewrite (nth_overflow (cnt m)) by (rewrite L; exact H). reflexivity. Qed.

Lemma in_place_ok R m j e :
  WFr R m -> j < mcols m -> 0 < cntj m j -> begj m j + cntj m j < msize m -> ind_at m (begj m j + cntj m j) = FREE ->
  (0 <= fst e < Z.of_nat R)%Z ->
  appended R m (in_place m j (begj m j) (cntj m j) e) j e /\ msize (in_place m j (begj m j) (cntj m j) e) = msize m.
Proof.
  intros W Hj C Hlt Hfree He. set (b := begj m j) in *. set (c := cntj m j) in *.
  assert (Hw : b + c + length [e] <= length (slots m)) by (simpl; unfold msize in Hlt; lia).
  assert (Ls : length (wr (b + c) [e] (slots m)) = msize m) by (apply wr_length; exact Hw).
  assert (N : forall k, nth k (wr (b + c) [e] (slots m)) dslot = if k =? b + c then e else nth k (slots m) dslot).
  { intros k. rewrite nth_wr by exact Hw. simpl length.
    destruct (Nat.ltb_spec k (b + c)); destruct (Nat.eqb_spec k (b + c)); try lia; try reflexivity.
    - subst. destruct (Nat.ltb_spec (b + c) (b + c + 1)); [|lia]. rewrite Nat.sub_diag. reflexivity.
    - destruct (Nat.ltb_spec k (b + c + 1)); [lia|reflexivity]. }
  pose proof (wf_in _ _ W j Hj) as Hu. fold b c in Hu. assert (Wc : width c = c) by (unfold width; lia). rewrite Wc in Hu.
  pose proof (wf_free _ _ W) as Hf.
  (* the free slot behind the column belongs to no column *)
  assert (F : forall j' k, j' < mcols m -> begj m j' <= k < begj m j' + width (cntj m j') -> k <> b + c).
  { intros j' k Hj' Hk E. subst k. exact (col_slot_nonfree _ _ _ _ W Hj' Hk Hfree). }
  split; [|exact Ls].
  unfold appended, in_place. fold b c. split; [|split; [|split; [|split; [|split]]]].
  - apply WFr_put; try assumption.
    + destruct (Nat.eqb_spec (b + c) (used m)); lia.
    + destruct (Nat.eqb_spec (b + c) (used m)); unfold used in *; lia.
    + intros k Hk. rewrite N. destruct (Nat.eqb_spec k (b + c)) as [->|Hne].
      * exfalso. destruct (Nat.eqb_spec (b + c) (used m)); unfold used in *; lia.
      * apply (wf_tail _ _ W). destruct (Nat.eqb_spec (b + c) (used m)); unfold used in *; lia.
    + assert (Ws : width (S c) = S c) by (unfold width; lia). rewrite Ws.
      destruct (Nat.eqb_spec (b + c) (used m)); unfold used in *; lia.
    + intros k Hk. rewrite N. destruct (Nat.eqb_spec k (b + c)); [exact He|].
      apply (wf_rows _ _ W j k Hj). fold b c. lia.
    + discriminate.
    + intros j' Hj' Hne. assert (Ws : width (S c) = S c) by (unfold width; lia). rewrite Ws.
      destruct (wf_disj _ _ W j j' Hj Hj' ltac:(congruence)) as [D|D]; fold b c in D; rewrite ?Wc in D; [|right; exact D].
      left. assert (begj m j' <> b + c); [|lia]. intros E. apply (F j' (begj m j') Hj'); [|exact E]. pose proof (width_ge (cntj m j')). lia.
    + intros j' k Hj' Hne Hk. rewrite N. destruct (Nat.eqb_spec k (b + c)); [exfalso; eapply F; eauto|reflexivity].
  - unfold mcols, put; simpl. apply set_nth_length.
  - reflexivity.
  - reflexivity.
  - rewrite col_slots_put_same by (try apply (wf_len _ _ W); exact Hj).
    unfold col_slots. fold b c. replace (S c) with (c + 1) by lia. rewrite rd_split. f_equal.
    + apply rd_wr_other; [exact Hw|left; lia].
    + change 1 with (length [e]). apply rd_wr_same. exact Hw.
  - intros j' Hne. destruct (Nat.lt_ge_cases j' (mcols m)) as [Hj'|Hj'].
    + apply col_slots_put_other; try assumption; [apply (wf_len _ _ W)|].
      intros k Hk. rewrite N. destruct (Nat.eqb_spec k (b + c)); [|reflexivity].
      exfalso. apply (F j' k Hj'); [|assumption]. pose proof (width_ge (cntj m j')). lia.
    + rewrite !col_slots_overflow; try reflexivity; try exact Hj'; try apply (wf_len _ _ W).
      * unfold put; simpl. rewrite !set_nth_length. apply (wf_len _ _ W).
      * unfold mcols, put; simpl. rewrite set_nth_length. exact Hj'.
Qed.

Lemma repeat_nth {A} (x d : A) n i : nth i (repeat x n) d = if i <? n then x else d.
Proof.
  revert i. induction n as [|n IH]; intros i; simpl; [destruct i; reflexivity|].
  destruct i as [|i]; [reflexivity|]. rewrite IH. reflexivity.
Qed.

Lemma relocate_ok R m j e m' :
  WFr R m -> j < mcols m -> 0 < cntj m j -> (0 <= fst e < Z.of_nat R)%Z ->
  relocate m j (begj m j) (cntj m j) e = Ok m' ->
  appended R m m' j e /\ msize m' = msize m /\ mfree m' = mfree m - (cntj m j + 2) /\ cntj m j + 2 <= mfree m.
Proof.
  intros W Hj C He. unfold relocate. set (b := begj m j) in *. set (c := cntj m j) in *. set (dst := S (used m)).
  destruct (Nat.ltb_spec (msize m) (dst + S c)) as [|Hfit]; [discriminate|]. intros E. inversion E; subst m'; clear E.
  pose proof (wf_in _ _ W j Hj) as Hu. fold b c in Hu. assert (Wc : width c = c) by (unfold width; lia). rewrite Wc in Hu.
  pose proof (wf_free _ _ W) as Hf.
  assert (Hbc : b + c <= length (slots m)) by (unfold used, msize in *; lia).
  set (blk := rd b c (slots m) ++ [e]).
  assert (Lb : length blk = S c) by (unfold blk; rewrite app_length, rd_length by exact Hbc; simpl; lia).
  assert (L1 : length (free_blk b c (slots m)) = msize m) by (unfold free_blk; apply wr_length; rewrite repeat_length; exact Hbc).
  assert (Hw2 : dst + length blk <= length (free_blk b c (slots m))) by (rewrite Lb, L1; lia).
  assert (Ls : length (wr dst blk (free_blk b c (slots m))) = msize m) by (rewrite wr_length by exact Hw2; exact L1).
  assert (N1 : forall k, nth k (free_blk b c (slots m)) dslot = if (b <=? k) && (k <? b + c) then dslot else nth k (slots m) dslot).
  { intros k. unfold free_blk. rewrite nth_wr by (rewrite repeat_length; exact Hbc). rewrite repeat_length, repeat_nth.
    destruct (Nat.ltb_spec k b); destruct (Nat.leb_spec b k); try lia; simpl; [reflexivity|].
    destruct (Nat.ltb_spec k (b + c)); [|reflexivity]. destruct (Nat.ltb_spec (k - b) c); [reflexivity|lia]. }
  assert (N : forall k, nth k (wr dst blk (free_blk b c (slots m))) dslot =
                        if k <? dst then (if (b <=? k) && (k <? b + c) then dslot else nth k (slots m) dslot)
                        else if k <? dst + S c then nth (k - dst) blk dslot else nth k (slots m) dslot).
  { intros k. rewrite nth_wr by exact Hw2. rewrite Lb, !N1. destruct (Nat.ltb_spec k dst); [reflexivity|].
    destruct (Nat.ltb_spec k (dst + S c)); [reflexivity|].
    destruct (Nat.leb_spec b k); destruct (Nat.ltb_spec k (b + c)); simpl; try reflexivity. unfold dst in *. lia. }
  assert (US : used m + c + 2 <= msize m) by (unfold dst in Hfit; lia).
  assert (FR : c + 2 <= mfree m) by (unfold used in *; lia).
  split; [|split; [exact Ls|split; [reflexivity|exact FR]]].
  unfold appended. fold blk. split; [|split; [|split; [|split; [|split]]]].
  - apply WFr_put; try assumption.
    + lia.
    + unfold used in *. lia.
    + intros k Hk. rewrite N. destruct (Nat.ltb_spec k dst); [unfold dst, used in *; lia|].
      destruct (Nat.ltb_spec k (dst + S c)); [unfold dst, used in *; lia|]. apply (wf_tail _ _ W). unfold used in *. lia.
    + assert (Ws : width (S c) = S c) by (unfold width; lia). rewrite Ws. unfold dst, used in *. lia.
    + intros k Hk. rewrite N. destruct (Nat.ltb_spec k dst); [lia|]. destruct (Nat.ltb_spec k (dst + S c)); [|lia].
      unfold blk. destruct (Nat.lt_ge_cases (k - dst) c) as [H1|H1].
      * rewrite app_nth1 by (rewrite rd_length by exact Hbc; exact H1). rewrite nth_rd by exact H1.
        apply (wf_rows _ _ W j _ Hj). fold b c. lia.
      * rewrite app_nth2 by (rewrite rd_length by exact Hbc; exact H1). rewrite rd_length by exact Hbc.
        replace (k - dst - c) with 0 by lia. exact He.
    + discriminate.
    + intros j' Hj' Hne. right. pose proof (wf_in _ _ W j' Hj'). unfold dst. lia.
    + intros j' k Hj' Hne Hk. rewrite N. pose proof (wf_in _ _ W j' Hj').
      destruct (Nat.ltb_spec k dst); [|unfold dst in *; lia].
      destruct (Nat.leb_spec b k); destruct (Nat.ltb_spec k (b + c)); simpl; try reflexivity.
      exfalso. destruct (wf_disj _ _ W j j' Hj Hj' ltac:(congruence)) as [D|D]; fold b c in D; rewrite ?Wc in D; lia.
  - unfold mcols, put; simpl. apply set_nth_length.
  - reflexivity.
  - reflexivity.
  - rewrite col_slots_put_same by (try apply (wf_len _ _ W); exact Hj).
    rewrite <- Lb. rewrite rd_wr_same by exact Hw2. reflexivity.
  - intros j' Hne. destruct (Nat.lt_ge_cases j' (mcols m)) as [Hj'|Hj'].
    + apply col_slots_put_other; try assumption; [apply (wf_len _ _ W)|].
      intros k Hk. rewrite N. pose proof (wf_in _ _ W j' Hj'). pose proof (width_ge (cntj m j')).
      destruct (Nat.ltb_spec k dst); [|unfold dst in *; lia].
      destruct (Nat.leb_spec b k); destruct (Nat.ltb_spec k (b + c)); simpl; try reflexivity.
      exfalso. destruct (wf_disj _ _ W j j' Hj Hj' ltac:(congruence)) as [D|D]; fold b c in D; rewrite ?Wc in D; lia.
    + rewrite !col_slots_overflow; try reflexivity; try exact Hj'; try apply (wf_len _ _ W).
      * unfold put; simpl. rewrite !set_nth_length. apply (wf_len _ _ W).
      * unfold mcols, put; simpl. rewrite set_nth_length. exact Hj'.
Qed.

(* ---- compact layouts: blocks one after the other ---------------------------------------------------- *)

Definition pre {A} (blocks : list (list A)) (j : nat) : nat := length (concat (firstn j blocks)).

Lemma offsets_length acc ls : length (offsets acc ls) = length ls.
Proof. revert acc. induction ls as [|n r IH]; intros acc; simpl; [reflexivity|]. rewrite IH. reflexivity. Qed.

Lemma nth_offsets {A} (blocks : list (list A)) : forall acc j, j < length blocks ->
  nth j (offsets acc (map (@length A) blocks)) 0 = acc + pre blocks j.
Proof.
  induction blocks as [|B Bs IH]; intros acc j H; simpl in H; [lia|].
  destruct j as [|j]; simpl; [unfold pre; simpl; lia|]. rewrite IH by lia. unfold pre. simpl. rewrite app_length. lia.
Qed.

Lemma pre_S {A} (blocks : list (list A)) j : j < length blocks -> pre blocks (S j) = pre blocks j + length (nth j blocks []).
Proof.
  revert j. induction blocks as [|B Bs IH]; intros j H; simpl in H; [lia|].
  destruct j as [|j]; unfold pre in *; simpl; [rewrite app_nil_r; lia|].
  rewrite !app_length. specialize (IH j ltac:(lia)). simpl in IH. rewrite IH. lia.
Qed.

Lemma pre_mono {A} (blocks : list (list A)) j j' : j <= j' -> pre blocks j <= pre blocks j'.
Proof.
  intros H. replace j' with (j + (j' - j)) by lia. generalize (j' - j). intros d. clear H. unfold pre.
  revert j. induction blocks as [|B Bs IH]; intros j; [rewrite !firstn_nil; reflexivity|].
  destruct j as [|j]; simpl.
  - destruct d; simpl; [lia|]. rewrite app_length. lia.
  - rewrite !app_length. specialize (IH j). lia.
Qed.

Lemma pre_all {A} (blocks : list (list A)) j : length blocks <= j -> pre blocks j = length (concat blocks).
Proof. intros H. unfold pre. rewrite firstn_all2 by exact H. reflexivity. Qed.

Lemma pre_le {A} (blocks : list (list A)) j : pre blocks j <= length (concat blocks).
Proof.
  destruct (Nat.le_gt_cases (length blocks) j) as [H|H]; [rewrite pre_all by exact H; lia|].
  rewrite <- (pre_all blocks (length blocks)) by lia. apply pre_mono. lia.
Qed.

Lemma rd_block {A} (blocks : list (list A)) tl : forall j, j < length blocks ->
  rd (pre blocks j) (length (nth j blocks [])) (concat blocks ++ tl) = nth j blocks [].
Proof.
  induction blocks as [|B Bs IH]; intros j H; simpl in H; [lia|]. destruct j as [|j].
  - unfold pre, rd. simpl. rewrite <- app_assoc. rewrite firstn_app, Nat.sub_diag, firstn_all. simpl. apply app_nil_r.
  - unfold pre. simpl. rewrite app_length. unfold rd. rewrite <- app_assoc.
    rewrite skipn_add. rewrite skipn_app, skipn_all, Nat.sub_diag. simpl. apply (IH j). lia.
Qed.

Lemma rd_firstn {A} b c w (l : list A) : c <= w -> rd b c l = firstn c (rd b w l).
Proof. intros H. unfold rd. rewrite firstn_firstn. f_equal. lia. Qed.

Lemma pad_length cs : length (pad cs) = width (length cs).
Proof. destruct cs; simpl; [reflexivity|]. unfold width. lia. Qed.

Lemma firstn_pad cs : firstn (length cs) (pad cs) = cs.
Proof. destruct cs; [reflexivity|]. unfold pad. apply firstn_all. Qed.

Lemma col_slots_rows R m j : WFr R m -> j < mcols m -> Forall (fun s => (0 <= fst s < Z.of_nat R)%Z) (col_slots m j).
Proof.
  intros W Hj. apply Forall_forall. intros s Hs. destruct (In_nth _ _ dslot Hs) as (i & Hi & E).
  pose proof (col_inside _ _ _ W Hj) as Hin. pose proof (width_ge (cntj m j)).
  unfold col_slots in *. rewrite rd_length in Hi by (unfold msize in Hin; lia). rewrite nth_rd in E by exact Hi. subst s.
  apply (wf_rows _ _ W j _ Hj). lia.
Qed.

Lemma col_slots_length R m j : WFr R m -> j < mcols m -> length (col_slots m j) = cntj m j.
Proof.
  intros W Hj. pose proof (col_inside _ _ _ W Hj) as Hin. pose proof (width_ge (cntj m j)).
  unfold col_slots. apply rd_length. unfold msize in Hin. lia.
Qed.

(* a matrix given by its columns, laid out compactly with n free slots behind *)
Definition compact (cols : list (list slot)) (nfree rows csz : nat) : mat :=
  let blocks := map pad cols in
  {| slots := concat blocks ++ repeat dslot nfree; beg := offsets 0 (map (@length slot) blocks); cnt := map (@length slot) cols;
     mfree := nfree; mrows := rows; colsize := csz |}.

Lemma compact_ok R cols nfree rows csz :
  length cols <= csz -> Forall (Forall (fun s => (0 <= fst s < Z.of_nat R)%Z)) cols ->
  let m := compact cols nfree rows csz in
  WFr R m /\ mcols m = length cols /\ (forall j, j < length cols -> col_slots m j = nth j cols []) /\ used m = length (concat (map pad cols)).
Proof.
  intros Hc Hr m. set (blocks := map pad cols).
  assert (LB : length blocks = length cols) by (unfold blocks; apply map_length).
  assert (MC : mcols m = length cols) by (unfold mcols, m, compact; simpl; rewrite offsets_length, !map_length; reflexivity).
  assert (MS : msize m = length (concat blocks) + nfree) by (unfold msize, m, compact; simpl; rewrite app_length, repeat_length; reflexivity).
  assert (US : used m = length (concat blocks)) by (unfold used; rewrite MS; unfold m, compact; simpl; lia).
  assert (BG : forall j, j < length cols -> begj m j = pre blocks j).
  { intros j Hj. unfold begj, m, compact; simpl. fold blocks. rewrite nth_offsets by lia. reflexivity. }
  assert (CN : forall j, j < length cols -> cntj m j = length (nth j cols [])).
  { intros j Hj. unfold cntj, m, compact; simpl. change 0 with (length (@nil slot)). rewrite map_nth. reflexivity. }
  assert (BL : forall j, j < length cols -> nth j blocks [] = pad (nth j cols [])).
  { intros j Hj. unfold blocks. rewrite (nth_indep _ [] (pad [])) by (rewrite map_length; exact Hj). apply map_nth. }
  assert (WD : forall j, j < length cols -> begj m j + width (cntj m j) = pre blocks (S j)).
  { intros j Hj. rewrite BG, CN, pre_S, BL, pad_length by lia. reflexivity. }
  assert (SL : forall j, j < length cols -> rd (begj m j) (width (cntj m j)) (slots m) = pad (nth j cols [])).
  { intros j Hj. rewrite BG, CN by exact Hj. rewrite <- pad_length, <- BL by exact Hj. unfold m, compact; simpl. fold blocks.
    apply rd_block. lia. }
  assert (CS : forall j, j < length cols -> col_slots m j = nth j cols []).
  { intros j Hj. unfold col_slots. rewrite (rd_firstn _ _ (width (cntj m j))) by apply width_ge.
    rewrite SL by exact Hj. rewrite CN by exact Hj. apply firstn_pad. }
  assert (NS : forall j i, j < length cols -> i < width (cntj m j) -> nth (begj m j + i) (slots m) dslot = nth i (pad (nth j cols [])) dslot).
  { intros j i Hj Hi. rewrite <- (SL j Hj). rewrite nth_rd by exact Hi. reflexivity. }
  split; [|split; [exact MC|split; [exact CS|exact US]]].
  constructor.
  - unfold m, compact; simpl. rewrite offsets_length, !map_length. reflexivity.
  - rewrite MS. unfold m, compact; simpl. lia.
  - rewrite MC. unfold m, compact; simpl. exact Hc.
  - intros k Hk. rewrite US, MS in Hk. unfold ind_at, m, compact; simpl. fold blocks.
    rewrite app_nth2 by lia. rewrite repeat_nth. destruct (Nat.ltb_spec (k - length (concat blocks)) nfree); reflexivity.
  - intros j Hj. rewrite MC in Hj. rewrite WD by exact Hj. rewrite US. apply pre_le.
  - intros j k Hj Hk. rewrite MC in Hj. unfold ind_at. replace k with (begj m j + (k - begj m j)) by lia.
    pose proof (width_ge (cntj m j)). rewrite NS by (try exact Hj; lia).
    rewrite Forall_forall in Hr. assert (Hin : In (nth j cols []) cols) by (apply nth_In; exact Hj).
    specialize (Hr _ Hin). rewrite Forall_forall in Hr. apply Hr.
    rewrite CN in Hk by exact Hj. revert Hk. destruct (nth j cols []) as [|s0 t]; intros Hk; [simpl in Hk; lia|]. unfold pad. apply nth_In. unfold slot in *. lia.
  - intros j Hj C0. rewrite MC in Hj. unfold ind_at. replace (begj m j) with (begj m j + 0) by lia.
    rewrite NS by (try exact Hj; unfold width; lia). rewrite CN in C0 by exact Hj.
    destruct (nth j cols []); [reflexivity|discriminate].
  - intros j1 j2 H1 H2 Hne. rewrite MC in H1, H2. rewrite !WD by assumption. rewrite (BG j1), (BG j2) by assumption.
    destruct (Nat.lt_ge_cases j1 j2); [left|right]; apply pre_mono; lia.
Qed.

(* ---- matrix_addrow_end ------------------------------------------------------------------------------ *)

Definition rows_added (R : nat) (m m' : mat) (r : nat) (ents : list (nat * Q)) : Prop :=
  WFr R m' /\ mcols m' = mcols m /\ mrows m' = mrows m /\ colsize m' = colsize m /\
  forall j, j < mcols m -> col_slots m' j = newcol m r ents j.

Lemma newcol_rows R m r ents j : WFr R m -> j < mcols m -> r < R -> Forall (fun s => (0 <= fst s < Z.of_nat R)%Z) (newcol m r ents j).
Proof.
  intros W Hj Hr. unfold newcol. apply Forall_app. split; [apply col_slots_rows; assumption|].
  apply Forall_forall. intros s Hs. apply in_map_iff in Hs. destruct Hs as (e & <- & _). simpl. lia.
Qed.

Lemma repack_ok extra_mat R m r ents m' :
  WFr R m -> r < R -> repack extra_mat m r ents = Ok m' -> rows_added R m m' r ents.
Proof.
  intros W Hr. unfold repack.
  set (cols := map (newcol m r ents) (seq 0 (mcols m))).
  destruct (Nat.ltb_spec (msize m + length ents + extra_mat) (length (concat (map pad cols)))); [discriminate|].
  intros E. inversion E; subst m'; clear E.
  change (rows_added R m (compact cols (msize m + length ents + extra_mat - length (concat (map pad cols))) (mrows m) (colsize m)) r ents).
  assert (LC : length cols = mcols m) by (unfold cols; rewrite map_length, seq_length; reflexivity).
  destruct (compact_ok R cols (msize m + length ents + extra_mat - length (concat (map pad cols))) (mrows m) (colsize m)) as (W' & MC & CS & _).
  - pose proof (wf_cap _ _ W). unfold slot in *. lia.
  - apply Forall_forall. intros c Hc. unfold cols in Hc. apply in_map_iff in Hc. destruct Hc as (j & <- & Hj). apply in_seq in Hj.
    apply newcol_rows; try assumption. lia.
  - unfold slot in *. split; [exact W'|]. split; [rewrite MC; exact LC|]. split; [reflexivity|]. split; [reflexivity|].
    intros j Hj. rewrite CS by (rewrite LC; exact Hj). unfold cols.
    rewrite (nth_indep _ [] (newcol m r ents 0)) by (rewrite map_length, seq_length; exact Hj).
    rewrite map_nth. rewrite seq_nth by exact Hj. reflexivity.
Qed.

(* ---- the loop of matrix_addrow ------------------------------------------------------------------------- *)

Lemma append_step_ok extra R r m e m1 :
  WFr R m -> fst e < mcols m -> r < R -> append_step r (Ok m) e = Ok m1 ->
  appended R m m1 (fst e) (Z.of_nat r, snd e) /\ msize m1 = msize m + extra * 0.
Proof.
  intros W Hj Hr. unfold append_step, bind. set (j := fst e) in *.
  assert (He : (0 <= fst (Z.of_nat r, snd e) < Z.of_nat R)%Z) by (simpl; lia).
  destruct (Nat.eqb_spec (cntj m j) 0) as [C0|C0].
  - destruct (Nat.leb_spec (msize m) (begj m j)); [discriminate|]. intros E; inversion E; subst m1.
    destruct (fill_empty_ok R m j _ W Hj C0 He) as (A & B & _). split; [exact A|lia].
  - destruct (Nat.leb_spec (msize m) (begj m j + cntj m j)); [discriminate|].
    destruct (Z.eqb_spec (ind_at m (begj m j + cntj m j)) FREE) as [F|F].
    + intros E; inversion E; subst m1. destruct (in_place_ok R m j _ W Hj ltac:(lia) ltac:(lia) F He) as (A & B). split; [exact A|lia].
    + intros E. destruct (relocate_ok R m j _ m1 W Hj ltac:(lia) He E) as (A & B & _). split; [exact A|lia].
Qed.

Lemma fold_append_fault r l : fold_left (append_step r) l Fault = Fault.
Proof. induction l as [|e l IH]; simpl; [reflexivity|exact IH]. Qed.
Lemma fold_append_rej r l : fold_left (append_step r) l Rej = Rej.
Proof. induction l as [|e l IH]; simpl; [reflexivity|exact IH]. Qed.

Lemma fold_append_ok R r ents : forall m m', WFr R m -> r < R -> Forall (fun e => fst e < mcols m) ents ->
  fold_left (append_step r) ents (Ok m) = Ok m' -> rows_added R m m' r ents.
Proof.
  induction ents as [|e ents IH]; intros m m' W Hr Hc H.
  - simpl in H. inversion H; subst m'. split; [exact W|]. repeat (split; [reflexivity|]). intros j Hj. unfold newcol. simpl. rewrite app_nil_r. reflexivity.
  - change (fold_left (append_step r) ents (append_step r (Ok m) e) = Ok m') in H. inversion Hc as [|? ? He Hc']; subst.
    destruct (append_step r (Ok m) e) as [m1| |] eqn:S1; [|rewrite fold_append_rej in H; discriminate|rewrite fold_append_fault in H; discriminate].
    destruct (append_step_ok 0 R r m e m1 W He Hr S1) as ((W1 & MC1 & MR1 & CS1 & A1 & O1) & _).
    destruct (IH m1 m' W1 Hr) as (W' & MC & MR & CSZ & CS); [rewrite MC1; exact Hc'|exact H|].
    split; [exact W'|]. split; [congruence|]. split; [congruence|]. split; [congruence|].
    intros j Hj. rewrite CS by (rewrite MC1; exact Hj). unfold newcol. simpl filter.
    destruct (Nat.eqb_spec (fst e) j) as [E|Hne].
    + subst j. rewrite A1. simpl. rewrite <- app_assoc. reflexivity.
    + rewrite O1 by congruence. reflexivity.
Qed.

(* composition of "rows added" over the entries of the row *)
Lemma rows_added_cons R m m1 m' r e rest :
  appended R m m1 (fst e) (Z.of_nat r, snd e) -> rows_added R m1 m' r rest -> rows_added R m m' r (e :: rest).
Proof.
  intros (W1 & MC1 & MR1 & CS1 & A1 & O1) (W' & MC & MR & CSZ & CS).
  split; [exact W'|]. split; [congruence|]. split; [congruence|]. split; [congruence|].
  intros j Hj. rewrite CS by (rewrite MC1; exact Hj). unfold newcol. simpl filter.
  destruct (Nat.eqb_spec (fst e) j) as [E|Hne].
  - subst j. rewrite A1. simpl. rewrite <- app_assoc. reflexivity.
  - rewrite O1 by congruence. reflexivity.
Qed.

(* the repaired loop of matrix_addrow *)
Lemma append_fixed_ok extra_mat R r ents : forall m m', WFr R m -> r < R -> Forall (fun e => fst e < mcols m) ents ->
  append_fixed extra_mat r ents m = Ok m' -> rows_added R m m' r ents.
Proof.
  induction ents as [|e ents IH]; intros m m' W Hr Hc H.
  - simpl in H. inversion H; subst m'. split; [exact W|]. repeat (split; [reflexivity|]). intros j Hj. unfold newcol. simpl. rewrite app_nil_r. reflexivity.
  - inversion Hc as [|? ? Hj Hc']; subst. cbn [append_fixed] in H. set (j := fst e) in *.
    assert (He : (0 <= fst (Z.of_nat r, snd e) < Z.of_nat R)%Z) by (simpl; lia).
    destruct (Nat.eqb_spec (cntj m j) 0) as [C0|C0].
    + destruct (Nat.leb_spec (msize m) (begj m j)); [discriminate|].
      destruct (fill_empty_ok R m j _ W Hj C0 He) as (A & _).
      eapply rows_added_cons; [exact A|]. pose proof A as (W1 & MC1 & _). apply IH; [exact W1|exact Hr|rewrite MC1; exact Hc'|exact H].
    + destruct (Nat.ltb_spec (begj m j + cntj m j) (msize m)) as [Hlt|Hge]; cbn [andb] in H.
      * destruct (Z.eqb_spec (ind_at m (begj m j + cntj m j)) FREE) as [F|F].
        -- destruct (in_place_ok R m j _ W Hj ltac:(lia) Hlt F He) as (A & _).
           eapply rows_added_cons; [exact A|]. pose proof A as (W1 & MC1 & _). apply IH; [exact W1|exact Hr|rewrite MC1; exact Hc'|exact H].
        -- destruct (Nat.leb_spec (cntj m j + 2) (mfree m)); [|eapply repack_ok; eauto].
           unfold bind in H. destruct (relocate m j (begj m j) (cntj m j) (Z.of_nat r, snd e)) as [m1| |] eqn:E1; try discriminate.
           destruct (relocate_ok R m j _ m1 W Hj ltac:(lia) He E1) as (A & _).
           eapply rows_added_cons; [exact A|]. pose proof A as (W1 & MC1 & _). apply IH; [exact W1|exact Hr|rewrite MC1; exact Hc'|exact H].
      * destruct (Nat.leb_spec (cntj m j + 2) (mfree m)); [|eapply repack_ok; eauto].
        unfold bind in H. destruct (relocate m j (begj m j) (cntj m j) (Z.of_nat r, snd e)) as [m1| |] eqn:E1; try discriminate.
        destruct (relocate_ok R m j _ m1 W Hj ltac:(lia) He E1) as (A & _).
        eapply rows_added_cons; [exact A|]. pose proof A as (W1 & MC1 & _). apply IH; [exact W1|exact Hr|rewrite MC1; exact Hc'|exact H].
Qed.

Lemma col_slots_set_rows m r j : col_slots (set_rows m r) j = col_slots m j.
Proof. reflexivity. Qed.

Lemma WFr_set_rows R m r : WFr R m -> WFr R (set_rows m r).
Proof. intros W. destruct W. constructor; assumption. Qed.

Theorem mat_addrow_ok extra_mat fixed m ents m' :
  WF m -> mat_addrow extra_mat fixed m ents = Ok m' ->
  WF m' /\ mcols m' = mcols m /\ mrows m' = S (mrows m) /\ colsize m' = colsize m /\
  forall j, j < mcols m -> col_slots m' j = newcol m (mrows m) ents j.
Proof.
  intros W. unfold mat_addrow. destruct (forallb (fun e => fst e <? mcols m) ents) eqn:V; [|discriminate]. simpl negb. cbv iota.
  assert (Hc : Forall (fun e => fst e < mcols m) ents).
  { apply Forall_forall. intros e He. rewrite forallb_forall in V. apply Nat.ltb_lt. apply V. exact He. }
  assert (W1 : WFr (S (mrows m)) m) by (apply (WFr_mono (mrows m)); [lia|exact W]).
  unfold bind.
  destruct (if delta m ents <? mfree m then (if fixed then append_fixed extra_mat (mrows m) ents m else fold_left (append_step (mrows m)) ents (Ok m))
            else repack extra_mat m (mrows m) ents) as [m1| |] eqn:E; try discriminate.
  intros H; inversion H; subst m'; clear H.
  assert (RA : rows_added (S (mrows m)) m m1 (mrows m) ents).
  { destruct (delta m ents <? mfree m); [destruct fixed; [eapply append_fixed_ok; eauto|apply fold_append_ok; try assumption; lia]|eapply repack_ok; eauto]. }
  destruct RA as (W' & MC & MR & CSZ & CS).
  split; [unfold WF; simpl; apply WFr_set_rows; exact W'|]. split; [exact MC|]. split; [reflexivity|]. split; [exact CSZ|].
  intros j Hj. rewrite col_slots_set_rows. apply CS. exact Hj.
Qed.

(* ---- matrix_addcol ------------------------------------------------------------------------------------- *)

Lemma nth_app_last {A} (d : A) l x j : nth j (l ++ [x]) d = if j <? length l then nth j l d else if j =? length l then x else d.
Proof.
  destruct (Nat.ltb_spec j (length l)); [apply app_nth1; assumption|]. rewrite app_nth2 by lia.
  destruct (Nat.eqb_spec j (length l)); [subst; rewrite Nat.sub_diag; reflexivity|].
  destruct (j - length l) as [|[|k]] eqn:E; try lia; reflexivity.
Qed.

Theorem mat_addcol_ok extra_cols extra_mat m ents m' :
  WF m -> mat_addcol extra_cols extra_mat m ents = Ok m' ->
  WF m' /\ mcols m' = S (mcols m) /\ mrows m' = mrows m /\
  (forall j, j < mcols m -> col_slots m' j = col_slots m j) /\ col_slots m' (mcols m) = map ent_slot ents.
Proof.
  intros W. unfold mat_addcol. destruct (forallb (fun e => fst e <? mrows m) ents) eqn:V; [|discriminate]. simpl negb. cbv iota.
  set (k := length ents). set (cs := if colsize m <? mcols m + 1 then colsize m + extra_cols else colsize m).
  set (grow := mfree m <? k + 1).
  set (sl := if grow then slots m ++ repeat dslot (k + extra_mat + 1) else slots m).
  set (fr := if grow then mfree m + (k + extra_mat + 1) else mfree m).
  set (w := Nat.max k 1). set (blk := match ents with [] => [dummy_slot] | _ => map ent_slot ents end).
  destruct (Nat.ltb_spec cs (mcols m + 1)) as [|Hcs]; [discriminate|].
  destruct (Nat.ltb_spec (length sl) (length sl - fr + w)) as [|Hfit]; [discriminate|].
  intros E; inversion E; subst m'; clear E.
  pose proof (wf_free _ _ W) as Hf. pose proof (wf_len _ _ W) as Hl.
  assert (Lsl : length sl = msize m + (if grow then k + extra_mat + 1 else 0)).
  { unfold sl. destruct grow; [rewrite app_length, repeat_length; reflexivity|unfold msize; lia]. }
  assert (Hb : length sl - fr = used m). { unfold fr, used. rewrite Lsl. destruct grow; lia. }
  assert (Hfr : w <= fr). { unfold fr, grow, w. destruct (Nat.ltb_spec (mfree m) (k + 1)); lia. }
  assert (Hfl : fr <= length sl). { unfold fr. rewrite Lsl. destruct grow; lia. }
  set (b := used m) in *. rewrite Hb in *.
  assert (Lblk : length blk = w). { unfold blk, w, k. destruct ents; [reflexivity|]. rewrite map_length. simpl. lia. }
  assert (Hblk1 : 0 < k -> blk = map ent_slot ents). { unfold blk, k. destruct ents; simpl; [lia|reflexivity]. }
  assert (Hblk0 : k = 0 -> blk = [dummy_slot]). { unfold blk, k. destruct ents; simpl; [reflexivity|lia]. }
  assert (Nsl1 : forall i, i < msize m -> nth i sl dslot = nth i (slots m) dslot).
  { intros i Hi. unfold sl. destruct grow; [apply app_nth1; exact Hi|reflexivity]. }
  assert (Nsl2 : forall i, b <= i -> fst (nth i sl dslot) = FREE).
  { intros i Hi. unfold sl. destruct grow.
    - destruct (Nat.lt_ge_cases i (msize m)) as [H1|H1].
      + rewrite app_nth1 by exact H1. apply (wf_tail _ _ W). fold b. lia.
      + rewrite app_nth2 by exact H1. rewrite repeat_nth. match goal with |- context [if ?c then _ else _] => destruct c end; reflexivity.
    - destruct (Nat.lt_ge_cases i (msize m)) as [H1|H1]; [apply (wf_tail _ _ W); fold b; lia|].
      rewrite nth_overflow by exact H1. reflexivity. }
  assert (Hw : b + length blk <= length sl) by (rewrite Lblk; lia).
  set (m' := {| slots := wr b blk sl; beg := beg m ++ [b]; cnt := cnt m ++ [k]; mfree := fr - w; mrows := mrows m; colsize := cs |}).
  assert (MC : mcols m' = S (mcols m)) by (unfold mcols, m'; simpl; rewrite app_length; simpl; lia).
  assert (MS : msize m' = length sl) by (unfold msize, m'; simpl; apply wr_length; exact Hw).
  assert (US : used m' = b + w) by (unfold used; rewrite MS; unfold m'; simpl; lia).
  assert (BG : forall j, begj m' j = if j <? mcols m then begj m j else if j =? mcols m then b else 0).
  { intros j. unfold begj, m'; simpl. apply nth_app_last. }
  assert (CN : forall j, cntj m' j = if j <? mcols m then cntj m j else if j =? mcols m then k else 0).
  { intros j. unfold cntj, m'; simpl. rewrite nth_app_last, Hl. reflexivity. }
  assert (N : forall i, nth i (slots m') dslot = if i <? b then nth i sl dslot else if i <? b + w then nth (i - b) blk dslot else nth i sl dslot).
  { intros i. unfold m'; simpl. rewrite nth_wr by exact Hw. rewrite Lblk. reflexivity. }
  assert (Hub : b <= msize m) by (unfold b, used; lia).
  assert (OLD : forall j i, j < mcols m -> i < begj m j + width (cntj m j) -> nth i (slots m') dslot = nth i (slots m) dslot).
  { intros j i Hj Hi. pose proof (wf_in _ _ W j Hj). fold b in H. rewrite N. destruct (Nat.ltb_spec i b); [|lia]. apply Nsl1. lia. }
  assert (Wk : width k = w) by reflexivity.
  assert (Vr : forall e, In e ents -> fst e < mrows m).
  { intros e He. rewrite forallb_forall in V. apply Nat.ltb_lt. apply V. exact He. }
  split; [|split; [exact MC|split; [reflexivity|split]]].
  - constructor.
    + unfold m'; simpl. rewrite !app_length, Hl. reflexivity.
    + rewrite MS. unfold m'; simpl. lia.
    + rewrite MC. unfold m'; simpl. lia.
    + intros i Hi. rewrite US, MS in Hi. unfold ind_at. rewrite N.
      destruct (Nat.ltb_spec i b); [lia|]. destruct (Nat.ltb_spec i (b + w)); [lia|]. apply Nsl2. lia.
    + intros j Hj. rewrite MC in Hj. rewrite BG, CN, US. destruct (Nat.ltb_spec j (mcols m)) as [H1|H1].
      * pose proof (wf_in _ _ W j H1). fold b in H. lia.
      * destruct (Nat.eqb_spec j (mcols m)); [|lia]. rewrite Wk. lia.
    + intros j i Hj Hi. rewrite MC in Hj. rewrite BG, CN in Hi. unfold ind_at. destruct (Nat.ltb_spec j (mcols m)) as [H1|H1].
      * rewrite (OLD j i H1) by (pose proof (width_ge (cntj m j)); lia). apply (wf_rows _ _ W j i H1 Hi).
      * destruct (Nat.eqb_spec j (mcols m)); [|lia]. rewrite N. destruct (Nat.ltb_spec i b); [lia|]. destruct (Nat.ltb_spec i (b + w)); [|lia].
        rewrite Hblk1 by lia.
        assert (Hik : i - b < length ents) by (fold k; lia).
        rewrite (nth_indep _ _ (ent_slot (0, 0%Q))) by (rewrite map_length; exact Hik). rewrite map_nth.
        pose proof (Vr _ (nth_In ents (0, 0%Q) Hik)). unfold ent_slot; simpl. unfold WF in W. lia.
    + intros j Hj C0. rewrite MC in Hj. rewrite CN in C0. rewrite BG. unfold ind_at. destruct (Nat.ltb_spec j (mcols m)) as [H1|H1].
      * rewrite (OLD j _ H1) by (pose proof (width_ge (cntj m j)); lia). apply (wf_dummy _ _ W j H1 C0).
      * destruct (Nat.eqb_spec j (mcols m)); [|lia]. rewrite N. destruct (Nat.ltb_spec b b); [lia|]. destruct (Nat.ltb_spec b (b + w)); [|unfold w in *; lia].
        rewrite Nat.sub_diag. rewrite Hblk0 by exact C0. reflexivity.
    + intros j1 j2 H1 H2 Hne. rewrite MC in H1, H2. rewrite !BG, !CN.
      destruct (Nat.ltb_spec j1 (mcols m)) as [A1|A1]; destruct (Nat.ltb_spec j2 (mcols m)) as [A2|A2].
      * apply (wf_disj _ _ W); assumption.
      * destruct (Nat.eqb_spec j2 (mcols m)); [|lia]. left. pose proof (wf_in _ _ W j1 A1). fold b in H. lia.
      * destruct (Nat.eqb_spec j1 (mcols m)); [|lia]. right. pose proof (wf_in _ _ W j2 A2). fold b in H. lia.
      * lia.
  - intros j Hj. unfold col_slots. rewrite BG, CN. destruct (Nat.ltb_spec j (mcols m)); [|lia].
    pose proof (col_inside _ _ _ W Hj) as Hin. pose proof (width_ge (cntj m j)) as Hwg.
    apply (rd_ext2 dslot).
    + fold (msize m'). rewrite MS, Lsl. lia.
    + fold (msize m). lia.
    + intros i Hi. apply (OLD j i); [assumption|lia].
  - unfold col_slots. rewrite BG, CN. destruct (Nat.ltb_spec (mcols m) (mcols m)); [lia|]. rewrite Nat.eqb_refl.
    destruct (Nat.eq_dec k 0) as [K0|K0].
    + rewrite K0. unfold k in K0. destruct ents; [reflexivity|discriminate].
    + rewrite <- (Hblk1 ltac:(lia)). assert (E : k = length blk) by (rewrite Lblk; unfold w; lia). rewrite E.
      unfold m'; simpl. apply rd_wr_same. exact Hw.
Qed.

(* ---- overwriting values ----------------------------------------------------------------------------------- *)

Definition with_slots (m : mat) (sl : list slot) : mat :=
  {| slots := sl; beg := beg m; cnt := cnt m; mfree := mfree m; mrows := mrows m; colsize := colsize m |}.

Lemma WFr_same_ind R m sl :
  WFr R m -> length sl = msize m -> (forall k, fst (nth k sl dslot) = fst (nth k (slots m) dslot)) -> WFr R (with_slots m sl).
Proof.
  intros W L H. destruct W. constructor; try assumption; unfold used, msize, ind_at, begj, cntj, mcols, with_slots in *; simpl in *;
    try rewrite L; try assumption; intros; rewrite H; eauto.
Qed.

Lemma rd_wr_inside {A} b c p (blk l : list A) :
  b <= p -> p + length blk <= b + c -> b + c <= length l -> rd b c (wr p blk l) = wr (p - b) blk (rd b c l).
Proof.
  intros H1 H2 H3. destruct l as [|d l0] eqn:E.
  - simpl in H3. assert (c = 0) by lia. subst c. destruct blk; [|simpl in H2; lia]. simpl in H2.
    assert (b = 0) by lia. assert (p = 0) by lia. subst. reflexivity.
  - rewrite <- E in *. clear E l0. apply (nth_ext _ _ d d).
    + rewrite rd_length by (rewrite wr_length by lia; lia). rewrite wr_length by (rewrite rd_length by lia; lia). rewrite rd_length by lia. reflexivity.
    + intros i Hi. rewrite rd_length in Hi by (rewrite wr_length by lia; lia).
      rewrite nth_rd by exact Hi. rewrite nth_wr by lia. rewrite nth_wr by (rewrite rd_length by lia; lia).
      destruct (Nat.ltb_spec (b + i) p); destruct (Nat.ltb_spec i (p - b)); try lia.
      * rewrite nth_rd by exact Hi. reflexivity.
      * destruct (Nat.ltb_spec (b + i) (p + length blk)); destruct (Nat.ltb_spec i (p - b + length blk)); try lia.
        -- f_equal. lia.
        -- rewrite nth_rd by exact Hi. reflexivity.
Qed.

Lemma find_ind_some r l k : find_ind r l = Some k -> k < length l /\ fst (nth k l dslot) = r.
Proof.
  revert k. induction l as [|s t IH]; intros k H; simpl in H; [discriminate|].
  destruct (Z.eqb_spec (fst s) r) as [E|E].
  - inversion H. simpl. split; [lia|exact E].
  - destruct (find_ind r t) as [k'|]; [|discriminate]. inversion H. destruct (IH k' eq_refl). simpl. split; [lia|assumption].
Qed.

Lemma set_first_find i v (l : list slot) : Forall (fun s => (0 <= fst s)%Z) l ->
  set_first i v (map slot_ent l) =
  match find_ind (Z.of_nat i) l with
  | Some k => map slot_ent (wr k [(Z.of_nat i, v)] l)
  | None => map slot_ent l ++ [(i, v)]
  end.
Proof.
  induction 1 as [|s t Hs Ht IH]; [reflexivity|]. simpl map. simpl set_first. simpl find_ind.
  destruct (Z.eqb_spec (fst s) (Z.of_nat i)) as [E|E].
  - unfold slot_ent at 1. simpl fst. rewrite E, Nat2Z.id, Nat.eqb_refl. unfold wr. simpl. unfold slot_ent. simpl. rewrite Nat2Z.id. reflexivity.
  - assert (N : Z.to_nat (fst s) <> i) by lia. unfold slot_ent at 1. simpl fst.
    destruct (Nat.eqb_spec (Z.to_nat (fst s)) i); [contradiction|]. rewrite IH.
    destruct (find_ind (Z.of_nat i) t) as [k|]; simpl; reflexivity.
Qed.

Lemma nth_single_wr p (e : slot) l k : p < length l -> nth k (wr p [e] l) dslot = if k =? p then e else nth k l dslot.
Proof.
  intros H. rewrite nth_wr by (simpl; lia). simpl length.
  destruct (Nat.ltb_spec k p); destruct (Nat.eqb_spec k p); try lia; try reflexivity.
  - subst. destruct (Nat.ltb_spec p (p + 1)); [|lia]. rewrite Nat.sub_diag. reflexivity.
  - destruct (Nat.ltb_spec k (p + 1)); [lia|reflexivity].
Qed.

Lemma col_slots_with_slots_other m sl j' p e :
  sl = wr p [e] (slots m) -> p < msize m -> (p < begj m j' \/ begj m j' + cntj m j' <= p) -> col_slots (with_slots m sl) j' = col_slots m j'.
Proof.
  intros -> Hp Ho. unfold col_slots, with_slots, begj, cntj in *; simpl. apply rd_wr_other; simpl; unfold msize in *; lia.
Qed.

(* the value of the entry at position k of column j is replaced (matrix_addcoef on a stored entry, ILLlib_chgsense) *)
Lemma overwrite_ok R m j k e :
  WFr R m -> j < mcols m -> k < cntj m j -> fst e = ind_at m (begj m j + k) ->
  let m' := with_slots m (wr (begj m j + k) [e] (slots m)) in
  WFr R m' /\ col_slots m' j = wr k [e] (col_slots m j) /\ (forall j', j' < mcols m -> j' <> j -> col_slots m' j' = col_slots m j').
Proof.
  intros W Hj Hk He m'. pose proof (col_inside _ _ _ W Hj) as Hin. pose proof (width_ge (cntj m j)) as Hwg.
  assert (Hp : begj m j + k < msize m) by lia.
  split; [|split].
  - apply WFr_same_ind; [exact W|apply wr_length; simpl; unfold msize in *; lia|].
    intros q. rewrite nth_single_wr by exact Hp. destruct (Nat.eqb_spec q (begj m j + k)); [subst; exact He|reflexivity].
  - unfold col_slots, m', with_slots, begj, cntj; simpl. fold (begj m j) (cntj m j).
    rewrite rd_wr_inside by (simpl; unfold msize in *; lia). f_equal. lia.
  - intros j' Hj' Hne. apply (col_slots_with_slots_other m _ j' (begj m j + k) e eq_refl Hp).
    destruct (wf_disj _ _ W j j' Hj Hj' ltac:(congruence)) as [D|D]; pose proof (width_ge (cntj m j')); lia.
Qed.

(* ---- matrix_addcoef ----------------------------------------------------------------------------------------- *)

Lemma col_ents_app m m' j e : col_slots m' j = col_slots m j ++ [e] -> col_ents m' j = col_ents m j ++ [slot_ent e].
Proof. intros H. unfold col_ents. rewrite H, map_app. reflexivity. Qed.

Theorem mat_addcoef_ok extra_mat m i j v m' nw :
  WF m -> mat_addcoef extra_mat m i j v = Ok (m', nw) ->
  WF m' /\ mcols m' = mcols m /\ mrows m' = mrows m /\ colsize m' = colsize m /\
  col_ents m' j = set_first i v (col_ents m j) /\
  (forall j', j' < mcols m -> j' <> j -> col_slots m' j' = col_slots m j') /\
  length (col_ents m' j) = length (col_ents m j) + (if nw then 1 else 0).
Proof.
  intros W. unfold mat_addcoef.
  destruct (Nat.ltb_spec i (mrows m)) as [Hi|]; [|discriminate]. destruct (Nat.ltb_spec j (mcols m)) as [Hj|]; [|discriminate]. simpl negb. simpl orb. cbv iota.
  set (b := begj m j). set (c := cntj m j). set (e := (Z.of_nat i, v)).
  destruct (Nat.ltb_spec (msize m) (b + c)); [discriminate|].
  assert (He : (0 <= fst e < Z.of_nat (mrows m))%Z) by (simpl; lia).
  assert (Rows : Forall (fun s => (0 <= fst s)%Z) (col_slots m j)).
  { eapply Forall_impl; [|apply (col_slots_rows _ _ _ W Hj)]. simpl. intros; lia. }
  pose proof (set_first_find i v (col_slots m j) Rows) as SF. fold (col_ents m j) in SF.
  change (col_slots m j) with (rd b c (slots m)) in SF.
  destruct (find_ind (Z.of_nat i) (rd b c (slots m))) as [k|] eqn:FI.
  - intros E; inversion E; subst m' nw; clear E.
    destruct (find_ind_some _ _ _ FI) as (Hk & Hind). rewrite rd_length in Hk by (unfold msize in *; lia). rewrite nth_rd in Hind by exact Hk.
    destruct (overwrite_ok (mrows m) m j k e W Hj Hk) as (W' & CS & CO); [simpl; unfold ind_at; fold b; rewrite Hind; reflexivity|].
    fold b in W', CS, CO. unfold with_slots in *.
    split; [exact W'|]. repeat (split; [reflexivity|]). split; [|split; [exact CO|]].
    + unfold col_ents at 1. rewrite CS. rewrite SF. reflexivity.
    + unfold col_ents at 1. rewrite CS. rewrite !map_length. rewrite wr_length; [unfold col_ents; rewrite map_length; lia|].
      rewrite (col_slots_length _ _ _ W Hj). simpl. fold c. lia.
  - unfold bind.
    match goal with |- match ?x with _ => _ end = _ -> _ => destruct x as [m1| |] eqn:E1 end; try discriminate.
    intros E; inversion E; subst m' nw; clear E.
    assert (G : WFr (mrows m) m1 /\ mcols m1 = mcols m /\ mrows m1 = mrows m /\ colsize m1 = colsize m /\
                col_slots m1 j = col_slots m j ++ [e] /\ (forall j', j' < mcols m -> j' <> j -> col_slots m1 j' = col_slots m j')).
    { destruct (Nat.eqb_spec c 0) as [C0|C0].
      - destruct (Nat.leb_spec (msize m) b); [discriminate|]. inversion E1; subst m1.
        destruct (fill_empty_ok (mrows m) m j e W Hj C0 He) as ((A1 & A2 & A3 & A4 & A5 & A6) & _). repeat (split; try assumption). intros; apply A6; assumption.
      - destruct ((b + c <? msize m) && (ind_at m (b + c) =? FREE)%Z) eqn:IP.
        + apply andb_true_iff in IP. destruct IP as [IP1 IP2]. apply Nat.ltb_lt in IP1. apply Z.eqb_eq in IP2. inversion E1; subst m1.
          destruct (in_place_ok (mrows m) m j e W Hj ltac:(fold c; lia) IP1 IP2 He) as ((A1 & A2 & A3 & A4 & A5 & A6) & _).
          repeat (split; try assumption). intros; apply A6; assumption.
        + destruct (c + 2 <? mfree m).
          * destruct (relocate_ok (mrows m) m j e m1 W Hj ltac:(fold c; lia) He E1) as ((A1 & A2 & A3 & A4 & A5 & A6) & _).
            repeat (split; try assumption). intros; apply A6; assumption.
          * destruct (repack_ok extra_mat (mrows m) m i [(j, v)] m1 W Hi E1) as (A1 & A2 & A3 & A4 & A5).
            repeat (split; try assumption).
            -- rewrite A5 by exact Hj. unfold newcol. simpl. rewrite Nat.eqb_refl. reflexivity.
            -- intros j' Hj' Hne. rewrite A5 by exact Hj'. unfold newcol. simpl. destruct (Nat.eqb_spec j j'); [congruence|]. simpl. apply app_nil_r. }
    destruct G as (W1 & MC & MR & CSZ & CJ & CO).
    split; [unfold WF; rewrite MR; exact W1|]. split; [exact MC|]. split; [exact MR|]. split; [exact CSZ|]. split; [|split; [exact CO|]].
    + rewrite (col_ents_app _ _ _ _ CJ). rewrite SF. unfold e, slot_ent. simpl. rewrite Nat2Z.id. reflexivity.
    + rewrite (col_ents_app _ _ _ _ CJ). rewrite app_length. reflexivity.
Qed.

Theorem mat_setval_ok m j v m' :
  WF m -> j < mcols m -> mat_setval m j v = Ok m' ->
  WF m' /\ mcols m' = mcols m /\ mrows m' = mrows m /\ colsize m' = colsize m /\
  (forall j', j' < mcols m -> j' <> j -> col_slots m' j' = col_slots m j') /\
  col_slots m' j = wr 0 [(ind_at m (begj m j), v)] (col_slots m j).
Proof.
  intros W Hj. unfold mat_setval. destruct (Nat.eqb_spec (cntj m j) 1) as [C1|]; [|discriminate]. simpl negb. cbv iota.
  destruct (Nat.leb_spec (msize m) (begj m j)); [discriminate|]. intros E; inversion E; subst m'; clear E.
  destruct (overwrite_ok (mrows m) m j 0 (ind_at m (begj m j), v) W Hj ltac:(lia)) as (W' & CS & CO); [simpl; rewrite Nat.add_0_r; reflexivity|].
  rewrite Nat.add_0_r in *. unfold with_slots in *.
  split; [exact W'|]. repeat (split; [reflexivity|]). split; [exact CO|exact CS].
Qed.

(* ---- delcols_work ------------------------------------------------------------------------------------------ *)

Lemma filter_length_le' {A} (f : A -> bool) l : length (filter f l) <= length l.
Proof. induction l as [|a l IH]; simpl; [lia|]. destruct (f a); simpl; lia. Qed.

(* the old index of the j'-th kept position *)
Fixpoint orig (mk : list bool) (j' : nat) : nat :=
  match mk with
  | [] => j'
  | true :: r => S (orig r j')
  | false :: r => match j' with 0 => 0 | S k => S (orig r k) end
  end.

Lemma keepb_length {A B} (mk : list bool) : forall (l : list A) (l' : list B), length l = length l' -> length (keepb mk l) = length (keepb mk l').
Proof.
  induction mk as [|d mk IH]; intros [|a l] [|a' l'] H; simpl in *; try discriminate; try reflexivity; destruct d; simpl; auto.
Qed.

Lemma keepb_length_filter {A} (mk : list bool) : forall (l : list A), length mk = length l -> length (keepb mk l) = length (filter negb mk).
Proof.
  induction mk as [|d mk IH]; intros [|a l] H; simpl in *; try discriminate; [reflexivity|]. destruct d; simpl; rewrite IH by lia; reflexivity.
Qed.

Lemma nth_keepb {A} (d : A) (mk : list bool) : forall (l : list A) j', length mk = length l -> j' < length (keepb mk l) ->
  nth j' (keepb mk l) d = nth (orig mk j') l d /\ orig mk j' < length mk /\ nth (orig mk j') mk true = false.
Proof.
  induction mk as [|x mk IH]; intros [|a l] j' L H; simpl in *; try discriminate; try lia.
  destruct x; simpl in *.
  - destruct (IH l j' ltac:(lia) H) as (A1 & A2 & A3). repeat split; [exact A1|lia|exact A3].
  - destruct j' as [|k]; [repeat split; lia|]. destruct (IH l k ltac:(lia) ltac:(lia)) as (A1 & A2 & A3). repeat split; [exact A1|lia|exact A3].
Qed.

Lemma orig_mono (mk : list bool) : forall j1 j2, j1 < j2 -> orig mk j1 < orig mk j2.
Proof.
  induction mk as [|x mk IH]; intros j1 j2 H; simpl; [exact H|]. destruct x.
  - specialize (IH j1 j2 H). lia.
  - destruct j1 as [|k1]; destruct j2 as [|k2]; try lia. specialize (IH k1 k2 ltac:(lia)). lia.
Qed.

Lemma keepb_map {A B} (f : A -> B) (mk : list bool) : forall l, keepb mk (map f l) = map f (keepb mk l).
Proof. induction mk as [|x mk IH]; intros [|a l]; simpl; try reflexivity; destruct x; simpl; rewrite ?IH; reflexivity. Qed.

(* slots after freeing the marked columns *)
Lemma free_marked_length mk : forall bs cs sl, (forall t, t < length bs -> nth t bs 0 + nth t cs 0 <= length sl) -> length bs = length cs ->
  length (free_marked mk bs cs sl) = length sl.
Proof.
  induction mk as [|x mk IH]; intros [|b bs] [|c cs] sl H L; simpl in *; try discriminate; try reflexivity.
  assert (Hbc : b + c <= length sl) by (apply (H 0); lia).
  assert (L1 : length (if x then free_blk b c sl else sl) = length sl).
  { destruct x; [|reflexivity]. unfold free_blk. apply wr_length. rewrite repeat_length. exact Hbc. }
  rewrite IH; [exact L1| |lia]. intros t Ht. rewrite L1. apply (H (S t)). lia.
Qed.

Lemma free_marked_nth mk : forall bs cs sl k, (forall t, t < length bs -> nth t bs 0 + nth t cs 0 <= length sl) -> length bs = length cs ->
  (forall t, t < length bs -> nth t mk false = true -> ~ (nth t bs 0 <= k < nth t bs 0 + nth t cs 0)) ->
  nth k (free_marked mk bs cs sl) dslot = nth k sl dslot.
Proof.
  induction mk as [|x mk IH]; intros [|b bs] [|c cs] sl k H L N; simpl in *; try discriminate; try reflexivity.
  assert (Hbc : b + c <= length sl) by (apply (H 0); lia).
  assert (L1 : length (if x then free_blk b c sl else sl) = length sl).
  { destruct x; [|reflexivity]. unfold free_blk. apply wr_length. rewrite repeat_length. exact Hbc. }
  rewrite IH.
  - destruct x; [|reflexivity]. unfold free_blk. rewrite nth_wr by (rewrite repeat_length; exact Hbc). rewrite repeat_length.
    specialize (N 0 ltac:(lia) eq_refl). simpl in N.
    destruct (Nat.ltb_spec k b); [reflexivity|]. destruct (Nat.ltb_spec k (b + c)); [lia|reflexivity].
  - intros t Ht. rewrite L1. apply (H (S t)). lia.
  - lia.
  - intros t Ht Mt. apply (N (S t)); [lia|exact Mt].
Qed.

Lemma free_marked_fst mk : forall bs cs sl k, (forall t, t < length bs -> nth t bs 0 + nth t cs 0 <= length sl) -> length bs = length cs ->
  fst (nth k (free_marked mk bs cs sl) dslot) = FREE \/ nth k (free_marked mk bs cs sl) dslot = nth k sl dslot.
Proof.
  induction mk as [|x mk IH]; intros [|b bs] [|c cs] sl k H L; simpl in *; try discriminate; try (right; reflexivity).
  assert (Hbc : b + c <= length sl) by (apply (H 0); lia).
  assert (L1 : length (if x then free_blk b c sl else sl) = length sl).
  { destruct x; [|reflexivity]. unfold free_blk. apply wr_length. rewrite repeat_length. exact Hbc. }
  destruct (IH bs cs (if x then free_blk b c sl else sl) k) as [F|F]; [intros t Ht; rewrite L1; apply (H (S t)); lia|lia|left; exact F|].
  rewrite F. destruct x; [|right; reflexivity]. unfold free_blk. rewrite nth_wr by (rewrite repeat_length; exact Hbc). rewrite repeat_length, repeat_nth.
  destruct (Nat.ltb_spec k b); [right; reflexivity|]. destruct (Nat.ltb_spec k (b + c)); [left|right; reflexivity].
  destruct (k - b <? c); reflexivity.
Qed.

Theorem mat_delcols_ok m mk m' :
  WF m -> mat_delcols m mk = Ok m' ->
  WF m' /\ mrows m' = mrows m /\ mcols m' = length (filter negb mk) /\ msize m' = msize m /\
  (forall j', j' < mcols m' -> col_slots m' j' = col_slots m (orig mk j') /\ orig mk j' < mcols m /\ nth (orig mk j') mk true = false) /\
  cnt m' = keepb mk (cnt m).
Proof.
  intros W. unfold mat_delcols. destruct (Nat.eqb_spec (length mk) (mcols m)) as [Lm|]; [|discriminate]. simpl negb. cbv iota.
  destruct (cols_inside m); [|discriminate]. simpl negb. cbv iota. intros E; inversion E; subst m'; clear E.
  set (sl := free_marked mk (beg m) (cnt m) (slots m)).
  set (m' := {| slots := sl; beg := keepb mk (beg m); cnt := keepb mk (cnt m); mfree := mfree m; mrows := mrows m; colsize := colsize m |}).
  pose proof (wf_len _ _ W) as Hl.
  assert (IN : forall t, t < length (beg m) -> nth t (beg m) 0 + nth t (cnt m) 0 <= length (slots m)).
  { intros t Ht. pose proof (col_inside _ _ _ W Ht). pose proof (width_ge (cntj m t)). unfold begj, cntj, msize in *. lia. }
  assert (Ls : length sl = msize m) by (apply free_marked_length; [exact IN|symmetry; exact Hl]).
  assert (MC : mcols m' = length (filter negb mk)) by (unfold mcols, m'; simpl; apply keepb_length_filter; exact Lm).
  assert (LK : length (keepb mk (cnt m)) = length (keepb mk (beg m))) by (apply keepb_length; exact Hl).
  assert (BG : forall j', j' < mcols m' -> begj m' j' = begj m (orig mk j') /\ cntj m' j' = cntj m (orig mk j') /\ orig mk j' < mcols m /\ nth (orig mk j') mk true = false).
  { intros j' Hj'. unfold mcols, m' in Hj'; simpl in Hj'.
    destruct (nth_keepb 0 mk (beg m) j' Lm Hj') as (A1 & A2 & A3).
    destruct (nth_keepb 0 mk (cnt m) j' ltac:(unfold mcols in Lm; lia) ltac:(lia)) as (B1 & _ & _).
    unfold begj, cntj, m'; simpl. repeat split; try assumption. unfold mcols in *. lia. }
  (* the slots of a kept column are untouched *)
  assert (KEEP : forall j k, j < mcols m -> nth j mk true = false -> begj m j <= k < begj m j + width (cntj m j) -> nth k sl dslot = nth k (slots m) dslot).
  { intros j k Hj Mj Hk. apply free_marked_nth; [exact IN|symmetry; exact Hl|].
    intros t Ht Mt Hin. assert (t <> j) by (intros ->; rewrite (nth_indep mk false true) in Mt by lia; congruence).
    destruct (wf_disj _ _ W t j Ht Hj H) as [D|D]; pose proof (width_ge (cntj m t)); unfold begj, cntj in *; lia. }
  split; [|split; [reflexivity|split; [exact MC|split; [exact Ls|split; [|reflexivity]]]]].
  - constructor.
    + exact LK.
    + unfold msize at 1; simpl. rewrite Ls. apply (wf_free _ _ W).
    + pose proof (wf_cap _ _ W). rewrite MC. unfold m'; simpl. pose proof (filter_length_le' negb mk). unfold mcols in *. lia.
    + intros k Hk. unfold used, msize, ind_at, m' in *; simpl in *. rewrite Ls in Hk.
      destruct (free_marked_fst mk (beg m) (cnt m) (slots m) k IN (eq_sym Hl)) as [F|F]; fold sl in F; [exact F|].
      rewrite F. apply (wf_tail _ _ W). unfold used, msize. lia.
    + intros j' Hj'. destruct (BG j' Hj') as (B1 & B2 & B3 & _). rewrite B1, B2. unfold used, msize; simpl. rewrite Ls. apply (wf_in _ _ W). exact B3.
    + intros j' k Hj' Hk. destruct (BG j' Hj') as (B1 & B2 & B3 & B4). rewrite B1, B2 in Hk. unfold ind_at; simpl.
      rewrite (KEEP (orig mk j') k B3 B4) by (pose proof (width_ge (cntj m (orig mk j'))); lia). apply (wf_rows _ _ W _ k B3 Hk).
    + intros j' Hj' C0. destruct (BG j' Hj') as (B1 & B2 & B3 & B4). rewrite B2 in C0. rewrite B1. unfold ind_at; simpl.
      rewrite (KEEP (orig mk j') _ B3 B4) by (pose proof (width_ge (cntj m (orig mk j'))); lia). apply (wf_dummy _ _ W _ B3 C0).
    + intros j1 j2 H1 H2 Hne. destruct (BG j1 H1) as (A1 & A2 & A3 & _). destruct (BG j2 H2) as (B1 & B2 & B3 & _).
      rewrite A1, A2, B1, B2. apply (wf_disj _ _ W); try assumption.
      destruct (Nat.lt_ge_cases j1 j2); [pose proof (orig_mono mk j1 j2 ltac:(lia))|pose proof (orig_mono mk j2 j1 ltac:(lia))]; lia.
  - intros j' Hj'. destruct (BG j' Hj') as (B1 & B2 & B3 & B4). split; [|split; assumption].
    unfold col_slots. rewrite B1, B2. apply (rd_ext dslot); [exact Ls|].
    intros k Hk. apply (KEEP (orig mk j') k B3 B4). pose proof (width_ge (cntj m (orig mk j'))). lia.
Qed.

(* ---- the packing loop of ILLlib_delrows ------------------------------------------------------------------- *)

Definition kept_of (rmk : list bool) (old : list slot) : list slot := map (renum rmk) (filter (row_kept rmk) old).

Lemma kept_of_length rmk old : length (kept_of rmk old) <= length old.
Proof. unfold kept_of. rewrite map_length. apply filter_length_le'. Qed.

Lemma width_mono a b : a <= b -> width a <= width b.
Proof. unfold width. lia. Qed.

Lemma compact_col_spec rmk sl b c sl2 k :
  b + width c <= length sl -> compact_col rmk sl b c = (sl2, k) ->
  k = length (kept_of rmk (rd b c sl)) /\ k <= c /\ length sl2 = length sl /\
  (forall p, ~ (b <= p < b + width c) -> nth p sl2 dslot = nth p sl dslot) /\
  rd b k sl2 = kept_of rmk (rd b c sl) /\
  (forall p, b + width k <= p < b + c -> fst (nth p sl2 dslot) = FREE) /\
  (k = 0 -> nth b sl2 dslot = dummy_slot).
Proof.
  intros Hin. unfold compact_col. fold (kept_of rmk (rd b c sl)). set (kept := kept_of rmk (rd b c sl)). intros E.
  pose proof (width_ge c) as Hwc.
  assert (Hk : length kept <= c). { pose proof (kept_of_length rmk (rd b c sl)). rewrite rd_length in H by lia. exact H. }
  set (blk := kept ++ repeat dslot (c - length kept)) in *.
  assert (Lb : length blk = c) by (unfold blk; rewrite app_length, repeat_length; lia).
  assert (L1 : length (wr b blk sl) = length sl) by (apply wr_length; lia).
  assert (N1 : forall p, nth p (wr b blk sl) dslot = if (b <=? p) && (p <? b + c) then nth (p - b) blk dslot else nth p sl dslot).
  { intros p. rewrite nth_wr by lia. rewrite Lb. destruct (Nat.ltb_spec p b); destruct (Nat.leb_spec b p); try lia; simpl; [reflexivity|].
    destruct (Nat.ltb_spec p (b + c)); reflexivity. }
  assert (NB : forall q, nth q blk dslot = if q <? length kept then nth q kept dslot else dslot).
  { intros q. unfold blk. destruct (Nat.ltb_spec q (length kept)); [apply app_nth1; assumption|]. rewrite app_nth2 by assumption.
    rewrite repeat_nth. destruct (_ <? _); reflexivity. }
  destruct (Nat.eqb_spec (length kept) 0) as [K0|K0]; inversion E; subst sl2 k; clear E.
  - assert (L2 : length (wr b [dummy_slot] (wr b blk sl)) = length sl) by (rewrite wr_length; [exact L1|rewrite L1; simpl; lia]).
    assert (N2 : forall p, nth p (wr b [dummy_slot] (wr b blk sl)) dslot = if p =? b then dummy_slot else nth p (wr b blk sl) dslot).
    { intros p. apply nth_single_wr. rewrite L1. lia. }
    split; [reflexivity|]. split; [lia|]. split; [exact L2|]. split; [|split; [|split]].
    + intros p Hp. rewrite N2, N1. destruct (Nat.eqb_spec p b); [lia|].
      destruct (Nat.leb_spec b p); destruct (Nat.ltb_spec p (b + c)); simpl; try reflexivity. lia.
    + rewrite K0. destruct kept; [reflexivity|discriminate].
    + intros p Hp. rewrite K0 in Hp. unfold width in Hp. simpl in Hp. rewrite N2, N1. destruct (Nat.eqb_spec p b); [lia|].
      destruct (Nat.leb_spec b p); destruct (Nat.ltb_spec p (b + c)); simpl; try lia. rewrite NB. rewrite K0. reflexivity.
    + intros _. rewrite N2, Nat.eqb_refl. reflexivity.
  - split; [reflexivity|]. split; [exact Hk|]. split; [exact L1|]. split; [|split; [|split]].
    + intros p Hp. rewrite N1. destruct (Nat.leb_spec b p); destruct (Nat.ltb_spec p (b + c)); simpl; try reflexivity. lia.
    + apply (nth_ext _ _ dslot dslot); [apply rd_length; lia|]. intros q Hq. rewrite rd_length in Hq by lia. rewrite nth_rd by exact Hq.
      rewrite N1. destruct (Nat.leb_spec b (b + q)); [|lia]. destruct (Nat.ltb_spec (b + q) (b + c)); [|lia]. simpl.
      rewrite NB. replace (b + q - b) with q by lia. destruct (Nat.ltb_spec q (length kept)); [reflexivity|lia].
    + intros p Hp. assert (Wk : width (length kept) = length kept) by (unfold width; lia). rewrite Wk in Hp.
      rewrite N1. destruct (Nat.leb_spec b p); [|lia]. destruct (Nat.ltb_spec p (b + c)); [|lia]. simpl. rewrite NB.
      destruct (Nat.ltb_spec (p - b) (length kept)); [lia|reflexivity].
    + intros Z. contradiction.
Qed.

Lemma compact_all_spec rmk : forall bs cs sl sl' ks,
  length bs = length cs ->
  (forall t, t < length bs -> nth t bs 0 + width (nth t cs 0) <= length sl) ->
  (forall t1 t2, t1 < length bs -> t2 < length bs -> t1 <> t2 ->
     nth t1 bs 0 + width (nth t1 cs 0) <= nth t2 bs 0 \/ nth t2 bs 0 + width (nth t2 cs 0) <= nth t1 bs 0) ->
  compact_all rmk sl bs cs = (sl', ks) ->
  length sl' = length sl /\ length ks = length bs /\
  (forall p, (forall t, t < length bs -> ~ (nth t bs 0 <= p < nth t bs 0 + width (nth t cs 0))) -> nth p sl' dslot = nth p sl dslot) /\
  (forall t, t < length bs ->
     let b := nth t bs 0 in let c := nth t cs 0 in let kept := kept_of rmk (rd b c sl) in
     nth t ks 0 = length kept /\ length kept <= c /\ rd b (length kept) sl' = kept /\
     (forall p, b + width (length kept) <= p < b + c -> fst (nth p sl' dslot) = FREE) /\
     (length kept = 0 -> nth b sl' dslot = dummy_slot)).
Proof.
  induction bs as [|b bs IH]; intros [|c cs] sl sl' ks L IN DJ E; simpl in L; try discriminate.
  - simpl in E. inversion E; subst. repeat split; try reflexivity; intros; simpl in *; lia.
  - cbn [compact_all] in E. destruct (compact_col rmk sl b c) as [sl1 k] eqn:E1. destruct (compact_all rmk sl1 bs cs) as [sl2 ks'] eqn:E2.
    injection E as Es Ek. subst sl' ks.
    destruct (compact_col_spec rmk sl b c sl1 k (IN 0 ltac:(simpl; lia)) E1) as (K1 & K2 & K3 & K4 & K5 & K6 & K7).
    assert (DJ0 : forall t, t < length bs -> b + width c <= nth t bs 0 \/ nth t bs 0 + width (nth t cs 0) <= b).
    { intros t Ht. apply (DJ 0 (S t)); simpl; lia. }
    destruct (IH cs sl1 sl2 ks' ltac:(lia)) as (A1 & A2 & A3 & A4); [| |exact E2|].
    + intros t Ht. rewrite K3. apply (IN (S t)). simpl; lia.
    + intros t1 t2 H1 H2 Hne. apply (DJ (S t1) (S t2)); simpl; lia.
    + assert (HEAD : forall p, b <= p < b + width c -> nth p sl2 dslot = nth p sl1 dslot).
      { intros p Hp. apply A3. intros t Ht. destruct (DJ0 t Ht); lia. }
      split; [congruence|]. split; [simpl; lia|]. split.
      * intros p Hp. rewrite A3 by (intros t Ht; apply (Hp (S t)); simpl; lia). apply K4. apply (Hp 0). simpl; lia.
      * intros [|t] Ht; simpl.
        -- pose proof (width_ge c). pose proof (width_mono _ _ K2).
           split; [exact K1|]. split; [rewrite <- K1; exact K2|]. rewrite <- K1. split; [|split].
           ++ rewrite <- K5. apply (rd_ext dslot); [exact A1|]. intros p Hp. apply HEAD. lia.
           ++ intros p Hp. rewrite HEAD by lia. apply K6. exact Hp.
           ++ intros Z. rewrite HEAD by lia. apply K7. exact Z.
        -- simpl in Ht. assert (Ht' : t < length bs) by lia. specialize (A4 t Ht'). simpl in A4.
           assert (RD : rd (nth t bs 0) (nth t cs 0) sl1 = rd (nth t bs 0) (nth t cs 0) sl).
           { apply (rd_ext dslot); [exact K3|]. intros p Hp. apply K4. pose proof (width_ge (nth t cs 0)). destruct (DJ0 t Ht'); lia. }
           rewrite RD in A4. exact A4.
Qed.

Lemma newidx_lt rmk r : r < length rmk -> nth r rmk false = false -> newidx rmk r < length (filter negb rmk).
Proof.
  intros Hr Hn. unfold newidx. rewrite <- (firstn_skipn r rmk) at 2. rewrite filter_app, app_length.
  destruct (skipn r rmk) as [|x t] eqn:E.
  - pose proof (skipn_length r rmk). rewrite E in H. simpl in H. lia.
  - assert (x = false). { pose proof (nth_skipn false r rmk 0) as Q. rewrite Nat.add_0_r, E in Q. simpl in Q. congruence. }
    subst x. simpl. lia.
Qed.

Theorem mat_delrows_ok m rmk m' :
  WF m -> mat_delrows m rmk = Ok m' ->
  WF m' /\ mcols m' = mcols m /\ mrows m' = length (filter negb rmk) /\ colsize m' = colsize m /\
  (forall j, j < mcols m -> col_slots m' j = kept_of rmk (col_slots m j)).
Proof.
  intros W. unfold mat_delrows. destruct (Nat.eqb_spec (length rmk) (mrows m)) as [Lr|]; [|discriminate]. simpl negb. cbv iota.
  destruct (cols_inside m && rows_inside m); [|discriminate]. simpl negb. cbv iota.
  destruct (existsb _ _); [discriminate|].
  destruct (compact_all rmk (slots m) (beg m) (cnt m)) as [sl ks] eqn:E. intros H; inversion H; subst m'; clear H.
  pose proof (wf_len _ _ W) as Hl.
  destruct (compact_all_spec rmk (beg m) (cnt m) (slots m) sl ks (eq_sym Hl)) as (A1 & A2 & A3 & A4); [| |exact E|].
  - intros t Ht. apply (col_inside _ _ _ W Ht).
  - intros t1 t2 H1 H2 Hne. apply (wf_disj _ _ W); assumption.
  - set (m' := {| slots := sl; beg := beg m; cnt := ks; mfree := mfree m; mrows := length (filter negb rmk); colsize := colsize m |}).
    assert (CN : forall j, j < mcols m -> cntj m' j = length (kept_of rmk (col_slots m j))).
    { intros j Hj. destruct (A4 j Hj) as (B1 & _). exact B1. }
    assert (KL : forall j, j < mcols m -> cntj m' j <= cntj m j).
    { intros j Hj. rewrite CN by exact Hj. destruct (A4 j Hj) as (_ & B2 & _). exact B2. }
    assert (OUT : forall p, used m <= p -> nth p sl dslot = nth p (slots m) dslot).
    { intros p Hp. apply A3. intros t Ht. pose proof (wf_in _ _ W t Ht). unfold begj, cntj in *. lia. }
    split; [|split; [reflexivity|split; [reflexivity|split; [reflexivity|]]]].
    + constructor.
      * unfold m'; simpl. lia.
      * unfold msize, m'; simpl. rewrite A1. apply (wf_free _ _ W).
      * apply (wf_cap _ _ W).
      * intros p Hp. unfold used, msize, ind_at, m' in *; simpl in *. rewrite A1 in Hp. rewrite OUT by (unfold used, msize; lia).
        apply (wf_tail _ _ W). unfold used, msize. lia.
      * intros j Hj. change (mcols m') with (mcols m) in Hj. change (begj m' j) with (begj m j).
        pose proof (wf_in _ _ W j Hj). pose proof (width_mono _ _ (KL j Hj)). unfold used, msize, m' in *; simpl in *. rewrite A1. lia.
      * intros j p Hj Hp. change (mcols m') with (mcols m) in Hj. change (begj m' j) with (begj m j) in Hp.
        destruct (A4 j Hj) as (B1 & B2 & B3 & _). fold (begj m j) (cntj m j) in B1, B2, B3. fold (col_slots m j) in B1, B2, B3.
        rewrite CN in Hp by exact Hj. unfold ind_at. change (slots m') with sl.
        replace p with (begj m j + (p - begj m j)) by lia. rewrite <- (nth_rd dslot _ (length (kept_of rmk (col_slots m j)))) by lia.
        rewrite B3. unfold kept_of. set (q := p - begj m j).
        assert (Hq : q < length (filter (row_kept rmk) (col_slots m j))) by (unfold kept_of in Hp; rewrite map_length in Hp; unfold q; lia).
        rewrite (nth_indep _ dslot (renum rmk dslot)) by (rewrite map_length; exact Hq). rewrite map_nth.
        pose proof (nth_In _ dslot Hq) as Hin. apply filter_In in Hin. destruct Hin as [Hin Hkp].
        pose proof (col_slots_rows _ _ _ W Hj) as Rw. rewrite Forall_forall in Rw. specialize (Rw _ Hin).
        set (s := nth q (filter (row_kept rmk) (col_slots m j)) dslot) in *. unfold renum. simpl fst.
        unfold row_kept in Hkp. apply negb_true_iff in Hkp.
        pose proof (newidx_lt rmk (Z.to_nat (fst s)) ltac:(lia) Hkp). unfold m'; simpl. lia.
      * intros j Hj C0. change (mcols m') with (mcols m) in Hj. rewrite CN in C0 by exact Hj.
        destruct (A4 j Hj) as (_ & _ & _ & _ & B5). unfold ind_at. change (slots m') with sl. change (begj m' j) with (nth j (beg m) 0).
        rewrite B5; [reflexivity|exact C0].
      * intros j1 j2 H1 H2 Hne. change (mcols m') with (mcols m) in H1, H2. change (begj m' j1) with (begj m j1). change (begj m' j2) with (begj m j2).
        pose proof (width_mono _ _ (KL j1 H1)). pose proof (width_mono _ _ (KL j2 H2)).
        destruct (wf_disj _ _ W j1 j2 H1 H2 Hne); [left|right]; lia.
    + intros j Hj. unfold col_slots at 1. change (begj m' j) with (begj m j). rewrite CN by exact Hj.
      destruct (A4 j Hj) as (_ & _ & B3 & _). exact B3.
Qed.
