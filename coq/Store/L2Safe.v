(* The calls of the public interface never fault on the concrete store and are never rejected by it when the reference
   model accepts them: with the repaired matrix_addrow (fixed = true) for every history (l2_run_fixed_safe); with
   matrix_addrow as found provided no added row repeats a column index (Store.MatrixSafe: the one way that loop can
   leave its array).  Needs one more invariant: the logical column of row i is the singleton [(i, +-1)] (ILLlib_chgsense
   refuses to touch a logical that is not a singleton). *)
From Coq Require Import String Ascii ZArith List Lia Bool Arith QArith Sorted.
From QSX Require Import Store.Spec Store.SpecInv Store.SpecValid Store.Api Store.DelRowsCert Store.ApiInv.
From QSX Require Import Store.Matrix Store.MatrixInv Store.MatrixSafe Store.L2 Store.L2Refine.
Import ListNotations.
Local Open Scope nat_scope.

Definition LOG (s : lstore) : Prop :=
  forall i, i < length (rmap s) -> exists c, col_ents (lA s) (nth i (rmap s) 0) = [(i, c)].

Lemma LOG_empty : LOG empty_lstore.
Proof. intros i H. simpl in H. lia. Qed.

Lemma newidx_orig mk : forall j', j' < length (filter negb mk) -> newidx mk (orig mk j') = j'.
Proof.
  induction mk as [|x mk IH]; intros j' H; simpl in H; [lia|]. unfold newidx in *. destruct x; simpl in *.
  - apply IH. exact H.
  - destruct j' as [|k]; [reflexivity|]. simpl. f_equal. apply IH. lia.
Qed.

Section Safe.
Variables extra_cols extra_mat : nat.
Variable fixed : bool.

Lemma lib_addcol_safe s ents :
  0 < extra_cols -> LWF s -> Forall (fun e => fst e < length (rmap s)) ents -> exists s', lib_addcol extra_cols extra_mat s ents = Ok s'.
Proof.
  intros Hec L V. unfold lib_addcol, bind. rewrite (lwf_rows _ L) in V.
  destruct (mat_addcol_safe extra_cols extra_mat (lA s) ents Hec (lwf_A _ L) V) as (A1 & E). rewrite E. eexists; reflexivity.
Qed.

Lemma lib_addcol_log s ents s' : LWF s -> LOG s -> lib_addcol extra_cols extra_mat s ents = Ok s' -> LOG s'.
Proof.
  intros L G. unfold lib_addcol, bind. destruct (mat_addcol extra_cols extra_mat (lA s) ents) as [A1| |] eqn:E; try discriminate.
  intros H; inversion H; subst s'; clear H. destruct (mat_addcol_ok _ _ _ _ _ (lwf_A _ L) E) as (_ & _ & _ & CO & _).
  intros i Hi. simpl in *. destruct (G i Hi) as (c & Ec). exists c. rewrite <- Ec. apply col_ents_eq. apply CO.
  pose proof (lwf_rrange _ L) as RR. rewrite Forall_forall in RR. apply RR. apply nth_In. exact Hi.
Qed.

Lemma lib_addrow_safe s ents coef :
  0 < extra_cols -> LWF s -> Forall (fun e => fst e < length (smap s)) ents -> fixed = true \/ NoDup (map fst ents) -> exists s', lib_addrow extra_cols extra_mat fixed s ents coef = Ok s'.
Proof.
  intros Hec L V ND. unfold lib_addrow, bind.
  assert (V' : forallb (fun e => fst e <? length (smap s)) ents = true).
  { apply forallb_forall. intros e He. rewrite Forall_forall in V. apply Nat.ltb_lt. apply V. exact He. }
  rewrite V'. simpl negb. cbv iota.
  set (ents' := map (fun e => (nth (fst e) (smap s) 0, snd e)) ents).
  pose proof (lwf_srange _ L) as SR. rewrite Forall_forall in SR. rewrite Forall_forall in V.
  destruct (mat_addrow_safe extra_mat fixed (lA s) ents' (lwf_A _ L)) as (A1 & E1).
  - apply Forall_forall. intros e' He'. unfold ents' in He'. apply in_map_iff in He'. destruct He' as (e & <- & He). simpl. apply SR. apply nth_In. apply V. exact He.
  - destruct ND as [ND|ND]; [left; exact ND|right]. unfold ents'. rewrite map_map. simpl. rewrite <- (map_map fst (fun k => nth k (smap s) 0)).
    apply NoDup_map_inj_in; [exact ND|]. intros x y Hx Hy Exy. apply in_map_iff in Hx, Hy. destruct Hx as (ex & <- & Hex). destruct Hy as (ey & <- & Hey).
    apply (NoDup_nth_inj (smap s)); [exact (lwf_snd _ L)|apply V; exact Hex|apply V; exact Hey|exact Exy].
  - rewrite E1. destruct (mat_addrow_ok _ _ _ _ _ (lwf_A _ L) E1) as (W1 & _ & MR1 & _).
    destruct (mat_addcol_safe extra_cols extra_mat A1 [(mrows (lA s), coef)] Hec W1) as (A2 & E2).
    + constructor; [simpl; lia|constructor].
    + rewrite E2. eexists; reflexivity.
Qed.

Lemma lib_addrow_log s ents coef s' : LWF s -> LOG s -> lib_addrow extra_cols extra_mat fixed s ents coef = Ok s' -> LOG s'.
Proof.
  intros L G. unfold lib_addrow, bind.
  destruct (forallb (fun e => fst e <? length (smap s)) ents) eqn:V; [|discriminate]. simpl negb. cbv iota.
  set (ents' := map (fun e => (nth (fst e) (smap s) 0, snd e)) ents).
  destruct (mat_addrow extra_mat fixed (lA s) ents') as [A1| |] eqn:E1; try discriminate.
  destruct (mat_addcol extra_cols extra_mat A1 [(mrows (lA s), coef)]) as [A2| |] eqn:E2; try discriminate.
  intros H; inversion H; subst s'; clear H.
  destruct (mat_addrow_ok extra_mat fixed (lA s) ents' A1 (lwf_A _ L) E1) as (W1 & MC1 & MR1 & _ & CS1).
  destruct (mat_addcol_ok extra_cols extra_mat A1 _ A2 W1 E2) as (W2 & MC2 & MR2 & CO2 & CN2).
  pose proof (lwf_rrange _ L) as RR. rewrite Forall_forall in RR.
  intros i Hi. simpl in *. rewrite app_length in Hi. simpl in Hi. destruct (Nat.lt_ge_cases i (length (rmap s))) as [H1|H1].
  - rewrite app_nth1 by exact H1. destruct (G i H1) as (c & Ec). exists c. rewrite <- Ec.
    set (x := nth i (rmap s) 0). assert (Hx : x < mcols (lA s)) by (apply RR; apply nth_In; exact H1).
    unfold col_ents. rewrite CO2 by (rewrite MC1; exact Hx). rewrite CS1 by exact Hx. unfold newcol.
    assert (F : filter (fun e => fst e =? x) ents' = []).
    { unfold ents'. clear -V L H1. induction ents as [|e ents IH]; [reflexivity|]. simpl in V. apply andb_true_iff in V. destruct V as [V1 V2]. apply Nat.ltb_lt in V1.
      simpl. destruct (Nat.eqb_spec (nth (fst e) (smap s) 0) x) as [Eq|_]; [|apply IH; exact V2].
      exfalso. apply (lwf_disj _ L x); [rewrite <- Eq; apply nth_In; exact V1|apply nth_In; exact H1]. }
    rewrite F. simpl. rewrite app_nil_r. reflexivity.
  - assert (i = length (rmap s)) by lia. subst i. rewrite app_nth2 by lia. rewrite Nat.sub_diag. simpl. exists coef.
    unfold col_ents. rewrite <- MC1, CN2. simpl. unfold slot_ent, ent_slot. simpl. rewrite Nat2Z.id, (lwf_rows _ L). reflexivity.
Qed.

Lemma lib_chgcoef_safe s i j v : LWF s -> i < length (rmap s) -> j < length (smap s) -> exists s', lib_chgcoef extra_mat s i j v = Ok s'.
Proof.
  intros L Hi Hj. unfold lib_chgcoef, bind. destruct (Nat.ltb_spec i (length (rmap s))); [|lia]. destruct (Nat.ltb_spec j (length (smap s))); [|lia]. simpl.
  pose proof (lwf_srange _ L) as SR. rewrite Forall_forall in SR.
  destruct (mat_addcoef_safe extra_mat (lA s) i (nth j (smap s) 0) v (lwf_A _ L)) as (r & E); [rewrite <- (lwf_rows _ L); exact Hi|apply SR; apply nth_In; exact Hj|].
  rewrite E. eexists; reflexivity.
Qed.

Lemma lib_chgcoef_log s i j v s' : LWF s -> LOG s -> lib_chgcoef extra_mat s i j v = Ok s' -> LOG s'.
Proof.
  intros L G. unfold lib_chgcoef, bind.
  destruct (Nat.ltb_spec i (length (rmap s))) as [Hi|]; [|discriminate]. destruct (Nat.ltb_spec j (length (smap s))) as [Hj|]; [|discriminate]. simpl.
  destruct (mat_addcoef extra_mat (lA s) i (nth j (smap s) 0) v) as [[A1 nw]| |] eqn:E; try discriminate.
  intros H; inversion H; subst s'; clear H. simpl.
  destruct (mat_addcoef_ok extra_mat (lA s) i _ v A1 nw (lwf_A _ L) E) as (_ & _ & _ & _ & _ & CO & _).
  pose proof (lwf_rrange _ L) as RR. rewrite Forall_forall in RR.
  intros k Hk. simpl in *. destruct (G k Hk) as (c & Ec). exists c. rewrite <- Ec. apply col_ents_eq. apply CO; [apply RR; apply nth_In; exact Hk|].
  intros C. apply (lwf_disj _ L (nth k (rmap s) 0)); [rewrite C; apply nth_In; exact Hj|apply nth_In; exact Hk].
Qed.

Lemma log_cnt s i : LWF s -> LOG s -> i < length (rmap s) -> cntj (lA s) (nth i (rmap s) 0) = 1.
Proof.
  intros L G Hi. destruct (G i Hi) as (c & Ec). pose proof (lwf_rrange _ L) as RR. rewrite Forall_forall in RR.
  rewrite <- (col_slots_length _ _ _ (lwf_A _ L)) by (apply RR; apply nth_In; exact Hi).
  unfold col_ents in Ec. rewrite <- (map_length slot_ent), Ec. reflexivity.
Qed.

Lemma lib_chgsense_safe s i coef : LWF s -> LOG s -> i < length (rmap s) -> exists s', lib_chgsense s i coef = Ok s'.
Proof.
  intros L G Hi. unfold lib_chgsense, bind. destruct (Nat.ltb_spec i (length (rmap s))); [|lia]. simpl.
  pose proof (lwf_rrange _ L) as RR. rewrite Forall_forall in RR.
  destruct (mat_setval_safe (lA s) (nth i (rmap s) 0) coef (lwf_A _ L)) as (A1 & E); [apply RR; apply nth_In; exact Hi|apply log_cnt; assumption|].
  rewrite E. eexists; reflexivity.
Qed.

Lemma lib_chgsense_log s i coef s' : LWF s -> LOG s -> lib_chgsense s i coef = Ok s' -> LOG s'.
Proof.
  intros L G. unfold lib_chgsense, bind. destruct (Nat.ltb_spec i (length (rmap s))) as [Hi|]; [|discriminate]. simpl.
  destruct (mat_setval (lA s) (nth i (rmap s) 0) coef) as [A1| |] eqn:E; try discriminate.
  intros H; inversion H; subst s'; clear H.
  pose proof (lwf_rrange _ L) as RR. rewrite Forall_forall in RR.
  assert (Hr : nth i (rmap s) 0 < mcols (lA s)) by (apply RR; apply nth_In; exact Hi).
  destruct (mat_setval_ok (lA s) _ coef A1 (lwf_A _ L) Hr E) as (_ & _ & _ & _ & CO & CJ).
  intros k Hk. simpl in *. destruct (G k Hk) as (c & Ec). destruct (Nat.eq_dec k i) as [->|Hne].
  - exists coef. unfold col_ents in *. rewrite CJ. destruct (col_slots (lA s) (nth i (rmap s) 0)) as [|s0 [|s1 t]] eqn:CS; try discriminate.
    assert (F : ind_at (lA s) (begj (lA s) (nth i (rmap s) 0)) = fst s0).
    { unfold col_slots in CS. pose proof (log_cnt s i L G Hi) as C1. rewrite C1 in CS.
      pose proof (col_inside _ _ _ (lwf_A _ L) Hr) as Hin. rewrite C1 in Hin. unfold width in Hin. simpl in Hin.
      rewrite (rd_one dslot) in CS by (unfold msize in Hin; lia). injection CS as CS. unfold ind_at. rewrite CS. reflexivity. }
    rewrite F. unfold wr. simpl. simpl in Ec. injection Ec as Ea Eb.
    unfold slot_ent. simpl. rewrite Ea. reflexivity.
  - exists c. rewrite <- Ec. apply col_ents_eq. apply CO; [apply RR; apply nth_In; exact Hk|].
    intros C. apply Hne. apply (NoDup_nth_inj (rmap s)); [exact (lwf_rnd _ L)|exact Hk|exact Hi|exact C].
Qed.

Lemma checks_true (n : nat) ds : (forall d, In d ds -> d < n) -> NoDup ds -> (forallb (fun j => j <? n) ds && nodupn ds)%bool = true.
Proof.
  intros V ND. apply andb_true_iff. split; [|apply nodupn_NoDup; exact ND]. apply forallb_forall. intros d Hd. apply Nat.ltb_lt. apply V. exact Hd.
Qed.

Lemma lib_delcols_safe s ds : LWF s -> (forall d, In d ds -> d < length (smap s)) -> NoDup ds -> exists s', lib_delcols s ds = Ok s'.
Proof.
  intros L V ND. unfold lib_delcols, bind. rewrite (checks_true _ _ V ND). simpl.
  destruct (mat_delcols_safe (lA s) (marks (mcols (lA s)) (map (fun j => nth j (smap s) 0) ds)) (lwf_A _ L) (marks_length _ _)) as (A1 & E).
  rewrite E. eexists; reflexivity.
Qed.

Lemma lib_delrows_safe s ds : LWF s -> (forall d, In d ds -> d < length (rmap s)) -> NoDup ds -> exists s', lib_delrows s ds = Ok s'.
Proof.
  intros L V ND. unfold lib_delrows, bind. rewrite (checks_true _ _ V ND). simpl.
  destruct (mat_delcols_safe (lA s) (marks (mcols (lA s)) (map (fun j => nth j (rmap s) 0) ds)) (lwf_A _ L) (marks_length _ _)) as (A1 & E1).
  rewrite E1. destruct (mat_delcols_ok _ _ _ (lwf_A _ L) E1) as (W1 & MR1 & _).
  destruct (mat_delrows_safe A1 (marks (mrows (lA s)) ds) W1) as (A2 & E2); [rewrite marks_length; symmetry; exact MR1|].
  rewrite E2. eexists; reflexivity.
Qed.

Lemma lib_delcols_log s ds s' : LWF s -> LOG s -> lib_delcols s ds = Ok s' -> LOG s'.
Proof.
  intros L G. unfold lib_delcols, bind. destruct (forallb (fun j => j <? length (smap s)) ds && nodupn ds)%bool eqn:V; [|discriminate]. simpl negb. cbv iota.
  apply andb_true_iff in V. destruct V as [V1 V2].
  assert (Vd : forall d, In d ds -> d < length (smap s)) by (intros d Hd; rewrite forallb_forall in V1; apply Nat.ltb_lt; apply V1; exact Hd).
  set (A := lA s) in *. set (cds := map (fun j => nth j (smap s) 0) ds). set (cmk := marks (mcols A) cds).
  destruct (mat_delcols A cmk) as [A1| |] eqn:E; try discriminate. intros H; inversion H; subst s'; clear H.
  destruct (mat_delcols_ok A cmk A1 (lwf_A _ L) E) as (W1 & MR & MC & _ & CO & _).
  pose proof (lwf_rrange _ L) as RR. rewrite Forall_forall in RR. fold A in RR.
  assert (Lc : length cmk = mcols A) by apply marks_length.
  intros i Hi. simpl in *. rewrite map_length in Hi. destruct (G i Hi) as (c & Ec). exists c. rewrite <- Ec. fold A.
  rewrite (nth_indep _ 0 (newidx cmk 0)) by (rewrite map_length; exact Hi). rewrite map_nth.
  set (x := nth i (rmap s) 0). assert (Hx : In x (rmap s)) by (apply nth_In; exact Hi).
  assert (Nx : nth x cmk false = false).
  { destruct (nth x cmk false) eqn:N; [|reflexivity]. apply nth_marks_true in N. destruct N as [_ N]. exfalso.
    unfold cds in N. apply in_map_iff in N. destruct N as (d & Ed & Hd). apply (lwf_disj _ L x); [rewrite <- Ed; apply nth_In; apply Vd; exact Hd|exact Hx]. }
  assert (Hn : newidx cmk x < mcols A1) by (rewrite MC; apply newidx_lt; [rewrite Lc; apply RR; exact Hx|exact Nx]).
  apply col_ents_eq. destruct (CO _ Hn) as (C1 & _). rewrite C1. rewrite orig_newidx; [reflexivity|rewrite Lc; apply RR; exact Hx|exact Nx].
Qed.

Lemma lib_delrows_log s ds s' : LWF s -> LOG s -> lib_delrows s ds = Ok s' -> LOG s'.
Proof.
  intros L G. unfold lib_delrows, bind. destruct (forallb (fun j => j <? length (rmap s)) ds && nodupn ds)%bool eqn:V; [|discriminate]. simpl negb. cbv iota.
  apply andb_true_iff in V. destruct V as [V1 V2]. apply nodupn_NoDup in V2.
  assert (Vd : forall d, In d ds -> d < length (rmap s)) by (intros d Hd; rewrite forallb_forall in V1; apply Nat.ltb_lt; apply V1; exact Hd).
  set (A := lA s) in *. set (rmk := marks (mrows A) ds). set (cds := map (fun j => nth j (rmap s) 0) ds). set (cmk := marks (mcols A) cds).
  destruct (mat_delcols A cmk) as [A1| |] eqn:E1; try discriminate. destruct (mat_delrows A1 rmk) as [A2| |] eqn:E2; try discriminate.
  intros H; inversion H; subst s'; clear H.
  destruct (mat_delcols_ok A cmk A1 (lwf_A _ L) E1) as (W1 & MR1 & MC1 & _ & CO1 & _).
  destruct (mat_delrows_ok A1 rmk A2 W1 E2) as (W2 & MC2 & MR2 & _ & CS2).
  pose proof (lwf_rrange _ L) as RR. rewrite Forall_forall in RR. fold A in RR. pose proof (lwf_rows _ L) as LR. fold A in LR.
  assert (Lc : length cmk = mcols A) by apply marks_length.
  set (rmarks := marks (length (rmap s)) ds).
  intros i' Hi'. simpl in *. rewrite map_length in Hi'. fold rmarks in Hi'.
  destruct (nth_keepb 0 rmarks (rmap s) i' ltac:(unfold rmarks; apply marks_length) Hi') as (K1 & K2 & K3).
  set (i := orig rmarks i') in *. unfold rmarks in K2. rewrite marks_length in K2.
  assert (Ni : memn i ds = false).
  { rewrite (nth_indep _ true false) in K3 by (unfold rmarks; rewrite marks_length; exact K2). unfold rmarks in K3. rewrite nth_marks in K3 by exact K2. exact K3. }
  destruct (G i K2) as (c & Ec). exists c.
  rewrite (nth_indep _ 0 (newidx cmk 0)) by (rewrite map_length; exact Hi'). rewrite map_nth. fold rmarks. rewrite K1.
  set (x := nth i (rmap s) 0) in *. assert (Hx : In x (rmap s)) by (apply nth_In; exact K2).
  assert (Nx : nth x cmk false = false).
  { unfold cmk. rewrite nth_marks by (apply RR; exact Hx). unfold cds, x. rewrite memn_map_nth by (try exact (lwf_rnd _ L); assumption). exact Ni. }
  assert (Hn : newidx cmk x < mcols A1) by (rewrite MC1; apply newidx_lt; [rewrite Lc; apply RR; exact Hx|exact Nx]).
  unfold col_ents. rewrite CS2 by exact Hn. destruct (CO1 _ Hn) as (C1 & _). rewrite C1.
  rewrite orig_newidx by (try rewrite Lc; try apply RR; assumption).
  unfold rmk. rewrite (kept_of_ents (mrows A) ds _ V2) by (apply (col_slots_rows _ _ _ (lwf_A _ L)); apply RR; exact Hx).
  unfold col_ents in Ec. fold A in Ec. rewrite Ec. unfold del_rows_ent. simpl. rewrite Ni. simpl. f_equal. f_equal.
  rewrite <- (newidx_marks (mrows A) ds i V2) by (rewrite <- LR; lia). rewrite <- LR. fold rmarks. unfold i. apply newidx_orig.
  rewrite <- (keepb_length_filter rmarks (rmap s)) by (unfold rmarks; apply marks_length). exact Hi'.
Qed.
End Safe.

(* ---- the calls of the reference model ------------------------------------------------------------------------- *)

Definition good (s : lstore) (p : prob) : Prop := refines s p /\ LOG s.

(* no added row lists a column twice *)
Definition rows_nodup (o : pop) : Prop :=
  match o with
  | AddRow _ _ _ _ ent => NoDup (map fst (nat_ents ent))
  | AddRows l => Forall (fun r : rowspec => NoDup (map fst (nat_ents (snd r)))) l
  | _ => True
  end.

Section StepSafe.
Variable M : Q.
Variables extra_cols extra_mat : nat.
Variable fixed : bool.
Hypothesis Hec : 0 < extra_cols.

Lemma good_addcol s p obj lo up nm ent p' :
  good s p -> add_col p obj lo up nm ent = Some p' ->
  exists s', lib_addcol extra_cols extra_mat s (nat_ents ent) = Ok s' /\ good s' p'.
Proof.
  intros (Rf & G) H. pose proof Rf as (L & E & R).
  assert (V : Forall (fun e => fst e < length (rmap s)) (nat_ents ent)).
  { unfold add_col in H. destruct (pick_name _ _ _); [|discriminate]. destruct (conv_ent (nrow p) ent) as [e|] eqn:C; [|discriminate].
    rewrite <- (conv_ent_nat _ _ _ C), R. eapply conv_ent_lt; eauto. }
  destruct (lib_addcol_safe extra_cols extra_mat s _ Hec L V) as (s' & S). exists s'. split; [exact S|]. split.
  - eapply refines_addcol; eauto.
  - eapply lib_addcol_log; eauto.
Qed.

Lemma good_addrow s p rhs sn rng nm ent p' :
  good s p -> add_row p rhs sn rng nm ent = Some p' -> fixed = true \/ NoDup (map fst (nat_ents ent)) ->
  exists s', lib_addrow extra_cols extra_mat fixed s (nat_ents ent) (coef_of_sense sn) = Ok s' /\ good s' p'.
Proof.
  intros (Rf & G) H ND. pose proof Rf as (L & E & R).
  assert (V : Forall (fun e => fst e < length (smap s)) (nat_ents ent)).
  { unfold add_row in H. destruct (sense_of_ascii sn); [|discriminate]. destruct (pick_name _ _ _); [|discriminate].
    destruct (conv_ent (ncol p) ent) as [e|] eqn:C; [|discriminate].
    rewrite <- (conv_ent_nat _ _ _ C), (refines_ncol _ _ Rf). eapply conv_ent_lt; eauto. }
  destruct (lib_addrow_safe extra_cols extra_mat fixed s _ (coef_of_sense sn) Hec L V ND) as (s' & S). exists s'. split; [exact S|]. split.
  - eapply refines_addrow; eauto.
  - eapply lib_addrow_log; eauto.
Qed.

Lemma good_addcols l : forall s p p', good s p -> add_cols p l = Some p' -> exists s', l2_addcols extra_cols extra_mat s l = Ok s' /\ good s' p'.
Proof.
  induction l as [|[[[[obj lo] up] nm] ent] r IH]; intros s p p' Gd H; simpl in *.
  - inversion H; subst. exists s. split; [reflexivity|exact Gd].
  - destruct (add_col p obj lo up nm ent) as [p1|] eqn:A; [|discriminate].
    destruct (good_addcol s p obj lo up nm ent p1 Gd A) as (s1 & S1 & G1). unfold bind. rewrite S1. apply (IH s1 p1 p' G1 H).
Qed.

Lemma good_addrows l : forall s p p', good s p -> add_rows p l = Some p' -> fixed = true \/ Forall (fun r : rowspec => NoDup (map fst (nat_ents (snd r)))) l ->
  exists s', l2_addrows extra_cols extra_mat fixed s l = Ok s' /\ good s' p'.
Proof.
  induction l as [|[[[[rhs sn] rng] nm] ent] r IH]; intros s p p' Gd H ND; simpl in *.
  - inversion H; subst. exists s. split; [reflexivity|exact Gd].
  - destruct (add_row p rhs sn rng nm ent) as [p1|] eqn:A; [|discriminate].
    assert (N1 : fixed = true \/ NoDup (map fst (nat_ents ent))) by (destruct ND as [ND|ND]; [left; exact ND|right; inversion ND; assumption]).
    assert (N2 : fixed = true \/ Forall (fun r : rowspec => NoDup (map fst (nat_ents (snd r)))) r) by (destruct ND as [ND|ND]; [left; exact ND|right; inversion ND; assumption]).
    destruct (good_addrow s p rhs sn rng nm ent p1 Gd A N1) as (s1 & S1 & G1). unfold bind. rewrite S1. apply (IH s1 p1 p' G1 H N2).
Qed.

Lemma conv_senses_lt n l t : conv_senses n l = Some t -> Forall (fun ia : Z * ascii => Z.to_nat (fst ia) < n) l.
Proof.
  revert t. induction l as [|[z a] r IH]; intros t H; simpl in H; [constructor|].
  destruct (idx n z) as [i|] eqn:E; [|discriminate]. destruct (sense_of_ascii a); [|discriminate]. destruct (conv_senses n r) as [t'|] eqn:F; [|discriminate].
  constructor; [simpl; rewrite <- (idx_to_nat _ _ _ E); eapply idx_lt; eauto|eapply IH; eauto].
Qed.

Lemma good_chgsenses l : forall s p, good s p -> Forall (fun ia : Z * ascii => Z.to_nat (fst ia) < length (rmap s)) l ->
  exists s', l2_chgsenses s l = Ok s' /\ good s' p.
Proof.
  induction l as [|[i a] r IH]; intros s p Gd V; simpl; [exists s; split; [reflexivity|exact Gd]|].
  inversion V as [|? ? V1 V2]; subst. simpl in V1. destruct Gd as (Rf & G). pose proof Rf as (L & E & R).
  destruct (lib_chgsense_safe s (Z.to_nat i) (coef_of_sense a) L G V1) as (s1 & S1). unfold bind. rewrite S1.
  destruct (lib_chgsense_ok _ _ _ _ L S1) as (L' & E' & _ & R' & _).
  apply IH.
  - split; [split; [exact L'|split; [rewrite E'; exact E|rewrite R'; exact R]]|exact (lib_chgsense_log s (Z.to_nat i) (coef_of_sense a) s1 L G S1)].
  - rewrite R'. exact V2.
Qed.

Lemma good_delrows s p o p' t :
  good s p -> is_delrows o = true -> pstep M p o = (p', ROk t) ->
  exists s', (match del_rows_of p o with [] => Ok s | ds => lib_delrows s ds end) = Ok s' /\ good s' p'.
Proof.
  intros (Rf & G) F P. pose proof Rf as (L & E & R). destruct (pstep_delrows_spec M p o p' t F P) as (Ep & ND & RG).
  assert (X : exists s', (match del_rows_of p o with [] => Ok s | ds => lib_delrows s ds end) = Ok s' /\ LOG s').
  { destruct (del_rows_of p o) as [|d ds] eqn:D; [exists s; split; [reflexivity|exact G]|].
    destruct (lib_delrows_safe s (d :: ds) L) as (s' & S); [rewrite Forall_forall in RG; intros x Hx; rewrite R; apply RG; exact Hx|exact ND|].
    exists s'. split; [exact S|eapply lib_delrows_log; eauto]. }
  destruct X as (s' & S & G'). exists s'. split; [exact S|]. split; [|exact G']. eapply refines_delrows; eauto.
Qed.

Lemma good_delcols s p o p' t :
  good s p -> match o with DelCols _ | DelSetCols _ | DelNCols _ => True | _ => False end -> pstep M p o = (p', ROk t) ->
  exists s', (match del_cols_of p o with [] => Ok s | ds => lib_delcols s ds end) = Ok s' /\ good s' p'.
Proof.
  intros (Rf & G) F P. pose proof Rf as (L & E & R). destruct (pstep_delcols_spec M p o p' t F P) as (Ep & ND & RG).
  assert (X : exists s', (match del_cols_of p o with [] => Ok s | ds => lib_delcols s ds end) = Ok s' /\ LOG s').
  { destruct (del_cols_of p o) as [|d ds] eqn:D; [exists s; split; [reflexivity|exact G]|].
    destruct (lib_delcols_safe s (d :: ds) L) as (s' & S); [rewrite Forall_forall in RG; intros x Hx; rewrite (refines_ncol _ _ Rf); apply RG; exact Hx|exact ND|].
    exists s'. split; [exact S|eapply lib_delcols_log; eauto]. }
  destruct X as (s' & S & G'). exists s'. split; [exact S|]. split; [|exact G']. eapply refines_delcols; eauto.
Qed.

Theorem l2_step_safe s p o p' t :
  good s p -> pstep M p o = (p', ROk t) -> fixed = true \/ rows_nodup o -> exists s', l2_step extra_cols extra_mat fixed p s o = Ok s' /\ good s' p'.
Proof.
  intros Gd P ND. destruct (touches_matrix o) eqn:T.
  2:{ exists s. split; [destruct o; simpl in T; try discriminate; reflexivity|]. destruct Gd as (Rf & G). split; [|exact G].
      eapply (l2_step_refines M extra_cols extra_mat fixed s p o p' t s Rf P). destruct o; simpl in T; try discriminate; reflexivity. }
  destruct Gd as (Rf & G). pose proof Rf as (L & E & R).
  destruct o; simpl in T; try discriminate; cbn [pstep] in P; unfold edit in P; cbn [l2_step].
  - destruct (add_col p obj lo up nm []) as [p1|] eqn:A; inversion P; subst. apply (good_addcol s p obj lo up nm [] p' (conj Rf G) A).
  - destruct (add_col p obj lo up nm ent) as [p1|] eqn:A; inversion P; subst. apply (good_addcol s p obj lo up nm ent p' (conj Rf G) A).
  - destruct (add_cols p l) as [p1|] eqn:A; inversion P; subst. apply (good_addcols l s p p' (conj Rf G) A).
  - destruct (add_row p rhs sn None nm []) as [p1|] eqn:A; inversion P; subst. apply (good_addrow s p rhs sn None nm [] p' (conj Rf G) A). right. constructor.
  - destruct (add_row p rhs sn rng nm ent) as [p1|] eqn:A; inversion P; subst. apply (good_addrow s p rhs sn rng nm ent p' (conj Rf G) A ND).
  - destruct (add_rows p l) as [p1|] eqn:A; inversion P; subst. apply (good_addrows l s p p' (conj Rf G) A ND).
  - apply (good_delrows s p (DelRows l) p' t (conj Rf G) eq_refl). cbn [pstep]. unfold edit. exact P.
  - apply (good_delrows s p (DelSetRows flags) p' t (conj Rf G) eq_refl). cbn [pstep]. unfold edit. exact P.
  - apply (good_delrows s p (DelNRows l) p' t (conj Rf G) eq_refl). cbn [pstep]. unfold edit. exact P.
  - apply (good_delcols s p (DelCols l) p' t (conj Rf G) I). cbn [pstep]. unfold edit. exact P.
  - apply (good_delcols s p (DelSetCols flags) p' t (conj Rf G) I). cbn [pstep]. unfold edit. exact P.
  - apply (good_delcols s p (DelNCols l) p' t (conj Rf G) I). cbn [pstep]. unfold edit. exact P.
  - destruct (chg_coef p i j v) as [p1|] eqn:A; inversion P; subst. pose proof A as A'. unfold chg_coef in A.
    destruct (idx (nrow p) i) as [i'|] eqn:Ei; [|discriminate]. destruct (idx (ncol p) j) as [j'|] eqn:Ej; [|discriminate].
    destruct (lib_chgcoef_safe extra_mat s (Z.to_nat i) (Z.to_nat j) v L) as (s' & S).
    + rewrite R, <- (idx_to_nat _ _ _ Ei). eapply idx_lt; eauto.
    + rewrite (refines_ncol _ _ Rf), <- (idx_to_nat _ _ _ Ej). eapply idx_lt; eauto.
    + exists s'. split; [exact S|]. split; [|eapply lib_chgcoef_log; eauto].
      apply (l2_step_refines M extra_cols extra_mat fixed s p (ChgCoef i j v) p' [] s' Rf); [cbn [pstep]; unfold edit; rewrite A'; reflexivity|exact S].
  - destruct (chg_senses p l) as [p1|] eqn:A; inversion P; subst. pose proof A as A'. unfold chg_senses in A. destruct (conv_senses (nrow p) l) as [cs|] eqn:C; [|discriminate].
    destruct (good_chgsenses l s p (conj Rf G)) as (s' & S & (Rf' & G')); [rewrite R; eapply conv_senses_lt; eauto|].
    exists s'. split; [exact S|]. split; [|exact G'].
    apply (l2_step_refines M extra_cols extra_mat fixed s p (ChgSenses l) p' [] s' Rf); [cbn [pstep]; unfold edit; rewrite A'; reflexivity|exact S].
Qed.
End StepSafe.

Theorem l2_run_safe M extra_cols extra_mat fixed l : 0 < extra_cols -> forall s p, good s p -> fixed = true \/ Forall rows_nodup l ->
  exists s', l2_run M extra_cols extra_mat fixed p s l = Ok s' /\ good s' (prun M p l).
Proof.
  intros Hec. induction l as [|o r IH]; intros s p Gd ND; simpl; [exists s; split; [reflexivity|exact Gd]|].
  assert (N1 : fixed = true \/ rows_nodup o) by (destruct ND as [ND|ND]; [left; exact ND|right; inversion ND; assumption]).
  assert (N2 : fixed = true \/ Forall rows_nodup r) by (destruct ND as [ND|ND]; [left; exact ND|right; inversion ND; assumption]).
  destruct (pstep M p o) as [p1 res] eqn:P. simpl. destruct res as [t| |].
  - destruct (l2_step_safe M extra_cols extra_mat fixed Hec s p o p1 t Gd P N1) as (s1 & S1 & G1). unfold bind. rewrite S1. apply (IH s1 p1 G1 N2).
  - assert (p1 = p) by (eapply err_leaves_state_eq; exact P). subst p1. apply (IH s p Gd N2).
  - exfalso. eapply pstep_not_skip; eauto.
Qed.

Lemma good_empty M mx : good empty_lstore (empty_prob M mx).
Proof. split; [apply refines_empty|apply LOG_empty]. Qed.

(* QSload_prob: rows first (no entries), then the columns *)
Theorem l2_load_good M extra_cols extra_mat fixed mx cols rows p : 0 < extra_cols ->
  load_prob M mx cols rows = Some p -> exists s, l2_load extra_cols extra_mat fixed cols rows = Ok s /\ good s p.
Proof.
  intros Hec H. unfold load_prob in H. unfold l2_load.
  match type of H with match ?x with _ => _ end = _ => destruct x as [p1|] eqn:A end; [|discriminate H].
  destruct (good_addrows extra_cols extra_mat fixed Hec _ empty_lstore (empty_prob M mx) p1 (good_empty M mx) A) as (s1 & S1 & G1).
  - right. apply Forall_forall. intros r Hr. apply in_map_iff in Hr. destruct Hr as (x & Ex & _). subst r. simpl. constructor.
  - unfold bind. rewrite S1. apply (good_addcols extra_cols extra_mat Hec cols s1 p1 p G1 H).
Qed.

(* With the repaired matrix_addrow (fixed = true) there is no side condition left: every history of calls runs on the
   concrete store without Fault and without Rej, and the store keeps refining the reference model. *)
Corollary l2_step_fixed_safe M extra_cols extra_mat s p o p' t : 0 < extra_cols ->
  good s p -> pstep M p o = (p', ROk t) -> exists s', l2_step extra_cols extra_mat true p s o = Ok s' /\ good s' p'.
Proof. intros Hec Gd P. apply (l2_step_safe M extra_cols extra_mat true Hec s p o p' t Gd P). left. reflexivity. Qed.

Corollary l2_run_fixed_safe M extra_cols extra_mat l : 0 < extra_cols -> forall s p, good s p ->
  exists s', l2_run M extra_cols extra_mat true p s l = Ok s' /\ good s' (prun M p l).
Proof. intros Hec s p Gd. apply (l2_run_safe M extra_cols extra_mat true l Hec s p Gd). left. reflexivity. Qed.
