(* The model of the column store never leaves its arrays: under the representation invariant WF and with the arguments
   the callers have validated, no operation returns Fault (an index outside matind / matbeg) or Rej.
   matrix_addrow comes in two variants (Store.Matrix, parameter `fixed`):
   - as found (fixed = false): safe when the column indices of the new row are distinct (the space estimate `delta` counts
     a column once per entry against its old length; with a repeated index the loop can leave the array / reach exit(1):
     finding F-C06-matrix-addrow-exit, witness mat_addrow_repeated_column_faults);
   - as repaired by notes/repo_patches/matrix_addrow_repeated_column.diff (fixed = true): safe for every row
     (append_fixed_safe, mat_addrow_fixed_safe), and equal to the loop as found wherever that one succeeds
     (append_fixed_conservative, mat_addrow_conservative). *)
From Coq Require Import ZArith List Lia Bool Arith QArith.
From QSX Require Import Store.Spec Store.SpecInv Store.Matrix Store.MatrixInv.
Import ListNotations.
Local Open Scope nat_scope.

Definition lsum (l : list nat) : nat := fold_right plus 0 l.

Lemma lsum_app l1 l2 : lsum (l1 ++ l2) = lsum l1 + lsum l2.
Proof. induction l1 as [|a l IH]; simpl; [reflexivity|]. rewrite IH. lia. Qed.

Lemma length_concat {A} (L : list (list A)) : length (concat L) = lsum (map (@length A) L).
Proof. induction L as [|a L IH]; simpl; [reflexivity|]. rewrite app_length, IH. reflexivity. Qed.

Lemma length_flat_map {A B} (f : A -> list B) l : length (flat_map f l) = lsum (map (fun a => length (f a)) l).
Proof. induction l as [|a l IH]; simpl; [reflexivity|]. rewrite app_length, IH. reflexivity. Qed.

Lemma lsum_le {A} (f g : A -> nat) l : (forall a, In a l -> f a <= g a) -> lsum (map f l) <= lsum (map g l).
Proof. induction l as [|a l IH]; intros H; simpl; [lia|]. pose proof (H a (or_introl eq_refl)). specialize (IH (fun x Hx => H x (or_intror Hx))). lia. Qed.

Lemma lsum_add {A} (f g : A -> nat) l : lsum (map (fun a => f a + g a) l) = lsum (map f l) + lsum (map g l).
Proof. induction l as [|a l IH]; simpl; [reflexivity|]. rewrite IH. lia. Qed.

Lemma NoDup_app_intro {A} (l1 l2 : list A) : NoDup l1 -> NoDup l2 -> (forall x, In x l1 -> In x l2 -> False) -> NoDup (l1 ++ l2).
Proof.
  induction 1 as [|a l Ha Hl IH]; intros N2 D; simpl; [exact N2|]. constructor.
  - intros C. apply in_app_or in C. destruct C as [C|C]; [contradiction|]. apply (D a); [left; reflexivity|exact C].
  - apply IH; [exact N2|]. intros x Hx. apply D. right. exact Hx.
Qed.

Lemma NoDup_flat_map {A B} (f : A -> list B) l :
  NoDup l -> (forall a, In a l -> NoDup (f a)) ->
  (forall a1 a2 x, In a1 l -> In a2 l -> a1 <> a2 -> In x (f a1) -> In x (f a2) -> False) -> NoDup (flat_map f l).
Proof.
  induction 1 as [|a l Ha Hl IH]; intros N D; simpl; [constructor|]. apply NoDup_app_intro.
  - apply N. left. reflexivity.
  - apply IH; [intros b Hb; apply N; right; exact Hb|]. intros a1 a2 x H1 H2. apply D; right; assumption.
  - intros x Hx Hf. apply in_flat_map in Hf. destruct Hf as (b & Hb & Hxb). apply (D a b x); [left; reflexivity|right; exact Hb| |exact Hx|exact Hxb].
    intros ->. contradiction.
Qed.

(* disjoint columns inside the used part: their widths add up to at most the used part *)
Lemma widths_le_used R m : WFr R m -> lsum (map (fun j => width (cntj m j)) (seq 0 (mcols m))) <= used m.
Proof.
  intros W. set (f := fun j => seq (begj m j) (width (cntj m j))).
  assert (E : lsum (map (fun j => width (cntj m j)) (seq 0 (mcols m))) = length (flat_map f (seq 0 (mcols m)))).
  { rewrite length_flat_map. f_equal. apply map_ext. intros j. unfold f. rewrite seq_length. reflexivity. }
  rewrite E. rewrite <- (seq_length (used m) 0). apply NoDup_incl_length.
  - apply NoDup_flat_map.
    + apply seq_NoDup.
    + intros j _. apply seq_NoDup.
    + intros j1 j2 x H1 H2 Hne X1 X2. apply in_seq in H1, H2. unfold f in X1, X2. apply in_seq in X1, X2.
      destruct (wf_disj _ _ W j1 j2 ltac:(lia) ltac:(lia) Hne); lia.
  - intros x Hx. apply in_flat_map in Hx. destruct Hx as (j & Hj & Hx). apply in_seq in Hj. unfold f in Hx. apply in_seq in Hx.
    pose proof (wf_in _ _ W j ltac:(lia)). apply in_seq. lia.
Qed.

Lemma width_add c k : width (c + k) <= width c + k.
Proof. unfold width. lia. Qed.

(* the entries of a new row are spread over the columns *)
Lemma lsum_bump (k : nat) (c : nat -> nat) : forall n s,
  lsum (map (fun j => if k =? j then S (c j) else c j) (seq s n)) <= 1 + lsum (map c (seq s n)).
Proof.
  induction n as [|n IH]; intros s; simpl; [lia|]. destruct (Nat.eqb_spec k s) as [->|Hne].
  - assert (Q : lsum (map (fun j => if s =? j then S (c j) else c j) (seq (S s) n)) = lsum (map c (seq (S s) n))).
    { f_equal. apply map_ext_in. intros j Hj. apply in_seq in Hj. destruct (Nat.eqb_spec s j); [lia|reflexivity]. }
    rewrite Q. lia.
  - specialize (IH (S s)). lia.
Qed.

Lemma spread_le (ents : list (nat * Q)) : forall s n, lsum (map (fun j => length (filter (fun e => fst e =? j) ents)) (seq s n)) <= length ents.
Proof.
  induction ents as [|e ents IH]; intros s n; simpl.
  - induction (seq s n); simpl; lia.
  - etransitivity; [|apply le_n_S; apply (IH s n)].
    etransitivity; [|apply (lsum_bump (fst e) (fun j => length (filter (fun e0 => fst e0 =? j) ents)) n s)].
    apply Nat.eq_le_incl. f_equal. apply map_ext. intros j. destruct (fst e =? j); reflexivity.
Qed.

(* the guard of matrix_addrow_end: the rebuilt array is long enough *)
Lemma repack_safe extra_mat R m r ents : WFr R m -> exists m', repack extra_mat m r ents = Ok m'.
Proof.
  intros W. unfold repack.
  set (cols := map (newcol m r ents) (seq 0 (mcols m))).
  destruct (Nat.ltb_spec (msize m + length ents + extra_mat) (length (concat (map pad cols)))) as [H|H]; [|eexists; reflexivity].
  exfalso. rewrite length_concat, map_map in H. unfold cols in H. rewrite map_map in H.
  assert (B : lsum (map (fun j => length (pad (newcol m r ents j))) (seq 0 (mcols m))) <= used m + length ents).
  { etransitivity; [apply (lsum_le _ (fun j => width (cntj m j) + length (filter (fun e => fst e =? j) ents)))|].
    - intros j Hj. apply in_seq in Hj. rewrite pad_length. unfold newcol. rewrite app_length, map_length.
      rewrite (col_slots_length _ _ _ W) by lia. apply width_add.
    - rewrite lsum_add. pose proof (widths_le_used _ _ W). pose proof (spread_le ents 0 (mcols m)). lia. }
  pose proof (wf_free _ _ W). unfold used in B. lia.
Qed.

(* ---- matrix_addcol ---------------------------------------------------------------------------------------- *)
Theorem mat_addcol_safe extra_cols extra_mat m ents :
  0 < extra_cols -> WF m -> Forall (fun e => fst e < mrows m) ents -> exists m', mat_addcol extra_cols extra_mat m ents = Ok m'.
Proof.
  intros Hec W V. unfold mat_addcol.
  assert (V' : forallb (fun e => fst e <? mrows m) ents = true).
  { apply forallb_forall. intros e He. rewrite Forall_forall in V. apply Nat.ltb_lt. apply V. exact He. }
  rewrite V'. simpl negb. cbv iota.
  set (k := length ents). set (cs := if colsize m <? mcols m + 1 then colsize m + extra_cols else colsize m).
  set (grow := mfree m <? k + 1).
  set (sl := if grow then slots m ++ repeat dslot (k + extra_mat + 1) else slots m).
  set (fr := if grow then mfree m + (k + extra_mat + 1) else mfree m).
  pose proof (wf_free _ _ W) as Hf. pose proof (wf_cap _ _ W) as Hc.
  destruct (Nat.ltb_spec cs (mcols m + 1)) as [H|_].
  { exfalso. unfold cs in H. destruct (Nat.ltb_spec (colsize m) (mcols m + 1)); lia. }
  assert (Lsl : length sl = msize m + (if grow then k + extra_mat + 1 else 0)).
  { unfold sl. destruct grow; [rewrite app_length, repeat_length; reflexivity|unfold msize; lia]. }
  destruct (Nat.ltb_spec (length sl) (length sl - fr + Nat.max k 1)) as [H|_]; [|eexists; reflexivity].
  exfalso. unfold fr, grow in *. rewrite Lsl in H. destruct (Nat.ltb_spec (mfree m) (k + 1)) as [G|G]; lia.
Qed.

(* ---- deletes ------------------------------------------------------------------------------------------------ *)
Lemma In_combine_nth (bs cs : list nat) b c : length bs = length cs -> In (b, c) (combine bs cs) -> exists j, j < length bs /\ nth j bs 0 = b /\ nth j cs 0 = c.
Proof.
  intros L H. destruct (In_nth _ _ (0, 0) H) as (j & Hj & E). rewrite combine_length in Hj. rewrite combine_nth in E by exact L.
  inversion E. exists j. repeat split; lia.
Qed.

Lemma cols_inside_true R m : WFr R m -> cols_inside m = true.
Proof.
  intros W. unfold cols_inside. apply forallb_forall. intros [b c] H. destruct (In_combine_nth _ _ _ _ (eq_sym (wf_len _ _ W)) H) as (j & Hj & <- & <-).
  apply Nat.leb_le. pose proof (col_inside _ _ _ W Hj). pose proof (width_ge (cntj m j)). unfold begj, cntj in *. simpl. lia.
Qed.

Theorem mat_delcols_safe m mk : WF m -> length mk = mcols m -> exists m', mat_delcols m mk = Ok m'.
Proof.
  intros W L. unfold mat_delcols. rewrite L, Nat.eqb_refl. simpl. rewrite (cols_inside_true _ _ W). simpl. eexists; reflexivity.
Qed.

Theorem mat_delrows_safe m rmk : WF m -> length rmk = mrows m -> exists m', mat_delrows m rmk = Ok m'.
Proof.
  intros W L. unfold mat_delrows. rewrite L, Nat.eqb_refl. simpl. rewrite (cols_inside_true _ _ W).
  assert (RI : rows_inside m = true).
  { unfold rows_inside. apply forallb_forall. intros [b c] H. destruct (In_combine_nth _ _ _ _ (eq_sym (wf_len _ _ W)) H) as (j & Hj & <- & <-).
    simpl. apply forallb_forall. intros s Hs. pose proof (col_slots_rows _ _ _ W Hj) as F. rewrite Forall_forall in F. specialize (F s Hs).
    apply andb_true_iff. split; [apply Z.leb_le; lia|apply Nat.ltb_lt; lia]. }
  rewrite RI. simpl.
  assert (EX : existsb (fun bc => msize m <=? fst bc) (combine (beg m) (cnt m)) = false).
  { destruct (existsb _ _) eqn:E; [|reflexivity]. apply existsb_exists in E. destruct E as ([b c] & H & Hb).
    destruct (In_combine_nth _ _ _ _ (eq_sym (wf_len _ _ W)) H) as (j & Hj & <- & <-). simpl in Hb. apply Nat.leb_le in Hb.
    pose proof (col_inside _ _ _ W Hj). pose proof (width_ge (cntj m j)). unfold begj in *. lia. }
  rewrite EX. destruct (compact_all rmk (slots m) (beg m) (cnt m)). eexists; reflexivity.
Qed.

Theorem mat_setval_safe m j v : WF m -> j < mcols m -> cntj m j = 1 -> exists m', mat_setval m j v = Ok m'.
Proof.
  intros W Hj C. unfold mat_setval. rewrite C. simpl. pose proof (col_inside _ _ _ W Hj). rewrite C in H. unfold width in H. simpl in H.
  destruct (Nat.leb_spec (msize m) (begj m j)); [lia|]. eexists; reflexivity.
Qed.

(* ---- matrix_addcoef ----------------------------------------------------------------------------------------- *)
Theorem mat_addcoef_safe extra_mat m i j v : WF m -> i < mrows m -> j < mcols m -> exists r, mat_addcoef extra_mat m i j v = Ok r.
Proof.
  intros W Hi Hj. unfold mat_addcoef.
  destruct (Nat.ltb_spec i (mrows m)); [|lia]. destruct (Nat.ltb_spec j (mcols m)); [|lia]. simpl.
  pose proof (col_inside _ _ _ W Hj) as Hin. pose proof (width_ge (cntj m j)) as Hw. pose proof (wf_free _ _ W) as Hf.
  destruct (Nat.ltb_spec (msize m) (begj m j + cntj m j)); [lia|].
  destruct (find_ind _ _); [eexists; reflexivity|]. unfold bind.
  destruct (Nat.eqb_spec (cntj m j) 0) as [C0|C0].
  - destruct (Nat.leb_spec (msize m) (begj m j)); [lia|]. eexists; reflexivity.
  - destruct (_ && _); [eexists; reflexivity|]. destruct (Nat.ltb_spec (cntj m j + 2) (mfree m)) as [Hfr|Hfr].
    + unfold relocate. destruct (Nat.ltb_spec (msize m) (S (used m) + S (cntj m j))) as [Hx|_]; [unfold used in Hx; lia|]. eexists; reflexivity.
    + destruct (repack_safe extra_mat _ m i [(j, v)] W) as (m' & E). rewrite E. eexists; reflexivity.
Qed.

(* ---- matrix_addrow: the in-place loop never runs out of the free tail when the columns of the row are distinct ---- *)

Definition need (m : mat) (rest : list (nat * Q)) : nat :=
  lsum (map (fun e => if blocked m (fst e) then cntj m (fst e) + 2 else 0) rest).
Definition atend (m : mat) (rest : list (nat * Q)) : bool :=
  existsb (fun e => negb (cntj m (fst e) =? 0) && (begj m (fst e) + cntj m (fst e) =? used m)) rest.
Definition budget (m : mat) (rest : list (nat * Q)) : Prop := need m rest + (if atend m rest then 1 else 0) <= mfree m.

Lemma delta_need m ents : delta m ents = need m ents.
Proof.
  unfold delta, need.
  assert (G : forall (l : list (nat * Q)) a, fold_left (fun d e => if blocked m (fst e) then d + cntj m (fst e) + 2 else d) l a =
                          a + lsum (map (fun e => if blocked m (fst e) then cntj m (fst e) + 2 else 0) l)).
  { induction l as [|e l IH]; intros a; simpl; [lia|]. rewrite IH. destruct (blocked m (fst e)); lia. }
  rewrite G. reflexivity.
Qed.

Lemma need_le m m1 rest :
  (forall e, In e rest -> cntj m1 (fst e) = cntj m (fst e) /\ (blocked m1 (fst e) = true -> blocked m (fst e) = true)) ->
  need m1 rest <= need m rest.
Proof.
  intros H. unfold need. apply lsum_le. intros e He. destruct (H e He) as [C B]. rewrite C.
  destruct (blocked m1 (fst e)); [rewrite (B eq_refl); lia|lia].
Qed.

Lemma atend_false m rest : (forall e, In e rest -> 0 < cntj m (fst e) -> begj m (fst e) + cntj m (fst e) <> used m) -> atend m rest = false.
Proof.
  intros H. unfold atend. destruct (existsb _ rest) eqn:E; [|reflexivity]. apply existsb_exists in E. destruct E as (e & He & B).
  apply andb_true_iff in B. destruct B as [B1 B2]. apply negb_true_iff in B1. apply Nat.eqb_neq in B1. apply Nat.eqb_eq in B2.
  exfalso. apply (H e He); [lia|exact B2].
Qed.

Lemma atend_le m m1 rest :
  used m1 = used m -> (forall e, In e rest -> begj m1 (fst e) = begj m (fst e) /\ cntj m1 (fst e) = cntj m (fst e)) ->
  atend m1 rest = atend m rest.
Proof.
  intros U H. unfold atend. induction rest as [|e rest IH]; [reflexivity|]. simpl. rewrite IH by (intros x Hx; apply H; right; exact Hx).
  destruct (H e (or_introl eq_refl)) as [B C]. rewrite B, C, U. reflexivity.
Qed.

Lemma put_other m sl j b c fr j' : j < mcols m -> length (cnt m) = length (beg m) -> j' <> j ->
  begj (put m sl j b c fr) j' = begj m j' /\ cntj (put m sl j b c fr) j' = cntj m j'.
Proof.
  intros Hj L Hne. rewrite begj_put, cntj_put by (try rewrite L; exact Hj). destruct (Nat.eqb_spec j' j); [contradiction|]. split; reflexivity.
Qed.

Lemma blocked_spec m j : blocked m j = true <-> 0 < cntj m j /\ (msize m <= begj m j + cntj m j \/ ind_at m (begj m j + cntj m j) <> FREE).
Proof.
  unfold blocked. rewrite andb_true_iff, orb_true_iff, !negb_true_iff, Nat.eqb_neq, Nat.ltb_lt, Z.eqb_neq. lia.
Qed.

Lemma append_step_safe R r m e rest :
  WFr R m -> r < R -> fst e < mcols m -> Forall (fun x => fst x < mcols m /\ fst x <> fst e) rest -> budget m (e :: rest) ->
  exists m1, append_step r (Ok m) e = Ok m1 /\ WFr R m1 /\ mcols m1 = mcols m /\ budget m1 rest.
Proof.
  intros W Hr Hj Hrest B. set (j := fst e) in *. set (b := begj m j). set (c := cntj m j). set (s := (Z.of_nat r, snd e)).
  assert (Hs : (0 <= fst s < Z.of_nat R)%Z) by (simpl; lia).
  pose proof (wf_len _ _ W) as Hl. pose proof (wf_free _ _ W) as Hf. pose proof (col_inside _ _ _ W Hj) as Hin. fold b c in Hin.
  pose proof (wf_in _ _ W j Hj) as Hu. fold b c in Hu. pose proof (width_ge c) as Hwc.
  rewrite Forall_forall in Hrest.
  unfold budget in B. unfold need, atend in B. cbn [map lsum fold_right existsb] in B. fold j b c in B.
  fold (lsum (map (fun e => if blocked m (fst e) then cntj m (fst e) + 2 else 0) rest)) in B. fold (need m rest) in B. fold (atend m rest) in B.
  unfold append_step, bind. fold j b c s.
  destruct (Nat.eqb_spec c 0) as [C0|C0].
  - (* empty column: its own slot *)
    destruct (Nat.leb_spec (msize m) b) as [Hx|_]; [unfold width in Hin; lia|].
    destruct (fill_empty_ok R m j s W Hj C0 Hs) as ((W1 & MC1 & _) & MS1 & MF1). fold b in W1, MC1, MS1, MF1.
    eexists. split; [reflexivity|]. split; [exact W1|]. split; [exact MC1|].
    assert (US : used (fill_empty m j b s) = used m) by (unfold used; rewrite MS1, MF1; reflexivity).
    assert (OT : forall x, In x rest -> begj (fill_empty m j b s) (fst x) = begj m (fst x) /\ cntj (fill_empty m j b s) (fst x) = cntj m (fst x)).
    { intros x Hx. apply put_other; [exact Hj|exact Hl|apply Hrest; exact Hx]. }
    unfold budget. rewrite MF1. rewrite (atend_le m _ rest US OT).
    assert (NL : need (fill_empty m j b s) rest <= need m rest).
    { apply need_le. intros x Hx. destruct (OT x Hx) as [OB OC]. split; [exact OC|]. intros Bl. apply blocked_spec in Bl. apply blocked_spec.
      rewrite OB, OC, MS1 in Bl. destruct Bl as [Bl1 [Bl2|Bl2]]; [split; [exact Bl1|left; exact Bl2]|]. split; [exact Bl1|right].
      unfold ind_at, fill_empty, put in Bl2; simpl in Bl2. rewrite nth_single_wr in Bl2 by (unfold msize in *; unfold width in Hin; lia).
      destruct (Nat.eqb_spec (begj m (fst x) + cntj m (fst x)) b) as [Eq|Ne]; [|exact Bl2].
      rewrite Eq. unfold b. rewrite (wf_dummy _ _ W j Hj C0). discriminate. }
    destruct (blocked m j); destruct (negb (c =? 0) && (b + c =? used m)); destruct (atend m rest); simpl in B; lia.
  - destruct (Nat.leb_spec (msize m) (b + c)) as [Hx|Hlt].
    { (* the column ends at the end of the array: then it is blocked and the budget is positive *)
      exfalso. assert (Bl : blocked m j = true) by (apply blocked_spec; fold b c; split; [lia|left; exact Hx]).
      rewrite Bl in B. unfold used in Hu. unfold width in Hu. lia. }
    destruct (Z.eqb_spec (ind_at m (b + c)) FREE) as [F|F].
    + (* free slot behind the column *)
      destruct (in_place_ok R m j s W Hj ltac:(fold c; lia) Hlt F Hs) as ((W1 & MC1 & _) & MS1). fold b c in W1, MC1, MS1.
      eexists. split; [reflexivity|]. split; [exact W1|]. split; [exact MC1|].
      assert (OT : forall x, In x rest -> begj (in_place m j b c s) (fst x) = begj m (fst x) /\ cntj (in_place m j b c s) (fst x) = cntj m (fst x)).
      { intros x Hx. apply put_other; [exact Hj|exact Hl|apply Hrest; exact Hx]. }
      assert (NF : blocked m j = false).
      { destruct (blocked m j) eqn:Bl; [|reflexivity]. apply blocked_spec in Bl. fold b c in Bl. destruct Bl as [_ [Bl|Bl]]; [lia|contradiction]. }
      assert (NL : need (in_place m j b c s) rest <= need m rest).
      { apply need_le. intros x Hx. destruct (OT x Hx) as [OB OC]. destruct (Hrest x Hx) as [Hxm Hxj]. split; [exact OC|]. intros Bl. apply blocked_spec in Bl. apply blocked_spec.
        rewrite OB, OC, MS1 in Bl. destruct Bl as [Bl1 [Bl2|Bl2]]; [split; [exact Bl1|left; exact Bl2]|]. split; [exact Bl1|right].
        unfold ind_at, in_place, put in Bl2; simpl in Bl2. rewrite nth_single_wr in Bl2 by (unfold msize in *; lia).
        destruct (Nat.eqb_spec (begj m (fst x) + cntj m (fst x)) (b + c)) as [Eq|Ne]; [|exact Bl2].
        exfalso. destruct (wf_disj _ _ W j (fst x) Hj Hxm ltac:(congruence)) as [D|D]; fold b c in D; unfold width in D; lia. }
      unfold budget. change (mfree (in_place m j b c s)) with (if b + c =? used m then mfree m - 1 else mfree m).
      rewrite NF in B. replace (negb (c =? 0)) with true in B by (symmetry; apply negb_true_iff; apply Nat.eqb_neq; exact C0). simpl andb in B.
      destruct (Nat.eqb_spec (b + c) (used m)) as [AE|AE].
      * simpl orb in B. cbv iota in B. rewrite atend_false; [lia|].
        intros x Hx Cx. destruct (OT x Hx) as [OB OC]. destruct (Hrest x Hx) as [Hxm Hxj]. rewrite OB, OC in *.
        assert (U1 : used (in_place m j b c s) = S (used m)).
        { unfold used. rewrite MS1. change (mfree (in_place m j b c s)) with (if b + c =? used m then mfree m - 1 else mfree m).
          rewrite AE, Nat.eqb_refl. unfold used in *. lia. }
        rewrite U1. intros Eq. apply (col_slot_nonfree _ _ _ (b + c) W Hxm); [unfold width; lia|exact F].
      * assert (U1 : used (in_place m j b c s) = used m).
        { unfold used. rewrite MS1. change (mfree (in_place m j b c s)) with (if b + c =? used m then mfree m - 1 else mfree m).
          destruct (Nat.eqb_spec (b + c) (used m)); [contradiction|reflexivity]. }
        rewrite (atend_le m _ rest U1 OT). simpl orb in B. destruct (atend m rest); lia.
    + (* the column moves behind the used part *)
      assert (Bl : blocked m j = true) by (apply blocked_spec; fold b c; split; [lia|right; exact F]).
      rewrite Bl in B.
      destruct (relocate m j b c s) as [m1| |] eqn:E1.
      * destruct (relocate_ok R m j s m1 W Hj ltac:(fold c; lia) Hs E1) as ((W1 & MC1 & _) & MS1 & MF1 & FR). fold c in MF1, FR.
        exists m1. split; [reflexivity|]. split; [exact W1|]. split; [exact MC1|].
        assert (E1' : put m (wr (S (used m)) (rd b c (slots m) ++ [s]) (free_blk b c (slots m))) j (S (used m)) (S c) (mfree m - (c + 2)) = m1).
        { unfold relocate in E1. destruct (msize m <? S (used m) + S c); [discriminate|]. injection E1 as E1. exact E1. }
        clear E1.
        assert (OT : forall x, In x rest -> begj m1 (fst x) = begj m (fst x) /\ cntj m1 (fst x) = cntj m (fst x)).
        { intros x Hx. rewrite <- E1'. apply put_other; [exact Hj|exact Hl|apply Hrest; exact Hx]. }
        assert (U1 : used m1 = used m + c + 2) by (unfold used in *; rewrite MS1, MF1; lia).
        assert (NL : need m1 rest <= need m rest).
        { apply need_le. intros x Hx. destruct (OT x Hx) as [OB OC]. destruct (Hrest x Hx) as [Hxm Hxj]. split; [exact OC|]. intros Blx. apply blocked_spec in Blx. apply blocked_spec.
          rewrite OB, OC, MS1 in Blx. destruct Blx as [Bl1 [Bl2|Bl2]]; [split; [exact Bl1|left; exact Bl2]|]. split; [exact Bl1|right].
          intros Fm. apply Bl2. pose proof (wf_in _ _ W (fst x) Hxm) as Hux. unfold width in Hux.
          set (q := begj m (fst x) + cntj m (fst x)) in *. assert (Hq : q <= used m) by lia.
          rewrite <- E1'. unfold ind_at, put; simpl.
          rewrite nth_wr by (rewrite app_length, rd_length by (unfold msize in *; lia); unfold free_blk; rewrite wr_length by (rewrite repeat_length; unfold msize in *; lia); simpl; unfold used, msize in *; lia).
          destruct (Nat.ltb_spec q (S (used m))); [|lia].
          unfold free_blk. rewrite nth_wr by (rewrite repeat_length; unfold msize in *; lia). rewrite repeat_length, repeat_nth.
          destruct (Nat.ltb_spec q b); [exact Fm|]. destruct (Nat.ltb_spec q (b + c)); [|exact Fm]. destruct (_ <? _); reflexivity. }
        unfold budget. rewrite MF1. rewrite atend_false; [lia|].
        intros x Hx Cx. destruct (OT x Hx) as [OB OC]. destruct (Hrest x Hx) as [Hxm Hxj]. rewrite OB, OC, U1.
        pose proof (wf_in _ _ W (fst x) Hxm) as Hux. unfold width in Hux. lia.
      * unfold relocate in E1. destruct (msize m <? S (used m) + S c); discriminate.
      * exfalso. unfold relocate in E1. destruct (Nat.ltb_spec (msize m) (S (used m) + S c)) as [Hx|Hx]; [|discriminate].
        unfold used in Hx. lia.
Qed.

Lemma fold_append_safe R r ents : forall m, WFr R m -> r < R -> Forall (fun e => fst e < mcols m) ents -> NoDup (map fst ents) -> budget m ents ->
  exists m', fold_left (append_step r) ents (Ok m) = Ok m'.
Proof.
  induction ents as [|e ents IH]; intros m W Hr Hc ND B; [eexists; reflexivity|].
  inversion Hc as [|? ? He Hc']; subst. inversion ND as [|? ? Hn ND']; subst.
  destruct (append_step_safe R r m e ents W Hr He) as (m1 & E1 & W1 & MC1 & B1); [|exact B|].
  - apply Forall_forall. intros x Hx. rewrite Forall_forall in Hc'. split; [apply Hc'; exact Hx|]. intros C. apply Hn. rewrite <- C. apply in_map. exact Hx.
  - change (fold_left (append_step r) (e :: ents) (Ok m)) with (fold_left (append_step r) ents (append_step r (Ok m) e)). rewrite E1.
    apply (IH m1 W1 Hr); [rewrite MC1; exact Hc'|exact ND'|exact B1].
Qed.

(* ---- the repaired loop: every branch is behind the test that makes it legal, so it needs no budget and no distinctness ---- *)
Lemma append_fixed_safe extra_mat R r ents : forall m, WFr R m -> r < R -> Forall (fun e => fst e < mcols m) ents ->
  exists m', append_fixed extra_mat r ents m = Ok m'.
Proof.
  induction ents as [|e ents IH]; intros m W Hr Hc; [eexists; reflexivity|].
  inversion Hc as [|? ? Hj Hc']; subst. cbn [append_fixed]. set (j := fst e) in *.
  assert (He : (0 <= fst (Z.of_nat r, snd e) < Z.of_nat R)%Z) by (simpl; lia).
  pose proof (col_inside _ _ _ W Hj) as Hin. fold j in Hin.
  assert (REL : cntj m j <> 0 -> cntj m j + 2 <= mfree m ->
                exists m', bind (relocate m j (begj m j) (cntj m j) (Z.of_nat r, snd e)) (append_fixed extra_mat r ents) = Ok m').
  { intros C0 Hfit. destruct (relocate m j (begj m j) (cntj m j) (Z.of_nat r, snd e)) as [m1| |] eqn:E1.
    - destruct (relocate_ok R m j _ m1 W Hj ltac:(lia) He E1) as ((W1 & MC1 & _) & _). simpl. apply IH; [exact W1|exact Hr|rewrite MC1; exact Hc'].
    - unfold relocate in E1. destruct (msize m <? S (used m) + S (cntj m j)); discriminate.
    - exfalso. unfold relocate in E1. destruct (Nat.ltb_spec (msize m) (S (used m) + S (cntj m j))) as [Hx|Hx]; [|discriminate].
      pose proof (wf_free _ _ W). unfold used in Hx. lia. }
  destruct (Nat.eqb_spec (cntj m j) 0) as [C0|C0].
  - destruct (Nat.leb_spec (msize m) (begj m j)) as [Hx|_]; [rewrite C0 in Hin; unfold width in Hin; lia|].
    destruct (fill_empty_ok R m j _ W Hj C0 He) as ((W1 & MC1 & _) & _). apply IH; [exact W1|exact Hr|rewrite MC1; exact Hc'].
  - destruct (Nat.ltb_spec (begj m j + cntj m j) (msize m)) as [Hlt|Hge]; cbn [andb].
    + destruct (Z.eqb_spec (ind_at m (begj m j + cntj m j)) FREE) as [F|F].
      * destruct (in_place_ok R m j _ W Hj ltac:(lia) Hlt F He) as ((W1 & MC1 & _) & _). apply IH; [exact W1|exact Hr|rewrite MC1; exact Hc'].
      * destruct (Nat.leb_spec (cntj m j + 2) (mfree m)); [apply REL; assumption|apply (repack_safe extra_mat R); exact W].
    + destruct (Nat.leb_spec (cntj m j + 2) (mfree m)); [apply REL; assumption|apply (repack_safe extra_mat R); exact W].
Qed.

(* the repair is conservative: wherever the loop as found succeeds, the repaired loop does exactly the same (no hypothesis
   on m: the new tests are the conditions under which the old branches stay inside the array) *)
Lemma append_fixed_conservative extra_mat r ents : forall m m',
  fold_left (append_step r) ents (Ok m) = Ok m' -> append_fixed extra_mat r ents m = Ok m'.
Proof.
  induction ents as [|e ents IH]; intros m m' H; [exact H|].
  change (fold_left (append_step r) ents (append_step r (Ok m) e) = Ok m') in H.
  destruct (append_step r (Ok m) e) as [m1| |] eqn:S1; [|rewrite fold_append_rej in H; discriminate|rewrite fold_append_fault in H; discriminate].
  cbn [append_fixed]. unfold append_step, bind in S1. set (j := fst e) in *.
  destruct (cntj m j =? 0).
  - destruct (msize m <=? begj m j); [discriminate|]. inversion S1; subst m1. apply IH. exact H.
  - destruct (Nat.leb_spec (msize m) (begj m j + cntj m j)); [discriminate|].
    destruct (Nat.ltb_spec (begj m j + cntj m j) (msize m)); [|lia]. cbn [andb].
    destruct (ind_at m (begj m j + cntj m j) =? FREE)%Z.
    + inversion S1; subst m1. apply IH. exact H.
    + destruct (Nat.leb_spec (cntj m j + 2) (mfree m)) as [_|Hx].
      * rewrite S1. simpl. apply IH. exact H.
      * exfalso. unfold relocate in S1. destruct (Nat.ltb_spec (msize m) (S (used m) + S (cntj m j))) as [|Hy]; [discriminate|]. unfold used in Hy. lia.
Qed.

Theorem mat_addrow_conservative extra_mat m ents m' :
  mat_addrow extra_mat false m ents = Ok m' -> mat_addrow extra_mat true m ents = Ok m'.
Proof.
  unfold mat_addrow. destruct (negb _); [discriminate|]. destruct (delta m ents <? mfree m); [|exact (fun H => H)].
  unfold bind. destruct (fold_left (append_step (mrows m)) ents (Ok m)) as [m1| |] eqn:E; try discriminate.
  rewrite (append_fixed_conservative extra_mat _ _ _ _ E). exact (fun H => H).
Qed.

(* fixed = true: for every row; fixed = false (the loop as found): for rows without a repeated column index *)
Theorem mat_addrow_safe extra_mat fixed m ents :
  WF m -> Forall (fun e => fst e < mcols m) ents -> fixed = true \/ NoDup (map fst ents) -> exists m', mat_addrow extra_mat fixed m ents = Ok m'.
Proof.
  intros W Hc ND. unfold mat_addrow.
  assert (V : forallb (fun e => fst e <? mcols m) ents = true).
  { apply forallb_forall. intros e He. rewrite Forall_forall in Hc. apply Nat.ltb_lt. apply Hc. exact He. }
  rewrite V. simpl negb. cbv iota. unfold bind.
  assert (W1 : WFr (S (mrows m)) m) by (apply (WFr_mono (mrows m)); [lia|exact W]).
  destruct (Nat.ltb_spec (delta m ents) (mfree m)) as [D|D].
  - destruct fixed.
    + destruct (append_fixed_safe extra_mat (S (mrows m)) (mrows m) ents m W1 ltac:(lia) Hc) as (m' & E). rewrite E. eexists; reflexivity.
    + destruct ND as [ND|ND]; [discriminate|].
      destruct (fold_append_safe (S (mrows m)) (mrows m) ents m W1 ltac:(lia) Hc ND) as (m' & E).
      * unfold budget. rewrite <- delta_need. destruct (atend m ents); lia.
      * rewrite E. eexists; reflexivity.
  - destruct (repack_safe extra_mat _ m (mrows m) ents W1) as (m' & E). rewrite E. eexists; reflexivity.
Qed.

Corollary mat_addrow_fixed_safe extra_mat m ents :
  WF m -> Forall (fun e => fst e < mcols m) ents -> exists m', mat_addrow extra_mat true m ents = Ok m'.
Proof. intros W Hc. apply mat_addrow_safe; [exact W|exact Hc|left; reflexivity]. Qed.

(* with a repeated column index the in-place loop can leave the array (known finding F-C06-matrix-addrow-exit): column 0
   (two entries) is followed by one free hole, so `delta` counts nothing for either entry of the new row (0 < matfree = 1);
   the first entry takes the hole, the second finds the column blocked and moves it: 3 + 2 slots, one is left.
   On the library the same happens once matsize 1000 is nearly used up (corpus/C06/matrix_addrow_exit.txt). *)
Example mat_addrow_repeated_column_faults :
  let m := {| slots := [(0%Z, 1%Q); (1%Z, 1%Q); dslot; (0%Z, 1%Q); dslot];
              beg := [0; 3]; cnt := [2; 1]; mfree := 1; mrows := 2; colsize := 100 |} in
  wf_check m = true /\ mat_addrow 1000 false m [(0, 1%Q); (0, 1%Q)] = Fault /\
  (exists m', mat_addrow 1000 false m [(0, 1%Q); (1, 1%Q)] = Ok m') /\
  (exists m', mat_addrow 1000 true m [(0, 1%Q); (0, 1%Q)] = Ok m' /\ wf_check m' = true /\ msize m' = 1006).
Proof. vm_compute. split; [reflexivity|]. split; [reflexivity|]. split; eexists; [reflexivity|]. split; [reflexivity|]. split; reflexivity. Qed.

(* ---- the executable invariant implies WF ------------------------------------------------------------------------ *)
Lemma disjoint_from_spec b w : forall bs cs, disjoint_from b w bs cs = true -> length bs = length cs ->
  forall t, t < length bs -> b + w <= nth t bs 0 \/ nth t bs 0 + width (nth t cs 0) <= b.
Proof.
  induction bs as [|b' bs IH]; intros [|c' cs] H L t Ht; simpl in *; try lia.
  apply andb_true_iff in H. destruct H as [H1 H2]. destruct t as [|t].
  - apply orb_true_iff in H1. destruct H1 as [H1|H1]; apply Nat.leb_le in H1; [left|right]; exact H1.
  - apply IH; [exact H2|lia|lia].
Qed.

Lemma pairwise_disjoint_spec : forall bs cs, pairwise_disjoint bs cs = true -> length bs = length cs ->
  forall t1 t2, t1 < t2 -> t2 < length bs -> nth t1 bs 0 + width (nth t1 cs 0) <= nth t2 bs 0 \/ nth t2 bs 0 + width (nth t2 cs 0) <= nth t1 bs 0.
Proof.
  induction bs as [|b bs IH]; intros [|c cs] H L t1 t2 H12 H2; simpl in *; try lia.
  apply andb_true_iff in H. destruct H as [H1 H3]. destruct t2 as [|t2]; [lia|]. destruct t1 as [|t1].
  - apply (disjoint_from_spec b (width c) bs cs H1 ltac:(lia) t2). lia.
  - apply IH; [exact H3|lia|lia|lia].
Qed.

Theorem wf_check_sound m : wf_check m = true -> WF m.
Proof.
  unfold wf_check. intros H. repeat (apply andb_true_iff in H; destruct H as [H ?]).
  apply Nat.eqb_eq in H. rename H into Hl. apply Nat.leb_le in H4. apply Nat.leb_le in H3.
  rename H2 into Ht. rename H1 into Hc. rename H0 into Hd.
  assert (COL : forall j, j < mcols m ->
     begj m j + width (cntj m j) <= used m /\
     forallb (fun s => (0 <=? fst s)%Z && (Z.to_nat (fst s) <? mrows m)) (rd (begj m j) (cntj m j) (slots m)) = true /\
     (negb (cntj m j =? 0) || (fst (nth (begj m j) (slots m) dslot) =? DUMMY)%Z = true)).
  { intros j Hj. rewrite forallb_forall in Hc. specialize (Hc (begj m j, cntj m j)). simpl in Hc.
    assert (I : In (begj m j, cntj m j) (combine (beg m) (cnt m))).
    { unfold begj, cntj. rewrite <- combine_nth by (symmetry; exact Hl). apply nth_In. rewrite combine_length. unfold mcols in Hj. lia. }
    specialize (Hc I). apply andb_true_iff in Hc. destruct Hc as [Hc C3]. apply andb_true_iff in Hc. destruct Hc as [C1 C2].
    apply Nat.leb_le in C1. repeat split; assumption. }
  constructor.
  - exact Hl.
  - exact H4.
  - exact H3.
  - intros k Hk. unfold ind_at. replace k with (used m + (k - used m)) by lia. rewrite <- nth_skipn.
    rewrite forallb_forall in Ht. apply Z.eqb_eq. apply Ht. apply nth_In. rewrite skipn_length. unfold msize in *. lia.
  - intros j Hj. apply (COL j Hj).
  - intros j k Hj Hk. destruct (COL j Hj) as (C1 & C2 & _). pose proof (width_ge (cntj m j)). rewrite forallb_forall in C2.
    assert (Hb : begj m j + cntj m j <= length (slots m)) by (unfold used, msize in *; lia).
    specialize (C2 (nth (k - begj m j) (rd (begj m j) (cntj m j) (slots m)) dslot)).
    rewrite nth_rd in C2 by lia. replace (begj m j + (k - begj m j)) with k in C2 by lia.
    assert (I : In (nth k (slots m) dslot) (rd (begj m j) (cntj m j) (slots m))).
    { replace k with (begj m j + (k - begj m j)) by lia. rewrite <- (nth_rd dslot _ (cntj m j)) by lia. apply nth_In. rewrite rd_length by exact Hb. lia. }
    specialize (C2 I). apply andb_true_iff in C2. destruct C2 as [A1 A2]. apply Z.leb_le in A1. apply Nat.ltb_lt in A2. unfold ind_at. lia.
  - intros j Hj C0. destruct (COL j Hj) as (_ & _ & C3). rewrite C0 in C3. simpl in C3. apply Z.eqb_eq in C3. exact C3.
  - intros j1 j2 H1 H2 Hne. destruct (Nat.lt_ge_cases j1 j2) as [Lt|Ge].
    + apply (pairwise_disjoint_spec _ _ Hd (eq_sym Hl) j1 j2 Lt H2).
    + destruct (pairwise_disjoint_spec _ _ Hd (eq_sym Hl) j2 j1 ltac:(lia) H1); [right|left]; assumption.
Qed.
