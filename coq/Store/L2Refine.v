(* Refinement of the reference model (Store.Spec) by the concrete store (Store.Matrix, Store.L2):
   the entry lists of the structural columns read off the arrays (through structmap) are the entry lists of the
   reference model, after every call the reference model accepts, for every history. *)
From Coq Require Import String Ascii ZArith List Lia Bool Arith QArith Sorted.
From QSX Require Import Store.Spec Store.SpecInv Store.SpecValid Store.Api Store.DelRowsCert Store.ApiInv Store.Matrix Store.MatrixInv Store.L2.
Import ListNotations.
Local Open Scope nat_scope.

(* ---- marks, newidx, orig ------------------------------------------------------------------------------- *)

Lemma marks_length n ds : length (marks n ds) = n.
Proof. unfold marks. rewrite map_length, seq_length. reflexivity. Qed.

Lemma memn_In i l : memn i l = true <-> In i l.
Proof.
  induction l as [|k r IH]; simpl; [split; [discriminate|tauto]|].
  rewrite orb_true_iff, IH, Nat.eqb_eq. tauto.
Qed.

Lemma nth_marks n ds j d : j < n -> nth j (marks n ds) d = memn j ds.
Proof.
  intros H. unfold marks. rewrite (nth_indep _ d (memn 0 ds)) by (rewrite map_length, seq_length; exact H).
  rewrite (map_nth (fun j => memn j ds)). rewrite seq_nth by exact H. reflexivity.
Qed.

Lemma nth_marks_true n ds j : nth j (marks n ds) false = true <-> j < n /\ In j ds.
Proof.
  destruct (Nat.lt_ge_cases j n) as [H|H].
  - rewrite nth_marks by exact H. rewrite memn_In. tauto.
  - rewrite nth_overflow by (rewrite marks_length; exact H). split; [discriminate|lia].
Qed.

Lemma firstn_S_nth {A} (d : A) : forall (l : list A) j, j < length l -> firstn (S j) l = firstn j l ++ [nth j l d].
Proof.
  induction l as [|a l IH]; intros j H; simpl in H; [lia|]. destruct j as [|j]; [reflexivity|].
  change (firstn (S (S j)) (a :: l)) with (a :: firstn (S j) l). rewrite (IH j) by lia. reflexivity.
Qed.

Lemma newidx_S mk j : j < length mk -> newidx mk (S j) = newidx mk j + (if nth j mk false then 0 else 1).
Proof.
  intros H. unfold newidx. rewrite (firstn_S_nth false) by exact H. rewrite filter_app, app_length. simpl.
  destruct (nth j mk false); reflexivity.
Qed.

Lemma newidx_mono mk j1 j2 : j1 <= j2 -> newidx mk j1 <= newidx mk j2.
Proof.
  intros H. replace j2 with (j1 + (j2 - j1)) by lia. generalize (j2 - j1). intros d. unfold newidx.
  rewrite firstn_add, filter_app, app_length. lia.
Qed.

Lemma newidx_strict mk j1 j2 : j1 < j2 -> j1 < length mk -> nth j1 mk false = false -> newidx mk j1 < newidx mk j2.
Proof.
  intros H L N. pose proof (newidx_S mk j1 L) as S1. rewrite N in S1. pose proof (newidx_mono mk (S j1) j2 ltac:(lia)). lia.
Qed.

Lemma orig_newidx mk : forall j, j < length mk -> nth j mk false = false -> orig mk (newidx mk j) = j.
Proof.
  induction mk as [|x mk IH]; intros j H N; simpl in H; [lia|]. destruct j as [|j].
  - simpl in N. subst x. reflexivity.
  - simpl in N. unfold newidx in *. change (firstn (S j) (x :: mk)) with (x :: firstn j mk). destruct x; simpl.
    + f_equal. apply IH; [lia|exact N].
    + f_equal. apply IH; [lia|exact N].
Qed.

Lemma newidx_all mk j : length mk <= j -> newidx mk j = length (filter negb mk).
Proof. intros H. unfold newidx. rewrite firstn_all2 by exact H. reflexivity. Qed.

(* keepb as a filter on positions *)
Lemma keepb_marks_nth {A} (d : A) (ds : list nat) (l : list A) :
  keepb (marks (length l) ds) l = map (fun j => nth j l d) (filter (fun j => negb (memn j ds)) (seq 0 (length l))).
Proof.
  unfold marks.
  assert (G : forall l i0, keepb (map (fun j => memn j ds) (seq i0 (length l))) l =
                           map (fun j => nth (j - i0) l d) (filter (fun j => negb (memn j ds)) (seq i0 (length l)))).
  { clear l. induction l as [|a l IH]; intros i0; [reflexivity|]. simpl. destruct (memn i0 ds); simpl.
    - rewrite IH. apply map_ext_in. intros j Hj. apply filter_In in Hj. destruct Hj as [Hj _]. apply in_seq in Hj.
      replace (j - i0) with (S (j - S i0)) by lia. reflexivity.
    - rewrite Nat.sub_diag. f_equal. rewrite IH. apply map_ext_in. intros j Hj. apply filter_In in Hj. destruct Hj as [Hj _]. apply in_seq in Hj.
      replace (j - i0) with (S (j - S i0)) by lia. reflexivity. }
  rewrite (G l 0). apply map_ext. intros j. rewrite Nat.sub_0_r. reflexivity.
Qed.

(* ---- restrict (Spec: remove_nth from the highest index down) = keep the unmarked positions ----------------- *)

Fixpoint keep_from {A} (ds : list nat) (i0 : nat) (l : list A) : list A :=
  match l with
  | [] => []
  | a :: r => if memn i0 ds then keep_from ds (S i0) r else a :: keep_from ds (S i0) r
  end.

Lemma keepb_keep_from {A} ds (l : list A) : keepb (marks (length l) ds) l = keep_from ds 0 l.
Proof.
  unfold marks. generalize 0. induction l as [|a l IH]; intros i0; [reflexivity|]. simpl. rewrite IH. destruct (memn i0 ds); reflexivity.
Qed.

Lemma keep_from_below {A} ds : forall i0 (l : list A), (forall d, In d ds -> d < i0) -> keep_from ds i0 l = l.
Proof.
  intros i0 l. revert i0. induction l as [|a l IH]; intros i0 H; [reflexivity|]. simpl.
  destruct (memn i0 ds) eqn:E; [apply memn_In in E; specialize (H _ E); lia|]. rewrite IH; [reflexivity|]. intros d Hd. specialize (H d Hd). lia.
Qed.

Lemma keep_from_ext {A} ds ds' : (forall x, In x ds <-> In x ds') -> forall i0 (l : list A), keep_from ds i0 l = keep_from ds' i0 l.
Proof.
  intros H i0 l. revert i0. induction l as [|a l IH]; intros i0; [reflexivity|]. simpl. rewrite IH.
  assert (E : memn i0 ds = memn i0 ds').
  { destruct (memn i0 ds) eqn:E1; destruct (memn i0 ds') eqn:E2; try reflexivity.
    - apply memn_In in E1. apply H in E1. apply memn_In in E1. congruence.
    - apply memn_In in E2. apply H in E2. apply memn_In in E2. congruence. }
  rewrite E. reflexivity.
Qed.

Lemma keep_from_remove {A} ds : forall (l : list A) i i0, (forall d, In d ds -> d < i0 + i) ->
  keep_from ds i0 (remove_nth i l) = keep_from ((i0 + i) :: ds) i0 l.
Proof.
  induction l as [|a r IH]; intros i i0 H; [destruct i; reflexivity|]. destruct i as [|i].
  - simpl remove_nth. cbn [keep_from memn]. rewrite Nat.add_0_r, Nat.eqb_refl. simpl orb. cbv iota.
    rewrite Nat.add_0_r in H. rewrite keep_from_below by exact H. rewrite keep_from_below; [reflexivity|].
    intros d [<-|Hd]; [lia|]. specialize (H d Hd). lia.
  - simpl remove_nth. cbn [keep_from memn]. destruct (Nat.eqb_spec (i0 + S i) i0); [lia|]. simpl orb.
    replace (i0 + S i) with (S i0 + i) by lia. rewrite (IH i (S i0)) by (intros d Hd; specialize (H d Hd); lia). reflexivity.
Qed.

Lemma fold_remove_sorted {A} d : forall (l : list A), StronglySorted (fun a b => b < a) d ->
  fold_left (fun l i => remove_nth i l) d l = keep_from d 0 l.
Proof.
  induction d as [|i d IH]; intros l S; simpl.
  - symmetry. apply keep_from_below. intros x [].
  - inversion S as [|? ? S' Hlt]; subst. rewrite IH by exact S'. rewrite (keep_from_remove d l i 0); [reflexivity|].
    rewrite Forall_forall in Hlt. intros x Hx. specialize (Hlt x Hx). lia.
Qed.

Theorem restrict_keepb {A} (l : list A) ds : NoDup ds -> restrict l ds = keepb (marks (length l) ds) l.
Proof.
  intros ND. unfold restrict. rewrite fold_remove_sorted by (apply sort_desc_sorted; exact ND).
  rewrite keepb_keep_from. apply keep_from_ext. intros x. apply sort_desc_In.
Qed.

(* ---- deleting a set of rows from an entry list -------------------------------------------------------- *)

Definition cntlt (ds : list nat) (f : nat) : nat := length (filter (fun x => x <? f) ds).
Definition del_rows_ent (ds : list nat) (e : list (nat * Q)) : list (nat * Q) :=
  map (fun kv => (fst kv - cntlt ds (fst kv), snd kv)) (filter (fun kv => negb (memn (fst kv) ds)) e).

Lemma fold_del_ent_sorted d : forall e, StronglySorted (fun a b => b < a) d ->
  fold_left (fun e i => del_ent i e) d e = del_rows_ent d e.
Proof.
  induction d as [|i d IH]; intros e S.
  - simpl. unfold del_rows_ent, cntlt. simpl. induction e as [|[f v] e IHe]; [reflexivity|]. simpl. rewrite Nat.sub_0_r. f_equal. exact IHe.
  - inversion S as [|? ? S' Hlt]; subst. simpl fold_left. rewrite IH by exact S'. rewrite Forall_forall in Hlt.
    unfold del_rows_ent, del_ent. induction e as [|[f v] e IHe]; [reflexivity|]. cbn [filter map fst snd memn].
    destruct (Nat.eqb_spec f i) as [->|Hfi].
    + rewrite Nat.eqb_refl. simpl. exact IHe.
    + destruct (Nat.eqb_spec i f); [congruence|]. simpl orb. simpl negb. cbn [filter map fst snd].
      destruct (Nat.ltb_spec i f) as [Hif|Hif].
      * (* f > i: shifted to f - 1, above every remaining deleted index *)
        assert (M1 : memn (Nat.pred f) d = false).
        { destruct (memn (Nat.pred f) d) eqn:E; [|reflexivity]. apply memn_In in E. specialize (Hlt _ E). lia. }
        assert (M2 : memn f d = false).
        { destruct (memn f d) eqn:E; [|reflexivity]. apply memn_In in E. specialize (Hlt _ E). lia. }
        rewrite M1, M2. cbn [negb map fst snd]. rewrite IHe. f_equal. f_equal.
        unfold cntlt. cbn [filter]. destruct (Nat.ltb_spec i f); [|lia]. cbn [length].
        assert (C : forall g, i <= g -> length (filter (fun x => x <? g) d) = length d).
        { intros g Hg. f_equal. clear -Hlt Hg. induction d as [|x d IHd]; [reflexivity|]. simpl.
          assert (x < i) by (apply Hlt; left; reflexivity). destruct (Nat.ltb_spec x g); [|lia]. f_equal. apply IHd. intros y Hy. apply Hlt. right. exact Hy. }
        rewrite (C f) by lia. rewrite (C (Nat.pred f)) by lia. lia.
      * (* f < i: unchanged by the first deletion *)
        destruct (memn f d) eqn:M; cbn [negb]; [exact IHe|]. cbn [map fst snd]. rewrite IHe. f_equal. f_equal.
        unfold cntlt. cbn [filter]. destruct (Nat.ltb_spec i f); [lia|]. reflexivity.
Qed.

Lemma cntlt_insert x l f : cntlt (insert_desc x l) f = cntlt (x :: l) f.
Proof.
  unfold cntlt. induction l as [|a l IH]; [reflexivity|]. simpl. destruct (Nat.leb a x); [reflexivity|]. simpl.
  simpl in IH. destruct (a <? f); destruct (x <? f); simpl in *; rewrite IH; reflexivity.
Qed.

Lemma cntlt_sort l f : cntlt (sort_desc l) f = cntlt l f.
Proof.
  induction l as [|a l IH]; [reflexivity|]. simpl. rewrite cntlt_insert. unfold cntlt in *. simpl. destruct (a <? f); simpl; rewrite IH; reflexivity.
Qed.

Lemma memn_sort i l : memn i (sort_desc l) = memn i l.
Proof.
  destruct (memn i (sort_desc l)) eqn:E1; destruct (memn i l) eqn:E2; try reflexivity.
  - apply (proj1 (memn_In _ _)) in E1. apply (proj1 (sort_desc_In _ _)) in E1. apply (proj2 (memn_In _ _)) in E1. congruence.
  - apply (proj1 (memn_In _ _)) in E2. apply (proj2 (sort_desc_In _ _)) in E2. apply (proj2 (memn_In _ _)) in E2. congruence.
Qed.

Theorem fold_del_ent ds e : NoDup ds -> fold_left (fun e i => del_ent i e) (sort_desc ds) e = del_rows_ent ds e.
Proof.
  intros ND. rewrite fold_del_ent_sorted by (apply sort_desc_sorted; exact ND). unfold del_rows_ent.
  induction e as [|[f v] e IH]; [reflexivity|]. cbn [filter map fst snd]. rewrite memn_sort. destruct (memn f ds); cbn [negb]; [exact IH|].
  cbn [map fst snd]. rewrite cntlt_sort, IH. reflexivity.
Qed.

(* ---- the store with structmap / rowmap ---------------------------------------------------------------- *)

(* what the reference model stores: the entry lists of the structural columns, in structural order *)
Definition ents_of (s : lstore) : list (list (nat * Q)) := map (col_ents (lA s)) (smap s).

Record LWF (s : lstore) : Prop := {
  lwf_A : WF (lA s);
  lwf_snd : NoDup (smap s);
  lwf_rnd : NoDup (rmap s);
  lwf_disj : forall x, In x (smap s) -> In x (rmap s) -> False;
  lwf_srange : Forall (fun j => j < mcols (lA s)) (smap s);
  lwf_rrange : Forall (fun j => j < mcols (lA s)) (rmap s);
  lwf_rows : length (rmap s) = mrows (lA s) }.

Lemma LWF_empty : LWF empty_lstore.
Proof. constructor; simpl; try constructor; try apply WF_empty; try reflexivity. intros x []. Qed.

Lemma slot_ent_ent_slot e : slot_ent (ent_slot e) = e.
Proof. destruct e as [i v]. unfold slot_ent, ent_slot. simpl. rewrite Nat2Z.id. reflexivity. Qed.

Lemma nth_ents_of s k : k < length (smap s) -> nth k (ents_of s) [] = col_ents (lA s) (nth k (smap s) 0).
Proof.
  intros H. unfold ents_of. rewrite (nth_indep _ [] (col_ents (lA s) 0)) by (rewrite map_length; exact H). apply map_nth.
Qed.

Fixpoint app_row_ent (cols : list (list (nat * Q))) (j0 i : nat) (ent : list (nat * Q)) : list (list (nat * Q)) :=
  match cols with
  | [] => []
  | c :: r => (c ++ map (fun e => (i, snd e)) (filter (fun e => fst e =? j0) ent)) :: app_row_ent r (S j0) i ent
  end.

Lemma app_row_sc_ent cols : forall j0 i e, map sc_ent (app_row cols j0 i e) = app_row_ent (map sc_ent cols) j0 i e.
Proof. induction cols as [|c r IH]; intros j0 i e; simpl; [reflexivity|]. rewrite IH. reflexivity. Qed.

Lemma app_row_ent_length cols : forall j0 i e, length (app_row_ent cols j0 i e) = length cols.
Proof. induction cols as [|c r IH]; intros; simpl; [reflexivity|]. rewrite IH. reflexivity. Qed.

Lemma nth_app_row_ent cols : forall j0 i e k, k < length cols ->
  nth k (app_row_ent cols j0 i e) [] = nth k cols [] ++ map (fun x => (i, snd x)) (filter (fun x => fst x =? j0 + k) e).
Proof.
  induction cols as [|c r IH]; intros j0 i e k H; simpl in H; [lia|]. destruct k as [|k]; simpl.
  - rewrite Nat.add_0_r. reflexivity.
  - rewrite IH by lia. replace (S j0 + k) with (j0 + S k) by lia. reflexivity.
Qed.

Lemma col_ents_eq m m' j j' : col_slots m' j' = col_slots m j -> col_ents m' j' = col_ents m j.
Proof. intros H. unfold col_ents. rewrite H. reflexivity. Qed.

Lemma NoDup_app_intro_last {A} (l : list A) x : NoDup l -> ~ In x l -> NoDup (l ++ [x]).
Proof.
  induction 1 as [|a l Ha Hl IH]; intros N; simpl; [constructor; [intros []|constructor]|].
  constructor.
  - intros C. apply in_app_or in C. destruct C as [C|[C|[]]]; [contradiction|]. subst. apply N. left. reflexivity.
  - apply IH. intros C. apply N. right. exact C.
Qed.

Section Lib.
Variables extra_cols extra_mat : nat.
Variable fixed : bool.

Theorem lib_addcol_ok s ents s' :
  LWF s -> lib_addcol extra_cols extra_mat s ents = Ok s' ->
  LWF s' /\ ents_of s' = ents_of s ++ [ents] /\ rmap s' = rmap s /\ mrows (lA s') = mrows (lA s).
Proof.
  intros L. unfold lib_addcol, bind. destruct (mat_addcol extra_cols extra_mat (lA s) ents) as [A1| |] eqn:E; try discriminate.
  intros H; inversion H; subst s'; clear H.
  destruct (mat_addcol_ok extra_cols extra_mat (lA s) ents A1 (lwf_A _ L) E) as (W1 & MC & MR & CO & CN).
  pose proof (lwf_srange _ L) as SR. pose proof (lwf_rrange _ L) as RR. rewrite Forall_forall in SR, RR.
  split; [|split; [|split; [reflexivity|exact MR]]].
  - constructor; simpl.
    + exact W1.
    + apply NoDup_app_intro_last; [exact (lwf_snd _ L)|]. intros C. specialize (SR _ C). lia.
    + exact (lwf_rnd _ L).
    + intros x Hx Hr. apply in_app_or in Hx. destruct Hx as [Hx|[<-|[]]]; [exact (lwf_disj _ L x Hx Hr)|]. specialize (RR _ Hr). lia.
    + apply Forall_forall. intros x Hx. rewrite MC. apply in_app_or in Hx. destruct Hx as [Hx|[<-|[]]]; [specialize (SR _ Hx)|]; lia.
    + apply Forall_forall. intros x Hx. rewrite MC. specialize (RR _ Hx). lia.
    + rewrite MR. exact (lwf_rows _ L).
  - unfold ents_of; simpl. rewrite map_app. simpl. f_equal.
    + apply map_ext_in. intros j Hj. apply col_ents_eq. apply CO. apply SR. exact Hj.
    + f_equal. unfold col_ents. rewrite CN. rewrite map_map. rewrite <- (map_id ents) at 2. apply map_ext. apply slot_ent_ent_slot.
Qed.

Lemma NoDup_nth_inj (l : list nat) i j : NoDup l -> i < length l -> j < length l -> nth i l 0 = nth j l 0 -> i = j.
Proof. intros ND Hi Hj E. apply (proj1 (NoDup_nth l 0) ND i j Hi Hj E). Qed.

Theorem lib_addrow_ok s ents coef s' :
  LWF s -> lib_addrow extra_cols extra_mat fixed s ents coef = Ok s' ->
  LWF s' /\ ents_of s' = app_row_ent (ents_of s) 0 (mrows (lA s)) ents /\ smap s' = smap s /\
  length (rmap s') = S (length (rmap s)) /\ mrows (lA s') = S (mrows (lA s)).
Proof.
  intros L. unfold lib_addrow, bind.
  destruct (forallb (fun e => fst e <? length (smap s)) ents) eqn:V; [|discriminate]. simpl negb. cbv iota.
  set (ents' := map (fun e => (nth (fst e) (smap s) 0, snd e)) ents).
  destruct (mat_addrow extra_mat fixed (lA s) ents') as [A1| |] eqn:E1; try discriminate.
  destruct (mat_addcol extra_cols extra_mat A1 [(mrows (lA s), coef)]) as [A2| |] eqn:E2; try discriminate.
  intros H; inversion H; subst s'; clear H.
  destruct (mat_addrow_ok extra_mat fixed (lA s) ents' A1 (lwf_A _ L) E1) as (W1 & MC1 & MR1 & _ & CS1).
  destruct (mat_addcol_ok extra_cols extra_mat A1 _ A2 W1 E2) as (W2 & MC2 & MR2 & CO2 & _).
  pose proof (lwf_srange _ L) as SR. pose proof (lwf_rrange _ L) as RR. rewrite Forall_forall in SR, RR.
  assert (Vf : forall e, In e ents -> fst e < length (smap s)).
  { intros e He. rewrite forallb_forall in V. apply Nat.ltb_lt. apply V. exact He. }
  split; [|split; [|split; [reflexivity|split; [simpl; rewrite app_length; simpl; lia|simpl; congruence]]]].
  - constructor; simpl.
    + exact W2.
    + exact (lwf_snd _ L).
    + apply NoDup_app_intro_last; [exact (lwf_rnd _ L)|]. intros C. specialize (RR _ C). lia.
    + intros x Hx Hr. apply in_app_or in Hr. destruct Hr as [Hr|[<-|[]]]; [exact (lwf_disj _ L x Hx Hr)|]. specialize (SR _ Hx). lia.
    + apply Forall_forall. intros x Hx. rewrite MC2, MC1. specialize (SR _ Hx). lia.
    + apply Forall_forall. intros x Hx. rewrite MC2, MC1. apply in_app_or in Hx. destruct Hx as [Hx|[<-|[]]]; [specialize (RR _ Hx)|]; lia.
    + rewrite app_length. simpl. rewrite (lwf_rows _ L). lia.
  - apply (nth_ext _ _ [] []).
    + rewrite app_row_ent_length. unfold ents_of. rewrite !map_length. reflexivity.
    + intros k Hk. unfold ents_of in Hk. rewrite map_length in Hk. simpl in Hk.
      rewrite nth_app_row_ent by (unfold ents_of; rewrite map_length; exact Hk). rewrite !nth_ents_of by exact Hk. simpl smap. simpl lA.
      set (j := nth k (smap s) 0). assert (Hj : j < mcols (lA s)) by (apply SR; apply nth_In; exact Hk).
      unfold col_ents at 1. rewrite CO2 by (rewrite MC1; exact Hj). rewrite CS1 by exact Hj. unfold newcol. rewrite map_app. f_equal.
      unfold ents'. clear -Hk Vf L. simpl. induction ents as [|e ents IH]; [reflexivity|]. cbn [map filter fst snd].
      assert (He : fst e < length (smap s)) by (apply Vf; left; reflexivity).
      assert (Q : (nth (fst e) (smap s) 0 =? j) = (fst e =? k)).
      { destruct (Nat.eqb_spec (fst e) k) as [->|Hne]; [apply Nat.eqb_refl|]. apply Nat.eqb_neq. intros C. apply Hne.
        apply (NoDup_nth_inj (smap s)); [exact (lwf_snd _ L)|exact He|exact Hk|exact C]. }
      rewrite Q. destruct (fst e =? k); cbn [map]; rewrite IH by (intros x Hx; apply Vf; right; exact Hx); [|reflexivity].
      unfold slot_ent. simpl. rewrite Nat2Z.id. reflexivity.
Qed.

Lemma LWF_same_shape s A1 :
  LWF s -> WF A1 -> mcols A1 = mcols (lA s) -> mrows A1 = mrows (lA s) ->
  LWF {| lA := A1; smap := smap s; rmap := rmap s; nzc := nzc s |}.
Proof.
  intros L W1 MC MR. constructor; simpl; try apply L; try exact W1.
  - rewrite MC. apply (lwf_srange _ L).
  - rewrite MC. apply (lwf_rrange _ L).
  - rewrite MR. apply (lwf_rows _ L).
Qed.

Theorem lib_chgcoef_ok s i j v s' :
  LWF s -> lib_chgcoef extra_mat s i j v = Ok s' ->
  LWF s' /\ ents_of s' = upd_nth j (set_first i v) (ents_of s) /\ smap s' = smap s /\ rmap s' = rmap s /\ mrows (lA s') = mrows (lA s).
Proof.
  intros L. unfold lib_chgcoef, bind.
  destruct (Nat.ltb_spec i (length (rmap s))) as [Hi|]; [|discriminate]. destruct (Nat.ltb_spec j (length (smap s))) as [Hj|]; [|discriminate].
  simpl negb. simpl orb. cbv iota.
  destruct (mat_addcoef extra_mat (lA s) i (nth j (smap s) 0) v) as [[A1 nw]| |] eqn:E; try discriminate.
  intros H; inversion H; subst s'; clear H. simpl fst. simpl snd.
  destruct (mat_addcoef_ok extra_mat (lA s) i _ v A1 nw (lwf_A _ L) E) as (W1 & MC & MR & _ & CJ & CO & _).
  pose proof (lwf_srange _ L) as SR. rewrite Forall_forall in SR.
  split; [|split; [|split; [reflexivity|split; [reflexivity|exact MR]]]].
  - constructor; simpl; try apply L; try exact W1.
    + rewrite MC. apply (lwf_srange _ L).
    + rewrite MC. apply (lwf_rrange _ L).
    + rewrite MR. apply (lwf_rows _ L).
  - apply (nth_ext _ _ [] []).
    + rewrite upd_nth_length. unfold ents_of. rewrite !map_length. reflexivity.
    + intros k Hk. unfold ents_of in Hk. rewrite map_length in Hk. simpl in Hk.
      rewrite nth_upd_nth. rewrite (nth_ents_of {| lA := A1; smap := smap s; rmap := rmap s; nzc := if nw then S (nzc s) else nzc s |}) by (simpl; exact Hk).
      simpl smap. simpl lA. unfold ents_of at 1. rewrite map_length. replace (j <? length (smap s)) with true by (symmetry; apply Nat.ltb_lt; exact Hj). rewrite andb_true_r.
      destruct (Nat.eqb_spec k j) as [->|Hne].
      * rewrite nth_ents_of by exact Hj. exact CJ.
      * rewrite nth_ents_of by exact Hk. apply col_ents_eq. apply CO; [apply SR; apply nth_In; exact Hk|].
        intros C. apply Hne. apply (NoDup_nth_inj (smap s)); [exact (lwf_snd _ L)|exact Hk|exact Hj|exact C].
Qed.

Theorem lib_chgsense_ok s i coef s' :
  LWF s -> lib_chgsense s i coef = Ok s' ->
  LWF s' /\ ents_of s' = ents_of s /\ smap s' = smap s /\ rmap s' = rmap s /\ mrows (lA s') = mrows (lA s).
Proof.
  intros L. unfold lib_chgsense, bind. destruct (Nat.ltb_spec i (length (rmap s))) as [Hi|]; [|discriminate]. simpl negb. cbv iota.
  destruct (mat_setval (lA s) (nth i (rmap s) 0) coef) as [A1| |] eqn:E; try discriminate.
  intros H; inversion H; subst s'; clear H.
  pose proof (lwf_srange _ L) as SR. pose proof (lwf_rrange _ L) as RR. rewrite Forall_forall in SR, RR.
  assert (Hr : nth i (rmap s) 0 < mcols (lA s)) by (apply RR; apply nth_In; exact Hi).
  destruct (mat_setval_ok (lA s) _ coef A1 (lwf_A _ L) Hr E) as (W1 & MC & MR & _ & CO & _).
  split; [|split; [|split; [reflexivity|split; [reflexivity|exact MR]]]].
  - apply LWF_same_shape; assumption.
  - unfold ents_of; simpl. apply map_ext_in. intros x Hx. apply col_ents_eq. apply CO; [apply SR; exact Hx|].
    intros C. subst x. apply (lwf_disj _ L _ Hx). apply nth_In. exact Hi.
Qed.
End Lib.

(* ---- deletes ------------------------------------------------------------------------------------------- *)

Lemma NoDup_map_inj_in {A B} (f : A -> B) (l : list A) :
  NoDup l -> (forall x y, In x l -> In y l -> f x = f y -> x = y) -> NoDup (map f l).
Proof.
  induction 1 as [|a l Ha Hl IH]; intros Inj; simpl; constructor.
  - intros C. apply in_map_iff in C. destruct C as (y & E & Hy). assert (y = a) by (apply Inj; [right; exact Hy|left; reflexivity|exact E]). subst. contradiction.
  - apply IH. intros x y Hx Hy. apply Inj; right; assumption.
Qed.

Lemma filter_keepb {A} (f : A -> bool) (l : list A) : filter f l = keepb (map (fun x => negb (f x)) l) l.
Proof. induction l as [|a l IH]; [reflexivity|]. simpl. destruct (f a); simpl; rewrite IH; reflexivity. Qed.

Lemma memn_map_nth (l : list nat) k ds : NoDup l -> k < length l -> (forall d, In d ds -> d < length l) ->
  memn (nth k l 0) (map (fun j => nth j l 0) ds) = memn k ds.
Proof.
  intros ND Hk Hd. induction ds as [|d ds IH]; [reflexivity|]. simpl. rewrite IH by (intros x Hx; apply Hd; right; exact Hx).
  f_equal. destruct (Nat.eqb_spec d k) as [->|Hne]; [apply Nat.eqb_refl|]. apply Nat.eqb_neq. intros C. apply Hne.
  apply (NoDup_nth_inj l); [exact ND|apply Hd; left; reflexivity|exact Hk|exact C].
Qed.

Lemma newidx_inj mk x y : x < length mk -> y < length mk -> nth x mk false = false -> nth y mk false = false -> newidx mk x = newidx mk y -> x = y.
Proof.
  intros Hx Hy Nx Ny E. destruct (Nat.lt_trichotomy x y) as [H|[H|H]]; [|exact H|].
  - pose proof (newidx_strict mk x y H Hx Nx). lia.
  - pose proof (newidx_strict mk y x H Hy Ny). lia.
Qed.

Lemma keepb_In {A} (mk : list bool) : forall (l : list A) x, In x (keepb mk l) -> In x l.
Proof.
  induction mk as [|d mk IH]; intros [|a l] x H; try destruct d; simpl in *; try contradiction.
  - right. apply IH. exact H.
  - destruct H as [H|H]; [left; exact H|right; apply IH; exact H].
Qed.

Lemma keepb_NoDup {A} (mk : list bool) : forall (l : list A), NoDup l -> NoDup (keepb mk l).
Proof.
  induction mk as [|d mk IH]; intros l H; [destruct l; constructor|]. destruct l as [|a l]; [destruct d; constructor|].
  inversion H; subst. destruct d; simpl; [apply IH; assumption|].
  constructor; [|apply IH; assumption]. intros C. apply keepb_In in C. contradiction.
Qed.

(* x is kept by keepb (marks ..) exactly when its position is not listed *)
Lemma keepb_marks_In (l : list nat) ds x : NoDup l -> In x (keepb (marks (length l) ds) l) -> exists k, k < length l /\ nth k l 0 = x /\ ~ In k ds.
Proof.
  intros ND H. rewrite (keepb_marks_nth 0) in H. apply in_map_iff in H. destruct H as (k & E & Hk). apply filter_In in Hk. destruct Hk as [Hk Hm].
  apply in_seq in Hk. exists k. split; [lia|]. split; [exact E|]. intros C. apply memn_In in C. rewrite C in Hm. discriminate.
Qed.

Theorem lib_delcols_ok s ds s' :
  LWF s -> lib_delcols s ds = Ok s' ->
  LWF s' /\ ents_of s' = restrict (ents_of s) ds /\ length (rmap s') = length (rmap s) /\ mrows (lA s') = mrows (lA s).
Proof.
  intros L. unfold lib_delcols, bind. destruct (forallb (fun j => j <? length (smap s)) ds && nodupn ds) eqn:V; [|discriminate]. simpl negb. cbv iota.
  apply andb_true_iff in V. destruct V as [V1 V2]. apply nodupn_NoDup in V2.
  assert (Vd : forall d, In d ds -> d < length (smap s)) by (intros d Hd; rewrite forallb_forall in V1; apply Nat.ltb_lt; apply V1; exact Hd).
  set (A := lA s) in *. set (cds := map (fun j => nth j (smap s) 0) ds). set (cmk := marks (mcols A) cds).
  destruct (mat_delcols A cmk) as [A1| |] eqn:E; try discriminate. intros H; inversion H; subst s'; clear H.
  destruct (mat_delcols_ok A cmk A1 (lwf_A _ L) E) as (W1 & MR & MC & _ & CO & _).
  pose proof (lwf_srange _ L) as SR. pose proof (lwf_rrange _ L) as RR. rewrite Forall_forall in SR, RR. fold A in SR, RR.
  assert (Lc : length cmk = mcols A) by apply marks_length.
  assert (CDS : forall x, In x cds -> In x (smap s)).
  { intros x Hx. unfold cds in Hx. apply in_map_iff in Hx. destruct Hx as (d & <- & Hd). apply nth_In. apply Vd. exact Hd. }
  assert (UNR : forall x, In x (rmap s) -> nth x cmk false = false).
  { intros x Hx. destruct (nth x cmk false) eqn:N; [|reflexivity]. apply nth_marks_true in N. destruct N as [_ N]. exfalso. exact (lwf_disj _ L x (CDS _ N) Hx). }
  assert (GOOD : forall x, x < mcols A -> nth x cmk false = false -> newidx cmk x < mcols A1 /\ col_slots A1 (newidx cmk x) = col_slots A x).
  { intros x Hx Nx. assert (Hn : newidx cmk x < mcols A1) by (rewrite MC; apply newidx_lt; [rewrite Lc; exact Hx|exact Nx]).
    split; [exact Hn|]. destruct (CO _ Hn) as (C1 & _). rewrite C1. rewrite orig_newidx; [reflexivity|rewrite Lc; exact Hx|exact Nx]. }
  set (sm1 := filter (fun k => negb (nth k cmk false)) (smap s)).
  assert (SM1 : forall x, In x sm1 -> In x (smap s) /\ nth x cmk false = false).
  { intros x Hx. apply filter_In in Hx. destruct Hx as [Hx Hn]. split; [exact Hx|]. apply negb_true_iff in Hn. exact Hn. }
  split; [|split; [|split; [simpl; apply map_length|exact MR]]].
  - constructor; simpl.
    + exact W1.
    + apply NoDup_map_inj_in; [apply NoDup_filter; exact (lwf_snd _ L)|].
      intros x y Hx Hy. destruct (SM1 _ Hx) as [X1 X2]. destruct (SM1 _ Hy) as [Y1 Y2]. apply newidx_inj; try assumption; rewrite Lc; [apply SR|apply SR]; assumption.
    + apply NoDup_map_inj_in; [exact (lwf_rnd _ L)|].
      intros x y Hx Hy. apply newidx_inj; try (apply UNR; assumption); rewrite Lc; apply RR; assumption.
    + intros z Hz Hr. apply in_map_iff in Hz. destruct Hz as (x & <- & Hx). apply in_map_iff in Hr. destruct Hr as (y & E' & Hy).
      destruct (SM1 _ Hx) as [X1 X2]. assert (y = x) by (apply (newidx_inj cmk); try assumption; try (apply UNR; assumption); rewrite Lc; [apply RR|apply SR]; assumption).
      subst y. exact (lwf_disj _ L x X1 Hy).
    + apply Forall_forall. intros z Hz. apply in_map_iff in Hz. destruct Hz as (x & <- & Hx). destruct (SM1 _ Hx) as [X1 X2]. apply GOOD; [apply SR; exact X1|exact X2].
    + apply Forall_forall. intros z Hz. apply in_map_iff in Hz. destruct Hz as (x & <- & Hx). apply GOOD; [apply RR; exact Hx|apply UNR; exact Hx].
    + rewrite map_length, MR. apply (lwf_rows _ L).
  - unfold ents_of; simpl. fold A. rewrite map_map.
    rewrite restrict_keepb by exact V2. rewrite map_length, keepb_map.
    assert (E1 : keepb (marks (length (smap s)) ds) (smap s) = sm1).
    { unfold sm1. rewrite filter_keepb. f_equal. apply (nth_ext _ _ false false); [rewrite marks_length, map_length; reflexivity|].
      intros k Hk. rewrite marks_length in Hk. rewrite nth_marks by exact Hk.
      rewrite (nth_indep _ false (negb (negb (nth (nth k (smap s) 0) cmk false)))) by (rewrite map_length; exact Hk).
      rewrite (map_nth (fun x => negb (negb (nth x cmk false)))). rewrite negb_involutive.
      rewrite (nth_indep (smap s) _ 0) by exact Hk. unfold cmk. rewrite nth_marks by (apply SR; apply nth_In; exact Hk). unfold cds. symmetry. apply memn_map_nth; [exact (lwf_snd _ L)|exact Hk|exact Vd]. }
    rewrite E1. apply map_ext_in. intros x Hx. destruct (SM1 _ Hx) as [X1 X2]. apply col_ents_eq. apply GOOD; [apply SR; exact X1|exact X2].
Qed.

Lemma cntlt_S ds r : NoDup ds -> cntlt ds (S r) = cntlt ds r + (if memn r ds then 1 else 0).
Proof.
  unfold cntlt. induction 1 as [|x ds Hx Hd IH]; [reflexivity|]. simpl.
  destruct (Nat.eqb_spec x r) as [->|Hne].
  - assert (M : memn r ds = false) by (destruct (memn r ds) eqn:E; [apply memn_In in E; contradiction|reflexivity]).
    rewrite M in IH. simpl. destruct (Nat.ltb_spec r (S r)); [|lia]. destruct (Nat.ltb_spec r r); [lia|]. simpl. rewrite IH. lia.
  - simpl. destruct (Nat.ltb_spec x (S r)); destruct (Nat.ltb_spec x r); try lia; simpl; rewrite IH; lia.
Qed.

Lemma cntlt_le ds r : NoDup ds -> cntlt ds r <= r.
Proof.
  intros ND. induction r as [|r IH]; [unfold cntlt; induction ds; simpl; [lia|inversion ND; subst; auto]|].
  rewrite cntlt_S by exact ND. destruct (memn r ds); lia.
Qed.

Lemma newidx_marks n ds r : NoDup ds -> r <= n -> newidx (marks n ds) r = r - cntlt ds r.
Proof.
  intros ND. induction r as [|r IH]; intros H; [reflexivity|].
  rewrite newidx_S by (rewrite marks_length; lia). rewrite IH by lia. rewrite nth_marks by lia. rewrite cntlt_S by exact ND.
  pose proof (cntlt_le ds r ND). destruct (memn r ds); lia.
Qed.

Lemma kept_of_ents n ds (sl : list slot) :
  NoDup ds -> Forall (fun s => (0 <= fst s < Z.of_nat n)%Z) sl ->
  map slot_ent (kept_of (marks n ds) sl) = del_rows_ent ds (map slot_ent sl).
Proof.
  intros ND F. unfold kept_of, del_rows_ent. induction F as [|s sl Hs Hsl IH]; [reflexivity|]. cbn [map filter].
  assert (Hr : Z.to_nat (fst s) < n) by lia.
  unfold row_kept at 1. rewrite nth_marks by exact Hr. unfold slot_ent at 2. cbn [fst].
  destruct (memn (Z.to_nat (fst s)) ds); cbn [negb]; [exact IH|]. cbn [map]. rewrite IH. f_equal.
  unfold renum, slot_ent. cbn [fst snd]. rewrite Nat2Z.id. rewrite newidx_marks by (try exact ND; lia). reflexivity.
Qed.

Theorem lib_delrows_ok s ds s' :
  LWF s -> lib_delrows s ds = Ok s' ->
  LWF s' /\ ents_of s' = map (del_rows_ent ds) (ents_of s) /\
  length (rmap s') = length (restrict (rmap s) ds) /\ mrows (lA s') = length (rmap s').
Proof.
  intros L. unfold lib_delrows, bind. destruct (forallb (fun j => j <? length (rmap s)) ds && nodupn ds) eqn:V; [|discriminate]. simpl negb. cbv iota.
  apply andb_true_iff in V. destruct V as [V1 V2]. apply nodupn_NoDup in V2.
  assert (Vd : forall d, In d ds -> d < length (rmap s)) by (intros d Hd; rewrite forallb_forall in V1; apply Nat.ltb_lt; apply V1; exact Hd).
  set (A := lA s) in *. set (rmk := marks (mrows A) ds). set (cds := map (fun j => nth j (rmap s) 0) ds). set (cmk := marks (mcols A) cds).
  destruct (mat_delcols A cmk) as [A1| |] eqn:E1; try discriminate. destruct (mat_delrows A1 rmk) as [A2| |] eqn:E2; try discriminate.
  intros H; inversion H; subst s'; clear H.
  destruct (mat_delcols_ok A cmk A1 (lwf_A _ L) E1) as (W1 & MR1 & MC1 & _ & CO1 & _).
  destruct (mat_delrows_ok A1 rmk A2 W1 E2) as (W2 & MC2 & MR2 & _ & CS2).
  pose proof (lwf_srange _ L) as SR. pose proof (lwf_rrange _ L) as RR. rewrite Forall_forall in SR, RR. fold A in SR, RR.
  pose proof (lwf_rows _ L) as LR. fold A in LR.
  assert (Lc : length cmk = mcols A) by apply marks_length.
  assert (CDS : forall x, In x cds -> In x (rmap s)).
  { intros x Hx. unfold cds in Hx. apply in_map_iff in Hx. destruct Hx as (d & <- & Hd). apply nth_In. apply Vd. exact Hd. }
  assert (UNS : forall x, In x (smap s) -> nth x cmk false = false).
  { intros x Hx. destruct (nth x cmk false) eqn:N; [|reflexivity]. apply nth_marks_true in N. destruct N as [_ N]. exfalso. exact (lwf_disj _ L x Hx (CDS _ N)). }
  set (rm1 := keepb (marks (length (rmap s)) ds) (rmap s)).
  assert (UNR : forall x, In x rm1 -> In x (rmap s) /\ nth x cmk false = false).
  { intros x Hx. destruct (keepb_marks_In (rmap s) ds x (lwf_rnd _ L) Hx) as (k & Hk & <- & Nk). split; [apply nth_In; exact Hk|].
    unfold cmk. rewrite nth_marks by (apply RR; apply nth_In; exact Hk). unfold cds. rewrite memn_map_nth by (try exact (lwf_rnd _ L); assumption).
    destruct (memn k ds) eqn:M; [apply memn_In in M; contradiction|reflexivity]. }
  assert (GOOD : forall x, x < mcols A -> nth x cmk false = false -> newidx cmk x < mcols A1 /\ col_slots A1 (newidx cmk x) = col_slots A x).
  { intros x Hx Nx. assert (Hn : newidx cmk x < mcols A1) by (rewrite MC1; apply newidx_lt; [rewrite Lc; exact Hx|exact Nx]).
    split; [exact Hn|]. destruct (CO1 _ Hn) as (C1 & _). rewrite C1. rewrite orig_newidx; [reflexivity|rewrite Lc; exact Hx|exact Nx]. }
  assert (LRM : length (map (newidx cmk) rm1) = length (restrict (rmap s) ds)).
  { rewrite map_length. unfold rm1. rewrite restrict_keepb by exact V2. reflexivity. }
  split; [|split; [|split; [exact LRM|]]].
  - constructor; simpl.
    + exact W2.
    + apply NoDup_map_inj_in; [exact (lwf_snd _ L)|].
      intros x y Hx Hy. apply newidx_inj; try (apply UNS; assumption); rewrite Lc; apply SR; assumption.
    + apply NoDup_map_inj_in; [apply keepb_NoDup; exact (lwf_rnd _ L)|].
      intros x y Hx Hy. destruct (UNR _ Hx) as [X1 X2]. destruct (UNR _ Hy) as [Y1 Y2]. apply newidx_inj; try assumption; rewrite Lc; apply RR; assumption.
    + intros z Hz Hr. apply in_map_iff in Hz. destruct Hz as (x & <- & Hx). apply in_map_iff in Hr. destruct Hr as (y & E' & Hy).
      destruct (UNR _ Hy) as [Y1 Y2]. assert (y = x) by (apply (newidx_inj cmk); try assumption; try (apply UNS; assumption); rewrite Lc; [apply RR|apply SR]; assumption).
      subst y. exact (lwf_disj _ L x Hx Y1).
    + apply Forall_forall. intros z Hz. apply in_map_iff in Hz. destruct Hz as (x & <- & Hx). rewrite MC2. apply GOOD; [apply SR; exact Hx|apply UNS; exact Hx].
    + apply Forall_forall. intros z Hz. apply in_map_iff in Hz. destruct Hz as (x & <- & Hx). destruct (UNR _ Hx) as [X1 X2]. rewrite MC2. apply GOOD; [apply RR; exact X1|exact X2].
    + rewrite MR2. rewrite map_length. unfold rm1, rmk. rewrite <- LR. apply keepb_length_filter. rewrite marks_length. reflexivity.
  - unfold ents_of; simpl. fold A. rewrite !map_map. apply map_ext_in. intros x Hx.
    destruct (GOOD x (SR _ Hx) (UNS _ Hx)) as (G1 & G2). unfold col_ents. rewrite CS2 by exact G1. rewrite G2.
    unfold rmk. apply kept_of_ents; [exact V2|]. apply (col_slots_rows _ _ _ (lwf_A _ L)). apply SR. exact Hx.
  - simpl. rewrite MR2, map_length. unfold rm1, rmk. rewrite <- LR. symmetry. apply keepb_length_filter. rewrite marks_length. reflexivity.
Qed.

(* ---- the calls of the reference model ---------------------------------------------------------------------- *)

Definition refines (s : lstore) (p : prob) : Prop :=
  LWF s /\ ents_of s = map sc_ent (p_cols p) /\ length (rmap s) = nrow p.

Lemma refines_ncol s p : refines s p -> length (smap s) = ncol p.
Proof. intros (_ & E & _). unfold ncol. rewrite <- (map_length sc_ent), <- E. unfold ents_of. rewrite map_length. reflexivity. Qed.

Lemma idx_to_nat n z i : idx n z = Some i -> i = Z.to_nat z.
Proof. unfold idx. destruct ((0 <=? z)%Z && (z <? Z.of_nat n)%Z)%bool; [|discriminate]. intros H; inversion H; reflexivity. Qed.

Lemma conv_ent_nat n ent e : conv_ent n ent = Some e -> e = nat_ents ent.
Proof.
  revert e. induction ent as [|[z v] r IH]; intros e H; simpl in H; [inversion H; reflexivity|].
  destruct (idx n z) eqn:E; [|discriminate]. destruct (conv_ent n r) eqn:F; [|discriminate]. inversion H; subst.
  simpl. rewrite (idx_to_nat _ _ _ E), (IH l eq_refl). reflexivity.
Qed.

Lemma idxs_to_nat n l t : idxs n l = Some t -> t = map Z.to_nat l.
Proof. apply idxs_eq. Qed.

Lemma map_upd_nth {A B} (f : A -> B) (g : A -> A) (h : B -> B) : (forall a, f (g a) = h (f a)) ->
  forall l j, map f (upd_nth j g l) = upd_nth j h (map f l).
Proof. intros H. induction l as [|a l IH]; intros [|j]; simpl; try reflexivity; [rewrite H; reflexivity|rewrite IH; reflexivity]. Qed.

Lemma map_upd_nth_same {A B} (f : A -> B) (g : A -> A) : (forall a, f (g a) = f a) -> forall l j, map f (upd_nth j g l) = map f l.
Proof. intros H. induction l as [|a l IH]; intros [|j]; simpl; try reflexivity; [rewrite H; reflexivity|rewrite IH; reflexivity]. Qed.

Lemma restrict_map {A B} (f : A -> B) l ds : map f (restrict l ds) = restrict (map f l) ds.
Proof.
  unfold restrict. generalize (sort_desc ds). intros d. revert l. induction d as [|i d IH]; intros l; simpl; [reflexivity|].
  rewrite IH, remove_nth_map. reflexivity.
Qed.

Lemma del_rows_n_ents p ds : map sc_ent (p_cols (del_rows_n p ds)) = map (fun e => fold_left (fun e i => del_ent i e) (sort_desc ds) e) (map sc_ent (p_cols p)).
Proof.
  unfold del_rows_n. generalize (sort_desc ds). intros d. revert p. induction d as [|i d IH]; intros p; simpl.
  - rewrite map_map. reflexivity.
  - rewrite IH. unfold del_row_one; simpl. rewrite !map_map. reflexivity.
Qed.

Section Step.
Variable M : Q.
Variables extra_cols extra_mat : nat.
Variable fixed : bool.

Lemma pstep_delcols_spec p o p' t :
  match o with DelCols _ | DelSetCols _ | DelNCols _ => True | _ => False end -> pstep M p o = (p', ROk t) ->
  p' = del_cols_n p (del_cols_of p o) /\ NoDup (del_cols_of p o) /\ Forall (fun i => i < ncol p) (del_cols_of p o).
Proof.
  destruct o; simpl; try contradiction; intros _ H; unfold edit in H.
  - unfold del_cols in H. destruct (idxs (ncol p) l) as [ds|] eqn:E; [|discriminate]. destruct (nodupn ds) eqn:N; [|discriminate].
    inversion H; subst. split; [reflexivity|]. split; [apply nodupn_NoDup; exact N|eapply idxs_lt; exact E].
  - inversion H; subst. split; [reflexivity|]. split; [apply flagged_NoDup|].
    eapply Forall_impl; [|apply flagged_range]. simpl. intros k Hk. lia.
  - unfold del_named_cols in H. destruct (find_names (colnames p) l) as [ds|] eqn:E; [|discriminate]. destruct (nodupn ds) eqn:N; [|discriminate].
    inversion H; subst. split; [reflexivity|]. split; [apply nodupn_NoDup; exact N|].
    pose proof (find_names_lt _ _ _ E) as F. unfold colnames in F. rewrite map_length in F. exact F.
Qed.

Lemma refines_addcol s p obj lo up nm ent p' s' :
  refines s p -> add_col p obj lo up nm ent = Some p' -> lib_addcol extra_cols extra_mat s (nat_ents ent) = Ok s' -> refines s' p'.
Proof.
  intros (L & E & R) H1 H2. unfold add_col in H1. destruct (pick_name _ _ _); [|discriminate]. destruct (conv_ent (nrow p) ent) as [e|] eqn:C; [|discriminate].
  inversion H1; subst p'; clear H1. destruct (lib_addcol_ok _ _ _ _ _ L H2) as (L' & E' & R' & _).
  split; [exact L'|]. split.
  - rewrite E'. simpl. rewrite map_app. simpl. rewrite E. rewrite (conv_ent_nat _ _ _ C). reflexivity.
  - rewrite R'. exact R.
Qed.

Lemma refines_addrow s p rhs sn rng nm ent p' s' :
  refines s p -> add_row p rhs sn rng nm ent = Some p' -> lib_addrow extra_cols extra_mat fixed s (nat_ents ent) (coef_of_sense sn) = Ok s' -> refines s' p'.
Proof.
  intros (L & E & R) H1 H2. unfold add_row in H1. destruct (sense_of_ascii sn); [|discriminate]. destruct (pick_name _ _ _); [|discriminate].
  destruct (conv_ent (ncol p) ent) as [e|] eqn:C; [|discriminate]. inversion H1; subst p'; clear H1.
  destruct (lib_addrow_ok _ _ _ _ _ _ _ L H2) as (L' & E' & _ & R' & _).
  split; [exact L'|]. split.
  - rewrite E'. simpl. rewrite app_row_sc_ent. rewrite E. rewrite (conv_ent_nat _ _ _ C). rewrite <- (lwf_rows _ L), R. reflexivity.
  - rewrite R'. unfold nrow; simpl. rewrite app_length. simpl. unfold nrow in R. lia.
Qed.

Lemma refines_addcols l : forall s p p' s', refines s p -> add_cols p l = Some p' -> l2_addcols extra_cols extra_mat s l = Ok s' -> refines s' p'.
Proof.
  induction l as [|[[[[obj lo] up] nm] ent] r IH]; intros s p p' s' Rf H1 H2; simpl in *.
  - inversion H1; inversion H2; subst. exact Rf.
  - destruct (add_col p obj lo up nm ent) as [p1|] eqn:A; [|discriminate]. unfold bind in H2.
    destruct (lib_addcol extra_cols extra_mat s (nat_ents ent)) as [s1| |] eqn:B; try discriminate.
    apply (IH s1 p1); [eapply refines_addcol; eauto|exact H1|exact H2].
Qed.

Lemma refines_addrows l : forall s p p' s', refines s p -> add_rows p l = Some p' -> l2_addrows extra_cols extra_mat fixed s l = Ok s' -> refines s' p'.
Proof.
  induction l as [|[[[[rhs sn] rng] nm] ent] r IH]; intros s p p' s' Rf H1 H2; simpl in *.
  - inversion H1; inversion H2; subst. exact Rf.
  - destruct (add_row p rhs sn rng nm ent) as [p1|] eqn:A; [|discriminate]. unfold bind in H2.
    destruct (lib_addrow extra_cols extra_mat fixed s (nat_ents ent) (coef_of_sense sn)) as [s1| |] eqn:B; try discriminate.
    apply (IH s1 p1); [eapply refines_addrow; eauto|exact H1|exact H2].
Qed.

Lemma refines_chgsenses l : forall s p s', refines s p -> l2_chgsenses s l = Ok s' -> refines s' p.
Proof.
  induction l as [|[i a] r IH]; intros s p s' Rf H; simpl in *; [inversion H; subst; exact Rf|].
  unfold bind in H. destruct (lib_chgsense s (Z.to_nat i) (coef_of_sense a)) as [s1| |] eqn:B; try discriminate.
  apply (IH s1 p); [|exact H]. destruct Rf as (L & E & R). destruct (lib_chgsense_ok _ _ _ _ L B) as (L' & E' & _ & R' & _).
  split; [exact L'|]. split; [rewrite E'; exact E|rewrite R'; exact R].
Qed.

(* calls that do not touch the matrix *)
Definition touches_matrix (o : pop) : bool :=
  match o with
  | NewCol _ _ _ _ | AddCol _ _ _ _ _ | AddCols _ | NewRow _ _ _ | AddRow _ _ _ _ _ | AddRows _
  | DelRows _ | DelSetRows _ | DelNRows _ | DelCols _ | DelSetCols _ | DelNCols _ | ChgCoef _ _ _ | ChgSenses _ => true
  | _ => false
  end.

Lemma fold_upd_ents {X} (f : scol -> X -> scol) (key : X -> nat) : (forall c x, sc_ent (f c x) = sc_ent c) ->
  forall (t : list X) cols, map sc_ent (fold_left (fun cols b => upd_nth (key b) (fun c => f c b) cols) t cols) = map sc_ent cols.
Proof.
  intros H. induction t as [|b t IH]; intros cols; simpl; [reflexivity|]. rewrite IH. apply map_upd_nth_same. intros a. apply H.
Qed.

Lemma fold_upd_rows_length {X} (f : srow -> X -> srow) (key : X -> nat) :
  forall (t : list X) rows, length (fold_left (fun rows b => upd_nth (key b) (fun r => f r b) rows) t rows) = length rows.
Proof. induction t as [|b t IH]; intros rows; simpl; [reflexivity|]. rewrite IH. apply upd_nth_length. Qed.

Lemma pstep_other_ents p o p' t :
  touches_matrix o = false -> pstep M p o = (p', ROk t) -> map sc_ent (p_cols p') = map sc_ent (p_cols p) /\ nrow p' = nrow p.
Proof.
  destruct o; simpl; try discriminate; intros _; cbn [pstep]; unfold edit, answer; intros H;
    try (match type of H with (match ?x with _ => _ end) = _ => destruct x eqn:E end; inversion H; subst; clear H);
    try (split; reflexivity);
    try (inversion H; subst; split; reflexivity);
    try (repeat match type of H with context [match ?x with _ => _ end] => destruct x end; inversion H; subst; split; reflexivity).
  - unfold chg_obj in E. destruct (idx (ncol p) j); [|discriminate]. inversion E; subst. simpl. split; [|reflexivity].
    apply map_upd_nth_same. reflexivity.
  - unfold chg_rhs in E. destruct (idx (nrow p) i); [|discriminate]. inversion E; subst. unfold nrow; simpl. rewrite upd_nth_length. split; reflexivity.
  - unfold chg_range in E. destruct (idx (nrow p) i); [|discriminate]. destruct (is_SR _); [|discriminate]. inversion E; subst.
    unfold nrow; simpl. rewrite upd_nth_length. split; reflexivity.
  - unfold chg_bnds in E. destruct (conv_bnds (ncol p) l); [|discriminate]. inversion E; subst. simpl. split; [|reflexivity].
    apply (fold_upd_ents (fun c b => app_bnd c (snd (fst b)) (snd b)) (fun b => fst (fst b))).
    intros c [[k sel] v]. simpl. destruct sel; reflexivity.
  - unfold chg_objsense in E. destruct (code =? 1)%Z; [inversion E; subst; split; reflexivity|].
    destruct (code =? -1)%Z; [inversion E; subst; split; reflexivity|discriminate].
  - unfold set_param in E.
    repeat match type of E with (if ?c then _ else _) = _ => destruct c end; try discriminate; inversion E; subst; split; reflexivity.
  - unfold set_paramq in E.
    repeat match type of E with (if ?c then _ else _) = _ => destruct c end; try discriminate; inversion E; subst; split; reflexivity.
  - unfold mark_int in E. destruct (idx (ncol p) j); [|discriminate]. inversion E; subst. simpl. split; [|reflexivity].
    apply map_upd_nth_same. reflexivity.
  - destruct (idxs (nrow p) l0); inversion H1; subst; split; reflexivity.
  - match goal with H0 : context [idxs (ncol p) ?l] |- _ => destruct (idxs (ncol p) l); inversion H0; subst; split; reflexivity end.
Qed.

Lemma refines_delrows s p o p' t s' :
  refines s p -> is_delrows o = true -> pstep M p o = (p', ROk t) ->
  (match del_rows_of p o with [] => Ok s | ds => lib_delrows s ds end) = Ok s' -> refines s' p'.
Proof.
  intros (L & E & R) F P H. destruct (pstep_delrows_spec M p o p' t F P) as (Ep & ND & RG).
  destruct (del_rows_of p o) as [|d ds] eqn:D.
  - inversion H; subst s'. rewrite Ep. unfold del_rows_n; simpl. split; [exact L|split; assumption].
  - destruct (lib_delrows_ok _ _ _ L H) as (L' & E' & R' & _). split; [exact L'|]. split.
    + rewrite E', E, Ep. rewrite del_rows_n_ents. apply map_ext. intros e. symmetry. apply fold_del_ent. exact ND.
    + rewrite R', Ep. unfold nrow. destruct (del_rows_n_rows p (d :: ds)) as (Q & _). rewrite Q. apply restrict_length_eq. exact R.
Qed.

Lemma refines_delcols s p o p' t s' :
  refines s p -> match o with DelCols _ | DelSetCols _ | DelNCols _ => True | _ => False end -> pstep M p o = (p', ROk t) ->
  (match del_cols_of p o with [] => Ok s | ds => lib_delcols s ds end) = Ok s' -> refines s' p'.
Proof.
  intros (L & E & R) F P H. destruct (pstep_delcols_spec p o p' t F P) as (Ep & ND & RG).
  destruct (del_cols_of p o) as [|d ds] eqn:D.
  - inversion H; subst s'. rewrite Ep. unfold del_cols_n; simpl. split; [exact L|split; assumption].
  - destruct (lib_delcols_ok _ _ _ L H) as (L' & E' & R' & _). split; [exact L'|]. split.
    + rewrite E', E, Ep. destruct (del_cols_n_cols p (d :: ds)) as (Q & _). rewrite Q. symmetry. apply restrict_map.
    + rewrite R', Ep. destruct (del_cols_n_cols p (d :: ds)) as (_ & Q). rewrite Q. exact R.
Qed.

Lemma pstep_not_skip p o p1 : pstep M p o = (p1, RSkip) -> False.
Proof.
  destruct o; cbn [pstep]; unfold edit, answer; intros H;
    repeat match type of H with context [match ?x with _ => _ end] => destruct x end; discriminate.
Qed.

Lemma err_leaves_state_eq p o p1 : pstep M p o = (p1, RErr) -> p1 = p.
Proof. intros P. pose proof (err_leaves_state M p o) as H. rewrite P in H. simpl in H. apply H. reflexivity. Qed.

Lemma skip_leaves_state_eq p o p1 : pstep M p o = (p1, RSkip) -> p1 = p.
Proof. intros P. exfalso. eapply pstep_not_skip; eauto. Qed.

(* one accepted call of the reference model, run on the concrete store *)
Theorem l2_step_refines s p o p' t s' :
  refines s p -> pstep M p o = (p', ROk t) -> l2_step extra_cols extra_mat fixed p s o = Ok s' -> refines s' p'.
Proof.
  intros Rf P H. destruct (touches_matrix o) eqn:T.
  2:{ destruct (pstep_other_ents p o p' t T P) as (E1 & E2).
      assert (s' = s) by (destruct o; simpl in T; try discriminate; simpl in H; inversion H; reflexivity). subst s'.
      destruct Rf as (L & E & R). split; [exact L|]. split; [rewrite E1; exact E|rewrite E2; exact R]. }
  destruct o; simpl in T; try discriminate; cbn [pstep] in P; unfold edit in P; cbn [l2_step] in H.
  - destruct (add_col p obj lo up nm []) as [p1|] eqn:A; inversion P; subst. eapply refines_addcol; eauto.
  - destruct (add_col p obj lo up nm ent) as [p1|] eqn:A; inversion P; subst. eapply refines_addcol; eauto.
  - destruct (add_cols p l) as [p1|] eqn:A; inversion P; subst. eapply refines_addcols; eauto.
  - destruct (add_row p rhs sn None nm []) as [p1|] eqn:A; inversion P; subst. eapply (refines_addrow s p rhs sn None nm []); eauto.
  - destruct (add_row p rhs sn rng nm ent) as [p1|] eqn:A; inversion P; subst. eapply refines_addrow; eauto.
  - destruct (add_rows p l) as [p1|] eqn:A; inversion P; subst. eapply refines_addrows; eauto.
  - apply (refines_delrows s p (DelRows l) p' t s' Rf eq_refl); [cbn [pstep]; unfold edit; exact P|exact H].
  - apply (refines_delrows s p (DelSetRows flags) p' t s' Rf eq_refl); [cbn [pstep]; unfold edit; exact P|exact H].
  - apply (refines_delrows s p (DelNRows l) p' t s' Rf eq_refl); [cbn [pstep]; unfold edit; exact P|exact H].
  - apply (refines_delcols s p (DelCols l) p' t s' Rf I); [cbn [pstep]; unfold edit; exact P|exact H].
  - apply (refines_delcols s p (DelSetCols flags) p' t s' Rf I); [cbn [pstep]; unfold edit; exact P|exact H].
  - apply (refines_delcols s p (DelNCols l) p' t s' Rf I); [cbn [pstep]; unfold edit; exact P|exact H].
  - destruct (chg_coef p i j v) as [p1|] eqn:A; inversion P; subst. unfold chg_coef in A.
    destruct (idx (nrow p) i) as [i'|] eqn:Ei; [|discriminate]. destruct (idx (ncol p) j) as [j'|] eqn:Ej; [|discriminate]. inversion A; subst p'; clear A.
    destruct Rf as (L & E & R). destruct (lib_chgcoef_ok _ _ _ _ _ _ L H) as (L' & E' & _ & R' & _).
    split; [exact L'|]. split; [|rewrite R'; exact R].
    rewrite E'. simpl. rewrite E. rewrite <- (idx_to_nat _ _ _ Ei), <- (idx_to_nat _ _ _ Ej). symmetry. apply map_upd_nth. reflexivity.
  - destruct (chg_senses p l) as [p1|] eqn:A; inversion P; subst. unfold chg_senses in A. destruct (conv_senses (nrow p) l) as [cs|]; [|discriminate].
    inversion A; subst p'; clear A. pose proof (refines_chgsenses l s p s' Rf H) as (L' & E' & R').
    split; [exact L'|]. split; [exact E'|]. rewrite R'. unfold nrow; simpl. symmetry.
    apply (fold_upd_rows_length (fun r (b : nat * sense) => set_sense r (snd b)) fst).
Qed.

(* histories: a list of calls, each accepted by the reference model *)
Fixpoint l2_run (p : prob) (s : lstore) (l : list pop) : res lstore :=
  match l with
  | [] => Ok s
  | o :: r => match snd (pstep M p o) with
              | ROk _ => bind (l2_step extra_cols extra_mat fixed p s o) (fun s' => l2_run (fst (pstep M p o)) s' r)
              | _ => l2_run p s r          (* a rejected call changes nothing *)
              end
  end.

Theorem l2_run_refines l : forall s p s', refines s p -> l2_run p s l = Ok s' -> refines s' (prun M p l).
Proof.
  induction l as [|o r IH]; intros s p s' Rf H; simpl in *; [inversion H; subst; exact Rf|].
  destruct (pstep M p o) as [p1 res] eqn:P. simpl in *. destruct res as [t| |].
  - unfold bind in H. destruct (l2_step extra_cols extra_mat fixed p s o) as [s1| |] eqn:S1; try discriminate.
    apply (IH s1 p1 s'); [eapply l2_step_refines; eauto|exact H].
  - assert (p1 = p) by (eapply err_leaves_state_eq; exact P). subst p1. apply (IH s p s' Rf H).
  - assert (p1 = p) by (eapply skip_leaves_state_eq; exact P). subst p1. apply (IH s p s' Rf H).
Qed.

Lemma refines_empty mx : refines empty_lstore (empty_prob M mx).
Proof. split; [apply LWF_empty|]. split; reflexivity. Qed.
End Step.

(* ---- the operations of the matrix commute with abs ---------------------------------------------------------- *)

Lemma abs_length m : length (abs m) = mcols m.
Proof. unfold abs. rewrite map_length, seq_length. reflexivity. Qed.

Lemma nth_abs m j : j < mcols m -> nth j (abs m) [] = col_ents m j.
Proof.
  intros H. unfold abs. rewrite (nth_indep _ [] (col_ents m 0)) by (rewrite map_length, seq_length; exact H).
  rewrite map_nth, seq_nth by exact H. reflexivity.
Qed.

Lemma abs_ext m m' (f : nat -> list (nat * Q) -> list (nat * Q)) :
  mcols m' = mcols m -> (forall j, j < mcols m -> col_ents m' j = f j (col_ents m j)) ->
  abs m' = map (fun jc => f (fst jc) (snd jc)) (combine (seq 0 (mcols m)) (abs m)).
Proof.
  intros MC H. apply (nth_ext _ _ [] []).
  - rewrite abs_length, map_length, combine_length, seq_length, abs_length. lia.
  - intros j Hj. rewrite abs_length, MC in Hj. rewrite nth_abs by (rewrite MC; exact Hj). rewrite H by exact Hj.
    rewrite (nth_indep _ [] (f (fst (0, @nil (nat * Q))) (snd (0, @nil (nat * Q))))) by (rewrite map_length, combine_length, seq_length, abs_length; lia).
    rewrite (map_nth (fun jc => f (fst jc) (snd jc))). rewrite combine_nth by (rewrite seq_length, abs_length; reflexivity).
    rewrite seq_nth by exact Hj. simpl. rewrite nth_abs by exact Hj. reflexivity.
Qed.

Theorem abs_addrow extra_mat fixed m ents m' :
  WF m -> mat_addrow extra_mat fixed m ents = Ok m' -> WF m' /\ abs m' = app_row_ent (abs m) 0 (mrows m) ents.
Proof.
  intros W H. destruct (mat_addrow_ok extra_mat fixed m ents m' W H) as (W' & MC & _ & _ & CS). split; [exact W'|].
  apply (nth_ext _ _ [] []); [rewrite app_row_ent_length, !abs_length; exact MC|].
  intros j Hj. rewrite abs_length, MC in Hj. rewrite nth_abs by (rewrite MC; exact Hj).
  rewrite nth_app_row_ent by (rewrite abs_length; exact Hj). rewrite nth_abs by exact Hj.
  unfold col_ents at 1. rewrite CS by exact Hj. unfold newcol. rewrite map_app. f_equal. rewrite map_map. simpl.
  apply map_ext. intros e. unfold slot_ent. simpl. rewrite Nat2Z.id. reflexivity.
Qed.

Theorem abs_addcol extra_cols extra_mat m ents m' :
  WF m -> mat_addcol extra_cols extra_mat m ents = Ok m' -> WF m' /\ abs m' = abs m ++ [ents].
Proof.
  intros W H. destruct (mat_addcol_ok extra_cols extra_mat m ents m' W H) as (W' & MC & _ & CO & CN). split; [exact W'|].
  apply (nth_ext _ _ [] []); [rewrite app_length, !abs_length, MC; simpl; lia|].
  intros j Hj. rewrite abs_length, MC in Hj. rewrite nth_abs by (rewrite MC; exact Hj).
  destruct (Nat.lt_ge_cases j (mcols m)) as [H1|H1].
  - rewrite app_nth1 by (rewrite abs_length; exact H1). rewrite nth_abs by exact H1. apply col_ents_eq. apply CO. exact H1.
  - assert (j = mcols m) by lia. subst j. rewrite app_nth2 by (rewrite abs_length; lia). rewrite abs_length, Nat.sub_diag. simpl.
    unfold col_ents. rewrite CN, map_map. rewrite <- (map_id ents) at 2. apply map_ext. apply slot_ent_ent_slot.
Qed.

Theorem abs_addcoef extra_mat m i j v m' nw :
  WF m -> mat_addcoef extra_mat m i j v = Ok (m', nw) -> WF m' /\ abs m' = upd_nth j (set_first i v) (abs m).
Proof.
  intros W H. destruct (mat_addcoef_ok extra_mat m i j v m' nw W H) as (W' & MC & _ & _ & CJ & CO & _). split; [exact W'|].
  assert (Hj : j < mcols m).
  { unfold mat_addcoef in H. destruct (Nat.ltb_spec j (mcols m)); [assumption|]. rewrite orb_true_r in H. discriminate. }
  apply (nth_ext _ _ [] []); [rewrite upd_nth_length, !abs_length; exact MC|].
  intros k Hk. rewrite abs_length, MC in Hk. rewrite nth_abs by (rewrite MC; exact Hk). rewrite nth_upd_nth, abs_length.
  replace (j <? mcols m) with true by (symmetry; apply Nat.ltb_lt; exact Hj). rewrite andb_true_r.
  destruct (Nat.eqb_spec k j) as [->|Hne]; [rewrite nth_abs by exact Hj; exact CJ|].
  rewrite nth_abs by exact Hk. apply col_ents_eq. apply CO; assumption.
Qed.

Theorem abs_delcols m mk m' :
  WF m -> mat_delcols m mk = Ok m' -> WF m' /\ abs m' = keepb mk (abs m).
Proof.
  intros W H. destruct (mat_delcols_ok m mk m' W H) as (W' & _ & MC & _ & CO & _). split; [exact W'|].
  assert (Lm : length mk = mcols m).
  { unfold mat_delcols in H. destruct (Nat.eqb_spec (length mk) (mcols m)); [assumption|discriminate]. }
  assert (LK : length (keepb mk (abs m)) = mcols m') by (rewrite MC; apply keepb_length_filter; rewrite abs_length; exact Lm).
  apply (nth_ext _ _ [] []); [rewrite abs_length; symmetry; exact LK|].
  intros j Hj. rewrite abs_length in Hj. rewrite nth_abs by exact Hj.
  destruct (nth_keepb [] mk (abs m) j ltac:(rewrite abs_length; exact Lm) ltac:(rewrite LK; exact Hj)) as (A1 & _ & _). rewrite A1.
  destruct (CO j Hj) as (C1 & C2 & _). rewrite nth_abs by exact C2. apply col_ents_eq. exact C1.
Qed.

(* ds: the deleted rows; the marks are those of ILLlib_delrows *)
Theorem abs_delrows m ds m' :
  WF m -> NoDup ds -> mat_delrows m (marks (mrows m) ds) = Ok m' -> WF m' /\ abs m' = map (del_rows_ent ds) (abs m).
Proof.
  intros W ND H. destruct (mat_delrows_ok m _ m' W H) as (W' & MC & _ & _ & CS). split; [exact W'|].
  apply (nth_ext _ _ [] []); [rewrite map_length, !abs_length; exact MC|].
  intros j Hj. rewrite abs_length, MC in Hj. rewrite nth_abs by (rewrite MC; exact Hj).
  rewrite (nth_indep _ [] (del_rows_ent ds [])) by (rewrite map_length, abs_length; exact Hj). rewrite map_nth, nth_abs by exact Hj.
  unfold col_ents. rewrite CS by exact Hj. apply kept_of_ents; [exact ND|]. apply (col_slots_rows _ _ _ W Hj).
Qed.

(* and del_rows_ent is the reference semantics: Spec.del_ent from the highest deleted row down *)
Theorem del_rows_ent_spec ds e : NoDup ds -> del_rows_ent ds e = fold_left (fun e i => del_ent i e) (sort_desc ds) e.
Proof. intros ND. symmetry. apply fold_del_ent. exact ND. Qed.

Theorem keepb_marks_spec {A} (l : list A) ds : NoDup ds -> keepb (marks (length l) ds) l = restrict l ds.
Proof. intros ND. symmetry. apply restrict_keepb. exact ND. Qed.
