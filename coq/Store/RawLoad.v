(* The column store built by the readers: QSread_prob -> ILLread -> convert_rawlpdata_to_lpdata (qsopt_ex/rawlp.c) ->
   buildMatrix -> initStructmap -> ILLlp_add_logicals (qsopt_ex/presolve.c).  The readers do not go through
   matrix_addrow / matrix_addcol: they write matbeg / matcnt / matind / matval directly.

   Input of the model: for every column that survives whichColsAreUsed, the entries of its raw list raw->cols[i] in LIST
   order (ILLraw_add_col_coef prepends: the list is the reverse of the order in the file) restricted to the rows that
   survive whichRowsAreUsed (sense <> 'N'), with the new row numbers rowindex[.]; and for every row the coefficient of its
   logical column (+1 for L, E; -1 for G, R: ILLlp_add_logicals).

   buildMatrix: pass 1 counts for every column the distinct rows (nRowsUsed[ri] != i) - a second coefficient for the same
   (row, column) pair only raises the warning "Multiple coefficients for ... in a row"; matbeg[ci] = (non-zeros so far) +
   (empty columns so far): the layout is compact, an empty column owns one slot; matsize = nzcount + nempty + 1,
   matfree = 1, matcolsize = ncols.  Pass 2 writes the first coefficient of a (row, column) pair to the next slot of the
   column and ADDS every later one to it (coefSet[ri], EGlpNumAddTo); an empty column's slot gets the dummy index 1; the
   last slot gets -1; `k != matbeg + matcnt` is the internal error "problem with matrix" (Rej here; count_rows_merge: it
   cannot happen).
   ILLlp_add_logicals: matind / matval grow by nrows slots (marked -1), the logical of row i goes to slot
   (matsize - matfree) + i with matcnt 1, matcols / matcolsize / matsize += nrows, matfree stays; rowmap[i] = ncols + i;
   structmap (initStructmap) is the identity; nzcount = stored entries + nrows. *)
From Coq Require Import ZArith List Lia Bool Arith QArith.
From QSX Require Import Base.QSum Store.Spec Store.SpecInv Store.Matrix Store.MatrixInv Store.MatrixSafe Store.L2 Store.L2Refine Store.L2Safe.
Import ListNotations.
Local Open Scope nat_scope.

(* ---- the model ---------------------------------------------------------------------------------------------- *)

(* pass 1: the number of distinct rows of one raw column (seen = the rows marked nRowsUsed[ri] = i so far) *)
Fixpoint count_rows (seen : list nat) (c : list (nat * Q)) : nat :=
  match c with
  | [] => 0
  | e :: t => if memn (fst e) seen then count_rows seen t else S (count_rows (fst e :: seen) t)
  end.

(* pass 2: coefSet[r] = the slot of row r in the column written so far *)
Fixpoint add_coef (r : nat) (v : Q) (l : list (nat * Q)) : list (nat * Q) :=
  match l with
  | [] => [(r, v)]
  | (r', v') :: t => if r' =? r then (r', radd v' v) :: t else (r', v') :: add_coef r v t
  end.
Definition merge_col (c : list (nat * Q)) : list (nat * Q) := fold_left (fun acc e => add_coef (fst e) (snd e) acc) c [].

Definition raw_build (rcols : list (list (nat * Q))) (nrows : nat) : res mat :=
  if negb (forallb (fun c => forallb (fun e => fst e <? nrows) c) rcols) then Fault       (* nRowsUsed / coefSet indexed outside *)
  else if negb (forallb (fun c => length (merge_col c) =? count_rows [] c) rcols) then Rej  (* "problem with matrix" *)
  else Ok (compact (map (fun c => map ent_slot (merge_col c)) rcols) 1 nrows (length rcols)).

Definition logical_slots (coefs : list Q) : list slot := map (fun ic => (Z.of_nat (fst ic), snd ic)) (combine (seq 0 (length coefs)) coefs).

Definition add_logicals (m : mat) (coefs : list Q) : res mat :=
  let n := length coefs in
  if negb (n =? mrows m) then Rej
  else if n =? 0 then Ok m
  else if msize m <? mfree m then Fault
  else
    let a := msize m - mfree m in
    Ok {| slots := wr a (logical_slots coefs) (slots m ++ repeat dslot n);
          beg := beg m ++ seq a n; cnt := cnt m ++ repeat 1 n; mfree := mfree m; mrows := mrows m; colsize := colsize m + n |}.

Definition lib_load_raw (rcols : list (list (nat * Q))) (coefs : list Q) : res lstore :=
  let nc := length rcols in let nr := length coefs in
  if (nc =? 0) || (nr =? 0) then Rej          (* "There are no variables." / "There are no constraints." *)
  else bind (raw_build rcols nr) (fun A0 => bind (add_logicals A0 coefs) (fun A1 =>
       Ok {| lA := A1; smap := seq 0 nc; rmap := seq nc nr; nzc := lsum (cnt A0) + nr |})).

(* ---- pass 1 and pass 2 agree: the internal error of buildMatrix is unreachable ------------------------------------- *)

Lemma memn_In i l : memn i l = true <-> In i l.
Proof.
  induction l as [|k r IH]; simpl; [split; [discriminate|intros []]|].
  rewrite orb_true_iff, Nat.eqb_eq, IH. tauto.
Qed.

Lemma add_coef_length r v l : length (add_coef r v l) = if memn r (map fst l) then length l else S (length l).
Proof.
  induction l as [|[r' v'] t IH]; simpl; [reflexivity|]. destruct (Nat.eqb_spec r' r); simpl; [reflexivity|].
  rewrite IH. destruct (memn r (map fst t)); reflexivity.
Qed.

Lemma add_coef_rows r v l : forall x, In x (map fst (add_coef r v l)) <-> x = r \/ In x (map fst l).
Proof.
  induction l as [|[r' v'] t IH]; intros x; simpl; [intuition congruence|]. destruct (Nat.eqb_spec r' r); simpl.
  - subst. intuition congruence.
  - rewrite IH. intuition congruence.
Qed.

Lemma count_rows_ext c : forall s1 s2, (forall x, In x s1 <-> In x s2) -> count_rows s1 c = count_rows s2 c.
Proof.
  induction c as [|e t IH]; intros s1 s2 H; simpl; [reflexivity|].
  assert (M : memn (fst e) s1 = memn (fst e) s2).
  { destruct (memn (fst e) s1) eqn:A; destruct (memn (fst e) s2) eqn:B; try reflexivity.
    - apply memn_In in A. apply H in A. apply memn_In in A. congruence.
    - apply memn_In in B. apply H in B. apply memn_In in B. congruence. }
  rewrite M. destruct (memn (fst e) s2); [apply IH; exact H|]. f_equal. apply IH. intros x. simpl. specialize (H x). tauto.
Qed.

Lemma merge_fold_length c : forall acc,
  length (fold_left (fun acc e => add_coef (fst e) (snd e) acc) c acc) = length acc + count_rows (map fst acc) c.
Proof.
  induction c as [|e t IH]; intros acc; simpl; [lia|]. rewrite IH, add_coef_length.
  destruct (memn (fst e) (map fst acc)) eqn:M.
  - f_equal. apply count_rows_ext. intros x. rewrite add_coef_rows. apply memn_In in M. split; [intros [->|Hx]; assumption|intros Hx; right; exact Hx].
  - rewrite (count_rows_ext t (map fst (add_coef (fst e) (snd e) acc)) (fst e :: map fst acc)); [lia|].
    intros x. rewrite add_coef_rows. simpl. split; intros [H|H]; auto.
Qed.

Theorem count_rows_merge c : length (merge_col c) = count_rows [] c.
Proof. unfold merge_col. rewrite merge_fold_length. reflexivity. Qed.

Lemma merge_fold_rows c : forall acc x,
  In x (map fst (fold_left (fun acc e => add_coef (fst e) (snd e) acc) c acc)) <-> In x (map fst acc) \/ In x (map fst c).
Proof.
  induction c as [|e t IH]; intros acc x; simpl; [tauto|]. rewrite IH, add_coef_rows. split; intros H; decompose [or] H; auto.
Qed.

Lemma merge_col_rows c x : In x (map fst (merge_col c)) <-> In x (map fst c).
Proof. unfold merge_col. rewrite merge_fold_rows. simpl. tauto. Qed.

(* the rows of a merged column are distinct: one stored coefficient per (row, column) pair *)
Lemma add_coef_nodup r v l : NoDup (map fst l) -> NoDup (map fst (add_coef r v l)).
Proof.
  induction l as [|[r' v'] t IH]; intros H; simpl; [constructor; [intros []|constructor]|].
  inversion H as [|? ? Hn Ht]; subst. destruct (Nat.eqb_spec r' r); simpl; [constructor; assumption|].
  constructor; [|apply IH; exact Ht]. intros C. apply add_coef_rows in C. destruct C as [C|C]; [congruence|contradiction].
Qed.

Theorem merge_col_nodup c : NoDup (map fst (merge_col c)).
Proof.
  unfold merge_col. assert (G : forall acc, NoDup (map fst acc) -> NoDup (map fst (fold_left (fun acc e => add_coef (fst e) (snd e) acc) c acc))).
  { induction c as [|e t IH]; intros acc H; simpl; [exact H|]. apply IH. apply add_coef_nodup. exact H. }
  apply G. constructor.
Qed.

(* a column without repeated rows is stored as it is *)
Lemma add_coef_fresh r v l : ~ In r (map fst l) -> add_coef r v l = l ++ [(r, v)].
Proof.
  induction l as [|[r' v'] t IH]; intros H; simpl; [reflexivity|]. simpl in H. destruct (Nat.eqb_spec r' r); [exfalso; apply H; left; assumption|].
  rewrite IH by tauto. reflexivity.
Qed.

Theorem merge_col_id c : NoDup (map fst c) -> merge_col c = c.
Proof.
  unfold merge_col. assert (G : forall acc, NoDup (map fst (acc ++ c)) -> fold_left (fun acc e => add_coef (fst e) (snd e) acc) c acc = acc ++ c).
  { induction c as [|e t IH]; intros acc H; simpl; [rewrite app_nil_r; reflexivity|].
    destruct e as [r v]. simpl fst. simpl snd. rewrite add_coef_fresh.
    - rewrite IH; [rewrite <- app_assoc; reflexivity|]. rewrite <- app_assoc. exact H.
    - rewrite map_app in H. simpl in H. apply NoDup_remove_2 in H. intros C. apply H. apply in_or_app. left. exact C. }
  intros H. apply (G []). exact H.
Qed.

(* ---- the result is the compact layout of the merged columns followed by the logical columns -------------------------- *)

Definition raw_cols (rcols : list (list (nat * Q))) : list (list slot) := map (fun c => map ent_slot (merge_col c)) rcols.
Definition log_cols (coefs : list Q) : list (list slot) := map (fun s => [s]) (logical_slots coefs).

Definition rows_in (nrows : nat) (rcols : list (list (nat * Q))) : Prop := Forall (Forall (fun e => fst e < nrows)) rcols.

Lemma rows_in_check nrows rcols : rows_in nrows rcols -> forallb (fun c => forallb (fun e => fst e <? nrows) c) rcols = true.
Proof.
  intros H. apply forallb_forall. intros c Hc. apply forallb_forall. intros e He. apply Nat.ltb_lt.
  unfold rows_in in H. rewrite Forall_forall in H. specialize (H c Hc). rewrite Forall_forall in H. apply H. exact He.
Qed.

Theorem raw_build_spec rcols nrows : rows_in nrows rcols -> raw_build rcols nrows = Ok (compact (raw_cols rcols) 1 nrows (length rcols)).
Proof.
  intros H. unfold raw_build. rewrite (rows_in_check _ _ H). simpl.
  assert (E : forallb (fun c => length (merge_col c) =? count_rows [] c) rcols = true).
  { apply forallb_forall. intros c _. apply Nat.eqb_eq. apply count_rows_merge. }
  rewrite E. reflexivity.
Qed.

Lemma offsets_app l1 : forall acc l2, offsets acc (l1 ++ l2) = offsets acc l1 ++ offsets (acc + lsum l1) l2.
Proof.
  induction l1 as [|n r IH]; intros acc l2; simpl; [rewrite Nat.add_0_r; reflexivity|]. rewrite IH. f_equal. f_equal. f_equal. lia.
Qed.

Lemma offsets_ones n : forall acc, offsets acc (repeat 1 n) = seq acc n.
Proof. induction n as [|n IH]; intros acc; simpl; [reflexivity|]. rewrite IH. f_equal. f_equal. lia. Qed.

Lemma logical_slots_length coefs : length (logical_slots coefs) = length coefs.
Proof. unfold logical_slots. rewrite map_length, combine_length, seq_length. lia. Qed.

Lemma concat_singletons {A} (l : list A) : concat (map (fun s => [s]) l) = l.
Proof. induction l as [|a l IH]; simpl; [reflexivity|]. rewrite IH. reflexivity. Qed.

Lemma map_pad_singletons (l : list slot) : map pad (map (fun s => [s]) l) = map (fun s => [s]) l.
Proof. rewrite map_map. reflexivity. Qed.

Lemma firstn_app_exact {A} (l1 l2 : list A) : firstn (length l1) (l1 ++ l2) = l1.
Proof. rewrite firstn_app, firstn_all, Nat.sub_diag, firstn_O, app_nil_r. reflexivity. Qed.
Lemma skipn_app_exact {A} k (l1 l2 : list A) : skipn (length l1 + k) (l1 ++ l2) = skipn k l2.
Proof. rewrite skipn_app, skipn_all2 by lia. simpl. f_equal. lia. Qed.
Lemma skipn_repeat {A} (x : A) k j : skipn k (repeat x (k + j)) = repeat x j.
Proof. induction k as [|k IH]; simpl; [reflexivity|exact IH]. Qed.

Theorem add_logicals_compact cols coefs csz : coefs <> [] ->
  add_logicals (compact cols 1 (length coefs) csz) coefs = Ok (compact (cols ++ log_cols coefs) 1 (length coefs) (csz + length coefs)).
Proof.
  intros Hne. unfold add_logicals. set (n := length coefs). cbn [mrows compact]. rewrite Nat.eqb_refl. simpl negb. cbv iota.
  assert (Hn : n <> 0) by (unfold n; destruct coefs; [congruence|simpl; lia]).
  destruct (Nat.eqb_spec n 0); [contradiction|].
  set (body := concat (map pad cols)).
  assert (MS : msize (compact cols 1 n csz) = length body + 1) by (unfold msize, compact; simpl; rewrite app_length; reflexivity).
  cbn [mfree compact]. rewrite MS. destruct (Nat.ltb_spec (length body + 1) 1); [lia|].
  replace (length body + 1 - 1) with (length body) by lia.
  unfold compact. cbn [slots beg cnt colsize mrows mfree]. f_equal. f_equal.
  - (* slots *)
    fold body. rewrite map_app, concat_app. unfold log_cols. rewrite map_pad_singletons, concat_singletons.
    unfold wr. rewrite logical_slots_length. fold n. simpl repeat. fold body.
    rewrite <- !app_assoc. rewrite firstn_app_exact, skipn_app_exact. f_equal. f_equal.
    change ([dslot] ++ repeat dslot n) with (repeat dslot (S n)). replace (S n) with (n + 1) by lia. exact (skipn_repeat dslot n 1).
  - (* matbeg *)
    rewrite map_app, map_app, offsets_app. f_equal. unfold log_cols. rewrite map_pad_singletons, !map_map. simpl length.
    assert (R1 : map (fun _ : slot => 1) (logical_slots coefs) = repeat 1 n).
    { unfold n. rewrite <- logical_slots_length. induction (logical_slots coefs); simpl; [reflexivity|]. f_equal. assumption. }
    rewrite R1, offsets_ones. f_equal. simpl. unfold body. rewrite length_concat, map_map. reflexivity.
  - (* matcnt *)
    rewrite map_app. f_equal. unfold log_cols. rewrite map_map. simpl length.
    unfold n. rewrite <- logical_slots_length. induction (logical_slots coefs); simpl; [reflexivity|]. f_equal. assumption.
Qed.

Definition loaded_mat (rcols : list (list (nat * Q))) (coefs : list Q) : mat :=
  compact (raw_cols rcols ++ log_cols coefs) 1 (length coefs) (length rcols + length coefs).

Theorem lib_load_raw_spec rcols coefs : rcols <> [] -> coefs <> [] -> rows_in (length coefs) rcols ->
  lib_load_raw rcols coefs = Ok {| lA := loaded_mat rcols coefs; smap := seq 0 (length rcols); rmap := seq (length rcols) (length coefs);
                                   nzc := lsum (map (@length _) (raw_cols rcols)) + length coefs |}.
Proof.
  intros H1 H2 H. unfold lib_load_raw.
  destruct (Nat.eqb_spec (length rcols) 0) as [E|_]; [destruct rcols; [congruence|discriminate]|].
  destruct (Nat.eqb_spec (length coefs) 0) as [E|_]; [destruct coefs; [congruence|discriminate]|]. simpl orb. cbv iota.
  rewrite (raw_build_spec _ _ H). unfold bind. rewrite (add_logicals_compact _ _ _ H2). reflexivity.
Qed.

(* ---- the loaded store satisfies the invariants and represents the merged columns ------------------------------------- *)

Lemma raw_cols_length rcols : length (raw_cols rcols) = length rcols.
Proof. unfold raw_cols. apply map_length. Qed.
Lemma log_cols_length coefs : length (log_cols coefs) = length coefs.
Proof. unfold log_cols. rewrite map_length. apply logical_slots_length. Qed.

Lemma nth_map_default {A B} (f : A -> B) l j (d : B) (a : A) : j < length l -> nth j (map f l) d = f (nth j l a).
Proof. intros H. rewrite (nth_indep _ d (f a)) by (rewrite map_length; exact H). apply map_nth. Qed.

Lemma nth_logical_slots coefs i : i < length coefs -> nth i (logical_slots coefs) dslot = (Z.of_nat i, nth i coefs 0%Q).
Proof.
  intros H. unfold logical_slots. set (f := fun ic : nat * Q => (Z.of_nat (fst ic), snd ic)).
  rewrite (nth_indep _ dslot (f (0, 0%Q))) by (rewrite map_length, combine_length, seq_length; lia).
  rewrite (map_nth f), combine_nth by (rewrite seq_length; reflexivity). rewrite seq_nth by exact H. reflexivity.
Qed.

Lemma loaded_cols_rows rcols coefs : rows_in (length coefs) rcols ->
  Forall (Forall (fun s : slot => (0 <= fst s < Z.of_nat (length coefs))%Z)) (raw_cols rcols ++ log_cols coefs).
Proof.
  intros H. apply Forall_app. split.
  - apply Forall_forall. intros cs Hcs. unfold raw_cols in Hcs. apply in_map_iff in Hcs. destruct Hcs as (c & <- & Hc).
    apply Forall_forall. intros s Hs. apply in_map_iff in Hs. destruct Hs as (e & <- & He). simpl.
    assert (R : In (fst e) (map fst c)) by (apply merge_col_rows; apply in_map; exact He).
    apply in_map_iff in R. destruct R as (e0 & Ee & He0). unfold rows_in in H. rewrite Forall_forall in H. specialize (H c Hc).
    rewrite Forall_forall in H. specialize (H e0 He0). lia.
  - apply Forall_forall. intros cs Hcs. unfold log_cols in Hcs. apply in_map_iff in Hcs. destruct Hcs as (s & <- & Hs).
    constructor; [|constructor]. destruct (In_nth _ _ dslot Hs) as (i & Hi & <-). rewrite logical_slots_length in Hi.
    rewrite nth_logical_slots by exact Hi. simpl. lia.
Qed.

Theorem loaded_mat_ok rcols coefs : rows_in (length coefs) rcols ->
  let m := loaded_mat rcols coefs in
  WF m /\ mcols m = length rcols + length coefs /\ mrows m = length coefs /\ mfree m = 1 /\
  (forall j, j < length rcols -> col_ents m j = merge_col (nth j rcols [])) /\
  (forall i, i < length coefs -> col_ents m (length rcols + i) = [(i, nth i coefs 0%Q)]).
Proof.
  intros H m. unfold m, loaded_mat.
  destruct (compact_ok (length coefs) (raw_cols rcols ++ log_cols coefs) 1 (length coefs) (length rcols + length coefs)) as (W & MC & CS & _).
  - rewrite app_length, raw_cols_length, log_cols_length. lia.
  - apply loaded_cols_rows. exact H.
  - rewrite app_length, raw_cols_length, log_cols_length in MC, CS.
    split; [exact W|]. split; [exact MC|]. split; [reflexivity|]. split; [reflexivity|]. split.
    + intros j Hj. unfold col_ents. rewrite CS by lia. rewrite app_nth1 by (rewrite raw_cols_length; exact Hj). unfold raw_cols.
      rewrite (nth_map_default _ _ _ _ []) by exact Hj. rewrite map_map. rewrite (map_ext _ (fun e => e) slot_ent_ent_slot). apply map_id.
    + intros i Hi. unfold col_ents. rewrite CS by lia. rewrite app_nth2 by (rewrite raw_cols_length; lia). rewrite raw_cols_length.
      replace (length rcols + i - length rcols) with i by lia. unfold log_cols.
      rewrite (nth_map_default _ _ _ _ dslot) by (rewrite logical_slots_length; exact Hi). rewrite nth_logical_slots by exact Hi. simpl. unfold slot_ent. simpl. rewrite Nat2Z.id. reflexivity.
Qed.

Lemma seq_disjoint a n b k x : In x (seq a n) -> In x (seq b k) -> a + n <= b -> False.
Proof. intros H1 H2 L. apply in_seq in H1, H2. lia. Qed.

Theorem lib_load_raw_ok rcols coefs s : rows_in (length coefs) rcols -> lib_load_raw rcols coefs = Ok s ->
  LWF s /\ LOG s /\ ents_of s = map merge_col rcols /\ length (smap s) = length rcols /\ length (rmap s) = length coefs /\
  nzc s = lsum (cnt (lA s)).
Proof.
  intros H E.
  assert (H1 : rcols <> []) by (intros ->; unfold lib_load_raw in E; simpl in E; discriminate).
  assert (H2 : coefs <> []) by (intros ->; unfold lib_load_raw in E; simpl in E; rewrite orb_true_r in E; discriminate).
  rewrite (lib_load_raw_spec _ _ H1 H2 H) in E. inversion E; subst s; clear E.
  destruct (loaded_mat_ok rcols coefs H) as (W & MC & MR & MF & CE & CL).
  split; [|split; [|split; [|split; [|split]]]]; cbn [lA smap rmap nzc].
  - constructor; cbn [lA smap rmap].
    + exact W.
    + apply seq_NoDup.
    + apply seq_NoDup.
    + intros x Hx Hy. apply (seq_disjoint _ _ _ _ _ Hx Hy). lia.
    + apply Forall_forall. intros x Hx. apply in_seq in Hx. rewrite MC. lia.
    + apply Forall_forall. intros x Hx. apply in_seq in Hx. rewrite MC. lia.
    + rewrite seq_length. symmetry. exact MR.
  - intros i Hi. cbn [lA rmap] in *. rewrite seq_length in Hi. rewrite seq_nth by exact Hi. exists (nth i coefs 0%Q). apply CL. exact Hi.
  - unfold ents_of. cbn [lA smap]. apply (nth_ext _ _ [] []); [rewrite !map_length, seq_length; reflexivity|].
    intros j Hj. rewrite map_length, seq_length in Hj.
    rewrite (nth_map_default _ _ _ _ 0) by (rewrite seq_length; exact Hj). rewrite seq_nth by exact Hj. simpl. rewrite CE by exact Hj.
    rewrite (nth_map_default _ _ _ _ []) by exact Hj. reflexivity.
  - apply seq_length.
  - apply seq_length.
  - unfold loaded_mat, compact. cbn [cnt]. rewrite map_app, lsum_app. f_equal. unfold log_cols. rewrite map_map. simpl length.
    rewrite <- logical_slots_length. induction (logical_slots coefs); simpl; [reflexivity|]. f_equal. assumption.
Qed.

Theorem lib_load_raw_safe rcols coefs : rcols <> [] -> coefs <> [] -> rows_in (length coefs) rcols -> exists s, lib_load_raw rcols coefs = Ok s.
Proof. intros H1 H2 H. rewrite (lib_load_raw_spec _ _ H1 H2 H). eexists; reflexivity. Qed.

(* ---- the reference problem: QSload_prob-style construction from the merged columns ------------------------------------- *)

Lemma add_cols_ents l : forall p p', add_cols p l = Some p' ->
  map sc_ent (p_cols p') = map sc_ent (p_cols p) ++ map (fun c : colspec => nat_ents (snd c)) l /\ nrow p' = nrow p.
Proof.
  induction l as [|[[[[obj lo] up] nm] ent] r IH]; intros p p' H; simpl in H.
  - inversion H; subst. simpl. rewrite app_nil_r. split; reflexivity.
  - destruct (add_col p obj lo up nm ent) as [p1|] eqn:A; [|discriminate]. destruct (IH p1 p' H) as (E & N). unfold add_col in A.
    destruct (pick_name _ _ _); [|discriminate]. destruct (conv_ent (nrow p) ent) as [e|] eqn:C; [|discriminate]. inversion A; subst p1. clear A.
    simpl in E, N. rewrite map_app in E. simpl in E. rewrite <- app_assoc in E. simpl in E.
    rewrite (conv_ent_nat _ _ _ C) in E. split; [exact E|exact N].
Qed.

Lemma add_empty_rows_cols l : forall p p', p_cols p = [] -> Forall (fun r : rowspec => snd r = []) l -> add_rows p l = Some p' ->
  p_cols p' = [] /\ nrow p' = nrow p + length l.
Proof.
  induction l as [|[[[[rhs sn] rng] nm] ent] r IH]; intros p p' Hc He H; simpl in H.
  - inversion H; subst. split; [exact Hc|simpl; lia].
  - inversion He as [|? ? E1 E2]; subst. simpl in E1. subst ent.
    destruct (add_row p rhs sn rng nm []) as [p1|] eqn:A; [|discriminate]. unfold add_row in A.
    destruct (sense_of_ascii sn); [|discriminate]. destruct (pick_name _ _ _); [|discriminate]. simpl in A.
    assert (C1 : p_cols p1 = []) by (inversion A; subst p1; simpl; rewrite Hc; reflexivity).
    assert (N1 : nrow p1 = S (nrow p)) by (inversion A; subst p1; unfold nrow; simpl; rewrite app_length; simpl; lia).
    destruct (IH p1 p' C1 E2 H) as (C & N). split; [exact C|]. rewrite N, N1. simpl. lia.
Qed.

Theorem load_prob_ents M mx cols rows p : load_prob M mx cols rows = Some p ->
  map sc_ent (p_cols p) = map (fun c : colspec => nat_ents (snd c)) cols /\ nrow p = length rows.
Proof.
  unfold load_prob. intros H.
  match type of H with match ?x with _ => _ end = _ => destruct x as [p1|] eqn:A end; [|discriminate H].
  assert (F : Forall (fun r : rowspec => snd r = []) (map (fun r : load_rowspec => (snd r, snd (fst r), @None Q, fst (fst r), @nil (Z * Q))) rows)).
  { apply Forall_forall. intros r Hr. apply in_map_iff in Hr. destruct Hr as (x & <- & _). reflexivity. }
  destruct (add_empty_rows_cols _ (empty_prob M mx) p1 eq_refl F A) as (C & N).
  destruct (add_cols_ents _ _ _ H) as (E & N2). rewrite C in E. simpl in E. split; [exact E|]. rewrite N2, N, map_length. reflexivity.
Qed.

(* The store built by the reader is a good representation (refines + logical columns are singletons) of the reference
   problem whose columns carry the merged entries and whose rows have the senses the logical coefficients come from:
   the abstraction of the arrays is that problem, the invariants hold, the count of stored entries is nzcount. *)
Theorem raw_load_good p rcols coefs :
  map sc_ent (p_cols p) = map merge_col rcols -> nrow p = length coefs -> rcols <> [] -> coefs <> [] -> rows_in (length coefs) rcols ->
  exists s, lib_load_raw rcols coefs = Ok s /\ good s p /\ nzc s = lsum (cnt (lA s)).
Proof.
  intros E N H1 H2 H. destruct (lib_load_raw_safe _ _ H1 H2 H) as (s & S). exists s. split; [exact S|].
  destruct (lib_load_raw_ok _ _ _ H S) as (L & G & EN & _ & LR & NZ). split; [|exact NZ]. split; [|exact G].
  split; [exact L|]. split; [rewrite EN; symmetry; exact E|rewrite LR; symmetry; exact N].
Qed.

Theorem raw_load_refines_load_prob M mx cols rows p rcols :
  load_prob M mx cols rows = Some p -> map (fun c : colspec => nat_ents (snd c)) cols = map merge_col rcols ->
  cols <> [] -> rows <> [] -> rows_in (length rows) rcols ->
  exists s, lib_load_raw rcols (map (fun r : load_rowspec => coef_of_sense (snd (fst r))) rows) = Ok s /\ good s p /\ nzc s = lsum (cnt (lA s)).
Proof.
  intros P E H1 H2 H. destruct (load_prob_ents _ _ _ _ _ P) as (EC & NR). apply raw_load_good.
  - rewrite EC. exact E.
  - rewrite map_length. exact NR.
  - intros ->. apply (f_equal (@length _)) in E. rewrite !map_length in E. destruct cols; [congruence|discriminate].
  - destruct rows; [congruence|discriminate].
  - rewrite map_length. exact H.
Qed.

Definition lib_load_raw_c := lib_load_raw.
Definition merge_col_c := merge_col.
