(* The calls of the public interface on the concrete store (Store.Matrix): which ILLlib_* / matrix_* functions a
   successful call of the reference model (Store.Spec.pstep) runs, as qsopt.c and lib.c have it.
   l2_step p s o is meant for calls that the reference step accepts on p (pstep M p o = (_, ROk _)). *)
From Coq Require Import String Ascii ZArith List QArith.
From QSX Require Import Store.Spec Store.Api Store.Matrix.
Import ListNotations.

Definition coef_of_sense (a : ascii) : Q := if (Ascii.eqb a "G" || Ascii.eqb a "R")%bool then (-1)%Q else 1%Q.
Definition nat_ents (e : list (Z * Q)) : list (nat * Q) := map (fun kv => (Z.to_nat (fst kv), snd kv)) e.

Section Growth.
Variables extra_cols extra_mat : nat.
Variable fixed : bool.   (* which matrix_addrow (Store.Matrix): as found / repaired *)

Fixpoint l2_addrows (s : lstore) (l : list rowspec) : res lstore :=
  match l with
  | [] => Ok s
  | (_, sn, _, _, ent) :: r => bind (lib_addrow extra_cols extra_mat fixed s (nat_ents ent) (coef_of_sense sn)) (fun s' => l2_addrows s' r)
  end.
Fixpoint l2_addcols (s : lstore) (l : list colspec) : res lstore :=
  match l with
  | [] => Ok s
  | (_, _, _, _, ent) :: r => bind (lib_addcol extra_cols extra_mat s (nat_ents ent)) (fun s' => l2_addcols s' r)
  end.
Fixpoint l2_chgsenses (s : lstore) (l : list (Z * ascii)) : res lstore :=
  match l with
  | [] => Ok s
  | (i, a) :: r => bind (lib_chgsense s (Z.to_nat i) (coef_of_sense a)) (fun s' => l2_chgsenses s' r)
  end.

Definition l2_step (p : prob) (s : lstore) (o : pop) : res lstore :=
  match o with
  | NewCol _ _ _ _ => lib_addcol extra_cols extra_mat s []
  | AddCol _ _ _ _ ent => lib_addcol extra_cols extra_mat s (nat_ents ent)
  | AddCols l => l2_addcols s l
  | NewRow _ sn _ => lib_addrow extra_cols extra_mat fixed s [] (coef_of_sense sn)
  | AddRow _ sn _ _ ent => lib_addrow extra_cols extra_mat fixed s (nat_ents ent) (coef_of_sense sn)
  | AddRows l => l2_addrows s l
  | DelRows _ | DelSetRows _ | DelNRows _ => match del_rows_of p o with [] => Ok s | ds => lib_delrows s ds end
  | DelCols _ | DelSetCols _ | DelNCols _ => match del_cols_of p o with [] => Ok s | ds => lib_delcols s ds end
  | ChgCoef i j v => lib_chgcoef extra_mat s (Z.to_nat i) (Z.to_nat j) v
  | ChgSenses l => l2_chgsenses s l
  | _ => Ok s
  end.

(* QSload_prob: ILLlib_newrows, then ILLlib_addcols *)
Definition l2_load (cols : list colspec) (rows : list load_rowspec) : res lstore :=
  bind (l2_addrows empty_lstore (map (fun r => (snd r, snd (fst r), None, fst (fst r), [])) rows)) (fun s => l2_addcols s cols).

(* QScopy_prob: ILLlib_newrows with the senses of the source, then ILLlib_addcol for every structural column with its stored entries *)
Definition sense_ascii (s : sense) : ascii := match s with SL => "L" | SG => "G" | SE => "E" | SR => "R" end%char.
Definition l2_copy (p : prob) : res lstore :=
  l2_load (map (fun c => (0%Q, 0%Q, 0%Q, None, map (fun e => (Z.of_nat (fst e), snd e)) (sc_ent c))) (p_cols p))
          (map (fun r => (None, sense_ascii (sr_sense r), 0%Q)) (p_rows p)).
End Growth.

Definition l2_step_c (fixed : bool) := l2_step 100 1000 fixed.
Definition l2_load_c (fixed : bool) := l2_load 100 1000 fixed.
Definition l2_copy_c (fixed : bool) := l2_copy 100 1000 fixed.
