(* Deleting a constraint whose dual multiplier is zero keeps an optimality certificate.

   ILLlib_delrows keeps the cached solution when every deleted row has pi = 0 (and is basic in the
   stored basis); it repacks pi and slack.  This file proves that the repacked cache is again an
   exact optimality certificate (check_kkt on to_internal) of the reduced LP:

     kkt_idx              the eight conjuncts of check_kkt as index-wise statements
     check_kkt_idx / idx_check_kkt    check_kkt = true  <->  kkt_idx
     kkt_del_row_ulp      user-LP level: U' = U without row i, pi_i == 0: certificate transfers
     to_ulp_del_row_one   to_ulp (del_row_one p i) is to_ulp p without row i
     cert_del_row_one     one row of the reference model
     cert_del_rows_n      a set of distinct valid rows (del_rows_n / restrict), all with pi == 0

   Primal feasibility: the remaining rows keep their activity (the deleted logical has coefficient 0
   in every other row).  Dual feasibility and complementary slackness: the reduced costs
   c_j - sum_k a_kj pi_k lose only the term with pi_i = 0, so they are unchanged (this is also why
   the stored rc needs no repacking).  Objective: unchanged; dual objective: loses pi_i * rhs_i = 0
   and the dual term of the deleted logical, whose reduced cost is -(+-1) * pi_i = 0.
   The stored basis (basis_ok in Api.eff_delrows) plays no role in the proof. *)
From Coq Require Import String Ascii ZArith Sorted.
From QSX Require Import Store.Spec Store.SpecInv.
From QSX Require Import LP.Cert LP.CertSound LP.UserSound.
Local Open Scope Q_scope.

(* ---- removing one index ---------------------------------------------------------------------- *)

Definition skip (i k : nat) : nat := if Nat.ltb k i then k else S k.

Lemma skip_neq i k : skip i k <> i.
Proof. unfold skip. destruct (Nat.ltb_spec k i); lia. Qed.

Lemma skip_inj i k l : skip i k = skip i l -> k = l.
Proof. unfold skip. destruct (Nat.ltb_spec k i); destruct (Nat.ltb_spec l i); lia. Qed.

Lemma skip_lt i k m : (i < S m)%nat -> (k < m)%nat -> (skip i k < S m)%nat.
Proof. unfold skip. destruct (Nat.ltb_spec k i); lia. Qed.

Lemma nth_remove_nth {A} (d : A) i : forall (l : list A) k, nth k (remove_nth i l) d = nth (skip i k) l d.
Proof.
  induction i as [|i IH]; intros [|a l] k.
  - unfold skip. simpl. destruct k; reflexivity.
  - reflexivity.
  - unfold skip. simpl. destruct k; [reflexivity|]. destruct (Nat.ltb (S k) (S i)); reflexivity.
  - destruct k as [|k]; [reflexivity|]. simpl remove_nth. cbn [nth]. rewrite IH. unfold skip.
    change (Nat.ltb (S k) (S i)) with (Nat.ltb k i). destruct (Nat.ltb k i); reflexivity.
Qed.

Lemma sumn_skip m i g : (i < S m)%nat -> sumn (S m) g == sumn m (fun k => g (skip i k)) + g i.
Proof.
  induction m as [|m IH]; intros Hi.
  - assert (i = 0)%nat by lia. subst. cbn [sumn]. ring.
  - change (sumn (S (S m)) g) with (sumn (S m) g + g (S m)).
    destruct (Nat.eq_dec i (S m)) as [->|Hne].
    + assert (E : sumn (S m) (fun k => g (skip (S m) k)) == sumn (S m) g).
      { apply sumn_ext. intros k Hk. unfold skip. replace (Nat.ltb k (S m)) with true by (symmetry; apply Nat.ltb_lt; exact Hk). reflexivity. }
      rewrite E. reflexivity.
    + rewrite IH by lia. cbn [sumn].
      assert (E : skip i m = S m) by (unfold skip; replace (Nat.ltb m i) with false by (symmetry; apply Nat.ltb_ge; lia); reflexivity).
      rewrite E. ring.
Qed.

Corollary sumn_skip0 m i g : (i < S m)%nat -> g i == 0 -> sumn m (fun k => g (skip i k)) == sumn (S m) g.
Proof. intros Hi Z. rewrite (sumn_skip m i g Hi), Z. ring. Qed.

(* ---- check_kkt, index-wise ------------------------------------------------------------------- *)

Lemma Qltb_comp a a' b b' : a == a' -> b == b' -> Qltb a b = Qltb a' b'.
Proof. intros E F. unfold Qltb. f_equal. apply Qleb_comp; assumption. Qed.

Lemma dual_ok_comp I mx c zj d d' : d == d' -> dual_ok I mx c zj d = dual_ok I mx c zj d'.
Proof.
  intros E. unfold dual_ok.
  rewrite (Qltb_comp d d' 0 0 E (Qeq_refl 0)), (Qltb_comp 0 0 d d' (Qeq_refl 0) E). reflexivity.
Qed.

Lemma dual_term_comp mx c d d' : d == d' -> dual_term mx c d == dual_term mx c d'.
Proof.
  intros E. unfold dual_term.
  rewrite (Qltb_comp d d' 0 0 E (Qeq_refl 0)), (Qltb_comp 0 0 d d' (Qeq_refl 0) E).
  destruct mx; repeat match goal with |- context [if ?b then _ else _] => destruct b end; rarith; try rewrite E; reflexivity.
Qed.

(* dual_ok / bound_ok / dual_term read only the bounds of the column *)
Lemma dual_ok_bounds I mx c c' zj d : ic_lo c = ic_lo c' -> ic_up c = ic_up c' -> dual_ok I mx c zj d = dual_ok I mx c' zj d.
Proof. intros A B. unfold dual_ok. rewrite A, B. reflexivity. Qed.
Lemma bound_ok_bounds I c c' zj : ic_lo c = ic_lo c' -> ic_up c = ic_up c' -> bound_ok I c zj = bound_ok I c' zj.
Proof. intros A B. unfold bound_ok. rewrite A, B. reflexivity. Qed.
Lemma dual_term_bounds mx c c' d : ic_lo c = ic_lo c' -> ic_up c = ic_up c' -> dual_term mx c d = dual_term mx c' d.
Proof. intros A B. unfold dual_term. rewrite A, B. reflexivity. Qed.

Definition kkt_idx (I : infp) (P : ilp) (z y : list Q) (v : Q) : Prop :=
  wf_ilp P = true /\ length z = ncols P /\ length y = nrows P /\
  (forall i, (i < nrows P)%nat -> rowact P (qnth z) i == rhs P i) /\
  (forall j, (j < ncols P)%nat -> bound_ok I (col P j) (qnth z j) = true) /\
  (forall j, (j < ncols P)%nat -> dual_ok I (i_max P) (col P j) (qnth z j) (dzf P (qnth y) j) = true) /\
  objval P (qnth z) == v /\
  sumn (nrows P) (fun i => qnth y i * rhs P i) +
  sumn (ncols P) (fun j => dual_term (i_max P) (col P j) (dzf P (qnth y) j)) == v.

Lemma dual_obj_sumn P y : wf_ilp P = true -> length y = nrows P ->
  radd (dot_l y (i_rhs P)) (qsum (map (fun c => dual_term (i_max P) c (dz_l y c)) (i_cols P))) ==
  sumn (nrows P) (fun i => qnth y i * rhs P i) +
  sumn (ncols P) (fun j => dual_term (i_max P) (col P j) (dzf P (qnth y) j)).
Proof.
  intros W Ly. rewrite radd_ok. rewrite (dot_l_sumn y (i_rhs P) Ly). rewrite (qsum_map_sumn dcol). rewrite Ly.
  apply Qplus_comp.
  - apply sumn_ext. intros; reflexivity.
  - fold (ncols P). apply sumn_ext. intros j _. fold (col P j). apply dual_term_comp. apply dz_l_ok; assumption.
Qed.

Lemma check_kkt_idx I P z y v : check_kkt I P z y v = true -> kkt_idx I P z y v.
Proof.
  intros CK. destruct (kkt_parts I P z y v CK) as (W & Lz & Ly & Hrow & Hb & Hd & Hv & Hdv).
  repeat split; try assumption.
  - intros j Hj. exact (forallb2_nth _ _ _ dcol 0 j Hb Hj).
  - intros j Hj. pose proof (forallb2_nth _ _ _ dcol 0 j Hd Hj) as E. cbv beta in E.
    fold (col P j) in E. fold (qnth z j) in E. rewrite <- E. apply dual_ok_comp. symmetry. apply dz_l_ok; assumption.
  - rewrite <- (dual_obj_sumn P y W Ly). exact Hdv.
Qed.

Lemma forallb2_of_nth {A B} (f : A -> B -> bool) da db : forall l m,
  length l = length m -> (forall j, (j < length l)%nat -> f (nth j l da) (nth j m db) = true) -> forallb2 f l m = true.
Proof.
  induction l as [|a l IH]; intros [|b m] L H; simpl in L; try discriminate; [reflexivity|].
  simpl. apply andb_true_iff. split.
  - apply (H 0%nat). simpl; lia.
  - apply IH; [lia|]. intros j Hj. apply (H (S j)). simpl; lia.
Qed.

Lemma idx_check_kkt I P z y v : kkt_idx I P z y v -> check_kkt I P z y v = true.
Proof.
  intros (W & Lz & Ly & Hrow & Hb & Hd & Hv & Hdv). unfold check_kkt.
  repeat (apply andb_true_iff; split).
  - exact W.
  - apply Nat.eqb_eq; exact Lz.
  - apply Nat.eqb_eq; exact Ly.
  - apply forallb_forall. intros i Hi. apply in_seq in Hi. apply Qeq_bool_iff.
    rewrite (rowact_l_ok P z i Lz). apply Hrow. lia.
  - apply (forallb2_of_nth _ dcol 0); [symmetry; exact Lz|]. intros j Hj. apply Hb. exact Hj.
  - apply (forallb2_of_nth _ dcol 0); [symmetry; exact Lz|]. intros j Hj.
    fold (col P j). fold (qnth z j). rewrite <- (Hd j Hj). apply dual_ok_comp. apply dz_l_ok; assumption.
  - apply Qeq_bool_iff. rewrite (objval_l_ok P z Lz). exact Hv.
  - apply Qeq_bool_iff. rewrite (dual_obj_sumn P y W Ly). exact Hdv.
Qed.

(* ---- deleting row i of a user LP -------------------------------------------------------------- *)

Section DelRowU.
  Variable M : Q.
  Variables U U' : ulp.
  Variable i : nat.
  Variable m' : nat.
  Hypothesis Hm : um U = S m'.
  Hypothesis Hi : (i < S m')%nat.
  Hypothesis Hmax : u_max U' = u_max U.
  Hypothesis Hcols : u_cols U' = u_cols U.
  Hypothesis Hrows : u_rows U' = remove_nth i (u_rows U).

  Let P := to_internal M U.
  Let P' := to_internal M U'.
  Let n := un U.
  Let I := inf_sentinel M.

  (* column j of the reduced internal LP is column cj j of the original one *)
  Definition cj (j : nat) : nat := if Nat.ltb j n then j else (n + skip i (j - n))%nat.

  Lemma un' : un U' = n.
  Proof. unfold un, n. rewrite Hcols. reflexivity. Qed.
  Lemma um' : um U' = m'.
  Proof.
    unfold um in *. rewrite Hrows, remove_nth_length, Hm.
    replace (Nat.ltb i (S m')) with true by (symmetry; apply Nat.ltb_lt; exact Hi). reflexivity.
  Qed.
  Lemma ncols' : ncols P' = (n + m')%nat.
  Proof. unfold P'. rewrite ti_ncols, un', um'. reflexivity. Qed.
  Lemma ncolsP : ncols P = (n + S m')%nat.
  Proof. unfold P. rewrite ti_ncols, Hm. reflexivity. Qed.
  Lemma nrows' : nrows P' = m'.
  Proof. unfold P'. rewrite ti_nrows, um'. reflexivity. Qed.
  Lemma nrowsP : nrows P = S m'.
  Proof. unfold P. rewrite ti_nrows, Hm. reflexivity. Qed.

  Lemma urowi' k : urowi U' k = urowi U (skip i k).
  Proof. unfold urowi. rewrite Hrows. apply nth_remove_nth. Qed.
  Lemma ucolj' j : ucolj U' j = ucolj U j.
  Proof. unfold ucolj. rewrite Hcols. reflexivity. Qed.

  Lemma cj_lt j : (j < n + m')%nat -> (cj j < n + S m')%nat.
  Proof.
    intros Hj. unfold cj. destruct (Nat.ltb_spec j n); [lia|].
    pose proof (skip_lt i (j - n) m' Hi ltac:(lia)). lia.
  Qed.

  Lemma A' k j : (k < m')%nat -> (j < n + m')%nat -> Aij P' k j == Aij P (skip i k) (cj j).
  Proof.
    intros Hk Hj. pose proof (skip_lt i k m' Hi Hk) as Hsk. unfold cj. destruct (Nat.ltb_spec j n) as [Hlt|Hge].
    - unfold P', P. rewrite (ti_A_struct M U' k j) by (rewrite ?um', ?un'; assumption).
      rewrite (ti_A_struct M U (skip i k) j) by (rewrite ?Hm; assumption). rewrite urowi'. reflexivity.
    - replace j with (un U' + (j - n))%nat at 1 by (rewrite un'; lia).
      unfold P', P. rewrite (ti_A_log M U' k (j - n)) by (rewrite um'; lia).
      change (n + skip i (j - n))%nat with (un U + skip i (j - n))%nat.
      rewrite (ti_A_log M U (skip i k) (skip i (j - n))) by (rewrite Hm; apply skip_lt; [exact Hi|lia]).
      rewrite urowi'.
      destruct (Nat.eqb_spec (j - n) k) as [E|E]; destruct (Nat.eqb_spec (skip i (j - n)) (skip i k)) as [F|F]; try reflexivity.
      + subst k. contradiction.
      + apply skip_inj in F. contradiction.
  Qed.

  Lemma col'_obj j : (j < n + m')%nat -> ic_obj (col P' j) = ic_obj (col P (cj j)).
  Proof.
    intros Hj. unfold cj. destruct (Nat.ltb_spec j n) as [Hlt|Hge].
    - unfold P', P. rewrite (ti_col_struct M U' j) by (rewrite un'; exact Hlt). rewrite (ti_col_struct M U j) by exact Hlt. rewrite ucolj'. reflexivity.
    - replace j with (un U' + (j - n))%nat at 1 by (rewrite un'; lia).
      unfold P', P. rewrite (ti_col_log M U' (j - n)) by (rewrite um'; lia).
      change (n + skip i (j - n))%nat with (un U + skip i (j - n))%nat.
      rewrite (ti_col_log M U (skip i (j - n))) by (rewrite Hm; apply skip_lt; [exact Hi|lia]). reflexivity.
  Qed.
  Lemma col'_lo j : (j < n + m')%nat -> ic_lo (col P' j) = ic_lo (col P (cj j)).
  Proof.
    intros Hj. unfold cj. destruct (Nat.ltb_spec j n) as [Hlt|Hge].
    - unfold P', P. rewrite (ti_col_struct M U' j) by (rewrite un'; exact Hlt). rewrite (ti_col_struct M U j) by exact Hlt. rewrite ucolj'. reflexivity.
    - replace j with (un U' + (j - n))%nat at 1 by (rewrite un'; lia).
      unfold P', P. rewrite (ti_col_log M U' (j - n)) by (rewrite um'; lia).
      change (n + skip i (j - n))%nat with (un U + skip i (j - n))%nat.
      rewrite (ti_col_log M U (skip i (j - n))) by (rewrite Hm; apply skip_lt; [exact Hi|lia]). reflexivity.
  Qed.
  Lemma col'_up j : (j < n + m')%nat -> ic_up (col P' j) = ic_up (col P (cj j)).
  Proof.
    intros Hj. unfold cj. destruct (Nat.ltb_spec j n) as [Hlt|Hge].
    - unfold P', P. rewrite (ti_col_struct M U' j) by (rewrite un'; exact Hlt). rewrite (ti_col_struct M U j) by exact Hlt. rewrite ucolj'. reflexivity.
    - replace j with (un U' + (j - n))%nat at 1 by (rewrite un'; lia).
      unfold P', P. rewrite (ti_col_log M U' (j - n)) by (rewrite um'; lia).
      change (n + skip i (j - n))%nat with (un U + skip i (j - n))%nat.
      rewrite (ti_col_log M U (skip i (j - n))) by (rewrite Hm; apply skip_lt; [exact Hi|lia]). cbn [ic_up]. rewrite urowi'. reflexivity.
  Qed.

  Lemma rhs' k : rhs P' k == rhs P (skip i k).
  Proof. unfold P', P. rewrite !ti_rhs, urowi'. reflexivity. Qed.

  (* sums over the columns of the reduced LP *)
  Lemma sum_cols G : G (n + i)%nat == 0 -> sumn (n + m') (fun j => G (cj j)) == sumn (n + S m') G.
  Proof.
    intros Z. rewrite !sumn_app. apply Qplus_comp.
    - apply sumn_ext. intros j Hj. unfold cj. replace (Nat.ltb j n) with true by (symmetry; apply Nat.ltb_lt; exact Hj). reflexivity.
    - rewrite <- (sumn_skip0 m' i (fun l => G (n + l)%nat) Hi Z). apply sumn_ext. intros l Hl. unfold cj.
      replace (Nat.ltb (n + l) n) with false by (symmetry; apply Nat.ltb_ge; lia).
      replace (n + l - n)%nat with l by lia. reflexivity.
  Qed.

  (* the logical of the deleted row appears in no other row *)
  Lemma A_log_other r : r <> i -> Aij P r (n + i) == 0.
  Proof.
    intros Hr. unfold P, n. rewrite ti_A_log by (rewrite Hm; exact Hi).
    destruct (Nat.eqb_spec i r); [congruence|reflexivity].
  Qed.

  Variables (x s y : list Q) (v : Q).
  Hypothesis Lx : length x = n.
  Hypothesis Y0 : qnth y i == 0.
  Hypothesis K : kkt_idx I P (x ++ s) y v.

  Let z := x ++ s.
  Let z' := x ++ remove_nth i s.
  Let y' := remove_nth i y.

  Lemma z'_cj j : qnth z' j = qnth z (cj j).
  Proof.
    unfold qnth, z', z, cj. destruct (Nat.ltb_spec j n) as [Hlt|Hge].
    - rewrite !app_nth1 by lia. reflexivity.
    - rewrite !app_nth2 by lia. rewrite Lx. replace (n + skip i (j - n) - n)%nat with (skip i (j - n)) by lia.
      apply nth_remove_nth.
  Qed.
  Lemma y'_skip k : qnth y' k = qnth y (skip i k).
  Proof. unfold qnth, y'. apply nth_remove_nth. Qed.

  Lemma dzf' j : (j < n + m')%nat -> dzf P' (qnth y') j == dzf P (qnth y) (cj j).
  Proof.
    intros Hj. unfold dzf. rewrite col'_obj by exact Hj. rewrite nrows', nrowsP. apply Qplus_comp; [reflexivity|]. apply Qopp_comp.
    rewrite <- (sumn_skip0 m' i (fun k => Aij P k (cj j) * qnth y k) Hi) by (rewrite Y0; ring).
    apply sumn_ext. intros k Hk. rewrite A' by assumption. rewrite y'_skip. reflexivity.
  Qed.

  (* reduced cost of the deleted logical *)
  Lemma dzf_deleted : dzf P (qnth y) (n + i) == 0.
  Proof.
    unfold dzf. rewrite nrowsP.
    assert (E : sumn (S m') (fun k => Aij P k (n + i) * qnth y k) == Aij P i (n + i) * qnth y i).
    { apply (sumn_single (S m') i); [exact Hi|]. intros k _ Hne. rewrite A_log_other by exact Hne. ring. }
    rewrite E, Y0. unfold P, n. rewrite ti_col_log by (rewrite Hm; exact Hi). simpl. ring.
  Qed.

  Theorem kkt_del_row_ulp : kkt_idx I P' z' y' v.
  Proof.
    destruct K as (W & Lz & Ly & Hrow & Hb & Hd & Hv & Hdv).
    rewrite ncolsP in *. rewrite nrowsP in *. fold z in Lz, Hrow, Hb, Hd, Hv.
    assert (Ls : length s = S m') by (unfold z in Lz; rewrite app_length in Lz; lia).
    assert (Imax : i_max P' = i_max P) by exact Hmax.
    unfold kkt_idx. rewrite ncols', nrows', Imax.
    split; [apply to_internal_wf|]. split; [|split; [|split; [|split; [|split; [|split]]]]].
    - unfold z'. rewrite app_length, remove_nth_length, Ls.
      replace (Nat.ltb i (S m')) with true by (symmetry; apply Nat.ltb_lt; exact Hi). simpl. lia.
    - unfold y'. rewrite remove_nth_length, Ly.
      replace (Nat.ltb i (S m')) with true by (symmetry; apply Nat.ltb_lt; exact Hi). reflexivity.
    - intros k Hk. rewrite rhs'. rewrite <- (Hrow (skip i k)) by (apply skip_lt; assumption).
      unfold rowact. rewrite ncols', ncolsP.
      rewrite <- (sum_cols (fun j => Aij P (skip i k) j * qnth z j)) by (rewrite A_log_other by apply skip_neq; ring).
      apply sumn_ext. intros j Hj. rewrite A' by assumption. rewrite z'_cj. reflexivity.
    - intros j Hj. rewrite z'_cj. rewrite <- (Hb (cj j)) by (apply cj_lt; exact Hj).
      apply bound_ok_bounds; [apply col'_lo|apply col'_up]; exact Hj.
    - intros j Hj. rewrite z'_cj. rewrite <- (Hd (cj j)) by (apply cj_lt; exact Hj).
      rewrite (dual_ok_comp _ _ _ _ _ _ (dzf' j Hj)).
      apply dual_ok_bounds; [apply col'_lo|apply col'_up]; exact Hj.
    - rewrite <- Hv. unfold objval. rewrite ncols', ncolsP.
      rewrite <- (sum_cols (fun j => ic_obj (col P j) * qnth z j)).
      + apply sumn_ext. intros j Hj. rewrite col'_obj by exact Hj. rewrite z'_cj. reflexivity.
      + unfold P, n. rewrite ti_col_log by (rewrite Hm; exact Hi). simpl. ring.
    - rewrite <- Hdv. apply Qplus_comp.
      + rewrite <- (sumn_skip0 m' i (fun k => qnth y k * rhs P k) Hi) by (rewrite Y0; ring).
        apply sumn_ext. intros k Hk. rewrite y'_skip, rhs'. reflexivity.
      + rewrite <- (sum_cols (fun j => dual_term (i_max P) (col P j) (dzf P (qnth y) j))).
        * apply sumn_ext. intros j Hj. rewrite (dual_term_comp _ _ _ _ (dzf' j Hj)).
          rewrite (dual_term_bounds _ (col P' j) (col P (cj j))); [reflexivity|apply col'_lo; exact Hj|apply col'_up; exact Hj].
        * unfold dual_term.
          rewrite (Qltb_comp _ 0 0 0 dzf_deleted (Qeq_refl 0)), (Qltb_comp 0 0 _ 0 (Qeq_refl 0) dzf_deleted).
          replace (Qltb 0 0) with false by reflexivity. destruct (i_max P); reflexivity.
  Qed.
End DelRowU.

(* ---- the reference model: to_ulp of del_row_one --------------------------------------------------- *)

Lemma filter_del_ent i k e :
  map snd (filter (fun kv => Nat.eqb (fst kv) k) (del_ent i e)) = map snd (filter (fun kv => Nat.eqb (fst kv) (skip i k)) e).
Proof.
  unfold del_ent, skip. induction e as [|[a w] e IH]; [reflexivity|]. cbn [filter fst snd].
  destruct (Nat.eqb_spec a i) as [->|Hai]; cbn [negb].
  - destruct (Nat.eqb_spec i (if Nat.ltb k i then k else S k)) as [E|_]; [|exact IH].
    destruct (Nat.ltb_spec k i); lia.
  - cbn [map filter fst snd].
    destruct (Nat.ltb_spec i a); destruct (Nat.ltb_spec k i);
      repeat match goal with |- context [Nat.eqb ?p ?q] => destruct (Nat.eqb_spec p q) end;
      try lia; cbn [map snd]; rewrite ?IH; reflexivity.
Qed.

Lemma row_ents_del i cols : forall j0 k,
  row_ents (map (fun c => set_ent c (del_ent i (sc_ent c))) cols) j0 k = row_ents cols j0 (skip i k).
Proof.
  induction cols as [|c cols IH]; intros j0 k; [reflexivity|]. cbn [map row_ents sc_ent set_ent]. rewrite IH. f_equal.
  rewrite <- !(map_map snd (fun w => (j0, w))). rewrite filter_del_ent. reflexivity.
Qed.

Lemma urows_of_above i cols rows : forall i0, (i <= i0)%nat ->
  urows_of (map (fun c => set_ent c (del_ent i (sc_ent c))) cols) rows i0 = urows_of cols rows (S i0).
Proof.
  induction rows as [|r t IH]; intros i0 H; [reflexivity|]. cbn [urows_of]. rewrite IH by lia. rewrite row_ents_del.
  unfold skip. replace (Nat.ltb i0 i) with false by (symmetry; apply Nat.ltb_ge; lia). reflexivity.
Qed.

Lemma urows_of_del cols rows : forall i i0,
  urows_of (map (fun c => set_ent c (del_ent (i0 + i) (sc_ent c))) cols) (remove_nth i rows) i0 = remove_nth i (urows_of cols rows i0).
Proof.
  induction rows as [|r t IH]; intros i i0; [destruct i; reflexivity|]. destruct i as [|i].
  - cbn [remove_nth urows_of]. apply urows_of_above. lia.
  - cbn [remove_nth urows_of]. replace (i0 + S i)%nat with (S i0 + i)%nat by lia. rewrite IH. rewrite row_ents_del.
    unfold skip. replace (Nat.ltb i0 (S i0 + i)) with true by (symmetry; apply Nat.ltb_lt; lia). reflexivity.
Qed.

Lemma to_ulp_del_row_one p i :
  u_max (to_ulp (del_row_one p i)) = u_max (to_ulp p) /\
  u_cols (to_ulp (del_row_one p i)) = u_cols (to_ulp p) /\
  u_rows (to_ulp (del_row_one p i)) = remove_nth i (u_rows (to_ulp p)).
Proof.
  unfold to_ulp, del_row_one. cbn [u_max u_cols u_rows p_max p_cols p_rows]. split; [reflexivity|]. split.
  - rewrite map_map. reflexivity.
  - apply (urows_of_del (p_cols p) (p_rows p) i 0).
Qed.

Lemma urows_of_length cols rows : forall i0, length (urows_of cols rows i0) = length rows.
Proof. induction rows as [|r t IH]; intros i0; simpl; [reflexivity|]. rewrite IH; reflexivity. Qed.

(* ---- certificates of the reference model --------------------------------------------------------- *)

Section CertDel.
  Variable M : Q.

  Definition certv (p : prob) (x sl pi : list Q) (v : Q) : Prop :=
    check_kkt (inf_sentinel M) (to_internal M (to_ulp p)) (x ++ sl) pi v = true.

  Theorem cert_del_row_one p i x sl pi v :
    length x = ncol p -> (i < nrow p)%nat -> qnth pi i == 0 ->
    certv p x sl pi v -> certv (del_row_one p i) x (remove_nth i sl) (remove_nth i pi) v.
  Proof.
    unfold certv. intros Lx Hi Y0 C. apply idx_check_kkt.
    destruct (to_ulp_del_row_one p i) as (E1 & E2 & E3).
    assert (Hm : um (to_ulp p) = S (pred (nrow p))).
    { unfold um, to_ulp; cbn [u_rows]. rewrite urows_of_length. unfold nrow in *. lia. }
    apply (kkt_del_row_ulp M (to_ulp p) (to_ulp (del_row_one p i)) i (pred (nrow p)) Hm ltac:(lia) E1 E2 E3 x sl pi v).
    - unfold un, to_ulp; cbn [u_cols]. rewrite map_length. exact Lx.
    - exact Y0.
    - apply check_kkt_idx. exact C.
  Qed.

  (* a list of rows, deleted from the highest index down *)
  Lemma cert_del_desc d : forall p x sl pi v,
    length x = ncol p ->
    StronglySorted (fun a b => (b < a)%nat) d ->
    Forall (fun i => (i < nrow p)%nat /\ qnth pi i == 0) d ->
    certv p x sl pi v ->
    certv (fold_left del_row_one d p) x (fold_left (fun l i => remove_nth i l) d sl) (fold_left (fun l i => remove_nth i l) d pi) v.
  Proof.
    induction d as [|i d IH]; intros p x sl pi v Lx S F C; [exact C|]. cbn [fold_left].
    inversion S as [|? ? S' Hlt]; subst. inversion F as [|? ? [Hi Y0] F']; subst.
    apply IH.
    - unfold ncol, del_row_one; cbn [p_cols]. rewrite map_length. exact Lx.
    - exact S'.
    - rewrite Forall_forall in *. intros k Hk. destruct (F' k Hk) as [Hk1 Hk2]. pose proof (Hlt k Hk) as Hki.
      split.
      + unfold nrow, del_row_one; cbn [p_rows]. rewrite remove_nth_length. fold (nrow p).
        replace (Nat.ltb i (nrow p)) with true by (symmetry; apply Nat.ltb_lt; exact Hi). lia.
      + unfold qnth. rewrite nth_remove_nth. unfold skip. replace (Nat.ltb k i) with true by (symmetry; apply Nat.ltb_lt; exact Hki). exact Hk2.
    - apply cert_del_row_one; assumption.
  Qed.
End CertDel.

(* sort_desc of a duplicate-free list is strictly decreasing *)
Lemma insert_desc_In x l y : In y (insert_desc x l) <-> y = x \/ In y l.
Proof.
  induction l as [|a l IH]; simpl; [intuition|]. destruct (Nat.leb a x); simpl; [intuition|]. rewrite IH. intuition.
Qed.

Lemma sort_desc_In l y : In y (sort_desc l) <-> In y l.
Proof.
  induction l as [|a l IH]; simpl; [reflexivity|]. rewrite insert_desc_In, IH. intuition.
Qed.

Lemma insert_desc_sorted x l :
  StronglySorted (fun a b => (b < a)%nat) l -> ~ In x l -> StronglySorted (fun a b => (b < a)%nat) (insert_desc x l).
Proof.
  induction l as [|a l IH]; intros S N; simpl.
  - constructor; [constructor|constructor].
  - inversion S as [|? ? S' Hlt]; subst. destruct (Nat.leb_spec a x) as [H|H].
    + assert (a < x)%nat by (assert (a <> x) by (intros ->; apply N; left; reflexivity); lia).
      constructor; [exact S|]. constructor; [assumption|]. rewrite Forall_forall in *. intros k Hk. pose proof (Hlt k Hk). lia.
    + constructor.
      * apply IH; [exact S'|]. intros C. apply N. right. exact C.
      * rewrite Forall_forall in *. intros k Hk. apply insert_desc_In in Hk. destruct Hk as [->|Hk]; [exact H|apply Hlt; exact Hk].
Qed.

Lemma sort_desc_sorted l : NoDup l -> StronglySorted (fun a b => (b < a)%nat) (sort_desc l).
Proof.
  induction 1 as [|a l Ha Hl IH]; simpl; [constructor|]. apply insert_desc_sorted; [exact IH|].
  rewrite sort_desc_In. exact Ha.
Qed.

Theorem cert_del_rows_n M p ds x sl pi v :
  length x = ncol p -> NoDup ds ->
  Forall (fun i => (i < nrow p)%nat) ds -> Forall (fun i => qnth pi i == 0) ds ->
  certv M p x sl pi v ->
  certv M (del_rows_n p ds) x (fold_left (fun l i => remove_nth i l) (sort_desc ds) sl)
                               (fold_left (fun l i => remove_nth i l) (sort_desc ds) pi) v.
Proof.
  intros Lx ND R Z C. unfold del_rows_n. apply cert_del_desc; try assumption.
  - apply sort_desc_sorted. exact ND.
  - rewrite Forall_forall in *. intros k Hk. apply (proj1 (sort_desc_In _ _)) in Hk. split; [apply R|apply Z]; exact Hk.
Qed.
