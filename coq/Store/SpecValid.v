(* What valid_args means, op family by op family.  valid_args is defined as "the reference step
   succeeds"; these lemmas spell the success conditions out in the vocabulary of property C07
   (index in range, legal selector, new / known name, no repetition), so that the probes of
   checks/C07.py can be read off them. *)
From Coq Require Import String Ascii ZArith.
From QSX Require Import Store.Spec Store.SpecInv.
Local Open Scope Q_scope.

Definition in_range (n : nat) (z : Z) : Prop := (0 <= z < Z.of_nat n)%Z.

Lemma idx_some n z : in_range n z <-> exists i, idx n z = Some i.
Proof.
  unfold idx, in_range. destruct ((0 <=? z)%Z && (z <? Z.of_nat n)%Z)%bool eqn:E.
  - apply andb_true_iff in E. destruct E as [A B]. apply Z.leb_le in A. apply Z.ltb_lt in B.
    split; [eexists; reflexivity|intros; lia].
  - split; [|intros [i H]; discriminate]. intros [A B].
    apply Z.leb_le in A. apply Z.ltb_lt in B. rewrite A, B in E. discriminate.
Qed.

Lemma idx_none n z : ~ in_range n z <-> idx n z = None.
Proof.
  rewrite idx_some. split.
  - intros H. destruct (idx n z) eqn:E; [exfalso; apply H; eexists; reflexivity|reflexivity].
  - intros H [i E]. congruence.
Qed.

Lemma idxs_some n l : Forall (in_range n) l <-> exists t, idxs n l = Some t.
Proof.
  induction l as [|z r IH]; simpl.
  - split; [eexists; reflexivity|constructor].
  - split.
    + intros H. inversion H; subst. apply idx_some in H2. destruct H2 as [i Hi]. apply IH in H3. destruct H3 as [t Ht].
      rewrite Hi, Ht. eexists; reflexivity.
    + intros [t H]. destruct (idx n z) eqn:E; [|discriminate]. destruct (idxs n r) eqn:F; [|discriminate].
      constructor; [apply idx_some; eexists; eauto | apply IH; eexists; reflexivity].
Qed.

Lemma valid_edit M p o r : (forall q, fst (pstep M p o) = q -> True) ->
  pstep M p o = edit p r -> (valid_args M p o = true <-> r <> None).
Proof.
  intros _ H. unfold valid_args. rewrite H. destruct r; simpl; split; intros; congruence.
Qed.

Theorem valid_chgcoef M p i j v :
  valid_args M p (ChgCoef i j v) = true <-> in_range (nrow p) i /\ in_range (ncol p) j.
Proof.
  unfold valid_args; simpl. unfold chg_coef. rewrite !idx_some.
  destruct (idx (nrow p) i), (idx (ncol p) j); simpl; split; intros H; try discriminate; try reflexivity.
  - split; eexists; reflexivity.
  - destruct H as [_ [? ?]]; discriminate.
  - destruct H as [[? ?] _]; discriminate.
  - destruct H as [[? ?] _]; discriminate.
Qed.

Theorem valid_chgobj M p j v : valid_args M p (ChgObj j v) = true <-> in_range (ncol p) j.
Proof.
  unfold valid_args; simpl. unfold chg_obj. rewrite idx_some.
  destruct (idx (ncol p) j); simpl; split; intros H; try discriminate; try reflexivity.
  - eexists; reflexivity.
  - destruct H; discriminate.
Qed.

Lemma conv_bnds_some n l :
  Forall (fun b => in_range n (fst (fst b)) /\ lu_of_ascii (snd (fst b)) <> None) l <-> exists t, conv_bnds n l = Some t.
Proof.
  induction l as [|[[z a] v] r IH]; simpl.
  - split; [eexists; reflexivity|constructor].
  - split.
    + intros H. inversion H; subst. simpl in H2. destruct H2 as [A B]. apply idx_some in A. destruct A as [i Hi].
      apply IH in H3. destruct H3 as [t Ht]. rewrite Hi, Ht. destruct (lu_of_ascii a); [eexists; reflexivity|congruence].
    + intros [t H]. destruct (idx n z) eqn:E; [|discriminate]. destruct (lu_of_ascii a) eqn:L; [|discriminate].
      destruct (conv_bnds n r) eqn:F; [|discriminate].
      constructor; [simpl; split; [apply idx_some; eexists; eauto|congruence] | apply IH; eexists; reflexivity].
Qed.

Theorem valid_chgbnds M p l :
  valid_args M p (ChgBnds l) = true <-> Forall (fun b => in_range (ncol p) (fst (fst b)) /\ lu_of_ascii (snd (fst b)) <> None) l.
Proof.
  unfold valid_args; simpl. unfold chg_bnds. rewrite conv_bnds_some.
  destruct (conv_bnds (ncol p) l); simpl; split; intros H; try discriminate; try reflexivity.
  - eexists; reflexivity.
  - destruct H; discriminate.
Qed.

Lemma conv_senses_some n l :
  Forall (fun b => in_range n (fst b) /\ sense_of_ascii (snd b) <> None) l <-> exists t, conv_senses n l = Some t.
Proof.
  induction l as [|[z a] r IH]; simpl.
  - split; [eexists; reflexivity|constructor].
  - split.
    + intros H. inversion H; subst. simpl in H2. destruct H2 as [A B]. apply idx_some in A. destruct A as [i Hi].
      apply IH in H3. destruct H3 as [t Ht]. rewrite Hi, Ht. destruct (sense_of_ascii a); [eexists; reflexivity|congruence].
    + intros [t H]. destruct (idx n z) eqn:E; [|discriminate]. destruct (sense_of_ascii a) eqn:L; [|discriminate].
      destruct (conv_senses n r) eqn:F; [|discriminate].
      constructor; [simpl; split; [apply idx_some; eexists; eauto|congruence] | apply IH; eexists; reflexivity].
Qed.

Theorem valid_chgsenses M p l :
  valid_args M p (ChgSenses l) = true <-> Forall (fun b => in_range (nrow p) (fst b) /\ sense_of_ascii (snd b) <> None) l.
Proof.
  unfold valid_args; simpl. unfold chg_senses. rewrite conv_senses_some.
  destruct (conv_senses (nrow p) l); simpl; split; intros H; try discriminate; try reflexivity.
  - eexists; reflexivity.
  - destruct H; discriminate.
Qed.

(* no repetition *)
Lemma memn_in i l : memn i l = true <-> In i l.
Proof.
  induction l as [|k r IH]; simpl; [split; [discriminate|intros []]|].
  rewrite orb_true_iff, IH, Nat.eqb_eq. tauto.
Qed.

Lemma nodupn_NoDup l : nodupn l = true <-> NoDup l.
Proof.
  induction l as [|k r IH]; simpl; [split; [constructor|reflexivity]|].
  rewrite andb_true_iff, negb_true_iff, IH. split.
  - intros [A B]. constructor; [|exact B]. intros C. apply memn_in in C. congruence.
  - intros H. inversion H; subst. split; [|assumption].
    destruct (memn k r) eqn:E; [|reflexivity]. apply memn_in in E. contradiction.
Qed.

Lemma idxs_eq n l t : idxs n l = Some t -> t = map Z.to_nat l.
Proof.
  revert t. induction l as [|z r IH]; simpl; intros t H; [inversion H; reflexivity|].
  destruct (idx n z) eqn:E; [|discriminate]. destruct (idxs n r) eqn:F; [|discriminate]. inversion H; subst.
  f_equal; [|apply IH; reflexivity]. unfold idx in E. destruct ((0 <=? z)%Z && (z <? Z.of_nat n)%Z)%bool; inversion E; reflexivity.
Qed.

Lemma NoDup_map_to_nat l : Forall (fun z => (0 <= z)%Z) l -> (NoDup (map Z.to_nat l) <-> NoDup l).
Proof.
  induction 1 as [|z r Hz Hr IH]; simpl; [split; constructor|].
  split; intros H; inversion H; subst; constructor.
  - intros C. apply H2. apply in_map. exact C.
  - apply IH; assumption.
  - intros C. apply in_map_iff in C. destruct C as (y & E & I). apply H2.
    rewrite Forall_forall in Hr. specialize (Hr _ I). replace z with y; [exact I|]. lia.
  - apply IH; assumption.
Qed.

Theorem valid_delrows M p l :
  valid_args M p (DelRows l) = true <-> Forall (in_range (nrow p)) l /\ NoDup l.
Proof.
  unfold valid_args; simpl. unfold del_rows. split.
  - intros H. destruct (idxs (nrow p) l) as [t|] eqn:E; [|discriminate]. destruct (nodupn t) eqn:N; [|discriminate].
    assert (F : Forall (in_range (nrow p)) l) by (apply idxs_some; eexists; eauto). split; [exact F|].
    apply nodupn_NoDup in N. rewrite (idxs_eq _ _ _ E) in N. apply NoDup_map_to_nat in N; [exact N|].
    eapply Forall_impl; [|exact F]. unfold in_range; intros; lia.
  - intros [F D]. destruct (proj1 (idxs_some _ _) F) as [t E]. rewrite E.
    assert (N : nodupn t = true).
    { apply nodupn_NoDup. rewrite (idxs_eq _ _ _ E). apply NoDup_map_to_nat; [|exact D].
      eapply Forall_impl; [|exact F]. unfold in_range; intros; lia. }
    rewrite N. reflexivity.
Qed.

(* names *)
Lemma mems_in s l : mems s l = true <-> In s l.
Proof.
  unfold mems. rewrite existsb_exists. split.
  - intros (x & I & E). apply String.eqb_eq in E. subst; exact I.
  - intros I. exists s. split; [exact I|apply String.eqb_refl].
Qed.

Theorem valid_newcol_named M p obj lo up s :
  valid_args M p (NewCol obj lo up (Some s)) = true <-> ~ In s (colnames p).
Proof.
  unfold valid_args; simpl. unfold add_col, pick_name. rewrite <- mems_in.
  destruct (mems s (colnames p)); simpl; split; intros H; try discriminate; try reflexivity; try congruence;
    try (exfalso; apply H; reflexivity).
Qed.

Lemma find_name_some_in s l i0 : In s l <-> exists i, find_name s l i0 = Some i.
Proof.
  revert i0. induction l as [|a r IH]; intros i0; simpl.
  - split; [intros []|intros [i H]; discriminate].
  - destruct (String.eqb_spec a s) as [->|N].
    + split; [eexists; reflexivity|left; reflexivity].
    + rewrite <- IH. split; [intros [C|C]; [contradiction|exact C]|right; assumption].
Qed.

Theorem valid_delnrow M p s : valid_args M p (DelNRows [s]) = true <-> In s (rownames p).
Proof.
  unfold valid_args; simpl. unfold del_named_rows; simpl. rewrite (find_name_some_in s (rownames p) 0).
  destruct (find_name s (rownames p) 0); simpl; split; intros H; try discriminate; try reflexivity.
  - eexists; reflexivity.
  - destruct H; discriminate.
Qed.

Lemma conv_ent_some n e : Forall (fun kv => in_range n (fst kv)) e <-> exists t, conv_ent n e = Some t.
Proof.
  induction e as [|[z v] r IH]; simpl.
  - split; [eexists; reflexivity|constructor].
  - split.
    + intros H. inversion H; subst. simpl in H2. apply idx_some in H2. destruct H2 as [i Hi].
      apply IH in H3. destruct H3 as [t Ht]. rewrite Hi, Ht. eexists; reflexivity.
    + intros [t H]. destruct (idx n z) eqn:E; [|discriminate]. destruct (conv_ent n r) eqn:F; [|discriminate].
      constructor; [simpl; apply idx_some; eexists; eauto | apply IH; eexists; reflexivity].
Qed.

Theorem valid_addrow_named M p rhs sn rng s ent :
  valid_args M p (AddRow rhs sn rng (Some s) ent) = true <->
  sense_of_ascii sn <> None /\ ~ In s (rownames p) /\ Forall (fun e => in_range (ncol p) (fst e)) ent.
Proof.
  unfold valid_args; simpl. unfold add_row, pick_name. rewrite <- mems_in, conv_ent_some.
  destruct (sense_of_ascii sn); destruct (mems s (rownames p)); destruct (conv_ent (ncol p) ent); simpl; split; intros H;
    try discriminate; try reflexivity;
    try (exfalso; destruct H as (A & B & [t C]); first [congruence | apply B; reflexivity]).
  repeat split; try congruence. eexists; reflexivity.
Qed.
