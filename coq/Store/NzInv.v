(* lp->nzcount = the number of stored entries of the column store, for every operation of the L2 model and so after every
   history: NZ s := nzc s = sum of matcnt.  (ILLlib_* keep nzcount by adding / subtracting what they believe they stored
   or removed; QSget_nzcount and ILLlp_rows_init - the size of the row-wise copy - depend on it.) *)
From Coq Require Import String Ascii ZArith List Lia Bool Arith QArith.
From QSX Require Import Store.Spec Store.SpecInv Store.SpecValid Store.Api Store.Matrix Store.MatrixInv Store.MatrixSafe Store.L2 Store.L2Refine Store.L2Safe Store.RawLoad.
Import ListNotations.
Local Open Scope nat_scope.

Definition NZ (s : lstore) : Prop := nzc s = lsum (cnt (lA s)).
Definition tot (cols : list (list (nat * Q))) : nat := lsum (map (@length _) cols).

Lemma NZ_empty : NZ empty_lstore.
Proof. reflexivity. Qed.

(* matcnt is the vector of the lengths of the columns of the abstraction *)
Lemma cnt_abs R m : WFr R m -> cnt m = map (@length _) (abs m).
Proof.
  intros W. apply (nth_ext _ _ 0 0).
  - rewrite map_length, abs_length. apply (wf_len _ _ W).
  - intros j Hj. rewrite (wf_len _ _ W) in Hj. fold (mcols m) in Hj.
    rewrite (nth_map_default _ _ _ _ []) by (rewrite abs_length; exact Hj). rewrite nth_abs by exact Hj.
    unfold col_ents. rewrite map_length. rewrite (col_slots_length _ _ _ W Hj). reflexivity.
Qed.

Lemma lsum_cnt_tot R m : WFr R m -> lsum (cnt m) = tot (abs m).
Proof. intros W. unfold tot. rewrite <- (cnt_abs _ _ W). reflexivity. Qed.

(* ---- counting lemmas ------------------------------------------------------------------------------------------ *)
Definition in_range (a n : nat) (e : nat * Q) : bool := (a <=? fst e) && (fst e <? a + n).

Lemma length_filter_cons {A} (f : A -> bool) e t : length (filter f (e :: t)) = (if f e then 1 else 0) + length (filter f t).
Proof. simpl. destruct (f e); reflexivity. Qed.

Lemma filter_split a n (ents : list (nat * Q)) :
  length (filter (fun e => fst e =? a) ents) + length (filter (in_range (S a) n) ents) = length (filter (in_range a (S n)) ents).
Proof.
  induction ents as [|e t IH]; [reflexivity|]. rewrite !length_filter_cons. rewrite <- IH. unfold in_range at 1 3.
  destruct (Nat.eqb_spec (fst e) a); destruct (Nat.leb_spec (S a) (fst e)); destruct (Nat.ltb_spec (fst e) (S a + n));
    destruct (Nat.leb_spec a (fst e)); destruct (Nat.ltb_spec (fst e) (a + S n)); simpl; lia.
Qed.

Lemma filter_none_range j0 (ents : list (nat * Q)) : length (filter (in_range j0 0) ents) = 0.
Proof.
  induction ents as [|e t IH]; [reflexivity|]. rewrite length_filter_cons, IH. unfold in_range.
  destruct (Nat.leb_spec j0 (fst e)); destruct (Nat.ltb_spec (fst e) (j0 + 0)); simpl; lia.
Qed.

Lemma tot_app_row cols : forall j0 i ents, tot (app_row_ent cols j0 i ents) = tot cols + length (filter (in_range j0 (length cols)) ents).
Proof.
  induction cols as [|c r IH]; intros j0 i ents; simpl.
  - rewrite filter_none_range. reflexivity.
  - unfold tot in *. simpl. rewrite IH, app_length, map_length. rewrite <- (filter_split j0 (length r) ents). lia.
Qed.

Lemma filter_all {A} (f : A -> bool) l : forallb f l = true -> filter f l = l.
Proof. induction l as [|a l IH]; simpl; [reflexivity|]. intros H. apply andb_true_iff in H. destruct H as [H1 H2]. rewrite H1, IH by exact H2. reflexivity. Qed.

Lemma tot_app cols1 cols2 : tot (cols1 ++ cols2) = tot cols1 + tot cols2.
Proof. unfold tot. rewrite map_app, lsum_app. reflexivity. Qed.

Lemma lsum_keepb mk : forall cs, length mk = length cs -> forall a, fold_left (fun (a : nat) (p : bool * nat) => if fst p then a + snd p else a) (combine mk cs) a + lsum (keepb mk cs) = a + lsum cs.
Proof.
  induction mk as [|d mk IH]; intros [|c cs] L a; simpl in *; try lia.
  specialize (IH cs ltac:(lia)). pose proof (IH (a + c)). pose proof (IH a). destruct d; simpl; unfold lsum in *; lia.
Qed.

Lemma sum_marked_keepb mk cs : length mk = length cs -> sum_marked mk cs + lsum (keepb mk cs) = lsum cs.
Proof. intros L. unfold sum_marked. rewrite lsum_keepb by exact L. reflexivity. Qed.

Lemma lsum_pointwise_le (l1 l2 : list nat) : length l1 = length l2 -> (forall j, j < length l1 -> nth j l1 0 <= nth j l2 0) -> lsum l1 <= lsum l2.
Proof.
  revert l2. induction l1 as [|a l1 IH]; intros [|b l2] L H; simpl in *; try lia.
  pose proof (H 0 ltac:(lia)) as H0. simpl in H0. specialize (IH l2 ltac:(lia) (fun j Hj => H (S j) ltac:(lia))). lia.
Qed.

Lemma lsum_bump_at (l1 l2 : list nat) j d : length l1 = length l2 -> j < length l1 -> nth j l2 0 = nth j l1 0 + d ->
  (forall j', j' < length l1 -> j' <> j -> nth j' l2 0 = nth j' l1 0) -> lsum l2 = lsum l1 + d.
Proof.
  revert l2 j. induction l1 as [|a l1 IH]; intros [|b l2] j L Hj E O; simpl in *; try lia.
  destruct j as [|j].
  - simpl in E. assert (l2 = l1).
    { apply (nth_ext _ _ 0 0); [lia|]. intros k Hk. apply (O (S k)); lia. }
    subst. lia.
  - pose proof (O 0 ltac:(lia) ltac:(lia)) as O0. simpl in O0. rewrite (IH l2 j ltac:(lia) ltac:(lia) E); [lia|].
    intros j' Hj' Hne. apply (O (S j')); lia.
Qed.

(* ---- the operations of the matrix ------------------------------------------------------------------------------ *)
Lemma mat_addrow_count extra_mat fixed m ents m' : WF m -> mat_addrow extra_mat fixed m ents = Ok m' -> lsum (cnt m') = lsum (cnt m) + length ents.
Proof.
  intros W H. destruct (abs_addrow _ _ _ _ _ W H) as (W' & A).
  rewrite (lsum_cnt_tot _ _ W'), (lsum_cnt_tot _ _ W), A, tot_app_row. f_equal. f_equal.
  apply filter_all. unfold mat_addrow in H. destruct (forallb (fun e => fst e <? mcols m) ents) eqn:V; [|discriminate].
  apply forallb_forall. intros e He. rewrite forallb_forall in V. specialize (V e He). unfold in_range. rewrite abs_length. simpl. exact V.
Qed.

Lemma mat_addcol_count extra_cols extra_mat m ents m' : mat_addcol extra_cols extra_mat m ents = Ok m' -> lsum (cnt m') = lsum (cnt m) + length ents.
Proof.
  unfold mat_addcol. destruct (negb _); [discriminate|]. destruct (_ <? _); [discriminate|]. destruct (_ <? _); [discriminate|].
  intros H; inversion H; subst m'. simpl. rewrite lsum_app. simpl. lia.
Qed.

Lemma mat_addcoef_count extra_mat m i j v m' nw : WF m -> mat_addcoef extra_mat m i j v = Ok (m', nw) ->
  lsum (cnt m') = lsum (cnt m) + (if nw then 1 else 0).
Proof.
  intros W H. destruct (mat_addcoef_ok _ _ _ _ _ _ _ W H) as (W' & MC & _ & _ & _ & CO & LN).
  assert (Hj : j < mcols m).
  { unfold mat_addcoef in H. destruct (Nat.ltb_spec j (mcols m)); [assumption|]. rewrite orb_true_r in H. discriminate. }
  rewrite (cnt_abs _ _ W'), (cnt_abs _ _ W). apply (lsum_bump_at _ _ j).
  - rewrite !map_length, !abs_length. symmetry. exact MC.
  - rewrite map_length, abs_length. exact Hj.
  - rewrite !(nth_map_default _ _ _ _ []) by (rewrite abs_length; lia). rewrite !nth_abs by lia. exact LN.
  - intros j' Hj' Hne. rewrite map_length, abs_length in Hj'. rewrite !(nth_map_default _ _ _ _ []) by (rewrite abs_length; lia).
    rewrite !nth_abs by lia. unfold col_ents. rewrite (CO j' Hj' Hne). reflexivity.
Qed.

Lemma mat_setval_count m j v m' : mat_setval m j v = Ok m' -> cnt m' = cnt m.
Proof. unfold mat_setval. destruct (negb _); [discriminate|]. destruct (_ <=? _); [discriminate|]. intros H; inversion H; reflexivity. Qed.

Lemma mat_delcols_count m mk m' : WF m -> mat_delcols m mk = Ok m' -> lsum (cnt m') + sum_marked mk (cnt m) = lsum (cnt m).
Proof.
  intros W. unfold mat_delcols. destruct (Nat.eqb_spec (length mk) (mcols m)) as [L|]; [|discriminate]. simpl. destruct (negb _); [discriminate|].
  intros H; inversion H; subst m'. simpl. rewrite Nat.add_comm. apply sum_marked_keepb. rewrite L. symmetry. apply (wf_len _ _ W).
Qed.

Lemma del_rows_ent_length ds e : length (del_rows_ent ds e) <= length e.
Proof. unfold del_rows_ent. rewrite map_length. apply filter_length_le'. Qed.

Lemma mat_delrows_count m ds m' : WF m -> NoDup ds -> mat_delrows m (marks (mrows m) ds) = Ok m' -> lsum (cnt m') <= lsum (cnt m).
Proof.
  intros W ND H. destruct (abs_delrows _ _ _ W ND H) as (W' & A).
  rewrite (cnt_abs _ _ W'), (cnt_abs _ _ W), A. apply lsum_pointwise_le; [rewrite !map_length; reflexivity|].
  intros j Hj. rewrite !map_length in Hj. rewrite map_map.
  rewrite (nth_map_default _ _ _ _ []) by exact Hj. rewrite (nth_map_default _ _ _ _ []) by exact Hj. apply del_rows_ent_length.
Qed.

(* ---- the operations of the store ----------------------------------------------------------------------------------- *)
Section Lib.
Variables extra_cols extra_mat : nat.
Variable fixed : bool.

Lemma lib_addrow_nz s ents coef s' : LWF s -> NZ s -> lib_addrow extra_cols extra_mat fixed s ents coef = Ok s' -> NZ s'.
Proof.
  intros L N. unfold lib_addrow, bind. destruct (negb _); [discriminate|].
  destruct (mat_addrow extra_mat fixed (lA s) _) as [A1| |] eqn:E1; try discriminate.
  destruct (mat_addcol extra_cols extra_mat A1 _) as [A2| |] eqn:E2; try discriminate.
  intros H; inversion H; subst s'; clear H. unfold NZ in *. simpl.
  rewrite (mat_addcol_count _ _ _ _ _ E2), (mat_addrow_count _ _ _ _ _ (lwf_A _ L) E1), map_length, N. simpl. lia.
Qed.

Lemma lib_addcol_nz s ents s' : NZ s -> lib_addcol extra_cols extra_mat s ents = Ok s' -> NZ s'.
Proof.
  intros N. unfold lib_addcol, bind. destruct (mat_addcol extra_cols extra_mat (lA s) ents) as [A1| |] eqn:E; try discriminate.
  intros H; inversion H; subst s'; clear H. unfold NZ in *. simpl. rewrite (mat_addcol_count _ _ _ _ _ E), N. reflexivity.
Qed.

Lemma lib_chgcoef_nz s i j v s' : LWF s -> NZ s -> lib_chgcoef extra_mat s i j v = Ok s' -> NZ s'.
Proof.
  intros L N. unfold lib_chgcoef, bind. destruct (_ || _); [discriminate|].
  destruct (mat_addcoef extra_mat (lA s) i _ v) as [[A1 nw]| |] eqn:E; try discriminate.
  intros H; inversion H; subst s'; clear H. unfold NZ in *. simpl. rewrite (mat_addcoef_count _ _ _ _ _ _ _ (lwf_A _ L) E), N. destruct nw; lia.
Qed.

Lemma lib_chgsense_nz s i coef s' : NZ s -> lib_chgsense s i coef = Ok s' -> NZ s'.
Proof.
  intros N. unfold lib_chgsense, bind. destruct (negb _); [discriminate|].
  destruct (mat_setval (lA s) _ coef) as [A1| |] eqn:E; try discriminate.
  intros H; inversion H; subst s'; clear H. unfold NZ in *. simpl. rewrite (mat_setval_count _ _ _ _ E). exact N.
Qed.
End Lib.

Lemma lib_delcols_nz s ds s' : LWF s -> NZ s -> lib_delcols s ds = Ok s' -> NZ s'.
Proof.
  intros L N. unfold lib_delcols, bind. destruct (negb _); [discriminate|].
  destruct (mat_delcols (lA s) _) as [A1| |] eqn:E; try discriminate.
  intros H; inversion H; subst s'; clear H. unfold NZ in *. simpl. pose proof (mat_delcols_count _ _ _ (lwf_A _ L) E). lia.
Qed.

Lemma lib_delrows_nz s ds s' : LWF s -> NZ s -> lib_delrows s ds = Ok s' -> NZ s'.
Proof.
  intros L N. unfold lib_delrows, bind. destruct (forallb (fun i => i <? length (rmap s)) ds && nodupn ds) eqn:V; [|discriminate]. simpl negb. cbv iota.
  apply andb_true_iff in V. destruct V as [_ V2]. apply nodupn_NoDup in V2.
  destruct (mat_delcols (lA s) _) as [A1| |] eqn:E1; try discriminate.
  destruct (mat_delrows A1 _) as [A2| |] eqn:E2; try discriminate.
  intros H; inversion H; subst s'; clear H. unfold NZ in *. simpl.
  pose proof (mat_delcols_count _ _ _ (lwf_A _ L) E1) as C1.
  destruct (mat_delcols_ok _ _ _ (lwf_A _ L) E1) as (W1 & MR1 & _).
  rewrite <- MR1 in E2. pose proof (mat_delrows_count _ _ _ W1 V2 E2) as C2. unfold lsum in *. lia.
Qed.

(* ---- the calls of the interface and histories ------------------------------------------------------------------------- *)
Section Step.
Variable M : Q.
Variables extra_cols extra_mat : nat.
Variable fixed : bool.

Lemma l2_addrows_nz l : forall s s', LWF s -> NZ s -> l2_addrows extra_cols extra_mat fixed s l = Ok s' -> NZ s'.
Proof.
  induction l as [|[[[[rhs sn] rng] nm] ent] r IH]; intros s s' L N H; simpl in H; [inversion H; subst; exact N|].
  unfold bind in H. destruct (lib_addrow extra_cols extra_mat fixed s (nat_ents ent) (coef_of_sense sn)) as [s1| |] eqn:B; try discriminate.
  destruct (lib_addrow_ok _ _ _ _ _ _ _ L B) as (L1 & _). apply (IH s1 s' L1); [exact (lib_addrow_nz _ _ _ _ _ _ _ L N B)|exact H].
Qed.

Lemma l2_addcols_nz l : forall s s', LWF s -> NZ s -> l2_addcols extra_cols extra_mat s l = Ok s' -> NZ s'.
Proof.
  induction l as [|[[[[obj lo] up] nm] ent] r IH]; intros s s' L N H; simpl in H; [inversion H; subst; exact N|].
  unfold bind in H. destruct (lib_addcol extra_cols extra_mat s (nat_ents ent)) as [s1| |] eqn:B; try discriminate.
  destruct (lib_addcol_ok _ _ _ _ _ L B) as (L1 & _). apply (IH s1 s' L1); [exact (lib_addcol_nz _ _ _ _ _ N B)|exact H].
Qed.

Lemma l2_chgsenses_nz l : forall s s', LWF s -> NZ s -> l2_chgsenses s l = Ok s' -> NZ s'.
Proof.
  induction l as [|[i a] r IH]; intros s s' L N H; simpl in H; [inversion H; subst; exact N|].
  unfold bind in H. destruct (lib_chgsense s (Z.to_nat i) (coef_of_sense a)) as [s1| |] eqn:B; try discriminate.
  destruct (lib_chgsense_ok _ _ _ _ L B) as (L1 & _). apply (IH s1 s' L1); [exact (lib_chgsense_nz _ _ _ _ N B)|exact H].
Qed.

Theorem l2_step_nz p s o s' : LWF s -> NZ s -> l2_step extra_cols extra_mat fixed p s o = Ok s' -> NZ s'.
Proof.
  intros L N H. destruct o; cbn [l2_step] in H; try (inversion H; subst; exact N).
  - exact (lib_addcol_nz _ _ _ _ _ N H).
  - exact (lib_addcol_nz _ _ _ _ _ N H).
  - exact (l2_addcols_nz _ _ _ L N H).
  - exact (lib_addrow_nz _ _ _ _ _ _ _ L N H).
  - exact (lib_addrow_nz _ _ _ _ _ _ _ L N H).
  - exact (l2_addrows_nz _ _ _ L N H).
  - destruct (del_rows_of p (DelRows l)); [inversion H; subst; exact N|exact (lib_delrows_nz _ _ _ L N H)].
  - destruct (del_rows_of p (DelSetRows flags)); [inversion H; subst; exact N|exact (lib_delrows_nz _ _ _ L N H)].
  - destruct (del_rows_of p (DelNRows l)); [inversion H; subst; exact N|exact (lib_delrows_nz _ _ _ L N H)].
  - destruct (del_cols_of p (DelCols l)); [inversion H; subst; exact N|exact (lib_delcols_nz _ _ _ L N H)].
  - destruct (del_cols_of p (DelSetCols flags)); [inversion H; subst; exact N|exact (lib_delcols_nz _ _ _ L N H)].
  - destruct (del_cols_of p (DelNCols l)); [inversion H; subst; exact N|exact (lib_delcols_nz _ _ _ L N H)].
  - exact (lib_chgcoef_nz _ _ _ _ _ _ L N H).
  - exact (l2_chgsenses_nz _ _ _ L N H).
Qed.

Theorem l2_run_nz l : forall s p s', refines s p -> NZ s -> l2_run M extra_cols extra_mat fixed p s l = Ok s' -> NZ s'.
Proof.
  induction l as [|o r IH]; intros s p s' Rf N H; simpl in H; [inversion H; subst; exact N|].
  destruct (pstep M p o) as [p1 res] eqn:P. simpl in H. destruct res as [t| |].
  - unfold bind in H. destruct (l2_step extra_cols extra_mat fixed p s o) as [s1| |] eqn:S1; try discriminate.
    apply (IH s1 p1 s'); [exact (l2_step_refines M _ _ _ _ _ _ _ _ _ Rf P S1)|exact (l2_step_nz _ _ _ _ (proj1 Rf) N S1)|exact H].
  - apply (IH s p s' Rf N H).
  - apply (IH s p s' Rf N H).
Qed.

Lemma l2_addrows_lwf l : forall s0 s2, LWF s0 -> l2_addrows extra_cols extra_mat fixed s0 l = Ok s2 -> LWF s2.
Proof.
  induction l as [|[[[[rhs sn] rng] nm] ent] r IH]; intros s0 s2 L0 H0; simpl in H0; [inversion H0; subst; exact L0|].
  unfold bind in H0. destruct (lib_addrow extra_cols extra_mat fixed s0 (nat_ents ent) (coef_of_sense sn)) as [s3| |] eqn:B; try discriminate.
  destruct (lib_addrow_ok _ _ _ _ _ _ _ L0 B) as (L3 & _). apply (IH s3 s2 L3 H0).
Qed.

Theorem l2_load_nz cols rows s : l2_load extra_cols extra_mat fixed cols rows = Ok s -> NZ s.
Proof.
  unfold l2_load, bind. destruct (l2_addrows extra_cols extra_mat fixed empty_lstore _) as [s1| |] eqn:A; try discriminate. intros H.
  assert (L1 : LWF s1) by exact (l2_addrows_lwf _ _ _ LWF_empty A).
  apply (l2_addcols_nz cols s1 s L1); [|exact H]. apply (l2_addrows_nz _ empty_lstore s1 LWF_empty NZ_empty A).
Qed.
End Step.
