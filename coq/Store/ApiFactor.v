(* Inv_factor (DESIGN 5/C05) on the API state machine: the flag factorok is set only while the basis matrix - the entry
   lists of the basic structural columns, and which logicals are basic with the senses of their rows - is the one the last
   solve factored.  Equivalently: every edit that changes the basis matrix (or its dimension) resets factorok.
   The LU factors themselves are not modelled; `factored` is a ghost value carried next to the state. *)
From Coq Require Import String Ascii ZArith List Lia Bool Arith QArith.
From QSX Require Import Store.Spec Store.SpecInv Store.SpecValid Store.Api Store.DelRowsCert Store.ApiInv Store.Matrix Store.MatrixInv Store.L2 Store.L2Refine.
Import ListNotations.
Local Open Scope nat_scope.

Definition is_basic (a : ascii) : bool := Ascii.eqb a "1".
Definition unbasic (l : list ascii) : list bool := map (fun a => negb (is_basic a)) l.

(* the basis matrix: basic structural columns (entry lists), basic logicals (row, sense), number of rows *)
Definition bmatrix (p : prob) (b : basis) : list (list (nat * Q)) * list (nat * sense) * nat :=
  (keepb (unbasic (ba_c b)) (map sc_ent (p_cols p)),
   keepb (unbasic (ba_r b)) (combine (seq 0 (nrow p)) (map sr_sense (p_rows p))),
   nrow p).

Lemma keepb_app_unmarked {A} (mk mk2 : list bool) (l l2 : list A) :
  length mk = length l -> (forall x, In x mk2 -> x = true) -> length mk2 = length l2 -> keepb (mk ++ mk2) (l ++ l2) = keepb mk l.
Proof.
  revert l. induction mk as [|x mk IH]; intros [|a l] L T L2; simpl in L; try discriminate.
  - simpl. revert l2 L2. induction mk2 as [|y mk2 IH2]; intros [|a2 l2] L2; simpl in *; try discriminate; try reflexivity.
    rewrite (T y (or_introl eq_refl)). apply IH2; [intros z Hz; apply T; right; exact Hz|lia].
  - simpl. destruct x; rewrite IH by (try assumption; lia); reflexivity.
Qed.

Definition is_addrows (o : pop) : bool := match o with NewRow _ _ _ | AddRow _ _ _ _ _ | AddRows _ => true | _ => false end.

Section Factor.
Variable M : Q.

Lemma col_stat_unbasic lo up : is_basic (col_stat M lo up) = false.
Proof. unfold col_stat. repeat match goal with |- context [if ?c then _ else _] => destruct c end; reflexivity. Qed.

(* the senses of the rows are untouched by the calls that do not touch the matrix, except QSchange_senses (which does) *)
Lemma pstep_other_senses p o p' t :
  touches_matrix o = false -> pstep M p o = (p', ROk t) -> map sr_sense (p_rows p') = map sr_sense (p_rows p).
Proof.
  destruct o; simpl; try discriminate; intros _; cbn [pstep]; unfold edit, answer; intros H;
    try (match type of H with (match ?x with _ => _ end) = _ => destruct x eqn:E end; inversion H; subst; clear H);
    try reflexivity;
    try (inversion H; subst; reflexivity);
    try (repeat match type of H with context [match ?x with _ => _ end] => destruct x end; inversion H; subst; reflexivity).
  - unfold chg_obj in E. destruct (idx (ncol p) j); [|discriminate]. inversion E; subst. reflexivity.
  - unfold chg_rhs in E. destruct (idx (nrow p) i); [|discriminate]. inversion E; subst. simpl. apply map_upd_nth_same. reflexivity.
  - unfold chg_range in E. destruct (idx (nrow p) i); [|discriminate]. destruct (is_SR _); [|discriminate]. inversion E; subst. simpl.
    apply map_upd_nth_same. reflexivity.
  - unfold chg_bnds in E. destruct (conv_bnds (ncol p) l); [|discriminate]. inversion E; subst. reflexivity.
  - unfold chg_objsense in E. destruct (code =? 1)%Z; [inversion E; subst; reflexivity|].
    destruct (code =? -1)%Z; [inversion E; subst; reflexivity|discriminate].
  - unfold set_param in E.
    repeat match type of E with (if ?c then _ else _) = _ => destruct c end; try discriminate; inversion E; subst; reflexivity.
  - unfold set_paramq in E.
    repeat match type of E with (if ?c then _ else _) = _ => destruct c end; try discriminate; inversion E; subst; reflexivity.
  - unfold mark_int in E. destruct (idx (ncol p) j); [|discriminate]. inversion E; subst. reflexivity.
  - destruct (idxs (nrow p) l0); inversion H1; subst; reflexivity.
  - match goal with H0 : context [idxs (ncol p) ?l] |- _ => destruct (idxs (ncol p) l); inversion H0; subst; reflexivity end.
Qed.

Lemma bmatrix_same p p' b :
  map sc_ent (p_cols p') = map sc_ent (p_cols p) -> map sr_sense (p_rows p') = map sr_sense (p_rows p) -> nrow p' = nrow p ->
  bmatrix p' b = bmatrix p b.
Proof. intros E1 E2 E3. unfold bmatrix. rewrite E1, E2, E3. reflexivity. Qed.

Lemma add_col_cols p obj lo up nm ent p' : add_col p obj lo up nm ent = Some p' ->
  exists c, p_cols p' = p_cols p ++ [c] /\ p_rows p' = p_rows p.
Proof.
  unfold add_col. destruct (pick_name _ _ _); [|discriminate]. destruct (conv_ent _ _); [|discriminate]. intros H; inversion H; subst. simpl. eexists. split; reflexivity.
Qed.

Lemma add_cols_cols l : forall p p', add_cols p l = Some p' -> exists cs, p_cols p' = p_cols p ++ cs /\ length cs = length l /\ p_rows p' = p_rows p.
Proof.
  induction l as [|[[[[obj lo] up] nm] ent] r IH]; intros p p' H; simpl in H.
  - inversion H; subst. exists []. rewrite app_nil_r. repeat split; reflexivity.
  - destruct (add_col p obj lo up nm ent) as [p1|] eqn:A; [|discriminate]. destruct (add_col_cols _ _ _ _ _ _ _ A) as (c & C1 & R1).
    destruct (IH p1 p' H) as (cs & C2 & L2 & R2). exists (c :: cs). rewrite C2, C1, <- app_assoc. simpl. split; [reflexivity|]. split; [f_equal; exact L2|congruence].
Qed.

(* adding columns: the new columns are non-basic, the basis matrix does not change *)
Lemma bmatrix_ext_c p p' b cs st :
  length (ba_c b) = ncol p -> p_cols p' = p_cols p ++ cs -> p_rows p' = p_rows p -> length st = length cs -> (forall a, In a st -> is_basic a = false) ->
  bmatrix p' {| ba_c := ba_c b ++ st; ba_r := ba_r b |} = bmatrix p b.
Proof.
  intros L C R Ls Hs. unfold bmatrix, nrow. simpl. rewrite C, R. f_equal. f_equal.
  unfold unbasic. rewrite !map_app. apply keepb_app_unmarked.
  - rewrite !map_length. exact L.
  - intros x Hx. apply in_map_iff in Hx. destruct Hx as (a & <- & Ha). rewrite (Hs a Ha). reflexivity.
  - rewrite !map_length. exact Ls.
Qed.

(* an edit other than adding rows never sets factorok, and if it leaves it set it leaves the basis matrix as it was *)
Theorem edit_keeps_factor s o t b :
  Inv_dims s -> a_basis s = Some b -> snd (api_edit M s o) = ROk t -> is_addrows o = false -> a_factorok (fst (api_edit M s o)) = true ->
  a_factorok s = true /\ exists b', a_basis (fst (api_edit M s o)) = Some b' /\ bmatrix (a_p (fst (api_edit M s o))) b' = bmatrix (a_p s) b.
Proof.
  intros [ID _] B. unfold api_edit. destruct (pstep M (a_p s) o) as [p' r] eqn:P. destruct r as [t'| |]; simpl; try discriminate. intros _ NA.
  destruct (ID b B) as [Lc Lr].
  destruct (touches_matrix o) eqn:T.
  2:{ destruct (pstep_other_ents M _ _ _ _ T P) as (E1 & E3). pose proof (pstep_other_senses _ _ _ _ T P) as E2.
      destruct o; simpl in T; try discriminate; simpl; rewrite ?B; simpl;
        try (intros F; split; [exact F|exists b; split; [reflexivity|apply bmatrix_same; assumption]]); try discriminate.
      destruct (Bool.eqb (p_max p') (p_max (a_p s))); simpl; intros F; (split; [exact F|exists b; rewrite B; split; [reflexivity|apply bmatrix_same; assumption]]). }
  destruct o; simpl in T; try discriminate; try discriminate NA; simpl; rewrite ?B; simpl; try discriminate.
  - (* NewCol *) cbn [pstep] in P. unfold edit in P. destruct (add_col (a_p s) obj lo up nm []) as [p1|] eqn:A; inversion P; subst.
    destruct (add_col_cols _ _ _ _ _ _ _ A) as (c & C1 & R1). intros F. split; [exact F|]. eexists. split; [reflexivity|].
    apply (bmatrix_ext_c (a_p s) p' b [c] [col_stat M lo up]); try assumption; [reflexivity|]. intros a [<-|[]]. apply col_stat_unbasic.
  - (* AddCol *) cbn [pstep] in P. unfold edit in P. destruct (add_col (a_p s) obj lo up nm ent) as [p1|] eqn:A; inversion P; subst.
    destruct (add_col_cols _ _ _ _ _ _ _ A) as (c & C1 & R1). intros F. split; [exact F|]. eexists. split; [reflexivity|].
    apply (bmatrix_ext_c (a_p s) p' b [c] [col_stat M lo up]); try assumption; [reflexivity|]. intros a [<-|[]]. apply col_stat_unbasic.
  - (* AddCols *) cbn [pstep] in P. unfold edit in P. destruct (add_cols (a_p s) l) as [p1|] eqn:A; inversion P; subst.
    destruct (add_cols_cols _ _ _ A) as (cs & C1 & L1 & R1). intros F. split; [exact F|]. eexists. split; [reflexivity|].
    apply (bmatrix_ext_c (a_p s) p' b cs); try assumption; [rewrite map_length; symmetry; exact L1|].
    intros a Ha. apply in_map_iff in Ha. destruct Ha as (x & <- & _). apply col_stat_unbasic.
  - (* DelRows *) destruct (match idxs (nrow (a_p s)) l with Some ds => ds | None => [] end); simpl; [rewrite B; simpl; discriminate|].
    unfold eff_delrows. rewrite B. repeat match goal with |- context [if ?c then _ else _] => destruct c end; simpl; discriminate.
  - (* DelSetRows *) destruct (flagged flags 0 (nrow (a_p s))) eqn:Fl; simpl.
    + intros F. split; [exact F|]. exists b. rewrite B. split; [reflexivity|]. cbn [pstep] in P. unfold edit in P. inversion P; subst. rewrite Fl. reflexivity.
    + unfold eff_delrows. rewrite B. repeat match goal with |- context [if ?c then _ else _] => destruct c end; simpl; discriminate.
  - (* DelNRows *) destruct (match find_names (rownames (a_p s)) l with Some ds => ds | None => [] end) eqn:Fl; simpl.
    + intros F. split; [exact F|]. exists b. rewrite B. split; [reflexivity|]. cbn [pstep] in P. unfold edit, del_named_rows in P.
      destruct (find_names (rownames (a_p s)) l); [|discriminate]. destruct (nodupn l0); [|discriminate]. inversion P; subst. reflexivity.
    + unfold eff_delrows. rewrite B. repeat match goal with |- context [if ?c then _ else _] => destruct c end; simpl; discriminate.
  - (* DelCols *) destruct (match idxs (ncol (a_p s)) l with Some ds => ds | None => [] end); simpl; [discriminate|]. unfold eff_delcols. simpl. discriminate.
  - (* DelSetCols *) destruct (flagged flags 0 (ncol (a_p s))) eqn:Fl; simpl.
    + intros F. split; [exact F|]. exists b. rewrite B. split; [reflexivity|]. cbn [pstep] in P. unfold edit in P. inversion P; subst. rewrite Fl. reflexivity.
    + unfold eff_delcols. simpl. discriminate.
  - (* DelNCols *) destruct (match find_names (colnames (a_p s)) l with Some ds => ds | None => [] end) eqn:Fl; simpl.
    + intros F. split; [exact F|]. exists b. rewrite B. split; [reflexivity|]. cbn [pstep] in P. unfold edit, del_named_cols in P.
      destruct (find_names (colnames (a_p s)) l); [|discriminate]. destruct (nodupn l0); [|discriminate]. inversion P; subst. reflexivity.
    + unfold eff_delcols. simpl. discriminate.
Qed.
End Factor.

(* ---- histories: a ghost value remembers what the last solve factored -------------------------------------------- *)
Section Ghost.
Variable M : Q.

Definition bm : Type := (list (list (nat * Q)) * list (nat * sense) * nat)%type.

(* the solve really runs (not skipped, no size error): then it factors the basis it returns *)
Definition solve_runs (s : api) (dual : bool) : bool :=
  negb (match a_basis s, a_cache s with Some _, Some _ => a_factorok s | _, _ => false end) &&
  match a_basis s with Some b => dims_ok_b (a_p s) b | None => true end.

Lemma eff_delrows_factor s p' ds : a_factorok (eff_delrows s p' ds) = false.
Proof. unfold eff_delrows. match goal with |- context [if ?c then _ else _] => destruct c end; reflexivity. Qed.
Lemma eff_delcols_factor s p' ds : a_factorok (eff_delcols s p' ds) = false.
Proof. reflexivity. Qed.

(* no edit other than adding rows sets the flag *)
Lemma edit_factor_mono s o : is_addrows o = false -> a_factorok (fst (api_edit M s o)) = true -> a_factorok s = true.
Proof.
  intros NA. unfold api_edit. destruct (pstep M (a_p s) o) as [p' r]. destruct r as [t| |]; simpl; try (intros F; exact F).
  destruct o; try discriminate NA; simpl; try (intros F; exact F); try discriminate.
  - destruct (match idxs (nrow (a_p s)) l with Some ds => ds | None => [] end); [destruct (a_basis s); simpl; discriminate|rewrite eff_delrows_factor; discriminate].
  - destruct (flagged flags 0 (nrow (a_p s))); [intros F; exact F|rewrite eff_delrows_factor; discriminate].
  - destruct (match find_names (rownames (a_p s)) l with Some ds => ds | None => [] end); [intros F; exact F|rewrite eff_delrows_factor; discriminate].
  - destruct (match idxs (ncol (a_p s)) l with Some ds => ds | None => [] end); simpl; discriminate.
  - destruct (flagged flags 0 (ncol (a_p s))); [intros F; exact F|simpl; discriminate].
  - destruct (match find_names (colnames (a_p s)) l with Some ds => ds | None => [] end); [intros F; exact F|simpl; discriminate].
  - destruct (Bool.eqb (p_max p') (p_max (a_p s))); intros F; exact F.
Qed.

(* QSadd_row(s) / QSnew_row: the flag afterwards, as ILLlib_addrows leaves it *)
Theorem addrows_factor_spec s o t :
  snd (api_edit M s o) = ROk t -> is_addrows o = true -> a_factorok (fst (api_edit M s o)) = addrows_factor s.
Proof.
  unfold api_edit. destruct (pstep M (a_p s) o) as [p' r]. destruct r as [t'| |]; simpl; try discriminate. intros _.
  destruct o; simpl; try discriminate; intros _; reflexivity.
Qed.

Lemma addrows_basis s o t : snd (api_edit M s o) = ROk t -> a_factorok (fst (api_edit M s o)) = true -> is_addrows o = true ->
  exists b', a_basis (fst (api_edit M s o)) = Some b'.
Proof.
  unfold api_edit. destruct (pstep M (a_p s) o) as [p' r]. destruct r as [t'| |]; simpl; try discriminate. intros _.
  destruct o; simpl; try discriminate; unfold addrows_factor; destruct (a_basis s); simpl; try discriminate; intros _ _; eexists; reflexivity.
Qed.

Definition gstep (sg : api * option bm) (o : aop) : api * option bm :=
  let s' := api_step M (fst sg) o in
  (s', match o with
       | ASolve d r => if solve_runs (fst sg) d then Some (bmatrix (a_p (fst sg)) (an_basis r)) else snd sg
       | AEdit e => (* ILLlib_addrows refactors the extended basis when it ends with the flag set *)
                    if (is_addrows e && a_factorok s')%bool
                    then match a_basis s' with Some b' => Some (bmatrix (a_p s') b') | None => snd sg end else snd sg
       | _ => snd sg
       end).
Definition grun (sg : api * option bm) (l : list aop) : api * option bm := fold_left gstep l sg.

Definition Inv_factor (sg : api * option bm) : Prop :=
  a_factorok (fst sg) = true -> exists b, a_basis (fst sg) = Some b /\ snd sg = Some (bmatrix (a_p (fst sg)) b).

Lemma grun_fst l : forall sg, fst (grun sg l) = api_run M (fst sg) l.
Proof. unfold grun, api_run. induction l as [|o r IH]; intros sg; simpl; [reflexivity|]. rewrite IH. reflexivity. Qed.

Theorem gstep_factor sg o : Inv_dims (fst sg) -> Inv_factor sg -> Inv_factor (gstep sg o).
Proof.
  destruct sg as [s g]. simpl. intros D I. unfold Inv_factor, gstep. simpl fst. simpl snd. destruct o; simpl api_step.
  - (* edit *) intros F. destruct (is_addrows o) eqn:NA.
    { (* rows were added and the flag is set: the extended basis was refactored *)
      rewrite F. simpl andb. cbv iota. destruct (snd (api_edit M s o)) as [t| |] eqn:R.
      - destruct (addrows_basis s o t R F NA) as (b' & B'). rewrite B'. exists b'. split; reflexivity.
      - assert (E : fst (api_edit M s o) = s).
        { unfold api_edit in *. destruct (pstep M (a_p s) o) as [p' r]. destruct r; simpl in *; try discriminate; reflexivity. }
        rewrite E in *. destruct (I F) as (b0 & B0 & _). simpl in B0. rewrite B0. exists b0. split; reflexivity.
      - assert (E : fst (api_edit M s o) = s).
        { unfold api_edit in *. destruct (pstep M (a_p s) o) as [p' r]. destruct r; simpl in *; try discriminate; reflexivity. }
        rewrite E in *. destruct (I F) as (b0 & B0 & _). simpl in B0. rewrite B0. exists b0. split; reflexivity. }
    simpl andb. cbv iota. destruct (snd (api_edit M s o)) as [t| |] eqn:R.
    + destruct (a_basis s) as [b|] eqn:B.
      * destruct (edit_keeps_factor M s o t b D B R NA F) as (F0 & b' & B' & E'). exists b'. split; [exact B'|].
        destruct (I F0) as (b0 & B0 & G0). simpl in B0, G0. rewrite B in B0. inversion B0; subst b0. rewrite E'. exact G0.
      * (* without a stored basis factorok cannot be set afterwards *)
        exfalso. pose proof (edit_factor_mono s o NA F) as F0.
        destruct (I F0) as (b0 & B0 & _). simpl in B0. congruence.
    + assert (E : fst (api_edit M s o) = s).
      { unfold api_edit in *. destruct (pstep M (a_p s) o) as [p' r]. destruct r; simpl in *; try discriminate; reflexivity. }
      rewrite E in *. apply I. exact F.
    + assert (E : fst (api_edit M s o) = s).
      { unfold api_edit in *. destruct (pstep M (a_p s) o) as [p' r]. destruct r; simpl in *; try discriminate; reflexivity. }
      rewrite E in *. apply I. exact F.
  - (* solve *) unfold solve_runs, api_solve.
    destruct (match a_basis s, a_cache s with Some _, Some _ => a_factorok s | _, _ => false end); simpl; [exact I|].
    destruct (a_basis s) as [b|] eqn:B.
    + destruct (dims_ok_b (a_p s) b); simpl.
      * intros _. exists (an_basis r). split; reflexivity.
      * intros F. destruct (I F) as (b0 & B0 & G0). simpl in B0, G0. exists b0. split; [rewrite <- B; exact B0|exact G0].
    + simpl. intros _. exists (an_basis r). split; reflexivity.
  - (* load basis *) unfold api_load_basis. destruct (dims_ok_b (a_p s) b); simpl; [discriminate|exact I].
  - (* QSexact_solver *) simpl. discriminate.
Qed.

Theorem grun_factor l : forall sg, Inv_dims (fst sg) -> ops_dims M (fst sg) l -> Inv_factor sg -> Inv_factor (grun sg l).
Proof.
  unfold grun. induction l as [|o r IH]; intros sg D OD I; simpl; [exact I|]. destruct OD as [O1 O2].
  apply IH.
  - change (fst (gstep sg o)) with (api_step M (fst sg) o). apply api_step_dims; [exact D|]. simpl. split; [exact O1|exact Logic.I].
  - exact O2.
  - apply gstep_factor; assumption.
Qed.

Lemma Inv_factor_init p : Inv_factor (api_init p, None).
Proof. unfold Inv_factor. simpl. discriminate. Qed.

(* which edits reset the flag, read off the model: after these calls factorok is false whatever it was *)
Theorem matrix_edits_reset_factor s o t :
  snd (api_edit M s o) = ROk t ->
  match o with
  | DelRows _ | DelCols _ | ChgCoef _ _ _ | ChgRange _ _ | ChgSenses _ => True
  | _ => False
  end -> a_factorok (fst (api_edit M s o)) = false.
Proof.
  unfold api_edit. destruct (pstep M (a_p s) o) as [p' r]. destruct r as [t'| |]; simpl; try discriminate. intros _.
  destruct o; simpl; try contradiction; intros _; try reflexivity.
  - destruct (match idxs (nrow (a_p s)) l with Some ds => ds | None => [] end); simpl.
    + destruct (a_basis s); reflexivity.
    + unfold eff_delrows. repeat match goal with |- context [if ?c then _ else _] => destruct c end; reflexivity.
  - destruct (match idxs (ncol (a_p s)) l with Some ds => ds | None => [] end); simpl; reflexivity.
Qed.
End Ghost.
