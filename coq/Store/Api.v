(* The API state machine of DESIGN 4.5 ("Api"), over the reference model Store.Spec:
   what survives between calls of the public interface -
     a_p        the problem (L1),
     a_basis    the stored basis (status strings; only their lengths matter below),
     a_cache    the cached solution served by the accessors,
     a_qstatus  what QSget_status returns,
     a_factorok whether the next solve may reuse the factorization.
   The simplex itself is an *oracle*: a solve step carries the answer (status, basis,
   solution) the real solver produced.  The bookkeeping of the wrappers in qsopt.c
   (free_cache, factorok, basis repacking in ILLlib_delrows/delcols, the "skip the
   optimization when basis and cache exist" shortcut of QSopt_primal/dual) is modelled
   as the code has it (tree of 2026-09-30 incl. the factorok fix for QSchange_coef/senses).
   a_rn: whether the stored basis carries row norms (decides factorok after QSadd_row(s)).
   Not modelled: the LU factors, the values of the norms. *)
From Coq Require Import String Ascii ZArith.
From QSX Require Import Store.Spec Store.SpecInv.
From QSX Require Import LP.Cert LP.CertSound LP.Unique.
Local Open Scope Q_scope.

Record cache := { ca_val : Q; ca_x : list Q; ca_pi : list Q; ca_rc : list Q; ca_slack : list Q }.
Record basis := { ba_c : list ascii; ba_r : list ascii }.
Record api := { a_p : prob; a_basis : option basis; a_cache : option cache; a_qstatus : Z; a_factorok : bool;
                a_rn : bool (* the stored basis carries dual steepest-edge row norms (p->basis->rownorms) *) }.

Definition ST_OPTIMAL : Z := 1.
Definition ST_UNSOLVED : Z := 6.
Definition ST_MODIFIED : Z := 100.

Definition api_init (p : prob) : api :=
  {| a_p := p; a_basis := None; a_cache := None; a_qstatus := ST_UNSOLVED; a_factorok := false; a_rn := false |}.

Definition with_p (s : api) (p : prob) : api :=
  {| a_p := p; a_basis := a_basis s; a_cache := a_cache s; a_qstatus := a_qstatus s; a_factorok := a_factorok s; a_rn := a_rn s |}.
Definition with_basis (s : api) (b : option basis) : api :=
  {| a_p := a_p s; a_basis := b; a_cache := a_cache s; a_qstatus := a_qstatus s; a_factorok := a_factorok s; a_rn := a_rn s |}.
Definition with_factor (s : api) (f : bool) : api :=
  {| a_p := a_p s; a_basis := a_basis s; a_cache := a_cache s; a_qstatus := a_qstatus s; a_factorok := f; a_rn := a_rn s |}.
Definition with_rn (s : api) (r : bool) : api :=
  {| a_p := a_p s; a_basis := a_basis s; a_cache := a_cache s; a_qstatus := a_qstatus s; a_factorok := a_factorok s; a_rn := r |}.
(* free_cache() of qsopt.c *)
Definition free_cache (s : api) : api :=
  {| a_p := a_p s; a_basis := a_basis s; a_cache := None; a_qstatus := ST_MODIFIED; a_factorok := a_factorok s; a_rn := a_rn s |}.

Definition restrict {A} (l : list A) (ds : list nat) : list A := fold_left (fun l i => remove_nth i l) (sort_desc ds) l.

Section WithM.
Variable M : Q.

(* status given to a new structural column by ILLlib_addcol *)
Definition col_stat (lo up : Q) : ascii :=
  if (Qeq_bool lo (- M) && Qeq_bool up M)%bool then "3"%char
  else if Qeq_bool up M then "0"%char
  else if Qeq_bool lo M then "2"%char
  else if Qltb (Qabs lo) (Qabs up) then "0"%char else "2"%char.

Definition ext_c (s : api) (l : list ascii) : api :=
  with_basis s (match a_basis s with Some b => Some {| ba_c := ba_c b ++ l; ba_r := ba_r b |} | None => None end).
Definition ext_r (s : api) (k : nat) : api :=
  with_basis s (match a_basis s with Some b => Some {| ba_c := ba_c b; ba_r := ba_r b ++ repeat "1"%char k |} | None => None end).

Definition is_param (o : pop) : bool :=
  match o with SetParam _ _ | SetParamQ _ _ | MarkInt _ => true | _ => false end.

(* rows / columns a delete call removes (argument already validated by the reference step) *)
Definition del_rows_of (p : prob) (o : pop) : list nat :=
  match o with
  | DelRows l => match idxs (nrow p) l with Some ds => ds | None => [] end
  | DelSetRows f => flagged f 0 (nrow p)
  | DelNRows l => match find_names (rownames p) l with Some ds => ds | None => [] end
  | _ => []
  end.
Definition del_cols_of (p : prob) (o : pop) : list nat :=
  match o with
  | DelCols l => match idxs (ncol p) l with Some ds => ds | None => [] end
  | DelSetCols f => flagged f 0 (ncol p)
  | DelNCols l => match find_names (colnames p) l with Some ds => ds | None => [] end
  | _ => []
  end.

Definition stat_in (l : list ascii) (i : nat) (a : ascii) : bool := Ascii.eqb (nth i l "?"%char) a.

(* ILLlib_delrows + QSdelete_rows, for a non-empty list *)
Definition eff_delrows (s : api) (p' : prob) (ds : list nat) : api :=
  let basis_ok := match a_basis s with
                  | Some b => forallb (fun i => negb (stat_in (ba_r b) i "0" || stat_in (ba_r b) i "2")) ds
                  | None => false end in
  let cache_ok := match a_cache s with
                  | Some c => (basis_ok && forallb (fun i => Qeq_bool (nth i (ca_pi c) 0) 0) ds)%bool
                  | None => false end in
  let b' := if basis_ok then match a_basis s with Some b => Some {| ba_c := ba_c b; ba_r := restrict (ba_r b) ds |} | None => None end else None in
  let rn' := (basis_ok && a_rn s)%bool in
  let s1 := {| a_p := p'; a_basis := b'; a_cache := a_cache s; a_qstatus := a_qstatus s; a_factorok := false; a_rn := rn' |} in
  if cache_ok
  then {| a_p := p'; a_basis := b';
          a_cache := match a_cache s with
                     | Some c => Some {| ca_val := ca_val c; ca_x := ca_x c; ca_pi := restrict (ca_pi c) ds; ca_rc := ca_rc c; ca_slack := restrict (ca_slack c) ds |}
                     | None => None end;
          a_qstatus := a_qstatus s; a_factorok := false; a_rn := rn' |}
  else free_cache s1.

Definition eff_delcols (s : api) (p' : prob) (ds : list nat) : api :=
  let basis_ok := match a_basis s with
                  | Some b => forallb (fun j => negb (stat_in (ba_c b) j "1")) ds
                  | None => false end in
  let b' := if basis_ok then match a_basis s with Some b => Some {| ba_c := restrict (ba_c b) ds; ba_r := ba_r b |} | None => None end else None in
  free_cache {| a_p := p'; a_basis := b'; a_cache := a_cache s; a_qstatus := a_qstatus s; a_factorok := false; a_rn := (basis_ok && a_rn s)%bool |}.

(* QSchange_senses: only the logical of a ranged row can be nonbasic at its upper bound - a row that stops being
   ranged is moved from UPPER to LOWER in the stored basis (ILLbasis_load rejects UPPER for a non-ranged row) *)
Definition norm_rstat (s : api) (l : list (Z * ascii)) : api :=
  with_basis s (match a_basis s with
                | Some b => Some {| ba_c := ba_c b;
                                    ba_r := fold_left (fun r it => let i := Z.to_nat (fst it) in
                                              if (negb (Ascii.eqb (snd it) "R") && stat_in r i "2")%bool
                                              then upd_nth i (fun _ => "1"%char) r else r) l (ba_r b) |}
                | None => None end).

(* ILLlib_addrows: without stored row norms the flag is cleared; with them the new rows get norms - from the live
   factorization when factorok was set (then the flag is cleared: "badfactor"), else after refactoring the extended
   basis (then the flag is set) *)
Definition addrows_factor (s : api) : bool :=
  match a_basis s with Some _ => (a_rn s && negb (a_factorok s))%bool | None => false end.

(* what the wrapper of a successful edit does besides changing the problem *)
Definition apply_effect (s : api) (o : pop) (p' : prob) : api :=
  match o with
  | NewCol _ lo up _ | AddCol _ lo up _ _ => free_cache (ext_c (with_p s p') [col_stat lo up])
  | AddCols l => free_cache (ext_c (with_p s p') (map (fun c => col_stat (snd (fst (fst (fst c)))) (snd (fst (fst c)))) l))
  | NewRow _ _ _ | AddRow _ _ _ _ _ => free_cache (with_factor (ext_r (with_p s p') 1) (addrows_factor s))
  | AddRows l => free_cache (with_factor (ext_r (with_p s p') (length l)) (addrows_factor s))
  | DelRows _ =>
      match del_rows_of (a_p s) o with
      | [] => let s1 := with_factor (with_p s p') false in match a_basis s with None => free_cache s1 | Some _ => s1 end
      | ds => eff_delrows s p' ds
      end
  | DelSetRows _ | DelNRows _ =>
      match del_rows_of (a_p s) o with [] => with_p s p' | ds => eff_delrows s p' ds end
  | DelCols _ =>
      match del_cols_of (a_p s) o with
      | [] => free_cache (with_factor (with_p s p') false)
      | ds => eff_delcols s p' ds
      end
  | DelSetCols _ | DelNCols _ =>
      match del_cols_of (a_p s) o with [] => with_p s p' | ds => eff_delcols s p' ds end
  | ChgSenses l => free_cache (with_rn (with_factor (norm_rstat (with_p s p') l) false) false)
  | ChgCoef _ _ _ => free_cache (with_rn (with_factor (with_p s p') false) false)
  | ChgRange _ _ => free_cache (with_factor (with_p s p') false)
  | ChgObj _ _ | ChgRhs _ _ | ChgBnds _ => free_cache (with_p s p')
  | ChgObjSense _ => if Bool.eqb (p_max p') (p_max (a_p s)) then with_p s p' else free_cache (with_p s p')
  | _ => with_p s p'
  end.

Definition api_edit (s : api) (o : pop) : api * result :=
  let (p', r) := pstep M (a_p s) o in
  match r with
  | ROk _ => (apply_effect s o p', r)
  | _ => (s, r)
  end.

(* ---- solves: the simplex is an oracle ----------------------------------------------------- *)
Record oans := { an_status : Z; an_basis : basis; an_sol : cache; an_rn : bool (* grab_basis obtained row norms *) }.

Definition dims_ok_b (p : prob) (b : basis) : bool :=
  (Nat.eqb (length (ba_c b)) (ncol p) && Nat.eqb (length (ba_r b)) (nrow p))%bool.

(* QSopt_primal (dual = false) / QSopt_dual (dual = true) with opt_work; returns (state, rval <> 0).
   Both entry points answer from the cache only while factorok holds (QSopt_primal since the repair of 2026-10-01:
   a basis loaded after the solve is not the one the cached solution belongs to). *)
Definition api_solve (s : api) (dual : bool) (r : oans) : api * bool :=
  let skip := match a_basis s, a_cache s with Some _, Some _ => a_factorok s | _, _ => false end in
  if skip then (s, false)
  else match a_basis s with
       | Some b => if dims_ok_b (a_p s) b then
                     ({| a_p := a_p s; a_basis := Some (an_basis r);
                         a_cache := if (an_status r =? ST_OPTIMAL)%Z then Some (an_sol r) else None;
                         a_qstatus := an_status r; a_factorok := true; a_rn := an_rn r |}, false)
                   else ({| a_p := a_p s; a_basis := a_basis s; a_cache := a_cache s; a_qstatus := ST_UNSOLVED; a_factorok := a_factorok s; a_rn := a_rn s |}, true)
       | None => ({| a_p := a_p s; a_basis := Some (an_basis r);
                     a_cache := if (an_status r =? ST_OPTIMAL)%Z then Some (an_sol r) else None;
                     a_qstatus := an_status r; a_factorok := true; a_rn := an_rn r |}, false)
       end.

(* QSload_basis / QSload_basis_array *)
Definition api_load_basis (s : api) (b : basis) : api * bool :=
  if dims_ok_b (a_p s) b then (with_rn (with_factor (with_basis s (Some b)) false) false, false) else (s, true).

(* QSexact_solver leaving through QSexact_optimal_test: basis loaded, cache filled, status OPTIMAL *)
Definition api_exact_cert (s : api) (b : basis) (c : cache) : api :=
  {| a_p := a_p s; a_basis := Some b; a_cache := Some c; a_qstatus := ST_OPTIMAL; a_factorok := false; a_rn := false |}.

Inductive aop :=
| AEdit (o : pop)
| ASolve (dual : bool) (r : oans)
| ALoadBasis (b : basis)
| AExactCert (b : basis) (c : cache).

Definition api_step (s : api) (o : aop) : api :=
  match o with
  | AEdit e => fst (api_edit s e)
  | ASolve d r => fst (api_solve s d r)
  | ALoadBasis b => fst (api_load_basis s b)
  | AExactCert b c => api_exact_cert s b c
  end.
Definition api_run (s : api) (l : list aop) : api := fold_left api_step l s.

(* ---- accessors ------------------------------------------------------------------------------ *)
Definition acc_x (s : api) : option (list Q) := option_map ca_x (a_cache s).
Definition acc_pi (s : api) : option (list Q) := option_map ca_pi (a_cache s).
Definition acc_rc (s : api) : option (list Q) := option_map ca_rc (a_cache s).
Definition acc_slack (s : api) : option (list Q) := option_map ca_slack (a_cache s).
Definition acc_solution (s : api) : option cache := a_cache s.
(* QSget_objval refuses after a modification; with a cache it serves the cached value *)
Definition acc_objval_cached (s : api) : option Q :=
  if (a_qstatus s =? ST_MODIFIED)%Z then None else option_map ca_val (a_cache s).

(* ---- invariants ----------------------------------------------------------------------------- *)
Definition dims_ok_c (p : prob) (c : cache) : Prop :=
  length (ca_x c) = ncol p /\ length (ca_rc c) = ncol p /\ length (ca_pi c) = nrow p /\ length (ca_slack c) = nrow p.
Definition Inv_dims (s : api) : Prop :=
  (forall b, a_basis s = Some b -> length (ba_c b) = ncol (a_p s) /\ length (ba_r b) = nrow (a_p s)) /\
  (forall c, a_cache s = Some c -> dims_ok_c (a_p s) c).

(* the cached solution is an exact optimality certificate of the LP as it now stands *)
Definition cert (p : prob) (c : cache) : Prop :=
  check_kkt (inf_sentinel M) (to_internal M (to_ulp p)) (ca_x c ++ ca_slack c) (ca_pi c) (ca_val c) = true.
Definition Inv_cache (s : api) : Prop := forall c, a_cache s = Some c -> cert (a_p s) c.

(* what is assumed of the oracle: answers have the problem's dimensions; OPTIMAL comes with a certificate *)
Definition answer_dims (p : prob) (r : oans) : Prop :=
  length (ba_c (an_basis r)) = ncol p /\ length (ba_r (an_basis r)) = nrow p /\ dims_ok_c p (an_sol r).
Definition answer_cert (p : prob) (r : oans) : Prop := an_status r = ST_OPTIMAL -> cert p (an_sol r).

End WithM.
