(* The vocabulary of the generated guard list (coq/Gen/Guards.v, written by tools/gen_guards.py from the current source of
   qsopt_ex/lib.c and qsopt_ex/qsopt.c): a range check of an index argument as an expression tree over
   (index, nrows, nstruct, ncols), its evaluation, and what the index is meant to be (its role). *)
From Coq Require Import ZArith List String Bool.
Open Scope Z_scope.

Inductive role := RRow | RCol | RICol | RUnknown.     (* row | structural column | internal column (logicals included) | not classified *)
Inductive gterm := TNrows | TNstruct | TNcols | TConst (z : Z).
Inductive gcmp := CLt | CLe | CGt | CGe | CEq | CNe.
(* GCmp c t: `index c t` *)
Inductive gtree := GCmp (c : gcmp) (t : gterm) | GOr (a b : gtree) | GAnd (a b : gtree) | GNot (a : gtree).

Record guard := { g_fn : string; g_arg : string; g_role : role; g_tree : gtree; g_src : string }.

Definition term_val (nrows nstruct ncols : Z) (t : gterm) : Z :=
  match t with TNrows => nrows | TNstruct => nstruct | TNcols => ncols | TConst z => z end.

Definition cmp_val (c : gcmp) (a b : Z) : bool :=
  match c with
  | CLt => a <? b | CLe => a <=? b | CGt => b <? a | CGe => b <=? a | CEq => a =? b | CNe => negb (a =? b)
  end.

(* true = the C condition holds = the call is rejected *)
Fixpoint rejects (g : gtree) (i nrows nstruct ncols : Z) : bool :=
  match g with
  | GCmp c t => cmp_val c i (term_val nrows nstruct ncols t)
  | GOr a b => rejects a i nrows nstruct ncols || rejects b i nrows nstruct ncols
  | GAnd a b => rejects a i nrows nstruct ncols && rejects b i nrows nstruct ncols
  | GNot a => negb (rejects a i nrows nstruct ncols)
  end.

(* the valid range of an index by role *)
Definition idx_in_range (r : role) (i nrows nstruct ncols : Z) : Prop :=
  match r with
  | RRow => 0 <= i < nrows
  | RCol => 0 <= i < nstruct
  | RICol => 0 <= i < ncols
  | RUnknown => False
  end.

(* a guard is exact: in every state of the store (ncols = nstruct + nrows, sizes non-negative) it rejects precisely the indices
   outside the range of its role *)
Definition guard_exact (g : guard) : Prop :=
  forall i nrows nstruct ncols, 0 <= nrows -> 0 <= nstruct -> ncols = nstruct + nrows ->
    (rejects (g_tree g) i nrows nstruct ncols = true <-> ~ idx_in_range (g_role g) i nrows nstruct ncols).

(* the executable side used by checks/C07.py when the theorem breaks: does the guard accept index i in a store of the given sizes? *)
Definition guard_accepts (g : guard) (i nrows nstruct : Z) : bool := negb (rejects (g_tree g) i nrows nstruct (nstruct + nrows)).
Definition role_accepts (r : role) (i nrows nstruct : Z) : bool :=
  match r with
  | RRow => (0 <=? i) && (i <? nrows)
  | RCol => (0 <=? i) && (i <? nstruct)
  | RICol => (0 <=? i) && (i <? nstruct + nrows)
  | RUnknown => false
  end.
