(* L2 of DESIGN 4.5: the concrete column store of qsopt_ex/lib.c (struct ILLmatrix in lpdata.h).

   All columns (structural and logical) live in one array of slots (matind, matval) of length matsize:
   column j occupies the slots matbeg[j] .. matbeg[j] + matcnt[j] - 1; an empty column owns the one slot
   matbeg[j], marked with the dummy index 1 ("to stop columns from stealing this space"); a free slot is
   marked -1; the last matfree slots are free.  A column that cannot grow in place is moved behind the used
   part (leaving its old slots as holes marked -1, and one free slot in front of its new place); when the
   free tail is too short the whole array is rebuilt compactly with EXTRA_MAT new slots (matrix_addrow_end).
   Deletes pack matbeg/matcnt, mark the slots of deleted columns free (the dummy slot of a deleted empty
   column stays behind as garbage) and compact every remaining column in place.

   The model follows matrix_addrow, matrix_addrow_end, matrix_addcoef, matrix_addcol, delcols_work and the
   packing loop of ILLlib_delrows branch by branch; loops that copy a block are block operations here.
   Result type: Ok m | Rej (the argument check of the C function fails: rval 1, nothing written) |
   Fault (the C code would read or write outside matind/matbeg, or reach exit(1) in matrix_addrow).

   matcols = length beg, matsize = length slots.  Values of slots outside the live columns are not
   meaningful (uninitialised or stale in C); the model writes 0 there.
   EXTRA_COLS / EXTRA_MAT are parameters (extra_cols, extra_mat): the theorems hold for every value
   (extra_cols > 0); extraction instantiates 100 / 1000. *)
From Coq Require Import ZArith List Lia Bool Arith QArith.
From QSX Require Import Store.Spec.
Import ListNotations.
Local Open Scope nat_scope.

Definition slot : Type := (Z * Q)%type.
Definition FREE : Z := (-1)%Z.
Definition DUMMY : Z := 1%Z.
Definition dslot : slot := (FREE, 0%Q).
Definition dummy_slot : slot := (DUMMY, 0%Q).

Record mat := { slots : list slot; beg : list nat; cnt : list nat; mfree : nat; mrows : nat; colsize : nat }.

Inductive res (A : Type) := Ok (a : A) | Rej | Fault.
Arguments Ok {A} a.
Arguments Rej {A}.
Arguments Fault {A}.
Definition bind {A B} (r : res A) (f : A -> res B) : res B :=
  match r with Ok a => f a | Rej => Rej | Fault => Fault end.

Definition msize (m : mat) : nat := length (slots m).
Definition mcols (m : mat) : nat := length (beg m).
Definition used (m : mat) : nat := msize m - mfree m.
Definition ind_at (m : mat) (k : nat) : Z := fst (nth k (slots m) dslot).
Definition begj (m : mat) (j : nat) : nat := nth j (beg m) 0.
Definition cntj (m : mat) (j : nat) : nat := nth j (cnt m) 0.

(* block read / block write *)
Definition rd {A} (b c : nat) (l : list A) : list A := firstn c (skipn b l).
Definition wr {A} (k : nat) (blk l : list A) : list A := firstn k l ++ blk ++ skipn (k + length blk) l.
Definition free_blk (b c : nat) (l : list slot) : list slot := wr b (repeat dslot c) l.
Definition set_nth {A} (j : nat) (x : A) (l : list A) : list A := upd_nth j (fun _ => x) l.
Definition ent_slot (e : nat * Q) : slot := (Z.of_nat (fst e), snd e).
Definition slot_ent (s : slot) : nat * Q := (Z.to_nat (fst s), snd s).

Definition empty_mat : mat := {| slots := []; beg := []; cnt := []; mfree := 0; mrows := 0; colsize := 0 |}.

(* ---- abstraction ------------------------------------------------------------------------------ *)
Definition col_slots (m : mat) (j : nat) : list slot := rd (begj m j) (cntj m j) (slots m).
Definition col_ents (m : mat) (j : nat) : list (nat * Q) := map slot_ent (col_slots m j).
Definition abs (m : mat) : list (list (nat * Q)) := map (col_ents m) (seq 0 (mcols m)).

(* ---- the three ways of appending one entry to column j in place ------------------------------- *)
Definition put (m : mat) (sl : list slot) (j b c fr : nat) : mat :=
  {| slots := sl; beg := set_nth j b (beg m); cnt := set_nth j c (cnt m); mfree := fr; mrows := mrows m; colsize := colsize m |}.

(* matcnt[j] == 0: the column's own (dummy) slot receives the entry *)
Definition fill_empty (m : mat) (j b : nat) (e : slot) : mat := put m (wr b [e] (slots m)) j b 1 (mfree m).
(* the slot behind the column is free *)
Definition in_place (m : mat) (j b c : nat) (e : slot) : mat :=
  put m (wr (b + c) [e] (slots m)) j b (S c) (if b + c =? used m then mfree m - 1 else mfree m).
(* move the column behind the used part, leaving one free slot in front of it *)
Definition relocate (m : mat) (j b c : nat) (e : slot) : res mat :=
  let dst := S (used m) in
  if msize m <? dst + S c then Fault
  else Ok (put m (wr dst (rd b c (slots m) ++ [e]) (free_blk b c (slots m))) j dst (S c) (mfree m - (c + 2))).

Section Growth.
Variables extra_cols extra_mat : nat.
(* which matrix_addrow: false = the loop as found (it can run into its own exit(1) when the row repeats a column index),
   true = the repaired loop of notes/repo_patches/matrix_addrow_repeated_column.diff.  checks/C06.py probes the library
   and runs the extracted model with the variant it finds. *)
Variable fixed : bool.

(* ---- matrix_addrow_end: rebuild the array compactly, appending the entries ents (column, value) of row r --- *)
Definition newcol (m : mat) (r : nat) (ents : list (nat * Q)) (j : nat) : list slot :=
  col_slots m j ++ map (fun e => (Z.of_nat r, snd e)) (filter (fun e => fst e =? j) ents).
Definition pad (cs : list slot) : list slot := match cs with [] => [dummy_slot] | _ => cs end.
Fixpoint offsets (acc : nat) (ls : list nat) : list nat :=
  match ls with [] => [] | n :: r => acc :: offsets (acc + n) r end.

Definition repack (m : mat) (r : nat) (ents : list (nat * Q)) : res mat :=
  let cols := map (newcol m r ents) (seq 0 (mcols m)) in
  let blocks := map pad cols in
  let body := concat blocks in
  let newsize := msize m + length ents + extra_mat in
  if newsize <? length body then Fault
  else Ok {| slots := body ++ repeat dslot (newsize - length body);
             beg := offsets 0 (map (@length slot) blocks); cnt := map (@length slot) cols;
             mfree := newsize - length body; mrows := mrows m; colsize := colsize m |}.

(* ---- matrix_addrow ------------------------------------------------------------------------------ *)
(* the test of the delta loop: the column has entries and cannot take one more in place *)
Definition blocked (m : mat) (j : nat) : bool :=
  let b := begj m j in let c := cntj m j in
  negb (c =? 0) && ((msize m <? b + c + 1) || negb (ind_at m (b + c) =? FREE)%Z).
Definition delta (m : mat) (ents : list (nat * Q)) : nat :=
  fold_left (fun d e => if blocked m (fst e) then d + cntj m (fst e) + 2 else d) ents 0.

Definition append_step (r : nat) (om : res mat) (e : nat * Q) : res mat :=
  bind om (fun m =>
    let j := fst e in let b := begj m j in let c := cntj m j in let s := (Z.of_nat r, snd e) in
    if c =? 0 then (if msize m <=? b then Fault else Ok (fill_empty m j b s))
    else if msize m <=? b + c then Fault
    else if (ind_at m (b + c) =? FREE)%Z then Ok (in_place m j b c s)
    else relocate m j b c s).

(* the repaired loop: the same three branches, each behind the test that makes it legal (the slot behind the column exists
   before it is read; the moved column fits into the free tail); when neither holds - only possible when the row repeats a
   column index, see MatrixSafe.append_fixed_conservative / fold_append_safe - the remaining entries go through
   matrix_addrow_end (rowcnt - i, rowind + i, rowval + i) *)
Fixpoint append_fixed (r : nat) (ents : list (nat * Q)) (m : mat) : res mat :=
  match ents with
  | [] => Ok m
  | e :: rest =>
      let j := fst e in let b := begj m j in let c := cntj m j in let s := (Z.of_nat r, snd e) in
      if c =? 0 then (if msize m <=? b then Fault else append_fixed r rest (fill_empty m j b s))
      else if (b + c <? msize m) && (ind_at m (b + c) =? FREE)%Z then append_fixed r rest (in_place m j b c s)
      else if c + 2 <=? mfree m then bind (relocate m j b c s) (append_fixed r rest)
      else repack m r ents
  end.

Definition set_rows (m : mat) (r : nat) : mat :=
  {| slots := slots m; beg := beg m; cnt := cnt m; mfree := mfree m; mrows := r; colsize := colsize m |}.

Definition mat_addrow (m : mat) (ents : list (nat * Q)) : res mat :=
  if negb (forallb (fun e => fst e <? mcols m) ents) then Rej
  else bind (if delta m ents <? mfree m
             then (if fixed then append_fixed (mrows m) ents m else fold_left (append_step (mrows m)) ents (Ok m))
             else repack m (mrows m) ents)
            (fun m' => Ok (set_rows m' (S (mrows m)))).

(* ---- matrix_addcoef ----------------------------------------------------------------------------- *)
Fixpoint find_ind (r : Z) (l : list slot) : option nat :=
  match l with
  | [] => None
  | s :: t => if (fst s =? r)%Z then Some 0 else option_map S (find_ind r t)
  end.

(* result: the new matrix and whether a new entry was stored (nzcount++) *)
Definition mat_addcoef (m : mat) (i j : nat) (v : Q) : res (mat * bool) :=
  if negb (i <? mrows m) || negb (j <? mcols m) then Rej
  else
    let b := begj m j in let c := cntj m j in let e := (Z.of_nat i, v) in
    if msize m <? b + c then Fault
    else match find_ind (Z.of_nat i) (rd b c (slots m)) with
         | Some k => Ok ({| slots := wr (b + k) [e] (slots m); beg := beg m; cnt := cnt m; mfree := mfree m;
                            mrows := mrows m; colsize := colsize m |}, false)
         | None =>
             bind (if c =? 0 then (if msize m <=? b then Fault else Ok (fill_empty m j b e))
                   else if (b + c <? msize m) && (ind_at m (b + c) =? FREE)%Z then Ok (in_place m j b c e)
                   else if c + 2 <? mfree m then relocate m j b c e
                   else repack m i [(j, v)])
                  (fun m' => Ok (m', true))
         end.

(* ILLlib_chgsense writes the coefficient of a logical column: matval[matbeg[j]] *)
Definition mat_setval (m : mat) (j : nat) (v : Q) : res mat :=
  let b := begj m j in
  if negb (cntj m j =? 1) then Rej
  else if msize m <=? b then Fault
  else Ok {| slots := wr b [(ind_at m b, v)] (slots m); beg := beg m; cnt := cnt m; mfree := mfree m;
             mrows := mrows m; colsize := colsize m |}.

(* ---- matrix_addcol ------------------------------------------------------------------------------ *)
Definition mat_addcol (m : mat) (ents : list (nat * Q)) : res mat :=
  if negb (forallb (fun e => fst e <? mrows m) ents) then Rej
  else
    let k := length ents in
    let cs := if colsize m <? mcols m + 1 then colsize m + extra_cols else colsize m in
    let grow := mfree m <? k + 1 in
    let sl := if grow then slots m ++ repeat dslot (k + extra_mat + 1) else slots m in
    let fr := if grow then mfree m + (k + extra_mat + 1) else mfree m in
    let b := length sl - fr in
    let w := Nat.max k 1 in
    if cs <? mcols m + 1 then Fault
    else if length sl <? b + w then Fault
    else Ok {| slots := wr b (match ents with [] => [dummy_slot] | _ => map ent_slot ents end) sl;
               beg := beg m ++ [b]; cnt := cnt m ++ [k]; mfree := fr - w; mrows := mrows m; colsize := cs |}.

End Growth.

(* ---- delcols_work (+ matcols -= num): mk[j] = column j is deleted --------------------------------- *)
Fixpoint keepb {A} (mk : list bool) (l : list A) : list A :=
  match mk, l with
  | true :: mk', _ :: l' => keepb mk' l'
  | false :: mk', a :: l' => a :: keepb mk' l'
  | _, _ => []
  end.
(* newcolindex / newrowindex: the number of unmarked positions before j *)
Definition newidx (mk : list bool) (j : nat) : nat := length (filter negb (firstn j mk)).

Fixpoint free_marked (mk : list bool) (bs cs : list nat) (sl : list slot) : list slot :=
  match mk, bs, cs with
  | d :: mk', b :: bs', c :: cs' => free_marked mk' bs' cs' (if d then free_blk b c sl else sl)
  | _, _, _ => sl
  end.

Definition cols_inside (m : mat) : bool :=
  forallb (fun bc => fst bc + snd bc <=? msize m) (combine (beg m) (cnt m)).

Definition mat_delcols (m : mat) (mk : list bool) : res mat :=
  if negb (length mk =? mcols m) then Rej
  else if negb (cols_inside m) then Fault
  else Ok {| slots := free_marked mk (beg m) (cnt m) (slots m); beg := keepb mk (beg m); cnt := keepb mk (cnt m);
             mfree := mfree m; mrows := mrows m; colsize := colsize m |}.

(* ---- the packing loop of ILLlib_delrows: rmk[i] = row i is deleted ---------------------------------- *)
Definition row_kept (rmk : list bool) (s : slot) : bool := negb (nth (Z.to_nat (fst s)) rmk false).
Definition renum (rmk : list bool) (s : slot) : slot := (Z.of_nat (newidx rmk (Z.to_nat (fst s))), snd s).
Definition compact_col (rmk : list bool) (sl : list slot) (b c : nat) : list slot * nat :=
  let kept := map (renum rmk) (filter (row_kept rmk) (rd b c sl)) in
  let k := length kept in
  let sl1 := wr b (kept ++ repeat dslot (c - k)) sl in
  (if k =? 0 then wr b [dummy_slot] sl1 else sl1, k).
Fixpoint compact_all (rmk : list bool) (sl : list slot) (bs cs : list nat) : list slot * list nat :=
  match bs, cs with
  | b :: bs', c :: cs' =>
      let (sl1, k) := compact_col rmk sl b c in
      let (sl2, ks) := compact_all rmk sl1 bs' cs' in (sl2, k :: ks)
  | _, _ => (sl, [])
  end.
(* every stored row index can be looked up in rowmark *)
Definition rows_inside (m : mat) : bool :=
  forallb (fun bc => forallb (fun s => (0 <=? fst s)%Z && (Z.to_nat (fst s) <? mrows m)) (rd (fst bc) (snd bc) (slots m)))
          (combine (beg m) (cnt m)).

Definition mat_delrows (m : mat) (rmk : list bool) : res mat :=
  if negb (length rmk =? mrows m) then Rej
  else if negb (cols_inside m && rows_inside m) then Fault
  else if existsb (fun bc => msize m <=? fst bc) (combine (beg m) (cnt m)) then Fault
  else let (sl, ks) := compact_all rmk (slots m) (beg m) (cnt m) in
       Ok {| slots := sl; beg := beg m; cnt := ks; mfree := mfree m; mrows := length (filter negb rmk); colsize := colsize m |}.

(* ---- the store of ILLlpdata: matrix + structmap + rowmap + nzcount ------------------------------------ *)
Record lstore := { lA : mat; smap : list nat; rmap : list nat; nzc : nat }.
Definition empty_lstore : lstore := {| lA := empty_mat; smap := []; rmap := []; nzc := 0 |}.

Definition marks (n : nat) (ds : list nat) : list bool := map (fun j => memn j ds) (seq 0 n).

Section LibGrowth.
Variables extra_cols extra_mat : nat.
Variable fixed : bool.

(* ILLlib_addrow: entries carry structural indices; coef = +1 (L, E) or -1 (G, R) for the new logical *)
Definition lib_addrow (s : lstore) (ents : list (nat * Q)) (coef : Q) : res lstore :=
  if negb (forallb (fun e => fst e <? length (smap s)) ents) then Rej
  else bind (mat_addrow extra_mat fixed (lA s) (map (fun e => (nth (fst e) (smap s) 0, snd e)) ents)) (fun A1 =>
       bind (mat_addcol extra_cols extra_mat A1 [(mrows (lA s), coef)]) (fun A2 =>
       Ok {| lA := A2; smap := smap s; rmap := rmap s ++ [mcols (lA s)]; nzc := nzc s + length ents + 1 |})).

Definition lib_addcol (s : lstore) (ents : list (nat * Q)) : res lstore :=
  bind (mat_addcol extra_cols extra_mat (lA s) ents) (fun A1 =>
  Ok {| lA := A1; smap := smap s ++ [mcols (lA s)]; rmap := rmap s; nzc := nzc s + length ents |}).

Definition lib_chgcoef (s : lstore) (i j : nat) (v : Q) : res lstore :=
  if negb (i <? length (rmap s)) || negb (j <? length (smap s)) then Rej
  else bind (mat_addcoef extra_mat (lA s) i (nth j (smap s) 0) v) (fun r =>
       Ok {| lA := fst r; smap := smap s; rmap := rmap s; nzc := if snd r then S (nzc s) else nzc s |}).

Definition lib_chgsense (s : lstore) (i : nat) (coef : Q) : res lstore :=
  if negb (i <? length (rmap s)) then Rej
  else bind (mat_setval (lA s) (nth i (rmap s) 0) coef) (fun A1 =>
       Ok {| lA := A1; smap := smap s; rmap := rmap s; nzc := nzc s |}).

End LibGrowth.

Definition sum_marked (mk : list bool) (cs : list nat) : nat :=
  fold_left (fun (a : nat) (p : bool * nat) => if fst p then a + snd p else a) (combine mk cs) 0.

(* ILLlib_delcols: ds = structural indices (distinct, in range) *)
Definition lib_delcols (s : lstore) (ds : list nat) : res lstore :=
  if negb (forallb (fun j => j <? length (smap s)) ds && nodupn ds) then Rej
  else
    let A := lA s in
    let cmk := marks (mcols A) (map (fun j => nth j (smap s) 0) ds) in
    bind (mat_delcols A cmk) (fun A1 =>
    Ok {| lA := A1;
          smap := map (newidx cmk) (filter (fun k => negb (nth k cmk false)) (smap s));
          rmap := map (newidx cmk) (rmap s);
          nzc := nzc s - sum_marked cmk (cnt A) |}).

(* ILLlib_delrows: ds = row indices (distinct, in range) *)
Definition lib_delrows (s : lstore) (ds : list nat) : res lstore :=
  if negb (forallb (fun i => i <? length (rmap s)) ds && nodupn ds) then Rej
  else
    let A := lA s in
    let rmk := marks (mrows A) ds in
    let cmk := marks (mcols A) (map (fun i => nth i (rmap s) 0) ds) in
    bind (mat_delcols A cmk) (fun A1 =>
    bind (mat_delrows A1 rmk) (fun A2 =>
    Ok {| lA := A2;
          smap := map (newidx cmk) (smap s);
          rmap := map (newidx cmk) (keepb (marks (length (rmap s)) ds) (rmap s));
          nzc := nzc s - sum_marked cmk (cnt A) - (fold_right plus 0 (cnt A1) - fold_right plus 0 (cnt A2)) |})).

(* ---- executable representation invariant (what the check evaluates on the library's arrays) ------- *)
Definition width (c : nat) : nat := Nat.max c 1.
Fixpoint disjoint_from (b w : nat) (bs cs : list nat) : bool :=
  match bs, cs with
  | b' :: bs', c' :: cs' => ((b + w <=? b') || (b' + width c' <=? b)) && disjoint_from b w bs' cs'
  | _, _ => true
  end.
Fixpoint pairwise_disjoint (bs cs : list nat) : bool :=
  match bs, cs with
  | b :: bs', c :: cs' => disjoint_from b (width c) bs' cs' && pairwise_disjoint bs' cs'
  | _, _ => true
  end.

Definition wf_check (m : mat) : bool :=
  (length (cnt m) =? length (beg m)) && (mfree m <=? msize m) && (mcols m <=? colsize m) &&
  forallb (fun s => (fst s =? FREE)%Z) (skipn (used m) (slots m)) &&
  forallb (fun bc => let b := fst bc in let c := snd bc in
             (b + width c <=? used m) &&
             forallb (fun s => (0 <=? fst s)%Z && (Z.to_nat (fst s) <? mrows m)) (rd b c (slots m)) &&
             ((negb (c =? 0)) || (fst (nth b (slots m) dslot) =? DUMMY)%Z))
          (combine (beg m) (cnt m)) &&
  pairwise_disjoint (beg m) (cnt m).

Definition lwf_check (s : lstore) : bool :=
  wf_check (lA s) && (length (rmap s) =? mrows (lA s)) && (length (smap s) + length (rmap s) =? mcols (lA s)) &&
  nodupn (smap s ++ rmap s) && forallb (fun j => j <? mcols (lA s)) (smap s ++ rmap s) &&
  (nzc s =? fold_right plus 0 (cnt (lA s))).
