(* Invariants of the API state machine (Store.Api) for all histories.

   Inv_dims    sizes of the stored basis and of the cached solution are those of the problem -
               preserved by every edit (adds extend, deletes repack), by solves whose oracle
               answer has the problem's sizes, by load_basis; hence opt_work's
               "Size of basis does not match LP" error never fires        (api_run_dims, solve_never_size_error)
   edit_cache_cases   after a successful edit call either the cache is gone and the status is
               MODIFIED (every accessor fails), or the LP is unchanged and the cache is
               the old one, or the call is a delete-rows call             (the only edits that keep a cache)
   Inv_cache   the cache is an exact optimality certificate of the LP as it now stands -
               preserved under the oracle hypothesis (an OPTIMAL answer comes with a
               certificate); delete-rows calls that keep the (repacked) cache keep a
               certificate because the code keeps it only for rows with pi = 0
               (DelRowsCert.v)                                           (api_step_cache, api_run_cache)
   resolve_eq_fresh   two certified answers for the same LP have the same value. *)
From Coq Require Import String Ascii ZArith.
From QSX Require Import Store.Spec Store.SpecInv Store.SpecValid Store.Api Store.DelRowsCert.
From QSX Require Import LP.Cert LP.CertSound LP.Unique.
Local Open Scope Q_scope.

(* ---- dimensions of the reference steps ------------------------------------------------------ *)

Lemma app_row_length cols j0 i e : length (app_row cols j0 i e) = length cols.
Proof. revert j0. induction cols as [|c r IH]; intros j0; simpl; [reflexivity|]. rewrite IH; reflexivity. Qed.

Lemma add_col_dims p obj lo up nm ent p' : add_col p obj lo up nm ent = Some p' -> ncol p' = S (ncol p) /\ nrow p' = nrow p.
Proof.
  unfold add_col. destruct (pick_name _ _ _); [|discriminate]. destruct (conv_ent _ _); [|discriminate].
  intros H; inversion H; subst. unfold ncol, nrow; simpl. rewrite app_length; simpl. split; [lia|reflexivity].
Qed.

Lemma add_row_dims p rhs sn rng nm ent p' : add_row p rhs sn rng nm ent = Some p' -> ncol p' = ncol p /\ nrow p' = S (nrow p).
Proof.
  unfold add_row. destruct (sense_of_ascii sn); [|discriminate]. destruct (pick_name _ _ _); [|discriminate].
  destruct (conv_ent _ _); [|discriminate]. intros H; inversion H; subst. unfold ncol, nrow; simpl.
  rewrite app_row_length, app_length; simpl. split; [reflexivity|lia].
Qed.

Lemma add_cols_dims l : forall p p', add_cols p l = Some p' -> ncol p' = (ncol p + length l)%nat /\ nrow p' = nrow p.
Proof.
  induction l as [|[[[[obj lo] up] nm] ent] r IH]; simpl; intros p p' H.
  - inversion H; subst. split; [lia|reflexivity].
  - destruct (add_col p obj lo up nm ent) eqn:A; [|discriminate]. destruct (add_col_dims _ _ _ _ _ _ _ A) as [C R].
    destruct (IH _ _ H) as [C' R']. split; [lia|congruence].
Qed.

Lemma add_rows_dims l : forall p p', add_rows p l = Some p' -> ncol p' = ncol p /\ nrow p' = (nrow p + length l)%nat.
Proof.
  induction l as [|[[[[rhs sn] rng] nm] ent] r IH]; simpl; intros p p' H.
  - inversion H; subst. split; [reflexivity|lia].
  - destruct (add_row p rhs sn rng nm ent) eqn:A; [|discriminate]. destruct (add_row_dims _ _ _ _ _ _ _ A) as [C R].
    destruct (IH _ _ H) as [C' R']. split; [congruence|lia].
Qed.

Lemma restrict_length_eq {A B} (l1 : list A) (l2 : list B) ds : length l1 = length l2 -> length (restrict l1 ds) = length (restrict l2 ds).
Proof.
  unfold restrict. generalize (sort_desc ds). intros d. revert l1 l2. induction d as [|i r IH]; simpl; intros l1 l2 H; [exact H|].
  apply IH. rewrite !remove_nth_length, H. reflexivity.
Qed.

Lemma del_rows_n_rows p ds : p_rows (del_rows_n p ds) = restrict (p_rows p) ds /\ ncol (del_rows_n p ds) = ncol p.
Proof.
  unfold del_rows_n, restrict. generalize (sort_desc ds). intros d. revert p. induction d as [|i r IH]; simpl; intros p; [split; reflexivity|].
  destruct (IH (del_row_one p i)) as [A B]. rewrite A, B. split; [reflexivity|]. unfold ncol, del_row_one; simpl. apply map_length.
Qed.

Lemma del_cols_n_cols p ds : p_cols (del_cols_n p ds) = restrict (p_cols p) ds /\ nrow (del_cols_n p ds) = nrow p.
Proof.
  unfold del_cols_n, restrict. generalize (sort_desc ds). intros d. revert p. induction d as [|i r IH]; simpl; intros p; [split; reflexivity|].
  destruct (IH (del_col_one p i)) as [A B]. rewrite A, B. split; reflexivity.
Qed.

(* ---- Inv_dims ---------------------------------------------------------------------------------- *)

Section WithM.
Variable M : Q.

Lemma inv_intro p b c q f rn :
  (forall b', b = Some b' -> length (ba_c b') = ncol p /\ length (ba_r b') = nrow p) ->
  (forall c', c = Some c' -> dims_ok_c p c') ->
  Inv_dims {| a_p := p; a_basis := b; a_cache := c; a_qstatus := q; a_factorok := f; a_rn := rn |}.
Proof. intros A B. split; simpl; assumption. Qed.

Lemma inv_free s : Inv_dims s -> Inv_dims (free_cache s).
Proof. intros [A B]. split; simpl; [exact A|intros c H; discriminate]. Qed.

Lemma inv_factor s f : Inv_dims s -> Inv_dims (with_factor s f).
Proof. intros [A B]. split; simpl; assumption. Qed.

(* a state whose problem changed but kept both sizes *)
Lemma inv_same_dims s p' : Inv_dims s -> ncol p' = ncol (a_p s) -> nrow p' = nrow (a_p s) -> Inv_dims (with_p s p').
Proof.
  intros [A B] C R. split; simpl.
  - intros b H. rewrite C, R. apply A; exact H.
  - intros c H. unfold dims_ok_c. rewrite C, R. apply B; exact H.
Qed.

Lemma Forall_nth_lt ds n i : Forall (fun k => (k < n)%nat) ds -> In i ds -> (i < n)%nat.
Proof. intros F I. rewrite Forall_forall in F. apply F; exact I. Qed.

(* the sizes after an edit, family by family: (ncol', nrow') as a function of the op *)
Lemma pstep_dims_other p o p' t :
  pstep M p o = (p', ROk t) ->
  match o with
  | NewCol _ _ _ _ | AddCol _ _ _ _ _ => ncol p' = S (ncol p) /\ nrow p' = nrow p
  | AddCols l => ncol p' = (ncol p + length l)%nat /\ nrow p' = nrow p
  | NewRow _ _ _ | AddRow _ _ _ _ _ => ncol p' = ncol p /\ nrow p' = S (nrow p)
  | AddRows l => ncol p' = ncol p /\ nrow p' = (nrow p + length l)%nat
  | DelRows _ | DelSetRows _ | DelNRows _ => p_rows p' = restrict (p_rows p) (del_rows_of p o) /\ ncol p' = ncol p
  | DelCols _ | DelSetCols _ | DelNCols _ => p_cols p' = restrict (p_cols p) (del_cols_of p o) /\ nrow p' = nrow p
  | _ => ncol p' = ncol p /\ nrow p' = nrow p
  end.
Proof.
  destruct o; cbn [pstep]; unfold edit, answer; intros H;
    try (match type of H with (match ?x with _ => _ end) = _ => destruct x eqn:E end; inversion H; subst; clear H);
    try (split; reflexivity);
    try (inversion H; subst; split; reflexivity);
    try (repeat match type of H with context [match ?x with _ => _ end] => destruct x end; inversion H; subst; split; reflexivity).
  - eapply add_col_dims; eauto.
  - eapply add_col_dims; eauto.
  - eapply add_cols_dims; eauto.
  - eapply add_row_dims; eauto.
  - eapply add_row_dims; eauto.
  - eapply add_rows_dims; eauto.
  - unfold del_rows in E. simpl. destruct (idxs (nrow p) l); [|discriminate]. destruct (nodupn l0); [|discriminate].
    inversion E; subst. apply del_rows_n_rows.
  - inversion H; subst. simpl. apply del_rows_n_rows.
  - unfold del_named_rows in E. simpl. destruct (find_names (rownames p) l); [|discriminate]. destruct (nodupn l0); [|discriminate].
    inversion E; subst. apply del_rows_n_rows.
  - unfold del_cols in E. simpl. destruct (idxs (ncol p) l); [|discriminate]. destruct (nodupn l0); [|discriminate].
    inversion E; subst. apply del_cols_n_cols.
  - inversion H; subst. simpl. apply del_cols_n_cols.
  - unfold del_named_cols in E. simpl. destruct (find_names (colnames p) l); [|discriminate]. destruct (nodupn l0); [|discriminate].
    inversion E; subst. apply del_cols_n_cols.
  - unfold chg_coef in E. destruct (idx (nrow p) i); [|discriminate]. destruct (idx (ncol p) j); [|discriminate]. inversion E; subst.
    unfold ncol, nrow; simpl. rewrite upd_nth_length. split; reflexivity.
  - unfold chg_obj in E. destruct (idx (ncol p) j); [|discriminate]. inversion E; subst.
    unfold ncol, nrow; simpl. rewrite upd_nth_length. split; reflexivity.
  - unfold chg_rhs in E. destruct (idx (nrow p) i); [|discriminate]. inversion E; subst.
    unfold ncol, nrow; simpl. rewrite upd_nth_length. split; reflexivity.
  - unfold chg_range in E. destruct (idx (nrow p) i); [|discriminate]. destruct (is_SR _); [|discriminate]. inversion E; subst.
    unfold ncol, nrow; simpl. rewrite upd_nth_length. split; reflexivity.
  - unfold chg_senses in E. destruct (conv_senses (nrow p) l); [|discriminate]. inversion E; subst. unfold ncol, nrow; simpl. split; [reflexivity|].
    clear E. generalize (p_rows p). induction l0 as [|a r IH]; intros rows; simpl; [reflexivity|]. rewrite IH, upd_nth_length. reflexivity.
  - unfold chg_bnds in E. destruct (conv_bnds (ncol p) l); [|discriminate]. inversion E; subst. unfold ncol, nrow; simpl. split; [|reflexivity].
    clear E. generalize (p_cols p). induction l0 as [|a r IH]; intros cols; simpl; [reflexivity|]. rewrite IH, upd_nth_length. reflexivity.
  - unfold chg_objsense in E. destruct (code =? 1)%Z; [inversion E; subst; split; reflexivity|].
    destruct (code =? -1)%Z; [inversion E; subst; split; reflexivity|discriminate].
  - unfold set_param in E.
    repeat match type of E with (if ?c then _ else _) = _ => destruct c end; try discriminate; inversion E; subst; split; reflexivity.
  - unfold set_paramq in E.
    repeat match type of E with (if ?c then _ else _) = _ => destruct c end; try discriminate; inversion E; subst; split; reflexivity.
  - unfold mark_int in E. destruct (idx (ncol p) j); [|discriminate]. inversion E; subst.
    unfold ncol, nrow; simpl. rewrite upd_nth_length. split; reflexivity.
  - destruct (idxs (nrow p) l0); inversion H1; subst; split; reflexivity.
  - match goal with H0 : context [idxs (ncol p) ?l] |- _ => destruct (idxs (ncol p) l); inversion H0; subst; split; reflexivity end.
Qed.

Lemma inv_ext_c s p' l : Inv_dims s -> ncol p' = (ncol (a_p s) + length l)%nat -> nrow p' = nrow (a_p s) -> Inv_dims (free_cache (ext_c (with_p s p') l)).
Proof.
  intros [A B] C R. apply inv_free. split; simpl.
  - intros b H. destruct (a_basis s) as [b0|] eqn:E; [|discriminate]. inversion H; subst; simpl.
    destruct (A b0 eq_refl) as [A1 A2]. rewrite app_length, A1, C, R. split; [reflexivity|exact A2].
  - intros c H. unfold dims_ok_c. destruct (B c H) as (B1 & B2 & B3 & B4).
Abort.

Lemma inv_ext_c s p' l : Inv_dims s -> ncol p' = (ncol (a_p s) + length l)%nat -> nrow p' = nrow (a_p s) -> Inv_dims (free_cache (ext_c (with_p s p') l)).
Proof.
  intros [A B] C R. split; simpl; [|intros c H; discriminate].
  intros b H. destruct (a_basis s) as [b0|] eqn:E; [|discriminate]. inversion H; subst; simpl.
  destruct (A b0 eq_refl) as [A1 A2]. rewrite app_length, A1, C, R. split; [reflexivity|exact A2].
Qed.

Lemma inv_ext_r s p' k : Inv_dims s -> ncol p' = ncol (a_p s) -> nrow p' = (nrow (a_p s) + k)%nat -> Inv_dims (free_cache (with_factor (ext_r (with_p s p') k) false)).
Proof.
  intros [A B] C R. split; simpl; [|intros c H; discriminate].
  intros b H. destruct (a_basis s) as [b0|] eqn:E; [|discriminate]. inversion H; subst; simpl.
  destruct (A b0 eq_refl) as [A1 A2]. rewrite app_length, repeat_length, A2, C, R. split; [exact A1|reflexivity].
Qed.

Lemma inv_delrows s p' ds : Inv_dims s -> p_rows p' = restrict (p_rows (a_p s)) ds -> ncol p' = ncol (a_p s) -> Inv_dims (eff_delrows s p' ds).
Proof.
  intros [A B] R C. unfold eff_delrows.
  set (bok := match a_basis s with Some b => forallb _ ds | None => false end).
  set (cok := match a_cache s with Some c => _ | None => false end).
  assert (HB : forall b', (if bok then match a_basis s with Some b => Some {| ba_c := ba_c b; ba_r := restrict (ba_r b) ds |} | None => None end else None) = Some b' ->
               length (ba_c b') = ncol p' /\ length (ba_r b') = nrow p').
  { intros b' H. destruct bok; [|discriminate]. destruct (a_basis s) as [b0|] eqn:E; [|discriminate]. inversion H; subst; simpl.
    destruct (A b0 eq_refl) as [A1 A2]. split; [congruence|]. unfold nrow. rewrite R. apply restrict_length_eq. exact A2. }
  destruct cok.
  - apply inv_intro; [exact HB|]. intros c' H. destruct (a_cache s) as [c0|] eqn:E; [|discriminate]. inversion H; subst.
    destruct (B c0 eq_refl) as (B1 & B2 & B3 & B4). unfold dims_ok_c; simpl. rewrite C. repeat split; try assumption.
    + unfold nrow. rewrite R. apply restrict_length_eq. exact B3.
    + unfold nrow. rewrite R. apply restrict_length_eq. exact B4.
  - apply inv_free. apply inv_intro; [exact HB|]. intros c' H.
    (* the old cache is dropped by free_cache; its sizes are irrelevant, but inv_intro asks for them before: use a direct argument *)
Abort.

Lemma inv_delrows s p' ds : Inv_dims s -> p_rows p' = restrict (p_rows (a_p s)) ds -> ncol p' = ncol (a_p s) -> Inv_dims (eff_delrows s p' ds).
Proof.
  intros [A B] R C. unfold eff_delrows.
  set (bok := match a_basis s with Some b => forallb _ ds | None => false end).
  set (cok := match a_cache s with Some c => _ | None => false end).
  assert (HB : forall b', (if bok then match a_basis s with Some b => Some {| ba_c := ba_c b; ba_r := restrict (ba_r b) ds |} | None => None end else None) = Some b' ->
               length (ba_c b') = ncol p' /\ length (ba_r b') = nrow p').
  { intros b' H. destruct bok; [|discriminate]. destruct (a_basis s) as [b0|] eqn:E; [|discriminate]. inversion H; subst; simpl.
    destruct (A b0 eq_refl) as [A1 A2]. split; [congruence|]. unfold nrow. rewrite R. apply restrict_length_eq. exact A2. }
  destruct cok.
  - apply inv_intro; [exact HB|]. intros c' H. destruct (a_cache s) as [c0|] eqn:E; [|discriminate]. inversion H; subst.
    destruct (B c0 eq_refl) as (B1 & B2 & B3 & B4). unfold dims_ok_c; simpl. rewrite C. repeat split; try assumption.
    + unfold nrow. rewrite R. apply restrict_length_eq. exact B3.
    + unfold nrow. rewrite R. apply restrict_length_eq. exact B4.
  - split; simpl; [exact HB|intros c' H; discriminate].
Qed.

Lemma inv_delcols s p' ds : Inv_dims s -> p_cols p' = restrict (p_cols (a_p s)) ds -> nrow p' = nrow (a_p s) -> Inv_dims (eff_delcols s p' ds).
Proof.
  intros [A B] C R. unfold eff_delcols. split; simpl; [|intros c H; discriminate].
  intros b' H. destruct (match a_basis s with Some b => forallb _ ds | None => false end); [|discriminate].
  destruct (a_basis s) as [b0|] eqn:E; [|discriminate]. inversion H; subst; simpl.
  destruct (A b0 eq_refl) as [A1 A2]. split; [|congruence]. unfold ncol. rewrite C. apply restrict_length_eq. exact A1.
Qed.

Lemma restrict_nil {A} (l : list A) : restrict l [] = l.
Proof. reflexivity. Qed.

Lemma norm_rstat_fold_length l : forall r : list ascii,
  length (fold_left (fun r it => let i := Z.to_nat (fst it) in
            if (negb (Ascii.eqb (snd it) "R") && stat_in r i "2")%bool
            then upd_nth i (fun _ => "1"%char) r else r) l r) = length r.
Proof.
  induction l as [|it l IH]; intros r; simpl; [reflexivity|].
  rewrite IH. destruct (negb (Ascii.eqb (snd it) "R") && stat_in r (Z.to_nat (fst it)) "2")%bool; [apply upd_nth_length|reflexivity].
Qed.

Lemma inv_norm_rstat s l : Inv_dims s -> Inv_dims (norm_rstat s l).
Proof.
  intros [A B]. split; simpl; [|exact B].
  intros b H. destruct (a_basis s) as [b0|] eqn:E; [|discriminate]. inversion H; subst; simpl.
  destruct (A b0 eq_refl) as [A1 A2]. rewrite norm_rstat_fold_length. split; assumption.
Qed.

Theorem api_edit_dims s o : Inv_dims s -> Inv_dims (fst (api_edit M s o)).
Proof.
  intros I. unfold api_edit. destruct (pstep M (a_p s) o) as [p' r] eqn:P. destruct r as [t| |]; simpl; try exact I.
  pose proof (pstep_dims_other _ _ _ _ P) as D.
  destruct o; simpl; simpl in D;
    try (destruct D as [D1 D2]; apply inv_same_dims; assumption);
    try (destruct D as [D1 D2]; apply inv_free; apply inv_same_dims; assumption);
    try (destruct D as [D1 D2]; apply inv_free; apply inv_factor; apply inv_same_dims; assumption);
    try (destruct D as [D1 D2]; apply inv_free; apply inv_factor; apply inv_norm_rstat; apply inv_same_dims; assumption).
  - destruct D as [D1 D2]. apply (inv_ext_c s p' [col_stat M lo up]); [exact I|simpl; lia|exact D2].
  - destruct D as [D1 D2]. apply (inv_ext_c s p' [col_stat M lo up]); [exact I|simpl; lia|exact D2].
  - destruct D as [D1 D2]. apply inv_ext_c; [exact I|rewrite map_length; exact D1|exact D2].
  - destruct D as [D1 D2]. apply inv_ext_r; [exact I|exact D1|lia].
  - destruct D as [D1 D2]. apply inv_ext_r; [exact I|exact D1|lia].
  - destruct D as [D1 D2]. apply inv_ext_r; [exact I|exact D1|exact D2].
  - destruct D as [D1 D2]. destruct (match idxs (nrow (a_p s)) l with Some ds => ds | None => [] end) eqn:E.
    + assert (Q : nrow p' = nrow (a_p s)) by (unfold nrow; rewrite D1; reflexivity).
      destruct (a_basis s) eqn:B; [|apply inv_free]; apply inv_factor; apply inv_same_dims; assumption.
    + apply inv_delrows; assumption.
  - destruct D as [D1 D2]. destruct (flagged flags 0 (nrow (a_p s))) eqn:E.
    + apply inv_same_dims; [exact I|exact D2|unfold nrow; rewrite D1; reflexivity].
    + apply inv_delrows; assumption.
  - destruct D as [D1 D2]. destruct (match find_names (rownames (a_p s)) l with Some ds => ds | None => [] end) eqn:E.
    + apply inv_same_dims; [exact I|exact D2|unfold nrow; rewrite D1; reflexivity].
    + apply inv_delrows; assumption.
  - destruct D as [D1 D2]. destruct (match idxs (ncol (a_p s)) l with Some ds => ds | None => [] end) eqn:E.
    + apply inv_free. apply inv_factor. apply inv_same_dims; [exact I|unfold ncol; rewrite D1; reflexivity|exact D2].
    + apply inv_delcols; assumption.
  - destruct D as [D1 D2]. destruct (flagged flags 0 (ncol (a_p s))) eqn:E.
    + apply inv_same_dims; [exact I|unfold ncol; rewrite D1; reflexivity|exact D2].
    + apply inv_delcols; assumption.
  - destruct D as [D1 D2]. destruct (match find_names (colnames (a_p s)) l with Some ds => ds | None => [] end) eqn:E.
    + apply inv_same_dims; [exact I|unfold ncol; rewrite D1; reflexivity|exact D2].
    + apply inv_delcols; assumption.
  - destruct D as [D1 D2]. destruct (Bool.eqb (p_max p') (p_max (a_p s))); [|apply inv_free]; apply inv_same_dims; assumption.
Qed.

Theorem api_solve_dims s d r : Inv_dims s -> answer_dims (a_p s) r -> Inv_dims (fst (api_solve s d r)).
Proof.
  intros I (R1 & R2 & R3). unfold api_solve.
  destruct (match a_basis s, a_cache s with Some _, Some _ => a_factorok s | _, _ => false end); [exact I|].
  assert (G : Inv_dims {| a_p := a_p s; a_basis := Some (an_basis r);
                          a_cache := if (an_status r =? ST_OPTIMAL)%Z then Some (an_sol r) else None;
                          a_qstatus := an_status r; a_factorok := true; a_rn := an_rn r |}).
  { apply inv_intro.
    - intros b H; inversion H; subst. split; assumption.
    - intros c H. destruct (an_status r =? ST_OPTIMAL)%Z; [inversion H; subst; exact R3|discriminate]. }
  destruct (a_basis s) as [b|] eqn:B; [|exact G].
  destruct (dims_ok_b (a_p s) b); [exact G|]. simpl. destruct I as [A C]. split; simpl; [rewrite B in A; exact A|exact C].
Qed.

(* under the invariant the size check of opt_work never fails *)
Theorem solve_never_size_error s d r : Inv_dims s -> snd (api_solve s d r) = false.
Proof.
  intros [A _]. unfold api_solve.
  destruct (match a_basis s, a_cache s with Some _, Some _ => a_factorok s | _, _ => false end); [reflexivity|].
  destruct (a_basis s) as [b|] eqn:B; [|reflexivity].
  destruct (A b eq_refl) as [A1 A2]. unfold dims_ok_b. rewrite A1, A2, !Nat.eqb_refl. reflexivity.
Qed.

Theorem api_load_basis_dims s b : Inv_dims s -> Inv_dims (fst (api_load_basis s b)).
Proof.
  intros I. unfold api_load_basis. destruct (dims_ok_b (a_p s) b) eqn:D; [|exact I]. simpl.
  unfold dims_ok_b in D. apply andb_true_iff in D. destruct D as [D1 D2]. apply Nat.eqb_eq in D1. apply Nat.eqb_eq in D2.
  destruct I as [A C]. split; simpl; [|exact C]. intros b' H; inversion H; subst. split; assumption.
Qed.

(* which op lists are runs against a well-behaved oracle *)
Fixpoint ops_dims (s : api) (l : list aop) : Prop :=
  match l with
  | [] => True
  | o :: r => match o with
              | ASolve _ a => answer_dims (a_p s) a
              | AExactCert b c => length (ba_c b) = ncol (a_p s) /\ length (ba_r b) = nrow (a_p s) /\ dims_ok_c (a_p s) c
              | _ => True
              end /\ ops_dims (api_step M s o) r
  end.

Theorem api_step_dims s o : Inv_dims s -> ops_dims s [o] -> Inv_dims (api_step M s o).
Proof.
  intros I [H _]. destruct o; simpl.
  - apply api_edit_dims; exact I.
  - apply api_solve_dims; assumption.
  - apply api_load_basis_dims; exact I.
  - destruct H as (H1 & H2 & H3). apply inv_intro.
    + intros b' E; inversion E; subst. split; assumption.
    + intros c' E; inversion E; subst. exact H3.
Qed.

Theorem api_run_dims l : forall s, Inv_dims s -> ops_dims s l -> Inv_dims (api_run M s l).
Proof.
  unfold api_run. induction l as [|o r IH]; simpl; intros s I H; [exact I|]. destruct H as [H1 H2].
  apply IH; [|exact H2]. apply api_step_dims; [exact I|]. simpl. split; [exact H1|exact Logic.I].
Qed.

Lemma Inv_dims_init p : Inv_dims (api_init p).
Proof. split; simpl; intros ? H; discriminate. Qed.

(* ---- which edits keep a cache -------------------------------------------------------------- *)

Definition is_delrows (o : pop) : bool := match o with DelRows _ | DelSetRows _ | DelNRows _ => true | _ => false end.

Lemma row_ents_ext cols cols' j0 i : map sc_ent cols = map sc_ent cols' -> row_ents cols j0 i = row_ents cols' j0 i.
Proof.
  revert cols' j0. induction cols as [|c r IH]; intros [|c' r'] j0 H; simpl in *; try discriminate; [reflexivity|].
  inversion H. rewrite H1. f_equal. apply IH. assumption.
Qed.

Lemma urows_of_ext cols cols' rows i0 : map sc_ent cols = map sc_ent cols' -> urows_of cols rows i0 = urows_of cols' rows i0.
Proof.
  intros H. revert i0. induction rows as [|r t IH]; intros i0; simpl; [reflexivity|]. rewrite IH. f_equal. f_equal. apply row_ents_ext. exact H.
Qed.

Lemma to_ulp_mark_int p j : to_ulp (set_cols p (upd_nth j set_int (p_cols p))) = to_ulp p.
Proof.
  unfold to_ulp; simpl. f_equal.
  - generalize (p_cols p). intros l. revert j. induction l as [|c r IH]; intros [|j]; simpl; try reflexivity. rewrite IH; reflexivity.
  - apply urows_of_ext. generalize (p_cols p). intros l. revert j. induction l as [|c r IH]; intros [|j]; simpl; try reflexivity. rewrite IH; reflexivity.
Qed.

Theorem edit_cache_cases s o t :
  snd (api_edit M s o) = ROk t ->
  let s' := fst (api_edit M s o) in
  (a_cache s' = None /\ a_qstatus s' = ST_MODIFIED) \/
  (to_ulp (a_p s') = to_ulp (a_p s) /\ a_cache s' = a_cache s) \/
  is_delrows o = true.
Proof.
  unfold api_edit. destruct (pstep M (a_p s) o) as [p' r] eqn:P. destruct r as [t'| |]; simpl; try discriminate. intros _.
  destruct o; simpl; try (left; split; reflexivity); try (right; right; reflexivity);
    try (right; left; split; [|reflexivity]; cbn [pstep] in P; unfold answer in P;
         repeat match type of P with context [match ?x with _ => _ end] => destruct x end; inversion P; reflexivity).
  - destruct (match idxs (ncol (a_p s)) l with Some ds => ds | None => [] end); left; split; reflexivity.
  - destruct (flagged flags 0 (ncol (a_p s))) eqn:E; [|left; split; reflexivity].
    right; left. split; [|reflexivity]. cbn [pstep] in P. unfold edit in P. inversion P; subst. rewrite E. reflexivity.
  - destruct (match find_names (colnames (a_p s)) l with Some ds => ds | None => [] end) eqn:E; [|left; split; reflexivity].
    right; left. split; [|reflexivity]. cbn [pstep] in P. unfold edit, del_named_cols in P.
    destruct (find_names (colnames (a_p s)) l); [|discriminate]. destruct (nodupn l0); [|discriminate]. inversion P; subst. reflexivity.
  - destruct (Bool.eqb (p_max p') (p_max (a_p s))) eqn:E; [|left; split; reflexivity].
    right; left. split; [|reflexivity]. cbn [pstep] in P. unfold edit, chg_objsense in P.
    apply Bool.eqb_prop in E. unfold to_ulp.
    destruct (code =? 1)%Z; [inversion P; subst; simpl in *; rewrite <- E; reflexivity|].
    destruct (code =? -1)%Z; [inversion P; subst; simpl in *; rewrite <- E; reflexivity|discriminate].
  - right; left. split; [|reflexivity]. cbn [pstep] in P. unfold edit, set_param in P.
    repeat match type of P with context [if ?c then _ else _] => destruct c end; inversion P; reflexivity.
  - right; left. split; [|reflexivity]. cbn [pstep] in P. unfold edit, set_paramq in P.
    repeat match type of P with context [if ?c then _ else _] => destruct c end; inversion P; reflexivity.
  - right; left. split; [|reflexivity]. cbn [pstep] in P. unfold edit, mark_int in P.
    destruct (idx (ncol (a_p s)) j); [|discriminate]. inversion P; subst. apply to_ulp_mark_int.
Qed.

(* consequence: between such an edit and the next solve every solution accessor fails *)
Corollary accessors_fail_after_edit s o t :
  snd (api_edit M s o) = ROk t -> is_delrows o = false ->
  let s' := fst (api_edit M s o) in
  to_ulp (a_p s') <> to_ulp (a_p s) ->
  acc_x s' = None /\ acc_pi s' = None /\ acc_rc s' = None /\ acc_slack s' = None /\ acc_solution s' = None /\ acc_objval_cached s' = None.
Proof.
  intros H D s' N. destruct (edit_cache_cases s o t H) as [[C Q]|[[E _]|F]].
  - unfold acc_x, acc_pi, acc_rc, acc_slack, acc_solution, acc_objval_cached. fold s' in C, Q. rewrite C, Q. simpl. repeat split; reflexivity.
  - contradiction.
  - congruence.
Qed.

(* ---- the cache is a certificate --------------------------------------------------------------- *)

Lemma cert_to_ulp p p' c : to_ulp p' = to_ulp p -> cert M p c -> cert M p' c.
Proof. unfold cert. intros E H. rewrite E. exact H. Qed.

(* ---- delete-rows calls that keep the cache keep a certificate --------------------------------- *)

Lemma flagged_range f : forall i0 n, Forall (fun k => (i0 <= k < i0 + n)%nat) (flagged f i0 n).
Proof.
  induction f as [|a f IH]; intros i0 [|n]; simpl; try constructor.
  assert (T : Forall (fun k => (i0 <= k < i0 + S n)%nat) (flagged f (S i0) n)).
  { eapply Forall_impl; [|apply IH]. simpl. intros k Hk. lia. }
  destruct (a =? 1)%Z; [constructor; [lia|exact T]|exact T].
Qed.

Lemma flagged_NoDup f : forall i0 n, NoDup (flagged f i0 n).
Proof.
  induction f as [|a f IH]; intros i0 [|n]; simpl; try constructor.
  destruct (a =? 1)%Z; [|apply IH]. constructor; [|apply IH].
  intros C. pose proof (flagged_range f (S i0) n) as R. rewrite Forall_forall in R. specialize (R _ C). lia.
Qed.

(* what a successful delete-rows call deletes: distinct valid rows, with the reference semantics del_rows_n *)
Lemma pstep_delrows_spec p o p' t :
  is_delrows o = true -> pstep M p o = (p', ROk t) ->
  p' = del_rows_n p (del_rows_of p o) /\ NoDup (del_rows_of p o) /\ Forall (fun i => (i < nrow p)%nat) (del_rows_of p o).
Proof.
  destruct o; simpl; try discriminate; intros _ H; unfold edit in H.
  - unfold del_rows in H. destruct (idxs (nrow p) l) as [ds|] eqn:E; [|discriminate]. destruct (nodupn ds) eqn:N; [|discriminate].
    inversion H; subst. split; [reflexivity|]. split; [apply nodupn_NoDup; exact N|eapply idxs_lt; exact E].
  - inversion H; subst. split; [reflexivity|]. split; [apply flagged_NoDup|].
    eapply Forall_impl; [|apply flagged_range]. simpl. intros k Hk. lia.
  - unfold del_named_rows in H. destruct (find_names (rownames p) l) as [ds|] eqn:E; [|discriminate]. destruct (nodupn ds) eqn:N; [|discriminate].
    inversion H; subst. split; [reflexivity|]. split; [apply nodupn_NoDup; exact N|].
    pose proof (find_names_lt _ _ _ E) as F. unfold rownames in F. rewrite map_length in F. exact F.
Qed.

(* ILLlib_delrows keeps the (repacked) cache only when every deleted row has pi = 0: the repacked cache certifies
   the reduced LP (DelRowsCert.cert_del_rows_n).  The condition on the stored basis (basis_ok) is not used. *)
Lemma eff_delrows_cache s ds :
  Inv_dims s -> Inv_cache M s -> NoDup ds -> Forall (fun i => (i < nrow (a_p s))%nat) ds ->
  Inv_cache M (eff_delrows s (del_rows_n (a_p s) ds) ds).
Proof.
  intros [_ B] I ND R. unfold eff_delrows.
  set (bok := match a_basis s with Some b => forallb _ ds | None => false end).
  destruct (a_cache s) as [c|] eqn:C.
  - destruct (bok && forallb (fun i => Qeq_bool (nth i (ca_pi c) 0) 0) ds)%bool eqn:E.
    + intros c' H. cbn [a_cache] in H. inversion H; subst c'. unfold cert. cbn [a_p ca_x ca_slack ca_pi ca_val].
      apply andb_true_iff in E. destruct E as [_ E]. destruct (B c eq_refl) as (B1 & _).
      apply (cert_del_rows_n M (a_p s) ds (ca_x c) (ca_slack c) (ca_pi c) (ca_val c) B1 ND R).
      * rewrite forallb_forall in E. apply Forall_forall. intros k Hk. apply Qeq_bool_iff. apply E. exact Hk.
      * apply I. exact C.
    + intros c' H. discriminate H.
  - intros c' H. discriminate H.
Qed.

Lemma del_rows_n_nil p : del_rows_n p [] = p.
Proof. reflexivity. Qed.

Theorem api_edit_cache s o : Inv_dims s -> Inv_cache M s -> Inv_cache M (fst (api_edit M s o)).
Proof.
  intros D I. destruct (snd (api_edit M s o)) as [t| |] eqn:R.
  - destruct (edit_cache_cases s o t R) as [[C _]|[[E C]|F]].
    + intros c Hc. rewrite C in Hc. discriminate.
    + intros c Hc. rewrite C in Hc. eapply cert_to_ulp; [exact E|]. apply I. exact Hc.
    + unfold api_edit in *. destruct (pstep M (a_p s) o) as [p' r] eqn:P. destruct r as [t'| |]; simpl in R; try discriminate.
      destruct (pstep_delrows_spec _ _ _ _ F P) as (E & ND & RG). cbn [fst].
      assert (G : forall ds, ds = del_rows_of (a_p s) o -> ds <> [] -> Inv_cache M (eff_delrows s p' ds)).
      { intros ds -> _. rewrite E. apply eff_delrows_cache; assumption. }
      assert (Z : del_rows_of (a_p s) o = [] -> p' = a_p s) by (intros Z; rewrite E, Z; reflexivity).
      destruct o; try discriminate F; cbn [apply_effect]; cbn [del_rows_of] in *.
      * destruct (match idxs (nrow (a_p s)) l with Some ds => ds | None => [] end) as [|k ds] eqn:L.
        -- rewrite (Z eq_refl). destruct (a_basis s); intros c Hc; simpl in Hc; try discriminate. apply I. exact Hc.
        -- apply G; [reflexivity|discriminate].
      * destruct (flagged flags 0 (nrow (a_p s))) as [|k ds] eqn:L.
        -- rewrite (Z eq_refl). intros c Hc. apply I. exact Hc.
        -- apply G; [reflexivity|discriminate].
      * destruct (match find_names (rownames (a_p s)) l with Some ds => ds | None => [] end) as [|k ds] eqn:L.
        -- rewrite (Z eq_refl). intros c Hc. apply I. exact Hc.
        -- apply G; [reflexivity|discriminate].
  - assert (E : fst (api_edit M s o) = s).
    { unfold api_edit in *. destruct (pstep M (a_p s) o) as [p' r]. destruct r; simpl in *; try discriminate; reflexivity. }
    rewrite E. exact I.
  - assert (E : fst (api_edit M s o) = s).
    { unfold api_edit in *. destruct (pstep M (a_p s) o) as [p' r]. destruct r; simpl in *; try discriminate; reflexivity. }
    rewrite E. exact I.
Qed.

(* side conditions of a step: only the oracle hypotheses remain - an OPTIMAL answer of a solve comes with a certificate
   (proved for QSexact_solver in C01, explored for the direct simplex).  Edits need none. *)
Definition step_ok (s : api) (o : aop) : Prop :=
  match o with
  | AEdit _ => True
  | ASolve _ r => answer_cert M (a_p s) r
  | ALoadBasis _ => True
  | AExactCert _ c => cert M (a_p s) c
  end.

Theorem api_step_cache s o : Inv_dims s -> Inv_cache M s -> step_ok s o -> Inv_cache M (api_step M s o).
Proof.
  intros D I H. destruct o; simpl in *.
  - apply api_edit_cache; assumption.
  - unfold api_solve.
    destruct (match a_basis s, a_cache s with Some _, Some _ => a_factorok s | _, _ => false end); [exact I|].
    assert (G : Inv_cache M {| a_p := a_p s; a_basis := Some (an_basis r);
                               a_cache := if (an_status r =? ST_OPTIMAL)%Z then Some (an_sol r) else None;
                               a_qstatus := an_status r; a_factorok := true; a_rn := an_rn r |}).
    { intros c Hc. simpl in *. destruct (an_status r =? ST_OPTIMAL)%Z eqn:E; [|discriminate]. inversion Hc; subst.
      apply H. apply Z.eqb_eq. exact E. }
    destruct (a_basis s) as [b|]; [|exact G]. destruct (dims_ok_b (a_p s) b); [exact G|]. exact I.
  - unfold api_load_basis. destruct (dims_ok_b (a_p s) b); exact I.
  - intros c' Hc. simpl in Hc. inversion Hc; subst. exact H.
Qed.

Fixpoint ops_ok (s : api) (l : list aop) : Prop :=
  match l with [] => True | o :: r => step_ok s o /\ ops_ok (api_step M s o) r end.

(* the cache is an exact optimality certificate of the LP as it now stands, after every history; the sizes of the
   cache (Inv_dims) travel with it: the repacking of a delete-rows call is index arithmetic on vectors of the right size *)
Theorem api_run_cache l : forall s, Inv_dims s -> Inv_cache M s -> ops_dims s l -> ops_ok s l ->
  Inv_dims (api_run M s l) /\ Inv_cache M (api_run M s l).
Proof.
  unfold api_run. induction l as [|o r IH]; simpl; intros s D I HD H; [split; assumption|]. destruct HD as [HD1 HD2]. destruct H as [H1 H2].
  apply IH; [| |exact HD2|exact H2].
  - apply api_step_dims; [exact D|]. simpl. split; [exact HD1|exact Logic.I].
  - apply api_step_cache; assumption.
Qed.

(* what an accessor returns between an edit and the next solve is (part of) a certificate of the current LP *)
Corollary accessors_between_edit_and_solve s l x :
  Inv_dims s -> Inv_cache M s -> ops_dims s l -> ops_ok s l -> acc_x (api_run M s l) = Some x ->
  exists c, cert M (a_p (api_run M s l)) c /\ ca_x c = x.
Proof.
  intros D I HD H E. destruct (api_run_cache l s D I HD H) as [_ J]. unfold acc_x in E.
  destruct (a_cache (api_run M s l)) as [c|] eqn:C; [|discriminate]. inversion E; subst. exists c. split; [apply J; exact C|reflexivity].
Qed.

(* the same for the whole served solution: x, pi, slack and the value together are a certificate *)
Corollary solution_between_edit_and_solve s l c :
  Inv_dims s -> Inv_cache M s -> ops_dims s l -> ops_ok s l -> acc_solution (api_run M s l) = Some c ->
  cert M (a_p (api_run M s l)) c.
Proof. intros D I HD H E. destruct (api_run_cache l s D I HD H) as [_ J]. apply J. exact E. Qed.

(* two certified answers for the same LP carry the same value: the re-solve equals the fresh solve *)
Theorem resolve_eq_fresh p c1 c2 : cert M p c1 -> cert M p c2 -> ca_val c1 == ca_val c2.
Proof.
  unfold cert. intros H1 H2. apply (optimum_value_unique (inf_sentinel M) (to_internal M (to_ulp p))).
  - exists (qnth (ca_x c1 ++ ca_slack c1)). exact (check_kkt_sound _ _ _ _ _ H1).
  - exists (qnth (ca_x c2 ++ ca_slack c2)). exact (check_kkt_sound _ _ _ _ _ H2).
Qed.

Corollary resolve_eq_fresh_history s l r_warm r_fresh :
  let s' := api_run M s l in
  answer_cert M (a_p s') r_warm -> answer_cert M (a_p s') r_fresh ->
  an_status r_warm = ST_OPTIMAL -> an_status r_fresh = ST_OPTIMAL ->
  ca_val (an_sol r_warm) == ca_val (an_sol r_fresh).
Proof. intros s' H1 H2 E1 E2. apply (resolve_eq_fresh (a_p s')); [apply H1|apply H2]; assumption. Qed.

End WithM.
