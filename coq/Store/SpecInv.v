(* Invariants of the reference model Store.Spec, for all histories.

   wf_spec           : column names distinct, row names distinct, every stored
                       entry of every column refers to an existing row
   pstep_wf / prun_wf: preserved by every op / every op list (fold_left)
   err_leaves_state  : an op answered RErr leaves the problem as it was
   query_leaves_state: so does every query op
   name lookup       : row_index / col_index are inverse to naming
   transpose         : row-wise extraction is the transpose of the column store
   to_ulp            : the user LP of LP/User.v denoted by a state is well formed
                       and its coefficient function is that of the column store
   store level       : wf for every handle, frame property, copy               *)
From Coq Require Import String Ascii ZArith.
From QSX Require Import Store.Spec.
Local Open Scope Q_scope.

(* ---- the invariant ------------------------------------------------------------------ *)

Definition ents_ok (m : nat) (c : scol) : Prop := Forall (fun kv => (fst kv < m)%nat) (sc_ent c).
Definition wf_spec (p : prob) : Prop :=
  NoDup (colnames p) /\ NoDup (rownames p) /\ Forall (ents_ok (nrow p)) (p_cols p).

Lemma wf_empty M mx : wf_spec (empty_prob M mx).
Proof. repeat split; constructor. Qed.

(* ---- arguments ---------------------------------------------------------------------- *)

Lemma idx_lt n z i : idx n z = Some i -> (i < n)%nat.
Proof.
  unfold idx. destruct ((0 <=? z)%Z && (z <? Z.of_nat n)%Z)%bool eqn:E; [|discriminate].
  intros H; inversion H; subst. apply andb_true_iff in E. destruct E as [A B].
  apply Z.leb_le in A. apply Z.ltb_lt in B. lia.
Qed.

Lemma idxs_lt n l t : idxs n l = Some t -> Forall (fun i => (i < n)%nat) t.
Proof.
  revert t. induction l as [|z r IH]; simpl; intros t H.
  - inversion H. constructor.
  - destruct (idx n z) eqn:E; [|discriminate]. destruct (idxs n r) eqn:F; [|discriminate].
    inversion H; subst. constructor; [eapply idx_lt; eauto | apply IH; reflexivity].
Qed.

Lemma conv_ent_lt n e t : conv_ent n e = Some t -> Forall (fun kv => (fst kv < n)%nat) t.
Proof.
  revert t. induction e as [|[z v] r IH]; simpl; intros t H.
  - inversion H. constructor.
  - destruct (idx n z) eqn:E; [|discriminate]. destruct (conv_ent n r) eqn:F; [|discriminate].
    inversion H; subst. constructor; [simpl; eapply idx_lt; eauto | apply IH; reflexivity].
Qed.

(* ---- names -------------------------------------------------------------------------- *)

Lemma mems_false s l : mems s l = false -> ~ In s l.
Proof.
  unfold mems. intros H C. assert (X : existsb (String.eqb s) l = true).
  { apply existsb_exists. exists s. split; [exact C | apply String.eqb_refl]. }
  congruence.
Qed.

Lemma first_free_fresh base names fuel k s : first_free base names fuel k = Some s -> ~ In s names.
Proof.
  revert k. induction fuel as [|f IH]; simpl; intros k H; [discriminate|].
  match type of H with (if ?c then _ else _) = _ => destruct c eqn:E end.
  - eapply IH; eauto.
  - inversion H; subst. apply mems_false; exact E.
Qed.

Lemma pick_name_fresh pre names nm s : pick_name pre names nm = Some s -> ~ In s names.
Proof.
  unfold pick_name, gen_name. destruct nm as [t|].
  - destruct (mems t names) eqn:E; [discriminate|]. intros H; inversion H; subst. apply mems_false; exact E.
  - destruct (mems (pre ++ dec (S (length names))) names) eqn:E.
    + apply first_free_fresh.
    + intros H; inversion H; subst. apply mems_false; exact E.
Qed.

Lemma NoDup_snoc {A} (l : list A) a : NoDup l -> ~ In a l -> NoDup (l ++ [a]).
Proof.
  intros H N. induction H as [|x l Hx Hl IH]; simpl.
  - constructor; [intros []|constructor].
  - constructor.
    + rewrite in_app_iff. intros [C|[C|[]]]; [exact (Hx C)|]. subst. apply N. left; reflexivity.
    + apply IH. intros C. apply N. right; exact C.
Qed.

Lemma find_name_spec s l i0 i : find_name s l i0 = Some i ->
  (i0 <= i)%nat /\ (i - i0 < length l)%nat /\ nth (i - i0) l ""%string = s.
Proof.
  revert i0. induction l as [|a r IH]; simpl; intros i0 H; [discriminate|].
  destruct (String.eqb_spec a s) as [->|N].
  - inversion H; subst. rewrite Nat.sub_diag. repeat split; lia.
  - destruct (IH _ H) as (A & B & C). repeat split; try lia.
    replace (i - i0)%nat with (S (i - S i0)) by lia. exact C.
Qed.

Lemma find_name_nth l : NoDup l -> forall i i0, (i < length l)%nat -> find_name (nth i l ""%string) l i0 = Some (i0 + i)%nat.
Proof.
  induction 1 as [|a r Ha Hr IH]; intros i i0 Hi; [simpl in Hi; lia|].
  destruct i as [|i]; simpl.
  - rewrite String.eqb_refl. f_equal. lia.
  - simpl in Hi. destruct (String.eqb_spec a (nth i r ""%string)) as [E|N].
    + exfalso. apply Ha. rewrite E. apply nth_In. lia.
    + rewrite IH by lia. f_equal. lia.
Qed.

Lemma find_name_none s l i0 : find_name s l i0 = None -> ~ In s l.
Proof.
  revert i0. induction l as [|a r IH]; simpl; intros i0 H; [intros []|].
  destruct (String.eqb_spec a s) as [->|N]; [discriminate|].
  intros [C|C]; [exact (N C)|exact (IH _ H C)].
Qed.

Lemma find_names_lt names l t : find_names names l = Some t -> Forall (fun i => (i < length names)%nat) t.
Proof.
  revert t. induction l as [|s r IH]; simpl; intros t H.
  - inversion H; constructor.
  - destruct (find_name s names 0) eqn:E; [|discriminate]. destruct (find_names names r) eqn:F; [|discriminate].
    inversion H; subst. constructor; [|apply IH; reflexivity].
    destruct (find_name_spec _ _ _ _ E) as (_ & B & _). lia.
Qed.

(* ---- list helpers ------------------------------------------------------------------- *)

Lemma remove_nth_length {A} i (l : list A) :
  length (remove_nth i l) = if Nat.ltb i (length l) then pred (length l) else length l.
Proof.
  revert i. induction l as [|a r IH]; intros i; [destruct i; reflexivity|].
  destruct i as [|i]; simpl; [reflexivity|]. rewrite IH.
  change (Nat.ltb (S i) (S (length r))) with (Nat.ltb i (length r)).
  destruct (Nat.ltb_spec i (length r)); [|reflexivity]. destruct r; simpl in *; [lia|reflexivity].
Qed.

Lemma remove_nth_incl {A} i (l : list A) x : In x (remove_nth i l) -> In x l.
Proof.
  revert i. induction l as [|a r IH]; intros i H; [destruct i; exact H|].
  destruct i as [|i]; simpl in H; [right; exact H|].
  destruct H as [H|H]; [left; exact H | right; eapply IH; eauto].
Qed.

Lemma remove_nth_NoDup {A} i (l : list A) : NoDup l -> NoDup (remove_nth i l).
Proof.
  intros H. revert i. induction H as [|a r Ha Hr IH]; intros i; [destruct i; constructor|].
  destruct i as [|i]; simpl; [exact Hr|]. constructor; [|apply IH].
  intros C. apply Ha. eapply remove_nth_incl; eauto.
Qed.

Lemma remove_nth_map {A B} (f : A -> B) i l : map f (remove_nth i l) = remove_nth i (map f l).
Proof.
  revert i. induction l as [|a r IH]; intros i; [destruct i; reflexivity|].
  destruct i; simpl; [reflexivity|]. rewrite IH; reflexivity.
Qed.

Lemma remove_nth_Forall {A} (P : A -> Prop) i l : Forall P l -> Forall P (remove_nth i l).
Proof.
  intros H. apply Forall_forall. intros x Hx. rewrite Forall_forall in H. apply H. eapply remove_nth_incl; eauto.
Qed.

Lemma upd_nth_length {A} i (f : A -> A) l : length (upd_nth i f l) = length l.
Proof.
  revert i. induction l as [|a r IH]; intros i; [destruct i; reflexivity|].
  destruct i; simpl; [reflexivity|]. rewrite IH; reflexivity.
Qed.

Lemma upd_nth_map {A B} (g : A -> B) (f : A -> A) i l :
  (forall a, g (f a) = g a) -> map g (upd_nth i f l) = map g l.
Proof.
  intros H. revert i. induction l as [|a r IH]; intros i; [destruct i; reflexivity|].
  destruct i; simpl; [rewrite H; reflexivity|]. rewrite IH; reflexivity.
Qed.

Lemma upd_nth_Forall {A} (P : A -> Prop) (f : A -> A) i l :
  (forall a, P a -> P (f a)) -> Forall P l -> Forall P (upd_nth i f l).
Proof.
  intros H F. revert i. induction F as [|a r Ha Hr IH]; intros i; [destruct i; constructor|].
  destruct i; simpl; constructor; auto.
Qed.

Lemma Forall_ents_mono m m' cols : (m <= m')%nat -> Forall (ents_ok m) cols -> Forall (ents_ok m') cols.
Proof.
  intros L F. eapply Forall_impl; [|exact F]. intros c Hc. unfold ents_ok in *.
  eapply Forall_impl; [|exact Hc]. simpl. intros; lia.
Qed.

(* ---- add ---------------------------------------------------------------------------- *)

Lemma add_col_wf p obj lo up nm ent p' : wf_spec p -> add_col p obj lo up nm ent = Some p' -> wf_spec p'.
Proof.
  intros (C & R & E). unfold add_col.
  destruct (pick_name "x" (colnames p) nm) eqn:N; [|discriminate].
  destruct (conv_ent (nrow p) ent) eqn:V; [|discriminate].
  intros H; inversion H; subst; clear H. unfold wf_spec, colnames, rownames, nrow; simpl.
  repeat split.
  - rewrite map_app. apply NoDup_snoc; [exact C|]. eapply pick_name_fresh; eauto.
  - exact R.
  - apply Forall_app. split; [exact E|]. constructor; [|constructor].
    unfold ents_ok; simpl. eapply conv_ent_lt; eauto.
Qed.

Lemma app_row_names cols j0 i e : map sc_name (app_row cols j0 i e) = map sc_name cols.
Proof. revert j0. induction cols as [|c r IH]; intros j0; simpl; [reflexivity|]. rewrite IH; reflexivity. Qed.

Lemma app_row_ok cols j0 i e : Forall (ents_ok i) cols -> Forall (ents_ok (S i)) (app_row cols j0 i e).
Proof.
  intros F. revert j0. induction F as [|c r Hc Hr IH]; intros j0; simpl; constructor; [|apply IH].
  unfold ents_ok in *; simpl. apply Forall_app. split.
  - eapply Forall_impl; [|exact Hc]. simpl; intros; lia.
  - apply Forall_forall. intros x Hx. apply in_map_iff in Hx. destruct Hx as (y & <- & _). simpl; lia.
Qed.

Lemma add_row_wf p rhs sn rng nm ent p' : wf_spec p -> add_row p rhs sn rng nm ent = Some p' -> wf_spec p'.
Proof.
  intros (C & R & E). unfold add_row.
  destruct (sense_of_ascii sn) eqn:S; [|discriminate].
  destruct (pick_name "c" (rownames p) nm) eqn:N; [|discriminate].
  destruct (conv_ent (ncol p) ent) eqn:V; [|discriminate].
  intros H; inversion H; subst; clear H. unfold wf_spec, colnames, rownames, nrow; simpl.
  repeat split.
  - rewrite app_row_names. exact C.
  - rewrite map_app. apply NoDup_snoc; [exact R|]. eapply pick_name_fresh; eauto.
  - rewrite app_length. simpl. rewrite Nat.add_1_r. apply app_row_ok. exact E.
Qed.

Lemma add_cols_wf l : forall p p', wf_spec p -> add_cols p l = Some p' -> wf_spec p'.
Proof.
  induction l as [|[[[[obj lo] up] nm] ent] r IH]; simpl; intros p p' W H.
  - inversion H; subst; exact W.
  - destruct (add_col p obj lo up nm ent) eqn:A; [|discriminate].
    eapply IH; [|exact H]. eapply add_col_wf; eauto.
Qed.

Lemma add_rows_wf l : forall p p', wf_spec p -> add_rows p l = Some p' -> wf_spec p'.
Proof.
  induction l as [|[[[[rhs sn] rng] nm] ent] r IH]; simpl; intros p p' W H.
  - inversion H; subst; exact W.
  - destruct (add_row p rhs sn rng nm ent) eqn:A; [|discriminate].
    eapply IH; [|exact H]. eapply add_row_wf; eauto.
Qed.

(* ---- delete ------------------------------------------------------------------------- *)

Lemma del_ent_ok i m e : Forall (fun kv => (fst kv < m)%nat) e ->
  Forall (fun kv => (fst kv < (if Nat.ltb i m then pred m else m))%nat) (del_ent i e).
Proof.
  intros F. unfold del_ent. apply Forall_forall. intros x Hx.
  apply in_map_iff in Hx. destruct Hx as ([k v] & <- & Hy). apply filter_In in Hy. destruct Hy as (Hy & Hn).
  rewrite Forall_forall in F. specialize (F _ Hy). simpl in *.
  apply negb_true_iff in Hn. apply Nat.eqb_neq in Hn.
  destruct (Nat.ltb_spec i k); destruct (Nat.ltb_spec i m); lia.
Qed.

Lemma del_row_one_wf p i : wf_spec p -> wf_spec (del_row_one p i).
Proof.
  intros (C & R & E). unfold wf_spec, del_row_one, colnames, rownames, nrow; simpl. repeat split.
  - rewrite map_map. simpl. exact C.
  - rewrite remove_nth_map. apply remove_nth_NoDup. exact R.
  - rewrite remove_nth_length. apply Forall_forall. intros c Hc.
    apply in_map_iff in Hc. destruct Hc as (c0 & <- & Hc0). rewrite Forall_forall in E.
    unfold ents_ok; simpl. apply del_ent_ok. apply E. exact Hc0.
Qed.

Lemma del_col_one_wf p j : wf_spec p -> wf_spec (del_col_one p j).
Proof.
  intros (C & R & E). unfold wf_spec, del_col_one, colnames, rownames, nrow; simpl. repeat split.
  - rewrite remove_nth_map. apply remove_nth_NoDup. exact C.
  - exact R.
  - apply remove_nth_Forall. exact E.
Qed.

Lemma fold_wf {A} (f : prob -> A -> prob) (l : list A) :
  (forall p a, wf_spec p -> wf_spec (f p a)) -> forall p, wf_spec p -> wf_spec (fold_left f l p).
Proof. intros H. induction l as [|a r IH]; simpl; intros p W; [exact W|]. apply IH. apply H. exact W. Qed.

Lemma del_rows_n_wf p ds : wf_spec p -> wf_spec (del_rows_n p ds).
Proof. apply fold_wf. intros; apply del_row_one_wf; assumption. Qed.
Lemma del_cols_n_wf p ds : wf_spec p -> wf_spec (del_cols_n p ds).
Proof. apply fold_wf. intros; apply del_col_one_wf; assumption. Qed.

(* ---- change ------------------------------------------------------------------------- *)

Lemma set_first_ok m i v e : (i < m)%nat -> Forall (fun kv => (fst kv < m)%nat) e -> Forall (fun kv => (fst kv < m)%nat) (set_first i v e).
Proof.
  intros Hi F. induction F as [|kv r Hk Hr IH]; simpl; [constructor; [exact Hi|constructor]|].
  destruct (Nat.eqb (fst kv) i); constructor; auto.
Qed.

Lemma wf_upd_cols p f j :
  (forall c, sc_name (f c) = sc_name c) -> (forall c, ents_ok (nrow p) c -> ents_ok (nrow p) (f c)) ->
  wf_spec p -> wf_spec (set_cols p (upd_nth j f (p_cols p))).
Proof.
  intros Hn He (C & R & E). unfold wf_spec, colnames, rownames, nrow; simpl. repeat split.
  - rewrite upd_nth_map by exact Hn. exact C.
  - exact R.
  - apply upd_nth_Forall; [exact He|exact E].
Qed.

Lemma wf_upd_rows p f i :
  (forall r, sr_name (f r) = sr_name r) -> wf_spec p -> wf_spec (set_rows p (upd_nth i f (p_rows p))).
Proof.
  intros Hn (C & R & E). unfold wf_spec, colnames, rownames, nrow; simpl. repeat split.
  - exact C.
  - rewrite upd_nth_map by exact Hn. exact R.
  - rewrite upd_nth_length. exact E.
Qed.

Lemma wf_fold_rows {A} p (g : A -> nat) (f : A -> srow -> srow) (t : list A) :
  (forall a r, sr_name (f a r) = sr_name r) -> wf_spec p ->
  wf_spec (set_rows p (fold_left (fun rows a => upd_nth (g a) (f a) rows) t (p_rows p))).
Proof.
  intros Hn. revert p. induction t as [|a r IH]; intros p W; simpl.
  - destruct p; exact W.
  - specialize (IH (set_rows p (upd_nth (g a) (f a) (p_rows p)))). simpl in IH.
    apply IH. apply wf_upd_rows; [apply Hn|exact W].
Qed.

Lemma wf_fold_cols {A} p (g : A -> nat) (f : A -> scol -> scol) (t : list A) :
  (forall a c, sc_name (f a c) = sc_name c) -> (forall a c, sc_ent (f a c) = sc_ent c) -> wf_spec p ->
  wf_spec (set_cols p (fold_left (fun cols a => upd_nth (g a) (f a) cols) t (p_cols p))).
Proof.
  intros Hn He. revert p. induction t as [|a r IH]; intros p W; simpl.
  - destruct p; exact W.
  - specialize (IH (set_cols p (upd_nth (g a) (f a) (p_cols p)))). simpl in IH.
    apply IH. apply wf_upd_cols; [apply Hn| |exact W].
    intros c. unfold ents_ok. rewrite He. auto.
Qed.

(* ---- every op ----------------------------------------------------------------------- *)

Lemma wf_set_par p a : wf_spec p -> wf_spec (set_par p a).
Proof. intros W; exact W. Qed.
Lemma wf_set_max p b : wf_spec p -> wf_spec (set_max p b).
Proof. intros W; exact W. Qed.

Lemma edit_wf p r : wf_spec p -> (forall p', r = Some p' -> wf_spec p') -> wf_spec (fst (edit p r)).
Proof. intros W H. destruct r; simpl; [apply H; reflexivity|exact W]. Qed.

Lemma answer_state p r : fst (answer p r) = p.
Proof. destruct r; reflexivity. Qed.

Theorem pstep_wf M p o : wf_spec p -> wf_spec (fst (pstep M p o)).
Proof.
  intros W. destruct o; cbn [pstep]; try (rewrite answer_state; exact W); try (destruct l; rewrite answer_state; exact W);
    apply edit_wf; try exact W; intros p' H.
  - eapply add_col_wf; eauto.
  - eapply add_col_wf; eauto.
  - eapply add_cols_wf; eauto.
  - eapply add_row_wf; eauto.
  - eapply add_row_wf; eauto.
  - eapply add_rows_wf; eauto.
  - unfold del_rows in H. destruct (idxs (nrow p) l); [|discriminate]. destruct (nodupn l0); [|discriminate].
    inversion H; subst. apply del_rows_n_wf; exact W.
  - inversion H; subst. apply del_rows_n_wf; exact W.
  - unfold del_named_rows in H. destruct (find_names (rownames p) l); [|discriminate]. destruct (nodupn l0); [|discriminate].
    inversion H; subst. apply del_rows_n_wf; exact W.
  - unfold del_cols in H. destruct (idxs (ncol p) l); [|discriminate]. destruct (nodupn l0); [|discriminate].
    inversion H; subst. apply del_cols_n_wf; exact W.
  - inversion H; subst. apply del_cols_n_wf; exact W.
  - unfold del_named_cols in H. destruct (find_names (colnames p) l); [|discriminate]. destruct (nodupn l0); [|discriminate].
    inversion H; subst. apply del_cols_n_wf; exact W.
  - unfold chg_coef in H. destruct (idx (nrow p) i) eqn:Ei; [|discriminate]. destruct (idx (ncol p) j); [|discriminate].
    inversion H; subst. apply wf_upd_cols; [reflexivity| |exact W].
    intros c Hc. unfold ents_ok in *; simpl. apply set_first_ok; [eapply idx_lt; eauto|exact Hc].
  - unfold chg_obj in H. destruct (idx (ncol p) j); [|discriminate]. inversion H; subst.
    apply wf_upd_cols; [reflexivity| |exact W]. intros c Hc; exact Hc.
  - unfold chg_rhs in H. destruct (idx (nrow p) i); [|discriminate]. inversion H; subst.
    apply wf_upd_rows; [reflexivity|exact W].
  - unfold chg_range in H. destruct (idx (nrow p) i); [|discriminate].
    destruct (is_SR (sr_sense (nth n (p_rows p) dsrow))); [|discriminate]. inversion H; subst.
    apply wf_upd_rows; [reflexivity|exact W].
  - unfold chg_senses in H. destruct (conv_senses (nrow p) l); [|discriminate]. inversion H; subst.
    apply (wf_fold_rows p fst (fun a r => set_sense r (snd a))); [reflexivity|exact W].
  - unfold chg_bnds in H. destruct (conv_bnds (ncol p) l); [|discriminate]. inversion H; subst.
    apply (wf_fold_cols p (fun b => fst (fst b)) (fun b c => app_bnd c (snd (fst b)) (snd b))); try exact W.
    + intros [[? s] ?] c; destruct s; reflexivity.
    + intros [[? s] ?] c; destruct s; reflexivity.
  - unfold chg_objsense in H. destruct (code =? 1)%Z; [inversion H; subst; exact W|].
    destruct (code =? -1)%Z; [inversion H; subst; exact W|discriminate].
  - unfold set_param in H.
    repeat match type of H with (if ?c then _ else _) = _ => destruct c end; try discriminate; inversion H; subst; exact W.
  - unfold set_paramq in H.
    repeat match type of H with (if ?c then _ else _) = _ => destruct c end; try discriminate; inversion H; subst; exact W.
  - unfold mark_int in H. destruct (idx (ncol p) j); [|discriminate]. inversion H; subst.
    apply wf_upd_cols; [reflexivity| |exact W]. intros c Hc; exact Hc.
Qed.

Theorem prun_wf M l : forall p, wf_spec p -> wf_spec (prun M p l).
Proof.
  unfold prun. induction l as [|o r IH]; simpl; intros p W; [exact W|]. apply IH. apply pstep_wf. exact W.
Qed.

Corollary history_wf M mx l : wf_spec (prun M (empty_prob M mx) l).
Proof. apply prun_wf. apply wf_empty. Qed.

(* ---- failed calls and queries change nothing ---------------------------------------- *)

Theorem err_leaves_state M p o : snd (pstep M p o) = RErr -> fst (pstep M p o) = p.
Proof.
  destruct o; simpl; unfold edit, answer;
    repeat match goal with |- context [match ?x with _ => _ end] => destruct x end; simpl; intros H; try reflexivity; discriminate.
Qed.

Theorem query_leaves_state M p o : is_query o = true -> fst (pstep M p o) = p.
Proof.
  destruct o; intros H; try discriminate H; cbn [pstep]; try (apply answer_state); destruct l; apply answer_state.
Qed.

Theorem no_skip M p o : snd (pstep M p o) <> RSkip.
Proof.
  destruct o; simpl; unfold edit, answer;
    repeat match goal with |- context [match ?x with _ => _ end] => destruct x end; simpl; discriminate.
Qed.

(* an op is answered RErr exactly when its arguments are not valid (valid_args is *defined* as the
   success of the reference step, so this is the statement that the model has no third outcome) *)
Theorem rejects_iff_invalid M p o : valid_args M p o = false <-> snd (pstep M p o) = RErr.
Proof.
  unfold valid_args. pose proof (no_skip M p o) as N. destruct (snd (pstep M p o)); split; intros; try reflexivity; try discriminate.
  exfalso; apply N; reflexivity.
Qed.

(* ---- name lookup is inverse to naming ----------------------------------------------- *)

Theorem row_index_name p i : wf_spec p -> (i < nrow p)%nat -> row_index p (sr_name (nth i (p_rows p) dsrow)) = Some i.
Proof.
  intros (_ & R & _) Hi. unfold row_index, rownames.
  replace (sr_name (nth i (p_rows p) dsrow)) with (nth i (map sr_name (p_rows p)) ""%string).
  - rewrite find_name_nth; [reflexivity|exact R|rewrite map_length; exact Hi].
  - change ""%string with (sr_name dsrow). apply map_nth.
Qed.

Theorem col_index_name p j : wf_spec p -> (j < ncol p)%nat -> col_index p (sc_name (nth j (p_cols p) dscol)) = Some j.
Proof.
  intros (C & _ & _) Hj. unfold col_index, colnames.
  replace (sc_name (nth j (p_cols p) dscol)) with (nth j (map sc_name (p_cols p)) ""%string).
  - rewrite find_name_nth; [reflexivity|exact C|rewrite map_length; exact Hj].
  - change ""%string with (sc_name dscol). apply map_nth.
Qed.

Theorem row_name_index p s i : row_index p s = Some i -> (i < nrow p)%nat /\ sr_name (nth i (p_rows p) dsrow) = s.
Proof.
  unfold row_index, rownames. intros H. destruct (find_name_spec _ _ _ _ H) as (_ & B & C).
  rewrite Nat.sub_0_r in *. rewrite map_length in B. split; [exact B|].
  rewrite <- C. change ""%string with (sr_name dsrow). symmetry. apply map_nth.
Qed.

Theorem col_name_index p s j : col_index p s = Some j -> (j < ncol p)%nat /\ sc_name (nth j (p_cols p) dscol) = s.
Proof.
  unfold col_index, colnames. intros H. destruct (find_name_spec _ _ _ _ H) as (_ & B & C).
  rewrite Nat.sub_0_r in *. rewrite map_length in B. split; [exact B|].
  rewrite <- C. change ""%string with (sc_name dscol). symmetry. apply map_nth.
Qed.

(* after any history *)
Corollary name_lookup_inverse M mx l i :
  let p := prun M (empty_prob M mx) l in
  (i < nrow p)%nat -> row_index p (sr_name (nth i (p_rows p) dsrow)) = Some i.
Proof. intros p Hi. apply row_index_name; [apply history_wf|exact Hi]. Qed.

Corollary colname_lookup_inverse M mx l j :
  let p := prun M (empty_prob M mx) l in
  (j < ncol p)%nat -> col_index p (sc_name (nth j (p_cols p) dscol)) = Some j.
Proof. intros p Hj. apply col_index_name; [apply history_wf|exact Hj]. Qed.

(* ---- row-wise extraction is the transpose of column-wise extraction -------------------- *)

Lemma row_ents_in cols j0 i j v :
  In (j, v) (row_ents cols j0 i) <-> (j0 <= j)%nat /\ exists c, nth_error cols (j - j0) = Some c /\ In (i, v) (sc_ent c).
Proof.
  revert j0. induction cols as [|c r IH]; intros j0; simpl.
  - split; [intros []|]. intros (_ & c & H & _). destruct (j - j0)%nat; discriminate.
  - rewrite in_app_iff, IH. split.
    + intros [H|(L & c' & H & I)].
      * apply in_map_iff in H. destruct H as ([k w] & E & F). inversion E; subst. apply filter_In in F. destruct F as (F & G).
        simpl in G. apply Nat.eqb_eq in G. subst. split; [lia|]. exists c. rewrite Nat.sub_diag. split; [reflexivity|exact F].
      * split; [lia|]. exists c'. replace (j - j0)%nat with (S (j - S j0)) by lia. split; assumption.
    + intros (L & c' & H & I). destruct (Nat.eq_dec j j0) as [->|N].
      * left. rewrite Nat.sub_diag in H. simpl in H. inversion H; subst.
        apply in_map_iff. exists (i, v). split; [reflexivity|]. apply filter_In. split; [exact I|]. simpl. apply Nat.eqb_refl.
      * right. split; [lia|]. exists c'. replace (j - j0)%nat with (S (j - S j0)) in H by lia. split; assumption.
Qed.

Theorem getrows_getcols_transpose p i j v :
  (j < ncol p)%nat -> (In (j, v) (get_row p i) <-> In (i, v) (get_col p j)).
Proof.
  intros Hj. unfold get_row, get_col. rewrite row_ents_in. rewrite Nat.sub_0_r. split.
  - intros (_ & c & H & I). rewrite (nth_error_nth _ _ _ H). exact I.
  - intros I. split; [lia|]. exists (nth j (p_cols p) dscol). split; [|exact I].
    apply nth_error_nth'. exact Hj.
Qed.

Theorem get_row_cols_in_range p i j v : In (j, v) (get_row p i) -> (j < ncol p)%nat.
Proof.
  unfold get_row. rewrite row_ents_in. rewrite Nat.sub_0_r. intros (_ & c & H & _).
  apply nth_error_Some. congruence.
Qed.

(* the same with multiplicities: both views carry the same number of stored entries *)
Lemma row_ents_length cols j0 i :
  length (row_ents cols j0 i) = fold_right (fun c a => (length (filter (fun e => Nat.eqb (fst e) i) (sc_ent c)) + a)%nat) O cols.
Proof.
  revert j0. induction cols as [|c r IH]; intros j0; simpl; [reflexivity|].
  rewrite app_length, map_length, IH. reflexivity.
Qed.

(* coefficient function: the (summed) coefficient of column j in row i is the same in both views *)
Lemma coefAt_row_ents cols j0 i j :
  coefAt (row_ents cols j0 i) j ==
  if (Nat.leb j0 j && Nat.ltb (j - j0) (length cols))%bool then coefAt (sc_ent (nth (j - j0) cols dscol)) i else 0.
Proof.
  revert j0. induction cols as [|c r IH]; intros j0.
  - simpl. rewrite andb_false_r. reflexivity.
  - cbn [row_ents].
    assert (A : forall e, coefAt (map (fun e0 : nat * Q => (j0, snd e0)) (filter (fun e0 => Nat.eqb (fst e0) i) e) ++ row_ents r (S j0) i) j
                  == (if Nat.eqb j0 j then coefAt e i else 0) + coefAt (row_ents r (S j0) i) j).
    { induction e as [|[k w] e IHe]; simpl.
      - destruct (Nat.eqb j0 j); ring.
      - destruct (Nat.eqb k i) eqn:K; simpl; rewrite IHe; destruct (Nat.eqb j0 j); ring. }
    rewrite A, IH. clear A IH.
    destruct (lt_eq_lt_dec j0 j) as [[L|E]|G].
    + replace (Nat.eqb j0 j) with false by (symmetry; apply Nat.eqb_neq; lia).
      replace (Nat.leb j0 j) with true by (symmetry; apply Nat.leb_le; lia).
      replace (Nat.leb (S j0) j) with true by (symmetry; apply Nat.leb_le; lia).
      replace (j - j0)%nat with (S (j - S j0)) by lia.
      cbn [nth length andb].
      change (Nat.ltb (S (j - S j0)) (S (length r))) with (Nat.ltb (j - S j0) (length r)).
      destruct (Nat.ltb (j - S j0) (length r)); ring.
    + subst j0. rewrite Nat.eqb_refl, Nat.leb_refl, Nat.sub_diag.
      replace (Nat.leb (S j) j) with false by (symmetry; apply Nat.leb_gt; lia).
      cbn [nth length andb]. change (Nat.ltb 0 (S (length r))) with true. cbn iota. ring.
    + replace (Nat.eqb j0 j) with false by (symmetry; apply Nat.eqb_neq; lia).
      replace (Nat.leb j0 j) with false by (symmetry; apply Nat.leb_gt; lia).
      replace (Nat.leb (S j0) j) with false by (symmetry; apply Nat.leb_gt; lia).
      cbn [andb]. ring.
Qed.

Theorem coef_row_col p i j : (j < ncol p)%nat -> coefAt (get_row p i) j == coefAt (get_col p j) i.
Proof.
  intros Hj. unfold get_row, get_col. rewrite coefAt_row_ents. simpl. rewrite Nat.sub_0_r.
  apply Nat.ltb_lt in Hj. unfold ncol in Hj. rewrite Hj. reflexivity.
Qed.

(* ---- the user LP denoted by a state --------------------------------------------------- *)

Lemma urows_of_length cols rows i0 : length (urows_of cols rows i0) = length rows.
Proof. revert i0. induction rows as [|r t IH]; intros i0; simpl; [reflexivity|]. rewrite IH; reflexivity. Qed.

Lemma urows_of_nth cols rows i0 i : (i < length rows)%nat ->
  ur_ent (nth i (urows_of cols rows i0) durow) = row_ents cols 0 (i0 + i).
Proof.
  revert i0 i. induction rows as [|r t IH]; intros i0 i Hi; simpl in Hi; [lia|].
  destruct i as [|i]; simpl; [rewrite Nat.add_0_r; reflexivity|].
  rewrite IH by lia. f_equal. lia.
Qed.

Lemma row_ents_ind_lt cols j0 i : ind_lt (j0 + length cols) (row_ents cols j0 i) = true.
Proof.
  revert j0. induction cols as [|c r IH]; intros j0; simpl; [reflexivity|].
  unfold ind_lt in *. rewrite forallb_app. apply andb_true_iff. split.
  - apply forallb_forall. intros x Hx. apply in_map_iff in Hx. destruct Hx as (y & <- & _). simpl. apply Nat.ltb_lt. lia.
  - replace (j0 + S (length r))%nat with (S j0 + length r)%nat by lia. apply IH.
Qed.

Lemma urows_of_wf cols rows i0 : forallb (fun r => ind_lt (length cols) (ur_ent r)) (urows_of cols rows i0) = true.
Proof.
  revert i0. induction rows as [|r t IH]; intros i0; simpl; [reflexivity|].
  apply andb_true_iff. split; [|apply IH]. apply (row_ents_ind_lt cols 0).
Qed.

Theorem to_ulp_wf p : wf_ulp (to_ulp p) = true.
Proof.
  unfold wf_ulp, to_ulp, un; simpl. rewrite map_length. apply urows_of_wf.
Qed.

(* dimensions and coefficient function of the denoted user LP are those of the store *)
Theorem to_ulp_dims p : un (to_ulp p) = ncol p /\ um (to_ulp p) = nrow p.
Proof. unfold un, um, to_ulp; simpl. rewrite map_length, urows_of_length. split; reflexivity. Qed.

Theorem to_ulp_coef p i j : (i < nrow p)%nat -> (j < ncol p)%nat ->
  coefAt (ur_ent (urowi (to_ulp p) i)) j == coefAt (get_col p j) i.
Proof.
  intros Hi Hj. unfold urowi, to_ulp; simpl. rewrite urows_of_nth by exact Hi. simpl.
  apply (coef_row_col p i j Hj).
Qed.

(* ---- several handles ------------------------------------------------------------------ *)

Definition wf_store (s : store) : Prop := forall h p, get_h s h = Some p -> wf_spec p.

Lemma get_set_same s h v : get_h (set_h s h v) h = v.
Proof.
  unfold get_h. revert s. induction h as [|k IH]; intros s; destruct s; simpl; try reflexivity; apply IH.
Qed.

Lemma get_set_other s h h' v : h <> h' -> get_h (set_h s h v) h' = get_h s h'.
Proof.
  unfold get_h. revert s h'. induction h as [|k IH]; intros s h' N; destruct s, h'; simpl; try reflexivity; try congruence.
  - destruct h'; reflexivity.
  - rewrite IH by congruence. destruct h'; reflexivity.
  - apply IH. congruence.
Qed.

Lemma wf_set s h v : wf_store s -> (forall p, v = Some p -> wf_spec p) -> wf_store (set_h s h v).
Proof.
  intros W H h' p G. destruct (Nat.eq_dec h h') as [<-|N].
  - rewrite get_set_same in G. apply H; exact G.
  - rewrite get_set_other in G by exact N. eapply W; eauto.
Qed.

Lemma load_prob_wf M mx cols rows p : load_prob M mx cols rows = Some p -> wf_spec p.
Proof.
  unfold load_prob. destruct (add_rows _ _) eqn:A; [|discriminate]. intros H.
  eapply add_cols_wf; [|exact H]. eapply add_rows_wf; [|exact A]. apply wf_empty.
Qed.

Theorem sstep_wf M s o : wf_store s -> wf_store (fst (sstep M s o)).
Proof.
  intros W. destruct o; simpl.
  - apply wf_set; [exact W|]. intros p H; inversion H; subst. apply wf_empty.
  - destruct (load_prob M _ cols rows) eqn:L; simpl; apply wf_set; try exact W.
    + intros p' H; inversion H; subst. eapply load_prob_wf; eauto.
    + intros p' H; discriminate.
  - apply wf_set; [exact W|]. intros p H; discriminate.
  - destruct (get_h s h) eqn:G; [|exact W]. destruct (Nat.eqb h h2); [exact W|]. simpl.
    apply wf_set; [exact W|]. intros p' H; inversion H; subst. eapply W; eauto.
  - destruct (get_h s h) eqn:G; [|exact W]. destruct (pstep M p o) eqn:P; simpl.
    apply wf_set; [exact W|]. intros p' H; inversion H; subst.
    replace p' with (fst (pstep M p o)) by (rewrite P; reflexivity). apply pstep_wf. eapply W; eauto.
Qed.

Theorem srun_wf M l : forall s, wf_store s -> wf_store (srun M s l).
Proof. unfold srun. induction l as [|o r IH]; simpl; intros s W; [exact W|]. apply IH. apply sstep_wf. exact W. Qed.

Lemma wf_store_nil : wf_store [].
Proof. intros h p H. unfold get_h in H. destruct h; discriminate. Qed.

(* which handle an op writes *)
Definition target (o : sop) : nat :=
  match o with SCreate h _ => h | SLoad h _ _ _ => h | SFree h => h | SCopy _ h2 => h2 | SOn h _ => h end.

(* frame: an op on one handle never changes what is stored under another (C16 independence) *)
Theorem frame M s o h' : target o <> h' -> get_h (fst (sstep M s o)) h' = get_h s h'.
Proof.
  intros N. destruct o; simpl in *.
  - apply get_set_other; exact N.
  - destruct (load_prob M _ cols rows); simpl; apply get_set_other; exact N.
  - apply get_set_other; exact N.
  - destruct (get_h s h); [|reflexivity]. destruct (Nat.eqb h h2); [reflexivity|]. simpl. apply get_set_other; exact N.
  - destruct (get_h s h); [|reflexivity]. destruct (pstep M p o); simpl. apply get_set_other; exact N.
Qed.

(* a copy is the problem itself (C16 faithfulness), and the original is untouched *)
Theorem copy_observes_equal M s h h2 p : get_h s h = Some p -> h <> h2 ->
  get_h (fst (sstep M s (SCopy h h2))) h2 = Some p /\ get_h (fst (sstep M s (SCopy h h2))) h = Some p.
Proof.
  intros G N. simpl. rewrite G. destruct (Nat.eqb_spec h h2); [contradiction|]. simpl.
  split; [apply get_set_same|]. rewrite get_set_other by congruence. exact G.
Qed.

(* histories on the original after the copy never show in the copy, and vice versa *)
Theorem copy_independent M s h2 p l :
  get_h s h2 = Some p -> (forall o, In o l -> target o <> h2) -> get_h (srun M s l) h2 = Some p.
Proof.
  unfold srun. revert s. induction l as [|o r IH]; simpl; intros s G H; [exact G|].
  apply IH.
  - rewrite frame; [exact G|]. apply H. left; reflexivity.
  - intros o' I. apply H. right; exact I.
Qed.

(* failed store-level calls on a live handle leave that problem as it was *)
Theorem sstep_err_atomic M s h o p :
  get_h s h = Some p -> snd (sstep M s (SOn h o)) = RErr -> get_h (fst (sstep M s (SOn h o))) h = Some p.
Proof.
  intros G. simpl. rewrite G. destruct (pstep M p o) as [p' r] eqn:P. simpl. intros E. subst r.
  rewrite get_set_same. f_equal. replace p' with (fst (pstep M p o)) by (rewrite P; reflexivity).
  apply err_leaves_state. rewrite P. reflexivity.
Qed.
