(* Extraction of the executable definitions.  Only ExtrOcamlBasic (+ ExtrOcamlString
   for ascii/string): numbers stay Coq datatypes (positive, Z, Q, nat).  Compiled from
   the ocaml/gen directory by tools/build_model.sh so that model.ml lands there. *)
From Coq Require Import Extraction ExtrOcamlBasic ExtrOcamlString.
From QSX Require Import Base.QSum LP.ILP LP.Cert LP.User LP.OptTest LP.Driver.
From QSX Require Import LP.Transform LP.TransformBounds LP.TransformSlack Float.Conv LP.Codes LP.LibSolution.
From QSX Require Import Fac.Gauss Fac.Basis Fac.Factor.
From QSX Require Import IO.Num IO.Equiv IO.Bounds IO.Bas IO.Sol.
From QSX Require Import Store.Spec Store.Api.
From QSX Require Import Fac.FTUpdate.
From QSX Require Import Store.Matrix Store.L2.
From QSX Require Import IO.LpWrite IO.LpRead IO.MpsWrite IO.LpRoundtrip IO.LpNames.
From QSX Require Import Store.RawLoad.
From QSX Require Import Fac.LUFactor Fac.TopoOrder.
From QSX Require Import Store.GuardDefs Gen.Guards.
From QSX Require Import IO.MpsRead.
From QSX Require Import IO.MpsWf.
From QSX Require Import IO.Esolver.
(* one Require line per area may be added below *)

Extraction Language OCaml.
Extraction "model.ml"
  radd rsub rmul rdiv Qred Qeq_bool Qle_bool Qltb Qplus Qmult Qminus Qopp Qinv
  inf_none inf_sentinel check_kkt check_farkas check_ray dz_l
  to_internal ilp_eqb wf_ulp
  opt_test infeas_test wf_logicals
  exact_solver_gen exact_solver
  neg_obj scale_row_lp dup_row add_redundant split_eq perm_rows is_perm subst_vars perm_cols bound_to_row add_slack
  to_double ulp_of
  lib_solution internal_min
  lpstat_of_code code_of_lpstat col_bstat_of_code row_bstat_of_code max_levels
  inverse null_vector solve solve_left mat_vec vec_mat veqb check_binv_row check_tableau_row check_ftran check_btran basis_optimalstatus basis_dualstatus Bmat bazl zfull yuser nonbasic_ok xB_of pi_of load_ok objval_l coefAt ftran btran ftran_dense check_repr wf_repr
  read_num_gen get_value print_num equiv_by_name row_empty encode_bounds decode_bounds
  write_basis read_basis qs_write_basis
  print_section parse_line
  sstep pstep dump_lines to_ulp empty_prob valid_args get_h
  api_init api_edit api_solve api_load_basis api_exact_cert
  lib_optimalstatus lib_dualstatus loaded_basis lp_bounds_ok norm_stat spike usolve usolve_t bpost update update_spike struct_ok repr_same_u sparsify norm_line sort_sparse
  l2_step_c l2_load_c l2_copy_c empty_lstore lwf_check wf_check abs col_ents
  write_lp file_bytes read_lp_res split_lines to_nlp write_mps wf_lpb fix_names default_objname
  lib_load_raw_c merge_col_c
  lu_factor lu_steps lu_init lu_kernel lu_auto_pivots repr_same_lu repair_cols check_sing_report lines_eqb etas_eqb natlist_eqb listed_order_ok
  guards guard_accepts role_accepts
  read_mps_res mlp_to_nlp
  wf_mpsb wf_coreb setnames_okb write_mps_fixed
  esolver the_ftype get_ftype parse_args
  (* add names below, one line per area *)
  .
