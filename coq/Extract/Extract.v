(* Extraction of the executable definitions.  Only ExtrOcamlBasic (+ ExtrOcamlString
   for ascii/string): numbers stay Coq datatypes (positive, Z, Q, nat).  Compiled from
   the ocaml/gen directory by tools/build_model.sh so that model.ml lands there. *)
From Coq Require Import Extraction ExtrOcamlBasic ExtrOcamlString.
From QSX Require Import Base.QSum LP.ILP LP.Cert LP.User LP.OptTest LP.Driver.
(* one Require line per area may be added below *)
From QSX Require Import Store.Spec Store.Api.

Extraction Language OCaml.
Extraction "model.ml"
  radd rsub rmul rdiv Qred Qeq_bool Qle_bool Qltb Qplus Qmult Qminus Qopp Qinv
  inf_none inf_sentinel check_kkt check_farkas check_ray dz_l
  to_internal ilp_eqb wf_ulp
  opt_test infeas_test wf_logicals
  exact_solver_gen exact_solver
  (* add names below, one line per area *)
  sstep pstep dump_lines to_ulp empty_prob valid_args get_h
  api_init api_edit api_solve api_load_basis api_exact_cert
  .
