(* Extraction of the executable definitions.  Only ExtrOcamlBasic (+ ExtrOcamlString
   for ascii/string): numbers stay Coq datatypes (positive, Z, Q, nat).  Compiled from
   the ocaml/gen directory by tools/build_model.sh so that model.ml lands there. *)
From Coq Require Import Extraction ExtrOcamlBasic ExtrOcamlString.
From QSX Require Import Base.QSum LP.ILP LP.Cert LP.User LP.OptTest LP.Driver.
(* one Require line per area may be added below *)
From QSX Require Import Fac.Gauss Fac.Basis Fac.Factor.

Extraction Language OCaml.
Extraction "model.ml"
  radd rsub rmul rdiv Qred Qeq_bool Qle_bool Qltb Qplus Qmult Qminus Qopp Qinv
  inf_none inf_sentinel check_kkt check_farkas check_ray dz_l
  to_internal ilp_eqb wf_ulp
  opt_test infeas_test wf_logicals
  exact_solver_gen exact_solver
  (* add names below, one line per area *)
  inverse null_vector solve solve_left mat_vec vec_mat veqb check_binv_row check_tableau_row check_ftran check_btran basis_optimalstatus basis_dualstatus Bmat bazl zfull yuser nonbasic_ok xB_of pi_of load_ok objval_l coefAt ftran btran ftran_dense check_repr wf_repr
  .
