(* IO/LpFinish.v -- fifth layer of the LP round trip: what the conversion (IO/LpRead.finish) makes of the raw
   problem the reader has accumulated from a written file, and why it is equivalent by name to the problem written.

     N_of_name_inj       the numbering of names used to pass to IO/Equiv.v is injective
     decode_rd           the bound statements as read back decode to the column's bounds (bounds_roundtrip with re-read values)
     ...                 columns / rows of the result *)
From Coq Require Import QArith List Ascii String Bool Arith NArith Lia Lqa.
From QSX Require Import Base.QSum LP.User IO.Num IO.NumSound IO.Bounds IO.Lex IO.Equiv IO.LpWrite IO.LpRead IO.LpTok IO.LpExpr IO.LpRows IO.LpBounds.
Import ListNotations.
Local Open Scope Q_scope.

(* ---- names as numbers -------------------------------------------------------------------------------------------------------- *)

Definition nfold (acc : N) (s : name) : N := fold_left (fun acc c => (acc * 256 + N_of_ascii c)%N) s acc.

Lemma nfold_snoc acc s c : nfold acc (s ++ [c]) = (nfold acc s * 256 + N_of_ascii c)%N.
Proof. unfold nfold. now rewrite fold_left_app. Qed.

Lemma N_of_ascii_lt c : (N_of_ascii c < 256)%N.
Proof. all_ascii c; vm_compute; reflexivity. Qed.

Lemma nfold_pos s : forall acc, (1 <= acc)%N -> (1 <= nfold acc s)%N.
Proof. induction s as [|c s IH]; intros acc H; [exact H|]. cbn [nfold fold_left]. apply IH. lia. Qed.

Lemma N_of_name_inj s : forall t, N_of_name s = N_of_name t -> s = t.
Proof.
  unfold N_of_name. change (forall t, nfold 1 s = nfold 1 t -> s = t).
  induction s as [|c s IH] using rev_ind; intros t H; destruct t as [|d t] using rev_ind; try reflexivity.
  - clear IHt. rewrite nfold_snoc in H. change (nfold 1 []) with 1%N in H.
    pose proof (nfold_pos t 1%N ltac:(lia)). pose proof (N_of_ascii_lt d). lia.
  - rewrite nfold_snoc in H. change (nfold 1 []) with 1%N in H.
    pose proof (nfold_pos s 1%N ltac:(lia)). pose proof (N_of_ascii_lt c). lia.
  - clear IHt. rewrite !nfold_snoc in H.
    pose proof (N_of_ascii_lt c) as Lc. pose proof (N_of_ascii_lt d) as Ld.
    assert (E1 : nfold 1 s = nfold 1 t) by lia. assert (E2 : N_of_ascii c = N_of_ascii d) by lia.
    rewrite (IH t E1). f_equal. f_equal.
    rewrite <- (ascii_N_embedding c), <- (ascii_N_embedding d). now rewrite E2.
Qed.

Lemma N_eqb_name a b : N.eqb (N_of_name a) (N_of_name b) = leqb a b.
Proof.
  destruct (leqb_spec a b) as [E|E].
  - subst. apply N.eqb_refl.
  - apply N.eqb_neq. intros H. apply E, N_of_name_inj, H.
Qed.

Definition nent (e : list (name * Q)) : list (N * Q) := map (fun p => (N_of_name (fst p), snd p)) e.

Lemma coefN_nent e nm : coefN (nent e) (N_of_name nm) = coefS e nm.
Proof.
  induction e as [|[n c] e IH]; [reflexivity|]. cbn [nent map coefN coefS fold_right fst snd] in *.
  rewrite N_eqb_name. fold (nent e). unfold coefN in IH. rewrite IH. reflexivity.
Qed.

(* ---- coefficients of a term list ---------------------------------------------------------------------------------------------- *)

Lemma coefS_notin e nm : ~ In nm (map fst e) -> coefS e nm == 0.
Proof.
  induction e as [|[n c] e IH]; cbn [coefS fold_right map fst snd]; intros H; [reflexivity|].
  destruct (leqb_spec n nm) as [E|E]; [exfalso; apply H; now left|]. unfold coefS in IH. rewrite IH; [ring|intros X; apply H; right; exact X].
Qed.

Lemma coefS_app a b nm : coefS (a ++ b) nm == coefS a nm + coefS b nm.
Proof. unfold coefS. induction a as [|[n c] a IH]; simpl; [ring|]. rewrite IH. ring. Qed.

(* the terms the writer prints for a coefficient function over the columns, re-read: same coefficient function on the columns *)
Lemma coefS_rd_terms (cn : list name) (f : name -> Q) nm : NoDup cn -> In nm cn ->
  coefS (rd_terms (nonzero_terms cn f)) nm == f nm.
Proof.
  intros ND IN. induction cn as [|m cn IH]; [destruct IN|].
  inversion ND as [|? ? NI ND']; subst.
  unfold nonzero_terms in *. cbn [flat_map]. unfold rd_terms in *. rewrite map_app.
  rewrite coefS_app. destruct IN as [<-|IN].
  - rewrite (coefS_notin (map _ (flat_map _ cn)) m).
    + destruct (Qeq_bool (f m) 0) eqn:Z; cbn [map coefS fold_right fst snd].
      * apply Qeq_bool_iff in Z. rewrite Z. ring.
      * rewrite leqb_refl, rd_coef_eq. ring.
    + rewrite map_map. cbn [fst]. intros H. apply in_map_iff in H. destruct H as ([c n] & E & H). cbn in E. subst n.
      apply in_flat_map in H. destruct H as (m' & IN' & H). destruct (Qeq_bool (f m') 0); [destruct H|].
      destruct H as [H|[]]. inversion H; subst. contradiction.
  - rewrite (IH ND' IN). destruct (Qeq_bool (f m) 0); cbn [map coefS fold_right fst snd]; [ring|].
    destruct (leqb_spec m nm) as [E|E]; [subst; contradiction|ring].
Qed.

Lemma rd_terms_names cn f : forall n, In n (map fst (rd_terms (nonzero_terms cn f))) -> In n cn.
Proof.
  intros n H. unfold rd_terms in H. rewrite map_map in H. cbn [fst] in H. apply in_map_iff in H.
  destruct H as ([c m] & E & H). cbn in E. subst m. unfold nonzero_terms in H. apply in_flat_map in H.
  destruct H as (m' & IN & H). destruct (Qeq_bool (f m') 0); [destruct H|]. destruct H as [H|[]]. inversion H; subst. exact IN.
Qed.

(* ---- bounds --------------------------------------------------------------------------------------------------------------------- *)

Lemma Qltb_comp a b : a == b -> Qltb a 0 = Qltb b 0.
Proof.
  intros E. destruct (Qltb a 0) eqn:A, (Qltb b 0) eqn:B; try reflexivity;
    repeat match goal with
           | H : Qltb _ _ = true |- _ => apply Qltb_lt in H
           | H : Qltb _ _ = false |- _ => apply Qltb_false in H
           end; lra.
Qed.

Theorem decode_rd M lo up isint : 0 < M -> lo <= up ->
  let r := decode_bounds M (map (rd_stmt M) (encode_bounds M lo up isint)) isint in fst r == lo /\ snd r == up.
Proof.
  intros HM LE. pose proof (rd_bound_eq M lo) as RL. pose proof (rd_bound_eq M up) as RU.
  unfold decode_bounds, encode_bounds.
  destruct (Qeq_bool lo up) eqn:E1.
  { apply Qeq_bool_iff in E1. cbn. split; [rewrite RU; symmetry; exact E1|exact RU]. }
  destruct (Qeq_bool lo (- M) && Qeq_bool up M) eqn:E2.
  { apply andb_true_iff in E2. destruct E2 as [A B]. apply Qeq_bool_iff in A, B. cbn. split; symmetry; assumption. }
  unfold default_lower, default_upper.
  destruct (Qeq_bool lo 0) eqn:L0; destruct (Qltb up 0) eqn:U0; destruct (Qeq_bool lo (- M)) eqn:LM;
    destruct isint; destruct (Qeq_bool up 1) eqn:U1; destruct (Qeq_bool up M) eqn:UM;
    cbn -[Qltb rd_bound]; rewrite ?(Qltb_comp _ _ RU), ?U0; cbn -[rd_bound];
    repeat match goal with
           | H : Qeq_bool _ _ = true |- _ => apply Qeq_bool_iff in H
           | H : Qeq_bool _ _ = false |- _ => apply Qeq_bool_neq in H
           | H : Qltb _ _ = true |- _ => apply Qltb_lt in H
           | H : Qltb _ _ = false |- _ => apply Qltb_false in H
           end;
    try (split; (reflexivity || assumption || (symmetry; assumption) || lra)); try (exfalso; lra).
Qed.

(* ---- the raw problem after reading ------------------------------------------------------------------------------------------------ *)

Definition addcols (acc : list name) (ns : list name) : list name :=
  fold_left (fun a n => if mem n a then a else n :: a) ns acc.

Lemma mem_In n l : mem n l = true <-> In n l.
Proof.
  unfold mem. rewrite existsb_exists. split.
  - intros (x & IN & E). destruct (leqb_spec n x); [now subst|discriminate].
  - intros IN. exists n. split; [exact IN|apply leqb_refl].
Qed.

Lemma addcols_In ns : forall acc n, In n (addcols acc ns) <-> In n acc \/ In n ns.
Proof.
  induction ns as [|m ns IH]; intros acc n; cbn [addcols fold_left]; [cbn; tauto|].
  change (In n (addcols (if mem m acc then acc else m :: acc) ns) <-> In n acc \/ In n (m :: ns)).
  rewrite IH. destruct (mem m acc) eqn:E; cbn [In].
  - apply mem_In in E. split; [tauto|]. intros [H|[H|H]]; auto. subst. auto.
  - tauto.
Qed.

Lemma addcols_NoDup ns : forall acc, NoDup acc -> NoDup (addcols acc ns).
Proof.
  induction ns as [|m ns IH]; intros acc ND; [exact ND|]. cbn [addcols fold_left].
  change (NoDup (addcols (if mem m acc then acc else m :: acc) ns)). apply IH.
  destruct (mem m acc) eqn:E; [exact ND|]. constructor; [|exact ND]. intros IN. apply mem_In in IN. congruence.
Qed.

Lemma addcols_app acc a b : addcols acc (a ++ b) = addcols (addcols acc a) b.
Proof. unfold addcols. apply fold_left_app. Qed.

Definition with_terms (r : rrow) (ts : list (name * Q)) : rrow :=
  {| rr_name := rr_name r; rr_sense := rr_sense r; rr_rhs := rr_rhs r; rr_terms := rev ts ++ rr_terms r |}.

Lemma add_terms_fields ts : forall rw,
  r_name (add_terms rw ts) = r_name rw /\ r_max (add_terms rw ts) = r_max rw /\ r_bnd (add_terms rw ts) = r_bnd rw /\
  r_int (add_terms rw ts) = r_int rw /\ r_cols (add_terms rw ts) = addcols (r_cols rw) (map fst ts) /\
  (forall r t, r_rows rw = r :: t -> r_rows (add_terms rw ts) = with_terms r ts :: t).
Proof.
  induction ts as [|[n c] ts IH]; intros rw.
  - cbn. repeat split; auto. intros r t ->. unfold with_terms. destruct r; reflexivity.
  - cbn [add_terms fold_left fst snd map]. change (fold_left (fun rw0 t => add_var rw0 (fst t) (snd t)) ts (add_var rw n c)) with (add_terms (add_var rw n c) ts).
    destruct (IH (add_var rw n c)) as (A & B & C & D & E & F). rewrite A, B, C, D, E. repeat split; try reflexivity.
    intros r t RR. unfold add_var at 1 in F. cbn [r_rows] in F. rewrite RR in F. rewrite (F _ t eq_refl).
    unfold with_terms. cbn [rr_name rr_sense rr_rhs rr_terms rev]. now rewrite <- app_assoc.
Qed.

Definition cstr_row (c : cstr) : rrow :=
  {| rr_name := c_name c; rr_sense := Some (c_sense c); rr_rhs := rr (c_rhs c); rr_terms := rev (rd_terms (c_terms c)) |}.
Definition cstr_names (c : cstr) : list name := map fst (rd_terms (c_terms c)).

Lemma cstr_effect_fields rw c :
  r_name (cstr_effect rw c) = r_name rw /\ r_max (cstr_effect rw c) = r_max rw /\ r_bnd (cstr_effect rw c) = r_bnd rw /\
  r_int (cstr_effect rw c) = r_int rw /\ r_cols (cstr_effect rw c) = addcols (r_cols rw) (cstr_names c) /\
  r_rows (cstr_effect rw c) = cstr_row c :: r_rows rw.
Proof.
  unfold cstr_effect, raw_row.
  destruct (add_terms_fields (rd_terms (c_terms c)) (add_row rw (c_name c))) as (A & B & C & D & E & F).
  specialize (F _ _ eq_refl). unfold set_sense_rhs. cbn [r_name r_max r_bnd r_int r_cols r_rows]. rewrite A, B, C, D, E, F.
  repeat split; try reflexivity. unfold with_terms, cstr_row. cbn. now rewrite app_nil_r.
Qed.

Lemma cstrs_effect_fields cs : forall rw,
  r_name (fold_left cstr_effect cs rw) = r_name rw /\ r_max (fold_left cstr_effect cs rw) = r_max rw /\
  r_bnd (fold_left cstr_effect cs rw) = r_bnd rw /\ r_int (fold_left cstr_effect cs rw) = r_int rw /\
  r_cols (fold_left cstr_effect cs rw) = addcols (r_cols rw) (flat_map cstr_names cs) /\
  r_rows (fold_left cstr_effect cs rw) = rev (map cstr_row cs) ++ r_rows rw.
Proof.
  induction cs as [|c cs IH]; intros rw; [cbn; repeat split; reflexivity|].
  cbn [fold_left flat_map map rev]. destruct (IH (cstr_effect rw c)) as (A & B & C & D & E & F).
  destruct (cstr_effect_fields rw c) as (A' & B' & C' & D' & E' & F').
  rewrite A, B, C, D, E, F, A', B', C', D', E', F'. repeat split; try reflexivity.
  - now rewrite addcols_app.
  - now rewrite <- app_assoc.
Qed.

Definition mark_all (rw : raw) (ns : list name) : raw := fold_left mark_int ns rw.
Lemma r_cols_mark_all ns : forall rw, r_cols (mark_all rw ns) = r_cols rw.
Proof. induction ns as [|n ns IH]; intros rw; [reflexivity|]. cbn [mark_all fold_left]. change (r_cols (mark_all (mark_int rw n) ns) = r_cols rw). now rewrite IH. Qed.

Section Fin.
  Variable M : Q.
  Hypothesis HM : 0 < M.

  Lemma upd_stmt_fields rw nm b :
    r_name (upd_stmt M rw nm b) = r_name rw /\ r_max (upd_stmt M rw nm b) = r_max rw /\ r_cols (upd_stmt M rw nm b) = r_cols rw /\
    r_rows (upd_stmt M rw nm b) = r_rows rw /\ r_int (upd_stmt M rw nm b) = r_int rw /\
    (forall n, lookup_bnd (r_bnd (upd_stmt M rw nm b)) n =
               if leqb nm n then apply_stmt M (lookup_bnd (r_bnd rw) nm) b else lookup_bnd (r_bnd rw) n).
  Proof.
    destruct b; cbn [upd_stmt]; repeat split; try reflexivity; intros n; unfold upd_bnd; cbn [r_bnd lookup_bnd];
      rewrite ?leqb_refl; destruct (leqb nm n) eqn:E; try reflexivity; destruct (leqb_spec nm n); try discriminate; subst; reflexivity.
  Qed.

  Lemma bnd_effect_fields rw c :
    r_name (bnd_effect M rw c) = r_name rw /\ r_max (bnd_effect M rw c) = r_max rw /\ r_cols (bnd_effect M rw c) = r_cols rw /\
    r_rows (bnd_effect M rw c) = r_rows rw /\ r_int (bnd_effect M rw c) = r_int rw /\
    (forall n, lookup_bnd (r_bnd (bnd_effect M rw c)) n =
               if leqb (lc_name c) n
               then fold_left (apply_stmt M) (map (rd_stmt M) (encode_bounds M (lc_lo c) (lc_up c) (lc_int c))) (lookup_bnd (r_bnd rw) (lc_name c))
               else lookup_bnd (r_bnd rw) n).
  Proof.
    unfold bnd_effect. generalize (encode_bounds M (lc_lo c) (lc_up c) (lc_int c)). intros l. revert rw.
    induction l as [|b l IH]; intros rw.
    - cbn. repeat split; try reflexivity. intros n. destruct (leqb_spec (lc_name c) n); [now subst|reflexivity].
    - cbn [fold_left map]. destruct (IH (upd_stmt M rw (lc_name c) (rd_stmt M b))) as (A & B & C & D & E & F).
      destruct (upd_stmt_fields rw (lc_name c) (rd_stmt M b)) as (A' & B' & C' & D' & E' & F').
      rewrite A, B, C, D, E, A', B', C', D', E'. repeat split; try reflexivity.
      intros n. rewrite F, !F', leqb_refl. destruct (leqb (lc_name c) n); reflexivity.
  Qed.

  Lemma bnds_effect_fields cols : forall rw, NoDup (map lc_name cols) ->
    r_name (fold_left (bnd_effect M) cols rw) = r_name rw /\ r_max (fold_left (bnd_effect M) cols rw) = r_max rw /\
    r_cols (fold_left (bnd_effect M) cols rw) = r_cols rw /\ r_rows (fold_left (bnd_effect M) cols rw) = r_rows rw /\
    r_int (fold_left (bnd_effect M) cols rw) = r_int rw /\
    (forall c, In c cols -> lookup_bnd (r_bnd (fold_left (bnd_effect M) cols rw)) (lc_name c) =
       fold_left (apply_stmt M) (map (rd_stmt M) (encode_bounds M (lc_lo c) (lc_up c) (lc_int c))) (lookup_bnd (r_bnd rw) (lc_name c))) /\
    (forall n, ~ In n (map lc_name cols) -> lookup_bnd (r_bnd (fold_left (bnd_effect M) cols rw)) n = lookup_bnd (r_bnd rw) n).
  Proof.
    induction cols as [|c0 cols IH]; intros rw ND.
    - cbn. repeat split; try reflexivity. intros c [].
    - inversion ND as [|? ? NI ND']; subst. cbn [fold_left].
      destruct (IH (bnd_effect M rw c0) ND') as (A & B & C & D & E & F & G).
      destruct (bnd_effect_fields rw c0) as (A' & B' & C' & D' & E' & F').
      rewrite A, B, C, D, E, A', B', C', D', E'. repeat split; try reflexivity.
      + intros c [<-|IN].
        * rewrite (G _ NI), F', leqb_refl. reflexivity.
        * rewrite (F c IN), F'. destruct (leqb_spec (lc_name c0) (lc_name c)) as [EQ|NE]; [|reflexivity].
          exfalso. apply NI. rewrite EQ. now apply in_map.
      + intros n NI'. cbn [map In] in NI'. rewrite (G n ltac:(tauto)), F'.
        destruct (leqb_spec (lc_name c0) n); [subst; tauto|reflexivity].
  Qed.

  Lemma mark_all_fields ns : forall rw,
    r_name (mark_all rw ns) = r_name rw /\ r_max (mark_all rw ns) = r_max rw /\ r_cols (mark_all rw ns) = r_cols rw /\
    r_rows (mark_all rw ns) = r_rows rw /\ r_bnd (mark_all rw ns) = r_bnd rw /\ r_int (mark_all rw ns) = rev ns ++ r_int rw.
  Proof.
    induction ns as [|n ns IH]; intros rw; [cbn; repeat split; reflexivity|].
    cbn [mark_all fold_left]. change (fold_left mark_int ns (mark_int rw n)) with (mark_all (mark_int rw n) ns).
    destruct (IH (mark_int rw n)) as (A & B & C & D & E & F). rewrite A, B, C, D, E, F. cbn. repeat split; try reflexivity.
    now rewrite <- app_assoc.
  Qed.
End Fin.

(* ---- general form of coefS_rd_terms: items with a name and a coefficient --------------------------------------------------------- *)

Definition item_terms {A} (nf : A -> name) (cf : A -> Q) (xs : list A) : list (Q * name) :=
  flat_map (fun y => if Qeq_bool (cf y) 0 then [] else [(cf y, nf y)]) xs.

Lemma item_terms_names {A} (nf : A -> name) (cf : A -> Q) xs n :
  In n (map fst (rd_terms (item_terms nf cf xs))) <-> exists y, In y xs /\ nf y = n /\ Qeq_bool (cf y) 0 = false.
Proof.
  unfold rd_terms, item_terms. rewrite map_map. cbn [fst]. rewrite in_map_iff. split.
  - intros ([c m] & E & H). cbn in E. subst m. apply in_flat_map in H. destruct H as (y & IN & H).
    destruct (Qeq_bool (cf y) 0) eqn:Z; [destruct H|]. destruct H as [H|[]]. inversion H; subst. eauto.
  - intros (y & IN & E & Z). exists (cf y, n). split; [reflexivity|]. apply in_flat_map. exists y. split; [exact IN|].
    rewrite Z, E. now left.
Qed.

Lemma coefS_rd_items {A} (nf : A -> name) (cf : A -> Q) (xs : list A) x :
  NoDup (map nf xs) -> In x xs -> coefS (rd_terms (item_terms nf cf xs)) (nf x) == cf x.
Proof.
  intros ND IN. induction xs as [|y xs IH]; [destruct IN|].
  inversion ND as [|? ? NI ND']; subst.
  unfold item_terms in *. cbn [flat_map]. unfold rd_terms in *. rewrite map_app, coefS_app. destruct IN as [<-|IN].
  - rewrite (coefS_notin (map _ (flat_map _ xs)) (nf y)).
    + destruct (Qeq_bool (cf y) 0) eqn:Z; cbn [map coefS fold_right fst snd].
      * apply Qeq_bool_iff in Z. rewrite Z. ring.
      * rewrite leqb_refl, rd_coef_eq. ring.
    + intros H. apply (item_terms_names nf cf xs (nf y)) in H. destruct H as (z & INz & E & _). apply NI. rewrite <- E. now apply in_map.
  - rewrite (IH ND' IN). destruct (Qeq_bool (cf y) 0); cbn [map coefS fold_right fst snd]; [ring|].
    destruct (leqb_spec (nf y) (nf x)) as [E|E]; [|ring]. exfalso. apply NI. rewrite E. now apply in_map.
Qed.

Lemma nodupb_names l : NoDup l -> nodupb (map N_of_name l) = true.
Proof.
  induction 1 as [|n l NI ND IH]; [reflexivity|]. cbn [map nodupb]. rewrite IH, andb_true_r. apply negb_true_iff.
  apply not_true_is_false. intros H. apply existsb_exists in H. destruct H as (x & IN & E). apply N.eqb_eq in E.
  apply in_map_iff in IN. destruct IN as (m & <- & IN). apply N_of_name_inj in E. subst. contradiction.
Qed.

Lemma ent_eqb_nent cn e e' : (forall p, In p e -> In (fst p) cn) -> (forall p, In p e' -> In (fst p) cn) ->
  (forall n, In n cn -> coefS e n == coefS e' n) -> ent_eqb (nent e) (nent e') = true.
Proof.
  intros H1 H2 H. unfold ent_eqb. apply forallb_forall. intros nm IN. apply Qeq_bool_iff.
  assert (G : exists n, nm = N_of_name n /\ In n cn).
  { apply in_app_or in IN. unfold nent in IN. rewrite !map_map in IN. cbn [fst] in IN.
    destruct IN as [IN|IN]; apply in_map_iff in IN; destruct IN as (p & <- & IN); eauto. }
  destruct G as (n & -> & INn). rewrite !coefN_nent. auto.
Qed.

(* ---- rows of the result ---------------------------------------------------------------------------------------------------------- *)

(* the rows finish builds from named raw rows (copied from IO/LpRead.finish) *)
Definition srows_of (named : list (name * rrow)) : list lrow :=
  flat_map (fun nr => match rr_sense (snd nr) with
                      | Some s => [{| lr_name := fst nr; lr_sense := s; lr_rhs := rr_rhs (snd nr);
                                      lr_range := 0; lr_ent := rev (rr_terms (snd nr)) |}]
                      | None => []
                      end) named.

Section RowsEq.
  Variable M : Q.
  Variable cn : list name.
  Hypothesis ND : NoDup cn.

  Lemma row_ent_eq r : (forall e, In e (lr_ent r) -> In (fst e) cn) ->
    ent_eqb (nent (lr_ent r)) (nent (rd_terms (row_terms cn r))) = true.
  Proof.
    intros EN. apply (ent_eqb_nent cn); [exact EN| |].
    - intros p IN. apply (rd_terms_names cn (coefS (lr_ent r))). now apply in_map.
    - intros n IN. symmetry. apply (coefS_rd_terms cn (coefS (lr_ent r)) n ND IN).
  Qed.

  Lemma rr_eqb q : Qeq_bool q (rr q) = true.
  Proof. apply Qeq_bool_iff. symmetry. apply (rr_spec q [] I). Qed.

  Lemma rows_match_gen : forall rows i taken, (forall r e, In r rows -> In e (lr_ent r) -> In (fst e) cn) ->
    rows_match (map to_nrow rows)
      (map to_nrow (srows_of (fill_names (map cstr_row (flat_map (cstrs_of_row M cn) (filter row_written rows))) i taken))) = true.
  Proof.
    induction rows as [|r rows IH]; intros i taken EN; [reflexivity|].
    assert (ENr : forall e, In e (lr_ent r) -> In (fst e) cn) by (intros e; apply EN; now left).
    assert (EN' : forall r0 e, In r0 rows -> In e (lr_ent r0) -> In (fst e) cn) by (intros r0 e H; apply EN; now right).
    pose proof (row_ent_eq r ENr) as ENT.
    cbn [filter map]. destruct (row_written r) eqn:RW.
    2:{ (* not written: an empty row, dropped *)
      assert (EE : lr_ent r = []) by (unfold row_written in RW; destruct (lr_ent r); [reflexivity|discriminate]).
      cbn [rows_match]. replace (row_empty (to_nrow r)) with true by (unfold row_empty, to_nrow; cbn [nr_ent]; rewrite EE; reflexivity).
      cbn [andb]. rewrite (IH i taken EN'). reflexivity. }
    - cbn [flat_map]. unfold cstrs_of_row at 1. destruct (lr_sense r) eqn:ES;
        cbn [app map cstr_row fill_names rr_name c_name c_sense c_rhs c_terms srows_of flat_map snd fst rr_sense rr_rhs rr_terms];
        rewrite ?rev_involutive.
      1,2,3: fold (srows_of (fill_names (map cstr_row (flat_map (cstrs_of_row M cn) (filter row_written rows))) (S i) taken));
        cbn [rows_match]; apply orb_true_iff; right; apply orb_true_iff; left;
        rewrite (IH (S i) taken EN'), andb_true_r;
        unfold row_same, to_nrow; cbn [nr_name nr_sense nr_rhs nr_range nr_ent lr_name lr_sense lr_rhs lr_range lr_ent];
        rewrite N.eqb_refl, ES, rr_eqb; cbn [sense_eqb andb]; exact ENT.
      (* a ranged row: its two halves *)
      fold (srows_of (fill_names (map cstr_row (flat_map (cstrs_of_row M cn) (filter row_written rows))) (S (S i)) (gen_rowname taken (S i) :: taken))).
      cbn [rows_match]. apply orb_true_iff. right. apply orb_true_iff. right.
      unfold to_nrow at 1. cbn [nr_sense]. rewrite ES.
      rewrite (IH (S (S i)) _ EN'), andb_true_r.
      unfold lower_half, upper_half, to_nrow; cbn [nr_name nr_sense nr_rhs nr_range nr_ent lr_name lr_sense lr_rhs lr_range lr_ent].
      rewrite N.eqb_refl, !rr_eqb. cbn [sense_eqb andb]. unfold nent in ENT. now rewrite ENT.
  Qed.
End RowsEq.

(* ---- the result of the conversion ----------------------------------------------------------------------------------------------- *)

Section Result.
  Variable M : Q.
  Hypothesis HM : 0 < M.
  Variable P : llp.

  Definition cn : list name := map lc_name (l_cols P).
  Definition written : list lrow := filter row_written (l_rows P).
  Definition all_cstrs : list cstr := flat_map (cstrs_of_row M cn) written.
  Definition int_names : list name := map lc_name (filter lc_int (l_cols P)).
  Definition obj_raw : raw := add_terms (raw0 (l_probname P) (l_max P) (l_objname P)) (rd_terms (obj_terms (l_cols P))).
  Definition rows_raw : raw := fold_left cstr_effect all_cstrs obj_raw.
  Definition bnds_raw : raw := fold_left (bnd_effect M) (l_cols P) rows_raw.
  Definition final_raw : raw := mark_all bnds_raw int_names.

  Hypothesis ND : NoDup cn.
  Hypothesis BO : forall c, In c (l_cols P) -> lc_lo c <= lc_up c.
  Hypothesis EN : forall r e, In r (l_rows P) -> In e (lr_ent r) -> In (fst e) cn.
  Hypothesis W1 : written <> [].
  Hypothesis USE : forall c, In c (l_cols P) -> Qeq_bool (lc_obj c) 0 = false \/
                     exists r, In r written /\ Qeq_bool (coefS (lr_ent r) (lc_name c)) 0 = false.

  Definition objrow : rrow :=
    {| rr_name := Some (l_objname P); rr_sense := None; rr_rhs := 0; rr_terms := rev (rd_terms (obj_terms (l_cols P))) ++ [] |}.
  Definition AC : list name :=
    addcols (addcols [] (map fst (rd_terms (obj_terms (l_cols P))))) (flat_map cstr_names all_cstrs).

  Lemma final_fields :
    r_name final_raw = l_probname P /\ r_max final_raw = l_max P /\ r_cols final_raw = AC /\
    r_rows final_raw = rev (map cstr_row all_cstrs) ++ [objrow] /\ r_int final_raw = rev int_names ++ [] /\
    (forall c, In c (l_cols P) -> lookup_bnd (r_bnd final_raw) (lc_name c) =
        fold_left (apply_stmt M) (map (rd_stmt M) (encode_bounds M (lc_lo c) (lc_up c) (lc_int c))) bst0).
  Proof.
    unfold final_raw, bnds_raw, rows_raw, obj_raw.
    destruct (add_terms_fields (rd_terms (obj_terms (l_cols P))) (raw0 (l_probname P) (l_max P) (l_objname P))) as (A1 & B1 & C1 & D1 & E1 & F1).
    specialize (F1 _ _ eq_refl).
    set (rw1 := add_terms _ _) in *.
    destruct (cstrs_effect_fields all_cstrs rw1) as (A2 & B2 & C2 & D2 & E2 & F2).
    set (rw2 := fold_left cstr_effect all_cstrs rw1) in *.
    destruct (bnds_effect_fields M (l_cols P) rw2 ND) as (A3 & B3 & C3 & D3 & E3 & F3 & _).
    set (rw3 := fold_left (bnd_effect M) (l_cols P) rw2) in *.
    destruct (mark_all_fields int_names rw3) as (A4 & B4 & C4 & D4 & E4 & F4).
    rewrite A4, B4, C4, D4, F4, A3, B3, C3, D3, E3, A2, B2, E2, F2, D2, A1, B1, E1, F1, D1. cbn [raw0 r_name r_max r_cols r_int].
    repeat split; try reflexivity.
    intros c IN. rewrite E4, (F3 c IN), C2, C1. reflexivity.
  Qed.

  (* every name that occurs in a term is a column, and every column occurs in a term *)
  Lemma cstr_of_written r : In r written -> exists c, In c all_cstrs /\ c_terms c = row_terms cn r.
  Proof.
    intros IN. unfold all_cstrs. unfold cstrs_of_row. 
    destruct (lr_sense r) eqn:ES; eexists; (split; [apply in_flat_map; exists r; split; [exact IN|]; unfold cstrs_of_row; rewrite ES; left; reflexivity|reflexivity]).
  Qed.
  Lemma cstr_terms_row c : In c all_cstrs -> exists r, In r written /\ c_terms c = row_terms cn r.
  Proof.
    unfold all_cstrs. intros IN. apply in_flat_map in IN. destruct IN as (r & INr & IN). exists r. split; [exact INr|].
    unfold cstrs_of_row in IN. destruct (lr_sense r); cbn [In] in IN; repeat (destruct IN as [<-|IN]; [reflexivity|]); destruct IN.
  Qed.

  Lemma AC_In n : In n AC <-> In n cn.
  Proof.
    unfold AC. rewrite !addcols_In. cbn [In]. split.
    - intros [[[]|H]|H].
      + apply (item_terms_names lc_name lc_obj (l_cols P) n) in H. destruct H as (c & IN & <- & _). now apply in_map.
      + apply in_flat_map in H. destruct H as (c & INc & H). destruct (cstr_terms_row c INc) as (r & _ & ET).
        unfold cstr_names in H. rewrite ET in H. apply (rd_terms_names cn _ n H).
    - intros IN. unfold cn in IN. apply in_map_iff in IN. destruct IN as (c & <- & IN).
      destruct (USE c IN) as [Z|(r & INr & Z)].
      + left. right. apply (item_terms_names lc_name lc_obj (l_cols P)). eauto.
      + right. destruct (cstr_of_written r INr) as (c0 & IN0 & ET). apply in_flat_map. exists c0. split; [exact IN0|].
        unfold cstr_names. rewrite ET. apply (item_terms_names (fun m : name => m) (coefS (lr_ent r)) cn). exists (lc_name c).
        split; [now apply in_map|]. split; [reflexivity|exact Z].
  Qed.
  Lemma AC_NoDup : NoDup AC.
  Proof. unfold AC. apply addcols_NoDup, addcols_NoDup. constructor. Qed.

  (* the columns of the result *)
  Definition isint (nm : name) : bool := mem nm (r_int final_raw).
  Definition mkcol (nm : name) : lcol :=
    let b := fill_in M (lookup_bnd (r_bnd final_raw) nm) (isint nm) in
    {| lc_name := nm; lc_obj := coefS (rev (rr_terms objrow)) nm; lc_lo := fst b; lc_up := snd b; lc_int := isint nm |}.

  Lemma isint_col c : In c (l_cols P) -> isint (lc_name c) = lc_int c.
  Proof.
    intros IN. unfold isint. destruct final_fields as (_ & _ & _ & _ & RI & _). rewrite RI, app_nil_r.
    apply Bool.eq_iff_eq_true. rewrite mem_In, <- in_rev. unfold int_names. rewrite in_map_iff. split.
    - intros (c' & E & IN'). apply filter_In in IN'. destruct IN' as [IN' I'].
      assert (c' = c); [|now subst].
      clear - ND IN IN' E. unfold cn in ND. induction (l_cols P) as [|a l IH]; [destruct IN|]. cbn [map] in ND. inversion ND as [|? ? NI ND']; subst.
      destruct IN as [<-|IN], IN' as [<-|IN']; auto.
      + exfalso. apply NI. rewrite <- E. now apply in_map.
      + exfalso. apply NI. rewrite E. now apply in_map.
    - intros I. exists c. split; [reflexivity|]. apply filter_In. auto.
  Qed.

  Lemma mkcol_same c : In c (l_cols P) -> col_same (to_ncol c) (to_ncol (mkcol (lc_name c))) = true /\
    lc_lo (mkcol (lc_name c)) <= lc_up (mkcol (lc_name c)).
  Proof.
    intros IN. destruct final_fields as (_ & _ & _ & _ & _ & LB).
    pose proof (decode_rd M (lc_lo c) (lc_up c) (lc_int c) HM (BO c IN)) as DR. cbv zeta in DR.
    unfold decode_bounds in DR. rewrite <- (LB c IN), <- (isint_col c IN) in DR. destruct DR as [DL DU].
    assert (OBJ : coefS (rev (rr_terms objrow)) (lc_name c) == lc_obj c).
    { unfold objrow. cbn [rr_terms]. rewrite app_nil_r, rev_involutive.
      apply (coefS_rd_items lc_name lc_obj (l_cols P) c ND IN). }
    split.
    - unfold col_same, to_ncol, mkcol. cbn [nc_name nc_obj nc_lo nc_up nc_int lc_name lc_obj lc_lo lc_up lc_int].
      rewrite N.eqb_refl, (isint_col c IN), Bool.eqb_reflx.
      rewrite (proj2 (Qeq_bool_iff _ _)) by (symmetry; exact OBJ).
      rewrite (proj2 (Qeq_bool_iff _ _)) by (symmetry; rewrite <- (isint_col c IN); exact DL).
      rewrite (proj2 (Qeq_bool_iff _ _)) by (symmetry; rewrite <- (isint_col c IN); exact DU). reflexivity.
    - unfold mkcol. cbn [lc_lo lc_up]. rewrite DL, DU. apply BO, IN.
  Qed.

  Lemma cn_In n : In n cn -> exists c, In c (l_cols P) /\ lc_name c = n.
  Proof. unfold cn. intros H. apply in_map_iff in H. destruct H as (c & E & IN). eauto. Qed.

  Lemma cols_match_result : cols_match (map to_ncol (l_cols P)) (map to_ncol (map mkcol (rev AC))) = true.
  Proof.
    unfold cols_match. rewrite !andb_true_iff. repeat split.
    - rewrite map_map. cbn [to_ncol nc_name]. rewrite <- (map_map lc_name N_of_name). apply nodupb_names, ND.
    - rewrite !map_map. cbn [to_ncol mkcol nc_name lc_name]. apply nodupb_names, NoDup_rev, AC_NoDup.
    - apply forallb_forall. intros c IN. apply in_map_iff in IN. destruct IN as (c0 & <- & IN0).
      apply existsb_exists. exists (to_ncol (mkcol (lc_name c0))). split; [|apply (mkcol_same c0 IN0)].
      apply in_map, in_map. rewrite <- in_rev. apply AC_In. unfold cn. now apply in_map.
    - apply forallb_forall. intros c' IN. apply in_map_iff in IN. destruct IN as (c1 & <- & IN1).
      apply in_map_iff in IN1. destruct IN1 as (n & <- & INn). rewrite <- in_rev in INn. apply AC_In in INn.
      destruct (cn_In n INn) as (c0 & IN0 & <-).
      apply existsb_exists. exists (to_ncol c0). split; [now apply in_map|apply (mkcol_same c0 IN0)].
  Qed.

  Theorem finish_equiv : exists P', finish M final_raw = Some P' /\ equiv_by_name (to_nlp P) (to_nlp P') = true.
  Proof.
    destruct final_fields as (RN & RM & RC & RR & RI & LB).
    assert (CN : exists n, In n cn).
    { destruct written as [|r w] eqn:EW; [congruence|]. assert (INr : In r written) by (rewrite EW; now left).
      unfold written in INr. apply filter_In in INr. destruct INr as [INr RW]. unfold row_written in RW.
      destruct (lr_ent r) as [|e el] eqn:EE; [discriminate|]. exists (fst e). apply (EN r e INr). rewrite EE. now left. }
    assert (CS : exists c0 cs', all_cstrs = c0 :: cs').
    { destruct written as [|r w] eqn:EW; [congruence|]. unfold all_cstrs. rewrite EW. cbn [flat_map]. unfold cstrs_of_row at 1.
      destruct (lr_sense r); eexists _, _; reflexivity. }
    unfold finish. rewrite RR, rev_app_distr, rev_involutive. cbn [rev app]. rewrite RC.
    change (map (fun nm : name => _) (rev AC)) with (map mkcol (rev AC)).
    cbn [fill_names rr_name objrow].
    change (flat_map _ ((l_objname P, objrow) :: fill_names (map cstr_row all_cstrs) 1 (row_names final_raw)))
      with (srows_of ((l_objname P, objrow) :: fill_names (map cstr_row all_cstrs) 1 (row_names final_raw))).
    cbn [srows_of flat_map snd rr_sense objrow app].
    fold (srows_of (fill_names (map cstr_row all_cstrs) 1 (row_names final_raw))).
    set (srows := srows_of (fill_names (map cstr_row all_cstrs) 1 (row_names final_raw))).
    assert (N1 : is_nil (map mkcol (rev AC)) = false).
    { destruct CN as (n & INn). apply AC_In in INn. rewrite in_rev in INn. destruct (rev AC); [destruct INn|reflexivity]. }
    assert (N2 : is_nil srows = false).
    { destruct CS as (c0 & cs' & ECS). unfold srows. rewrite ECS. cbn [map fill_names]. destruct (rr_name (cstr_row c0)); reflexivity. }
    rewrite N1, N2. cbn [orb].
    assert (N3 : existsb (fun c => Qltb (lc_up c) (lc_lo c)) (map mkcol (rev AC)) = false).
    { apply not_true_is_false. intros H. apply existsb_exists in H. destruct H as (c' & IN & H).
      apply in_map_iff in IN. destruct IN as (n & <- & INn). rewrite <- in_rev in INn. apply AC_In in INn.
      destruct (cn_In n INn) as (c0 & IN0 & <-). apply Qltb_lt in H. pose proof (proj2 (mkcol_same c0 IN0)). lra. }
    rewrite N3. eexists. split; [reflexivity|].
    unfold equiv_by_name, to_nlp. cbn [n_max n_cols n_rows l_max l_cols l_rows]. rewrite RM, Bool.eqb_reflx, cols_match_result. cbn [andb].
    unfold srows. apply (rows_match_gen M cn ND (l_rows P) 1 (row_names final_raw) EN).
  Qed.
End Result.
