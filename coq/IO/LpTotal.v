(* IO/LpTotal.v -- the LP reader model (IO/LpRead.v) is total: it never runs out of fuel.

   [mu st] = the bytes not yet consumed on the current line + the bytes and the number of the lines not yet fetched.
   No tokenizer step increases it except prev_field, which only moves inside the current line ([nu], the measure
   that counts the whole current line, is unchanged by it).  Every iteration of the four loops (terms of an
   expression, constraints, bound statements, integer names) that goes on has consumed at least one byte.

     fuel_suffices : read_lp_res strict M ls <> PrFuel        for every list of lines
   i.e. the function read_lp_res is the reader model, the answer "fuel exhausted" is unreachable (for C11: the model
   terminates on every input with accept / reject / fault of the number scanner). *)
From Coq Require Import QArith List Ascii String Bool Arith NArith Lia.
From QSX Require Import Base.QSum LP.User IO.Num IO.NumSound IO.Bounds IO.Lex IO.LpWrite IO.LpRead IO.LpTok.
Import ListNotations.

Definition bytes (ls : list line) : nat := fold_right (fun l a => (List.length l + a)%nat) 0%nat ls.
Global Arguments bytes : simpl never.
Lemma bytes_cons l ls : bytes (l :: ls) = (List.length l + bytes ls)%nat.
Proof. reflexivity. Qed.
Definition later (st : rst) : nat := (List.length (rest st) + bytes (rest st))%nat.
Definition mu (st : rst) : nat := (List.length (cur st) + later st)%nat.
Definition nu (st : rst) : nat := (List.length (pre st) + mu st)%nat.

Lemma cutline_len l : (List.length (cutline l) <= List.length l)%nat.
Proof. induction l as [|c l IH]; simpl; [lia|]. destruct (_ || _ || _); simpl; lia. Qed.

Lemma skipb_len c : forall p, (List.length (fst (skipb p c)) + List.length (snd (skipb p c)) = List.length p + List.length c)%nat.
Proof. induction c as [|x c IH]; intros p; simpl; [lia|]. destruct (is_blank x); simpl; [rewrite IH; simpl; lia|lia]. Qed.

Lemma skipb_pre c : forall p, (List.length p <= List.length (fst (skipb p c)))%nat.
Proof. induction c as [|x c IH]; intros p; simpl; [lia|]. destruct (is_blank x); simpl; [|lia]. specialize (IH (x :: p)). simpl in IH. lia. Qed.

Lemma adv_len n : forall p c, (List.length (fst (adv n p c)) + List.length (snd (adv n p c)) = List.length p + List.length c)%nat.
Proof. induction n as [|n IH]; intros p c; destruct c; simpl; try lia. rewrite IH. simpl. lia. Qed.
Lemma adv_pre n : forall p c, (List.length p <= List.length (fst (adv n p c)))%nat.
Proof. induction n as [|n IH]; intros p c; destruct c; simpl; try lia. specialize (IH (a :: p) c). simpl in IH. lia. Qed.
Lemma adv_S n x c p : (List.length (snd (adv (S n) p (x :: c))) < List.length (x :: c))%nat.
Proof. cbn [adv]. pose proof (adv_len n (x :: p) c) as A. pose proof (adv_pre n (x :: p) c) as B. cbn [List.length] in *. lia. Qed.

(* advn: nu unchanged, mu not larger *)
Lemma advn_nu n st : nu (advn n st) = nu st.
Proof. unfold advn, nu, mu, later. pose proof (adv_len n (pre st) (cur st)). destruct (adv n (pre st) (cur st)). cbn in *. lia. Qed.
Lemma advn_mu n st : (mu (advn n st) <= mu st)%nat.
Proof.
  unfold advn, mu, later. pose proof (adv_len n (pre st) (cur st)). pose proof (adv_pre n (pre st) (cur st)).
  destruct (adv n (pre st) (cur st)). cbn in *. lia.
Qed.
Lemma advn_mu_S n st x c : cur st = x :: c -> (mu (advn (S n) st) < mu st)%nat.
Proof.
  intros C. unfold advn, mu, later. rewrite C. pose proof (adv_S n x c (pre st)).
  destruct (adv (S n) (pre st) (x :: c)). cbn in *. lia.
Qed.
Lemma advn_rest n st : rest (advn n st) = rest st /\ eof (advn n st) = eof st /\ lnum (advn n st) = lnum st.
Proof. unfold advn. destruct (adv n (pre st) (cur st)). cbn. auto. Qed.

Lemma next_line_from_measure ls : forall ln p c r ln', next_line_from ls ln = (Some (p, c, r), ln') ->
  (List.length p + List.length c + (List.length r + bytes r) < List.length ls + bytes ls)%nat.
Proof.
  induction ls as [|l ls IH]; intros ln p c r ln' H; simpl in H; [discriminate|].
  pose proof (skipb_len (cutline l) []) as SL. pose proof (cutline_len l) as CL.
  destruct (skipb [] (cutline l)) as [p0 c0]. cbn in SL. destruct c0.
  - apply IH in H. rewrite bytes_cons. simpl. lia.
  - inversion H; subst. rewrite bytes_cons. simpl in *. lia.
Qed.

(* skip_blanks: nu and mu do not grow; when it moves to another line, the whole new line lies behind the old position *)
Lemma skip_blanks_measure w st : let st' := fst (skip_blanks w st) in
  (mu st' <= mu st)%nat /\ (nu st' <= nu st)%nat /\ (lnum st' = lnum st \/ (nu st' < later st)%nat \/ eof st' = true).
Proof.
  unfold skip_blanks. pose proof (skipb_len (cur st) (pre st)) as SL. pose proof (skipb_pre (cur st) (pre st)) as SP.
  destruct (skipb (pre st) (cur st)) as [p c]. cbn in SL, SP.
  destruct c as [|x c].
  - destruct w.
    + unfold next_line. cbn [eof set_pos rest lnum].
      destruct (eof st) eqn:EO.
      * cbn. unfold nu, mu, later. cbn in *. unfold mu, later. split; [lia|]. split; [lia|]. right. right. exact EO.
      * destruct (next_line_from (rest st) (lnum st)) as [[[[p' c'] r']|] ln'] eqn:NL; cbn [fst].
        -- apply next_line_from_measure in NL. unfold mu, nu, later. cbn. unfold mu, later. split; [lia|]. split; [lia|]. right. left. lia.
        -- unfold mu, nu, later. cbn. change (bytes []) with 0%nat. split; [lia|]. split; [lia|]. right. right. reflexivity.
    + cbn. unfold nu, mu, later. cbn in *. unfold mu, later. split; [lia|]. split; [lia|]. left. reflexivity.
  - cbn. unfold nu, mu, later. cbn in *. unfold mu, later. split; [lia|]. split; [lia|]. left. reflexivity.
Qed.
Lemma skip_blanks_mu w st : (mu (fst (skip_blanks w st)) <= mu st)%nat.
Proof. apply skip_blanks_measure. Qed.

Lemma set_first_mu st b : mu (set_first st b) = mu st /\ nu (set_first st b) = nu st.
Proof. split; reflexivity. Qed.

Lemma scan_name_len l : forall b, (List.length (fst (scan_name l b)) <= List.length l)%nat.
Proof. induction l as [|c l IH]; intros b; simpl; [lia|]. destruct (is_name_char c b); simpl; [|lia]. specialize (IH false). destruct (scan_name l false). simpl in *. lia. Qed.

(* ---- single steps: mu does not grow ---------------------------------------------------------------------------------- *)

Lemma next_var_mu st : (mu (fst (next_var st)) <= mu st)%nat /\
  (snd (next_var st) = VOk -> (mu (fst (next_var st)) < mu st)%nat).
Proof.
  unfold next_var. pose proof (skip_blanks_mu true st) as SB. destruct (skip_blanks true st) as [st1 ok]. cbn [fst] in SB.
  destruct ok; cbn [negb fst snd]; [|split; [exact SB|discriminate]].
  cbn [set_first cur]. destruct (fst (scan_name (cur st1) true)) as [|a w] eqn:SN; cbn [fst snd]; [split; [exact SB|discriminate]|].
  destruct (first (set_first st1 (at_col0 st1)) && is_keyword (a :: w)); cbn [fst snd]; [split; [exact SB|discriminate]|].
  assert (NE : exists x c, cur st1 = x :: c).
  { destruct (cur st1) as [|x c]; [cbn in SN; discriminate|eauto]. }
  destruct NE as (x & c & C1).
  pose proof (advn_mu_S (List.length w) (set_fld (set_first st1 (at_col0 st1)) (a :: w)) x c C1) as LT.
  change (mu (set_fld (set_first st1 (at_col0 st1)) (a :: w))) with (mu st1) in LT. cbn [List.length].
  split; [lia|intros _; lia].
Qed.

Lemma sign_cases st : fst (sign st) = fst (skip_blanks true st) \/ fst (sign st) = advn 1 (fst (skip_blanks true st)).
Proof.
  unfold sign. destruct (skip_blanks true st) as [st1 ok]. cbn [fst]. destruct ok; [|now left].
  destruct (cur st1) as [|x c]; [now left|]. all_ascii x; cbn; auto.
Qed.
Lemma sign_mu st : (mu (fst (sign st)) <= mu st)%nat.
Proof.
  pose proof (skip_blanks_mu true st) as SB. destruct (sign_cases st) as [-> | ->]; [exact SB|].
  pose proof (advn_mu 1 (fst (skip_blanks true st))). lia.
Qed.

Lemma value_mu strict st st' o : value strict st = inl (st', o) -> (mu st' <= mu st)%nat.
Proof.
  unfold value. pose proof (skip_blanks_mu true st) as SB. destruct (skip_blanks true st) as [st1 ok]. cbn [fst] in SB.
  destruct ok; cbn [negb]; [|intros H; inversion H; subst; exact SB].
  destruct (read_num_gen strict (cur (set_first st1 (at_col0 st1)))) as [[q|f] [|n]]; intros H; inversion H; subst; try exact SB.
  pose proof (advn_mu (S n) (set_first st1 (at_col0 st1))). change (mu (set_first st1 (at_col0 st1))) with (mu st1) in *. lia.
Qed.

Lemma colon_mu st : (mu (fst (colon st)) <= mu st)%nat.
Proof.
  unfold colon. pose proof (skip_blanks_mu true st) as SB. destruct (skip_blanks true st) as [st1 ok]. cbn [fst] in SB.
  destruct ok; [|exact SB]. destruct (cur st1) as [|x c]; [exact SB|].
  pose proof (advn_mu 1 st1). all_ascii x; cbn [fst]; lia.
Qed.

Lemma has_colon_mu st : (mu (fst (has_colon st)) <= mu st)%nat.
Proof. unfold has_colon. pose proof (skip_blanks_mu false st). destruct (skip_blanks false st). cbn [fst] in *. exact H. Qed.

Lemma row_sense_mu st st' o : row_sense st = (st', o) -> (mu st' <= mu st)%nat /\ (o <> None -> (mu st' < mu st)%nat).
Proof.
  unfold row_sense. pose proof (skip_blanks_mu true st) as SB. destruct (skip_blanks true st) as [st1 ok]. cbn [fst] in SB.
  destruct ok; cbn [negb]; [|intros H; inversion H; subst; split; [exact SB|congruence]].
  destruct (cur st1) as [|x c] eqn:C1; [intros H; inversion H; subst; split; [exact SB|congruence]|].
  pose proof (advn_mu_S 0 st1 x c C1) as L1. pose proof (advn_mu_S 1 st1 x c C1) as L2.
  destruct c as [|y c']; all_ascii x; try (intros H; inversion H; subst; split; [lia|congruence]; fail);
    try (all_ascii y; intros H; inversion H; subst; split; try lia; try congruence; intros _; lia);
    intros H; inversion H; subst; split; try lia; try congruence; intros _; lia.
Qed.

Lemma bound_sense_mu st st' o : bound_sense st = (st', o) -> (mu st' <= mu st)%nat.
Proof.
  unfold bound_sense. pose proof (skip_blanks_mu true st) as SB. destruct (skip_blanks true st) as [st1 ok]. cbn [fst] in SB.
  destruct ok; cbn [negb]; [|intros H; inversion H; subst; exact SB].
  destruct (cur st1) as [|x c] eqn:C1; [intros H; inversion H; subst; exact SB|].
  pose proof (advn_mu 1 st1) as L1. pose proof (advn_mu 2 st1) as L2.
  destruct c as [|y c']; all_ascii x; try (intros H; inversion H; subst; lia);
    all_ascii y; intros H; inversion H; subst; lia.
Qed.

Lemma test_next_is_free_mu st : (mu (fst (test_next_is_free st)) <= mu st)%nat.
Proof.
  unfold test_next_is_free. pose proof (skip_blanks_mu false st) as SB. destruct (skip_blanks false st) as [st1 ok]. cbn [fst] in SB.
  pose proof (advn_mu 4 st1).
  destruct (iprefix (s2l "FREE") (cur st1)); [|exact SB].
  destruct (snd (adv 4 [] (cur st1))) as [|x t]; cbn [fst]; [lia|]. destruct (is_blank x); cbn [fst]; lia.
Qed.

Lemma possible_bound_value_mu strict M st st' o : possible_bound_value strict M st = inl (st', o) -> (mu st' <= mu st)%nat.
Proof.
  unfold possible_bound_value. pose proof (sign_mu st) as SG. destruct (sign st) as [st1 sg]. cbn [fst] in SG.
  set (len := if iprefix (s2l "INFINITY") (cur st1) then 8%nat else if iprefix (s2l "INF") (cur st1) then 3%nat else 0%nat).
  destruct len as [|n].
  - destruct (value strict st1) as [[st2 [v|]]|] eqn:V; intros H; inversion H; subst; apply value_mu in V; lia.
  - pose proof (advn_mu (S n) st1) as A. pose proof (skip_blanks_mu false (advn (S n) st1)) as SB.
    destruct (cur (advn (S n) st1)) as [|x t]; [intros H; inversion H; subst; lia|].
    destruct (is_blank x); intros H; inversion H; subst; lia.
Qed.

Lemma next_field_mu across st : (mu (fst (next_field across st)) <= mu st)%nat.
Proof.
  unfold next_field. pose proof (skip_blanks_mu across st) as SB. destruct (skip_blanks across st) as [st1 ok]. cbn [fst] in SB.
  destruct (eof st1); [exact SB|].
  destruct (fst (take_word (skip_space (cur (set_first st1 (at_col0 st1)))))) as [|a w]; cbn [fst]; [exact SB|].
  pose proof (advn_mu (List.length (a :: w)) (set_fld (set_first st1 (at_col0 st1)) (a :: w))) as A.
  change (mu (set_fld (set_first st1 (at_col0 st1)) (a :: w))) with (mu st1) in A. lia.
Qed.

(* prev_field moves inside the current line *)
Lemma back_blank_len p : forall c, let r := back_blank p c in (List.length (fst r) + List.length (snd r) = List.length p + List.length c)%nat.
Proof. induction p as [|x p IH]; intros c; cbn [back_blank]; [cbn; lia|]. destruct (head_blank c); [|cbn; lia]. specialize (IH (x :: c)). cbn in *. lia. Qed.
Lemma back_nonblank_len p : forall c, let r := back_nonblank p c in (List.length (fst r) + List.length (snd r) = List.length p + List.length c)%nat.
Proof. induction p as [|x p IH]; intros c; cbn [back_nonblank]; [cbn; lia|]. destruct (head_blank c); [cbn; lia|]. specialize (IH (x :: c)). cbn in *. lia. Qed.

Lemma prev_field_nu st : nu (prev_field st) = nu st /\ rest (prev_field st) = rest st /\ eof (prev_field st) = eof st /\ lnum (prev_field st) = lnum st.
Proof.
  unfold prev_field.
  set (pc1 := match pre st with x :: p' => (p', x :: cur st) | [] => ([], cur st) end).
  assert (L1 : (List.length (fst pc1) + List.length (snd pc1) = List.length (pre st) + List.length (cur st))%nat)
    by (unfold pc1; destruct (pre st); cbn; lia).
  destruct pc1 as [p1 c1]. cbn [fst snd] in L1.
  pose proof (back_blank_len p1 c1) as L2. destruct (back_blank p1 c1) as [p2 c2]. cbn [fst snd] in L2.
  pose proof (back_nonblank_len p2 c2) as L3. destruct (back_nonblank p2 c2) as [p3 c3]. cbn [fst snd] in L3.
  unfold nu, mu, later. cbn. repeat split; lia.
Qed.

Lemma mu_le_nu st : (mu st <= nu st)%nat.
Proof. unfold nu. lia. Qed.

Lemma next_field_nu across st : (nu (fst (next_field across st)) <= nu st)%nat.
Proof.
  unfold next_field. pose proof (skip_blanks_measure across st) as (_ & SB & _). destruct (skip_blanks across st) as [st1 ok]. cbn [fst] in SB.
  destruct (eof st1); [exact SB|].
  destruct (fst (take_word (skip_space (cur (set_first st1 (at_col0 st1)))))) as [|a w]; cbn [fst]; [exact SB|].
  rewrite advn_nu. exact SB.
Qed.

(* next_constraint: when another constraint follows, the reader has moved to a later line *)
Lemma next_constraint_mu st st' b : next_constraint st = (st', b) -> (mu st' <= mu st)%nat.
Proof.
  unfold next_constraint. pose proof (skip_blanks_measure true st) as SM. destruct (skip_blanks true st) as [st1 ok]. cbn [fst] in SM.
  destruct SM as (M1 & N1 & CASES).
  destruct (eof st1) eqn:EO; [intros H; inversion H; subst; exact M1|].
  destruct (lnum st =? lnum st1)%nat eqn:LN; [intros H; inversion H; subst; exact M1|]. apply Nat.eqb_neq in LN.
  assert (NU1 : (nu st1 < later st)%nat) by (destruct CASES as [E|[H|H]]; [congruence|exact H|congruence]).
  pose proof (next_field_nu true st1) as NF.
  destruct (next_field true st1) as [st2 [|]]; cbn [fst] in NF; intros H; inversion H; subst.
  - destruct (prev_field_nu st2) as (PN & _). pose proof (mu_le_nu (prev_field st2)). unfold mu at 2. lia.
  - pose proof (mu_le_nu st'). unfold mu at 2. lia.
Qed.

(* ---- the loops ------------------------------------------------------------------------------------------------------------ *)

Section Loops.
  Variable strict : bool.
  Variable M : Q.

  Lemma read_expr_total : forall fuel st rw ft, (mu st < fuel)%nat ->
    read_expr strict fuel st rw ft <> PrFuel /\
    (forall st' rw', read_expr strict fuel st rw ft = PrOk (st', rw') -> (mu st' <= mu st)%nat).
  Proof.
    induction fuel as [|k IH]; intros st rw ft LT; [lia|]. cbn [read_expr].
    pose proof (sign_mu st) as SG. destruct (sign st) as [st1 sg]. cbn [fst] in SG.
    assert (BODY : forall neg : bool,
      match value strict st1 with
      | inr _ => PrFlt
      | inl (st2, co) =>
        let c := match co with Some q => q | None => 1%Q end in
        match next_var st2 with
        | (st3, VOk) => read_expr strict k st3 (add_var rw (fld st3) (if neg then (- c)%Q else c)) false
        | (st3, _) => match co with Some _ => PrErr | None => PrOk (st3, rw) end
        end
      end <> PrFuel /\
      (forall st' rw', match value strict st1 with
      | inr _ => PrFlt
      | inl (st2, co) =>
        let c := match co with Some q => q | None => 1%Q end in
        match next_var st2 with
        | (st3, VOk) => read_expr strict k st3 (add_var rw (fld st3) (if neg then (- c)%Q else c)) false
        | (st3, _) => match co with Some _ => PrErr | None => PrOk (st3, rw) end
        end
      end = PrOk (st', rw') -> (mu st' <= mu st)%nat)).
    { intros neg. destruct (value strict st1) as [[st2 co]|] eqn:V; [|split; [discriminate|discriminate]].
      apply value_mu in V. cbv zeta. pose proof (next_var_mu st2) as [NV1 NV2]. destruct (next_var st2) as [st3 r]. cbn [fst snd] in *.
      destruct r.
      - specialize (NV2 eq_refl).
        destruct (IH st3 (add_var rw (fld st3) (if neg then (- match co with Some q => q | None => 1%Q end)%Q else match co with Some q => q | None => 1%Q end)) false ltac:(lia)) as [A B].
        split; [exact A|]. intros st' rw' H. specialize (B st' rw' H). lia.
      - destruct co; split; try discriminate. intros st' rw' H. inversion H; subst. lia.
      - destruct co; split; try discriminate. intros st' rw' H. inversion H; subst. lia. }
    destruct sg as [[|]|]; [apply (BODY true)|apply (BODY false)|].
    destruct ft; [apply (BODY false)|]. split; [discriminate|]. intros st' rw' H. inversion H; subst. exact SG.
  Qed.

  Lemma read_constraint_name_mu st st' nm : read_constraint_name st = PrOk (st', nm) -> (mu st' <= mu st)%nat.
  Proof.
    unfold read_constraint_name. pose proof (has_colon_mu st) as HC. destruct (has_colon st) as [st1 hc]. cbn [fst] in HC.
    destruct hc; [|intros H; inversion H; subst; exact HC].
    pose proof (next_var_mu st1) as [NV _]. destruct (next_var st1) as [st2 []]; try discriminate. cbn [fst] in NV.
    pose proof (colon_mu st2) as CL. destruct (colon st2) as [st3 []]; try discriminate. cbn [fst] in CL.
    intros H. inversion H; subst. lia.
  Qed.
  Lemma read_constraint_name_nofuel st : read_constraint_name st <> PrFuel.
  Proof.
    unfold read_constraint_name. destruct (has_colon st) as [st1 []]; [|discriminate].
    destruct (next_var st1) as [st2 []]; try discriminate. destruct (colon st2) as [st3 []]; discriminate.
  Qed.

  Lemma read_one_constraint_total fuel st rw nm : (mu st < fuel)%nat ->
    read_one_constraint strict fuel st rw nm <> PrFuel /\
    (forall st' rw', read_one_constraint strict fuel st rw nm = PrOk (st', rw') -> (mu st' < mu st)%nat).
  Proof.
    intros LT. unfold read_one_constraint.
    destruct (match nm with Some n => mem n (row_names rw) | None => false end); [split; discriminate|].
    destruct (read_expr_total fuel st (add_row rw nm) true LT) as [NF LE].
    destruct (read_expr strict fuel st (add_row rw nm) true) as [[st1 rw1]| | |]; try (split; [discriminate|discriminate]); [|congruence].
    specialize (LE st1 rw1 eq_refl).
    destruct (row_sense st1) as [st2 [s|]] eqn:RS; [|split; discriminate].
    destruct (row_sense_mu st1 st2 (Some s) RS) as [_ R2]. specialize (R2 ltac:(discriminate)).
    destruct (value strict st2) as [[st3 [d|]]|] eqn:V; try (split; discriminate).
    apply value_mu in V. split; [discriminate|]. intros st' rw' H. inversion H; subst. lia.
  Qed.

  Lemma read_constraint_loop_total fuel_e : forall fuel st rw, (mu st < fuel)%nat -> (mu st < fuel_e)%nat ->
    read_constraint_loop strict fuel fuel_e st rw <> PrFuel /\
    (forall st' rw', read_constraint_loop strict fuel fuel_e st rw = PrOk (st', rw') -> (mu st' <= mu st)%nat).
  Proof.
    induction fuel as [|k IH]; intros st rw LT LE; [lia|]. cbn [read_constraint_loop].
    pose proof (read_constraint_name_nofuel st) as NF1.
    destruct (read_constraint_name st) as [[st1 nm]| | |] eqn:RC; try (split; discriminate); [|congruence].
    apply read_constraint_name_mu in RC.
    destruct (read_one_constraint_total fuel_e st1 rw nm ltac:(lia)) as [NF2 LT2].
    destruct (read_one_constraint strict fuel_e st1 rw nm) as [[st2 rw2]| | |]; try (split; discriminate); [|congruence].
    specialize (LT2 st2 rw2 eq_refl).
    destruct (next_constraint st2) as [st3 [|]] eqn:NC; apply next_constraint_mu in NC.
    - destruct (IH st3 rw2 ltac:(lia) ltac:(lia)) as [A B]. split; [exact A|].
      intros st' rw' H. specialize (B st' rw' H). lia.
    - split; [discriminate|]. intros st' rw' H. inversion H; subst. lia.
  Qed.

  Lemma check_subject_to_mu st st' : check_subject_to st = (st', true) -> (mu st' <= mu st)%nat.
  Proof.
    unfold check_subject_to. pose proof (next_field_mu true st) as NF. destruct (next_field true st) as [st1 [|]]; [|discriminate]. cbn [fst] in NF.
    assert (G : forall (s2 : rst) (ok : bool), (mu s2 <= mu st1)%nat ->
              (if ok then (fst (skip_blanks true s2), true) else (prev_field s2, false)) = (st', true) -> (mu st' <= mu st)%nat).
    { intros s2 ok LE H. destruct ok; [|discriminate]. inversion H; subst. pose proof (skip_blanks_mu true s2). lia. }
    destruct (ieq (fld st1) (s2l "ST")); [apply (G st1 (first st1)); lia|].
    destruct (ieq (fld st1) (s2l "SUBJECT")); [|apply (G st1 false); lia].
    pose proof (skipb_len (cur st1) (pre st1)) as SL. pose proof (skipb_pre (cur st1) (pre st1)) as SP.
    destruct (skipb (pre st1) (cur st1)) as [p c]. cbn [fst snd] in SL, SP.
    destruct (iprefix (s2l "TO") c); [|apply (G st1 true); lia].
    destruct (first st1); [|apply (G st1 false); lia].
    apply (G (advn 2 (set_pos st1 p c)) true). pose proof (advn_mu 2 (set_pos st1 p c)) as A.
    assert (mu (set_pos st1 p c) <= mu st1)%nat by (unfold mu, later; cbn; lia). lia.
  Qed.

  Lemma read_constraints_total fuel st rw : (mu st < fuel)%nat ->
    read_constraints strict fuel st rw <> PrFuel /\
    (forall st' rw', read_constraints strict fuel st rw = PrOk (st', rw') -> (mu st' <= mu st)%nat).
  Proof.
    intros LT. unfold read_constraints. destruct (check_subject_to st) as [st1 [|]] eqn:CS; [|split; discriminate].
    apply check_subject_to_mu in CS.
    destruct (read_constraint_loop_total fuel fuel st1 rw ltac:(lia) ltac:(lia)) as [NF LE].
    destruct (read_constraint_loop strict fuel fuel st1 rw) as [[st2 rw2]| | |]; try (split; discriminate); [|congruence].
    specialize (LE st2 rw2 eq_refl). split; [discriminate|]. intros st' rw' H. inversion H; subst.
    pose proof (next_field_mu true st2). lia.
  Qed.

  Lemma read_colname_mu must st rw : match read_colname must st rw with
                                     | COk st' _ => (mu st' < mu st)%nat
                                     | CKey st' => (mu st' <= mu st)%nat
                                     | CErr => True
                                     end.
  Proof.
    unfold read_colname. pose proof (next_var_mu st) as [A B]. destruct (next_var st) as [st1 []]; cbn [fst snd] in *.
    - destruct (mem (fld st1) (r_cols rw)); [apply B; reflexivity|exact I].
    - exact I.
    - destruct must; [exact I|exact A].
  Qed.

  Lemma after_colname_total st rw nm hb : after_colname strict M st rw nm hb <> PrFuel /\
    (forall st' rw', after_colname strict M st rw nm hb = PrOk (st', rw') -> (mu st' <= mu st)%nat).
  Proof.
    unfold after_colname. destruct (bound_sense st) as [st1 [s|]] eqn:BS; apply bound_sense_mu in BS.
    - destruct (possible_bound_value strict M st1) as [[st2 [v|]]|] eqn:PB; try (split; discriminate).
      apply possible_bound_value_mu in PB. split; [discriminate|]. intros st' rw' H. inversion H; subst. lia.
    - pose proof (test_next_is_free_mu st1) as TF. destruct (test_next_is_free st1) as [st2 [|]]; cbn [fst] in TF.
      + split; [discriminate|]. intros st' rw' H. inversion H; subst. lia.
      + destruct hb; split; try discriminate. intros st' rw' H. inversion H; subst. lia.
  Qed.

  Lemma read_bounds_loop_total : forall fuel st rw, (mu st < fuel)%nat ->
    read_bounds_loop strict M fuel st rw <> PrFuel /\
    (forall st' rw', read_bounds_loop strict M fuel st rw = PrOk (st', rw') -> (mu st' <= mu st)%nat).
  Proof.
    induction fuel as [|k IH]; intros st rw LT; [lia|]. cbn [read_bounds_loop].
    destruct (possible_bound_value strict M st) as [[st1 [v|]]|] eqn:PB; [| |split; discriminate]; apply possible_bound_value_mu in PB.
    - destruct (bound_sense st1) as [st2 [[| | |]|]] eqn:BS; try (split; discriminate). apply bound_sense_mu in BS.
      pose proof (read_colname_mu true st2 rw) as RC. destruct (read_colname true st2 rw) as [st3 nm| |]; try (split; discriminate).
      destruct (after_colname_total st3 (upd_bnd rw nm (fun b => set_lower b v)) nm true) as [NF LE].
      destruct (after_colname strict M st3 (upd_bnd rw nm (fun b => set_lower b v)) nm true) as [[st4 rw4]| | |]; try (split; discriminate); [|congruence].
      specialize (LE st4 rw4 eq_refl). destruct (IH st4 rw4 ltac:(lia)) as [A B]. split; [exact A|].
      intros st' rw' H. specialize (B st' rw' H). lia.
    - pose proof (read_colname_mu false st1 rw) as RC. destruct (read_colname false st1 rw) as [st2 nm|st2|]; [| |split; discriminate].
      + destruct (after_colname_total st2 rw nm false) as [NF LE].
        destruct (after_colname strict M st2 rw nm false) as [[st3 rw3]| | |]; try (split; discriminate); [|congruence].
        specialize (LE st3 rw3 eq_refl). destruct (IH st3 rw3 ltac:(lia)) as [A B]. split; [exact A|].
        intros st' rw' H. specialize (B st' rw' H). lia.
      + split; [discriminate|]. intros st' rw' H. inversion H; subst. lia.
  Qed.

  Lemma read_integer_loop_total : forall fuel st rw, (mu st < fuel)%nat ->
    read_integer_loop fuel st rw <> PrFuel /\
    (forall st' rw', read_integer_loop fuel st rw = PrOk (st', rw') -> (mu st' <= mu st)%nat).
  Proof.
    induction fuel as [|k IH]; intros st rw LT; [lia|]. cbn [read_integer_loop].
    pose proof (read_colname_mu false st rw) as RC. destruct (read_colname false st rw) as [st1 nm|st1|]; [| |split; discriminate].
    - destruct (IH st1 (mark_int rw nm) ltac:(lia)) as [A B]. split; [exact A|]. intros st' rw' H. specialize (B st' rw' H). lia.
    - split; [discriminate|]. intros st' rw' H. inversion H; subst. lia.
  Qed.

  Lemma read_integer_loop_noflt : forall fuel st rw, read_integer_loop fuel st rw <> PrFlt.
  Proof. induction fuel as [|k IH]; intros st rw; cbn [read_integer_loop]; [discriminate|]. destruct (read_colname false st rw); try discriminate. apply IH. Qed.

  Lemma read_header_mu st st' nm mx : read_header st = PrOk (st', nm, mx) -> (mu st' <= mu st)%nat.
  Proof.
    unfold read_header. destruct (negb (first st)); [discriminate|].
    destruct (ieq (fld st) (s2l "PROBLEM") || ieq (fld st) (s2l "PROB")).
    - pose proof (next_field_mu true st) as N1. destruct (next_field true st) as [st1 [|]]; [|discriminate]. cbn [fst] in N1.
      pose proof (next_field_mu true st1) as N2.
      destruct (negb (first (fst (next_field true st1)))); [discriminate|].
      destruct (existsb _ _); [intros H; inversion H; subst; lia|]. destruct (existsb _ _); [intros H; inversion H; subst; lia|discriminate].
    - destruct (negb (first st)); [discriminate|].
      destruct (existsb _ _); [intros H; inversion H; subst; lia|]. destruct (existsb _ _); [intros H; inversion H; subst; lia|discriminate].
  Qed.
  Lemma read_header_nofuel st : read_header st <> PrFuel.
  Proof.
    unfold read_header. destruct (negb (first st)); [discriminate|].
    destruct (ieq (fld st) (s2l "PROBLEM") || ieq (fld st) (s2l "PROB")).
    - destruct (next_field true st) as [st1 [|]]; [|discriminate].
      destruct (negb (first (fst (next_field true st1)))); [discriminate|].
      destruct (existsb _ _); [discriminate|]. destruct (existsb _ _); discriminate.
    - destruct (negb (first st)); [discriminate|].
      destruct (existsb _ _); [discriminate|]. destruct (existsb _ _); discriminate.
  Qed.

  Lemma read_objective_total fuel st nm mx : (mu st < fuel)%nat ->
    read_objective strict fuel st nm mx <> PrFuel /\
    (forall st' rw', read_objective strict fuel st nm mx = PrOk (st', rw') -> (mu st' <= mu st)%nat).
  Proof.
    intros LT. unfold read_objective. pose proof (skip_blanks_mu true st) as SB. destruct (skip_blanks true st) as [st1 ok]. cbn [fst] in SB.
    pose proof (has_colon_mu st1) as HC. destruct (has_colon st1) as [st2 hc]. cbn [fst] in HC.
    destruct hc.
    - pose proof (next_var_mu st2) as [NV _]. destruct (next_var st2) as [st3 []]; try (split; discriminate). cbn [fst] in NV.
      pose proof (colon_mu st3) as CL. destruct (colon st3) as [st4 []]; try (split; discriminate). cbn [fst] in CL.
      match goal with |- read_expr strict fuel st4 ?r true <> _ /\ _ => destruct (read_expr_total fuel st4 r true ltac:(lia)) as [A B] end.
      split; [exact A|]. intros st' rw' H. specialize (B st' rw' H). lia.
    - match goal with |- read_expr strict fuel st2 ?r true <> _ /\ _ => destruct (read_expr_total fuel st2 r true ltac:(lia)) as [A B] end.
      split; [exact A|]. intros st' rw' H. specialize (B st' rw' H). lia.
  Qed.

  (* ---- the reader never runs out of fuel ------------------------------------------------------------------------------------ *)
  Theorem fuel_suffices ls : read_lp_res strict M ls <> PrFuel.
  Proof.
    unfold read_lp_res. set (fuel := total_fuel ls).
    assert (M0 : (mu (st_start ls) < fuel)%nat).
    { unfold st_start. pose proof (skip_blanks_mu true (mk_rst [] [] ls false [] false 0)) as H.
      assert (E0 : mu (mk_rst [] [] ls false [] false 0) = (List.length ls + bytes ls)%nat) by reflexivity.
      assert (E1 : fuel = S (List.length ls + bytes ls)) by reflexivity. lia. }
    pose proof (next_field_mu true (st_start ls)) as N0. destruct (next_field true (st_start ls)) as [st0 [|]]; [|discriminate]. cbn [fst] in N0.
    pose proof (read_header_nofuel st0) as HN.
    destruct (read_header st0) as [[[st1 nm] mx]| | |] eqn:RH; try discriminate; [|congruence].
    apply read_header_mu in RH.
    destruct (read_objective_total fuel st1 nm mx ltac:(lia)) as [ON OL].
    destruct (read_objective strict fuel st1 nm mx) as [[st2 rw2]| | |]; try discriminate; [|congruence].
    specialize (OL st2 rw2 eq_refl).
    destruct (read_constraints_total fuel st2 rw2 ltac:(lia)) as [CN CL].
    destruct (read_constraints strict fuel st2 rw2) as [[st3 rw3]| | |]; try discriminate; [|congruence].
    specialize (CL st3 rw3 eq_refl).
    destruct (is_nil (r_cols rw3)); [discriminate|].
    assert (RB : exists st4 rw4, (if kw_test st3 ["BOUNDS"; "BOUND"]%string then read_bounds strict M fuel st3 rw3 else PrOk (st3, rw3)) = PrOk (st4, rw4) /\ (mu st4 <= mu st3)%nat
                 \/ (if kw_test st3 ["BOUNDS"; "BOUND"]%string then read_bounds strict M fuel st3 rw3 else PrOk (st3, rw3)) = PrErr
                 \/ (if kw_test st3 ["BOUNDS"; "BOUND"]%string then read_bounds strict M fuel st3 rw3 else PrOk (st3, rw3)) = PrFlt).
    { destruct (kw_test st3 _); [|exists st3, rw3; left; split; [reflexivity|lia]].
      unfold read_bounds. destruct (read_bounds_loop_total fuel st3 rw3 ltac:(lia)) as [BN BL].
      destruct (read_bounds_loop strict M fuel st3 rw3) as [[s r]| | |]; [|exists st3, rw3; right; left; reflexivity|exists st3, rw3; right; right; reflexivity|congruence].
      specialize (BL s r eq_refl). exists (fst (next_field true s)), r. left. split; [reflexivity|]. pose proof (next_field_mu true s). lia. }
    destruct RB as (st4 & rw4 & [[-> L4]|[-> | ->]]); try discriminate.
    assert (RI : exists st5 rw5, (if kw_test st4 ["INTEGER"; "INT"]%string then read_integer fuel st4 rw4 else PrOk (st4, rw4)) = PrOk (st5, rw5)
                 \/ (if kw_test st4 ["INTEGER"; "INT"]%string then read_integer fuel st4 rw4 else PrOk (st4, rw4)) = PrErr).
    { destruct (kw_test st4 _); [|exists st4, rw4; left; reflexivity].
      unfold read_integer. destruct (read_integer_loop_total fuel st4 rw4 ltac:(lia)) as [IN IL].
      destruct (read_integer_loop fuel st4 rw4) as [[s r]| | |] eqn:ERI; [exists (fst (next_field true s)), r; left; reflexivity|exists st4, rw4; right; reflexivity| |congruence].
      exfalso. exact (read_integer_loop_noflt fuel st4 rw4 ERI). }
    destruct RI as (st5 & rw5 & [-> | ->]); [|discriminate].
    destruct (kw_test st5 _); [|discriminate]. destruct (finish M rw5); discriminate.
  Qed.
End Loops.
