(* IO/LpBounds.v -- fourth layer of the LP round trip: the Bounds section.

   [pbv_name]   possible_bound_value in front of a column name (also one that starts with "inf": the name must only
                not BE inf / infinity) finds no value and leaves the name in place
   [pbv_val]    possible_bound_value in front of a printed bound ("inf ", "-inf ", a number) reads [rd_bound v] == v
   [stmt_read]  one line of write_bounds is read as the statement it spells
   [bounds_loop_read]  the loop of read_bounds over all lines written, up to the keyword line that follows *)
From Coq Require Import QArith List Ascii String Bool Arith NArith Lia Lqa.
From Coq Require Decimal DecimalString DecimalZ DecimalN DecimalPos.
From QSX Require Import Base.QSum LP.User IO.Num IO.NumSound IO.Bounds IO.Lex IO.Equiv IO.LpWrite IO.LpRead IO.LpTok IO.LpExpr IO.LpRows.
Import ListNotations.
Local Open Scope Q_scope.

(* ---- words that the bounds reader takes for something else ----------------------------------------------------------- *)

Definition INF3 : list ascii := s2l "INF".
Definition INF8 : list ascii := s2l "INFINITY".
Definition FREE4 : list ascii := s2l "FREE".
(* the names fix_names replaces *)
Definition reserved (nm : name) : bool := ieq INF3 nm || ieq INF8 nm || ieq FREE4 nm.

Definition letters (kw : list ascii) : Prop :=
  forall k y, In k kw -> is_blank y = true -> Ascii.eqb (to_lower k) (to_lower y) = false.

Lemma letters_kw : letters INF3 /\ letters INF8 /\ letters FREE4.
Proof.
  assert (G : forall k y, In k (s2l "INFTYRE") -> is_blank y = true -> Ascii.eqb (to_lower k) (to_lower y) = false).
  { intros k y IN B. assert (Y : y = " "%char \/ y = "009"%char \/ y = "013"%char \/ y = "012"%char).
    { revert B. all_ascii y; vm_compute; intros H; try discriminate H; auto. }
    cbn in IN. destruct Y as [-> | [-> | [-> | ->]]]; repeat (destruct IN as [<- | IN]; [reflexivity|]); destruct IN. }
  repeat split; intros k y IN; apply G; cbn in *; tauto.
Qed.

(* a keyword that is a prefix of "name ++ rest" either ends inside the name or is the name *)
Lemma iprefix_name : forall kw nm c', letters kw ->
  (c' = [] \/ exists y r, c' = y :: r /\ is_blank y = true) ->
  iprefix kw (nm ++ c') = true -> (List.length kw < List.length nm)%nat \/ ieq kw nm = true.
Proof.
  induction kw as [|k kw IH]; intros nm c' LT CT H.
  - destruct nm; [right; reflexivity|left; simpl; lia].
  - destruct nm as [|n nm].
    + exfalso. cbn [app] in H. destruct CT as [->|(y & r & -> & BY)]; [discriminate H|].
      cbn [iprefix] in H. rewrite (LT k y (or_introl eq_refl) BY) in H. discriminate H.
    + cbn [app iprefix] in H. apply andb_true_iff in H. destruct H as [H1 H2].
      destruct (IH nm c' (fun k0 y IN => LT k0 y (or_intror IN)) CT H2) as [L|E].
      * left. simpl. lia.
      * right. cbn [ieq]. now rewrite H1, E.
Qed.

Lemma adv_snd_long : forall n nm c' p, (n < List.length nm)%nat ->
  exists y r, snd (adv n p (nm ++ c')) = y :: r /\ In y nm.
Proof.
  induction n as [|n IH]; intros nm c' p L; destruct nm as [|x nm]; simpl in L; try lia.
  - exists x, (nm ++ c'). split; [reflexivity|now left].
  - cbn [app adv]. destruct (IH nm c' (x :: p) ltac:(lia)) as (y & r & E & IN). exists y, r. split; [exact E|now right].
Qed.

Lemma name_all_nonblank nm : name_ok nm -> forall y, In y nm -> is_blank y = false.
Proof.
  destruct nm as [|c r]; [intros []|]. intros [H1 H2] y [<-|IN].
  - apply (name_start_facts c H1).
  - rewrite forallb_forall in H2. apply (name_char_facts y (H2 y IN)).
Qed.

(* after a keyword that is the prefix of a longer name the name goes on *)
Lemma kw_prefix_of_name kw nm c' p : letters kw -> name_ok nm -> ieq kw nm = false ->
  (c' = [] \/ exists y r, c' = y :: r /\ is_blank y = true) ->
  iprefix kw (nm ++ c') = true ->
  exists y r, snd (adv (List.length kw) p (nm ++ c')) = y :: r /\ is_blank y = false.
Proof.
  intros LT NO NE CT H. destruct (iprefix_name kw nm c' LT CT H) as [L|E]; [|congruence].
  destruct (adv_snd_long _ nm c' p L) as (y & r & EY & IN). exists y, r. split; [exact EY|].
  exact (name_all_nonblank nm NO y IN).
Qed.

Lemma adv_snd_p n : forall p q c, snd (adv n p c) = snd (adv n q c).
Proof. induction n as [|n IH]; intros p q c; destruct c; simpl; auto. Qed.

(* ---- possible_bound_value in front of a name --------------------------------------------------------------------------- *)

Section B.
  Variable M : Q.
  Hypothesis HM : 0 < M.

  Lemma pbv_name st b nm c' : cur st = b ++ nm ++ c' -> all_blank b -> name_ok nm -> reserved nm = false ->
    (c' = [] \/ exists y r, c' = y :: r /\ is_blank y = true) ->
    exists st', possible_bound_value true M st = inl (st', None) /\ moved st st' b (nm ++ c') /\ fld st' = fld st.
  Proof.
    intros E AB NO RS CT.
    unfold reserved in RS. apply orb_false_iff in RS. destruct RS as [RS R4]. apply orb_false_iff in RS. destruct RS as [R3 R8].
    destruct letters_kw as (L3 & L8 & _).
    destruct nm as [|x r] eqn:EN; [destruct NO|]. rewrite <- EN in *.
    assert (XF : is_blank x = false /\ x <> "+"%char /\ x <> "-"%char).
    { rewrite EN in NO. destruct NO as [H _]. destruct (name_start_facts x H) as (_ & A & _ & _ & _ & B & C & _). auto. }
    destruct XF as (NB & N1 & N2).
    assert (E' : cur st = b ++ x :: (r ++ c')) by (rewrite E, EN; reflexivity).
    destruct (skip_to st b x _ E' AB NB) as (st1 & SK & (P1 & C1 & R1 & E1 & L1) & F1 & _).
    assert (C1' : cur st1 = nm ++ c') by (rewrite C1, EN; reflexivity).
    unfold possible_bound_value. rewrite (sign_none st b x _ E' AB NB N1 N2), SK. cbn [fst]. rewrite C1'.
    destruct (iprefix (s2l "INFINITY") (nm ++ c')) eqn:I8.
    - destruct (kw_prefix_of_name INF8 nm c' (pre st1) L8 NO R8 CT I8) as (y & rr0 & EY & BY).
      change (List.length INF8) with 8%nat in EY. unfold advn. rewrite C1'.
      destruct (adv 8 (pre st1) (nm ++ c')) as [p2 c2]. cbn [snd] in EY. subst c2. cbn [cur set_pos]. rewrite BY.
      exists st1. unfold moved. repeat split; try assumption; try congruence.
    - destruct (iprefix (s2l "INF") (nm ++ c')) eqn:I3.
      + destruct (kw_prefix_of_name INF3 nm c' (pre st1) L3 NO R3 CT I3) as (y & rr0 & EY & BY).
        change (List.length INF3) with 3%nat in EY. unfold advn. rewrite C1'.
        destruct (adv 3 (pre st1) (nm ++ c')) as [p2 c2]. cbn [snd] in EY. subst c2. cbn [cur set_pos]. rewrite BY.
        exists st1. unfold moved. repeat split; try assumption; try congruence.
      + assert (C1'' : cur st1 = [] ++ nm ++ c') by exact C1'.
        destruct (value_name st1 [] nm c' C1'' eq_refl NO) as (st2 & V & (P2 & C2 & R2 & E2 & L2) & F2).
        rewrite V. exists st2. unfold moved. repeat split; try congruence.
        rewrite P2, P1. reflexivity.
  Qed.

  (* ---- printed bounds ----------------------------------------------------------------------------------------------------- *)

  Definition rd_bound (v : Q) : Q :=
    if Qeq_bool v M then M else if Qeq_bool v (- M) then - M else if Qltb v 0 then - rr (- v) else rr v.

  Lemma rd_bound_eq v : rd_bound v == v.
  Proof.
    unfold rd_bound. destruct (Qeq_bool v M) eqn:E1; [apply Qeq_bool_iff in E1; now symmetry|].
    destruct (Qeq_bool v (- M)) eqn:E2; [apply Qeq_bool_iff in E2; now symmetry|].
    destruct (Qltb v 0).
    - destruct (rr_spec (- v) [] I) as [_ H]. rewrite H. ring.
    - apply (rr_spec v [] I).
  Qed.

  Lemma print_num_neg v : v < 0 -> print_num v = "-"%char :: print_num (- v).
  Proof.
    intros H. unfold print_num. rewrite Qred_opp.
    assert (N : (Qnum (Qred v) < 0)%Z).
    { rewrite <- (Qred_correct v) in H. unfold Qlt in H. simpl in H. lia. }
    destruct (Qred v) as [n d]. cbn [Qnum Qden Qopp] in *. destruct n as [|p|p]; try lia.
    cbn [Z.opp]. unfold print_Z. cbn [Z.to_int].
    destruct d; reflexivity.
  Qed.

  Lemma skipb_split : forall c p, exists b', c = b' ++ snd (skipb p c) /\ all_blank b' /\ fst (skipb p c) = rev b' ++ p.
  Proof.
    induction c as [|x c IH]; intros p; [exists []; repeat split|]. simpl. destruct (is_blank x) eqn:BX.
    - destruct (IH (x :: p)) as (b' & E & AB & F). exists (x :: b'). cbn [app]. rewrite <- E. split; [reflexivity|].
      split; [unfold all_blank in *; simpl; now rewrite BX|]. rewrite F. cbn [rev]. now rewrite <- app_assoc.
    - exists []. repeat split.
  Qed.

  Lemma digit_not_I x : is_digit x = true -> Ascii.eqb "i" (to_lower x) = false.
  Proof. all_ascii x; vm_compute; intros H; try discriminate H; reflexivity. Qed.

  Lemma blank_not_numchar y : is_blank y = true -> number_char y = false.
  Proof. all_ascii y; vm_compute; intros H; try discriminate H; reflexivity. Qed.

  (* possible_bound_value after its call of [sign] *)
  Definition pbv_body (st1 : rst) (neg : bool) : (rst * option Q) + unit :=
    let len := if iprefix (s2l "INFINITY") (cur st1) then 8%nat else if iprefix (s2l "INF") (cur st1) then 3%nat else 0%nat in
    match len with
    | S _ =>
      let st2 := advn len st1 in
      match cur st2 with
      | x :: _ => if is_blank x then inl (fst (skip_blanks false st2), Some (if neg then - M else M))
                  else inl (st1, None)
      | [] => inl (st2, Some (if neg then - M else M))
      end
    | O =>
      match value true st1 with
      | inl (st2, Some v) => inl (st2, Some (if neg then - v else v))
      | r => r
      end
    end.
  Lemma pbv_unfold st : possible_bound_value true M st =
    let (st1, sg) := sign st in pbv_body st1 (match sg with Some true => true | _ => false end).
  Proof. reflexivity. Qed.

  Lemma ipre8 c' : iprefix (s2l "INFINITY") (s2l "inf " ++ c') = false.
  Proof. reflexivity. Qed.
  Lemma ipre3 c' : iprefix (s2l "INF") (s2l "inf " ++ c') = true.
  Proof. reflexivity. Qed.

  Lemma pbv_body_inf st1 neg c' : cur st1 = s2l "inf " ++ c' ->
    exists st' b' c'', pbv_body st1 neg = inl (st', Some (if neg then - M else M)) /\
      c' = b' ++ c'' /\ all_blank b' /\ cur st' = c'' /\ rest st' = rest st1 /\ eof st' = eof st1 /\ pre st' <> [].
  Proof.
    intros C. unfold pbv_body. rewrite C, ipre8, ipre3. cbn beta iota.
    unfold advn. rewrite C. cbn [s2l list_ascii_of_string app adv set_pos cur].
    change (is_blank " ") with true. cbn beta iota.
    unfold skip_blanks. cbn [pre cur set_pos skipb]. change (is_blank " ") with true. cbn beta iota.
    destruct (skipb_split c' (" "%char :: "f"%char :: "n"%char :: "i"%char :: pre st1)) as (b' & EC & AB & F).
    destruct (skipb (" "%char :: "f"%char :: "n"%char :: "i"%char :: pre st1) c') as [p2 c2] eqn:SK. cbn [fst snd] in *.
    exists (set_pos (mk_rst ("f"%char :: "n"%char :: "i"%char :: pre st1) (" "%char :: c') (rest st1) (eof st1) (fld st1) (first st1) (lnum st1)) p2 c2), b', c2.
    split.
    - destruct c2; reflexivity.
    - unfold set_pos. cbn [pre cur rest eof]. repeat split; auto. rewrite F. destruct (rev b'); discriminate.
  Qed.

  Lemma pbv_body_num st1 neg a c' : 0 <= a -> cur st1 = print_num a ++ c' -> stops c' ->
    exists st2, pbv_body st1 neg = inl (st2, Some (if neg then - rr a else rr a)) /\ moved st1 st2 (print_num a) c'.
  Proof.
    intros A C ST. destruct (print_num_nonneg_head a A) as (x & t & EP & D).
    unfold pbv_body. rewrite C, EP. cbn [app iprefix s2l list_ascii_of_string].
    change (to_lower "I") with "i"%char. rewrite (digit_not_I x D). cbn [andb]. cbn beta iota.
    assert (C' : cur st1 = [] ++ print_num a ++ c') by exact C.
    destruct (value_num st1 [] a c' C' eq_refl ST) as (st2 & V & MV). rewrite V.
    exists st2. split; [reflexivity|rewrite <- EP; exact MV].
  Qed.

  (* the reader in front of a printed bound value; what follows ([c']) is empty or starts with a blank.
     The reader ends somewhere among the leading blanks of [c'] *)
  Lemma pbv_val st b v c' : cur st = b ++ print_val M v ++ c' -> all_blank b ->
    (c' = [] \/ exists y r, c' = y :: r /\ is_blank y = true) ->
    exists st' b' c'', possible_bound_value true M st = inl (st', Some (rd_bound v)) /\
      c' = b' ++ c'' /\ all_blank b' /\ cur st' = c'' /\ rest st' = rest st /\ eof st' = eof st /\ pre st' <> [].
  Proof.
    intros E AB CT.
    assert (ST : stops c') by (destruct CT as [->|(y & r & -> & BY)]; [exact I|exact (blank_not_numchar y BY)]).
    rewrite pbv_unfold. unfold print_val, rd_bound in *.
    destruct (Qeq_bool v M) eqn:E1.
    - (* "inf " *)
      assert (E' : cur st = b ++ "i"%char :: (s2l "nf " ++ c')) by exact E.
      destruct (skip_to st b "i"%char _ E' AB eq_refl) as (st1 & SK & (P1 & C1 & R1 & E1' & L1) & _).
      rewrite (sign_none st b "i"%char _ E' AB eq_refl ltac:(discriminate) ltac:(discriminate)), SK. cbn [fst].
      destruct (pbv_body_inf st1 false c' C1) as (st' & b' & c'' & PB & EC & AB' & C' & R' & E'' & P').
      exists st', b', c''. rewrite PB. repeat split; auto; congruence.
    - destruct (Qeq_bool v (- M)) eqn:E2.
      + (* "-inf " *)
        assert (E' : cur st = b ++ (if true then "-"%char else "+"%char) :: (s2l "inf " ++ c')) by exact E.
        destruct (sign_some st b true _ E' AB) as (st1 & SG & (P1 & C1 & R1 & E1' & L1)). rewrite SG.
        destruct (pbv_body_inf st1 true c' C1) as (st' & b' & c'' & PB & EC & AB' & C' & R' & E'' & P').
        exists st', b', c''. rewrite PB. repeat split; auto; congruence.
      + destruct (Qltb v 0) eqn:NEG.
        * (* a negative number: the '-' is taken by [sign] *)
          apply Qltb_lt in NEG. rewrite (print_num_neg v NEG) in E.
          assert (E' : cur st = b ++ (if true then "-"%char else "+"%char) :: (print_num (- v) ++ c')) by exact E.
          destruct (sign_some st b true _ E' AB) as (st1 & SG & (P1 & C1 & R1 & E1' & L1)). rewrite SG.
          destruct (pbv_body_num st1 true (- v) c' ltac:(lra) C1 ST) as (st2 & PB & (P2 & C2 & R2 & E2' & L2)).
          exists st2, [], c'. rewrite PB. repeat split; auto; try congruence.
          rewrite P2. pose proof (print_num_nonempty (- v)). destruct (print_num (- v)); [congruence|]. simpl. now destruct (rev l).
        * apply Qltb_false in NEG.
          destruct (print_num_nonneg_head v NEG) as (x & t & EP & D). destruct (digit_not_sign x D) as (NB & N1 & N2 & _).
          assert (E' : cur st = b ++ x :: (t ++ c')) by (rewrite E, EP; reflexivity).
          destruct (skip_to st b x _ E' AB NB) as (st1 & SK & (P1 & C1 & R1 & E1' & L1) & _).
          rewrite (sign_none st b x _ E' AB NB N1 N2), SK. cbn [fst].
          assert (C1' : cur st1 = print_num v ++ c') by (rewrite C1, EP; reflexivity).
          destruct (pbv_body_num st1 false v c' NEG C1' ST) as (st2 & PB & (P2 & C2 & R2 & E2' & L2)).
          exists st2, [], c'. rewrite PB. repeat split; auto; try congruence.
          rewrite P2. rewrite EP. simpl. now destruct (rev t).
  Qed.
End B.

(* ---- what may follow a bound statement --------------------------------------------------------------------------------- *)

Lemma name_start_facts2 c : is_name_char c true = true -> c <> "="%char /\ c <> "<"%char.
Proof. all_ascii c; vm_compute; intros H; try discriminate H; split; discriminate. Qed.

(* the first token of a line that follows a lower-bound statement: no sense sign, and not the word "free" *)
Definition tok_ok (c : list ascii) : Prop :=
  match c with
  | [] => False
  | x :: t => is_blank x = false /\ x <> "="%char /\ x <> "<"%char /\
              (iprefix FREE4 (x :: t) = true -> exists y r, snd (adv 4 [] (x :: t)) = y :: r /\ is_blank y = false)
  end.
Definition next_ok (more : list line) : Prop :=
  exists l2 more2 b c, more = l2 :: more2 /\ cutline l2 = b ++ c /\ all_blank b /\ tok_ok c.

Lemma tok_ok_name nm c' : name_ok nm -> reserved nm = false ->
  (c' = [] \/ exists y r, c' = y :: r /\ is_blank y = true) -> tok_ok (nm ++ c').
Proof.
  intros NO RS CT. destruct nm as [|x r] eqn:EN; [destruct NO|]. cbn [app tok_ok].
  destruct NO as [H1 H2]. destruct (name_start_facts x H1) as (_ & NB & _). destruct (name_start_facts2 x H1) as (N1 & N2).
  repeat split; auto. intros IP.
  unfold reserved in RS. apply orb_false_iff in RS. destruct RS as [_ R4].
  destruct letters_kw as (_ & _ & L4).
  apply (kw_prefix_of_name FREE4 (x :: r) c' [] L4 (conj H1 H2) R4 CT IP).
Qed.

Lemma tok_ok_head x t : is_blank x = false -> x <> "="%char -> x <> "<"%char -> Ascii.eqb "f" (to_lower x) = false -> tok_ok (x :: t).
Proof.
  intros NB N1 N2 NF. cbn [tok_ok]. repeat split; auto. intros IP. cbn [FREE4 s2l list_ascii_of_string iprefix] in IP.
  change (to_lower "F") with "f"%char in IP. rewrite NF in IP. discriminate IP.
Qed.

Lemma digit_tok x : is_digit x = true -> is_blank x = false /\ x <> "="%char /\ x <> "<"%char /\ Ascii.eqb "f" (to_lower x) = false.
Proof. all_ascii x; vm_compute; intros H; try discriminate H; repeat split; discriminate. Qed.

Section B2.
  Variable M : Q.
  Hypothesis HM : 0 < M.

  Lemma tok_ok_val v c' : tok_ok (print_val M v ++ c').
  Proof.
    unfold print_val. destruct (Qeq_bool v M); [apply tok_ok_head; (reflexivity || discriminate)|].
    destruct (Qeq_bool v (- M)); [apply tok_ok_head; (reflexivity || discriminate)|].
    destruct (Qlt_le_dec v 0) as [NEG|POS].
    - rewrite (print_num_neg v NEG). apply tok_ok_head; (reflexivity || discriminate).
    - destruct (print_num_nonneg_head v POS) as (x & t & -> & D). destruct (digit_tok x D) as (A & B & C & E).
      cbn [app]. now apply tok_ok_head.
  Qed.

  Lemma print_val_clean v : clean (print_val M v).
  Proof.
    unfold print_val. destruct (Qeq_bool v M); [reflexivity|]. destruct (Qeq_bool v (- M)); [reflexivity|].
    apply numchars_clean, print_num_numchar.
  Qed.

  Lemma stmt_line_clean nm b : name_ok nm -> clean (stmt_line M nm b).
  Proof.
    intros NO. pose proof (name_clean nm NO) as NC.
    destruct b; unfold stmt_line; repeat (apply clean_app || apply clean_cons); try reflexivity; try exact NC; apply print_val_clean.
  Qed.

  (* every statement line starts with blanks and a token that is fine after a lower-bound statement *)
  Lemma stmt_line_next nm b more : name_ok nm -> reserved nm = false -> next_ok (stmt_line M nm b :: more).
  Proof.
    intros NO RS. exists (stmt_line M nm b), more.
    rewrite (cutline_clean _ (stmt_line_clean nm b NO)).
    destruct b; unfold stmt_line.
    - exists (s2l "  "), (nm ++ s2l " = " ++ print_val M v). repeat split; try reflexivity.
      apply tok_ok_name; auto. right. eexists _, _. split; reflexivity.
    - exists [" "%char], (nm ++ s2l " free"). repeat split; try reflexivity.
      apply tok_ok_name; auto. right. eexists _, _. split; reflexivity.
    - exists [" "%char], (print_val M v ++ s2l " <= " ++ nm). repeat split; try reflexivity. apply tok_ok_val.
    - exists [" "%char], (nm ++ s2l " <= " ++ print_val M v). repeat split; try reflexivity.
      apply tok_ok_name; auto. right. eexists _, _. split; reflexivity.
    - exists [" "%char], (print_val M l ++ s2l " <= " ++ nm ++ s2l " <= " ++ print_val M u). repeat split; try reflexivity. apply tok_ok_val.
  Qed.

  Definition kw_after_bounds (kwl : line) : Prop := kwl = s2l "Integer" \/ kwl = s2l "End".
  Lemma kw_line_next kwl more : kw_after_bounds kwl -> next_ok (kwl :: more).
  Proof.
    intros [-> | ->]; eexists _, more, [], _; (split; [reflexivity|]); (split; [reflexivity|]); (split; [reflexivity|]);
      apply tok_ok_head; (reflexivity || discriminate).
  Qed.
End B2.

(* ---- one iteration of the loop of read_bounds ------------------------------------------------------------------------------ *)

Lemma possible_bound_value_sbeq M st st' : sbeq st st' -> possible_bound_value true M st = possible_bound_value true M st'.
Proof. intros H. rewrite !pbv_unfold, (sign_sbeq _ _ H). reflexivity. Qed.

Lemma read_bounds_loop_sbeq M k st st' rw : sbeq st st' -> read_bounds_loop true M (S k) st rw = read_bounds_loop true M (S k) st' rw.
Proof. intros H. cbn [read_bounds_loop]. rewrite (possible_bound_value_sbeq M _ _ H). reflexivity. Qed.

Lemma blank_prefix_lt b' c'' r : all_blank b' -> b' ++ c'' = " "%char :: "<"%char :: r ->
  exists b'', all_blank b'' /\ c'' = b'' ++ "<"%char :: r.
Proof.
  intros AB E. destruct b' as [|y [|z b3]].
  - exists [" "%char]. split; [reflexivity|exact E].
  - exists []. split; [reflexivity|]. cbn [app] in *. congruence.
  - exfalso. cbn [app] in E. injection E as _ E2 _. subst z. unfold all_blank in AB. cbn [forallb] in AB.
    apply andb_true_iff in AB. destruct AB as [_ AB]. apply andb_true_iff in AB. destruct AB as [AB _]. discriminate AB.
Qed.

Lemma bound_sense_le st b c' : cur st = b ++ "<"%char :: "="%char :: c' -> all_blank b ->
  exists st', bound_sense st = (st', Some SL) /\ cur st' = c' /\ rest st' = rest st /\ eof st' = eof st /\ pre st' <> [].
Proof.
  intros E AB. destruct (skip_to st b "<"%char _ E AB eq_refl) as (st1 & SK & (P1 & C1 & R1 & E1 & L1) & _).
  unfold bound_sense. rewrite SK. cbn [negb]. rewrite C1. eexists. split; [reflexivity|].
  unfold advn. rewrite C1. cbn [adv set_pos pre cur rest eof]. repeat split; try congruence; try discriminate.
Qed.

Lemma bound_sense_eq st b c' : cur st = b ++ "="%char :: c' -> all_blank b ->
  exists st', bound_sense st = (st', Some SE) /\ cur st' = c' /\ rest st' = rest st /\ eof st' = eof st.
Proof.
  intros E AB. destruct (skip_to st b "="%char _ E AB eq_refl) as (st1 & SK & (P1 & C1 & R1 & E1 & L1) & _).
  unfold bound_sense. rewrite SK. cbn [negb]. rewrite C1. eexists. split; [reflexivity|].
  unfold advn. rewrite C1. cbn [adv set_pos pre cur rest eof]. repeat split; congruence.
Qed.

Lemma bound_sense_none st x t : cur st = x :: t -> is_blank x = false -> x <> "="%char -> x <> "<"%char ->
  bound_sense st = (st, None).
Proof.
  intros C NB N1 N2. destruct (skip_blanks_here st x t C NB) as [S1 _].
  unfold bound_sense. rewrite S1. cbn [negb]. rewrite C.
  all_ascii x; try reflexivity; congruence.
Qed.

Section B3.
  Variable M : Q.
  Hypothesis HM : 0 < M.

  Definition rd_stmt (b : bstmt) : bstmt :=
    match b with
    | BFix v => BFix (rd_bound M v) | BFreeS => BFreeS | BLo l => BLo (rd_bound M l)
    | BUp u => BUp (rd_bound M u) | BLoUp l u => BLoUp (rd_bound M l) (rd_bound M u)
    end.
  Definition upd_stmt (rw : raw) (nm : name) (b : bstmt) : raw :=
    match b with
    | BFix v => upd_bnd rw nm (fun s => apply_stmt M s (BFix v))
    | BFreeS => upd_bnd rw nm (fun s => apply_stmt M s BFreeS)
    | BLo l => upd_bnd rw nm (fun s => set_lower s l)
    | BUp u => upd_bnd rw nm (fun s => set_upper s u)
    | BLoUp l u => upd_bnd (upd_bnd rw nm (fun s => set_lower s l)) nm (fun s => set_upper s u)
    end.

  (* read_colname on " name..." *)
  Lemma read_colname_ok must st b nm c' rw : cur st = b ++ nm ++ c' -> all_blank b -> name_ok nm -> stop_name c' ->
    (b <> [] \/ pre st <> []) -> mem nm (r_cols rw) = true ->
    exists st', read_colname must st rw = COk st' nm /\ cur st' = c' /\ rest st' = rest st /\ eof st' = eof st /\ pre st' <> [].
  Proof.
    intros E AB NO ST NE MEM.
    destruct (next_var_name st b nm c' E AB NO ST NE) as (st' & NV & (P & C & R & E' & L) & F).
    exists st'. unfold read_colname. rewrite NV, F, MEM. repeat split; auto.
    rewrite P, rev_app_distr. destruct nm; [destruct NO|]. simpl. now destruct (rev nm).
  Qed.

  (* after a lower bound and its column name: the next token (on a later line) is no sense sign and not "free" *)
  Lemma after_lower st rw nm more : before st more -> next_ok more ->
    exists st', after_colname true M st rw nm true = PrOk (st', rw) /\ sbeq st' st.
  Proof.
    intros BF (l2 & more2 & b & c & -> & CL & AB & TOK).
    destruct c as [|x t]; [destruct TOK|]. destruct TOK as (NB & N1 & N2 & FR).
    pose proof (skip_blanks_before st l2 more2 b x t BF CL AB NB) as SK.
    set (s4 := mk_rst (rev b) (x :: t) more2 false (fld st) (first st) (S (lnum st))) in *.
    assert (BS : bound_sense st = (s4, None)).
    { rewrite (bound_sense_sbeq st s4).
      - apply (bound_sense_none s4 x t eq_refl NB N1 N2).
      - unfold sbeq. rewrite SK. symmetry. apply (skip_blanks_here s4 x t eq_refl NB). }
    unfold after_colname. rewrite BS.
    assert (TF : test_next_is_free s4 = (s4, false)).
    { unfold test_next_is_free. destruct (skip_blanks_here s4 x t eq_refl NB) as [_ S0]. rewrite S0.
      cbn [cur s4]. destruct (iprefix (s2l "FREE") (x :: t)) eqn:IP; [|reflexivity].
      destruct (FR IP) as (y & r & EY & BY). rewrite EY, BY. reflexivity. }
    rewrite TF. exists s4. split; [reflexivity|].
    unfold sbeq. rewrite SK. apply (skip_blanks_here s4 x t eq_refl NB).
  Qed.

  (* one written statement line *)
  Lemma stmt_read k st stb rw nm b more :
    sbeq st stb -> before stb (stmt_line M nm b :: more) -> name_ok nm -> reserved nm = false ->
    mem nm (r_cols rw) = true -> next_ok more ->
    exists st' stb', read_bounds_loop true M (S k) st rw = read_bounds_loop true M k st' (upd_stmt rw nm (rd_stmt b)) /\
      sbeq st' stb' /\ before stb' more.
  Proof.
    intros SB BF NO RS MEM NX.
    destruct BF as (ABc & RSb & EOb).
    pose proof (sbeq_newline stb _ _ ABc EOb RSb) as SN.
    set (s0 := mk_rst [] (cutline (stmt_line M nm b)) more false (fld stb) (first stb) (S (lnum stb))) in *.
    rewrite (read_bounds_loop_sbeq M k st s0 rw (sbeq_trans _ _ _ SB SN)).
    assert (C0 : cur s0 = stmt_line M nm b) by (unfold s0; cbn [cur]; apply cutline_clean, stmt_line_clean, NO).
    assert (R0 : rest s0 = more) by reflexivity. assert (E0 : eof s0 = false) by reflexivity.
    assert (CTb : forall r, (" "%char :: r = [] \/ exists y r', " "%char :: r = y :: r' /\ is_blank y = true))
      by (intros r; right; eexists _, _; split; reflexivity).
    cbn [read_bounds_loop].
    destruct b as [v| |l|u|l u]; unfold stmt_line in C0; cbn [rd_stmt upd_stmt].
    - (* "  name = v" *)
      destruct (pbv_name M s0 (s2l "  ") nm (s2l " = " ++ print_val M v) C0 eq_refl NO RS (CTb _)) as (s1 & PB & (P1 & C1 & R1 & E1 & L1) & _).
      rewrite PB.
      assert (C1' : cur s1 = [] ++ nm ++ s2l " = " ++ print_val M v) by exact C1.
      destruct (read_colname_ok false s1 [] nm _ rw C1' eq_refl NO eq_refl) as (s2 & RC & C2 & R2 & E2 & _); [right; rewrite P1; discriminate|exact MEM|].
      rewrite RC. unfold after_colname.
      assert (C2' : cur s2 = [" "%char] ++ "="%char :: (" "%char :: print_val M v)) by exact C2.
      destruct (bound_sense_eq s2 _ _ C2' eq_refl) as (s3 & BS & C3 & R3 & E3). rewrite BS.
      assert (C3' : cur s3 = [" "%char] ++ print_val M v ++ []) by (rewrite C3, app_nil_r; reflexivity).
      destruct (pbv_val M s3 _ v [] C3' eq_refl (or_introl eq_refl)) as (s4 & b' & c'' & PV & EC & AB' & C4 & R4 & E4 & _).
      rewrite PV. exists s4, s4. split; [reflexivity|]. split; [reflexivity|].
      symmetry in EC. apply app_eq_nil in EC. destruct EC as [_ ->].
      unfold before. rewrite C4. repeat split; congruence.
    - (* " name free" *)
      destruct (pbv_name M s0 [" "%char] nm (s2l " free") C0 eq_refl NO RS (CTb _)) as (s1 & PB & (P1 & C1 & R1 & E1 & L1) & _).
      rewrite PB.
      assert (C1' : cur s1 = [] ++ nm ++ s2l " free") by exact C1.
      destruct (read_colname_ok false s1 [] nm _ rw C1' eq_refl NO eq_refl) as (s2 & RC & C2 & R2 & E2 & _); [right; rewrite P1; discriminate|exact MEM|].
      rewrite RC. unfold after_colname.
      assert (C2' : cur s2 = [" "%char] ++ "f"%char :: s2l "ree") by exact C2.
      destruct (skip_to s2 _ _ _ C2' eq_refl eq_refl) as (s3 & SK3 & (P3 & C3 & R3 & E3 & L3) & _).
      assert (BS : bound_sense s2 = (s3, None)).
      { rewrite (bound_sense_sbeq s2 s3).
        - apply (bound_sense_none s3 _ _ C3); (reflexivity || discriminate).
        - unfold sbeq. rewrite SK3. symmetry. apply (skip_blanks_here s3 _ _ C3 eq_refl). }
      rewrite BS. unfold test_next_is_free. destruct (skip_blanks_here s3 _ _ C3 eq_refl) as [_ S0]. rewrite S0, C3.
      cbn [s2l list_ascii_of_string iprefix]. change (iprefix (s2l "FREE") (s2l "free")) with true. cbn beta iota.
      cbn [adv snd]. eexists _, _. split; [reflexivity|]. split; [reflexivity|].
      unfold before, advn. rewrite C3. cbn [adv set_pos cur rest eof s2l list_ascii_of_string]. repeat split; congruence.
    - (* " l <= name" *)
      destruct (pbv_val M s0 [" "%char] l (s2l " <= " ++ nm) C0 eq_refl (CTb _)) as (s1 & b' & c'' & PV & EC & AB' & C1 & R1 & E1 & _).
      rewrite PV. symmetry in EC.
      destruct (blank_prefix_lt b' c'' _ AB' EC) as (b'' & AB'' & ->).
      destruct (bound_sense_le s1 b'' _ C1 AB'') as (s2 & BS & C2 & R2 & E2 & _). rewrite BS.
      assert (C2' : cur s2 = [" "%char] ++ nm ++ []) by (rewrite C2, app_nil_r; reflexivity).
      destruct (read_colname_ok true s2 _ nm [] rw C2' eq_refl NO I) as (s3 & RC & C3 & R3 & E3 & _); [left; discriminate|exact MEM|].
      rewrite RC.
      assert (BF3 : before s3 more) by (unfold before; rewrite C3; repeat split; congruence).
      destruct (after_lower s3 (upd_bnd rw nm (fun b0 => set_lower b0 (rd_bound M l))) nm more BF3 NX) as (s4 & AC & SB4).
      rewrite AC. exists s4, s3. auto.
    - (* " name <= u" *)
      destruct (pbv_name M s0 [" "%char] nm (s2l " <= " ++ print_val M u) C0 eq_refl NO RS (CTb _)) as (s1 & PB & (P1 & C1 & R1 & E1 & L1) & _).
      rewrite PB.
      assert (C1' : cur s1 = [] ++ nm ++ s2l " <= " ++ print_val M u) by exact C1.
      destruct (read_colname_ok false s1 [] nm _ rw C1' eq_refl NO eq_refl) as (s2 & RC & C2 & R2 & E2 & _); [right; rewrite P1; discriminate|exact MEM|].
      rewrite RC. unfold after_colname.
      assert (C2' : cur s2 = [" "%char] ++ "<"%char :: "="%char :: (" "%char :: print_val M u)) by exact C2.
      destruct (bound_sense_le s2 _ _ C2' eq_refl) as (s3 & BS & C3 & R3 & E3 & _). rewrite BS.
      assert (C3' : cur s3 = [" "%char] ++ print_val M u ++ []) by (rewrite C3, app_nil_r; reflexivity).
      destruct (pbv_val M s3 _ u [] C3' eq_refl (or_introl eq_refl)) as (s4 & b' & c'' & PV & EC & AB' & C4 & R4 & E4 & _).
      rewrite PV. exists s4, s4. split; [reflexivity|]. split; [reflexivity|].
      symmetry in EC. apply app_eq_nil in EC. destruct EC as [_ ->].
      unfold before. rewrite C4. repeat split; congruence.
    - (* " l <= name <= u" *)
      destruct (pbv_val M s0 [" "%char] l (s2l " <= " ++ nm ++ s2l " <= " ++ print_val M u) C0 eq_refl (CTb _)) as (s1 & b' & c'' & PV & EC & AB' & C1 & R1 & E1 & _).
      rewrite PV. symmetry in EC.
      destruct (blank_prefix_lt b' c'' _ AB' EC) as (b'' & AB'' & ->).
      destruct (bound_sense_le s1 b'' _ C1 AB'') as (s2 & BS & C2 & R2 & E2 & _). rewrite BS.
      assert (C2' : cur s2 = [" "%char] ++ nm ++ s2l " <= " ++ print_val M u) by exact C2.
      destruct (read_colname_ok true s2 _ nm _ rw C2' eq_refl NO eq_refl) as (s3 & RC & C3 & R3 & E3 & _); [left; discriminate|exact MEM|].
      rewrite RC. unfold after_colname.
      assert (C3' : cur s3 = [" "%char] ++ "<"%char :: "="%char :: (" "%char :: print_val M u)) by exact C3.
      destruct (bound_sense_le s3 _ _ C3' eq_refl) as (s4 & BS4 & C4 & R4 & E4 & _). rewrite BS4.
      assert (C4' : cur s4 = [" "%char] ++ print_val M u ++ []) by (rewrite C4, app_nil_r; reflexivity).
      destruct (pbv_val M s4 _ u [] C4' eq_refl (or_introl eq_refl)) as (s5 & b5 & c5 & PV5 & EC5 & AB5 & C5 & R5 & E5 & _).
      rewrite PV5. exists s5, s5. split; [reflexivity|]. split; [reflexivity|].
      symmetry in EC5. apply app_eq_nil in EC5. destruct EC5 as [_ ->].
      unfold before. rewrite C5. repeat split; congruence.
  Qed.
End B3.

(* ---- the loop -------------------------------------------------------------------------------------------------------------- *)

Section B4.
  Variable M : Q.
  Hypothesis HM : 0 < M.

  Definition bnd_effect (rw : raw) (c : lcol) : raw :=
    fold_left (fun rw b => upd_stmt M rw (lc_name c) (rd_stmt M b)) (encode_bounds M (lc_lo c) (lc_up c) (lc_int c)) rw.
  Definition colb_ok (cn : list name) (c : lcol) : Prop :=
    name_ok (lc_name c) /\ reserved (lc_name c) = false /\ mem (lc_name c) cn = true.

  Lemma r_cols_upd_stmt rw nm b : r_cols (upd_stmt M rw nm b) = r_cols rw.
  Proof. destruct b; reflexivity. Qed.
  Lemma r_cols_bnd_effect rw c : r_cols (bnd_effect rw c) = r_cols rw.
  Proof.
    unfold bnd_effect. generalize (encode_bounds M (lc_lo c) (lc_up c) (lc_int c)). intros l. revert rw.
    induction l as [|b l IH]; intros rw; [reflexivity|]. cbn [fold_left]. rewrite IH. apply r_cols_upd_stmt.
  Qed.

  Lemma encode_len lo up it : (List.length (encode_bounds M lo up it) <= 1)%nat.
  Proof.
    unfold encode_bounds. destruct (Qeq_bool lo up); [simpl; lia|].
    destruct (Qeq_bool lo (- M) && Qeq_bool up M); [simpl; lia|].
    destruct (negb (default_lower M lo up)), (negb (default_upper M lo up it)); simpl; lia.
  Qed.

  (* the keyword line after the section: no bound value, a keyword in column 0 *)
  Lemma bounds_end k st stb rw kwl more' : sbeq st stb -> before stb (kwl :: more') -> kw_after_bounds kwl ->
    exists st', read_bounds_loop true M (S k) st rw = PrOk (st', rw) /\ pre st' = [] /\ cur st' = kwl /\ rest st' = more' /\ eof st' = false.
  Proof.
    intros SB (ABc & RSb & EOb) KW.
    pose proof (sbeq_newline stb _ _ ABc EOb RSb) as SN.
    rewrite (read_bounds_loop_sbeq M k st _ rw (sbeq_trans _ _ _ SB SN)).
    cbn [read_bounds_loop]. rewrite pbv_unfold. unfold sign, pbv_body, value, read_colname, next_var.
    destruct KW as [-> | ->].
    - change (cutline (s2l "Integer")) with (s2l "Integer").
      cbn [skip_blanks pre cur skipb s2l list_ascii_of_string is_blank Ascii.eqb orb set_pos].
      change (iprefix (s2l "INFINITY") (s2l "Integer")) with false. change (iprefix (s2l "INF") (s2l "Integer")) with false.
      cbn beta iota. cbn [skip_blanks pre cur skipb s2l list_ascii_of_string is_blank Ascii.eqb orb set_pos negb set_first at_col0 is_nil].
      change (read_num_gen true (s2l "Integer")) with (Val 0, O). cbn beta iota.
      cbn [skip_blanks pre cur skipb s2l list_ascii_of_string is_blank Ascii.eqb orb set_pos negb set_first at_col0 is_nil].
      change (fst (scan_name (s2l "Integer") true)) with (s2l "Integer"). cbn [s2l list_ascii_of_string first andb].
      change (is_keyword (s2l "Integer")) with true. cbn beta iota.
      eexists. split; [reflexivity|]. cbn. repeat split.
    - change (cutline (s2l "End")) with (s2l "End").
      cbn [skip_blanks pre cur skipb s2l list_ascii_of_string is_blank Ascii.eqb orb set_pos].
      change (iprefix (s2l "INFINITY") (s2l "End")) with false. change (iprefix (s2l "INF") (s2l "End")) with false.
      cbn beta iota. cbn [skip_blanks pre cur skipb s2l list_ascii_of_string is_blank Ascii.eqb orb set_pos negb set_first at_col0 is_nil].
      change (read_num_gen true (s2l "End")) with (Val 0, O). cbn beta iota.
      cbn [skip_blanks pre cur skipb s2l list_ascii_of_string is_blank Ascii.eqb orb set_pos negb set_first at_col0 is_nil].
      change (fst (scan_name (s2l "End") true)) with (s2l "End"). cbn [s2l list_ascii_of_string first andb].
      change (is_keyword (s2l "End")) with true. cbn beta iota.
      eexists. split; [reflexivity|]. cbn. repeat split.
  Qed.

  Lemma next_ok_rest cn : forall cols kwl more', Forall (colb_ok cn) cols -> kw_after_bounds kwl ->
    next_ok (flat_map (bound_lines M) cols ++ kwl :: more').
  Proof.
    induction cols as [|c cols IH]; intros kwl more' OK KW; [apply kw_line_next, KW|].
    inversion OK as [|? ? (NO & RS & _) OK']; subst. cbn [flat_map]. unfold bound_lines at 1.
    destruct (encode_bounds M (lc_lo c) (lc_up c) (lc_int c)) as [|b l]; cbn [map app]; [apply IH; assumption|].
    rewrite <- app_assoc. cbn [app]. apply stmt_line_next; assumption.
  Qed.

  Lemma bounds_loop_read : forall cols st stb rw k kwl more',
    Forall (colb_ok (r_cols rw)) cols -> sbeq st stb ->
    before stb (flat_map (bound_lines M) cols ++ kwl :: more') -> kw_after_bounds kwl ->
    (List.length (flat_map (bound_lines M) cols) <= k)%nat ->
    exists st', read_bounds_loop true M (S k) st rw = PrOk (st', fold_left bnd_effect cols rw) /\
      pre st' = [] /\ cur st' = kwl /\ rest st' = more' /\ eof st' = false.
  Proof.
    induction cols as [|c cols IH]; intros st stb rw k kwl more' OK SB BF KW FU.
    - cbn [flat_map app fold_left] in *. apply (bounds_end k st stb rw kwl more' SB BF KW).
    - inversion OK as [|? ? (NO & RS & MEM) OK']; subst. cbn [flat_map fold_left] in *.
      unfold bnd_effect at 2. unfold bound_lines at 1 in BF. unfold bound_lines at 1 in FU.
      pose proof (encode_len (lc_lo c) (lc_up c) (lc_int c)) as EL.
      destruct (encode_bounds M (lc_lo c) (lc_up c) (lc_int c)) as [|b [|b2 l]]; cbn [map app fold_left List.length] in *; [| |lia].
      + apply (IH st stb rw k kwl more' OK' SB BF KW FU).
      + pose proof (next_ok_rest (r_cols rw) cols kwl more' OK' KW) as NX.
        destruct (stmt_read M k st stb rw (lc_name c) b _ SB BF NO RS MEM NX) as (st' & stb' & STEP & SB' & BF').
        rewrite STEP. destruct k as [|k']; [lia|].
        apply (IH st' stb' _ k' kwl more'); auto.
        * rewrite r_cols_upd_stmt. exact OK'.
        * lia.
  Qed.
End B4.
