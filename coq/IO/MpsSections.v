(* IO/MpsSections.v -- third layer of the MPS round trip: the loop of ILLread_mps over the sections the writer prints.
     mloop_fuel      the loop does not depend on its fuel once there is more fuel than lines
     mrun_lines      a block of data lines whose records have known effects is a fold of these effects
     header_read, rows_read, columns_read, rhs_read, ranges_read, bounds_read: one lemma per section of write_mps *)
From Coq Require Import QArith List Ascii String Bool Arith NArith Lia Lqa.
From QSX Require Import Base.QSum LP.User IO.Num IO.NumSound IO.Bounds IO.Ranges IO.Lex IO.Equiv IO.LpWrite IO.LpRead IO.LpTok
  IO.MpsWrite IO.MpsRead IO.MpsTotal IO.MpsTok.
Import ListNotations.
Local Open Scope Q_scope.

Section S.
  Variable M : Q.

  (* ---- fuel ------------------------------------------------------------------------------------------------------- *)
  Lemma mloop_fuel : forall k1 k2 ls x, (List.length ls < k1)%nat -> (List.length ls < k2)%nat ->
    mloop true M k1 ls x = mloop true M k2 ls x.
  Proof.
    induction k1 as [|k1 IH]; intros k2 ls x L1 L2; [lia|]. destruct k2 as [|k2]; [lia|]. cbn [mloop].
    destruct (mnext_line ls) as [[t|] rest] eqn:NL; [|reflexivity].
    assert (NE : ls <> []) by (intros ->; cbn in NL; discriminate).
    apply mnext_line_len in NL. destruct NL as [_ NL]. specialize (NL NE).
    destruct (t_key t) as [|a key].
    - destruct (line_in_section true M t x); try reflexivity. apply IH; lia.
    - destruct (leqb (a :: key) (s2l "ENDATA")); [reflexivity|].
      destruct (read_section t rest x) as [[x1 rest1]| | |] eqn:RS; try reflexivity.
      apply read_section_len in RS. apply IH; lia.
  Qed.

  Definition mrun (ls : list line) (x : xraw) : mres xraw := mloop true M (S (List.length ls)) ls x.

  Lemma mloop_S k ls x : mloop true M (S k) ls x =
    match mnext_line ls with
    | (None, _) => MOk x
    | (Some t, rest) =>
      match t_key t with
      | [] => match line_in_section true M t x with MOk x1 => mloop true M k rest x1 | e => e end
      | key => if leqb key (s2l "ENDATA") then MOk x
               else match read_section t rest x with
                    | MOk (x1, rest1) => mloop true M k rest1 x1
                    | MErr e => MErr e | MFlt => MFlt | MFuel => MFuel
                    end
      end
    end.
  Proof. reflexivity. Qed.

  Lemma mrun_data l rest x t x1 : scan_line l = LTok t -> t_key t = [] -> line_in_section true M t x = MOk x1 ->
    mrun (l :: rest) x = mrun rest x1.
  Proof. intros SL K LS. unfold mrun. cbn [List.length]. rewrite mloop_S. cbn [mnext_line]. rewrite SL, K, LS. reflexivity. Qed.

  Lemma mrun_head l rest x t x1 rest1 : scan_line l = LTok t -> t_key t <> [] -> leqb (t_key t) (s2l "ENDATA") = false ->
    read_section t rest x = MOk (x1, rest1) -> mrun (l :: rest) x = mrun rest1 x1.
  Proof.
    intros SL K NE RS. unfold mrun. cbn [List.length]. rewrite mloop_S. cbn [mnext_line]. rewrite SL.
    destruct (t_key t) as [|a key] eqn:EK; [congruence|]. rewrite NE, RS.
    apply read_section_len in RS. apply mloop_fuel; lia.
  Qed.

  Lemma scan_endata : scan_line (s2l "ENDATA") = LTok (mk_tk [] (s2l "ENDATA") (s2l "ENDATA") [] 1).
  Proof. vm_compute. reflexivity. Qed.

  Lemma mrun_endata rest x : mrun (s2l "ENDATA" :: rest) x = MOk x.
  Proof. unfold mrun. cbn [List.length]. rewrite mloop_S. cbn [mnext_line]. rewrite scan_endata. reflexivity. Qed.

  (* a block of data lines *)
  Lemma mrun_lines {A} (ln : A -> line) (step : A -> xraw -> xraw) (Inv : list A -> xraw -> Prop) :
    (forall a rem x, Inv (a :: rem) x ->
       (exists t, scan_line (ln a) = LTok t /\ t_key t = [] /\ line_in_section true M t x = MOk (step a x)) /\ Inv rem (step a x)) ->
    forall items rest x, Inv items x ->
    mrun (map ln items ++ rest) x = mrun rest (fold_left (fun x a => step a x) items x) /\
    Inv [] (fold_left (fun x a => step a x) items x).
  Proof.
    intros STEP. induction items as [|a items IH]; intros rest x I0; [split; [reflexivity|exact I0]|].
    destruct (STEP a items x I0) as [(t & SL & K & LS) I1]. cbn [map app fold_left].
    rewrite (mrun_data _ _ _ _ _ SL K LS). apply IH, I1.
  Qed.

  (* ---- helpers on lists ---------------------------------------------------------------------------------------------- *)
  Lemma fold_left_map {A B C} (f : A -> B -> A) (g : C -> B) l : forall a, fold_left f (map g l) a = fold_left (fun a x => f a (g x)) l a.
  Proof. induction l; cbn; auto. Qed.

  Lemma leqb_sym a b : leqb a b = leqb b a.
  Proof. destruct (leqb_spec a b), (leqb_spec b a); congruence. Qed.

  Lemma mcut_app a b : mclean a -> mcut (a ++ b) = a ++ mcut b.
  Proof.
    unfold mclean. induction a as [|c a IH]; cbn [mcut forallb app]; intros H; [reflexivity|].
    apply andb_true_iff in H as [A B]. unfold mcleanc in A. apply negb_true_iff in A. rewrite A, (IH B). reflexivity.
  Qed.

  Lemma eow_mcut_blank p : eow (s2l "    " ++ p). Proof. reflexivity. Qed.

  (* ---- the header ------------------------------------------------------------------------------------------------------- *)
  Lemma scan_name_line pn : exists t, scan_line (s2l "NAME    " ++ pn) = LTok t /\ t_key t = s2l "NAME".
  Proof.
    unfold scan_line. change (s2l "NAME    " ++ pn) with ("N"%char :: (s2l "AME    " ++ pn)). cbv beta iota.
    change ("N"%char :: (s2l "AME    " ++ pn)) with (s2l "NAME    " ++ pn).
    rewrite (mcut_app (s2l "NAME    ") pn eq_refl).
    change (is_blank "N") with false. change (Ascii.eqb "N" "*" || Ascii.eqb "N" "010") with false. cbv beta iota.
    assert (SW : sword (s2l "NAME    " ++ mcut pn) = s2l "NAME").
    { change (s2l "NAME    " ++ mcut pn) with (@nil ascii ++ s2l "NAME" ++ (s2l "    " ++ mcut pn)).
      apply sword_word; [reflexivity|split; [discriminate|reflexivity]|reflexivity]. }
    rewrite SW. cbv beta iota. eexists. split; reflexivity.
  Qed.

  Definition x_header (nm : option name) (mx : bool) (on : name) : xraw :=
    {| x_name := nm; x_max := mx; x_obj := Some on; x_refrow := None; x_rows := []; x_cols := [];
       x_rhsname := None; x_rngname := None; x_bndname := None; x_nsos := 0;
       x_seen := [KRows; KObjname; KObjsense; KName]; x_active := ARows; x_intvar := false; x_sosvar := false |}.

  Lemma scan_objsense : scan_line (s2l "OBJSENSE") = LTok (mk_tk [] (s2l "OBJSENSE") (s2l "OBJSENSE") [] 1). Proof. vm_compute. reflexivity. Qed.
  Lemma scan_objname : scan_line (s2l "OBJNAME") = LTok (mk_tk [] (s2l "OBJNAME") (s2l "OBJNAME") [] 1). Proof. vm_compute. reflexivity. Qed.
  Lemma scan_rows : scan_line (s2l "ROWS") = LTok (mk_tk [] (s2l "ROWS") (s2l "ROWS") [] 1). Proof. vm_compute. reflexivity. Qed.
  Lemma scan_columns : scan_line (s2l "COLUMNS") = LTok (mk_tk [] (s2l "COLUMNS") (s2l "COLUMNS") [] 1). Proof. vm_compute. reflexivity. Qed.
  Lemma scan_rhs : scan_line (s2l "RHS") = LTok (mk_tk [] (s2l "RHS") (s2l "RHS") [] 1). Proof. vm_compute. reflexivity. Qed.
  Lemma scan_ranges : scan_line (s2l "RANGES") = LTok (mk_tk [] (s2l "RANGES") (s2l "RANGES") [] 1). Proof. vm_compute. reflexivity. Qed.
  Lemma scan_bounds : scan_line (s2l "BOUNDS") = LTok (mk_tk [] (s2l "BOUNDS") (s2l "BOUNDS") [] 1). Proof. vm_compute. reflexivity. Qed.
  Lemma scan_max : scan_line (s2l "  MAX") = LTok (mk_tk [] (s2l "  MAX") [] (s2l "MAX") 1). Proof. vm_compute. reflexivity. Qed.
  Lemma scan_min : scan_line (s2l "  MIN") = LTok (mk_tk [] (s2l "  MIN") [] (s2l "MIN") 1). Proof. vm_compute. reflexivity. Qed.

  Theorem header_read (pn : list ascii) (mx : bool) (on : name) (rest : list line) : word on ->
    exists nm, mrun ([s2l "NAME    " ++ pn; s2l "OBJSENSE"; (if mx then s2l "  MAX" else s2l "  MIN"); s2l "OBJNAME"; s2l "  " ++ on; s2l "ROWS"] ++ rest) xraw0
               = mrun rest (x_header nm mx on).
  Proof.
    intros WO. destruct (scan_name_line pn) as (t & SL & K). cbn [app].
    eexists.
    erewrite (mrun_head _ _ xraw0 t _ _ SL); [|rewrite K; discriminate|rewrite K; reflexivity|unfold read_section; rewrite K; reflexivity].
    erewrite (mrun_head _ _ _ _ _ _ scan_objsense); [|discriminate|reflexivity|].
    2:{ unfold read_section. cbn [t_key]. change (key_of (s2l "OBJSENSE")) with (Some KObjsense). cbv beta iota.
        cbn [seen x_seen set_head existsb skey_eqb orb order_ok negb].
        cbn [mnext_line]. destruct mx; [rewrite scan_max|rewrite scan_min]; reflexivity. }
    erewrite (mrun_head _ _ _ _ _ _ scan_objname); [|discriminate|reflexivity|].
    2:{ unfold read_section. cbn [t_key]. change (key_of (s2l "OBJNAME")) with (Some KObjname). cbv beta iota.
        cbn [seen x_seen set_head existsb skey_eqb orb order_ok negb].
        cbn [mnext_line].
        pose proof (scan_data_line (s2l "  ") on [] ltac:(discriminate) eq_refl WO I eq_refl) as SD. rewrite app_nil_r in SD. rewrite SD.
        cbn [t_key t_fld is_nil negb orb]. destruct on as [|c on']; [destruct WO; congruence|]. reflexivity. }
    erewrite (mrun_head _ _ _ _ _ _ scan_rows); [|discriminate|reflexivity|].
    2:{ unfold read_section. cbn [t_key]. change (key_of (s2l "ROWS")) with (Some KRows). reflexivity. }
    destruct mx; reflexivity.
  Qed.

  (* ---- states of the reader while it works through a written file --------------------------------------------------- *)
  Section Phases.
    Variable nm : option name.
    Variable mx : bool.
    Variable on : name.

    Record ast := { a_rows : list xrow; a_cols : list xcol; a_seen : list skey; a_act : msec;
                    a_rh : option (option name); a_rg : option (option name); a_bn : option (option name); a_iv : bool }.
    Definition mk (a : ast) : xraw :=
      {| x_name := nm; x_max := mx; x_obj := Some on; x_refrow := None; x_rows := a_rows a; x_cols := a_cols a;
         x_rhsname := a_rh a; x_rngname := a_rg a; x_bndname := a_bn a; x_nsos := 0; x_seen := a_seen a; x_active := a_act a;
         x_intvar := a_iv a; x_sosvar := false |}.
    Definition with_rows (a : ast) (r : list xrow) : ast :=
      {| a_rows := r; a_cols := a_cols a; a_seen := a_seen a; a_act := a_act a; a_rh := a_rh a; a_rg := a_rg a; a_bn := a_bn a; a_iv := a_iv a |}.
    Definition with_cols (a : ast) (c : list xcol) (iv : bool) : ast :=
      {| a_rows := a_rows a; a_cols := c; a_seen := a_seen a; a_act := a_act a; a_rh := a_rh a; a_rg := a_rg a; a_bn := a_bn a; a_iv := iv |}.
    Definition with_head (a : ast) (k : skey) (act : msec) : ast :=
      {| a_rows := a_rows a; a_cols := a_cols a; a_seen := k :: a_seen a; a_act := act; a_rh := a_rh a; a_rg := a_rg a; a_bn := a_bn a; a_iv := a_iv a |}.

    Lemma header_state : x_header nm mx on =
      mk {| a_rows := []; a_cols := []; a_seen := [KRows; KObjname; KObjsense; KName]; a_act := ARows; a_rh := None; a_rg := None; a_bn := None; a_iv := false |}.
    Proof. reflexivity. Qed.

    (* ---- ROWS ---------------------------------------------------------------------------------------------------------- *)
    Definition ksense (s : sense) : sense := match s with SR => SG | s0 => s0 end.
    Definition xrow_new (sr : sense * name) : xrow := new_row (snd sr) (Some (ksense (fst sr))).

    Lemma has_row_mk n a : has_row n (mk a) = existsb (fun r => leqb (xw_name r) n) (a_rows a).
    Proof. reflexivity. Qed.

    Theorem objrow_read a rest : word on -> a_act a = ARows -> a_rows a = [] ->
      mrun ((s2l " N  " ++ on) :: rest) (mk a) = mrun rest (mk (with_rows a [new_row on None])).
    Proof.
      intros WO ACT RW.
      destruct (row_record M "N" None on (mk a) eq_refl ltac:(split; [discriminate|reflexivity]) WO) as (t & SL & K & LS);
        [rewrite has_row_mk, RW; reflexivity|exact ACT|].
      rewrite (mrun_data _ _ _ _ _ SL K LS). cbn [mk set_rows x_rows]. rewrite RW. reflexivity.
    Qed.

    Theorem rows_read : forall (items : list (sense * name)) rest a, a_act a = ARows -> NoDup (map snd items) ->
      (forall sr, In sr items -> word (snd sr) /\ existsb (fun r => leqb (xw_name r) (snd sr)) (a_rows a) = false) ->
      mrun (map (fun sr : sense * name => sense_key (fst sr) ++ snd sr) items ++ rest) (mk a) = mrun rest (mk (with_rows a (a_rows a ++ map xrow_new items))).
    Proof.
      induction items as [|sr items IH]; intros rest a ACT ND H.
      - cbn [map app]. rewrite app_nil_r. destruct a; reflexivity.
      - cbn [map app]. inversion ND as [|? ? NI ND']; subst.
        destruct (H sr (or_introl eq_refl)) as [W NR].
        assert (EX : exists k, sense_key (fst sr) ++ snd sr = " "%char :: k :: s2l "  " ++ snd sr /\ sense_of_field [k] = Some (Some (ksense (fst sr))) /\ word [k]).
        { destruct (fst sr); eexists; (split; [reflexivity|split; [reflexivity|split; [discriminate|reflexivity]]]). }
        destruct EX as (k & EL & SF & WK). rewrite EL.
        destruct (row_record M k _ (snd sr) (mk a) SF WK W) as (t & SL & K & LS); [rewrite has_row_mk; exact NR|exact ACT|].
        rewrite (mrun_data _ _ _ _ _ SL K LS).
        change (set_rows (mk a) (x_rows (mk a) ++ [new_row (snd sr) (Some (ksense (fst sr)))])) with (mk (with_rows a (a_rows a ++ [xrow_new sr]))).
        rewrite IH; [|exact ACT|exact ND'|].
        + cbn [with_rows a_rows a_cols a_seen a_act a_rh a_rg a_bn a_iv]. rewrite <- app_assoc. reflexivity.
        + intros sr' IN. destruct (H sr' (or_intror IN)) as [W' NR']. split; [exact W'|].
          cbn [with_rows a_rows]. rewrite existsb_app, NR'. cbn [existsb xrow_new new_row xw_name orb].
          rewrite orb_false_r. destruct (leqb_spec (snd sr) (snd sr')) as [E|E]; [|reflexivity].
          exfalso. apply NI. rewrite E. now apply in_map.
    Qed.

    (* ---- a section header ------------------------------------------------------------------------------------------------ *)
    Lemma head_read (l : line) (kw : list ascii) (k : skey) (act : msec) a rest :
      scan_line l = LTok (mk_tk [] l kw [] 1) -> kw <> [] -> leqb kw (s2l "ENDATA") = false -> key_of kw = Some k ->
      existsb (skey_eqb k) (a_seen a) = false -> order_ok k (mk a) = true ->
      match k with KCols => act = ACols | KRhs => act = ARhs | KRanges => act = ARanges | KBounds => act = ABounds | _ => False end ->
      mrun (l :: rest) (mk a) = mrun rest (mk (with_head a k act)).
    Proof.
      intros SL NE NEND KO NS OK KA.
      erewrite (mrun_head _ _ _ _ _ _ SL); [reflexivity|exact NE|exact NEND|].
      unfold read_section. cbn [t_key]. rewrite KO. unfold seen. cbn [mk x_seen]. rewrite NS, OK. cbn [negb].
      destruct k; try contradiction; subst act; reflexivity.
    Qed.

    (* ---- COLUMNS -------------------------------------------------------------------------------------------------------------- *)
    Definition citem_step (it : citem) (x : xraw) : xraw :=
      match it with CMark _ org => mark_effect org x | CEnt c r v => ent_effect c r v x end.
    Definition citem_ok (R : list xrow) (it : citem) : Prop :=
      match it with
      | CMark _ _ => True
      | CEnt c r v => word c /\ word r /\ has_marker c = false /\ has_marker r = false /\ existsb (fun w => leqb (xw_name w) r) R = true
      end.

    Theorem columns_lines items rest x : x_active x = ACols -> x_sosvar x = false -> Forall (citem_ok (x_rows x)) items ->
      mrun (map citem_line items ++ rest) x = mrun rest (fold_left (fun x a => citem_step a x) items x).
    Proof.
      intros ACT SOS OK.
      apply (mrun_lines citem_line citem_step (fun rem y => x_active y = ACols /\ x_sosvar y = false /\ x_rows y = x_rows x /\ Forall (citem_ok (x_rows x)) rem)).
      - intros it rem y (A & S0 & R & F). inversion F as [|? ? OKa F']; subst. destruct it as [i org|c r v].
        + split; [apply (mark_record M i org y A)|]. repeat split; try assumption.
        + destruct OKa as (WC & WR & HC & HR & ROW). split.
          * apply (ent_record M c r v y WC WR HC HR); [unfold has_row; rewrite R; exact ROW|exact A|exact S0].
          * repeat split; assumption.
      - repeat split; assumption.
    Qed.

    Definition col_es (c : mcol) : list (name * Q) := (if Qeq_bool (mc_obj c) 0 then [] else [(on, mc_obj c)]) ++ mc_ent c.
    Definition rd_ents (es : list (name * Q)) : list (name * Q) := map (fun e => (fst e, rr (snd e))) es.
    Definition xcol0 (c : mcol) : xcol :=
      {| xc_name := mc_name c; xc_int := mc_int c; xc_sos := None; xc_ent := rev (rd_ents (col_es c)); xc_bnd := bst0 |}.

    Lemma upd_col_last cn f pre col : (forall c, In c pre -> leqb (xc_name c) cn = false) -> leqb (xc_name col) cn = true ->
      upd_col cn f (pre ++ [col]) = pre ++ [f col].
    Proof.
      intros P C. unfold upd_col. rewrite map_app. cbn [map]. rewrite C. f_equal.
      rewrite <- (map_id pre) at 2. apply map_ext_in. intros c IN. now rewrite (P c IN).
    Qed.

    Lemma ents_existing cn : forall es a pre col, a_cols a = pre ++ [col] -> xc_name col = cn ->
      (forall c, In c pre -> leqb (xc_name c) cn = false) -> (a_iv a = true -> xc_int col = true) ->
      fold_left (fun x e => ent_effect cn (fst e) (snd e) x) es (mk a) =
      mk (with_cols a (pre ++ [{| xc_name := cn; xc_int := xc_int col; xc_sos := xc_sos col; xc_ent := rev (rd_ents es) ++ xc_ent col; xc_bnd := xc_bnd col |}]) (a_iv a)).
    Proof.
      induction es as [|e es IH]; intros a pre col EC EN P IV.
      - cbn [fold_left rd_ents map rev app]. destruct a, col; cbn in *; subst; reflexivity.
      - cbn [fold_left].
        assert (HC : has_col cn (mk a) = true).
        { unfold has_col. cbn [mk x_cols]. rewrite EC, existsb_app. cbn [existsb]. rewrite EN, leqb_refl. now rewrite orb_true_r. }
        assert (LC : leqb (xc_name col) cn = true) by (rewrite EN; apply leqb_refl).
        set (col1 := {| xc_name := xc_name col; xc_int := xc_int col; xc_sos := xc_sos col; xc_ent := (fst e, rr (snd e)) :: xc_ent col; xc_bnd := xc_bnd col |}).
        assert (ST : ent_effect cn (fst e) (snd e) (mk a) = mk (with_cols a (pre ++ [col1]) (a_iv a))).
        { unfold ent_effect, ensure_col. rewrite HC. cbn [mk x_intvar x_cols]. destruct (a_iv a) eqn:EI.
          - rewrite EC, (upd_col_last cn _ pre col P LC). unfold add_ent. cbn [set_cols x_cols].
            rewrite (upd_col_last cn _ pre _ P); [|exact LC]. cbn [xc_name xc_int xc_sos xc_ent xc_bnd]. unfold col1. rewrite (IV eq_refl).
            unfold mk, with_cols, set_cols. cbn. rewrite EI. reflexivity.
          - unfold add_ent. cbn [set_cols x_cols]. rewrite EC, (upd_col_last cn _ pre col P LC).
            unfold mk, with_cols, set_cols. cbn. rewrite EI. reflexivity. }
        rewrite ST.
        rewrite (IH (with_cols a (pre ++ [col1]) (a_iv a)) pre col1); [|reflexivity|exact EN|exact P|exact IV].
        cbn [with_cols a_rows a_cols a_seen a_act a_rh a_rg a_bn a_iv col1 xc_name xc_int xc_sos xc_ent xc_bnd].
        cbn [rd_ents map rev]. rewrite <- app_assoc. cbn [app]. reflexivity.
    Qed.

    Lemma ents_new cn e es a : existsb (fun c => leqb (xc_name c) cn) (a_cols a) = false ->
      fold_left (fun x e => ent_effect cn (fst e) (snd e) x) (e :: es) (mk a) =
      mk (with_cols a (a_cols a ++ [{| xc_name := cn; xc_int := a_iv a; xc_sos := None; xc_ent := rev (rd_ents (e :: es)); xc_bnd := bst0 |}]) (a_iv a)).
    Proof.
      intros NC. cbn [fold_left].
      assert (P : forall c, In c (a_cols a) -> leqb (xc_name c) cn = false).
      { intros c IN. destruct (leqb (xc_name c) cn) eqn:E; [|reflexivity]. assert (existsb (fun c0 => leqb (xc_name c0) cn) (a_cols a) = true); [|congruence].
        apply existsb_exists. eauto. }
      set (col1 := {| xc_name := cn; xc_int := a_iv a; xc_sos := None; xc_ent := [(fst e, rr (snd e))]; xc_bnd := bst0 |}).
      assert (ST : ent_effect cn (fst e) (snd e) (mk a) = mk (with_cols a (a_cols a ++ [col1]) (a_iv a))).
      { unfold ent_effect, ensure_col, has_col. cbn [mk x_cols x_intvar]. rewrite NC. unfold add_ent. cbn [set_cols x_cols].
        rewrite (upd_col_last cn _ (a_cols a) _ P); [|cbn [xc_name]; apply leqb_refl]. reflexivity. }
      rewrite ST.
      rewrite (ents_existing cn es (with_cols a (a_cols a ++ [col1]) (a_iv a)) (a_cols a) col1 eq_refl eq_refl P); [|intros H; cbn in H; cbn; exact H].
      cbn [with_cols a_rows a_cols a_seen a_act a_rh a_rg a_bn a_iv col1 xc_name xc_int xc_sos xc_ent xc_bnd].
      cbn [rd_ents map rev]. reflexivity.
    Qed.

    Lemma mark_mk org a : mark_effect org (mk a) = mk (with_cols a (a_cols a) org).
    Proof. reflexivity. Qed.

    Lemma cols_fold hasint : forall cols ri mode a, a_iv a = mode ->
      (hasint = true \/ (mode = false /\ forallb (fun c => negb (mc_int c)) cols = true)) ->
      forallb col_nonempty cols = true -> NoDup (map mc_name cols) ->
      (forall c, In c cols -> existsb (fun c0 => leqb (xc_name c0) (mc_name c)) (a_cols a) = false) ->
      fold_left (fun x it => citem_step it x) (col_items hasint on cols ri mode) (mk a) = mk (with_cols a (a_cols a ++ map xcol0 cols) false).
    Proof.
      induction cols as [|c cols IH]; intros ri mode a IV HI NE ND FR.
      - cbn [col_items map]. rewrite app_nil_r. destruct mode; cbn [fold_left citem_step].
        + rewrite mark_mk. reflexivity.
        + destruct a; cbn in *; subst; reflexivity.
      - cbn [forallb] in NE. apply andb_true_iff in NE as [NEc NE]. inversion ND as [|? ? NI ND']; subst.
        cbn [col_items]. set (flip := hasint && negb (Bool.eqb (mc_int c) (a_iv a))). set (mode' := if flip then mc_int c else a_iv a).
        assert (MI : mode' = mc_int c).
        { unfold mode', flip. destruct HI as [->|[E ALL]].
          - cbn [andb]. destruct (mc_int c), (a_iv a); reflexivity.
          - cbn [forallb] in ALL. apply andb_true_iff in ALL as [A _]. apply negb_true_iff in A. rewrite A, E. destruct hasint; reflexivity. }
        assert (EI : (if Qeq_bool (mc_obj c) 0 then [] else [CEnt (mc_name c) on (mc_obj c)]) ++ map (fun e => CEnt (mc_name c) (fst e) (snd e)) (mc_ent c)
                     = map (fun e => CEnt (mc_name c) (fst e) (snd e)) (col_es c)).
        { unfold col_es. rewrite map_app. destruct (Qeq_bool (mc_obj c) 0); reflexivity. }
        rewrite (app_assoc _ (map (fun e => CEnt (mc_name c) (fst e) (snd e)) (mc_ent c)) _), EI.
        rewrite !fold_left_app.
        assert (S1 : fold_left (fun x it => citem_step it x) (if flip then [CMark ri (mc_int c)] else []) (mk a) = mk (with_cols a (a_cols a) mode')).
        { unfold mode'. destruct flip; cbn [fold_left citem_step]; [apply mark_mk|]. destruct a; reflexivity. }
        rewrite S1.
        rewrite fold_left_map. cbn [citem_step].
        assert (NEes : col_es c <> []).
        { unfold col_es, col_nonempty in *. destruct (Qeq_bool (mc_obj c) 0); cbn in *; [destruct (mc_ent c); [discriminate|discriminate]|discriminate]. }
        destruct (col_es c) as [|e es] eqn:ES; [congruence|].
        rewrite (ents_new (mc_name c) e es (with_cols a (a_cols a) mode')); [|cbn [with_cols a_cols]; apply FR; now left].
        cbn [with_cols a_rows a_cols a_seen a_act a_rh a_rg a_bn a_iv].
        rewrite (IH (S ri) mode'); [| reflexivity | | exact NE | exact ND' | ].
        + cbn [with_cols a_rows a_cols a_seen a_act a_rh a_rg a_bn a_iv]. rewrite <- app_assoc. cbn [app map]. unfold xcol0 at 2. rewrite ES, MI. reflexivity.
        + destruct HI as [->|[E ALL]]; [now left|right]. cbn [forallb] in ALL. apply andb_true_iff in ALL as [A B].
          split; [|exact B]. rewrite MI. now apply negb_true_iff in A.
        + intros c0 IN. cbn [with_cols a_cols]. rewrite existsb_app, (FR c0 (or_intror IN)). cbn [existsb xc_name orb]. rewrite orb_false_r.
          destruct (leqb_spec (mc_name c) (mc_name c0)) as [E|E]; [|reflexivity]. exfalso. apply NI. rewrite E. now apply in_map.
    Qed.

    (* ---- RHS and RANGES ------------------------------------------------------------------------------------------------------ *)
    Definition with_rh (a : ast) (rh : option (option name)) : ast :=
      {| a_rows := a_rows a; a_cols := a_cols a; a_seen := a_seen a; a_act := a_act a; a_rh := rh; a_rg := a_rg a; a_bn := a_bn a; a_iv := a_iv a |}.
    Definition with_rg (a : ast) (rg : option (option name)) : ast :=
      {| a_rows := a_rows a; a_cols := a_cols a; a_seen := a_seen a; a_act := a_act a; a_rh := a_rh a; a_rg := rg; a_bn := a_bn a; a_iv := a_iv a |}.
    Definition with_bn (a : ast) (bn : option (option name)) : ast :=
      {| a_rows := a_rows a; a_cols := a_cols a; a_seen := a_seen a; a_act := a_act a; a_rh := a_rh a; a_rg := a_rg a; a_bn := bn; a_iv := a_iv a |}.

    Definition rows_upd (F : Q -> xrow -> xrow) (es : list (name * Q)) (rows : list xrow) : list xrow :=
      map (fun r => match lookupQ (xw_name r) es with Some v => F v r | None => r end) rows.

    Lemma find_upd_other n n' f rows : (forall r, xw_name (f r) = xw_name r) -> leqb n n' = false ->
      find (fun r => leqb (xw_name r) n') (upd_row n f rows) = find (fun r => leqb (xw_name r) n') rows.
    Proof.
      intros NP NE. induction rows as [|r rows IH]; [reflexivity|]. cbn [upd_row map find]. fold (upd_row n f rows).
      destruct (leqb_spec (xw_name r) n) as [E|E].
      - rewrite NP, E, NE. exact IH.
      - destruct (leqb (xw_name r) n'); [reflexivity|exact IH].
    Qed.

    Lemma exists_upd n f nm0 rows : (forall r, xw_name (f r) = xw_name r) ->
      existsb (fun r => leqb (xw_name r) nm0) (upd_row n f rows) = existsb (fun r => leqb (xw_name r) nm0) rows.
    Proof.
      intros NP. induction rows as [|r rows IH]; [reflexivity|]. cbn [upd_row map existsb]. fold (upd_row n f rows).
      destruct (leqb (xw_name r) n); [rewrite NP|]; now rewrite IH.
    Qed.

    Lemma lookupQ_notin k es : ~ In k (map fst es) -> lookupQ k es = None.
    Proof.
      induction es as [|[n v] es IH]; cbn [map fst In lookupQ]; intros H; [reflexivity|].
      destruct (leqb_spec n k) as [E|E]; [exfalso; apply H; now left|]. apply IH. tauto.
    Qed.

    Lemma rows_upd_cons F e es rows : (forall v r, xw_name (F v r) = xw_name r) -> ~ In (fst e) (map fst es) ->
      rows_upd F es (upd_row (fst e) (F (snd e)) rows) = rows_upd F (e :: es) rows.
    Proof.
      intros NP NI. unfold rows_upd, upd_row. rewrite map_map. apply map_ext. intros r. destruct e as [n v]. cbn [fst snd lookupQ].
      rewrite (leqb_sym n (xw_name r)). destruct (leqb_spec (xw_name r) n) as [E|E]; [|reflexivity].
      rewrite NP, E, (lookupQ_notin n es NI). reflexivity.
    Qed.

    Lemma rows_upd_nil F rows : rows_upd F [] rows = rows.
    Proof. unfold rows_upd. cbn [lookupQ]. apply map_id. Qed.

    Definition rhs_ok (sn : name) (rows : list xrow) (e : name * Q) : Prop :=
      word (fst e) /\
      (exists row, find (fun r => leqb (xw_name r) (fst e)) rows = Some row /\ xw_rhsind row = false /\ xw_sense row <> None) /\
      (existsb (fun r => leqb (xw_name r) sn) rows = true -> numlike (fst e) = false).

    Theorem rhs_read sn : word sn -> forall es rest a, a_act a = ARhs -> (a_rh a = None \/ a_rh a = Some (Some sn)) -> NoDup (map fst es) ->
      (forall e, In e es -> rhs_ok sn (a_rows a) e) ->
      exists rh, mrun (map (fun e => set_line sn (fst e) (snd e)) es ++ rest) (mk a)
                 = mrun rest (mk (with_rh (with_rows a (rows_upd (fun v => set_rhs_row (rr v)) es (a_rows a))) rh)).
    Proof.
      intros WS. induction es as [|e es IH]; intros rest a ACT RH ND OK.
      - exists (a_rh a). cbn [map app]. rewrite rows_upd_nil. destruct a; reflexivity.
      - cbn [map app]. inversion ND as [|? ? NI ND']; subst.
        destruct (OK e (or_introl eq_refl)) as (W & (row & FR & RI & NS) & NL).
        destruct (rhs_record M sn (fst e) (snd e) (mk a) row WS W ACT RH FR RI NS NL) as (t & SL & K & LS).
        rewrite (mrun_data _ _ _ _ _ SL K LS).
        change (rhs_effect sn (fst e) (snd e) (mk a)) with (mk (with_rh (with_rows a (upd_row (fst e) (set_rhs_row (rr (snd e))) (a_rows a))) (Some (Some sn)))).
        destruct (IH rest (with_rh (with_rows a (upd_row (fst e) (set_rhs_row (rr (snd e))) (a_rows a))) (Some (Some sn))) ACT (or_intror eq_refl) ND') as (rh & R).
        + intros e' IN. destruct (OK e' (or_intror IN)) as (W' & (row' & FR' & RI' & NS') & NL'). cbn [with_rh with_rows a_rows].
          assert (NE : leqb (fst e) (fst e') = false).
          { destruct (leqb_spec (fst e) (fst e')) as [E|E]; [|reflexivity]. exfalso. apply NI. rewrite E. now apply in_map. }
          split; [exact W'|]. split.
          * exists row'. rewrite (find_upd_other (fst e) (fst e') (set_rhs_row (rr (snd e))) (a_rows a) (fun _ => eq_refl) NE). auto.
          * rewrite (exists_upd (fst e) (set_rhs_row (rr (snd e))) sn (a_rows a) (fun _ => eq_refl)). exact NL'.
        + exists rh. rewrite R. cbn [with_rh with_rows a_rows a_cols a_seen a_act a_rh a_rg a_bn a_iv].
          rewrite (rows_upd_cons (fun v => set_rhs_row (rr v)) e es (a_rows a) ltac:(intros; reflexivity) NI). reflexivity.
    Qed.

    Definition rng_ok (sn : name) (rows : list xrow) (e : name * Q) : Prop :=
      word (fst e) /\
      (exists row, find (fun r => leqb (xw_name r) (fst e)) rows = Some row /\ xw_rng row = None /\ xw_sense row <> None) /\
      (existsb (fun r => leqb (xw_name r) sn) rows = true -> numlike (fst e) = false).

    Theorem ranges_read sn : word sn -> forall es rest a, a_act a = ARanges -> (a_rg a = None \/ a_rg a = Some (Some sn)) -> NoDup (map fst es) ->
      (forall e, In e es -> rng_ok sn (a_rows a) e) ->
      exists rg, mrun (map (fun e => set_line sn (fst e) (snd e)) es ++ rest) (mk a)
                 = mrun rest (mk (with_rg (with_rows a (rows_upd (fun v => set_rng_row (rr v)) es (a_rows a))) rg)).
    Proof.
      intros WS. induction es as [|e es IH]; intros rest a ACT RH ND OK.
      - exists (a_rg a). cbn [map app]. rewrite rows_upd_nil. destruct a; reflexivity.
      - cbn [map app]. inversion ND as [|? ? NI ND']; subst.
        destruct (OK e (or_introl eq_refl)) as (W & (row & FR & RI & NS) & NL).
        destruct (rng_record M sn (fst e) (snd e) (mk a) row WS W ACT RH FR RI NS NL) as (t & SL & K & LS).
        rewrite (mrun_data _ _ _ _ _ SL K LS).
        change (rng_effect sn (fst e) (snd e) (mk a)) with (mk (with_rg (with_rows a (upd_row (fst e) (set_rng_row (rr (snd e))) (a_rows a))) (Some (Some sn)))).
        destruct (IH rest (with_rg (with_rows a (upd_row (fst e) (set_rng_row (rr (snd e))) (a_rows a))) (Some (Some sn))) ACT (or_intror eq_refl) ND') as (rg & R).
        + intros e' IN. destruct (OK e' (or_intror IN)) as (W' & (row' & FR' & RI' & NS') & NL'). cbn [with_rg with_rows a_rows].
          assert (NE : leqb (fst e) (fst e') = false).
          { destruct (leqb_spec (fst e) (fst e')) as [E|E]; [|reflexivity]. exfalso. apply NI. rewrite E. now apply in_map. }
          split; [exact W'|]. split.
          * exists row'. rewrite (find_upd_other (fst e) (fst e') (set_rng_row (rr (snd e))) (a_rows a) (fun _ => eq_refl) NE). auto.
          * rewrite (exists_upd (fst e) (set_rng_row (rr (snd e))) sn (a_rows a) (fun _ => eq_refl)). exact NL'.
        + exists rg. rewrite R. cbn [with_rg with_rows a_rows a_cols a_seen a_act a_rh a_rg a_bn a_iv].
          rewrite (rows_upd_cons (fun v => set_rng_row (rr v)) e es (a_rows a) ltac:(intros; reflexivity) NI). reflexivity.
    Qed.

    (* ---- BOUNDS ------------------------------------------------------------------------------------------------------------------ *)
    Definition cols_bnd (items : list (mrec * name)) (cols : list xcol) : list xcol :=
      map (fun c => fold_left (fun c it => if leqb (snd it) (xc_name c) then bnd_col M (fst it) c else c) items c) cols.

    Lemma bnd_col_name r c : xc_name (bnd_col M r c) = xc_name c.
    Proof. unfold bnd_col. destruct (set_bound M (rec_type r) (rec_val r) (xc_bnd c) (xc_int c)). reflexivity. Qed.

    Lemma exists_updc n f nm0 cols : (forall c, xc_name (f c) = xc_name c) ->
      existsb (fun c => leqb (xc_name c) nm0) (upd_col n f cols) = existsb (fun c => leqb (xc_name c) nm0) cols.
    Proof.
      intros NP. induction cols as [|c cols IH]; [reflexivity|]. cbn [upd_col map existsb]. fold (upd_col n f cols).
      destruct (leqb (xc_name c) n); [rewrite NP|]; now rewrite IH.
    Qed.

    Definition bnd_ok (bn : name) (cols : list xcol) (it : mrec * name) : Prop :=
      word (snd it) /\ no_dollar (snd it) /\ existsb (fun c => leqb (xc_name c) (snd it)) cols = true /\
      (existsb (fun c => leqb (xc_name c) bn) cols = true -> numlike (snd it) = false).

    Theorem bounds_read bn : word bn -> forall items rest a, a_act a = ABounds -> (a_bn a = None \/ a_bn a = Some (Some bn)) ->
      (forall it, In it items -> bnd_ok bn (a_cols a) it) ->
      exists bn', mrun (map (mrec_line_gen bn) items ++ rest) (mk a) = mrun rest (mk (with_bn (with_cols a (cols_bnd items (a_cols a)) (a_iv a)) bn')).
    Proof.
      intros WB. induction items as [|[r cn] items IH]; intros rest a ACT BN OK.
      - exists (a_bn a). cbn [map app]. unfold cols_bnd. cbn [fold_left]. rewrite map_id. destruct a; reflexivity.
      - cbn [map app]. destruct (OK (r, cn) (or_introl eq_refl)) as (W & ND & HC & NL). cbn [snd] in *.
        destruct (bnd_record M bn r cn (mk a) WB W ND ACT BN HC NL) as (t & SL & K & LS).
        rewrite (mrun_data _ _ _ _ _ SL K LS).
        change (bnd_effect M bn r cn (mk a)) with (mk (with_bn (with_cols a (upd_col cn (bnd_col M r) (a_cols a)) (a_iv a)) (Some (Some bn)))).
        destruct (IH rest (with_bn (with_cols a (upd_col cn (bnd_col M r) (a_cols a)) (a_iv a)) (Some (Some bn))) ACT (or_intror eq_refl)) as (bn' & R).
        + intros it IN. destruct (OK it (or_intror IN)) as (W' & ND' & HC' & NL'). cbn [with_bn with_cols a_cols].
          split; [exact W'|]. split; [exact ND'|]. rewrite !(exists_updc _ _ _ _ (bnd_col_name r)). split; assumption.
        + assert (EC : cols_bnd items (upd_col cn (bnd_col M r) (a_cols a)) = cols_bnd ((r, cn) :: items) (a_cols a)).
          { unfold cols_bnd, upd_col. rewrite map_map. apply map_ext. intros c. cbn [fold_left fst snd]. rewrite (leqb_sym cn (xc_name c)). reflexivity. }
          exists bn'. rewrite R. cbn [with_bn with_cols a_cols]. rewrite EC. reflexivity.
    Qed.
  End Phases.
End S.
