(* IO/MpsEquiv.v -- column-wise problems that agree column by column and (used) row by row, every number equal as a
   rational, are equiv_by_name (the executable oracle of C08/C09/C10) after the conversion mlp_to_nlp. *)
From Coq Require Import QArith List Ascii String Bool Arith NArith Lia Lqa.
From QSX Require Import Base.QSum LP.User IO.Num IO.Bounds IO.Ranges IO.Lex IO.Equiv IO.LpWrite IO.LpRead IO.LpTok IO.LpFinish
  IO.MpsWrite IO.MpsRead.
Import ListNotations.
Local Open Scope Q_scope.

Definition ent_rel (e e' : list (name * Q)) : Prop := Forall2 (fun a b => fst a = fst b /\ snd a == snd b) e e'.
Definition col_rel (c c' : mcol) : Prop :=
  mc_name c = mc_name c' /\ mc_obj c == mc_obj c' /\ mc_lo c == mc_lo c' /\ mc_up c == mc_up c' /\ mc_int c = mc_int c' /\
  ent_rel (mc_ent c) (mc_ent c').

Lemma coefN_cons p e nm : coefN (p :: e) nm = (if N.eqb (fst p) nm then snd p else 0) + coefN e nm.
Proof. reflexivity. Qed.

Lemma col_ent_rel (k : N) rn e e' : ent_rel e e' -> forall nm,
  coefN (flat_map (fun x : name * Q => if leqb (fst x) rn then [(k, snd x)] else []) e) nm ==
  coefN (flat_map (fun x : name * Q => if leqb (fst x) rn then [(k, snd x)] else []) e') nm.
Proof.
  induction 1 as [|a b e e' [E1 E2] _ IHe]; intros nm; [reflexivity|]. cbn [flat_map]. rewrite !coefN_app, IHe, E1.
  destruct (leqb (fst b) rn); [|reflexivity]. cbn [coefN fold_right fst snd]. destruct (N.eqb k nm); lra.
Qed.

Lemma mrow_ent_rel rn : forall cols cols', Forall2 col_rel cols cols' -> forall nm, coefN (mrow_ent cols rn) nm == coefN (mrow_ent cols' rn) nm.
Proof.
  induction 1 as [|c c' cols cols' CR _ IH]; intros nm; [reflexivity|].
  unfold mrow_ent in *. cbn [flat_map]. rewrite !coefN_app, IH.
  destruct CR as (EN & _ & _ & _ & _ & ER). rewrite EN.
  rewrite (col_ent_rel (N_of_name (mc_name c')) rn _ _ ER nm). reflexivity.
Qed.

Lemma ent_eqb_coef e e' : (forall nm, coefN e nm == coefN e' nm) -> ent_eqb e e' = true.
Proof. intros H. unfold ent_eqb. apply forallb_forall. intros nm _. apply Qeq_bool_iff, H. Qed.

Lemma sense_eqb_refl s : sense_eqb s s = true.
Proof. destruct s; reflexivity. Qed.

Lemma unused_row_empty cols r : row_used cols r = false -> mrow_ent cols (mr_name r) = [].
Proof.
  unfold row_used, mrow_ent. induction cols as [|c cols IH]; cbn [existsb flat_map]; intros H; [reflexivity|].
  apply orb_false_iff in H as [A B]. rewrite (IH B), app_nil_r.
  induction (mc_ent c) as [|e l IHl]; [reflexivity|]. cbn [existsb flat_map] in *. apply orb_false_iff in A as [A1 A2].
  rewrite A1. cbn [app]. apply IHl, A2.
Qed.

Definition to_nrow_m (cols : list mcol) (r : mrow) : nrow :=
  {| nr_name := N_of_name (mr_name r); nr_sense := mr_sense r; nr_rhs := mr_rhs r; nr_range := mr_range r; nr_ent := mrow_ent cols (mr_name r) |}.
Definition to_ncol_m (c : mcol) : ncol :=
  {| nc_name := N_of_name (mc_name c); nc_obj := mc_obj c; nc_lo := mc_lo c; nc_up := mc_up c; nc_int := mc_int c |}.

Lemma rows_match_rel cols cols' : Forall2 col_rel cols cols' ->
  forall rows rows', Forall2 row_same_q (filter (row_used cols) rows) rows' ->
  rows_match (map (to_nrow_m cols) rows) (map (to_nrow_m cols') rows') = true.
Proof.
  intros CR. induction rows as [|r rows IH]; intros rows' F.
  - cbn [filter] in F. inversion F; subst. reflexivity.
  - cbn [filter] in F. cbn [map rows_match]. destruct (row_used cols r) eqn:U.
    + inversion F as [|? r' ? t' RS F']; subst. cbn [map]. apply orb_true_iff. right. apply orb_true_iff. left.
      rewrite (IH t' F'), andb_true_r. destruct RS as (EN & ES & ER & EG).
      unfold row_same, to_nrow_m. cbn [nr_name nr_sense nr_rhs nr_range nr_ent].
      rewrite EN, N.eqb_refl, ES, sense_eqb_refl. cbn [andb].
      rewrite (proj2 (Qeq_bool_iff _ _) ER). cbn [andb].
      rewrite (ent_eqb_coef _ _ (mrow_ent_rel (mr_name r') cols cols' CR)), andb_true_r.
      destruct (mr_sense r') eqn:S'; try reflexivity. rewrite ES in EG. apply Qeq_bool_iff, EG. reflexivity.
    + apply orb_true_iff. left. rewrite (IH rows' F), andb_true_r.
      unfold row_empty, to_nrow_m. cbn [nr_ent]. rewrite (unused_row_empty cols r U). reflexivity.
Qed.

Lemma Forall2_names cols cols' : Forall2 col_rel cols cols' -> map mc_name cols = map mc_name cols'.
Proof. induction 1 as [|c c' l l' CR _ IH]; [reflexivity|]. cbn [map]. destruct CR as (E & _). now rewrite E, IH. Qed.

Lemma col_same_rel c c' : col_rel c c' -> col_same (to_ncol_m c) (to_ncol_m c') = true.
Proof.
  intros (EN & EO & EL & EU & EI & _). unfold col_same, to_ncol_m. cbn [nc_name nc_obj nc_lo nc_up nc_int].
  rewrite EN, N.eqb_refl, EI, eqb_reflx. rewrite (proj2 (Qeq_bool_iff _ _) EO), (proj2 (Qeq_bool_iff _ _) EL), (proj2 (Qeq_bool_iff _ _) EU). reflexivity.
Qed.

Lemma cols_match_rel cols cols' : NoDup (map mc_name cols) -> Forall2 col_rel cols cols' ->
  cols_match (map to_ncol_m cols) (map to_ncol_m cols') = true.
Proof.
  intros ND F. unfold cols_match. rewrite !map_map. cbn [to_ncol_m nc_name].
  rewrite <- !(map_map mc_name N_of_name), <- (Forall2_names _ _ F), (nodupb_names _ ND). cbn [andb].
  apply andb_true_iff. split.
  - apply forallb_forall. intros x IN. apply in_map_iff in IN as (c & <- & IN).
    clear ND. induction F as [|a b l l' R F IH]; [destruct IN|]. cbn [map existsb]. destruct IN as [<-|IN].
    + now rewrite (col_same_rel _ _ R).
    + rewrite (IH IN). apply orb_true_r.
  - apply forallb_forall. intros x IN. apply in_map_iff in IN as (c' & <- & IN).
    clear ND. induction F as [|a b l l' R F IH]; [destruct IN|]. cbn [map existsb]. destruct IN as [<-|IN].
    + now rewrite (col_same_rel _ _ R).
    + rewrite (IH IN). apply orb_true_r.
Qed.

Theorem rel_equiv P P' : m_max P = m_max P' -> NoDup (map mc_name (m_cols P)) -> Forall2 col_rel (m_cols P) (m_cols P') ->
  Forall2 row_same_q (filter (row_used (m_cols P)) (m_rows P)) (m_rows P') ->
  equiv_by_name (mlp_to_nlp P) (mlp_to_nlp P') = true.
Proof.
  intros EM ND FC FR. unfold equiv_by_name, mlp_to_nlp. cbn [n_max n_cols n_rows]. rewrite EM, eqb_reflx. cbn [andb].
  change (map (fun c => {| nc_name := N_of_name (mc_name c); nc_obj := mc_obj c; nc_lo := mc_lo c; nc_up := mc_up c; nc_int := mc_int c |}) (m_cols P))
    with (map to_ncol_m (m_cols P)).
  change (map (fun c => {| nc_name := N_of_name (mc_name c); nc_obj := mc_obj c; nc_lo := mc_lo c; nc_up := mc_up c; nc_int := mc_int c |}) (m_cols P'))
    with (map to_ncol_m (m_cols P')).
  rewrite (cols_match_rel _ _ ND FC). cbn [andb].
  apply (rows_match_rel _ _ FC _ _ FR).
Qed.
