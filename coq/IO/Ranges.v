(* IO/Ranges.v -- RANGES of the MPS format: how transferRanges (rawlp.c:1271-1338) stores a ranged
   row (rhs' <= row <= rhs' + range', range' >= 0), the documented interval semantics, and how the
   MPS writer (mps.c:1235-1247) spells an internal R row. *)
From QSX Require Import Base.QSum.
Local Open Scope Q_scope.

Inductive msense := ML | MG | ME.

(* (rhs', range') after transferRanges for a row of sense s with right-hand side rhs and RANGES value r *)
Definition transfer (s : msense) (rhs r : Q) : Q * Q :=
  match s with
  | MG => (rhs, Qabs r)
  | ML => (rhs - Qabs r, Qabs r)
  | ME => if Qltb r 0 then (rhs + r, - r) else (rhs, r)
  end.

(* the interval the MPS format assigns (comment block in rawlp.c and every MPS description) *)
Definition mps_interval (s : msense) (rhs r : Q) : Q * Q :=
  match s with
  | MG => (rhs, rhs + Qabs r)
  | ML => (rhs - Qabs r, rhs)
  | ME => if Qltb r 0 then (rhs + r, rhs) else (rhs, rhs + r)
  end.

Theorem ranges_semantics s rhs r :
  let t := transfer s rhs r in let i := mps_interval s rhs r in
  fst t == fst i /\ fst t + snd t == snd i /\ 0 <= snd t.
Proof.
  destruct s; simpl.
  - repeat split; try ring. apply Qabs_nonneg.
  - repeat split; try ring. apply Qabs_nonneg.
  - destruct (Qltb r 0) eqn:E; simpl; repeat split; try ring.
    + apply Qltb_lt in E. lra.
    + apply Qltb_false in E. exact E.
Qed.

(* the writer spells an internal R row (rhs, g) as a G row with RANGES entry g -- when g <> 0 *)
Definition write_range (g : Q) : option Q := if Qeq_bool g 0 then None else Some g.

Theorem write_then_transfer_id rhs g r :
  0 <= g -> write_range g = Some r ->
  fst (transfer MG rhs r) == rhs /\ snd (transfer MG rhs r) == g.
Proof.
  unfold write_range. destruct (Qeq_bool g 0); [discriminate|]. intros G E. inversion E; subst r. simpl.
  split; [reflexivity|]. apply Qabs_pos. exact G.
Qed.

(* a G row without RANGES entry is what an R row with range 0 comes back as: not the same constraint *)
Theorem zero_range_lost_refuted rhs :
  write_range 0 = None /\ exists a, rhs <= a /\ ~ (rhs <= a /\ a <= rhs + 0).
Proof. split; [reflexivity|]. exists (rhs + 1). split; [lra|]. intros [_ H]. lra. Qed.

Example ranges_example :
  transfer ME 10 (-3) = (10 + -3, - -3) /\ transfer ML 10 (-3) = (10 - Qabs (-3), Qabs (-3)) /\ write_range (7 # 2) = Some (7 # 2).
Proof. vm_compute. repeat split; reflexivity. Qed.
