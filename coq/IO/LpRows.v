(* IO/LpRows.v -- third layer of the LP round trip: constraints.

   [row_read]         one written row (" name: expr sense rhs", possibly wrapped) is read by
                      ILLread_constraint_name + ILLread_one_constraint as that row
   [range_row_read]   a ranged row as the writer emits it (" name: expr >= lo \ RANGE (lo, ub)" and the unnamed
                      second half "   expr <= ub") is read as the two halves
   [rows_read]        the loop of read_constraints over all written rows, up to the keyword line that follows *)
From Coq Require Import QArith List Ascii String Bool Arith NArith Lia Lqa.
From QSX Require Import Base.QSum LP.User IO.Num IO.NumSound IO.Bounds IO.Lex IO.Equiv IO.LpWrite IO.LpRead IO.LpTok IO.LpExpr.
Import ListNotations.
Local Open Scope Q_scope.

(* ---- more tokenizer lemmas ----------------------------------------------------------------------------- *)

Lemma skip_to_any wrap st b x c : cur st = b ++ x :: c -> all_blank b -> is_blank x = false ->
  exists st', skip_blanks wrap st = (st', true) /\ moved st st' b (x :: c) /\ fld st' = fld st /\ first st' = first st.
Proof.
  intros E AB NB. unfold skip_blanks. rewrite E, (skipb_blanks b AB (pre st) (x :: c) NB).
  eexists. split; [reflexivity|]. unfold moved, set_pos. cbn. repeat split; reflexivity.
Qed.

Lemma sign_none_fst st : snd (sign st) = None -> fst (sign st) = fst (skip_blanks true st).
Proof.
  unfold sign. destruct (skip_blanks true st) as [st1 ok]. destruct ok; [|reflexivity].
  destruct (cur st1) as [|x c]; [reflexivity|]. all_ascii x; cbn; intros H; try reflexivity; discriminate H.
Qed.

Lemma take_word_first x t : is_space x = false ->
  exists w t', take_word (skip_space (x :: t)) = (x :: w, t') /\ x :: t = (x :: w) ++ t' /\
               forallb (fun c => negb (is_space c)) (x :: w) = true.
Proof.
  intros NS. cbn [skip_space]. rewrite NS.
  pose proof (take_word_app (x :: t)) as A. pose proof (take_word_nospace (x :: t)) as N.
  cbn [take_word] in *. rewrite NS in *. destruct (take_word t) as [w t']. cbn [fst snd] in *.
  exists w, t'. repeat split; [now symmetry|exact N].
Qed.

Lemma nospace_noblank w : forallb (fun c => negb (is_space c)) w = true -> forall y, In y w -> is_blank y = false.
Proof.
  intros H y IN. rewrite forallb_forall in H. specialize (H y IN). unfold is_space in H.
  destruct (is_blank y); [discriminate|reflexivity].
Qed.

Lemma back_nonblank_word : forall u p0 c, (forall y, In y u -> is_blank y = false) -> head_blank c = false ->
  back_nonblank (rev u ++ p0) c = back_nonblank p0 (u ++ c).
Proof.
  induction u as [|z u IH] using rev_ind; intros p0 c NB HB; [reflexivity|].
  rewrite rev_app_distr. cbn [rev app back_nonblank]. rewrite HB.
  rewrite IH; [now rewrite <- app_assoc| |].
  - intros y IN. apply NB, in_or_app. now left.
  - cbn. apply NB, in_or_app. right. now left.
Qed.

(* prev_field after a word [w] that was read from position (p0, w ++ c): back to the start of the word (column 0),
   or to the blank in front of it *)
Lemma prev_field_word st w c p0 : w <> [] -> (forall y, In y w -> is_blank y = false) ->
  pre st = rev w ++ p0 -> cur st = c ->
  match p0 with [] => True | y :: _ => is_blank y = true end ->
  prev_field st = match p0 with
                  | [] => set_first (set_pos st [] (w ++ c)) true
                  | y :: p0' => set_first (set_pos st p0' (y :: w ++ c)) (is_nil p0')
                  end.
Proof.
  intros NE NB P C BY. unfold prev_field. rewrite P, C.
  destruct w as [|z w'] using rev_ind; [congruence|]. clear IHw'.
  rewrite rev_app_distr. cbn [rev app].
  assert (NBz : is_blank z = false) by (apply NB, in_or_app; right; now left).
  assert (BB : back_blank (rev w' ++ p0) (z :: c) = (rev w' ++ p0, z :: c)).
  { destruct (rev w' ++ p0); [reflexivity|]. cbn [back_blank head_blank]. now rewrite NBz. }
  rewrite BB.
  rewrite back_nonblank_word; [| intros y IN; apply NB, in_or_app; now left | cbn; exact NBz].
  rewrite <- app_assoc. cbn [app].
  destruct p0 as [|y p0'].
  - cbn [back_nonblank]. reflexivity.
  - cbn [back_nonblank].
    assert (HB : head_blank (w' ++ z :: c) = false).
    { destruct w' as [|a w'']; cbn; [exact NBz|]. apply NB. apply in_or_app. left. now left. }
    rewrite HB. destruct p0'; cbn [back_nonblank head_blank]; rewrite ?BY; reflexivity.
Qed.

Lemma next_line_from_lnum ls : forall ln r ln', next_line_from ls ln = (r, ln') -> (ln < ln')%nat.
Proof.
  induction ls as [|l ls IH]; intros ln r ln' H; simpl in H.
  - inversion H. lia.
  - destruct (skipb [] (cutline l)) as [p c]. destruct c.
    + apply IH in H. lia.
    + inversion H. lia.
Qed.

(* a state at the end of its line, in front of the lines [l :: more] *)
Definition before (st : rst) (ls : list line) : Prop := all_blank (cur st) /\ rest st = ls /\ eof st = false.

Lemma skip_blanks_before st l more b x t : before st (l :: more) -> cutline l = b ++ x :: t -> all_blank b -> is_blank x = false ->
  skip_blanks true st = (mk_rst (rev b) (x :: t) more false (fld st) (first st) (S (lnum st)), true).
Proof.
  intros (AB & RS & EO) CL ABb NB.
  rewrite (sbeq_newline st l more AB EO RS).
  unfold skip_blanks. cbn [pre cur]. rewrite CL, (skipb_blanks b ABb [] (x :: t) NB), app_nil_r. reflexivity.
Qed.

(* next_field on a state that stands on a non-blank byte *)
Lemma next_field_word st x t : cur st = x :: t -> is_space x = false -> eof st = false ->
  exists w t', x :: t = (x :: w) ++ t' /\ forallb (fun c => negb (is_space c)) (x :: w) = true /\
    fst (take_word (x :: t)) = x :: w /\
    next_field true st = (mk_rst (rev (x :: w) ++ pre st) t' (rest st) false (x :: w) (at_col0 st) (lnum st), true).
Proof.
  intros C NS EO.
  assert (NB : is_blank x = false) by (unfold is_space in NS; destruct (is_blank x); [discriminate|reflexivity]).
  destruct (take_word_first x t NS) as (w & t' & TW & SP & NSP).
  exists w, t'. split; [exact SP|]. split; [exact NSP|].
  split; [cbn [skip_space] in TW; rewrite NS in TW; now rewrite TW|].
  unfold next_field. destruct (skip_blanks_here st x t C NB) as [S1 _]. rewrite S1, EO.
  cbn [set_first cur]. rewrite C, TW. cbn [fst].
  unfold advn, set_fld, set_first. cbn [pre cur rest eof fld first lnum]. rewrite C, SP, adv_app.
  unfold set_pos. cbn [pre cur rest eof fld first lnum]. rewrite EO. reflexivity.
Qed.

(* ---- next_constraint ----------------------------------------------------------------------------------------- *)

(* the next line starts with blanks: another constraint follows; the reader is put back in front of its first word *)
Lemma next_constraint_go st l more b x t : before st (l :: more) -> cutline l = b ++ x :: t -> all_blank b -> b <> [] ->
  is_space x = false ->
  exists st', next_constraint st = (st', true) /\
    (exists b1 b2, b = b1 ++ b2 /\ pre st' = rev b1 /\ cur st' = b2 ++ x :: t) /\ rest st' = more /\ eof st' = false.
Proof.
  intros BF CL AB NE NS.
  assert (NB : is_blank x = false) by (unfold is_space in NS; destruct (is_blank x); [discriminate|reflexivity]).
  unfold next_constraint. rewrite (skip_blanks_before st l more b x t BF CL AB NB). cbn [eof lnum].
  rewrite (proj2 (Nat.eqb_neq _ _) (Nat.neq_succ_diag_r (lnum st))).
  set (st1 := mk_rst (rev b) (x :: t) more false (fld st) (first st) (S (lnum st))).
  destruct (next_field_word st1 x t eq_refl NS eq_refl) as (w & t' & SP & NSP & TW & NF). rewrite NF.
  subst st1. cbn [pre cur rest eof fld first lnum]. unfold at_col0. cbn [pre].
  assert (NN : is_nil (rev b) = false).
  { destruct b as [|y b]; [congruence|]. simpl. now destruct (rev b). }
  rewrite NN. cbn [negb andb].
  eexists. split; [reflexivity|].
  set (st2 := mk_rst (rev (x :: w) ++ rev b) t' more false (x :: w) false (S (lnum st))).
  destruct b as [|y b] using rev_ind; [congruence|]. clear IHb.
  assert (BY : is_blank y = true).
  { unfold all_blank in AB. rewrite forallb_app in AB. apply andb_true_iff in AB. destruct AB as [_ AB]. simpl in AB. now destruct (is_blank y). }
  assert (P2 : pre st2 = rev (x :: w) ++ (y :: rev b)) by (unfold st2; cbn [pre]; now rewrite rev_app_distr).
  pose proof (prev_field_word st2 (x :: w) t' (y :: rev b) ltac:(discriminate) (nospace_noblank _ NSP) P2 eq_refl BY) as PF.
  cbn beta iota in PF. rewrite PF. cbn [set_first set_pos pre cur rest eof].
  repeat split; try reflexivity.
  exists b, [y]. split; [reflexivity|]. split; [reflexivity|]. rewrite SP. reflexivity.
Qed.

(* the next line starts in column 0 with a keyword: the constraint section ends; the reader stands in front of it *)
Lemma next_constraint_stop st l more x t : before st (l :: more) -> cutline l = x :: t -> is_space x = false ->
  is_keyword (fst (take_word (x :: t))) = true ->
  exists st', next_constraint st = (st', false) /\ pre st' = [] /\ cur st' = x :: t /\ rest st' = more /\ eof st' = false.
Proof.
  intros BF CL NS KW.
  assert (NB : is_blank x = false) by (unfold is_space in NS; destruct (is_blank x); [discriminate|reflexivity]).
  unfold next_constraint. rewrite (skip_blanks_before st l more [] x t BF CL eq_refl NB). cbn [eof lnum rev].
  rewrite (proj2 (Nat.eqb_neq _ _) (Nat.neq_succ_diag_r (lnum st))).
  set (st1 := mk_rst [] (x :: t) more false (fld st) (first st) (S (lnum st))).
  destruct (next_field_word st1 x t eq_refl NS eq_refl) as (w & t' & SP & NSP & TW & NF). rewrite NF.
  subst st1. cbn [pre cur rest eof fld first lnum]. unfold at_col0. cbn [pre is_nil negb andb].
  rewrite TW in KW. rewrite KW. cbn [negb].
  eexists. split; [reflexivity|].
  set (st2 := mk_rst (rev (x :: w) ++ []) t' more false (x :: w) true (S (lnum st))).
  assert (P2 : pre st2 = rev (x :: w) ++ []) by reflexivity.
  pose proof (prev_field_word st2 (x :: w) t' [] ltac:(discriminate) (nospace_noblank _ NSP) P2 eq_refl I) as PF.
  cbn beta iota in PF. rewrite PF. cbn [set_first set_pos pre cur rest eof]. rewrite <- SP. repeat split; reflexivity.
Qed.

(* ---- positions ---------------------------------------------------------------------------------------------- *)

(* the reader stands among the leading blanks of line [l] (fetched already), [more] are the lines after it *)
Definition at_line (st : rst) (l : line) (more : list line) : Prop :=
  exists b1 b2 t, cutline l = b1 ++ b2 ++ t /\ all_blank (b1 ++ b2) /\ pre st = rev b1 /\ cur st = b2 ++ t /\
                  rest st = more /\ eof st = false.

(* the same for both kinds of blank skipping *)
Definition sbeq2 (st st' : rst) : Prop := forall w, skip_blanks w st = skip_blanks w st'.
Lemma sbeq2_sbeq st st' : sbeq2 st st' -> sbeq st st'.
Proof. intros H. exact (H true). Qed.

Definition line_start (st : rst) (l : line) (more : list line) : rst :=
  mk_rst [] (cutline l) more false (fld st) (first st) (lnum st).

Lemma skipb_app_blank b : all_blank b -> forall p c, skipb p (b ++ c) = skipb (rev b ++ p) c.
Proof.
  unfold all_blank. induction b as [|x b IH]; intros AB p c; [reflexivity|]. simpl in *.
  apply andb_true_iff in AB. destruct AB as [A1 A2]. rewrite A1, (IH A2), <- app_assoc. reflexivity.
Qed.

Lemma at_line_sbeq2 st l more : at_line st l more -> sbeq2 st (line_start st l more).
Proof.
  intros (b1 & b2 & t & CL & AB & P & C & R & E) w. unfold skip_blanks, line_start. cbn [pre cur].
  rewrite CL, P, C.
  assert (AB1 : all_blank b1) by (unfold all_blank in *; rewrite forallb_app in AB; now apply andb_true_iff in AB).
  rewrite (skipb_app_blank b1 AB1 [] (b2 ++ t)), app_nil_r.
  destruct (skipb (rev b1) (b2 ++ t)) as [p c]. unfold set_pos. cbn [pre cur rest eof fld first lnum].
  rewrite R, E. destruct c; [|reflexivity]. destruct w; [|reflexivity].
  unfold next_line. cbn [eof rest lnum fld first]. reflexivity.
Qed.

Lemma has_colon_sbeq2 st st' : sbeq2 st st' -> has_colon st = has_colon st'.
Proof. intros H. unfold has_colon. now rewrite (H false). Qed.
Lemma read_constraint_name_sbeq2 st st' : sbeq2 st st' -> read_constraint_name st = read_constraint_name st'.
Proof. intros H. unfold read_constraint_name. now rewrite (has_colon_sbeq2 _ _ H). Qed.

Lemma sb_false_true st : sbeq (fst (skip_blanks false st)) st.
Proof.
  pose proof (skipb_nonblank_head (pre st) (cur st)) as NB.
  unfold sbeq. unfold skip_blanks at 2 3. destruct (skipb (pre st) (cur st)) as [p c] eqn:S. cbn [snd] in NB.
  destruct c as [|x c]; cbn [fst].
  - unfold skip_blanks. cbn [pre cur set_pos skipb]. reflexivity.
  - unfold skip_blanks. cbn [pre cur set_pos]. rewrite (skipb_fix _ _ _ NB). reflexivity.
Qed.

Lemma next_constraint_go' st l more b x t : before st (l :: more) -> cutline l = b ++ x :: t -> all_blank b -> b <> [] ->
  is_space x = false -> exists st', next_constraint st = (st', true) /\ at_line st' l more.
Proof.
  intros BF CL AB NE NS.
  destruct (next_constraint_go st l more b x t BF CL AB NE NS) as (st' & NC & (b1 & b2 & EB & P & C) & R & E).
  exists st'. split; [exact NC|]. exists b1, b2, (x :: t). subst b. rewrite <- app_assoc in CL. repeat split; auto.
Qed.

(* ---- constraint names ------------------------------------------------------------------------------------------ *)

Lemma read_cname_named st b nm c' : cur st = b ++ nm ++ ":"%char :: c' -> all_blank b -> name_ok nm ->
  (b <> [] \/ pre st <> []) ->
  exists st3, read_constraint_name st = PrOk (st3, Some nm) /\ cur st3 = c' /\ rest st3 = rest st /\ eof st3 = eof st.
Proof.
  intros E AB NO NE.
  destruct nm as [|x r] eqn:EN; [destruct NO|]. rewrite <- EN in *.
  assert (NB : is_blank x = false) by (subst nm; destruct NO as [H _]; apply (name_start_facts x H)).
  assert (E' : cur st = b ++ x :: (r ++ ":"%char :: c')) by (rewrite E, EN; reflexivity).
  destruct (skip_to_any false st b x _ E' AB NB) as (st1 & SK & (P1 & C1 & R1 & E1 & L1) & F1 & _).
  unfold read_constraint_name, has_colon. rewrite SK.
  assert (C1' : cur st1 = [] ++ nm ++ ":"%char :: c') by (rewrite C1, EN; reflexivity).
  assert (HC : existsb (Ascii.eqb ":") (cur st1) = true).
  { rewrite C1'. cbn [app]. rewrite existsb_app. cbn. now rewrite orb_true_r. }
  rewrite HC.
  destruct (next_var_name st1 [] nm (":"%char :: c') C1' eq_refl NO eq_refl) as (st2 & NV & (P2 & C2 & R2 & E2 & L2) & F2).
  { right. rewrite P1. destruct NE as [H|H]; [destruct b as [|y b]; [congruence|]; simpl; now destruct (rev b)|].
    destruct (pre st); [congruence|]. now destruct (rev b). }
  rewrite NV.
  assert (C2' : cur st2 = [] ++ ":"%char :: c') by exact C2.
  destruct (skip_to_any true st2 [] ":"%char c' C2' eq_refl eq_refl) as (st3 & SK3 & (P3 & C3 & R3 & E3 & L3) & _).
  unfold colon. rewrite SK3, C3.
  eexists. split; [rewrite F2; reflexivity|].
  unfold advn. rewrite C3. cbn [adv set_pos pre cur rest eof]. repeat split; congruence.
Qed.

Lemma read_cname_unnamed st : existsb (Ascii.eqb ":") (cur (fst (skip_blanks false st))) = false ->
  read_constraint_name st = PrOk (fst (skip_blanks false st), None).
Proof.
  intros H. unfold read_constraint_name, has_colon. destruct (skip_blanks false st) as [st1 ok]. cbn [fst] in H. now rewrite H.
Qed.

(* ---- senses ------------------------------------------------------------------------------------------------------ *)

Definition sense_str (s : sense) : list ascii :=
  match s with SG => s2l ">=" | SL => s2l "<=" | SE => s2l "=" | SR => s2l ">=" end.

Lemma row_sense_at st s c' : s <> SR -> cur st = " "%char :: sense_str s ++ " "%char :: c' ->
  exists st', row_sense st = (st', Some s) /\ cur st' = " "%char :: c' /\ rest st' = rest st /\ eof st' = eof st.
Proof.
  intros NR E. destruct s; try congruence; cbn [sense_str s2l list_ascii_of_string app] in E.
  all: match type of E with cur ?s0 = _ :: ?x :: ?t =>
         destruct (skip_to_any true s0 [" "%char] x t E eq_refl eq_refl) as (st1 & SK & (P1 & C1 & R1 & E1 & L1) & _) end;
       unfold row_sense; rewrite SK; cbn [negb]; rewrite C1;
       (eexists; split; [reflexivity|]); unfold advn; rewrite C1; cbn [adv set_pos pre cur rest eof]; repeat split; congruence.
Qed.

Lemma blank_stops bl : all_blank bl -> stops bl.
Proof.
  destruct bl as [|x bl]; [intros; exact I|]. unfold all_blank. simpl. intros H. apply andb_true_iff in H. destruct H as [H _].
  revert H. all_ascii x; vm_compute; intros H; try discriminate H; reflexivity.
Qed.

Lemma existsb_skipb (f : ascii -> bool) : forall c p, existsb f (snd (skipb p c)) = true -> existsb f c = true.
Proof.
  induction c as [|x c IH]; intros p H; [exact H|]. simpl in H. destruct (is_blank x).
  - simpl. rewrite (IH _ H). apply orb_true_r.
  - exact H.
Qed.

Section Rows.
  Variable M : Q.
  Hypothesis HM : 0 < M.

  Definition raw_row (rw : raw) (nm : option name) (s : sense) (rhs : Q) (ts : list (name * Q)) : raw :=
    set_sense_rhs (add_terms (add_row rw nm) ts) s rhs.

  (* a finite value: printed as a number, not as "inf " *)
  Definition val_ok (v : Q) : Prop := Qeq_bool v M = false /\ Qeq_bool v (- M) = false.
  Lemma print_val_ok v : val_ok v -> print_val M v = print_num v.
  Proof. intros [A B]. unfold print_val. now rewrite A, B. Qed.

  Lemma sense_str_clean s : clean (sense_str s).
  Proof. destruct s; reflexivity. Qed.

  Lemma tc_shape s (x y : list ascii) :
    " "%char :: sense_str s ++ " "%char :: x ++ y = ([" "%char] ++ sense_str s ++ [" "%char] ++ x) ++ y.
  Proof. destruct s; cbn [sense_str s2l list_ascii_of_string app]; now rewrite ?app_comm_cons. Qed.
  Lemma tc_cut s rhs tcx : cutline (" "%char :: sense_str s ++ " "%char :: print_num rhs ++ tcx) =
                           " "%char :: sense_str s ++ " "%char :: print_num rhs ++ cutline tcx.
  Proof.
    rewrite tc_shape, cutline_app, <- tc_shape; [reflexivity|].
    repeat apply clean_app; try reflexivity; [apply sense_str_clean|apply numchars_clean, print_num_numchar].
  Qed.

  (* ILLread_one_constraint on "expr sense rhs [comment]" *)
  Lemma constraint_read k st st0 rw nmo its s rhs tcx bl more cu re :
    s <> SR -> val_ok rhs -> cutline tcx = bl -> all_blank bl ->
    rem M (" "%char :: sense_str s ++ " "%char :: print_val M rhs ++ tcx) more its = (cu, re) ->
    items_ok M MFirst its ->
    sbeq st st0 -> cur st0 = cutline cu -> rest st0 = re -> eof st0 = false ->
    (count_terms its <= k)%nat ->
    match nmo with Some n => mem n (row_names rw) = false | None => True end ->
    exists st', read_one_constraint true (S k) st rw nmo = PrOk (st', raw_row rw nmo s (rr rhs) (terms_of its)) /\ before st' more.
  Proof.
    intros NR VO CT ABL RM OK SB CU RS EO FU NM.
    set (tc := " "%char :: sense_str s ++ " "%char :: print_val M rhs ++ tcx) in *.
    assert (CTC : cutline tc = " "%char :: sense_str s ++ " "%char :: print_num rhs ++ bl).
    { unfold tc. rewrite (print_val_ok rhs VO), tc_cut, CT. reflexivity. }
    assert (HT : forall st, cur st = cutline tc -> rest st = more -> eof st = false -> snd (sign st) = None).
    { intros s0 C0 _ _. rewrite CTC in C0.
      assert (G : exists x t, sense_str s ++ " "%char :: print_num rhs ++ bl = x :: t /\ is_blank x = false /\ x <> "+"%char /\ x <> "-"%char)
        by (destruct s; try congruence; eexists _, _; repeat split; try reflexivity; discriminate).
      destruct G as (x & t & EX & NB & N1 & N2).
      assert (C0' : cur s0 = [" "%char] ++ x :: t) by (rewrite C0, EX; reflexivity).
      rewrite (sign_none s0 _ x t C0' eq_refl NB N1 N2). reflexivity. }
    assert (HS : stop_name (cutline tc)) by (rewrite CTC; reflexivity).
    unfold read_one_constraint.
    replace (match nmo with Some n => mem n (row_names rw) | None => false end) with false by (destruct nmo; [now rewrite NM|reflexivity]).
    rewrite (read_expr_sbeq k st st0 _ true SB).
    destruct (expr_roundtrip M HM tc more its st0 (add_row rw nmo) k cu re HT HS OK RM CU RS EO FU) as (st_t & T1 & T2 & T3 & RES).
    rewrite RES.
    rewrite (sign_none_fst st_t (HT st_t T1 T2 T3)), (row_sense_sbeq _ _ (sb_idem st_t)).
    rewrite CTC in T1.
    destruct (row_sense_at st_t s (print_num rhs ++ bl) NR T1) as (st2 & RSN & C2 & R2 & E2). rewrite RSN.
    assert (C2' : cur st2 = [" "%char] ++ print_num rhs ++ bl) by exact C2.
    destruct (value_num st2 _ rhs bl C2' eq_refl (blank_stops bl ABL)) as (st3 & V & (P3 & C3 & R3 & E3 & L3)). rewrite V.
    eexists. split; [reflexivity|]. unfold before. rewrite C3. repeat split; [exact ABL|congruence|congruence].
  Qed.

  (* a named row: " name: " then the expression *)
  Lemma named_constraint_read k st rw nm its s rhs tcx bl more cu re l :
    s <> SR -> val_ok rhs -> cutline tcx = bl -> all_blank bl ->
    rem M (" "%char :: sense_str s ++ " "%char :: print_val M rhs ++ tcx) more its = (cu, re) ->
    items_ok M MFirst its -> name_ok nm ->
    l = " "%char :: nm ++ s2l ": " ++ cu -> at_line st l re ->
    (count_terms its <= k)%nat -> mem nm (row_names rw) = false ->
    exists st1 st', read_constraint_name st = PrOk (st1, Some nm) /\
      read_one_constraint true (S k) st1 rw (Some nm) = PrOk (st', raw_row rw (Some nm) s (rr rhs) (terms_of its)) /\ before st' more.
  Proof.
    intros NR VO CT ABL RM OK NO EL AL FU NM.
    rewrite (read_constraint_name_sbeq2 _ _ (at_line_sbeq2 st l re AL)).
    set (sl := line_start st l re).
    assert (CL : cur sl = [" "%char] ++ nm ++ ":"%char :: (" "%char :: cutline cu)).
    { unfold sl, line_start. cbn [cur]. rewrite EL.
      replace (" "%char :: nm ++ s2l ": " ++ cu) with (([" "%char] ++ nm ++ s2l ": ") ++ cu) by (rewrite <- !app_assoc; reflexivity).
      rewrite cutline_app; [rewrite <- !app_assoc; reflexivity|].
      repeat apply clean_app; try reflexivity. now apply name_clean. }
    destruct (read_cname_named sl _ nm _ CL eq_refl NO) as (st3 & RC & C3 & R3 & E3); [left; discriminate|].
    exists st3. 
    pose proof (sbeq_blanks st3 [" "%char] (cutline cu) eq_refl C3) as SB.
    destruct (constraint_read k st3 _ rw (Some nm) its s rhs tcx bl more cu re NR VO CT ABL RM OK SB eq_refl) as (st' & RO & BF); auto.
    exists st'. auto.
  Qed.

  (* an unnamed row (the second half of a ranged row): "   " then the expression; no colon on its first line *)
  Lemma unnamed_constraint_read k st rw its s rhs tcx bl more cu re l :
    s <> SR -> val_ok rhs -> cutline tcx = bl -> all_blank bl -> existsb (Ascii.eqb ":") bl = false ->
    rem M (" "%char :: sense_str s ++ " "%char :: print_val M rhs ++ tcx) more its = (cu, re) ->
    items_ok M MFirst its ->
    l = s2l "   " ++ cu -> at_line st l re ->
    (count_terms its <= k)%nat ->
    exists st1 st', read_constraint_name st = PrOk (st1, None) /\
      read_one_constraint true (S k) st1 rw None = PrOk (st', raw_row rw None s (rr rhs) (terms_of its)) /\ before st' more.
  Proof.
    intros NR VO CT ABL NCB RM OK EL AL FU.
    rewrite (read_constraint_name_sbeq2 _ _ (at_line_sbeq2 st l re AL)).
    set (sl := line_start st l re).
    assert (CL : cur sl = s2l "   " ++ cutline cu).
    { unfold sl, line_start. cbn [cur]. rewrite EL. now rewrite cutline_app. }
    assert (NC : existsb (Ascii.eqb ":") (cutline cu) = false).
    { pose proof (rem_no_colon M HM (" "%char :: sense_str s ++ " "%char :: print_val M rhs ++ tcx) more its (items_ok_wf M its _ OK)) as H.
      rewrite RM in H. apply H. rewrite (print_val_ok rhs VO), tc_cut, CT.
      cbn [existsb]. rewrite existsb_app. cbn [existsb]. rewrite existsb_app, NCB, (numchars_no_colon _ (print_num_numchar rhs)).
      destruct s; reflexivity. }
    assert (NC' : existsb (Ascii.eqb ":") (cur (fst (skip_blanks false sl))) = false).
    { apply not_true_is_false. intros H. unfold skip_blanks in H.
      destruct (skipb (pre sl) (cur sl)) as [p c] eqn:SKB.
      assert (H' : existsb (Ascii.eqb ":") c = true) by (destruct c; exact H).
      pose proof (existsb_skipb (Ascii.eqb ":") (cur sl) (pre sl)) as G. rewrite SKB in G. specialize (G H').
      rewrite CL, existsb_app, NC in G. discriminate G. }
    rewrite (read_cname_unnamed sl NC').
    exists (fst (skip_blanks false sl)).
    pose proof (sbeq_trans _ _ _ (sb_false_true sl) (sbeq_blanks sl (s2l "   ") (cutline cu) eq_refl CL)) as SB.
    destruct (constraint_read k (fst (skip_blanks false sl)) _ rw None its s rhs tcx bl more cu re NR VO CT ABL RM OK SB eq_refl) as (st' & RO & BF); auto.
    exists st'. auto.
  Qed.
End Rows.

(* ---- the loop of read_constraints ------------------------------------------------------------------------------------ *)

Definition rd_terms (ts : list (Q * name)) : list (name * Q) := map (fun t => (snd t, rd_coef (fst t))) ts.

Lemma row_names_add_terms ts : forall rw, row_names (add_terms rw ts) = row_names rw.
Proof.
  induction ts as [|[n c] ts IH]; intros rw; [reflexivity|]. cbn [add_terms fold_left fst snd].
  change (row_names (add_terms (add_var rw n c) ts) = row_names rw). rewrite IH.
  unfold row_names, add_var. cbn [r_rows]. destruct (r_rows rw) as [|r t]; reflexivity.
Qed.

Section Loop.
  Variable M : Q.
  Hypothesis HM : 0 < M.

  (* one constraint as the writer prints it: a ranged row is two of them *)
  Record cstr := { c_name : option name; c_sense : sense; c_rhs : Q; c_tcx : list ascii; c_terms : list (Q * name) }.
  Definition cstr_hdr (c : cstr) : line := match c_name c with Some n => " "%char :: n ++ s2l ": " | None => s2l "   " end.
  Definition cstr_tc (c : cstr) : line := " "%char :: sense_str (c_sense c) ++ " "%char :: print_val M (c_rhs c) ++ c_tcx c.
  Definition cstr_items (c : cstr) : list item :=
    row_items M (List.length (cstr_hdr c)) (c_terms c) (List.length (cstr_hdr c)) true true.
  Definition cstr_lines (c : cstr) : list line :=
    let '(ls, cur0) := expr_layout M (cstr_hdr c) (c_terms c) in ls ++ [cur0 ++ cstr_tc c].

  Definition cstr_ok (c : cstr) : Prop :=
    c_sense c <> SR /\ val_ok M (c_rhs c) /\ all_blank (cutline (c_tcx c)) /\
    existsb (Ascii.eqb ":") (cutline (c_tcx c)) = false /\
    terms_ok M (c_terms c) /\ c_terms c <> [] /\ match c_name c with Some n => name_ok n | None => True end.

  Definition cstr_effect (rw : raw) (c : cstr) : raw :=
    raw_row rw (c_name c) (c_sense c) (rr (c_rhs c)) (rd_terms (c_terms c)).

  Definition opt_names (cs : list cstr) : list name := flat_map (fun c => match c_name c with Some n => [n] | None => [] end) cs.

  Lemma row_names_effect rw c : row_names (cstr_effect rw c) = match c_name c with Some n => [n] | None => [] end ++ row_names rw.
  Proof.
    unfold cstr_effect, raw_row.
    assert (G : forall r s q, row_names (set_sense_rhs r s q) = row_names r).
    { intros r s q. unfold row_names, set_sense_rhs. cbn [r_rows]. destruct (r_rows r); reflexivity. }
    rewrite G, row_names_add_terms. unfold row_names, add_row. cbn [r_rows flat_map rr_name]. reflexivity.
  Qed.

  Lemma cstr_lines_shape c more :
    let (cu, re) := rem M (cstr_tc c) more (cstr_items c) in cstr_lines c ++ more = (cstr_hdr c ++ cu) :: re.
  Proof.
    unfold cstr_lines, expr_layout.
    pose proof (layout_rem M (cstr_tc c) more (cstr_items c) (cstr_hdr c)) as H. unfold cstr_items in *.
    destruct (layout M (cstr_hdr c) _) as [ls c0]. destruct (rem M (cstr_tc c) more _) as [cu re].
    rewrite <- app_assoc. cbn [app]. now symmetry.
  Qed.

  Lemma cstr_items_ok c : cstr_ok c -> items_ok M MFirst (cstr_items c).
  Proof. intros (_ & _ & _ & _ & TO & NE & _). unfold cstr_items. apply (row_items_ok M _ (c_terms c) _ true TO). now left. Qed.

  (* the first line of a constraint starts with blanks and then a byte that is no white space *)
  Lemma cstr_first_line c more cu re : cstr_ok c -> rem M (cstr_tc c) more (cstr_items c) = (cu, re) ->
    exists b x t, cutline (cstr_hdr c ++ cu) = b ++ x :: t /\ all_blank b /\ b <> [] /\ is_space x = false.
  Proof.
    intros (_ & _ & _ & _ & TO & NE & NO) RM. unfold cstr_items, cstr_hdr in *. destruct (c_name c) as [n|] eqn:EN.
    - destruct n as [|x0 r0]; [destruct NO|]. destruct NO as [H1 H2].
      destruct (name_start_facts x0 H1) as (_ & NB & NSP & SPC & _).
      exists [" "%char], x0, (cutline (r0 ++ s2l ": " ++ cu)). repeat split; try discriminate; auto.
      cbn [app]. rewrite <- app_assoc.
      change (cutline (" "%char :: x0 :: r0 ++ s2l ": " ++ cu)) with (cutline ([" "%char; x0] ++ (r0 ++ s2l ": " ++ cu))).
      rewrite cutline_app; [reflexivity|]. apply clean_cons; [reflexivity|]. apply clean_cons; [exact SPC|reflexivity].
    - destruct (c_terms c) as [|[c0 nm0] ts] eqn:ET; [congruence|].
      inversion TO as [|? ? [CO NO0] TO']; subst. cbn [fst snd] in *.
      try rewrite ET in RM. cbn [List.length s2l list_ascii_of_string row_items] in RM.
      change (LINE_LEN <=? 3)%nat with false in RM. cbn [rem] in RM.
      destruct (rem M (cstr_tc c) more _) as [cu' re'] in RM. injection RM as <- _.
      rewrite (cutline_app (s2l "   ") _ eq_refl), (cutline_app _ _ (term_text_clean M HM c0 true nm0 CO NO0)).
      unfold term_text. rewrite coef_text_eq.
      destruct (Qltb c0 0) eqn:NEG.
      + exists (s2l "    "), "-"%char. eexists. repeat split; try discriminate.
      + destruct (bare_head M HM (absq c0) nm0 (cutline cu') (absq_nonneg c0) CO NO0) as (b' & x & t & AB & EB & NB & _ & _ & NSP).
        exists (s2l "   " ++ b'), x, t. repeat split.
        * rewrite <- !app_assoc. rewrite <- EB. reflexivity.
        * apply all_blank_app; [reflexivity|exact AB].
        * discriminate.
        * exact NSP.
  Qed.

  (* the keyword line that ends the constraint section *)
  Definition kw_line (kwl : line) : Prop :=
    exists x t, cutline kwl = x :: t /\ is_space x = false /\ is_keyword (fst (take_word (x :: t))) = true.

  Lemma mem_cons_false n m l : mem n (m :: l) = false <-> n <> m /\ mem n l = false.
  Proof.
    unfold mem. cbn [existsb]. destruct (leqb_spec n m) as [E|E]; cbn [orb].
    - split; [discriminate|intros [H _]; congruence].
    - split; [intros H; split; [exact E|exact H]|intros [_ H]; exact H].
  Qed.

  Lemma cstrs_read : forall cs st rw f fe l re kwl more',
    Forall cstr_ok cs -> cs <> [] ->
    NoDup (opt_names cs) -> (forall n, In n (opt_names cs) -> mem n (row_names rw) = false) ->
    flat_map cstr_lines cs ++ kwl :: more' = l :: re -> at_line st l re ->
    (List.length cs <= f)%nat -> (forall c, In c cs -> (List.length (c_terms c) < fe)%nat) -> kw_line kwl ->
    exists st', read_constraint_loop true f fe st rw = PrOk (st', fold_left cstr_effect cs rw) /\
      pre st' = [] /\ cur st' = cutline kwl /\ rest st' = more' /\ eof st' = false.
  Proof.
    induction cs as [|c cs IH]; intros st rw f fe l re kwl more' OK NE ND FR LN AL FU FE KW; [congruence|].
    inversion OK as [|? ? OKc OK']; subst.
    cbn [flat_map] in LN. rewrite <- app_assoc in LN.
    set (more_c := flat_map cstr_lines cs ++ kwl :: more') in *.
    pose proof (cstr_lines_shape c more_c) as SH. destruct (rem M (cstr_tc c) more_c (cstr_items c)) as [cu re0] eqn:RM.
    rewrite SH in LN. injection LN as EL ER. subst re0.
    pose proof (cstr_items_ok c OKc) as IOK.
    destruct OKc as (NR & VO & ABL & NCB & TO & NET & NO).
    assert (FEc : (List.length (c_terms c) < fe)%nat) by (apply FE; now left).
    destruct fe as [|k]; [lia|].
    assert (CNT : (count_terms (cstr_items c) <= k)%nat) by (unfold cstr_items; rewrite row_items_count; lia).
    destruct f as [|f']; [cbn in FU; lia|].
    assert (STEP : exists st1 st2, read_constraint_name st = PrOk (st1, c_name c) /\
                     read_one_constraint true (S k) st1 rw (c_name c) = PrOk (st2, cstr_effect rw c) /\ before st2 more_c).
    { unfold cstr_effect, rd_terms. rewrite <- (row_items_terms M (List.length (cstr_hdr c)) (c_terms c) (List.length (cstr_hdr c)) true true).
      fold (cstr_items c). unfold cstr_hdr, cstr_tc in *. destruct (c_name c) as [n|] eqn:EN.
      - eapply (named_constraint_read M HM k st rw n (cstr_items c) (c_sense c) (c_rhs c) (c_tcx c) _ more_c cu re l); eauto.
        + rewrite <- EL. cbn [app]. now rewrite <- app_assoc.
        + apply FR. cbn [opt_names flat_map]. rewrite EN. now left.
      - eapply (unnamed_constraint_read M HM k st rw (cstr_items c) (c_sense c) (c_rhs c) (c_tcx c) _ more_c cu re l); eauto. }
    destruct STEP as (st1 & st2 & RCN & ROC & BF).
    cbn [read_constraint_loop]. rewrite RCN, ROC.
    destruct cs as [|c2 cs'].
    - (* the keyword line follows *)
      unfold more_c in BF. cbn [flat_map app] in BF.
      destruct KW as (x & t & CK & NSP & KWD).
      destruct (next_constraint_stop st2 kwl more' x t BF CK NSP KWD) as (st3 & NC & P3 & C3 & R3 & E3).
      rewrite NC. exists st3. cbn [fold_left]. rewrite CK. auto.
    - (* another constraint follows *)
      inversion OK' as [|? ? OK2 OK'']; subst.
      unfold more_c in BF. cbn [flat_map] in BF. rewrite <- app_assoc in BF.
      set (more_2 := flat_map cstr_lines cs' ++ kwl :: more') in *.
      pose proof (cstr_lines_shape c2 more_2) as SH2. destruct (rem M (cstr_tc c2) more_2 (cstr_items c2)) as [cu2 re2] eqn:RM2.
      rewrite SH2 in BF.
      destruct (cstr_first_line c2 more_2 cu2 re2 OK2 RM2) as (b & x & t & CL2 & AB2 & NE2 & NSP2).
      destruct (next_constraint_go' st2 _ re2 b x t BF CL2 AB2 NE2 NSP2) as (st3 & NC & AL3).
      rewrite NC.
      assert (ND' : NoDup (opt_names (c2 :: cs'))).
      { cbn [opt_names flat_map] in ND. destruct (c_name c); [inversion ND; assumption|exact ND]. }
      assert (FR' : forall n, In n (opt_names (c2 :: cs')) -> mem n (row_names (cstr_effect rw c)) = false).
      { intros n IN. rewrite row_names_effect. cbn [opt_names flat_map] in ND, FR.
        destruct (c_name c) as [n0|]; cbn [app].
        - apply mem_cons_false. split.
          + intros ->. inversion ND as [|? ? NI _]; subst. apply NI. exact IN.
          + apply FR. right. exact IN.
        - apply FR. exact IN. }
      destruct (IH st3 (cstr_effect rw c) f' (S k) (cstr_hdr c2 ++ cu2) re2 kwl more' OK' ltac:(discriminate) ND' FR') as (st' & RL & REST).
      + cbn [flat_map]. rewrite <- app_assoc. fold more_2. exact SH2.
      + exact AL3.
      + cbn [List.length] in *. lia.
      + intros c0 IN. apply FE. now right.
      + exact KW.
      + exists st'. split; [exact RL|exact REST].
  Qed.
End Loop.

(* ---- rows as constraints ----------------------------------------------------------------------------------------------- *)

Section Rows2.
  Variable M : Q.
  Hypothesis HM : 0 < M.
  Variable cols : list name.

  Definition cstrs_of_row (r : lrow) : list cstr :=
    let ts := row_terms cols r in
    match lr_sense r with
    | SR => [ {| c_name := Some (lr_name r); c_sense := SG; c_rhs := lr_rhs r;
                 c_tcx := range_comment M (lr_rhs r) (lr_rhs r + lr_range r); c_terms := ts |};
              {| c_name := None; c_sense := SL; c_rhs := lr_rhs r + lr_range r; c_tcx := []; c_terms := ts |} ]
    | s => [ {| c_name := Some (lr_name r); c_sense := s; c_rhs := lr_rhs r; c_tcx := []; c_terms := ts |} ]
    end.

  Lemma row_lines_cstrs r : row_lines M cols r = flat_map (cstr_lines M) (cstrs_of_row r).
  Proof.
    unfold row_lines, cstrs_of_row, cstr_lines, cstr_tc, cstr_hdr.
    destruct (lr_sense r); cbn [flat_map c_name c_sense c_rhs c_tcx c_terms sense_str app];
      destruct (expr_layout M (" "%char :: lr_name r ++ s2l ": ") (row_terms cols r)) as [ls c0];
      try (rewrite !app_nil_r; reflexivity).
    destruct (expr_layout M (s2l "   ") (row_terms cols r)) as [ls2 c2]. rewrite !app_nil_r.
    rewrite <- !app_assoc. reflexivity.
  Qed.

  Definition row_ok (r : lrow) : Prop :=
    name_ok (lr_name r) /\ terms_ok M (row_terms cols r) /\ row_terms cols r <> [] /\ val_ok M (lr_rhs r) /\
    (lr_sense r = SR -> val_ok M (lr_rhs r + lr_range r)).

  Lemma cstrs_of_row_ok r : row_ok r -> Forall (cstr_ok M) (cstrs_of_row r).
  Proof.
    intros (NO & TO & NE & VO & VR). unfold cstrs_of_row.
    destruct (lr_sense r) eqn:ES; repeat constructor; cbn; try discriminate; auto.
    - apply VO.
    - apply VO.
    - apply VO.
    - apply VO.
    - apply VO.
    - apply VO.
    - apply VO.
    - apply VO.
    - apply (VR eq_refl).
    - apply (VR eq_refl).
  Qed.
End Rows2.

Definition raw0 (pn : option name) (mx : bool) (on : name) : raw :=
  {| r_name := pn; r_max := mx; r_cols := [];
     r_rows := [{| rr_name := Some on; rr_sense := None; rr_rhs := 0; rr_terms := [] |}]; r_bnd := []; r_int := [] |}.


Definition obj_terms (cols : list lcol) : list (Q * name) :=
  flat_map (fun c => if Qeq_bool (lc_obj c) 0 then [] else [(lc_obj c, lc_name c)]) cols.
