(* IO/Lex.v -- reader primitives shared by the LP and MPS readers, as total functions on byte lists,
   with the "consumes input on every step" facts that C11 asks for.

   [cut_comment]  ILLread_lp_state_next_line: the line is cut at the first backslash.
   [skip_blanks]  ILL_ISBLANK loop (blank, tab, CR, FF).
   [scan_field]   sscanf("%s"): skip white space, take the maximal run of non-white bytes.
   [fields]       the field splitter built from them (ILLmps_next_field / next_field iterated). *)
From Coq Require Import List Ascii String Bool Arith Lia.
Import ListNotations.

Definition is_blank (c : ascii) : bool :=
  Ascii.eqb c " " || Ascii.eqb c "009" || Ascii.eqb c "013" || Ascii.eqb c "012".
(* isspace() of sscanf: the blanks above plus newline and vertical tab *)
Definition is_space (c : ascii) : bool := is_blank c || Ascii.eqb c "010" || Ascii.eqb c "011".

Fixpoint cut_comment (l : list ascii) : list ascii :=
  match l with
  | [] => []
  | c :: r => if Ascii.eqb c "\" then [] else c :: cut_comment r
  end.

Fixpoint skip_blanks (l : list ascii) : list ascii :=
  match l with
  | c :: r => if is_blank c then skip_blanks r else l
  | [] => []
  end.

Fixpoint skip_space (l : list ascii) : list ascii :=
  match l with
  | c :: r => if is_space c then skip_space r else l
  | [] => []
  end.

Fixpoint take_word (l : list ascii) : list ascii * list ascii :=
  match l with
  | c :: r => if is_space c then ([], l) else let (w, t) := take_word r in (c :: w, t)
  | [] => ([], [])
  end.

(* None = sscanf returned EOF / 0 conversions *)
Definition scan_field (l : list ascii) : option (list ascii * list ascii) :=
  match take_word (skip_space l) with
  | ([], _) => None
  | (w, t) => Some (w, t)
  end.

Lemma cut_comment_len l : List.length (cut_comment l) <= List.length l.
Proof. induction l as [|c r IH]; simpl; [lia|]. destruct (Ascii.eqb c "\"); simpl; lia. Qed.

Lemma cut_comment_no_backslash l : ~ In "\"%char (cut_comment l).
Proof.
  induction l as [|c r IH]; simpl; [tauto|].
  destruct (Ascii.eqb_spec c "\"); simpl; [tauto|]. intros [H|H]; [congruence|tauto].
Qed.

Lemma skip_blanks_len l : List.length (skip_blanks l) <= List.length l.
Proof. induction l as [|c r IH]; simpl; [lia|]. destruct (is_blank c); simpl; lia. Qed.

Lemma skip_space_len l : List.length (skip_space l) <= List.length l.
Proof. induction l as [|c r IH]; simpl; [lia|]. destruct (is_space c); simpl; lia. Qed.

Lemma take_word_len l : List.length (fst (take_word l)) + List.length (snd (take_word l)) = List.length l.
Proof.
  induction l as [|c r IH]; simpl; [reflexivity|].
  destruct (is_space c); simpl; [reflexivity|]. destruct (take_word r); simpl in *. lia.
Qed.

Lemma take_word_app l : fst (take_word l) ++ snd (take_word l) = l.
Proof.
  induction l as [|c r IH]; simpl; [reflexivity|].
  destruct (is_space c); simpl; [reflexivity|]. destruct (take_word r); simpl in *. now f_equal.
Qed.

Lemma take_word_nospace l : forallb (fun c => negb (is_space c)) (fst (take_word l)) = true.
Proof.
  induction l as [|c r IH]; simpl; [reflexivity|].
  destruct (is_space c) eqn:E; simpl; [reflexivity|]. destruct (take_word r); simpl in *. now rewrite E.
Qed.

(* progress: a successful field read consumes at least one byte *)
Theorem scan_field_progress l w t :
  scan_field l = Some (w, t) -> w <> [] /\ List.length t < List.length l /\ forallb (fun c => negb (is_space c)) w = true.
Proof.
  unfold scan_field. pose proof (take_word_len (skip_space l)) as L. pose proof (take_word_nospace (skip_space l)) as N.
  pose proof (skip_space_len l) as S. destruct (take_word (skip_space l)) as [w' t'] eqn:E. simpl in *.
  destruct w' as [|c w'']; [discriminate|]. intros H. inversion H; subst. simpl in *.
  split; [discriminate|]. split; [lia|exact N].
Qed.

(* the splitter: fuel = number of bytes; it is never exhausted *)
Fixpoint fields_fuel (fuel : nat) (l : list ascii) : option (list (list ascii)) :=
  match fuel with
  | O => match scan_field l with None => Some [] | Some _ => None end
  | S k => match scan_field l with
           | None => Some []
           | Some (w, t) => match fields_fuel k t with Some r => Some (w :: r) | None => None end
           end
  end.
Definition fields (l : list ascii) : option (list (list ascii)) := fields_fuel (List.length l) l.

Lemma fields_fuel_suffices : forall fuel l, List.length l <= fuel -> fields_fuel fuel l <> None.
Proof.
  induction fuel as [|k IH]; intros l H; simpl.
  - destruct (scan_field l) as [[w t]|] eqn:E; [|discriminate].
    apply scan_field_progress in E. lia.
  - destruct (scan_field l) as [[w t]|] eqn:E; [|discriminate].
    pose proof (scan_field_progress _ _ _ E) as (_ & P & _).
    specialize (IH t ltac:(lia)). destruct (fields_fuel k t); [discriminate|congruence].
Qed.

Theorem fields_total l : exists r, fields l = Some r.
Proof.
  unfold fields. pose proof (fields_fuel_suffices (List.length l) l (le_n _)) as H.
  destruct (fields_fuel (List.length l) l) as [r|]; [now exists r|congruence].
Qed.

Theorem fields_wellformed : forall fuel l r, fields_fuel fuel l = Some r ->
  Forall (fun w => w <> [] /\ forallb (fun c => negb (is_space c)) w = true) r.
Proof.
  induction fuel as [|k IH]; intros l r H; simpl in H.
  - destruct (scan_field l) as [[w t]|]; [discriminate|]. inversion H. constructor.
  - destruct (scan_field l) as [[w t]|] eqn:E; [|inversion H; constructor].
    destruct (fields_fuel k t) as [r'|] eqn:F; [|discriminate]. inversion H; subst.
    pose proof (scan_field_progress _ _ _ E) as (A & _ & B). constructor; [split; assumption | eauto].
Qed.

Example fields_example :
  fields (cut_comment (list_ascii_of_string " c1:  3 x1 + 2 y \ RANGE (1, 2)")) =
  Some (map list_ascii_of_string ["c1:"; "3"; "x1"; "+"; "2"; "y"])%string.
Proof. vm_compute. reflexivity. Qed.
