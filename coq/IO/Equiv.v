(* IO/Equiv.v -- problems "by name" as the dumps of the I/O checks deliver them, the executable
   comparison [equiv_by_name] used as the round-trip oracle of C08/C09/C10, and its meaning:
   equal objective sense, equal objective function, equal integrality marks and - when the
   dropped empty rows of the first problem are satisfiable - the same feasible set, for every
   assignment of values to names.  Names are interned to [N] by the check. *)
From QSX Require Import Base.QSum LP.User.
From Coq Require Import NArith.
Local Open Scope Q_scope.

Record ncol := { nc_name : N; nc_obj : Q; nc_lo : Q; nc_up : Q; nc_int : bool }.
Record nrow := { nr_name : N; nr_sense : sense; nr_rhs : Q; nr_range : Q; nr_ent : list (N * Q) }.
Record nlp := { n_max : bool; n_cols : list ncol; n_rows : list nrow }.

(* ---- semantics over valuations of names ------------------------------------------ *)

Definition act (e : list (N * Q)) (v : N -> Q) : Q :=
  fold_right (fun p a => snd p * v (fst p) + a) 0 e.

Definition sat (s : sense) (a rhs range : Q) : Prop :=
  match s with
  | SL => a <= rhs
  | SG => rhs <= a
  | SE => a == rhs
  | SR => rhs <= a /\ a <= rhs + range
  end.

Definition row_sat (v : N -> Q) (r : nrow) : Prop := sat (nr_sense r) (act (nr_ent r) v) (nr_rhs r) (nr_range r).

Section Sem.
  Variable M : Q.       (* the sentinel: a bound equal to -M / M means "none" *)
  Definition col_sat (v : N -> Q) (c : ncol) : Prop :=
    (nc_lo c == - M \/ nc_lo c <= v (nc_name c)) /\ (nc_up c == M \/ v (nc_name c) <= nc_up c).
  Definition nfeasible (P : nlp) (v : N -> Q) : Prop :=
    Forall (row_sat v) (n_rows P) /\ Forall (col_sat v) (n_cols P).
End Sem.

Definition obj_ent (P : nlp) : list (N * Q) := map (fun c => (nc_name c, nc_obj c)) (n_cols P).
Definition nobj (P : nlp) (v : N -> Q) : Q := act (obj_ent P) v.
Definition is_int (P : nlp) (nm : N) : bool := existsb (fun c => N.eqb (nc_name c) nm && nc_int c) (n_cols P).

Definition nno_worse (mx : bool) (a b : Q) : Prop := if mx then b <= a else a <= b.
Definition nis_optimum (M : Q) (P : nlp) (v : N -> Q) (val : Q) : Prop :=
  nfeasible M P v /\ nobj P v == val /\ forall w, nfeasible M P w -> nno_worse (n_max P) val (nobj P w).

(* ---- executable comparison -------------------------------------------------------- *)

Definition coefN (e : list (N * Q)) (nm : N) : Q :=
  fold_right (fun p a => (if N.eqb (fst p) nm then snd p else 0) + a) 0 e.

Definition ent_eqb (e e' : list (N * Q)) : bool :=
  forallb (fun nm => Qeq_bool (coefN e nm) (coefN e' nm)) (map fst e ++ map fst e').

Definition row_empty (r : nrow) : bool := ent_eqb (nr_ent r) [].

Definition sense_eqb (a b : sense) : bool :=
  match a, b with SL, SL | SG, SG | SE, SE | SR, SR => true | _, _ => false end.

Definition row_same (r r' : nrow) : bool :=
  N.eqb (nr_name r) (nr_name r') && sense_eqb (nr_sense r) (nr_sense r') && Qeq_bool (nr_rhs r) (nr_rhs r') &&
  (match nr_sense r with SR => Qeq_bool (nr_range r) (nr_range r') | _ => true end) &&
  ent_eqb (nr_ent r) (nr_ent r').

(* the two halves the LP writer produces for a ranged row: "name: expr >= rhs" then an unnamed "expr <= rhs + range" *)
Definition lower_half (r r' : nrow) : bool :=
  N.eqb (nr_name r) (nr_name r') && sense_eqb (nr_sense r') SG && Qeq_bool (nr_rhs r) (nr_rhs r') && ent_eqb (nr_ent r) (nr_ent r').
Definition upper_half (r r' : nrow) : bool :=
  sense_eqb (nr_sense r') SL && Qeq_bool (nr_rhs r + nr_range r) (nr_rhs r') && ent_eqb (nr_ent r) (nr_ent r').

Fixpoint rows_match (rs rs' : list nrow) : bool :=
  match rs with
  | [] => match rs' with [] => true | _ => false end
  | r :: t =>
    (row_empty r && rows_match t rs') ||
    match rs' with
    | [] => false
    | r1 :: t1 =>
      (row_same r r1 && rows_match t t1) ||
      match nr_sense r, t1 with
      | SR, r2 :: t2 => lower_half r r1 && upper_half r r2 && rows_match t t2
      | _, _ => false
      end
    end
  end.

Definition col_same (c c' : ncol) : bool :=
  N.eqb (nc_name c) (nc_name c') && Qeq_bool (nc_obj c) (nc_obj c') && Qeq_bool (nc_lo c) (nc_lo c') &&
  Qeq_bool (nc_up c) (nc_up c') && Bool.eqb (nc_int c) (nc_int c').

Fixpoint nodupb (l : list N) : bool :=
  match l with [] => true | a :: t => negb (existsb (N.eqb a) t) && nodupb t end.

Definition cols_match (cs cs' : list ncol) : bool :=
  nodupb (map nc_name cs) && nodupb (map nc_name cs') &&
  forallb (fun c => existsb (col_same c) cs') cs && forallb (fun c' => existsb (fun c => col_same c c') cs) cs'.

Definition equiv_by_name (P P' : nlp) : bool :=
  Bool.eqb (n_max P) (n_max P') && cols_match (n_cols P) (n_cols P') && rows_match (n_rows P) (n_rows P').

(* an empty row is a constraint on nothing: satisfiable iff 0 is in its interval *)
Definition empty_ok (P : nlp) : Prop :=
  forall r, In r (n_rows P) -> row_empty r = true -> sat (nr_sense r) 0 (nr_rhs r) (nr_range r).

(* ---- soundness -------------------------------------------------------------------- *)

Lemma coefN_app e1 e2 nm : coefN (e1 ++ e2) nm == coefN e1 nm + coefN e2 nm.
Proof. induction e1 as [|p e IH]; simpl; [ring|]. rewrite IH. ring. Qed.

(* act as a sum over any duplicate-free list of names covering the entries *)
Definition sumL (L : list N) (f : N -> Q) : Q := fold_right (fun nm a => f nm + a) 0 L.

Lemma sumL_ext L f g : (forall nm, In nm L -> f nm == g nm) -> sumL L f == sumL L g.
Proof.
  induction L as [|a L IH]; intros H; simpl; [reflexivity|].
  rewrite (H a (or_introl eq_refl)), IH; [reflexivity|]. intros; apply H; now right.
Qed.

Lemma sumL_add L f g : sumL L (fun nm => f nm + g nm) == sumL L f + sumL L g.
Proof. induction L as [|a L IH]; simpl; [ring|]. rewrite IH. ring. Qed.

Lemma sumL_single L n c (v : N -> Q) :
  NoDup L -> In n L -> sumL L (fun nm => (if N.eqb n nm then c else 0) * v nm) == c * v n.
Proof.
  induction L as [|a L IH]; intros ND IN; [destruct IN|]. simpl.
  inversion ND as [|? ? NI ND']; subst.
  destruct (N.eqb_spec n a) as [E|E].
  - subst a. assert (Z : sumL L (fun nm => (if N.eqb n nm then c else 0) * v nm) == 0).
    { clear IH ND ND' IN. induction L as [|b L IH]; simpl; [reflexivity|].
      destruct (N.eqb_spec n b) as [E|E]; [subst; exfalso; apply NI; now left|].
      rewrite IH; [ring|]. intros H; apply NI; now right. }
    rewrite Z. ring.
  - destruct IN as [IN|IN]; [congruence|]. rewrite (IH ND' IN). ring.
Qed.

Lemma act_sumL e v : forall L, NoDup L -> (forall p, In p e -> In (fst p) L) ->
  act e v == sumL L (fun nm => coefN e nm * v nm).
Proof.
  induction e as [|[n c] e IH]; intros L ND COV; simpl.
  - symmetry. clear. induction L as [|a L IH]; simpl; [reflexivity|]. rewrite IH. ring.
  - rewrite (IH L ND) by (intros; apply COV; now right).
    etransitivity; [|apply sumL_ext; intros nm _;
                     instantiate (1 := fun nm => (if N.eqb n nm then c else 0) * v nm + coefN e nm * v nm); simpl; ring].
    rewrite sumL_add. rewrite sumL_single; [reflexivity | exact ND | apply (COV (n, c)); now left].
Qed.

Fixpoint dedup (l : list N) : list N :=
  match l with [] => [] | a :: t => if existsb (N.eqb a) t then dedup t else a :: dedup t end.

Lemma existsb_Neqb a l : existsb (N.eqb a) l = true <-> In a l.
Proof.
  rewrite existsb_exists. split.
  - intros (x & IN & E). apply N.eqb_eq in E. now subst.
  - intros IN. exists a. split; [exact IN | apply N.eqb_refl].
Qed.

Lemma dedup_in l a : In a (dedup l) <-> In a l.
Proof.
  induction l as [|b l IH]; simpl; [tauto|].
  destruct (existsb (N.eqb b) l) eqn:E.
  - rewrite IH. split; [tauto|]. intros [H|H]; [subst; now apply existsb_Neqb|exact H].
  - simpl. rewrite IH. tauto.
Qed.

Lemma dedup_nodup l : NoDup (dedup l).
Proof.
  induction l as [|b l IH]; simpl; [constructor|].
  destruct (existsb (N.eqb b) l) eqn:E; [exact IH|]. constructor; [|exact IH].
  rewrite dedup_in. intros IN. apply existsb_Neqb in IN. congruence.
Qed.

Lemma coefN_notin e nm : ~ In nm (map fst e) -> coefN e nm == 0.
Proof.
  induction e as [|[n c] e IH]; simpl; intros H; [reflexivity|].
  destruct (N.eqb_spec n nm) as [E|E]; [exfalso; apply H; now left|]. rewrite IH; [ring|tauto].
Qed.

Lemma ent_eqb_act e e' v : ent_eqb e e' = true -> act e v == act e' v.
Proof.
  intros H. unfold ent_eqb in H. rewrite forallb_forall in H.
  set (L := dedup (map fst e ++ map fst e')).
  assert (ND : NoDup L) by apply dedup_nodup.
  rewrite (act_sumL e v L ND), (act_sumL e' v L ND).
  - apply sumL_ext. intros nm IN. unfold L in IN. apply (proj1 (dedup_in _ _)) in IN. specialize (H nm IN). apply Qeq_bool_iff in H. rewrite H. reflexivity.
  - intros p IN. unfold L. apply (proj2 (dedup_in _ _)), in_or_app. right. now apply in_map.
  - intros p IN. unfold L. apply (proj2 (dedup_in _ _)), in_or_app. left. now apply in_map.
Qed.

Lemma sense_eqb_eq a b : sense_eqb a b = true -> a = b.
Proof. destruct a, b; simpl; congruence. Qed.

Lemma sat_ext s a a' r r' g g' : a == a' -> r == r' -> (s = SR -> g == g') -> sat s a r g -> sat s a' r' g'.
Proof.
  intros Ea Er Eg. destruct s; simpl; try (rewrite Ea, Er; tauto).
  rewrite Ea, Er, (Eg eq_refl). tauto.
Qed.

Lemma row_same_sat v r r' : row_same r r' = true -> (row_sat v r <-> row_sat v r').
Proof.
  unfold row_same, row_sat. rewrite !andb_true_iff. intros [[[[_ Hs] Hr] Hg] He].
  apply sense_eqb_eq in Hs. apply Qeq_bool_iff in Hr. pose proof (ent_eqb_act _ _ v He) as Ea.
  rewrite <- Hs.
  assert (G : nr_sense r = SR -> nr_range r == nr_range r') by (intros E; rewrite E in Hg; now apply Qeq_bool_iff).
  split; apply sat_ext; try assumption; try (symmetry; assumption). intros E; symmetry; auto.
Qed.

(* range_split_equiv: an R row is equivalent to its two one-sided halves *)
Lemma range_split_equiv v r r1 r2 :
  nr_sense r = SR -> lower_half r r1 = true -> upper_half r r2 = true ->
  (row_sat v r <-> row_sat v r1 /\ row_sat v r2).
Proof.
  unfold lower_half, upper_half, row_sat. rewrite !andb_true_iff.
  intros SR [[[_ S1] R1] E1] [[S2 R2] E2].
  apply sense_eqb_eq in S1, S2. apply Qeq_bool_iff in R1, R2.
  pose proof (ent_eqb_act _ _ v E1) as A1. pose proof (ent_eqb_act _ _ v E2) as A2.
  rewrite SR, S1, S2. simpl. rewrite <- A1, <- A2, <- R1, <- R2. tauto.
Qed.

Lemma row_empty_sat v r : row_empty r = true -> (row_sat v r <-> sat (nr_sense r) 0 (nr_rhs r) (nr_range r)).
Proof.
  intros H. unfold row_sat. pose proof (ent_eqb_act _ _ v H) as A. simpl in A.
  split; apply sat_ext; try reflexivity; try assumption; try (symmetry; assumption); intros; reflexivity.
Qed.

Lemma rows_match_sound v : forall rs rs', rows_match rs rs' = true ->
  (Forall (row_sat v) rs -> Forall (row_sat v) rs') /\
  ((forall r, In r rs -> row_empty r = true -> sat (nr_sense r) 0 (nr_rhs r) (nr_range r)) ->
   Forall (row_sat v) rs' -> Forall (row_sat v) rs).
Proof.
  induction rs as [|r t IH]; intros rs' H; simpl in H.
  - destruct rs'; [|discriminate]. split; intros; constructor.
  - apply orb_true_iff in H. destruct H as [H|H].
    + apply andb_true_iff in H. destruct H as [HE HM]. destruct (IH _ HM) as [I1 I2]. split.
      * intros F. inversion F; subst. auto.
      * intros EO F. constructor; [apply (row_empty_sat v r HE), EO; [now left|exact HE] | apply I2; [|exact F]].
        intros; apply EO; [now right|assumption].
    + destruct rs' as [|r1 t1]; [discriminate|].
      apply orb_true_iff in H. destruct H as [H|H].
      * apply andb_true_iff in H. destruct H as [HS HM]. destruct (IH _ HM) as [I1 I2].
        pose proof (row_same_sat v r r1 HS) as E. split.
        -- intros F. inversion F; subst. constructor; [now apply E | auto].
        -- intros EO F. inversion F; subst. constructor; [now apply E | apply I2; [|assumption]].
           intros; apply EO; [now right|assumption].
      * destruct (nr_sense r) eqn:SR; try discriminate. destruct t1 as [|r2 t2]; [discriminate|].
        rewrite !andb_true_iff in H. destruct H as [[HL HU] HM]. destruct (IH _ HM) as [I1 I2].
        pose proof (range_split_equiv v r r1 r2 SR HL HU) as E. split.
        -- intros F. inversion F; subst. apply E in H1. destruct H1. repeat constructor; auto.
        -- intros EO F. inversion F as [|? ? F1 F']; subst. inversion F' as [|? ? F2 F'']; subst.
           constructor; [apply E; now split | apply I2; [|assumption]].
           intros; apply EO; [now right|assumption].
Qed.

Lemma col_same_sat M v c c' : col_same c c' = true -> (col_sat M v c <-> col_sat M v c').
Proof.
  unfold col_same, col_sat. rewrite !andb_true_iff. intros [[[[Hn _] Hl] Hu] _].
  apply N.eqb_eq in Hn. apply Qeq_bool_iff in Hl, Hu. rewrite Hn, Hl, Hu. tauto.
Qed.

Lemma cols_match_sat M v cs cs' : cols_match cs cs' = true ->
  (Forall (col_sat M v) cs <-> Forall (col_sat M v) cs').
Proof.
  unfold cols_match. rewrite !andb_true_iff. intros [[_ H1] H2].
  rewrite forallb_forall in H1, H2. rewrite !Forall_forall. split; intros F c IN.
  - specialize (H2 c IN). apply existsb_exists in H2. destruct H2 as (c0 & IN0 & E).
    apply (col_same_sat M v c0 c E). auto.
  - specialize (H1 c IN). apply existsb_exists in H1. destruct H1 as (c0 & IN0 & E).
    apply (col_same_sat M v c c0 E). auto.
Qed.

Lemma nodupb_NoDup l : nodupb l = true -> NoDup l.
Proof.
  induction l as [|a l IH]; simpl; intros H; [constructor|].
  apply andb_true_iff in H. destruct H as [H1 H2]. constructor; [|auto].
  intros IN. apply existsb_Neqb in IN. rewrite IN in H1. discriminate.
Qed.

(* with duplicate-free names the coefficient function of the objective is the column's objective *)
Lemma coefN_obj cs : NoDup (map nc_name cs) -> forall c, In c cs ->
  coefN (map (fun c => (nc_name c, nc_obj c)) cs) (nc_name c) == nc_obj c.
Proof.
  induction cs as [|a cs IH]; intros ND c IN; [destruct IN|]. simpl in *.
  inversion ND as [|? ? NI ND']; subst. destruct IN as [E|IN].
  - subst a. rewrite N.eqb_refl. rewrite coefN_notin; [ring|].
    rewrite map_map. simpl. exact NI.
  - destruct (N.eqb_spec (nc_name a) (nc_name c)) as [E|E].
    + exfalso. apply NI. rewrite E. now apply in_map.
    + rewrite (IH ND' c IN). ring.
Qed.

Lemma cols_match_obj cs cs' : cols_match cs cs' = true ->
  ent_eqb (map (fun c => (nc_name c, nc_obj c)) cs) (map (fun c => (nc_name c, nc_obj c)) cs') = true.
Proof.
  unfold cols_match. rewrite !andb_true_iff. intros [[[N1 N2] H1] H2].
  apply nodupb_NoDup in N1, N2. rewrite forallb_forall in H1, H2.
  unfold ent_eqb. apply forallb_forall. intros nm IN. apply Qeq_bool_iff.
  rewrite !map_map in IN. simpl in IN.
  assert (G : forall c c', In c cs -> In c' cs' -> col_same c c' = true ->
              coefN (map (fun c => (nc_name c, nc_obj c)) cs) (nc_name c) ==
              coefN (map (fun c => (nc_name c, nc_obj c)) cs') (nc_name c)).
  { intros c c' I I' E. rewrite (coefN_obj cs N1 c I).
    unfold col_same in E. rewrite !andb_true_iff in E. destruct E as [[[[En Eo] _] _] _].
    apply N.eqb_eq in En. apply Qeq_bool_iff in Eo. rewrite En, (coefN_obj cs' N2 c' I'). exact Eo. }
  apply in_app_or in IN. destruct IN as [IN|IN]; apply in_map_iff in IN; destruct IN as (c & E & IN); subst nm.
  - specialize (H1 c IN). apply existsb_exists in H1. destruct H1 as (c' & IN' & E). eauto.
  - specialize (H2 c IN). apply existsb_exists in H2. destruct H2 as (c0 & IN0 & E).
    assert (En : nc_name c0 = nc_name c).
    { unfold col_same in E. rewrite !andb_true_iff in E. destruct E as [[[[En _] _] _] _]. now apply N.eqb_eq in En. }
    rewrite <- En. eauto.
Qed.

Lemma cols_match_int cs cs' nm : cols_match cs cs' = true ->
  existsb (fun c => N.eqb (nc_name c) nm && nc_int c) cs = existsb (fun c => N.eqb (nc_name c) nm && nc_int c) cs'.
Proof.
  unfold cols_match. rewrite !andb_true_iff. intros [[_ H1] H2]. rewrite forallb_forall in H1, H2.
  assert (G : forall c c', col_same c c' = true -> N.eqb (nc_name c) nm && nc_int c = N.eqb (nc_name c') nm && nc_int c').
  { intros c c' E. unfold col_same in E. rewrite !andb_true_iff in E. destruct E as [[[[En _] _] _] Ei].
    apply N.eqb_eq in En. apply Bool.eqb_prop in Ei. now rewrite En, Ei. }
  apply Bool.eq_iff_eq_true. rewrite !existsb_exists. split; intros (c & IN & E).
  - specialize (H1 c IN). apply existsb_exists in H1. destruct H1 as (c' & IN' & E'). exists c'. split; [exact IN'|].
    now rewrite <- (G c c' E').
  - specialize (H2 c IN). apply existsb_exists in H2. destruct H2 as (c0 & IN0 & E'). exists c0. split; [exact IN0|].
    now rewrite (G c0 c E').
Qed.

Theorem equiv_by_name_sound M P P' :
  equiv_by_name P P' = true ->
  n_max P = n_max P' /\
  (forall v, nobj P v == nobj P' v) /\
  (forall nm, is_int P nm = is_int P' nm) /\
  (forall v, nfeasible M P v -> nfeasible M P' v) /\
  (empty_ok P -> forall v, nfeasible M P' v -> nfeasible M P v).
Proof.
  unfold equiv_by_name. rewrite !andb_true_iff. intros [[Hm Hc] Hr].
  split; [now apply Bool.eqb_prop|].
  split; [intros v; apply ent_eqb_act, cols_match_obj, Hc|].
  split; [intros nm; apply cols_match_int, Hc|].
  split.
  - intros v [F1 F2]. split; [apply (rows_match_sound v _ _ Hr), F1 | apply (cols_match_sat M v _ _ Hc), F2].
  - intros EO v [F1 F2]. split; [apply (rows_match_sound v _ _ Hr); [exact EO|exact F1] | apply (cols_match_sat M v _ _ Hc), F2].
Qed.

(* consequently: same optima (the "same status and value" half is then checked by solving both) *)
Theorem equiv_same_optimum M P P' v val :
  equiv_by_name P P' = true -> empty_ok P -> (nis_optimum M P v val <-> nis_optimum M P' v val).
Proof.
  intros E EO. destruct (equiv_by_name_sound M P P' E) as (Hm & Ho & _ & F1 & F2). specialize (F2 EO).
  unfold nis_optimum. rewrite <- Hm. split; intros (Fe & Ov & Best).
  - split; [auto|]. split; [rewrite <- (Ho v); exact Ov|]. intros w Fw. specialize (Best w (F2 w Fw)).
    unfold nno_worse in *. destruct (n_max P); rewrite <- (Ho w); exact Best.
  - split; [auto|]. split; [rewrite (Ho v); exact Ov|]. intros w Fw. specialize (Best w (F1 w Fw)).
    unfold nno_worse in *. destruct (n_max P); rewrite (Ho w); exact Best.
Qed.

Example equiv_example :
  let r := {| nr_name := 7; nr_sense := SR; nr_rhs := 1; nr_range := 2; nr_ent := [(1%N, 1); (2%N, 3 # 2)] |} in
  let c1 := {| nc_name := 1; nc_obj := 1; nc_lo := 0; nc_up := 5; nc_int := false |} in
  let c2 := {| nc_name := 2; nc_obj := 0; nc_lo := 0; nc_up := 5; nc_int := true |} in
  let P := {| n_max := false; n_cols := [c1; c2]; n_rows := [r; {| nr_name := 9; nr_sense := SL; nr_rhs := 0; nr_range := 0; nr_ent := [] |}] |} in
  let P' := {| n_max := false; n_cols := [c2; c1];
               n_rows := [ {| nr_name := 7; nr_sense := SG; nr_rhs := 1; nr_range := 0; nr_ent := [(2%N, 3 # 2); (1%N, 1)] |};
                           {| nr_name := 8; nr_sense := SL; nr_rhs := 3; nr_range := 0; nr_ent := [(1%N, 1 # 2); (2%N, 3 # 2); (1%N, 1 # 2)] |} ] |} in
  equiv_by_name P P' = true /\ equiv_by_name P' P = false.
Proof. vm_compute. split; reflexivity. Qed.
