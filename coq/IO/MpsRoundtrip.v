(* IO/MpsRoundtrip.v -- the MPS round trip at file level:
     mps_roundtrip : wf_mps M P -> exists P', read_mps true M (write_mps M P) = Some P' /\
                                              equiv_by_name (mlp_to_nlp P) (mlp_to_nlp P') = true
   (and mps_roundtrip_strong: column by column, used row by used row - ranged rows come back as ranged rows - every
   number equal as a rational), for the line-level models IO/MpsWrite.write_mps and IO/MpsRead.read_mps.
   Layers: fields and records (IO/MpsTok.v), sections (IO/MpsSections.v), the file and the conversion (here),
   the comparison oracle (IO/MpsEquiv.v).
   The precondition [wf_mps] is the precondition of C08/C09 on a column-wise problem plus what the MPS format and the
   reader's blank-set-name heuristic need; see the comments at its fields.  Without the last three fields the statement
   is false: [mps_roundtrip_setname_clash_refuted]. *)
From Coq Require Import QArith List Ascii String Bool Arith NArith Lia Lqa.
From QSX Require Import Base.QSum LP.User IO.Num IO.NumSound IO.Bounds IO.Ranges IO.Lex IO.Equiv IO.LpWrite IO.LpRead IO.LpTok IO.LpFinish
  IO.MpsWrite IO.MpsRead IO.MpsTotal IO.MpsTok IO.MpsSections IO.MpsEquiv.
Import ListNotations.
Local Open Scope Q_scope.

(* ---- small list facts ------------------------------------------------------------------------------------------------ *)
Lemma filter_none {A} (f : A -> bool) l : (forall x, In x l -> f x = false) -> filter f l = [].
Proof. induction l as [|a l IH]; intros H; [reflexivity|]. cbn [filter]. rewrite (H a (or_introl eq_refl)). apply IH. intros; apply H; now right. Qed.
Lemma filter_all {A} (f : A -> bool) l : (forall x, In x l -> f x = true) -> filter f l = l.
Proof. induction l as [|a l IH]; intros H; [reflexivity|]. cbn [filter]. rewrite (H a (or_introl eq_refl)). f_equal. apply IH. intros; apply H; now right. Qed.
Lemma existsb_none {A} (f : A -> bool) l : (forall x, In x l -> f x = false) -> existsb f l = false.
Proof. induction l as [|a l IH]; intros H; [reflexivity|]. cbn [existsb]. rewrite (H a (or_introl eq_refl)). apply IH. intros; apply H; now right. Qed.
Lemma find_exists {A} (f : A -> bool) l : (exists x, In x l /\ f x = true) -> exists y, find f l = Some y /\ In y l /\ f y = true.
Proof.
  induction l as [|a l IH]; intros (x & IN & FX); [destruct IN|]. cbn [find]. destruct (f a) eqn:FA; [exists a; repeat split; auto; now left|].
  destruct IN as [<-|IN]; [congruence|]. destruct (IH (ex_intro _ x (conj IN FX))) as (y & F & I1 & FY). exists y. repeat split; auto. now right.
Qed.
Lemma find_map_name {A} (nmf : A -> name) (G : A -> A) n l : (forall r, nmf (G r) = nmf r) ->
  find (fun r => leqb (nmf r) n) (map G l) = option_map G (find (fun r => leqb (nmf r) n) l).
Proof. intros NP. induction l as [|a l IH]; [reflexivity|]. cbn [map find]. rewrite NP. destruct (leqb (nmf a) n); [reflexivity|exact IH]. Qed.

Lemma nodup_map_filter {A B} (f : A -> B) (g : A -> bool) l : NoDup (map f l) -> NoDup (map f (filter g l)).
Proof.
  induction l as [|r l IH]; intros ND; [constructor|]. cbn [map] in ND. inversion ND as [|? ? NI ND']; subst. cbn [filter].
  destruct (g r); [|now apply IH]. cbn [map]. constructor; [|now apply IH].
  intros H. apply NI. apply in_map_iff in H. destruct H as (x & E & IN). apply filter_In in IN. rewrite <- E. apply in_map, IN.
Qed.

Lemma is_nil_map {A B} (f : A -> B) l : l <> [] -> is_nil (map f l) = false.
Proof. destruct l; [congruence|reflexivity]. Qed.

Section RT.
  Variable M : Q.
  Hypothesis HM : 0 < M.

  (* ---- the BOUNDS records with re-read values denote the bounds ------------------------------------------------------------ *)
  Definition apply_rd (b : bst) (r : mrec) : bst := fst (set_bound M (rec_type r) (rec_val r) b false).

  Lemma mps_decode_rd lo up isint : lo <= up ->
    let r := fill_in M (fold_left apply_rd (mps_records M lo up isint) bst0) isint in fst r == lo /\ snd r == up.
  Proof.
    intros LE. unfold mps_records.
    pose proof (proj2 (rr_spec lo [] I)) as RL. pose proof (proj2 (rr_spec up [] I)) as RU.
    destruct (Qeq_bool lo up) eqn:E1.
    { apply Qeq_bool_iff in E1. cbn -[rr]. split; [exact RL|]. rewrite RL. exact E1. }
    destruct (Qeq_bool lo (- M) && Qeq_bool up M) eqn:E2.
    { apply andb_true_iff in E2. destruct E2 as [A B]. apply Qeq_bool_iff in A, B. cbn. split; symmetry; assumption. }
    unfold default_lower, default_upper.
    pose proof (Qltb_comp (rr up) up RU) as QU.
    destruct (Qeq_bool lo 0) eqn:L0; destruct (Qltb up 0) eqn:U0; destruct (Qeq_bool lo (- M)) eqn:LM;
      destruct isint; destruct (Qeq_bool up 1) eqn:U1; destruct (Qeq_bool up M) eqn:UM;
      cbn -[Qltb rr]; rewrite ?QU; cbn -[Qltb rr];
      repeat match goal with
             | H : Qeq_bool _ _ = true |- _ => apply Qeq_bool_iff in H
             | H : Qeq_bool _ _ = false |- _ => apply Qeq_bool_neq in H
             | H : Qltb _ _ = true |- _ => apply Qltb_lt in H
             | H : Qltb _ _ = false |- _ => apply Qltb_false in H
             end;
      try (split; (reflexivity || (symmetry; assumption) || lra)); try (exfalso; lra);
      try (destruct (Qltb M 0) eqn:MM; [apply Qltb_lt in MM; lra|]; cbn -[rr]; split; (reflexivity || (symmetry; assumption) || lra)).
  Qed.

  Lemma set_bound_rec_int r v b i : snd (set_bound M (rec_type r) v b i) = i.
  Proof. destruct r; reflexivity. Qed.
  Lemma set_bound_rec_bst r v b i : fst (set_bound M (rec_type r) v b i) = fst (set_bound M (rec_type r) v b false).
  Proof. destruct r; reflexivity. Qed.

  Variable P : mlp.
  Let on := m_objname P.
  Let cols := m_cols P.
  Let used := filter (row_used cols) (m_rows P).
  Let S0 := sections_of M P.

  (* ---- the precondition ---------------------------------------------------------------------------------------------------------- *)
  Definition row_names : list name := on :: map mr_name used.
  Definition has_records (c : mcol) : Prop := mps_records M (mc_lo c) (mc_up c) (mc_int c) <> [].

  Record wf_core : Prop := {
    (* names are words (no blank, tab, CR, FF, VT, newline, NUL; not empty) and do not spell 'MARKER' at a quote *)
    w_on : word on /\ has_marker on = false;
    w_cols : forall c, In c cols -> word (mc_name c) /\ has_marker (mc_name c) = false;
    w_rows : forall r, In r used -> word (mr_name r) /\ has_marker (mr_name r) = false;
    (* the precondition of C08 / C09 (IO/MpsWrite.v) *)
    w_cwf : cols_wf P;
    w_rwf : rows_wf P;
    w_ents : forall c e, In c cols -> In e (mc_ent c) -> In (fst e) (map mr_name (m_rows P));
    w_fresh : ~ In on (map mr_name used);
    w_some : used <> [];
    (* a '$' opens a comment from the third field of a BOUNDS record on *)
    w_dollar : forall c, In c cols -> has_records c -> no_dollar (mc_name c) }.

  (* the set names the writer uses for the RHS, RANGES and BOUNDS sections *)
  Variables nrh nrg nbn : name.
  Hypothesis Wrh : word nrh.
  Hypothesis Wrg : word nrg.
  Hypothesis Wbn : word nbn.

  (* the blank-set-name heuristic: when the writer's set name is itself a row (column) name, no row (column) that
     occurs in the section may start like a number *)
  Definition set_ok : Prop :=
    (In nrh row_names -> forall r, In r used -> rhs_entry r <> None -> numlike (mr_name r) = false) /\
    (In nrg row_names -> forall r, In r used -> range_entry r <> None -> numlike (mr_name r) = false) /\
    (In nbn (map mc_name cols) -> forall c, In c cols -> has_records c -> numlike (mc_name c) = false).

  Hypothesis WF : wf_core.
  Hypothesis SO : set_ok.

  (* ---- facts about the sections ------------------------------------------------------------------------------------------------ *)
  Lemma used_in r : In r used -> In r (m_rows P).
  Proof. intros IN. exact (proj1 (proj1 (filter_In _ _ _) IN)). Qed.
  Lemma used_nodup : NoDup (map mr_name used).
  Proof. apply nodup_map_filter. apply (w_rwf WF). Qed.

  Lemma ent_row_used c e : In c cols -> In e (mc_ent c) -> In (fst e) (map mr_name used).
  Proof.
    intros IC IE. destruct (proj1 (in_map_iff _ _ _) (w_ents WF c e IC IE)) as (r & EN & IR).
    apply in_map_iff. exists r. split; [exact EN|]. unfold used. apply filter_In. split; [exact IR|].
    unfold row_used. apply existsb_exists. exists c. split; [exact IC|]. apply existsb_exists. exists e. split; [exact IE|]. rewrite EN. apply leqb_refl.
  Qed.

  Lemma cols_nonempty : cols <> [].
  Proof.
    intros E. apply (w_some WF). unfold used. rewrite E. apply filter_none. intros; reflexivity.
  Qed.

  Lemma in_opt_entries g (l : list mrow) e : In e (opt_entries g l) -> exists r, In r l /\ g r = Some (snd e) /\ fst e = mr_name r.
  Proof.
    unfold opt_entries. intros IN. apply in_flat_map in IN as (r & IR & IE). destruct (g r) as [v|] eqn:G; [|destruct IE].
    destruct IE as [<-|[]]. exists r. auto.
  Qed.
  Lemma opt_entries_names g (l : list mrow) n : In n (map fst (opt_entries g l)) -> In n (map mr_name l).
  Proof. intros IN. apply in_map_iff in IN as (e & <- & IE). destruct (in_opt_entries g l e IE) as (r & IR & _ & ->). now apply in_map. Qed.
  Lemma opt_entries_nodup g (l : list mrow) : NoDup (map mr_name l) -> NoDup (map fst (opt_entries g l)).
  Proof.
    induction l as [|r l IH]; intros ND; [constructor|]. inversion ND as [|? ? NI ND']; subst. unfold opt_entries in *. cbn [flat_map].
    destruct (g r); cbn [app map fst]; [|now apply IH]. constructor; [|now apply IH]. intros H. apply NI. now apply (opt_entries_names g l).
  Qed.

  (* ---- the written file ------------------------------------------------------------------------------------------------------------ *)
  Definition rng_lines (ro : option (list (name * Q))) : list line :=
    match ro with Some l => s2l "RANGES" :: map (fun e => set_line nrg (fst e) (snd e)) l | None => [] end.
  Definition bnd_lines (items : list (mrec * name)) : list line := match items with [] => [] | it :: l => s2l "BOUNDS" :: map (mrec_line_gen nbn) (it :: l) end.
  Definition rng_part : list line := rng_lines (sec_ranges S0).
  Definition bnd_part : list line := bnd_lines (sec_bounds S0).
  Definition the_file : list line := render_gen nrh nrg nbn S0.

  Lemma write_shape : the_file =
    [s2l "NAME    " ++ m_probname P; s2l "OBJSENSE"; (if m_max P then s2l "  MAX" else s2l "  MIN"); s2l "OBJNAME"; s2l "  " ++ on; s2l "ROWS"] ++
    ((s2l " N  " ++ on) :: (map (fun sr : sense * name => sense_key (fst sr) ++ snd sr) (sec_rows S0) ++
      (s2l "COLUMNS" :: (map citem_line (sec_cols S0) ++
        (s2l "RHS" :: (map (fun e => set_line nrh (fst e) (snd e)) (sec_rhs S0) ++ (rng_part ++ (bnd_part ++ [s2l "ENDATA"])))))))).
  Proof.
    unfold the_file, render_gen, rng_part, bnd_part, rng_lines, bnd_lines, S0.
    cbn [sections_of sec_name sec_max sec_objname sec_rows sec_cols sec_rhs sec_ranges sec_bounds app]. rewrite <- ?app_assoc. reflexivity.
  Qed.

  Definition objrow : xrow := new_row on None.
  Definition rows2 : list xrow := objrow :: map xrow_new (sec_rows S0).
  Definition cols4 : list xcol := map (xcol0 on) cols.
  Definition rows6 : list xrow := rows_upd (fun v => set_rhs_row (rr v)) (sec_rhs S0) rows2.
  Definition rows8 : list xrow := rows_upd (fun v => set_rng_row (rr v)) (match sec_ranges S0 with Some l => l | None => [] end) rows6.
  Definition cols10 : list xcol := cols_bnd M (sec_bounds S0) cols4.

  Lemma sec_rows_names : map snd (sec_rows S0) = map mr_name used.
  Proof. unfold S0. cbn [sections_of sec_rows]. rewrite map_map. reflexivity. Qed.

  Lemma rows2_names : map xw_name rows2 = row_names.
  Proof. unfold rows2, row_names. cbn [map objrow new_row xw_name]. rewrite map_map. cbn [xrow_new new_row xw_name]. now rewrite <- sec_rows_names. Qed.

  Lemma existsb_names (rows : list xrow) n : existsb (fun w => leqb (xw_name w) n) rows = true <-> In n (map xw_name rows).
  Proof.
    split.
    - intros H. apply existsb_exists in H as (w & IN & E). destruct (leqb_spec (xw_name w) n); [|discriminate]. subst. now apply in_map.
    - intros H. apply in_map_iff in H as (w & <- & IN). apply existsb_exists. exists w. split; [exact IN|apply leqb_refl].
  Qed.
  Lemma existsb_cnames (cs : list xcol) n : existsb (fun w => leqb (xc_name w) n) cs = true <-> In n (map xc_name cs).
  Proof.
    split.
    - intros H. apply existsb_exists in H as (w & IN & E). destruct (leqb_spec (xc_name w) n); [|discriminate]. subst. now apply in_map.
    - intros H. apply in_map_iff in H as (w & <- & IN). apply existsb_exists. exists w. split; [exact IN|apply leqb_refl].
  Qed.

  Lemma find_rows2 n : In n (map mr_name used) ->
    exists row, find (fun r => leqb (xw_name r) n) rows2 = Some row /\ xw_rhsind row = false /\ xw_sense row <> None /\ xw_rng row = None.
  Proof.
    intros IN.
    destruct (find_exists (fun r => leqb (xw_name r) n) rows2) as (y & F & IY & FY).
    { apply existsb_exists. apply existsb_names. rewrite rows2_names. now right. }
    exists y. split; [exact F|]. destruct IY as [<-|IY].
    - exfalso. cbn [objrow new_row xw_name] in FY. destruct (leqb_spec on n); [|discriminate]. subst n. exact (w_fresh WF IN).
    - apply in_map_iff in IY as (sr & <- & _). cbn. repeat split; discriminate.
  Qed.

  Lemma cols4_names : map xc_name cols4 = map mc_name cols.
  Proof. unfold cols4. rewrite map_map. reflexivity. Qed.

  (* ---- conditional sections ---------------------------------------------------------------------------------------------------------------- *)
  Lemma ranges_part nm mx (ro : option (list (name * Q))) rest a :
    existsb (skey_eqb KRanges) (a_seen a) = false -> existsb (skey_eqb KRows) (a_seen a) = true -> a_rg a = None ->
    (forall l, ro = Some l -> NoDup (map fst l) /\ forall e, In e l -> rng_ok nrg (a_rows a) e) ->
    exists a', mrun M (rng_lines ro ++ rest) (mk nm mx on a)
               = mrun M rest (mk nm mx on a') /\
               a_rows a' = rows_upd (fun v => set_rng_row (rr v)) (match ro with Some l => l | None => [] end) (a_rows a) /\
               a_cols a' = a_cols a /\ a_bn a' = a_bn a /\
               existsb (skey_eqb KBounds) (a_seen a') = existsb (skey_eqb KBounds) (a_seen a) /\
               existsb (skey_eqb KCols) (a_seen a') = existsb (skey_eqb KCols) (a_seen a).
  Proof.
    intros NS KR RG OK. destruct ro as [l|]; unfold rng_lines.
    - destruct (OK l eq_refl) as [ND OKl]. cbn [app].
      rewrite (head_read M nm mx on (s2l "RANGES") (s2l "RANGES") KRanges ARanges a _ scan_ranges ltac:(discriminate) eq_refl eq_refl NS); [|unfold order_ok, seen; cbn [mk x_seen]; exact KR|reflexivity].
      destruct (ranges_read M nm mx on nrg Wrg l rest (with_head a KRanges ARanges) eq_refl (or_introl RG) ND OKl) as (rg & R).
      eexists. split; [exact R|]. cbn. repeat split; reflexivity.
    - exists a. cbn [app]. rewrite rows_upd_nil. repeat split; reflexivity.
  Qed.

  Lemma cols_bnd_nil cs : cols_bnd M [] cs = cs.
  Proof. unfold cols_bnd. cbn [fold_left]. apply map_id. Qed.

  Lemma bounds_part nm mx (items : list (mrec * name)) rest a :
    existsb (skey_eqb KBounds) (a_seen a) = false -> existsb (skey_eqb KCols) (a_seen a) = true -> a_bn a = None ->
    (forall it, In it items -> bnd_ok nbn (a_cols a) it) ->
    exists a', mrun M (bnd_lines items ++ rest) (mk nm mx on a) = mrun M rest (mk nm mx on a') /\
               a_rows a' = a_rows a /\ a_cols a' = cols_bnd M items (a_cols a).
  Proof.
    intros NS KC BN OK. destruct items as [|it items]; unfold bnd_lines.
    - exists a. rewrite cols_bnd_nil. repeat split; reflexivity.
    - cbn [app].
      rewrite (head_read M nm mx on (s2l "BOUNDS") (s2l "BOUNDS") KBounds ABounds a _ scan_bounds ltac:(discriminate) eq_refl eq_refl NS); [|unfold order_ok, seen; cbn [mk x_seen]; exact KC|reflexivity].
      destruct (bounds_read M nm mx on nbn Wbn (it :: items) rest (with_head a KBounds ABounds) eq_refl (or_introl BN) OK) as (bn & R).
      eexists. split; [exact R|]. cbn. split; reflexivity.
  Qed.

  (* ---- the COLUMNS records are well formed ------------------------------------------------------------------------------------------------------ *)
  Lemma in_rows2 n : In n row_names -> existsb (fun w => leqb (xw_name w) n) rows2 = true.
  Proof. intros IN. apply existsb_names. now rewrite rows2_names. Qed.

  Lemma col_items_ok hasint : forall cs ri mode, (forall c, In c cs -> In c cols) -> Forall (citem_ok rows2) (col_items hasint on cs ri mode).
  Proof.
    induction cs as [|c cs IH]; intros ri mode SUB.
    - cbn [col_items]. destruct mode; repeat constructor.
    - cbn [col_items]. assert (IC : In c cols) by (apply SUB; now left). destruct (w_cols WF c IC) as [WC HC]. destruct (w_on WF) as [WO HO].
      apply Forall_app. split; [destruct (hasint && negb (Bool.eqb (mc_int c) mode)); repeat constructor|].
      apply Forall_app. split.
      { destruct (Qeq_bool (mc_obj c) 0); [constructor|]. constructor; [|constructor].
        refine (conj WC (conj WO (conj HC (conj HO _)))). apply in_rows2. now left. }
      apply Forall_app. split; [|apply IH; intros; apply SUB; now right].
      apply Forall_forall. intros it IN. apply in_map_iff in IN as (e & <- & IE). cbn [citem_ok].
      pose proof (ent_row_used c e IC IE) as IU. apply in_map_iff in IU as (r & ER & IR). destruct (w_rows WF r IR) as [WR HR].
      rewrite <- ER. refine (conj WC (conj WR (conj HC (conj HR _)))). apply in_rows2. right. now apply in_map.
  Qed.

  (* ---- the file ------------------------------------------------------------------------------------------------------------------------------------ *)
  Theorem file_read : exists nm af, mrun M the_file xraw0 = MOk (mk nm (m_max P) on af) /\ a_rows af = rows8 /\ a_cols af = cols10.
  Proof.
    destruct (w_on WF) as [WO HO]. destruct (w_cwf WF) as (CND & CW & CNE & CHI).
    rewrite write_shape.
    destruct (header_read M (m_probname P) (m_max P) on
               ((s2l " N  " ++ on) :: (map (fun sr : sense * name => sense_key (fst sr) ++ snd sr) (sec_rows S0) ++
                 (s2l "COLUMNS" :: (map citem_line (sec_cols S0) ++
                   (s2l "RHS" :: (map (fun e => set_line nrh (fst e) (snd e)) (sec_rhs S0) ++ (rng_part ++ (bnd_part ++ [s2l "ENDATA"]))))))))
               WO) as (nm & H1).
    exists nm. rewrite H1, (header_state nm (m_max P) on).
    set (a0 := {| a_rows := []; a_cols := []; a_seen := [KRows; KObjname; KObjsense; KName]; a_act := ARows; a_rh := None; a_rg := None; a_bn := None; a_iv := false |}).
    rewrite (objrow_read M nm (m_max P) on a0 _ WO eq_refl eq_refl).
    rewrite (rows_read M nm (m_max P) on (sec_rows S0) _ (with_rows a0 [new_row on None]) eq_refl).
    2:{ rewrite sec_rows_names. exact used_nodup. }
    2:{ intros sr IN. assert (IU : In (snd sr) (map mr_name used)) by (rewrite <- sec_rows_names; now apply in_map).
        apply in_map_iff in IU as (r & ER & IR). destruct (w_rows WF r IR) as [WR _]. rewrite <- ER. split; [exact WR|].
        cbn [with_rows a_rows existsb new_row xw_name]. rewrite orb_false_r. destruct (leqb_spec on (mr_name r)) as [E|E]; [|reflexivity].
        exfalso. apply (w_fresh WF). rewrite E. now apply in_map. }
    set (a2 := with_rows (with_rows a0 [new_row on None]) (a_rows (with_rows a0 [new_row on None]) ++ map xrow_new (sec_rows S0))).
    assert (R2 : a_rows a2 = rows2) by reflexivity.
    rewrite (head_read M nm (m_max P) on (s2l "COLUMNS") (s2l "COLUMNS") KCols ACols a2 _ scan_columns ltac:(discriminate) eq_refl eq_refl eq_refl eq_refl eq_refl).
    rewrite (columns_lines M (sec_cols S0) _ (mk nm (m_max P) on (with_head a2 KCols ACols)) eq_refl eq_refl).
    2:{ cbn [mk x_rows with_head a_rows]. rewrite R2. unfold S0. cbn [sections_of sec_cols]. apply col_items_ok. auto. }
    change (sec_cols S0) with (col_items (m_intmarker P) on cols 0 false).
    rewrite (cols_fold nm (m_max P) on (m_intmarker P) cols 0 false (with_head a2 KCols ACols) eq_refl).
    2:{ destruct CHI as [H|H]; [now left|right; split; [reflexivity|exact H]]. }
    2:{ exact CNE. } 2:{ exact CND. } 2:{ intros; reflexivity. }
    set (a4 := with_cols (with_head a2 KCols ACols) (a_cols (with_head a2 KCols ACols) ++ map (xcol0 on) cols) false).
    rewrite (head_read M nm (m_max P) on (s2l "RHS") (s2l "RHS") KRhs ARhs a4 _ scan_rhs ltac:(discriminate) eq_refl eq_refl eq_refl eq_refl eq_refl).
    destruct (rhs_read M nm (m_max P) on nrh Wrh (sec_rhs S0) (rng_part ++ (bnd_part ++ [s2l "ENDATA"])) (with_head a4 KRhs ARhs) eq_refl (or_introl eq_refl)) as (rh & H6).
    { unfold S0. cbn [sections_of sec_rhs]. apply opt_entries_nodup, used_nodup. }
    { intros e IE. unfold S0 in IE. cbn [sections_of sec_rhs] in IE. destruct (in_opt_entries _ _ _ IE) as (r & IR & GR & EN).
      change (a_rows (with_head a4 KRhs ARhs)) with rows2. destruct (w_rows WF r IR) as [WR _]. unfold rhs_ok. rewrite EN.
      split; [exact WR|]. split.
      - destruct (find_rows2 (mr_name r) (in_map mr_name _ _ IR)) as (row & F & A & B & _). exists row. auto.
      - intros HR. apply (proj1 SO); [|exact IR|congruence]. rewrite <- rows2_names. now apply existsb_names. }
    rewrite H6.
    set (a6 := with_rh (with_rows (with_head a4 KRhs ARhs) (rows_upd (fun v => set_rhs_row (rr v)) (sec_rhs S0) (a_rows (with_head a4 KRhs ARhs)))) rh).
    assert (R6 : a_rows a6 = rows6) by reflexivity.
    destruct (ranges_part nm (m_max P) (sec_ranges S0) (bnd_part ++ [s2l "ENDATA"]) a6 eq_refl eq_refl eq_refl) as (a8 & H8 & R8 & C8 & B8 & SB8 & SC8).
    { intros l EL. unfold S0 in EL. cbn [sections_of sec_ranges] in EL. destruct (m_rangeval P); [|discriminate]. inversion EL; subst l. clear EL.
      split; [apply opt_entries_nodup, used_nodup|].
      intros e IE. destruct (in_opt_entries _ _ _ IE) as (r & IR & GR & EN). rewrite R6. destruct (w_rows WF r IR) as [WR _]. unfold rng_ok. rewrite EN.
      split; [exact WR|]. split.
      - destruct (find_rows2 (mr_name r) (in_map mr_name _ _ IR)) as (row & F & A & B & C).
        unfold rows6, rows_upd. rewrite (find_map_name xw_name); [|intros r0; destruct (lookupQ (xw_name r0) (sec_rhs S0)); reflexivity].
        rewrite F. cbn [option_map]. eexists. split; [reflexivity|].
        destruct (lookupQ (xw_name row) (sec_rhs S0)); cbn [set_rhs_row xw_rng xw_sense]; auto.
      - intros HR. apply (proj1 (proj2 SO)); [|exact IR|congruence]. rewrite <- rows2_names.
        apply existsb_names in HR. unfold rows6, rows_upd in HR. rewrite map_map in HR.
        rewrite (map_ext _ xw_name) in HR; [exact HR|]. intros r0. destruct (lookupQ (xw_name r0) (sec_rhs S0)); reflexivity. }
    unfold rng_part. rewrite H8.
    destruct (bounds_part nm (m_max P) (sec_bounds S0) [s2l "ENDATA"] a8) as (a10 & H10 & R10 & C10).
    { rewrite SB8. reflexivity. } { rewrite SC8. reflexivity. } { rewrite B8. reflexivity. }
    { intros it IN. rewrite C8. change (a_cols a6) with cols4.
      unfold S0 in IN. cbn [sections_of sec_bounds] in IN. apply in_flat_map in IN as (c & IC & IM). apply in_map_iff in IM as (r & <- & IRr). unfold bnd_ok. cbn [snd].
      assert (HR : has_records c) by (unfold has_records; intros E; rewrite E in IRr; destruct IRr).
      destruct (w_cols WF c IC) as [WC _]. split; [exact WC|]. split; [exact (w_dollar WF c IC HR)|]. split.
      - apply existsb_cnames. rewrite cols4_names. now apply in_map.
      - intros HB. apply (proj2 (proj2 SO)); [|exact IC|exact HR]. rewrite <- cols4_names. now apply existsb_cnames. }
    unfold bnd_part. rewrite H10, mrun_endata.
    exists a10. split; [reflexivity|]. split.
    - rewrite R10, R8, R6. reflexivity.
    - rewrite C10, C8. reflexivity.
  Qed.

  (* ---- the final raw problem, row by row and column by column ---------------------------------------------------------------------------------- *)
  Definition xrowF (r : mrow) : xrow :=
    {| xw_name := mr_name r; xw_sense := Some (ksense (mr_sense r));
       xw_rhs := match rhs_entry r with Some v => rr v | None => 0 end;
       xw_rhsind := match rhs_entry r with Some _ => true | None => false end;
       xw_rng := if m_rangeval P then option_map rr (range_entry r) else None |}.
  Definition rowsF : list xrow := objrow :: map xrowF used.
  Definition colbst (c : mcol) : bst := fold_left apply_rd (mps_records M (mc_lo c) (mc_up c) (mc_int c)) bst0.
  Definition xcolF (c : mcol) : xcol :=
    {| xc_name := mc_name c; xc_int := mc_int c; xc_sos := None; xc_ent := rev (rd_ents (col_es on c)); xc_bnd := colbst c |}.

  Lemma on_not_entry g : lookupQ on (opt_entries g used) = None.
  Proof. apply lookupQ_notin. intros H. apply (w_fresh WF). now apply (opt_entries_names g used). Qed.

  Lemma rows8_eq : rows8 = rowsF.
  Proof.
    unfold rows8, rows6, rows2, rowsF, rows_upd.
    change (sec_rhs S0) with (opt_entries rhs_entry used).
    change (sec_ranges S0) with (if m_rangeval P then Some (opt_entries range_entry used) else None).
    change (sec_rows S0) with (map (fun r => (match mr_sense r with SR => SG | s0 => s0 end, mr_name r)) used).
    cbn [map]. f_equal.
    - cbn [objrow new_row xw_name]. rewrite on_not_entry. cbn [xw_name].
      destruct (m_rangeval P); [rewrite on_not_entry|]; reflexivity.
    - rewrite !map_map. apply map_ext_in. intros r IR.
      unfold xrow_new, xrowF. cbn [new_row xw_name fst snd].
      rewrite (lookup_opt_entries rhs_entry used r used_nodup IR).
      assert (KS : ksense (match mr_sense r with SR => SG | s0 => s0 end) = ksense (mr_sense r)) by (destruct (mr_sense r); reflexivity).
      destruct (rhs_entry r); (destruct (m_rangeval P); cbn [set_rhs_row new_row xw_name];
        [rewrite (lookup_opt_entries range_entry used r used_nodup IR); destruct (range_entry r)|]); rewrite KS; reflexivity.
  Qed.

  Lemma fold_bnd_filter : forall (items : list (mrec * name)) c0,
    fold_left (fun c it => if leqb (snd it) (xc_name c) then bnd_col M (fst it) c else c) items c0 =
    fold_left (fun c r => bnd_col M r c) (map fst (filter (fun it => leqb (snd it) (xc_name c0)) items)) c0.
  Proof.
    induction items as [|it items IH]; intros c0; [reflexivity|]. cbn [fold_left filter].
    destruct (leqb _ _) eqn:E; [|apply IH]. cbn [map fold_left]. rewrite IH, bnd_col_name. reflexivity.
  Qed.

  Lemma fold_bnd_col : forall recs c0,
    fold_left (fun c r => bnd_col M r c) recs c0 =
    {| xc_name := xc_name c0; xc_int := xc_int c0; xc_sos := xc_sos c0; xc_ent := xc_ent c0; xc_bnd := fold_left apply_rd recs (xc_bnd c0) |}.
  Proof.
    induction recs as [|r recs IH]; intros c0; [destruct c0; reflexivity|]. cbn [fold_left]. rewrite IH. unfold bnd_col, apply_rd.
    pose proof (set_bound_rec_int r (rec_val r) (xc_bnd c0) (xc_int c0)) as SI. pose proof (set_bound_rec_bst r (rec_val r) (xc_bnd c0) (xc_int c0)) as SB.
    destruct (set_bound M (rec_type r) (rec_val r) (xc_bnd c0) (xc_int c0)) as [b i]. cbn [fst snd] in *. subst i. rewrite <- SB. reflexivity.
  Qed.

  Lemma cols10_eq : cols10 = map xcolF cols.
  Proof.
    destruct (w_cwf WF) as (CND & _).
    unfold cols10, cols4, cols_bnd. rewrite map_map. apply map_ext_in. intros c IC.
    rewrite fold_bnd_filter. cbn [xcol0 xc_name]. unfold S0. cbn [sections_of sec_bounds].
    rewrite (records_of_col M (m_cols P) c CND IC), fold_bnd_col. reflexivity.
  Qed.

  (* ---- the conversion ---------------------------------------------------------------------------------------------------------------------------------- *)
  Definition row_out (r : xrow) : mrow :=
    match xw_sense r, xw_rng r with
    | Some s, Some g => let tr := transfer (msense_of s) (xw_rhs r) g in
                        {| mr_name := xw_name r; mr_sense := SR; mr_rhs := fst tr; mr_range := snd tr |}
    | Some s, None => {| mr_name := xw_name r; mr_sense := s; mr_rhs := xw_rhs r; mr_range := 0 |}
    | None, _ => {| mr_name := xw_name r; mr_sense := SE; mr_rhs := 0; mr_range := 0 |}
    end.
  Definition col_out (c : xcol) : mcol :=
    {| mc_name := xc_name c; mc_obj := coefS (xc_ent c) on; mc_lo := fst (fill_in M (xc_bnd c) (xc_int c)); mc_up := snd (fill_in M (xc_bnd c) (xc_int c));
       mc_int := xc_int c; mc_ent := rev (filter (fun e => negb (row_is_N rowsF (fst e))) (xc_ent c)) |}.
  Definition PF (nm : option name) : mlp :=
    {| m_probname := match nm with Some n => n | None => s2l "unnamed" end; m_max := m_max P; m_objname := on;
       m_intmarker := existsb mc_int (map col_out (map xcolF cols));
       m_rangeval := existsb (fun r => match xw_rng r with Some _ => true | None => false end) rowsF;
       m_cols := map col_out (map xcolF cols); m_rows := map row_out (map xrowF used) |}.

  Lemma upd_objrow f : f objrow = objrow -> upd_row on f rowsF = rowsF.
  Proof.
    intros FO. unfold upd_row, rowsF. cbn [map]. cbn [objrow new_row xw_name]. rewrite leqb_refl. fold objrow. rewrite FO. f_equal.
    rewrite map_map. apply map_ext_in. intros r IR. cbn [xrowF xw_name].
    destruct (leqb_spec (mr_name r) on) as [E|E]; [|reflexivity]. exfalso. apply (w_fresh WF). rewrite <- E. now apply in_map.
  Qed.

  Lemma row_is_N_F n : row_is_N rowsF n = leqb on n.
  Proof.
    unfold row_is_N, rowsF. cbn [find objrow new_row xw_name xw_sense]. destruct (leqb on n); [reflexivity|].
    induction used as [|r l IH]; [reflexivity|]. cbn [map find xrowF xw_name]. destruct (leqb (mr_name r) n); [reflexivity|exact IH].
  Qed.

  Lemma col_decode c : In c cols ->
    fst (fill_in M (colbst c) (mc_int c)) == mc_lo c /\ snd (fill_in M (colbst c) (mc_int c)) == mc_up c.
  Proof. intros IC. destruct (w_cwf WF) as (_ & CW & _). destruct (CW c IC) as [LE _]. apply (mps_decode_rd (mc_lo c) (mc_up c) (mc_int c) LE). Qed.

  Lemma col_has_entry c : In c cols -> existsb (fun e => leqb (fst e) on || negb (row_is_N rowsF (fst e))) (xc_ent (xcolF c)) = true.
  Proof.
    intros IC. destruct (w_cwf WF) as (_ & CW & CNE & _). destruct (CW c IC) as [_ NOBJ].
    assert (NE : col_nonempty c = true) by (rewrite forallb_forall in CNE; now apply CNE).
    cbn [xcolF xc_ent]. apply existsb_exists. unfold col_es, col_nonempty in *.
    destruct (Qeq_bool (mc_obj c) 0).
    - cbn [negb orb app] in *. destruct (mc_ent c) as [|e l] eqn:EE; [discriminate|].
      exists (fst e, rr (snd e)). split; [rewrite <- in_rev; cbn [rd_ents map]; now left|]. cbn [fst].
      rewrite row_is_N_F. cbn [forallb] in NOBJ. apply andb_true_iff in NOBJ as [A _]. apply negb_true_iff in A.
      rewrite (leqb_sym on (fst e)). destruct (leqb (fst e) on) eqn:E'; [|reflexivity]. exfalso. exact (eq_true_false_abs _ E' A).
    - exists (on, rr (mc_obj c)). split; [rewrite <- in_rev; cbn [app rd_ents map fst snd]; now left|]. cbn [fst]. now rewrite leqb_refl.
  Qed.

  Theorem finish_ok nm af : a_rows af = rowsF -> a_cols af = map xcolF cols -> finish M (mk nm (m_max P) on af) = MOk (PF nm).
  Proof.
    intros RF CF. unfold finish, has_row. cbn [mk x_obj x_refrow x_rows x_cols x_nsos x_name x_max]. rewrite RF, CF.
    assert (HO : existsb (fun r => leqb (xw_name r) on) rowsF = true) by (unfold rowsF; cbn [existsb objrow new_row xw_name]; now rewrite leqb_refl).
    rewrite HO. cbv zeta. rewrite !(upd_objrow _ eq_refl).
    assert (NC : is_nil (map xcolF cols) = false) by (apply is_nil_map, cols_nonempty). rewrite NC.
    assert (NS : filter (fun c => match xc_sos c with Some _ => true | None => false end) (map xcolF cols) = []).
    { apply filter_none. intros x IN. apply in_map_iff in IN as (c & <- & _). reflexivity. }
    rewrite NS. cbn [List.length Nat.ltb Nat.leb andb].
    assert (NB : existsb (fun c => Qltb (snd (fill_in M (xc_bnd c) (xc_int c))) (fst (fill_in M (xc_bnd c) (xc_int c)))) (map xcolF cols) = false).
    { apply existsb_none. intros x IN. apply in_map_iff in IN as (c & <- & IC). cbn [xcolF xc_bnd xc_int].
      destruct (col_decode c IC) as [A B]. destruct (w_cwf WF) as (_ & CW & _). destruct (CW c IC) as [LE _]. apply Qltb_false. lra. }
    rewrite NB.
    assert (UA : filter (fun c => existsb (fun e => leqb (fst e) on || negb (row_is_N rowsF (fst e))) (xc_ent c)) (map xcolF cols) = map xcolF cols).
    { apply filter_all. intros x IN. apply in_map_iff in IN as (c & <- & IC). now apply col_has_entry. }
    rewrite UA, NC.
    assert (CR : filter (fun r => match xw_sense r with Some _ => true | None => false end) rowsF = map xrowF used).
    { unfold rowsF. cbn [filter objrow new_row xw_sense]. apply filter_all. intros x IN. apply in_map_iff in IN as (r & <- & _). reflexivity. }
    rewrite CR.
    assert (NR : is_nil (map xrowF used) = false) by (apply is_nil_map, (w_some WF)). rewrite NR.
    assert (RN : existsb (fun r => match xw_sense r, xw_rng r with None, Some _ => true | _, _ => false end) rowsF = false).
    { apply existsb_none. intros x [<-|IN]; [reflexivity|]. apply in_map_iff in IN as (r & <- & _). reflexivity. }
    rewrite RN. reflexivity.
  Qed.

  (* ---- what was read is what was written --------------------------------------------------------------------------------------------------------------- *)
  Lemma coefS_rev l n : coefS (rev l) n == coefS l n.
  Proof. induction l as [|p l IH]; [reflexivity|]. cbn [rev]. rewrite coefS_app, IH. unfold coefS. cbn [fold_right]. destruct (leqb (fst p) n); lra. Qed.

  Lemma filter_rev' {A} (f : A -> bool) l : filter f (rev l) = rev (filter f l).
  Proof.
    induction l as [|a l IH]; [reflexivity|]. cbn [rev filter]. rewrite filter_app, IH. cbn [filter]. destruct (f a); [reflexivity|]. now rewrite app_nil_r.
  Qed.

  Lemma ent_rel_rd es : ent_rel es (rd_ents es).
  Proof. unfold ent_rel. induction es as [|e es IH]; [constructor|]. cbn [rd_ents map]. constructor; [|exact IH]. cbn [fst snd]. split; [reflexivity|]. symmetry. apply (rr_spec (snd e) [] I). Qed.

  Lemma col_relF c : In c cols -> col_rel c (col_out (xcolF c)).
  Proof.
    intros IC. destruct (w_cwf WF) as (_ & CW & _). destruct (CW c IC) as [LE NOBJ]. fold on in NOBJ.
    destruct (col_decode c IC) as [DL DU].
    assert (KEEP : filter (fun e => negb (leqb on (fst e))) (rd_ents (mc_ent c)) = rd_ents (mc_ent c)).
    { clear - NOBJ. unfold name in *. induction (mc_ent c) as [|e l IH]; [reflexivity|]. cbn [forallb] in NOBJ. apply andb_true_iff in NOBJ as [A B].
      cbn [rd_ents map filter fst]. unfold name in *. rewrite leqb_sym, A. f_equal. apply IH, B. }
    assert (ZERO : coefS (rd_ents (mc_ent c)) on == 0).
    { clear - NOBJ. unfold name in *. induction (mc_ent c) as [|e l IH]; [reflexivity|]. cbn [forallb] in NOBJ. apply andb_true_iff in NOBJ as [A B].
      cbn [rd_ents map coefS fold_right fst snd]. apply negb_true_iff in A. unfold name in *. rewrite A. unfold coefS, rd_ents in IH. rewrite (IH B). ring. }
    unfold col_rel, col_out. cbn [xcolF xc_name xc_int xc_ent xc_bnd mc_name mc_obj mc_lo mc_up mc_int mc_ent].
    repeat split; try (symmetry; assumption).
    - rewrite coefS_rev. unfold col_es, rd_ents. rewrite map_app, coefS_app. fold (rd_ents (mc_ent c)). rewrite ZERO.
      destruct (Qeq_bool (mc_obj c) 0) eqn:Z.
      + apply Qeq_bool_iff in Z. cbn [map coefS fold_right]. rewrite Z. ring.
      + cbn [map coefS fold_right fst snd]. rewrite leqb_refl. pose proof (proj2 (rr_spec (mc_obj c) [] I)). lra.
    - rewrite filter_rev', rev_involutive.
      assert (E : filter (fun e => negb (row_is_N rowsF (fst e))) (rd_ents (col_es on c)) = rd_ents (mc_ent c)).
      { rewrite (filter_ext _ (fun e => negb (leqb on (fst e)))) by (intros; now rewrite row_is_N_F).
        unfold col_es, rd_ents. rewrite map_app, filter_app. fold (rd_ents (mc_ent c)). unfold name in *. rewrite KEEP.
        destruct (Qeq_bool (mc_obj c) 0); [reflexivity|]. cbn [map filter fst]. now rewrite leqb_refl. }
      rewrite E. apply ent_rel_rd.
  Qed.

  Lemma row_relF r : In r used -> row_same_q r (row_out (xrowF r)).
  Proof.
    intros IR. destruct (w_rwf WF) as [_ RW]. specialize (RW r (used_in r IR)).
    assert (RH : (match rhs_entry r with Some v => rr v | None => 0 end) == mr_rhs r).
    { unfold rhs_entry. destruct (Qeq_bool (mr_rhs r) 0) eqn:Z; [apply Qeq_bool_iff in Z; now symmetry|apply (rr_spec (mr_rhs r) [] I)]. }
    unfold row_same_q, row_out. cbn [xrowF xw_name xw_sense xw_rhs xw_rng].
    destruct (mr_sense r) eqn:ES.
    - assert (RE : range_entry r = None) by (unfold range_entry; rewrite ES; now rewrite (proj2 (Qeq_bool_iff _ _) RW)).
      rewrite RE. cbn [option_map ksense]. destruct (m_rangeval P); cbn; repeat split; try (symmetry; exact RH); discriminate.
    - assert (RE : range_entry r = None) by (unfold range_entry; rewrite ES; now rewrite (proj2 (Qeq_bool_iff _ _) RW)).
      rewrite RE. cbn [option_map ksense]. destruct (m_rangeval P); cbn; repeat split; try (symmetry; exact RH); discriminate.
    - assert (RE : range_entry r = None) by (unfold range_entry; rewrite ES; now rewrite (proj2 (Qeq_bool_iff _ _) RW)).
      rewrite RE. cbn [option_map ksense]. destruct (m_rangeval P); cbn; repeat split; try (symmetry; exact RH); discriminate.
    - destruct RW as [G0 RV]. rewrite RV. assert (RE : range_entry r = Some (mr_range r)) by (unfold range_entry; now rewrite ES).
      rewrite RE. cbn [option_map ksense msense_of transfer fst snd mr_name mr_sense mr_rhs mr_range]. repeat split; try (symmetry; exact RH).
      intros _. pose proof (proj2 (rr_spec (mr_range r) [] I)) as RG. symmetry. rewrite (Qabs_pos (rr (mr_range r))); [exact RG|lra].
  Qed.

  Theorem mps_roundtrip_strong_gen :
    exists P', read_mps true M the_file = Some P' /\ m_max P' = m_max P /\ m_objname P' = m_objname P /\
               Forall2 col_rel (m_cols P) (m_cols P') /\ Forall2 row_same_q (filter (row_used (m_cols P)) (m_rows P)) (m_rows P').
  Proof.
    destruct file_read as (nm & af & RUN & RF & CF). rewrite rows8_eq in RF. rewrite cols10_eq in CF.
    exists (PF nm). split.
    - unfold read_mps, read_mps_res. change (mloop true M (S (List.length the_file)) the_file xraw0) with (mrun M the_file xraw0).
      rewrite RUN, (finish_ok nm af RF CF). reflexivity.
    - cbn [PF m_max m_objname m_cols m_rows]. split; [reflexivity|]. split; [reflexivity|]. split.
      + rewrite map_map. fold cols. assert (G : forall l, (forall c, In c l -> In c cols) -> Forall2 col_rel l (map (fun c => col_out (xcolF c)) l)).
        { induction l as [|c l IH]; intros SUB; [constructor|]. cbn [map]. constructor; [apply col_relF, SUB; now left|apply IH; intros; apply SUB; now right]. }
        apply G. auto.
      + rewrite map_map. fold cols. fold used. assert (G : forall l, (forall r, In r l -> In r used) -> Forall2 row_same_q l (map (fun r => row_out (xrowF r)) l)).
        { induction l as [|r l IH]; intros SUB; [constructor|]. cbn [map]. constructor; [apply row_relF, SUB; now left|apply IH; intros; apply SUB; now right]. }
        apply G. auto.
  Qed.

  Theorem mps_roundtrip_gen : exists P', read_mps true M the_file = Some P' /\ equiv_by_name (mlp_to_nlp P) (mlp_to_nlp P') = true.
  Proof.
    destruct mps_roundtrip_strong_gen as (P' & R & EM & _ & FC & FR). exists P'. split; [exact R|].
    apply rel_equiv; [now symmetry|apply (w_cwf WF)|exact FC|exact FR].
  Qed.
End RT.

(* ---- the writer as found: set names RHS, RANGE, BOUND ----------------------------------------------------------------------------- *)
Definition wf_mps (M : Q) (P : mlp) : Prop := wf_core M P /\ set_ok M P (s2l "RHS") (s2l "RANGE") (s2l "BOUND").

Lemma word_lit_RHS : word (s2l "RHS"). Proof. split; [discriminate|reflexivity]. Qed.
Lemma word_lit_RANGE : word (s2l "RANGE"). Proof. split; [discriminate|reflexivity]. Qed.
Lemma word_lit_BOUND : word (s2l "BOUND"). Proof. split; [discriminate|reflexivity]. Qed.

Theorem mps_roundtrip_strong M : 0 < M -> forall P, wf_mps M P ->
  exists P', read_mps true M (write_mps M P) = Some P' /\ m_max P' = m_max P /\ m_objname P' = m_objname P /\
             Forall2 col_rel (m_cols P) (m_cols P') /\ Forall2 row_same_q (filter (row_used (m_cols P)) (m_rows P)) (m_rows P').
Proof. intros HM P [WC SO]. exact (mps_roundtrip_strong_gen M HM P (s2l "RHS") (s2l "RANGE") (s2l "BOUND") word_lit_RHS word_lit_RANGE word_lit_BOUND WC SO). Qed.

Theorem mps_roundtrip M : 0 < M -> forall P, wf_mps M P ->
  exists P', read_mps true M (write_mps M P) = Some P' /\ equiv_by_name (mlp_to_nlp P) (mlp_to_nlp P') = true.
Proof. intros HM P [WC SO]. exact (mps_roundtrip_gen M HM P (s2l "RHS") (s2l "RANGE") (s2l "BOUND") word_lit_RHS word_lit_RANGE word_lit_BOUND WC SO). Qed.
