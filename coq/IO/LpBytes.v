(* IO/LpBytes.v -- from lines to bytes.

   The reader model looks at a fetched line only through [cutline] (END_LINE: the line ends at the first backslash,
   newline or NUL).  Hence
     read_lp_res_cut      read_lp_res strict M (map cutline ls) = read_lp_res strict M ls
   (with fuel_suffices: the amount of fuel does not matter once it exceeds the remaining input), and the round trip
   holds for the bytes of the file as the line reader (fgets with a buffer of 131070 bytes) delivers them:
     lp_roundtrip_bytes   read_lp true M (split_lines (file_bytes (write_lp M P))) = Some P' /\ equiv_by_name P P'
   provided no written line reaches the buffer size. *)
From Coq Require Import QArith List Ascii String Bool Arith NArith Lia.
From QSX Require Import Base.QSum LP.User IO.Num IO.NumSound IO.Bounds IO.Lex IO.Equiv IO.LpWrite IO.LpRead IO.LpTok IO.LpTotal IO.LpRoundtrip.
Import ListNotations.

(* ---- the loops do not depend on the amount of fuel once it suffices ---------------------------------------------------------- *)

Section FuelIndep.
  Variable strict : bool.
  Variable M : Q.

  Lemma read_expr_fuel : forall f f' st rw ft, (f <= f')%nat -> read_expr strict f st rw ft <> PrFuel ->
    read_expr strict f' st rw ft = read_expr strict f st rw ft.
  Proof.
    induction f as [|k IH]; intros f' st rw ft LE NF; [cbn in NF; congruence|].
    destruct f' as [|k']; [lia|]. cbn [read_expr] in *. destruct (sign st) as [st1 sg].
    destruct sg as [[|]|]; try destruct ft; try reflexivity;
      destruct (value strict st1) as [[st2 co]|]; try reflexivity; destruct (next_var st2) as [st3 []]; try reflexivity;
      apply IH; try lia; exact NF.
  Qed.

  Lemma read_one_constraint_fuel f f' st rw nm : (f <= f')%nat -> read_one_constraint strict f st rw nm <> PrFuel ->
    read_one_constraint strict f' st rw nm = read_one_constraint strict f st rw nm.
  Proof.
    intros LE NF. unfold read_one_constraint in *. destruct (match nm with Some n => mem n (row_names rw) | None => false end); [reflexivity|].
    rewrite (read_expr_fuel f f' st (add_row rw nm) true LE); [reflexivity|].
    intros E. rewrite E in NF. congruence.
  Qed.

  Lemma read_constraint_loop_fuel : forall f f' fe fe' st rw, (f <= f')%nat -> (fe <= fe')%nat ->
    read_constraint_loop strict f fe st rw <> PrFuel ->
    read_constraint_loop strict f' fe' st rw = read_constraint_loop strict f fe st rw.
  Proof.
    induction f as [|k IH]; intros f' fe fe' st rw LE LEe NF; [cbn in NF; congruence|].
    destruct f' as [|k']; [lia|]. cbn [read_constraint_loop] in *.
    destruct (read_constraint_name st) as [[st1 nm]| | |]; try reflexivity.
    assert (NF1 : read_one_constraint strict fe st1 rw nm <> PrFuel).
    { intros E. rewrite E in NF. congruence. }
    rewrite (read_one_constraint_fuel fe fe' st1 rw nm LEe NF1).
    destruct (read_one_constraint strict fe st1 rw nm) as [[st2 rw2]| | |]; try reflexivity.
    destruct (next_constraint st2) as [st3 [|]]; [|reflexivity]. apply IH; try lia; exact NF.
  Qed.

  Lemma read_bounds_loop_fuel : forall f f' st rw, (f <= f')%nat -> read_bounds_loop strict M f st rw <> PrFuel ->
    read_bounds_loop strict M f' st rw = read_bounds_loop strict M f st rw.
  Proof.
    induction f as [|k IH]; intros f' st rw LE NF; [cbn in NF; congruence|].
    destruct f' as [|k']; [lia|]. cbn [read_bounds_loop] in *.
    destruct (possible_bound_value strict M st) as [[st1 [v|]]|]; try reflexivity.
    - destruct (bound_sense st1) as [st2 [[| | |]|]]; try reflexivity.
      destruct (read_colname true st2 rw) as [st3 nm| |]; try reflexivity.
      destruct (after_colname strict M st3 (upd_bnd rw nm (fun b => set_lower b v)) nm true) as [[st4 rw4]| | |]; try reflexivity.
      apply IH; try lia; exact NF.
    - destruct (read_colname false st1 rw) as [st2 nm|st2|]; try reflexivity.
      destruct (after_colname strict M st2 rw nm false) as [[st3 rw3]| | |]; try reflexivity.
      apply IH; try lia; exact NF.
  Qed.

  Lemma read_integer_loop_fuel : forall f f' st rw, (f <= f')%nat -> read_integer_loop f st rw <> PrFuel ->
    read_integer_loop f' st rw = read_integer_loop f st rw.
  Proof.
    induction f as [|k IH]; intros f' st rw LE NF; [cbn in NF; congruence|].
    destruct f' as [|k']; [lia|]. cbn [read_integer_loop] in *.
    destruct (read_colname false st rw) as [st1 nm|st1|]; try reflexivity. apply IH; try lia; exact NF.
  Qed.
End FuelIndep.

(* ---- the reader sees a line only through cutline ---------------------------------------------------------------------------------- *)

Definition cutst (st : rst) : rst := mk_rst (pre st) (cur st) (map cutline (rest st)) (eof st) (fld st) (first st) (lnum st).

Lemma cutline_idem l : cutline (cutline l) = cutline l.
Proof.
  induction l as [|c l IH]; [reflexivity|]. cbn [cutline]. destruct (Ascii.eqb c "\" || Ascii.eqb c "010" || Ascii.eqb c "000") eqn:E; [reflexivity|].
  cbn [cutline]. rewrite E, IH. reflexivity.
Qed.

Lemma next_line_from_cut ls : forall ln,
  next_line_from (map cutline ls) ln =
  (match fst (next_line_from ls ln) with Some (p, c, r) => Some (p, c, map cutline r) | None => None end, snd (next_line_from ls ln)).
Proof.
  induction ls as [|l ls IH]; intros ln; [reflexivity|]. cbn [map next_line_from]. rewrite cutline_idem.
  destruct (skipb [] (cutline l)) as [p c]. destruct c; [apply IH|reflexivity].
Qed.

Ltac cutrefl := unfold cutst, set_pos, set_first, set_fld; cbn [pre cur rest eof fld first lnum]; reflexivity.

Lemma advn_cut n st : advn n (cutst st) = cutst (advn n st).
Proof. unfold advn. cbn [cutst pre cur]. destruct (adv n (pre st) (cur st)). cutrefl. Qed.

Lemma skip_blanks_cut w st : skip_blanks w (cutst st) = (cutst (fst (skip_blanks w st)), snd (skip_blanks w st)).
Proof.
  unfold skip_blanks. cbn [cutst pre cur]. destruct (skipb (pre st) (cur st)) as [p c]. destruct c as [|x c]; [|cutrefl].
  destruct w; [|cutrefl]. unfold next_line. cbn [eof set_pos rest lnum fld first cutst].
  destruct (eof st); [cutrefl|]. rewrite next_line_from_cut.
  destruct (next_line_from (rest st) (lnum st)) as [[[[p' c'] r']|] ln']; cbn [fst snd]; cutrefl.
Qed.

Lemma next_field_cut a st : next_field a (cutst st) = (cutst (fst (next_field a st)), snd (next_field a st)).
Proof.
  unfold next_field. rewrite skip_blanks_cut. destruct (skip_blanks a st) as [st1 ok]. cbn [fst snd].
  change (eof (cutst st1)) with (eof st1). destruct (eof st1); [reflexivity|].
  change (cur (set_first (cutst st1) (at_col0 (cutst st1)))) with (cur (set_first st1 (at_col0 st1))).
  destruct (fst (take_word (skip_space (cur (set_first st1 (at_col0 st1)))))) as [|a0 w]; [cutrefl|].
  cbn [fst snd]. f_equal.
  change (set_fld (set_first (cutst st1) (at_col0 (cutst st1))) (a0 :: w)) with (cutst (set_fld (set_first st1 (at_col0 st1)) (a0 :: w))).
  apply advn_cut.
Qed.

Lemma prev_field_cut st : prev_field (cutst st) = cutst (prev_field st).
Proof.
  unfold prev_field. cbn [cutst pre cur].
  destruct (match pre st with x :: p' => (p', x :: cur st) | [] => ([], cur st) end) as [p1 c1].
  destruct (back_blank p1 c1) as [p2 c2]. destruct (back_nonblank p2 c2) as [p3 c3]. cutrefl.
Qed.

Lemma next_var_cut st : next_var (cutst st) = (cutst (fst (next_var st)), snd (next_var st)).
Proof.
  unfold next_var. rewrite skip_blanks_cut. destruct (skip_blanks true st) as [st1 ok]. cbn [fst snd].
  destruct ok; cbn [negb]; [|reflexivity].
  change (cur (set_first (cutst st1) (at_col0 (cutst st1)))) with (cur (set_first st1 (at_col0 st1))).
  destruct (fst (scan_name (cur (set_first st1 (at_col0 st1))) true)) as [|a0 w]; [cutrefl|].
  change (first (set_first (cutst st1) (at_col0 (cutst st1)))) with (first (set_first st1 (at_col0 st1))).
  destruct (first (set_first st1 (at_col0 st1)) && is_keyword (a0 :: w)); [cutrefl|].
  cbn [fst snd]. f_equal.
  change (set_fld (set_first (cutst st1) (at_col0 (cutst st1))) (a0 :: w)) with (cutst (set_fld (set_first st1 (at_col0 st1)) (a0 :: w))).
  apply advn_cut.
Qed.

Lemma kw_test_cut st kws : kw_test (cutst st) kws = kw_test st kws.
Proof. reflexivity. Qed.

Lemma colon_cut st : colon (cutst st) = (cutst (fst (colon st)), snd (colon st)).
Proof.
  unfold colon. rewrite skip_blanks_cut. destruct (skip_blanks true st) as [st1 ok]. cbn [fst snd].
  change (cur (cutst st1)) with (cur st1). destruct ok; [|reflexivity]. destruct (cur st1) as [|x c]; [reflexivity|].
  all_ascii x; cbn [fst snd]; try reflexivity. rewrite advn_cut. reflexivity.
Qed.

Lemma has_colon_cut st : has_colon (cutst st) = (cutst (fst (has_colon st)), snd (has_colon st)).
Proof. unfold has_colon. rewrite skip_blanks_cut. destruct (skip_blanks false st) as [st1 ok]. reflexivity. Qed.

Lemma sign_cut st : sign (cutst st) = (cutst (fst (sign st)), snd (sign st)).
Proof.
  unfold sign. rewrite skip_blanks_cut. destruct (skip_blanks true st) as [st1 ok]. cbn [fst snd].
  change (cur (cutst st1)) with (cur st1). destruct ok; [|reflexivity]. destruct (cur st1) as [|x c]; [reflexivity|].
  all_ascii x; cbn [fst snd]; try reflexivity; rewrite advn_cut; reflexivity.
Qed.

Definition smap (r : (rst * option Q) + unit) : (rst * option Q) + unit :=
  match r with inl (s, o) => inl (cutst s, o) | inr u => inr u end.

Lemma value_cut strict st : value strict (cutst st) = smap (value strict st).
Proof.
  unfold value. rewrite skip_blanks_cut. destruct (skip_blanks true st) as [st1 ok]. cbn [fst snd].
  destruct ok; cbn [negb]; [|reflexivity].
  change (cur (set_first (cutst st1) (at_col0 (cutst st1)))) with (cur (set_first st1 (at_col0 st1))).
  destruct (read_num_gen strict (cur (set_first st1 (at_col0 st1)))) as [[q|f] [|n]]; cbn [smap]; try reflexivity.
  change (set_first (cutst st1) (at_col0 (cutst st1))) with (cutst (set_first st1 (at_col0 st1))). now rewrite advn_cut.
Qed.

Lemma test_next_is_free_cut st : test_next_is_free (cutst st) = (cutst (fst (test_next_is_free st)), snd (test_next_is_free st)).
Proof.
  unfold test_next_is_free. rewrite skip_blanks_cut. destruct (skip_blanks false st) as [st1 ok]. cbn [fst snd].
  change (cur (cutst st1)) with (cur st1). destruct (iprefix (s2l "FREE") (cur st1)); [|reflexivity].
  destruct (snd (adv 4 [] (cur st1))) as [|x t]; [now rewrite advn_cut|]. destruct (is_blank x); [now rewrite advn_cut|reflexivity].
Qed.

Lemma possible_bound_value_cut strict M st : possible_bound_value strict M (cutst st) = smap (possible_bound_value strict M st).
Proof.
  unfold possible_bound_value. rewrite sign_cut. destruct (sign st) as [st1 sg]. cbn [fst snd].
  change (cur (cutst st1)) with (cur st1).
  destruct (if iprefix (s2l "INFINITY") (cur st1) then 8%nat else if iprefix (s2l "INF") (cur st1) then 3%nat else 0%nat) as [|n].
  - rewrite value_cut. destruct (value strict st1) as [[st2 [v|]]|]; reflexivity.
  - rewrite advn_cut. change (cur (cutst (advn (S n) st1))) with (cur (advn (S n) st1)).
    destruct (cur (advn (S n) st1)) as [|x t]; [reflexivity|]. destruct (is_blank x); [|reflexivity].
    rewrite skip_blanks_cut. reflexivity.
Qed.

Lemma row_sense_cut st : row_sense (cutst st) = (cutst (fst (row_sense st)), snd (row_sense st)).
Proof.
  unfold row_sense. rewrite skip_blanks_cut. destruct (skip_blanks true st) as [st1 ok]. cbn [fst snd].
  change (cur (cutst st1)) with (cur st1). destruct ok; cbn [negb]; [|reflexivity].
  destruct (cur st1) as [|x c]; [reflexivity|].
  destruct c as [|y c']; all_ascii x; cbn [fst snd]; try reflexivity; try (rewrite advn_cut; reflexivity);
    all_ascii y; cbn [fst snd]; try reflexivity; rewrite advn_cut; reflexivity.
Qed.

Lemma bound_sense_cut st : bound_sense (cutst st) = (cutst (fst (bound_sense st)), snd (bound_sense st)).
Proof.
  unfold bound_sense. rewrite skip_blanks_cut. destruct (skip_blanks true st) as [st1 ok]. cbn [fst snd].
  change (cur (cutst st1)) with (cur st1). destruct ok; cbn [negb]; [|reflexivity].
  destruct (cur st1) as [|x c]; [reflexivity|].
  destruct c as [|y c']; all_ascii x; cbn [fst snd]; try reflexivity; try (rewrite advn_cut; reflexivity);
    all_ascii y; cbn [fst snd]; try reflexivity; rewrite advn_cut; reflexivity.
Qed.

Definition rmap {A} (r : res (rst * A)) : res (rst * A) :=
  match r with PrOk (s, w) => PrOk (cutst s, w) | PrErr => PrErr | PrFlt => PrFlt | PrFuel => PrFuel end.

Section Cut.
  Variable strict : bool.
  Variable M : Q.

  Lemma read_expr_cut : forall fuel st rw ft, read_expr strict fuel (cutst st) rw ft = rmap (read_expr strict fuel st rw ft).
  Proof.
    induction fuel as [|k IH]; intros st rw ft; [reflexivity|]. cbn [read_expr]. rewrite sign_cut. destruct (sign st) as [st1 sg]. cbn [fst snd].
    assert (B : forall neg : bool,
      match value strict (cutst st1) with
      | inr _ => PrFlt
      | inl (st2, co) =>
        let c := match co with Some q => q | None => 1%Q end in
        match next_var st2 with
        | (st3, VOk) => read_expr strict k st3 (add_var rw (fld st3) (if neg then (- c)%Q else c)) false
        | (st3, _) => match co with Some _ => PrErr | None => PrOk (st3, rw) end
        end
      end = rmap (match value strict st1 with
      | inr _ => PrFlt
      | inl (st2, co) =>
        let c := match co with Some q => q | None => 1%Q end in
        match next_var st2 with
        | (st3, VOk) => read_expr strict k st3 (add_var rw (fld st3) (if neg then (- c)%Q else c)) false
        | (st3, _) => match co with Some _ => PrErr | None => PrOk (st3, rw) end
        end
      end)).
    { intros neg. rewrite value_cut. destruct (value strict st1) as [[st2 co]|]; cbn [smap]; [|reflexivity].
      cbv zeta. rewrite next_var_cut. destruct (next_var st2) as [st3 r]. cbn [fst snd].
      destruct r; [apply IH|destruct co; reflexivity|destruct co; reflexivity]. }
    destruct sg as [[|]|]; [apply (B true)|apply (B false)|]. destruct ft; [apply (B false)|reflexivity].
  Qed.

  Lemma read_constraint_name_cut st : read_constraint_name (cutst st) = rmap (read_constraint_name st).
  Proof.
    unfold read_constraint_name. rewrite has_colon_cut. destruct (has_colon st) as [st1 hc]. cbn [fst snd].
    destruct hc; [|reflexivity]. rewrite next_var_cut. destruct (next_var st1) as [st2 r]. cbn [fst snd].
    destruct r; try reflexivity. rewrite colon_cut. destruct (colon st2) as [st3 []]; reflexivity.
  Qed.

  Lemma read_one_constraint_cut fuel st rw nm : read_one_constraint strict fuel (cutst st) rw nm = rmap (read_one_constraint strict fuel st rw nm).
  Proof.
    unfold read_one_constraint. destruct (match nm with Some n => mem n (row_names rw) | None => false end); [reflexivity|].
    rewrite read_expr_cut. destruct (read_expr strict fuel st (add_row rw nm) true) as [[st1 rw1]| | |]; try reflexivity. cbn [rmap].
    rewrite row_sense_cut. destruct (row_sense st1) as [st2 [s|]]; cbn [fst snd]; [|reflexivity].
    rewrite value_cut. destruct (value strict st2) as [[st3 [d|]]|]; reflexivity.
  Qed.

  Lemma next_constraint_cut st : next_constraint (cutst st) = (cutst (fst (next_constraint st)), snd (next_constraint st)).
  Proof.
    unfold next_constraint. rewrite skip_blanks_cut. destruct (skip_blanks true st) as [st1 ok]. cbn [fst snd].
    change (eof (cutst st1)) with (eof st1). change (lnum (cutst st)) with (lnum st). change (lnum (cutst st1)) with (lnum st1).
    destruct (eof st1); [reflexivity|]. destruct (lnum st =? lnum st1)%nat; [reflexivity|].
    rewrite next_field_cut. destruct (next_field true st1) as [st2 [|]]; cbn [fst snd]; [|reflexivity].
    rewrite prev_field_cut. reflexivity.
  Qed.

  Lemma check_subject_to_cut st : check_subject_to (cutst st) = (cutst (fst (check_subject_to st)), snd (check_subject_to st)).
  Proof.
    unfold check_subject_to. rewrite next_field_cut. destruct (next_field true st) as [st1 [|]]; cbn [fst snd]; [|reflexivity].
    change (fld (cutst st1)) with (fld st1). change (first (cutst st1)) with (first st1).
    change (pre (cutst st1)) with (pre st1). change (cur (cutst st1)) with (cur st1).
    assert (G : forall (s2 : rst) (ok : bool),
              (if ok then (fst (skip_blanks true (cutst s2)), true) else (prev_field (cutst s2), false)) =
              (cutst (fst (if ok then (fst (skip_blanks true s2), true) else (prev_field s2, false))),
               snd (if ok then (fst (skip_blanks true s2), true) else (prev_field s2, false)))).
    { intros s2 ok. destruct ok; [rewrite skip_blanks_cut|rewrite prev_field_cut]; reflexivity. }
    destruct (ieq (fld st1) (s2l "ST")); [exact (G st1 (first st1))|].
    destruct (ieq (fld st1) (s2l "SUBJECT")); [|exact (G st1 false)].
    destruct (skipb (pre st1) (cur st1)) as [p c]. destruct (iprefix (s2l "TO") c); [|exact (G st1 true)].
    destruct (first st1); [|exact (G st1 false)].
    change (set_pos (cutst st1) p c) with (cutst (set_pos st1 p c)). rewrite advn_cut. exact (G (advn 2 (set_pos st1 p c)) true).
  Qed.

  Lemma read_constraint_loop_cut fe : forall fuel st rw,
    read_constraint_loop strict fuel fe (cutst st) rw = rmap (read_constraint_loop strict fuel fe st rw).
  Proof.
    induction fuel as [|k IH]; intros st rw; [reflexivity|]. cbn [read_constraint_loop]. rewrite read_constraint_name_cut.
    destruct (read_constraint_name st) as [[st1 nm]| | |]; try reflexivity. cbn [rmap].
    rewrite read_one_constraint_cut. destruct (read_one_constraint strict fe st1 rw nm) as [[st2 rw2]| | |]; try reflexivity. cbn [rmap].
    rewrite next_constraint_cut. destruct (next_constraint st2) as [st3 [|]]; cbn [fst snd]; [apply IH|reflexivity].
  Qed.

  Lemma read_constraints_cut fuel st rw : read_constraints strict fuel (cutst st) rw = rmap (read_constraints strict fuel st rw).
  Proof.
    unfold read_constraints. rewrite check_subject_to_cut. destruct (check_subject_to st) as [st1 [|]]; cbn [fst snd]; [|reflexivity].
    rewrite read_constraint_loop_cut. destruct (read_constraint_loop strict fuel fuel st1 rw) as [[st2 rw2]| | |]; try reflexivity. cbn [rmap].
    rewrite next_field_cut. reflexivity.
  Qed.

  Definition cmap (c : cres) : cres := match c with COk s n => COk (cutst s) n | CKey s => CKey (cutst s) | CErr => CErr end.
  Lemma read_colname_cut must st rw : read_colname must (cutst st) rw = cmap (read_colname must st rw).
  Proof.
    unfold read_colname. rewrite next_var_cut. destruct (next_var st) as [st1 r]. cbn [fst snd]. change (fld (cutst st1)) with (fld st1).
    destruct r; [destruct (mem (fld st1) (r_cols rw)); reflexivity|reflexivity|destruct must; reflexivity].
  Qed.

  Lemma after_colname_cut st rw nm hb : after_colname strict M (cutst st) rw nm hb = rmap (after_colname strict M st rw nm hb).
  Proof.
    unfold after_colname. rewrite bound_sense_cut. destruct (bound_sense st) as [st1 [s|]]; cbn [fst snd].
    - rewrite possible_bound_value_cut. destruct (possible_bound_value strict M st1) as [[st2 [v|]]|]; reflexivity.
    - rewrite test_next_is_free_cut. destruct (test_next_is_free st1) as [st2 [|]]; cbn [fst snd]; [reflexivity|destruct hb; reflexivity].
  Qed.

  Lemma read_bounds_loop_cut : forall fuel st rw, read_bounds_loop strict M fuel (cutst st) rw = rmap (read_bounds_loop strict M fuel st rw).
  Proof.
    induction fuel as [|k IH]; intros st rw; [reflexivity|]. cbn [read_bounds_loop]. rewrite possible_bound_value_cut.
    destruct (possible_bound_value strict M st) as [[st1 [v|]]|]; cbn [smap]; [| |reflexivity].
    - rewrite bound_sense_cut. destruct (bound_sense st1) as [st2 [[| | |]|]]; cbn [fst snd]; try reflexivity.
      rewrite read_colname_cut. destruct (read_colname true st2 rw) as [st3 nm| |]; cbn [cmap]; try reflexivity.
      rewrite after_colname_cut. destruct (after_colname strict M st3 _ nm true) as [[st4 rw4]| | |]; cbn [rmap]; try reflexivity. apply IH.
    - rewrite read_colname_cut. destruct (read_colname false st1 rw) as [st2 nm|st2|]; cbn [cmap]; try reflexivity.
      rewrite after_colname_cut. destruct (after_colname strict M st2 rw nm false) as [[st3 rw3]| | |]; cbn [rmap]; try reflexivity. apply IH.
  Qed.

  Lemma read_bounds_cut fuel st rw : read_bounds strict M fuel (cutst st) rw = rmap (read_bounds strict M fuel st rw).
  Proof.
    unfold read_bounds. rewrite read_bounds_loop_cut. destruct (read_bounds_loop strict M fuel st rw) as [[s r]| | |]; try reflexivity. cbn [rmap].
    rewrite next_field_cut. reflexivity.
  Qed.

  Lemma read_integer_loop_cut : forall fuel st rw, read_integer_loop fuel (cutst st) rw = rmap (read_integer_loop fuel st rw).
  Proof.
    induction fuel as [|k IH]; intros st rw; [reflexivity|]. cbn [read_integer_loop]. rewrite read_colname_cut.
    destruct (read_colname false st rw) as [st1 nm|st1|]; cbn [cmap]; [apply IH|reflexivity|reflexivity].
  Qed.
  Lemma read_integer_cut fuel st rw : read_integer fuel (cutst st) rw = rmap (read_integer fuel st rw).
  Proof.
    unfold read_integer. rewrite read_integer_loop_cut. destruct (read_integer_loop fuel st rw) as [[s r]| | |]; try reflexivity. cbn [rmap].
    rewrite next_field_cut. reflexivity.
  Qed.

  Definition hmap (r : res (rst * option name * bool)) : res (rst * option name * bool) :=
    match r with PrOk (s, n, b) => PrOk (cutst s, n, b) | PrErr => PrErr | PrFlt => PrFlt | PrFuel => PrFuel end.
  Lemma read_header_cut st : read_header (cutst st) = hmap (read_header st).
  Proof.
    unfold read_header. change (first (cutst st)) with (first st). change (fld (cutst st)) with (fld st).
    destruct (negb (first st)); [reflexivity|].
    destruct (ieq (fld st) (s2l "PROBLEM") || ieq (fld st) (s2l "PROB")).
    - rewrite next_field_cut. destruct (next_field true st) as [st1 [|]]; cbn [fst snd]; [|reflexivity].
      rewrite next_field_cut. cbn [fst]. change (fld (cutst st1)) with (fld st1).
      change (first (cutst (fst (next_field true st1)))) with (first (fst (next_field true st1))).
      change (fld (cutst (fst (next_field true st1)))) with (fld (fst (next_field true st1))).
      destruct (negb (first (fst (next_field true st1)))); [reflexivity|].
      destruct (existsb _ _); [reflexivity|]. destruct (existsb _ _); reflexivity.
    - change (first (cutst st)) with (first st). change (fld (cutst st)) with (fld st).
      destruct (negb (first st)); [reflexivity|]. destruct (existsb _ _); [reflexivity|]. destruct (existsb _ _); reflexivity.
  Qed.

  Lemma read_objective_cut fuel st nm mx : read_objective strict fuel (cutst st) nm mx = rmap (read_objective strict fuel st nm mx).
  Proof.
    unfold read_objective. rewrite skip_blanks_cut. destruct (skip_blanks true st) as [st1 ok]. cbn [fst snd].
    rewrite has_colon_cut. destruct (has_colon st1) as [st2 hc]. cbn [fst snd].
    destruct hc.
    - rewrite next_var_cut. destruct (next_var st2) as [st3 r]. cbn [fst snd]. destruct r; try reflexivity.
      rewrite colon_cut. destruct (colon st3) as [st4 [|]]; cbn [fst snd]; [|reflexivity].
      change (fld (cutst st3)) with (fld st3). apply read_expr_cut.
    - apply read_expr_cut.
  Qed.
End Cut.

(* ---- the whole reader with an explicit amount of fuel ------------------------------------------------------------------------------ *)

Section Top.
  Variable strict : bool.
  Variable M : Q.

  Definition read_lp_fuel (fuel : nat) (ls : list line) : res llp :=
    match next_field true (st_start ls) with
    | (_, false) => PrErr
    | (st0, true) =>
      match read_header st0 with
      | PrOk (st1, nm, mx) =>
        match read_objective strict fuel st1 nm mx with
        | PrOk (st2, rw2) =>
          match read_constraints strict fuel st2 rw2 with
          | PrOk (st3, rw3) =>
            if is_nil (r_cols rw3) then PrErr
            else
              let rb := if kw_test st3 ["BOUNDS"; "BOUND"]%string then read_bounds strict M fuel st3 rw3 else PrOk (st3, rw3) in
              match rb with
              | PrOk (st4, rw4) =>
                let ri := if kw_test st4 ["INTEGER"; "INT"]%string then read_integer fuel st4 rw4 else PrOk (st4, rw4) in
                match ri with
                | PrOk (st5, rw5) =>
                  if kw_test st5 ["END"]%string
                  then match finish M rw5 with Some P => PrOk P | None => PrErr end
                  else PrErr
                | PrErr => PrErr | PrFlt => PrFlt | PrFuel => PrFuel
                end
              | PrErr => PrErr | PrFlt => PrFlt | PrFuel => PrFuel
              end
          | PrErr => PrErr | PrFlt => PrFlt | PrFuel => PrFuel
          end
        | PrErr => PrErr | PrFlt => PrFlt | PrFuel => PrFuel
        end
      | PrErr => PrErr | PrFlt => PrFlt | PrFuel => PrFuel
      end
    end.

  Lemma read_lp_res_fuel ls : read_lp_res strict M ls = read_lp_fuel (total_fuel ls) ls.
  Proof. reflexivity. Qed.

  (* the same fuel, lines cut beforehand *)
  Lemma st_start_cut ls : st_start (map cutline ls) = cutst (st_start ls).
  Proof.
    unfold st_start. change (mk_rst [] [] (map cutline ls) false [] false 0) with (cutst (mk_rst [] [] ls false [] false 0)).
    now rewrite skip_blanks_cut.
  Qed.

  Lemma read_lp_fuel_cut fuel ls : read_lp_fuel fuel (map cutline ls) = read_lp_fuel fuel ls.
  Proof.
    unfold read_lp_fuel. rewrite st_start_cut, next_field_cut. destruct (next_field true (st_start ls)) as [st0 [|]]; cbn [fst snd]; [|reflexivity].
    rewrite read_header_cut. destruct (read_header st0) as [[[st1 nm] mx]| | |]; cbn [hmap]; try reflexivity.
    rewrite read_objective_cut. destruct (read_objective strict fuel st1 nm mx) as [[st2 rw2]| | |]; cbn [rmap]; try reflexivity.
    rewrite read_constraints_cut. destruct (read_constraints strict fuel st2 rw2) as [[st3 rw3]| | |]; cbn [rmap]; try reflexivity.
    destruct (is_nil (r_cols rw3)); [reflexivity|]. rewrite kw_test_cut.
    assert (RB : (if kw_test st3 ["BOUNDS"; "BOUND"]%string then read_bounds strict M fuel (cutst st3) rw3 else PrOk (cutst st3, rw3)) =
                 rmap (if kw_test st3 ["BOUNDS"; "BOUND"]%string then read_bounds strict M fuel st3 rw3 else PrOk (st3, rw3)))
      by (destruct (kw_test st3 _); [apply read_bounds_cut|reflexivity]).
    cbv zeta. rewrite RB.
    destruct (if kw_test st3 ["BOUNDS"; "BOUND"]%string then read_bounds strict M fuel st3 rw3 else PrOk (st3, rw3)) as [[st4 rw4]| | |]; cbn [rmap]; try reflexivity.
    rewrite kw_test_cut.
    assert (RI : (if kw_test st4 ["INTEGER"; "INT"]%string then read_integer fuel (cutst st4) rw4 else PrOk (cutst st4, rw4)) =
                 rmap (if kw_test st4 ["INTEGER"; "INT"]%string then read_integer fuel st4 rw4 else PrOk (st4, rw4)))
      by (destruct (kw_test st4 _); [apply read_integer_cut|reflexivity]).
    rewrite RI.
    destruct (if kw_test st4 ["INTEGER"; "INT"]%string then read_integer fuel st4 rw4 else PrOk (st4, rw4)) as [[st5 rw5]| | |]; cbn [rmap]; try reflexivity.
  Qed.

  (* more fuel than needed changes nothing *)
  Lemma read_objective_fuel f f' st nm mx : (f <= f')%nat -> (mu st < f)%nat ->
    read_objective strict f' st nm mx = read_objective strict f st nm mx.
  Proof.
    intros LE LT. destruct (read_objective_total strict f st nm mx LT) as [NF _]. revert NF. unfold read_objective.
    destruct (skip_blanks true st) as [st1 ok]. destruct (has_colon st1) as [st2 hc]. destruct hc.
    - destruct (next_var st2) as [st3 []]; try reflexivity. destruct (colon st3) as [st4 [|]]; [|reflexivity].
      intros NF. apply read_expr_fuel; assumption.
    - intros NF. apply read_expr_fuel; assumption.
  Qed.
  Lemma read_constraints_fuel f f' st rw : (f <= f')%nat -> (mu st < f)%nat ->
    read_constraints strict f' st rw = read_constraints strict f st rw.
  Proof.
    intros LE LT. destruct (read_constraints_total strict f st rw LT) as [NF _]. revert NF. unfold read_constraints.
    destruct (check_subject_to st) as [st1 [|]]; [|reflexivity]. intros NF.
    rewrite (read_constraint_loop_fuel strict f f' f f' st1 rw LE LE); [reflexivity|].
    intros E. rewrite E in NF. congruence.
  Qed.
  Lemma read_bounds_fuel f f' st rw : (f <= f')%nat -> (mu st < f)%nat ->
    read_bounds strict M f' st rw = read_bounds strict M f st rw.
  Proof.
    intros LE LT. destruct (read_bounds_loop_total strict M f st rw LT) as [NF _]. unfold read_bounds.
    now rewrite (read_bounds_loop_fuel strict M f f' st rw LE NF).
  Qed.
  Lemma read_integer_fuel f f' st rw : (f <= f')%nat -> (mu st < f)%nat ->
    read_integer f' st rw = read_integer f st rw.
  Proof.
    intros LE LT. destruct (read_integer_loop_total f st rw LT) as [NF _]. unfold read_integer.
    now rewrite (read_integer_loop_fuel f f' st rw LE NF).
  Qed.

  Lemma read_lp_fuel_more f f' ls : (f <= f')%nat -> (mu (st_start ls) < f)%nat -> read_lp_fuel f' ls = read_lp_fuel f ls.
  Proof.
    intros LE M0. unfold read_lp_fuel.
    pose proof (next_field_mu true (st_start ls)) as N0. destruct (next_field true (st_start ls)) as [st0 [|]]; [|reflexivity]. cbn [fst] in N0.
    destruct (read_header st0) as [[[st1 nm] mx]| | |] eqn:RH; try reflexivity. apply read_header_mu in RH.
    rewrite (read_objective_fuel f f' st1 nm mx LE ltac:(lia)).
    destruct (read_objective_total strict f st1 nm mx ltac:(lia)) as [_ OL].
    destruct (read_objective strict f st1 nm mx) as [[st2 rw2]| | |]; try reflexivity. specialize (OL st2 rw2 eq_refl).
    rewrite (read_constraints_fuel f f' st2 rw2 LE ltac:(lia)).
    destruct (read_constraints_total strict f st2 rw2 ltac:(lia)) as [_ CL].
    destruct (read_constraints strict f st2 rw2) as [[st3 rw3]| | |]; try reflexivity. specialize (CL st3 rw3 eq_refl).
    destruct (is_nil (r_cols rw3)); [reflexivity|]. cbv zeta.
    assert (RB : (if kw_test st3 ["BOUNDS"; "BOUND"]%string then read_bounds strict M f' st3 rw3 else PrOk (st3, rw3)) =
                 (if kw_test st3 ["BOUNDS"; "BOUND"]%string then read_bounds strict M f st3 rw3 else PrOk (st3, rw3)))
      by (destruct (kw_test st3 _); [apply read_bounds_fuel; [exact LE|lia]|reflexivity]).
    rewrite RB.
    assert (L4 : forall st4 rw4, (if kw_test st3 ["BOUNDS"; "BOUND"]%string then read_bounds strict M f st3 rw3 else PrOk (st3, rw3)) = PrOk (st4, rw4) -> (mu st4 <= mu st3)%nat).
    { intros st4 rw4. destruct (kw_test st3 _); [|intros H; inversion H; subst; lia].
      unfold read_bounds. destruct (read_bounds_loop_total strict M f st3 rw3 ltac:(lia)) as [_ BL].
      destruct (read_bounds_loop strict M f st3 rw3) as [[s r]| | |]; try discriminate. specialize (BL s r eq_refl).
      intros H. inversion H; subst. pose proof (next_field_mu true s). lia. }
    destruct (if kw_test st3 ["BOUNDS"; "BOUND"]%string then read_bounds strict M f st3 rw3 else PrOk (st3, rw3)) as [[st4 rw4]| | |]; try reflexivity.
    specialize (L4 st4 rw4 eq_refl).
    assert (RI : (if kw_test st4 ["INTEGER"; "INT"]%string then read_integer f' st4 rw4 else PrOk (st4, rw4)) =
                 (if kw_test st4 ["INTEGER"; "INT"]%string then read_integer f st4 rw4 else PrOk (st4, rw4)))
      by (destruct (kw_test st4 _); [apply read_integer_fuel; [exact LE|lia]|reflexivity]).
    rewrite RI. reflexivity.
  Qed.

  Lemma total_fuel_cut ls : (total_fuel (map cutline ls) <= total_fuel ls)%nat.
  Proof.
    unfold total_fuel. rewrite map_length. apply le_n_S, Nat.add_le_mono_l.
    induction ls as [|l ls IH]; [simpl; lia|]. cbn [map fold_right]. pose proof (cutline_len l). lia.
  Qed.

  Lemma mu_start ls : (mu (st_start ls) < total_fuel ls)%nat.
  Proof.
    unfold st_start. pose proof (skip_blanks_mu true (mk_rst [] [] ls false [] false 0)) as H.
    assert (E0 : mu (mk_rst [] [] ls false [] false 0) = (List.length ls + bytes ls)%nat) by reflexivity.
    assert (E1 : total_fuel ls = S (List.length ls + bytes ls)) by reflexivity. lia.
  Qed.

  (* the reader sees the lines only through cutline *)
  Theorem read_lp_res_cut ls : read_lp_res strict M (map cutline ls) = read_lp_res strict M ls.
  Proof.
    rewrite !read_lp_res_fuel.
    rewrite <- (read_lp_fuel_more (total_fuel (map cutline ls)) (total_fuel ls) (map cutline ls) (total_fuel_cut ls) (mu_start _)).
    apply read_lp_fuel_cut.
  Qed.

  Lemma cutline_nl l : cutline (l ++ ["010"%char]) = cutline l.
  Proof. induction l as [|c l IH]; [reflexivity|]. cbn [app cutline]. destruct (_ || _ || _); [reflexivity|now rewrite IH]. Qed.

  Corollary read_lp_res_nl ls : read_lp_res strict M (map (fun l => l ++ ["010"%char]) ls) = read_lp_res strict M ls.
  Proof.
    rewrite <- (read_lp_res_cut (map _ ls)), <- (read_lp_res_cut ls). f_equal. rewrite map_map. apply map_ext. intros l. apply cutline_nl.
  Qed.
End Top.

(* ---- from bytes to lines: fgets -------------------------------------------------------------------------------------------------------- *)

Definition nl : ascii := "010"%char.
Definition line_ok (l : line) : Prop := ~ In nl l /\ (N.of_nat (List.length l) < 131069)%N.
Definition line_okb (l : line) : bool := negb (existsb (Ascii.eqb nl) l) && (N.of_nat (List.length l) <? 131069)%N.

Lemma line_okb_sound l : line_okb l = true -> line_ok l.
Proof.
  unfold line_okb, line_ok. intros H. apply andb_true_iff in H as [A B]. split; [|now apply N.ltb_lt].
  intros IN. apply negb_true_iff in A. assert (existsb (Ascii.eqb nl) l = true); [|congruence].
  apply existsb_exists. exists nl. split; [exact IN|apply Ascii.eqb_refl].
Qed.

Lemma split_line lim l rest : forall acc left, ~ In nl l -> (N.of_nat (List.length l) < left)%N ->
  split_lines_aux lim (l ++ nl :: rest) acc left = (rev acc ++ l ++ [nl]) :: split_lines_aux lim rest [] lim.
Proof.
  induction l as [|c l IH]; intros acc left NI LT.
  - cbn [app split_lines_aux]. unfold nl at 1. rewrite Ascii.eqb_refl. cbn [orb rev]. reflexivity.
  - cbn [app split_lines_aux].
    assert (C : Ascii.eqb c "010" = false).
    { destruct (Ascii.eqb c "010") eqn:E; [|reflexivity]. apply Ascii.eqb_eq in E. subst c. exfalso. apply NI. left. reflexivity. }
    assert (L1 : (left =? 1)%N = false) by (apply N.eqb_neq; cbn [List.length] in LT; lia).
    rewrite C, L1. cbn [orb]. rewrite IH.
    + cbn [rev]. rewrite <- !app_assoc. reflexivity.
    + intros IN. apply NI. right. exact IN.
    + cbn [List.length] in LT. lia.
Qed.

Lemma split_lines_file ls : Forall line_ok ls -> split_lines (file_bytes ls) = map (fun l => l ++ [nl]) ls.
Proof.
  unfold split_lines, file_bytes. induction 1 as [|l ls [NI LT] _ IH]; [reflexivity|].
  cbn [flat_map map]. rewrite <- app_assoc. cbn [app]. rewrite split_line; [|exact NI|exact LT]. cbn [rev app]. now rewrite IH.
Qed.

(* the reader on the bytes of a file whose lines are shorter than the line buffer *)
Theorem read_lp_bytes strict M ls : Forall line_ok ls ->
  read_lp_res strict M (split_lines (file_bytes ls)) = read_lp_res strict M ls.
Proof. intros H. rewrite (split_lines_file ls H). apply read_lp_res_nl. Qed.

(* the written file, as bytes, read back *)
Theorem lp_roundtrip_bytes M P : 0 < M -> wf_lp M P -> Forall line_ok (write_lp M P) ->
  exists P', read_lp true M (split_lines (file_bytes (write_lp M P))) = Some P' /\ equiv_by_name (to_nlp P) (to_nlp P') = true.
Proof.
  intros HM WF LO. destruct (lp_roundtrip M HM P WF) as (P' & R & E). exists P'. split; [|exact E].
  unfold read_lp in *. now rewrite (read_lp_bytes true M _ LO).
Qed.
