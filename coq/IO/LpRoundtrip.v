(* IO/LpRoundtrip.v -- the LP round trip at file level: sections and the whole file.

     header_read        "Problem" / name / "Minimize"|"Maximize"
     objective_read     the objective (named, possibly without terms, wrapped by the writer's own rule)
     rows_section_read  "Subject To" and all written rows up to the next keyword line
     ...
   built on IO/LpTok.v (tokens), IO/LpExpr.v (expressions), IO/LpRows.v (constraints). *)
From Coq Require Import QArith List Ascii String Bool Arith NArith Lia Lqa.
From QSX Require Import Base.QSum LP.User IO.Num IO.NumSound IO.Bounds IO.Lex IO.Equiv IO.LpWrite IO.LpRead IO.LpTok IO.LpExpr IO.LpRows IO.LpBounds IO.LpFinish.
Import ListNotations.
Local Open Scope Q_scope.

(* ---- words --------------------------------------------------------------------------------------------------- *)

Definition word_ok (w : list ascii) : Prop := w <> [] /\ forallb (fun c => negb (is_space c) && negb (special c)) w = true.

Lemma word_nospace w : word_ok w -> forallb (fun c => negb (is_space c)) w = true.
Proof.
  intros [_ H]. apply forallb_forall. intros x IN. rewrite forallb_forall in H. specialize (H x IN).
  now apply andb_true_iff in H.
Qed.
Lemma word_clean w : word_ok w -> clean w.
Proof.
  intros [_ H]. apply forallb_forall. intros x IN. rewrite forallb_forall in H. specialize (H x IN).
  now apply andb_true_iff in H.
Qed.

Lemma take_word_exact w : forallb (fun c => negb (is_space c)) w = true -> take_word w = (w, []).
Proof.
  induction w as [|x w IH]; intros H; [reflexivity|]. simpl in *. apply andb_true_iff in H. destruct H as [H1 H2].
  apply negb_true_iff in H1. rewrite H1, (IH H2). reflexivity.
Qed.

Lemma next_field_sbeq st st' : sbeq st st' -> next_field true st = next_field true st'.
Proof. unfold sbeq, next_field. now intros ->. Qed.

(* a line that consists of blanks and one word *)
Lemma next_field_before st l more b w : before st (l :: more) -> cutline l = b ++ w -> all_blank b -> word_ok w ->
  next_field true st = (mk_rst (rev w ++ rev b) [] more false w (is_nil b) (S (lnum st)), true).
Proof.
  intros BF CL AB WO. destruct w as [|x w'] eqn:EW; [destruct WO; congruence|]. rewrite <- EW in *.
  pose proof (word_nospace w WO) as NS.
  assert (NSx : is_space x = false) by (rewrite EW in NS; simpl in NS; apply andb_true_iff in NS; destruct NS as [N _]; now apply negb_true_iff in N).
  assert (NB : is_blank x = false) by (unfold is_space in NSx; destruct (is_blank x); [discriminate|reflexivity]).
  assert (CL' : cutline l = b ++ x :: w') by (rewrite CL, EW; reflexivity).
  unfold next_field. rewrite (skip_blanks_before st l more b x w' BF CL' AB NB). cbn [eof set_first cur].
  cbn [skip_space]. rewrite NSx. rewrite <- EW, (take_word_exact w NS). cbn [fst].
  rewrite EW at 1. unfold advn, set_fld, set_first, at_col0. cbn [pre cur rest eof fld first lnum].
  rewrite <- EW. rewrite <- (app_nil_r w) at 2. rewrite adv_app. unfold set_pos. cbn [pre cur rest eof fld first lnum].
  destruct b; cbn [rev is_nil]; [reflexivity|]. destruct (rev b ++ [a]) eqn:Z; [now destruct (rev b)|reflexivity].
Qed.

(* the state after a keyword was read from column 0; the lines [more] follow *)
Definition kwstate (st : rst) (w : list ascii) (more : list line) : Prop :=
  cur st = [] /\ rest st = more /\ eof st = false /\ fld st = w /\ first st = true.

Lemma kwstate_before st w more : kwstate st w more -> before st more.
Proof. intros (C & R & E & _). unfold before. rewrite C. repeat split; auto. Qed.

Lemma next_field_kw st l more : before st (l :: more) -> cutline l = l -> word_ok l ->
  kwstate (fst (next_field true st)) l more.
Proof.
  intros BF CL WO. rewrite (next_field_before st l more [] l BF CL eq_refl WO). cbn [fst]. unfold kwstate. cbn. repeat split.
Qed.

(* ---- header ------------------------------------------------------------------------------------------------------ *)

Definition minmax_line (mx : bool) : line := if mx then s2l "Maximize" else s2l "Minimize".

Lemma header_read (pn : option name) (mx : bool) (more : list line) :
  match pn with Some n => word_ok n | None => True end ->
  let ls := (match pn with Some n => [s2l "Problem"; " "%char :: n] | None => [] end) ++ minmax_line mx :: more in
  exists st0 st, next_field true (st_start ls) = (st0, true) /\ read_header st0 = PrOk (st, pn, mx) /\ before st more.
Proof.
  intros WO ls.
  set (st00 := mk_rst [] [] ls false [] false 0).
  assert (B00 : before st00 ls) by (unfold before, st00; cbn; repeat split).
  assert (NF0 : next_field true (st_start ls) = next_field true st00) by (apply next_field_sbeq, sb_idem).
  rewrite NF0.
  assert (MMW : word_ok (minmax_line mx)) by (destruct mx; split; (discriminate || reflexivity)).
  assert (MMC : cutline (minmax_line mx) = minmax_line mx) by (destruct mx; reflexivity).
  destruct pn as [n|]; unfold ls in *; cbn [app] in *.
  - assert (PW : word_ok (s2l "Problem")) by (split; [discriminate|reflexivity]).
    rewrite (next_field_before st00 _ _ [] (s2l "Problem") B00 eq_refl eq_refl PW).
    eexists _, _. split; [reflexivity|].
    set (st0 := mk_rst _ [] _ false (s2l "Problem") (is_nil []) _).
    assert (B0 : before st0 ((" "%char :: n) :: minmax_line mx :: more)) by (unfold before, st0; cbn; repeat split).
    assert (CLn : cutline (" "%char :: n) = [" "%char] ++ n) by (change (" "%char :: n) with ([" "%char] ++ n); rewrite cutline_app by reflexivity; now rewrite (cutline_clean n (word_clean n WO))).
    unfold read_header. cbn [first st0 is_nil negb fld]. cbn [ieq s2l list_ascii_of_string to_lower].
    change (ieq (s2l "Problem") (s2l "PROBLEM")) with true. cbn [orb].
    rewrite (next_field_before st0 _ _ [" "%char] n B0 CLn eq_refl WO).
    set (st1 := mk_rst _ [] (minmax_line mx :: more) false n _ _).
    assert (B1 : before st1 (minmax_line mx :: more)) by (unfold before, st1; cbn; repeat split).
    rewrite (next_field_before st1 _ _ [] (minmax_line mx) B1 MMC eq_refl MMW). cbn [fst fld first is_nil negb st1].
    split.
    + destruct mx; reflexivity.
    + unfold before. cbn. repeat split.
  - rewrite (next_field_before st00 _ _ [] (minmax_line mx) B00 MMC eq_refl MMW).
    eexists _, _. split; [reflexivity|]. unfold read_header. cbn [first is_nil negb fld]. split.
    + destruct mx; reflexivity.
    + unfold before. cbn. repeat split.
Qed.

(* ---- objective ------------------------------------------------------------------------------------------------------ *)

Lemma read_objective_unfold fuel st nm mx :
  read_objective true fuel st nm mx =
  match read_constraint_name (fst (skip_blanks true st)) with
  | PrOk (s, on) => read_expr true fuel s (raw0 nm mx (match on with Some n => n | None => s2l "obj" end)) true
  | PrErr => PrErr | PrFlt => PrFlt | PrFuel => PrFuel
  end.
Proof.
  unfold read_objective, read_constraint_name, raw0. destruct (skip_blanks true st) as [st1 ok]. cbn [fst].
  destruct (has_colon st1) as [st2 hc]. destruct hc; [|reflexivity].
  destruct (next_var st2) as [st3 []]; try reflexivity. destruct (colon st3) as [st4 []]; reflexivity.
Qed.

Definition STL : line := s2l "Subject To".

Lemma at_STL st more : pre st = [] -> cur st = STL -> rest st = more -> eof st = false ->
  sign st = (st, None) /\ skip_blanks true st = (st, true).
Proof.
  intros P C R E. destruct (skip_blanks_here st "S"%char (s2l "ubject To") C eq_refl) as [S1 _].
  split; [|exact S1]. unfold sign. rewrite S1, C. reflexivity.
Qed.

Section File.
  Variable M : Q.
  Hypothesis HM : 0 < M.

  Lemma objective_read st pn mx on cols more k :
    name_ok on -> terms_ok M (obj_terms cols) ->
    before st (obj_lines M on cols ++ STL :: more) -> (List.length (obj_terms cols) <= k)%nat ->
    exists st', read_objective true (S k) st pn mx = PrOk (st', add_terms (raw0 pn mx on) (rd_terms (obj_terms cols))) /\
      pre st' = [] /\ cur st' = STL /\ rest st' = more /\ eof st' = false.
  Proof.
    intros NO TO BF FU.
    set (hdr := " "%char :: on ++ s2l ": ") in *.
    set (ts := obj_terms cols) in *.
    set (its := obj_items M (List.length hdr) ts (List.length hdr) 0).
    assert (LINES : obj_lines M on cols ++ STL :: more =
                    (hdr ++ fst (rem M [] (STL :: more) its)) :: snd (rem M [] (STL :: more) its)).
    { unfold obj_lines. fold hdr. fold (obj_terms cols). fold ts. fold its.
      pose proof (layout_rem M [] (STL :: more) its hdr) as H.
      destruct (layout M hdr its) as [ls c']. destruct (rem M [] (STL :: more) its) as [cu re]. cbn [fst snd].
      rewrite app_nil_r in H. rewrite <- app_assoc. cbn [app]. now symmetry. }
    destruct (rem M [] (STL :: more) its) as [cu re] eqn:RM. cbn [fst snd] in LINES. rewrite LINES in BF.
    destruct on as [|x0 r0] eqn:EON; [destruct NO|]. rewrite <- EON in *.
    assert (CL : cutline (hdr ++ cu) = [" "%char] ++ x0 :: (r0 ++ s2l ": " ++ cutline cu)).
    { unfold hdr. change ((" "%char :: on ++ s2l ": ") ++ cu) with (([" "%char] ++ on ++ s2l ": ") ++ cu).
      rewrite cutline_app; [cbn [app]; rewrite <- app_assoc; reflexivity|].
      apply clean_cons; [reflexivity|]. apply clean_app; [apply name_clean; rewrite <- EON; exact NO|reflexivity]. }
    assert (NB0 : is_blank x0 = false) by (rewrite EON in NO; destruct NO as [H _]; apply (name_start_facts x0 H)).
    rewrite read_objective_unfold, (skip_blanks_before st _ re [" "%char] x0 _ BF CL eq_refl NB0). cbn [fst].
    set (st1 := mk_rst (rev [" "%char]) (x0 :: r0 ++ s2l ": " ++ cutline cu) re false (fld st) (first st) (S (lnum st))).
    assert (C1 : cur st1 = [] ++ on ++ ":"%char :: (" "%char :: cutline cu)) by (unfold st1; cbn [cur app]; rewrite EON; reflexivity).
    destruct (read_cname_named st1 [] on _ C1 eq_refl NO) as (st3 & RC & C3 & R3 & E3); [right; discriminate|].
    rewrite RC.
    pose proof (sbeq_blanks st3 [" "%char] (cutline cu) eq_refl C3) as SB.
    set (st3' := set_pos st3 (rev [" "%char] ++ pre st3) (cutline cu)) in *.
    rewrite (read_expr_sbeq k st3 st3' _ true SB).
    assert (BT : forall s, cur s = cutline [] -> rest s = STL :: more -> eof s = false ->
                 skip_blanks true s = (mk_rst [] STL more false (fld s) (first s) (S (lnum s)), true)).
    { intros s C R E. apply (skip_blanks_before s STL more [] "S"%char (s2l "ubject To")); try reflexivity.
      unfold before. rewrite C. repeat split; auto. }
    assert (D : ts = [] \/ ts <> []) by (destruct ts; [left|right]; congruence).
    destruct D as [ETS|NE].
    - (* no terms *)
      unfold its in RM. rewrite ETS in RM. rewrite ETS. cbn [obj_items rem] in RM. injection RM as <- <-.
      assert (S3 : skip_blanks true st3' = (mk_rst [] STL more false (fld st3') (first st3') (S (lnum st3')), true)).
      { apply BT; unfold st3', set_pos; cbn [cur rest eof]; [reflexivity|exact R3|exact E3]. }
      rewrite read_expr_unfold. unfold sign. rewrite S3. cbn [cur STL s2l list_ascii_of_string].
      unfold read_tail, value. cbn [skip_blanks pre cur skipb is_blank Ascii.eqb orb set_pos negb set_first at_col0 is_nil].
      change (read_num_gen true (s2l "Subject To")) with (Val 0, O).
      cbn beta iota.
      unfold next_var. cbn [skip_blanks pre cur skipb is_blank Ascii.eqb orb set_pos negb set_first at_col0 is_nil].
      change (fst (scan_name (s2l "Subject To") true)) with (s2l "Subject").
      cbn [s2l list_ascii_of_string first andb].
      change (is_keyword (s2l "Subject")) with true. cbn beta iota.
      eexists. split; [reflexivity|]. cbn. repeat split.
    - (* at least one term *)
      assert (HT : forall s, cur s = cutline [] -> rest s = STL :: more -> eof s = false -> snd (sign s) = None).
      { intros s C R E. unfold sign. rewrite (BT s C R E). reflexivity. }
      assert (IOK : items_ok M MFirst its) by (apply obj_items_ok; [exact TO|split; [reflexivity|exact NE]]).
      assert (CNT : (count_terms its <= k)%nat) by (unfold its; rewrite obj_items_count; exact FU).
      destruct (expr_roundtrip M HM [] (STL :: more) its st3' (raw0 pn mx on) k cu re HT I IOK RM eq_refl R3 E3 CNT)
        as (st_t & T1 & T2 & T3 & RES).
      rewrite RES. unfold its. rewrite obj_items_terms. fold (rd_terms ts).
      rewrite (sign_none_fst st_t (HT st_t T1 T2 T3)), (BT st_t T1 T2 T3). cbn [fst].
      eexists. split; [reflexivity|]. cbn. repeat split.
  Qed.
End File.

(* ---- "Subject To" ---------------------------------------------------------------------------------------------------- *)

Lemma subject_to_read st l more b x t :
  pre st = [] -> cur st = STL -> rest st = l :: more -> eof st = false ->
  cutline l = b ++ x :: t -> all_blank b -> is_blank x = false ->
  exists st', check_subject_to st = (st', true) /\ at_line st' l more.
Proof.
  intros P C R E CL AB NB. destruct st as [p c r e f fi ln]. cbn in P, C, R, E. subst.
  unfold check_subject_to, next_field. cbn -[cutline].
  rewrite CL, (skipb_blanks b AB [] (x :: t) NB), app_nil_r. cbn [fst].
  eexists. split; [reflexivity|]. exists b, [], (x :: t). cbn [pre cur rest eof app]. rewrite app_nil_r. repeat split; auto.
Qed.

(* a keyword line read with next_field from its first column *)
Lemma next_field_kwline st w : pre st = [] -> cur st = w -> word_ok w -> eof st = false ->
  kwstate (fst (next_field true st)) w (rest st).
Proof.
  intros P C WO E. destruct w as [|x w'] eqn:EW; [destruct WO; congruence|]. rewrite <- EW in *.
  pose proof (word_nospace w WO) as NS.
  assert (NSx : is_space x = false) by (rewrite EW in NS; simpl in NS; apply andb_true_iff in NS; destruct NS as [N _]; now apply negb_true_iff in N).
  rewrite EW in C. destruct (next_field_word st x w' C NSx E) as (w2 & t' & SP & NSP & TW & NF).
  rewrite <- EW in *. rewrite (take_word_exact w NS) in TW. cbn [fst] in TW.
  rewrite NF. cbn [fst]. rewrite <- TW in SP.
  assert (T' : t' = []) by (rewrite <- (app_nil_r w) in SP at 1; now apply app_inv_head in SP).
  subst t'. unfold kwstate, at_col0. rewrite P. cbn. repeat split; auto.
Qed.


(* ---- the Integer section ---------------------------------------------------------------------------------------------------- *)

(* a line of names, each preceded by one blank *)
Definition name_line (ns : list name) : line := flat_map (fun n => " "%char :: n) ns.

Inductive names_lines : list name -> list line -> Prop :=
| nl_nil : names_lines [] []
| nl_line ns1 ns2 ls : ns1 <> [] -> names_lines ns2 ls -> names_lines (ns1 ++ ns2) (name_line ns1 :: ls).

Lemma name_line_snoc ns nm : name_line (ns ++ [nm]) = name_line ns ++ " "%char :: nm.
Proof. unfold name_line. rewrite flat_map_app. cbn [flat_map]. now rewrite app_nil_r. Qed.

(* write_intvars produces such lines *)
Lemma int_lines_shape : forall names ns0,
  names_lines (ns0 ++ names) (int_lines names (match ns0 with [] => [" "%char] | _ => name_line ns0 end) (negb (is_nil ns0))).
Proof.
  induction names as [|nm r IH]; intros ns0.
  - cbn [int_lines]. rewrite app_nil_r. destruct ns0 as [|n0 ns0']; cbn [is_nil negb]; [constructor|].
    rewrite <- (app_nil_r (n0 :: ns0')) at 1. constructor; [discriminate|constructor].
  - replace (ns0 ++ nm :: r) with ((ns0 ++ [nm]) ++ r) by (rewrite <- app_assoc; reflexivity).
    assert (G : forall (cur0 : line) (var : bool), cur0 ++ (if var then [" "%char] else []) ++ nm = name_line (ns0 ++ [nm]) ->
                names_lines ((ns0 ++ [nm]) ++ r) (int_lines (nm :: r) cur0 var)).
    { intros cur0 var CUR. cbn [int_lines]. rewrite CUR.
      destruct (LINE_LEN <=? List.length (name_line (ns0 ++ [nm])))%nat.
      - constructor; [now destruct ns0|]. apply (IH []).
      - specialize (IH (ns0 ++ [nm])). destruct (ns0 ++ [nm]) eqn:Z; [now destruct ns0|]. exact IH. }
    apply G. rewrite name_line_snoc. destruct ns0; cbn [is_nil negb app name_line flat_map]; [reflexivity|]. now rewrite <- !app_assoc.
Qed.

Lemma read_integer_loop_sbeq k st st' rw : sbeq st st' -> read_integer_loop (S k) st rw = read_integer_loop (S k) st' rw.
Proof. intros H. cbn [read_integer_loop]. unfold read_colname. rewrite (next_var_sbeq _ _ H). reflexivity. Qed.


Definition intname_ok (cn : list name) (n : name) : Prop := name_ok n /\ mem n cn = true.

(* the names of one line *)
Lemma int_line_read : forall ns st rw k, Forall (intname_ok (r_cols rw)) ns -> cur st = name_line ns ->
  exists st', read_integer_loop (List.length ns + k) st rw = read_integer_loop k st' (mark_all rw ns) /\
    cur st' = [] /\ rest st' = rest st /\ eof st' = eof st.
Proof.
  induction ns as [|n ns IH]; intros st rw k OK C.
  - exists st. cbn in *. auto.
  - inversion OK as [|? ? (NO & MEM) OK']; subst. cbn [name_line flat_map] in C. fold (name_line ns) in C.
    assert (C' : cur st = [" "%char] ++ n ++ name_line ns) by exact C.
    assert (ST : stop_name (name_line ns)) by (destruct ns; reflexivity).
    assert (AB1 : all_blank [" "%char]) by reflexivity.
    assert (NE1 : [" "%char] <> [] \/ pre st <> []) by (left; discriminate).
    destruct (next_var_name st [" "%char] n (name_line ns) C' AB1 NO ST NE1) as (st1 & NV & (P1 & C1 & R1 & E1 & L1) & F1).
    cbn [List.length plus read_integer_loop]. unfold read_colname. rewrite NV, F1, MEM.
    destruct (IH st1 (mark_int rw n) k OK' C1) as (st' & RL & C2 & R2 & E2).
    exists st'. rewrite RL. cbn [mark_all fold_left]. repeat split; congruence.
Qed.

Lemma ints_end k st stb rw more : sbeq st stb -> before stb (s2l "End" :: more) ->
  exists st', read_integer_loop (S k) st rw = PrOk (st', rw) /\ pre st' = [] /\ cur st' = s2l "End" /\ rest st' = more /\ eof st' = false.
Proof.
  intros SB (ABc & RSb & EOb).
  pose proof (sbeq_newline stb _ _ ABc EOb RSb) as SN.
  rewrite (read_integer_loop_sbeq k st _ rw (sbeq_trans _ _ _ SB SN)).
  cbn [read_integer_loop]. unfold read_colname, next_var.
  change (cutline (s2l "End")) with (s2l "End").
  cbn [skip_blanks pre cur skipb s2l list_ascii_of_string is_blank Ascii.eqb orb set_pos negb set_first at_col0 is_nil].
  change (fst (scan_name (s2l "End") true)) with (s2l "End"). cbn [s2l list_ascii_of_string first andb].
  change (is_keyword (s2l "End")) with true. cbn beta iota.
  eexists. split; [reflexivity|]. cbn. repeat split.
Qed.

Lemma ints_read : forall ns ls, names_lines ns ls -> forall st stb rw k more,
  Forall (intname_ok (r_cols rw)) ns -> sbeq st stb -> before stb (ls ++ s2l "End" :: more) -> (List.length ns <= k)%nat ->
  exists st', read_integer_loop (S k) st rw = PrOk (st', mark_all rw ns) /\
    pre st' = [] /\ cur st' = s2l "End" /\ rest st' = more /\ eof st' = false.
Proof.
  induction 1 as [|ns1 ns2 ls NE NL IH]; intros st stb rw k more OK SB BF FU.
  - cbn [app] in BF. apply (ints_end k st stb rw more SB BF).
  - apply Forall_app in OK. destruct OK as [OK1 OK2].
    cbn [app] in BF. destruct BF as (ABc & RSb & EOb).
    pose proof (sbeq_newline stb _ _ ABc EOb RSb) as SN.
    set (s0 := mk_rst [] (cutline (name_line ns1)) (ls ++ s2l "End" :: more) false (fld stb) (first stb) (S (lnum stb))) in *.
    rewrite (read_integer_loop_sbeq k st s0 rw (sbeq_trans _ _ _ SB SN)).
    assert (CLN : clean (name_line ns1)).
    { clear - OK1. induction ns1 as [|n ns IH]; [reflexivity|]. inversion OK1 as [|? ? (NO & _) OK']; subst.
      cbn [name_line flat_map]. apply clean_cons; [reflexivity|]. apply clean_app; [now apply name_clean|now apply IH]. }
    assert (C0 : cur s0 = name_line ns1) by (unfold s0; cbn [cur]; now apply cutline_clean).
    rewrite app_length in FU.
    replace (S k) with (List.length ns1 + (S (k - List.length ns1)))%nat by lia.
    destruct (int_line_read ns1 s0 rw (S (k - List.length ns1)) OK1 C0) as (s1 & RL & C1 & R1 & E1).
    rewrite RL. unfold mark_all at 2. rewrite fold_left_app. fold (mark_all rw ns1). fold (mark_all (mark_all rw ns1) ns2).
    apply (IH s1 s1 (mark_all rw ns1) (k - List.length ns1)%nat more).
    + rewrite r_cols_mark_all. exact OK2.
    + reflexivity.
    + unfold before. rewrite C1. repeat split; auto.
    + lia.
Qed.
