(* IO/LpRoundtrip.v -- the LP round trip at file level: sections and the whole file.

     header_read        "Problem" / name / "Minimize"|"Maximize"
     objective_read     the objective (named, possibly without terms, wrapped by the writer's own rule)
     rows_section_read  "Subject To" and all written rows up to the next keyword line
     ...
   built on IO/LpTok.v (tokens), IO/LpExpr.v (expressions), IO/LpRows.v (constraints). *)
From Coq Require Import QArith List Ascii String Bool Arith NArith Lia Lqa.
From QSX Require Import Base.QSum LP.User IO.Num IO.NumSound IO.Bounds IO.Lex IO.Equiv IO.LpWrite IO.LpRead IO.LpTok IO.LpExpr IO.LpRows IO.LpBounds IO.LpFinish.
Import ListNotations.
Local Open Scope Q_scope.

(* ---- words --------------------------------------------------------------------------------------------------- *)

Definition word_ok (w : list ascii) : Prop := w <> [] /\ forallb (fun c => negb (is_space c) && negb (special c)) w = true.

Lemma word_nospace w : word_ok w -> forallb (fun c => negb (is_space c)) w = true.
Proof.
  intros [_ H]. apply forallb_forall. intros x IN. rewrite forallb_forall in H. specialize (H x IN).
  now apply andb_true_iff in H.
Qed.
Lemma word_clean w : word_ok w -> clean w.
Proof.
  intros [_ H]. apply forallb_forall. intros x IN. rewrite forallb_forall in H. specialize (H x IN).
  now apply andb_true_iff in H.
Qed.

Lemma take_word_exact w : forallb (fun c => negb (is_space c)) w = true -> take_word w = (w, []).
Proof.
  induction w as [|x w IH]; intros H; [reflexivity|]. simpl in *. apply andb_true_iff in H. destruct H as [H1 H2].
  apply negb_true_iff in H1. rewrite H1, (IH H2). reflexivity.
Qed.

Lemma next_field_sbeq st st' : sbeq st st' -> next_field true st = next_field true st'.
Proof. unfold sbeq, next_field. now intros ->. Qed.

(* a line that consists of blanks and one word *)
Lemma next_field_before st l more b w : before st (l :: more) -> cutline l = b ++ w -> all_blank b -> word_ok w ->
  next_field true st = (mk_rst (rev w ++ rev b) [] more false w (is_nil b) (S (lnum st)), true).
Proof.
  intros BF CL AB WO. destruct w as [|x w'] eqn:EW; [destruct WO; congruence|]. rewrite <- EW in *.
  pose proof (word_nospace w WO) as NS.
  assert (NSx : is_space x = false) by (rewrite EW in NS; simpl in NS; apply andb_true_iff in NS; destruct NS as [N _]; now apply negb_true_iff in N).
  assert (NB : is_blank x = false) by (unfold is_space in NSx; destruct (is_blank x); [discriminate|reflexivity]).
  assert (CL' : cutline l = b ++ x :: w') by (rewrite CL, EW; reflexivity).
  unfold next_field. rewrite (skip_blanks_before st l more b x w' BF CL' AB NB). cbn [eof set_first cur].
  cbn [skip_space]. rewrite NSx. rewrite <- EW, (take_word_exact w NS). cbn [fst].
  rewrite EW at 1. unfold advn, set_fld, set_first, at_col0. cbn [pre cur rest eof fld first lnum].
  rewrite <- EW. rewrite <- (app_nil_r w) at 2. rewrite adv_app. unfold set_pos. cbn [pre cur rest eof fld first lnum].
  destruct b; cbn [rev is_nil]; [reflexivity|]. destruct (rev b ++ [a]) eqn:Z; [now destruct (rev b)|reflexivity].
Qed.

(* the state after a keyword was read from column 0; the lines [more] follow *)
Definition kwstate (st : rst) (w : list ascii) (more : list line) : Prop :=
  cur st = [] /\ rest st = more /\ eof st = false /\ fld st = w /\ first st = true.

Lemma kwstate_before st w more : kwstate st w more -> before st more.
Proof. intros (C & R & E & _). unfold before. rewrite C. repeat split; auto. Qed.

Lemma next_field_kw st l more : before st (l :: more) -> cutline l = l -> word_ok l ->
  kwstate (fst (next_field true st)) l more.
Proof.
  intros BF CL WO. rewrite (next_field_before st l more [] l BF CL eq_refl WO). cbn [fst]. unfold kwstate. cbn. repeat split.
Qed.

(* ---- header ------------------------------------------------------------------------------------------------------ *)

Definition minmax_line (mx : bool) : line := if mx then s2l "Maximize" else s2l "Minimize".

Lemma header_read (pn : option name) (mx : bool) (more : list line) :
  match pn with Some n => word_ok n | None => True end ->
  let ls := (match pn with Some n => [s2l "Problem"; " "%char :: n] | None => [] end) ++ minmax_line mx :: more in
  exists st0 st, next_field true (st_start ls) = (st0, true) /\ read_header st0 = PrOk (st, pn, mx) /\ before st more.
Proof.
  intros WO ls.
  set (st00 := mk_rst [] [] ls false [] false 0).
  assert (B00 : before st00 ls) by (unfold before, st00; cbn; repeat split).
  assert (NF0 : next_field true (st_start ls) = next_field true st00) by (apply next_field_sbeq, sb_idem).
  rewrite NF0.
  assert (MMW : word_ok (minmax_line mx)) by (destruct mx; split; (discriminate || reflexivity)).
  assert (MMC : cutline (minmax_line mx) = minmax_line mx) by (destruct mx; reflexivity).
  destruct pn as [n|]; unfold ls in *; cbn [app] in *.
  - assert (PW : word_ok (s2l "Problem")) by (split; [discriminate|reflexivity]).
    rewrite (next_field_before st00 _ _ [] (s2l "Problem") B00 eq_refl eq_refl PW).
    eexists _, _. split; [reflexivity|].
    set (st0 := mk_rst _ [] _ false (s2l "Problem") (is_nil []) _).
    assert (B0 : before st0 ((" "%char :: n) :: minmax_line mx :: more)) by (unfold before, st0; cbn; repeat split).
    assert (CLn : cutline (" "%char :: n) = [" "%char] ++ n) by (change (" "%char :: n) with ([" "%char] ++ n); rewrite cutline_app by reflexivity; now rewrite (cutline_clean n (word_clean n WO))).
    unfold read_header. cbn [first st0 is_nil negb fld]. cbn [ieq s2l list_ascii_of_string to_lower].
    change (ieq (s2l "Problem") (s2l "PROBLEM")) with true. cbn [orb].
    rewrite (next_field_before st0 _ _ [" "%char] n B0 CLn eq_refl WO).
    set (st1 := mk_rst _ [] (minmax_line mx :: more) false n _ _).
    assert (B1 : before st1 (minmax_line mx :: more)) by (unfold before, st1; cbn; repeat split).
    rewrite (next_field_before st1 _ _ [] (minmax_line mx) B1 MMC eq_refl MMW). cbn [fst fld first is_nil negb st1].
    split.
    + destruct mx; reflexivity.
    + unfold before. cbn. repeat split.
  - rewrite (next_field_before st00 _ _ [] (minmax_line mx) B00 MMC eq_refl MMW).
    eexists _, _. split; [reflexivity|]. unfold read_header. cbn [first is_nil negb fld]. split.
    + destruct mx; reflexivity.
    + unfold before. cbn. repeat split.
Qed.

(* ---- objective ------------------------------------------------------------------------------------------------------ *)

Lemma read_objective_unfold fuel st nm mx :
  read_objective true fuel st nm mx =
  match read_constraint_name (fst (skip_blanks true st)) with
  | PrOk (s, on) => read_expr true fuel s (raw0 nm mx (match on with Some n => n | None => s2l "obj" end)) true
  | PrErr => PrErr | PrFlt => PrFlt | PrFuel => PrFuel
  end.
Proof.
  unfold read_objective, read_constraint_name, raw0. destruct (skip_blanks true st) as [st1 ok]. cbn [fst].
  destruct (has_colon st1) as [st2 hc]. destruct hc; [|reflexivity].
  destruct (next_var st2) as [st3 []]; try reflexivity. destruct (colon st3) as [st4 []]; reflexivity.
Qed.

Definition STL : line := s2l "Subject To".

Lemma at_STL st more : pre st = [] -> cur st = STL -> rest st = more -> eof st = false ->
  sign st = (st, None) /\ skip_blanks true st = (st, true).
Proof.
  intros P C R E. destruct (skip_blanks_here st "S"%char (s2l "ubject To") C eq_refl) as [S1 _].
  split; [|exact S1]. unfold sign. rewrite S1, C. reflexivity.
Qed.

Section File.
  Variable M : Q.
  Hypothesis HM : 0 < M.

  Lemma objective_read st pn mx on cols more k :
    name_ok on -> terms_ok M (obj_terms cols) ->
    before st (obj_lines M on cols ++ STL :: more) -> (List.length (obj_terms cols) <= k)%nat ->
    exists st', read_objective true (S k) st pn mx = PrOk (st', add_terms (raw0 pn mx on) (rd_terms (obj_terms cols))) /\
      pre st' = [] /\ cur st' = STL /\ rest st' = more /\ eof st' = false.
  Proof.
    intros NO TO BF FU.
    set (hdr := " "%char :: on ++ s2l ": ") in *.
    set (ts := obj_terms cols) in *.
    set (its := obj_items M (List.length hdr) ts (List.length hdr) 0).
    assert (LINES : obj_lines M on cols ++ STL :: more =
                    (hdr ++ fst (rem M [] (STL :: more) its)) :: snd (rem M [] (STL :: more) its)).
    { unfold obj_lines. fold hdr. fold (obj_terms cols). fold ts. fold its.
      pose proof (layout_rem M [] (STL :: more) its hdr) as H.
      destruct (layout M hdr its) as [ls c']. destruct (rem M [] (STL :: more) its) as [cu re]. cbn [fst snd].
      rewrite app_nil_r in H. rewrite <- app_assoc. cbn [app]. now symmetry. }
    destruct (rem M [] (STL :: more) its) as [cu re] eqn:RM. cbn [fst snd] in LINES. rewrite LINES in BF.
    destruct on as [|x0 r0] eqn:EON; [destruct NO|]. rewrite <- EON in *.
    assert (CL : cutline (hdr ++ cu) = [" "%char] ++ x0 :: (r0 ++ s2l ": " ++ cutline cu)).
    { unfold hdr. change ((" "%char :: on ++ s2l ": ") ++ cu) with (([" "%char] ++ on ++ s2l ": ") ++ cu).
      rewrite cutline_app; [cbn [app]; rewrite <- app_assoc; reflexivity|].
      apply clean_cons; [reflexivity|]. apply clean_app; [apply name_clean; rewrite <- EON; exact NO|reflexivity]. }
    assert (NB0 : is_blank x0 = false) by (rewrite EON in NO; destruct NO as [H _]; apply (name_start_facts x0 H)).
    rewrite read_objective_unfold, (skip_blanks_before st _ re [" "%char] x0 _ BF CL eq_refl NB0). cbn [fst].
    set (st1 := mk_rst (rev [" "%char]) (x0 :: r0 ++ s2l ": " ++ cutline cu) re false (fld st) (first st) (S (lnum st))).
    assert (C1 : cur st1 = [] ++ on ++ ":"%char :: (" "%char :: cutline cu)) by (unfold st1; cbn [cur app]; rewrite EON; reflexivity).
    destruct (read_cname_named st1 [] on _ C1 eq_refl NO) as (st3 & RC & C3 & R3 & E3); [right; discriminate|].
    rewrite RC.
    pose proof (sbeq_blanks st3 [" "%char] (cutline cu) eq_refl C3) as SB.
    set (st3' := set_pos st3 (rev [" "%char] ++ pre st3) (cutline cu)) in *.
    rewrite (read_expr_sbeq k st3 st3' _ true SB).
    assert (BT : forall s, cur s = cutline [] -> rest s = STL :: more -> eof s = false ->
                 skip_blanks true s = (mk_rst [] STL more false (fld s) (first s) (S (lnum s)), true)).
    { intros s C R E. apply (skip_blanks_before s STL more [] "S"%char (s2l "ubject To")); try reflexivity.
      unfold before. rewrite C. repeat split; auto. }
    assert (D : ts = [] \/ ts <> []) by (destruct ts; [left|right]; congruence).
    destruct D as [ETS|NE].
    - (* no terms *)
      unfold its in RM. rewrite ETS in RM. rewrite ETS. cbn [obj_items rem] in RM. injection RM as <- <-.
      assert (S3 : skip_blanks true st3' = (mk_rst [] STL more false (fld st3') (first st3') (S (lnum st3')), true)).
      { apply BT; unfold st3', set_pos; cbn [cur rest eof]; [reflexivity|exact R3|exact E3]. }
      rewrite read_expr_unfold. unfold sign. rewrite S3. cbn [cur STL s2l list_ascii_of_string].
      unfold read_tail, value. cbn [skip_blanks pre cur skipb is_blank Ascii.eqb orb set_pos negb set_first at_col0 is_nil].
      change (read_num_gen true (s2l "Subject To")) with (Val 0, O).
      cbn beta iota.
      unfold next_var. cbn [skip_blanks pre cur skipb is_blank Ascii.eqb orb set_pos negb set_first at_col0 is_nil].
      change (fst (scan_name (s2l "Subject To") true)) with (s2l "Subject").
      cbn [s2l list_ascii_of_string first andb].
      change (is_keyword (s2l "Subject")) with true. cbn beta iota.
      eexists. split; [reflexivity|]. cbn. repeat split.
    - (* at least one term *)
      assert (HT : forall s, cur s = cutline [] -> rest s = STL :: more -> eof s = false -> snd (sign s) = None).
      { intros s C R E. unfold sign. rewrite (BT s C R E). reflexivity. }
      assert (IOK : items_ok M MFirst its) by (apply obj_items_ok; [exact TO|split; [reflexivity|exact NE]]).
      assert (CNT : (count_terms its <= k)%nat) by (unfold its; rewrite obj_items_count; exact FU).
      destruct (expr_roundtrip M HM [] (STL :: more) its st3' (raw0 pn mx on) k cu re HT I IOK RM eq_refl R3 E3 CNT)
        as (st_t & T1 & T2 & T3 & RES).
      rewrite RES. unfold its. rewrite obj_items_terms. fold (rd_terms ts).
      rewrite (sign_none_fst st_t (HT st_t T1 T2 T3)), (BT st_t T1 T2 T3). cbn [fst].
      eexists. split; [reflexivity|]. cbn. repeat split.
  Qed.
End File.

(* ---- "Subject To" ---------------------------------------------------------------------------------------------------- *)

Lemma subject_to_read st l more b x t :
  pre st = [] -> cur st = STL -> rest st = l :: more -> eof st = false ->
  cutline l = b ++ x :: t -> all_blank b -> is_blank x = false ->
  exists st', check_subject_to st = (st', true) /\ at_line st' l more.
Proof.
  intros P C R E CL AB NB. destruct st as [p c r e f fi ln]. cbn in P, C, R, E. subst.
  unfold check_subject_to, next_field. cbn -[cutline].
  rewrite CL, (skipb_blanks b AB [] (x :: t) NB), app_nil_r. cbn [fst].
  eexists. split; [reflexivity|]. exists b, [], (x :: t). cbn [pre cur rest eof app]. rewrite app_nil_r. repeat split; auto.
Qed.

(* a keyword line read with next_field from its first column *)
Lemma next_field_kwline st w : pre st = [] -> cur st = w -> word_ok w -> eof st = false ->
  kwstate (fst (next_field true st)) w (rest st).
Proof.
  intros P C WO E. destruct w as [|x w'] eqn:EW; [destruct WO; congruence|]. rewrite <- EW in *.
  pose proof (word_nospace w WO) as NS.
  assert (NSx : is_space x = false) by (rewrite EW in NS; simpl in NS; apply andb_true_iff in NS; destruct NS as [N _]; now apply negb_true_iff in N).
  rewrite EW in C. destruct (next_field_word st x w' C NSx E) as (w2 & t' & SP & NSP & TW & NF).
  rewrite <- EW in *. rewrite (take_word_exact w NS) in TW. cbn [fst] in TW.
  rewrite NF. cbn [fst]. rewrite <- TW in SP.
  assert (T' : t' = []) by (rewrite <- (app_nil_r w) in SP at 1; now apply app_inv_head in SP).
  subst t'. unfold kwstate, at_col0. rewrite P. cbn. repeat split; auto.
Qed.


(* ---- the Integer section ---------------------------------------------------------------------------------------------------- *)

(* a line of names, each preceded by one blank *)
Definition name_line (ns : list name) : line := flat_map (fun n => " "%char :: n) ns.

Inductive names_lines : list name -> list line -> Prop :=
| nl_nil : names_lines [] []
| nl_line ns1 ns2 ls : ns1 <> [] -> names_lines ns2 ls -> names_lines (ns1 ++ ns2) (name_line ns1 :: ls).

Lemma name_line_snoc ns nm : name_line (ns ++ [nm]) = name_line ns ++ " "%char :: nm.
Proof. unfold name_line. rewrite flat_map_app. cbn [flat_map]. now rewrite app_nil_r. Qed.

(* write_intvars produces such lines *)
Lemma int_lines_shape : forall names ns0,
  names_lines (ns0 ++ names) (int_lines names (match ns0 with [] => [" "%char] | _ => name_line ns0 end) (negb (is_nil ns0))).
Proof.
  induction names as [|nm r IH]; intros ns0.
  - cbn [int_lines]. rewrite app_nil_r. destruct ns0 as [|n0 ns0']; cbn [is_nil negb]; [constructor|].
    rewrite <- (app_nil_r (n0 :: ns0')) at 1. constructor; [discriminate|constructor].
  - replace (ns0 ++ nm :: r) with ((ns0 ++ [nm]) ++ r) by (rewrite <- app_assoc; reflexivity).
    assert (G : forall (cur0 : line) (var : bool), cur0 ++ (if var then [" "%char] else []) ++ nm = name_line (ns0 ++ [nm]) ->
                names_lines ((ns0 ++ [nm]) ++ r) (int_lines (nm :: r) cur0 var)).
    { intros cur0 var CUR. cbn [int_lines]. rewrite CUR.
      destruct (LINE_LEN <=? List.length (name_line (ns0 ++ [nm])))%nat.
      - constructor; [now destruct ns0|]. apply (IH []).
      - specialize (IH (ns0 ++ [nm])). destruct (ns0 ++ [nm]) eqn:Z; [now destruct ns0|]. exact IH. }
    apply G. rewrite name_line_snoc. destruct ns0; cbn [is_nil negb app name_line flat_map]; [reflexivity|]. now rewrite <- !app_assoc.
Qed.

Lemma read_integer_loop_sbeq k st st' rw : sbeq st st' -> read_integer_loop (S k) st rw = read_integer_loop (S k) st' rw.
Proof. intros H. cbn [read_integer_loop]. unfold read_colname. rewrite (next_var_sbeq _ _ H). reflexivity. Qed.


Definition intname_ok (cn : list name) (n : name) : Prop := name_ok n /\ mem n cn = true.

(* the names of one line *)
Lemma int_line_read : forall ns st rw k, Forall (intname_ok (r_cols rw)) ns -> cur st = name_line ns ->
  exists st', read_integer_loop (List.length ns + k) st rw = read_integer_loop k st' (mark_all rw ns) /\
    cur st' = [] /\ rest st' = rest st /\ eof st' = eof st.
Proof.
  induction ns as [|n ns IH]; intros st rw k OK C.
  - exists st. cbn in *. auto.
  - inversion OK as [|? ? (NO & MEM) OK']; subst. cbn [name_line flat_map] in C. fold (name_line ns) in C.
    assert (C' : cur st = [" "%char] ++ n ++ name_line ns) by exact C.
    assert (ST : stop_name (name_line ns)) by (destruct ns; reflexivity).
    assert (AB1 : all_blank [" "%char]) by reflexivity.
    assert (NE1 : [" "%char] <> [] \/ pre st <> []) by (left; discriminate).
    destruct (next_var_name st [" "%char] n (name_line ns) C' AB1 NO ST NE1) as (st1 & NV & (P1 & C1 & R1 & E1 & L1) & F1).
    cbn [List.length plus read_integer_loop]. unfold read_colname. rewrite NV, F1, MEM.
    destruct (IH st1 (mark_int rw n) k OK' C1) as (st' & RL & C2 & R2 & E2).
    exists st'. rewrite RL. cbn [mark_all fold_left]. repeat split; congruence.
Qed.

Lemma ints_end k st stb rw more : sbeq st stb -> before stb (s2l "End" :: more) ->
  exists st', read_integer_loop (S k) st rw = PrOk (st', rw) /\ pre st' = [] /\ cur st' = s2l "End" /\ rest st' = more /\ eof st' = false.
Proof.
  intros SB (ABc & RSb & EOb).
  pose proof (sbeq_newline stb _ _ ABc EOb RSb) as SN.
  rewrite (read_integer_loop_sbeq k st _ rw (sbeq_trans _ _ _ SB SN)).
  cbn [read_integer_loop]. unfold read_colname, next_var.
  change (cutline (s2l "End")) with (s2l "End").
  cbn [skip_blanks pre cur skipb s2l list_ascii_of_string is_blank Ascii.eqb orb set_pos negb set_first at_col0 is_nil].
  change (fst (scan_name (s2l "End") true)) with (s2l "End"). cbn [s2l list_ascii_of_string first andb].
  change (is_keyword (s2l "End")) with true. cbn beta iota.
  eexists. split; [reflexivity|]. cbn. repeat split.
Qed.

Lemma ints_read : forall ns ls, names_lines ns ls -> forall st stb rw k more,
  Forall (intname_ok (r_cols rw)) ns -> sbeq st stb -> before stb (ls ++ s2l "End" :: more) -> (List.length ns <= k)%nat ->
  exists st', read_integer_loop (S k) st rw = PrOk (st', mark_all rw ns) /\
    pre st' = [] /\ cur st' = s2l "End" /\ rest st' = more /\ eof st' = false.
Proof.
  induction 1 as [|ns1 ns2 ls NE NL IH]; intros st stb rw k more OK SB BF FU.
  - cbn [app] in BF. apply (ints_end k st stb rw more SB BF).
  - apply Forall_app in OK. destruct OK as [OK1 OK2].
    cbn [app] in BF. destruct BF as (ABc & RSb & EOb).
    pose proof (sbeq_newline stb _ _ ABc EOb RSb) as SN.
    set (s0 := mk_rst [] (cutline (name_line ns1)) (ls ++ s2l "End" :: more) false (fld stb) (first stb) (S (lnum stb))) in *.
    rewrite (read_integer_loop_sbeq k st s0 rw (sbeq_trans _ _ _ SB SN)).
    assert (CLN : clean (name_line ns1)).
    { clear - OK1. induction ns1 as [|n ns IH]; [reflexivity|]. inversion OK1 as [|? ? (NO & _) OK']; subst.
      cbn [name_line flat_map]. apply clean_cons; [reflexivity|]. apply clean_app; [now apply name_clean|now apply IH]. }
    assert (C0 : cur s0 = name_line ns1) by (unfold s0; cbn [cur]; now apply cutline_clean).
    rewrite app_length in FU.
    replace (S k) with (List.length ns1 + (S (k - List.length ns1)))%nat by lia.
    destruct (int_line_read ns1 s0 rw (S (k - List.length ns1)) OK1 C0) as (s1 & RL & C1 & R1 & E1).
    rewrite RL. unfold mark_all at 2. rewrite fold_left_app. fold (mark_all rw ns1). fold (mark_all (mark_all rw ns1) ns2).
    apply (IH s1 s1 (mark_all rw ns1) (k - List.length ns1)%nat more).
    + rewrite r_cols_mark_all. exact OK2.
    + reflexivity.
    + unfold before. rewrite C1. repeat split; auto.
    + lia.
Qed.

(* ---- fuel: the reader is given more fuel than there are lines and bytes ------------------------------------------------------------ *)

Definition chars (ls : list line) : nat := fold_right (fun l a => (List.length l + a)%nat) 0%nat ls.
Lemma total_fuel_eq ls : total_fuel ls = S (List.length ls + chars ls).
Proof. reflexivity. Qed.
Lemma chars_app a b : chars (a ++ b) = (chars a + chars b)%nat.
Proof. induction a as [|l a IH]; simpl; [reflexivity|]. rewrite IH. lia. Qed.

Lemma layout_chars M : forall its cur0,
  let (ls, c') := layout M cur0 its in (count_terms its + List.length cur0 <= chars ls + List.length c')%nat.
Proof.
  induction its as [|[f c nm| |n] its IH]; intros cur0; cbn [layout count_terms].
  - simpl. lia.
  - specialize (IH (cur0 ++ term_text M c f nm)). destruct (layout M (cur0 ++ term_text M c f nm) its) as [ls c'].
    rewrite app_length in IH. destruct (term_text_head M c f nm) as (t & E). rewrite E in IH. simpl in *. lia.
  - specialize (IH (cur0 ++ s2l " +")). destruct (layout M (cur0 ++ s2l " +") its) as [ls c']. rewrite app_length in IH. simpl in *. lia.
  - specialize (IH (blanks n)). destruct (layout M (blanks n) its) as [ls c']. simpl. lia.
Qed.

Lemma obj_lines_chars M on cols : (List.length (obj_terms cols) <= chars (obj_lines M on cols))%nat.
Proof.
  unfold obj_lines. fold (obj_terms cols).
  set (hdr := " "%char :: on ++ s2l ": ").
  pose proof (layout_chars M (obj_items M (List.length hdr) (obj_terms cols) (List.length hdr) 0) hdr) as H.
  destruct (layout M hdr _) as [ls c']. rewrite obj_items_count in H. rewrite chars_app. simpl. lia.
Qed.

Lemma cstr_lines_chars M c : (List.length (c_terms c) <= chars (cstr_lines M c))%nat /\ (1 <= List.length (cstr_lines M c))%nat.
Proof.
  unfold cstr_lines, expr_layout.
  pose proof (layout_chars M (row_items M (List.length (cstr_hdr c)) (c_terms c) (List.length (cstr_hdr c)) true true) (cstr_hdr c)) as H.
  destruct (layout M (cstr_hdr c) _) as [ls c']. rewrite row_items_count in H. rewrite chars_app, app_length. simpl. rewrite app_length. lia.
Qed.

Lemma names_lines_chars ns ls : names_lines ns ls -> (forall n, In n ns -> n <> []) -> (List.length ns <= chars ls)%nat.
Proof.
  induction 1 as [|ns1 ns2 ls NE NL IH]; intros NN; [simpl; lia|].
  rewrite app_length. cbn [chars fold_right]. fold (chars ls).
  assert (L1 : (List.length ns1 <= List.length (name_line ns1))%nat).
  { clear - NN. induction ns1 as [|n ns1 IH]; [simpl; lia|]. cbn [name_line flat_map]. fold (name_line ns1). rewrite app_length. simpl.
    specialize (IH (fun m IN => NN m (or_intror IN))). lia. }
  specialize (IH (fun n IN => NN n (in_or_app _ _ _ (or_intror IN)))). lia.
Qed.

Lemma flat_map_len_chars {A} (f : A -> list line) (g : A -> nat) xs : (forall x, In x xs -> (g x <= chars (f x))%nat) ->
  forall x, In x xs -> (g x <= chars (flat_map f xs))%nat.
Proof.
  induction xs as [|y xs IH]; intros H x IN; [destruct IN|]. cbn [flat_map]. rewrite chars_app. destruct IN as [<-|IN].
  - specialize (H y (or_introl eq_refl)). lia.
  - specialize (IH (fun z INz => H z (or_intror INz)) x IN). lia.
Qed.

(* ---- the whole file ---------------------------------------------------------------------------------------------------------------- *)

Section Main.
  Variable M : Q.
  Hypothesis HM : 0 < M.

  (* the precondition of C08 on the problem by name (after name repair) *)
  Definition wf_lp (P : llp) : Prop :=
    match l_probname P with Some n => word_ok n | None => True end /\
    name_ok (l_objname P) /\
    NoDup (cn P) /\
    (forall c, In c (l_cols P) -> name_ok (lc_name c) /\ reserved (lc_name c) = false /\ coef_ok M (lc_obj c) /\ lc_lo c <= lc_up c) /\
    (forall r e, In r (l_rows P) -> In e (lr_ent r) -> In (fst e) (cn P)) /\
    (forall r, In r (written P) -> row_ok M (cn P) r) /\
    NoDup (l_objname P :: map lr_name (written P)) /\
    written P <> [] /\
    (forall c, In c (l_cols P) -> Qeq_bool (lc_obj c) 0 = false \/
                                  exists r, In r (written P) /\ Qeq_bool (coefS (lr_ent r) (lc_name c)) 0 = false) /\
    (existsb lc_int (l_cols P) = true -> l_intmarker P = true).

  Lemma opt_names_cstrs cols0 : forall rows, opt_names (flat_map (cstrs_of_row M cols0) rows) = map lr_name rows.
  Proof.
    induction rows as [|r rows IH]; [reflexivity|]. cbn [flat_map map]. unfold opt_names in *. rewrite flat_map_app, IH.
    unfold cstrs_of_row. destruct (lr_sense r); reflexivity.
  Qed.

  Lemma bounds_section_cases cols0 :
    (flat_map (bound_lines M) cols0 = [] /\ bounds_section M cols0 = []) \/
    bounds_section M cols0 = s2l "Bounds" :: flat_map (bound_lines M) cols0.
  Proof. unfold bounds_section. destruct (flat_map (bound_lines M) cols0); [left; auto|right; reflexivity]. Qed.

  Lemma bnd_effect_nolines cols0 : flat_map (bound_lines M) cols0 = [] -> forall rw, fold_left (bnd_effect M) cols0 rw = rw.
  Proof.
    induction cols0 as [|c cols0 IH]; intros H rw; [reflexivity|]. cbn [flat_map fold_left] in *. apply app_eq_nil in H. destruct H as [H1 H2].
    rewrite (IH H2). unfold bnd_effect. unfold bound_lines in H1. destruct (encode_bounds M (lc_lo c) (lc_up c) (lc_int c)); [reflexivity|discriminate].
  Qed.

  Lemma kw_lines : kw_line (s2l "Bounds") /\ kw_line (s2l "Integer") /\ kw_line (s2l "End").
  Proof. repeat split; eexists _, _; (split; [reflexivity|]); split; reflexivity. Qed.
  Lemma kw_words : word_ok (s2l "Bounds") /\ word_ok (s2l "Integer") /\ word_ok (s2l "End").
  Proof. repeat split; (discriminate || reflexivity). Qed.

  Lemma kw_test_kw st w more kws : kwstate st w more -> kw_test st kws = existsb (fun k => ieq w (s2l k)) kws.
  Proof. intros (_ & _ & E & F & FI). unfold kw_test. now rewrite E, FI, F. Qed.

  (* the optional Bounds section *)
  Lemma bounds_step st rw cols0 k kwl0 more0 kwlT moreT :
    kwstate st kwl0 more0 -> kwl0 :: more0 = bounds_section M cols0 ++ kwlT :: moreT -> kw_after_bounds kwlT ->
    Forall (colb_ok (r_cols rw)) cols0 -> (List.length (flat_map (bound_lines M) cols0) <= k)%nat ->
    exists st', (if kw_test st ["BOUNDS"; "BOUND"]%string then read_bounds true M (S k) st rw else PrOk (st, rw)) =
                PrOk (st', fold_left (bnd_effect M) cols0 rw) /\ kwstate st' kwlT moreT.
  Proof.
    intros KS EL KW OK FU. rewrite (kw_test_kw st kwl0 more0 _ KS).
    destruct (bounds_section_cases cols0) as [[NL BS]|BS]; rewrite BS in EL.
    - cbn [app] in EL. injection EL as -> ->. rewrite (bnd_effect_nolines cols0 NL).
      exists st. split; [|exact KS]. destruct KW as [-> | ->]; reflexivity.
    - cbn [app] in EL. injection EL as -> ->.
      change (existsb (fun k0 => ieq (s2l "Bounds") (s2l k0)) ["BOUNDS"; "BOUND"]%string) with true. cbn beta iota.
      unfold read_bounds.
      destruct (bounds_loop_read M cols0 st st rw k kwlT moreT OK ltac:(reflexivity) (kwstate_before _ _ _ KS) KW FU) as (st1 & RB & P1 & C1 & R1 & E1).
      rewrite RB. eexists. split; [reflexivity|].
      assert (WK : word_ok kwlT) by (destruct KW as [-> | ->]; apply kw_words).
      pose proof (next_field_kwline st1 kwlT P1 C1 WK E1) as K. rewrite R1 in K. exact K.
  Qed.

  (* the optional Integer section *)
  Lemma ints_step st rw (P : llp) k kwlT moreT :
    kwstate st kwlT moreT -> kwlT :: moreT = int_section P ++ [s2l "End"] ->
    (existsb lc_int (l_cols P) = true -> l_intmarker P = true) ->
    Forall (intname_ok (r_cols rw)) (int_names P) -> (List.length (int_names P) <= k)%nat ->
    exists st', (if kw_test st ["INTEGER"; "INT"]%string then read_integer (S k) st rw else PrOk (st, rw)) =
                PrOk (st', mark_all rw (int_names P)) /\ kwstate st' (s2l "End") [].
  Proof.
    intros KS EL WI OK FU. rewrite (kw_test_kw st kwlT moreT _ KS). unfold int_section in EL. fold (int_names P) in EL.
    destruct (l_intmarker P) eqn:IM.
    - cbn [app] in EL. injection EL as -> ->.
      change (existsb (fun k0 => ieq (s2l "Integer") (s2l k0)) ["INTEGER"; "INT"]%string) with true. cbn beta iota.
      unfold read_integer.
      pose proof (int_lines_shape (int_names P) []) as NL. cbn [app is_nil negb] in NL.
      destruct (ints_read _ _ NL st st rw k [] OK ltac:(reflexivity) (kwstate_before _ _ _ KS) FU) as (st1 & RB & P1 & C1 & R1 & E1).
      rewrite RB. eexists. split; [reflexivity|].
      pose proof (next_field_kwline st1 (s2l "End") P1 C1 (proj2 (proj2 kw_words)) E1) as K. rewrite R1 in K. exact K.
    - cbn [app] in EL. injection EL as -> ->.
      assert (NI : int_names P = []).
      { unfold int_names. destruct (filter lc_int (l_cols P)) as [|c l] eqn:F; [reflexivity|]. exfalso.
        assert (IN : In c (filter lc_int (l_cols P))) by (rewrite F; now left). apply filter_In in IN. destruct IN as [IN I].
        assert (EX : existsb lc_int (l_cols P) = true) by (apply existsb_exists; eauto). specialize (WI EX). congruence. }
      rewrite NI. exists st. split; [reflexivity|exact KS].
  Qed.
End Main.

(* ---- the theorem -------------------------------------------------------------------------------------------------------------------- *)

Section Main2.
  Variable M : Q.
  Hypothesis HM : 0 < M.

  Theorem lp_roundtrip P : wf_lp M P ->
    exists P', read_lp true M (write_lp M P) = Some P' /\ equiv_by_name (to_nlp P) (to_nlp P') = true.
  Proof.
    intros (WPN & WON & ND & WC & EN & WR & NDR & W1 & USE & WI).
    assert (BO : forall c, In c (l_cols P) -> lc_lo c <= lc_up c) by (intros c IN; apply (WC c IN)).
    destruct (finish_equiv M HM P ND BO EN W1 USE) as (P' & FIN & EQ).
    exists P'. split; [|exact EQ].
    unfold read_lp. enough (RES : read_lp_res true M (write_lp M P) = PrOk P') by (rewrite RES; reflexivity).
    (* the segments of the file *)
    set (cs := all_cstrs M P).
    set (rowl := flat_map (cstr_lines M) cs).
    set (bl := flat_map (bound_lines M) (l_cols P)).
    set (bsec := bounds_section M (l_cols P)).
    set (isec := int_section P).
    set (objl := obj_lines M (l_objname P) (l_cols P)).
    set (hdr := match l_probname P with Some n => [s2l "Problem"; " "%char :: n] | None => [] end).
    assert (LS : write_lp M P = hdr ++ minmax_line (l_max P) :: (objl ++ STL :: (rowl ++ bsec ++ isec ++ [s2l "End"]))).
    { unfold write_lp. fold hdr. fold objl. fold bsec. fold isec. f_equal. cbn [app]. f_equal. f_equal. f_equal. f_equal.
      unfold rowl, cs, all_cstrs. fold (cn P). fold (written P).
      generalize (written P). intros w. induction w as [|r w IH]; [reflexivity|]. cbn [flat_map]. rewrite flat_map_app, IH, row_lines_cstrs. reflexivity. }
    set (ls := write_lp M P) in *.
    unfold read_lp_res. fold ls. set (fuel := total_fuel ls).
    (* fuel *)
    set (k0 := (List.length ls + chars ls)%nat).
    assert (FU : fuel = S k0) by reflexivity.
    set (tailT := isec ++ [s2l "End"]).
    set (rest1 := rowl ++ bsec ++ tailT).
    assert (LSlen : (List.length ls = List.length hdr + S (List.length objl + S (List.length rowl + List.length bsec + List.length tailT)))%nat).
    { rewrite LS. fold tailT. rewrite !app_length. cbn [List.length]. rewrite !app_length. cbn [List.length]. rewrite !app_length. lia. }
    assert (LSch : (chars ls >= chars objl + chars rowl + chars bsec + chars tailT)%nat).
    { rewrite LS. fold tailT. rewrite !chars_app. cbn [chars fold_right]. rewrite !chars_app. cbn [chars fold_right]. rewrite !chars_app. lia. }
    (* 1. header *)
    destruct (header_read (l_probname P) (l_max P) (objl ++ STL :: rest1) WPN) as (st0 & st1 & NF & RH & BF1).
    cbv zeta in NF. fold hdr in NF. unfold rest1, tailT in NF. rewrite <- LS in NF. rewrite NF, RH.
    (* 2. objective *)
    assert (TO : terms_ok M (obj_terms (l_cols P))).
    { unfold terms_ok, obj_terms. apply Forall_forall. intros t IN. apply in_flat_map in IN. destruct IN as (c & INc & IN).
      destruct (Qeq_bool (lc_obj c) 0); [destruct IN|]. destruct IN as [<-|[]]. cbn [fst snd]. destruct (WC c INc) as (A & _ & B & _). auto. }
    assert (OL : (List.length (obj_terms (l_cols P)) <= k0)%nat).
    { pose proof (obj_lines_chars M (l_objname P) (l_cols P)). fold objl in H. unfold k0. lia. }
    destruct (objective_read M HM st1 (l_probname P) (l_max P) (l_objname P) (l_cols P) rest1 k0 WON TO BF1 OL) as (st2 & RO & P2 & C2 & R2 & E2).
    rewrite FU, RO. rewrite <- FU. fold (obj_raw P).
    (* 3. constraints *)
    assert (CSOK : Forall (cstr_ok M) cs).
    { unfold cs, all_cstrs. apply Forall_forall. intros c IN. apply in_flat_map in IN. destruct IN as (r & INr & IN).
      pose proof (cstrs_of_row_ok M (cn P) r (WR r INr)) as F. rewrite Forall_forall in F. auto. }
    assert (CSNE : exists c0 cs', cs = c0 :: cs').
    { unfold cs, all_cstrs. destruct (written P) as [|r w]; [congruence|]. cbn [flat_map]. unfold cstrs_of_row at 1.
      destruct (lr_sense r); eexists _, _; reflexivity. }
    assert (ON : opt_names cs = map lr_name (written P)) by apply opt_names_cstrs.
    assert (KWT : exists kwl more', bsec ++ tailT = kwl :: more' /\ kw_line kwl /\ cutline kwl = kwl /\ word_ok kwl).
    { unfold tailT, isec, int_section. destruct (bounds_section_cases M (l_cols P)) as [[_ BS]|BS]; fold bsec in BS; rewrite BS.
      - destruct (l_intmarker P); eexists _, _; (split; [reflexivity|]); (split; [apply kw_lines|]); (split; [reflexivity|apply kw_words]).
      - eexists _, _. split; [reflexivity|]. split; [apply kw_lines|]. split; [reflexivity|apply kw_words]. }
    destruct KWT as (kwl & more' & ET & KWL & CKW & WKW).
    destruct CSNE as (c0 & cs' & ECS).
    assert (OK0 : cstr_ok M c0) by (rewrite ECS in CSOK; now inversion CSOK).
    set (more_c := flat_map (cstr_lines M) cs' ++ bsec ++ tailT).
    assert (R1E : rest1 = cstr_lines M c0 ++ more_c).
    { unfold rest1, rowl, more_c. rewrite ECS. cbn [flat_map]. now rewrite <- app_assoc. }
    pose proof (cstr_lines_shape M c0 more_c) as SH. destruct (rem M (cstr_tc M c0) more_c (cstr_items M c0)) as [cu re] eqn:RM.
    destruct (cstr_first_line M HM c0 more_c cu re OK0 RM) as (b & x & t & CL & AB & NEb & NSP).
    assert (NBx : is_blank x = false) by (unfold is_space in NSP; destruct (is_blank x); [discriminate|reflexivity]).
    rewrite R1E, SH in R2.
    destruct (subject_to_read st2 _ re b x t P2 C2 R2 E2 CL AB NBx) as (st3 & CST & AL3).
    unfold read_constraints. rewrite CST.
    assert (RN0 : row_names (obj_raw P) = [l_objname P]) by (unfold obj_raw; rewrite row_names_add_terms; reflexivity).
    assert (LINES : flat_map (cstr_lines M) cs ++ kwl :: more' = (cstr_hdr c0 ++ cu) :: re).
    { rewrite <- ET, <- SH. unfold more_c. rewrite ECS. cbn [flat_map]. now rewrite <- app_assoc. }
    assert (LCS : (List.length cs <= List.length rowl)%nat /\ forall c, In c cs -> (List.length (c_terms c) <= chars rowl)%nat).
    { unfold rowl. split.
      - clear. induction cs as [|c l IH]; [simpl; lia|]. cbn [flat_map List.length]. rewrite app_length. pose proof (proj2 (cstr_lines_chars M c)). lia.
      - apply (flat_map_len_chars (cstr_lines M) (fun c => List.length (c_terms c))). intros c _. apply cstr_lines_chars. }
    destruct LCS as [LCS1 LCS2].
    destruct (cstrs_read M HM cs st3 (obj_raw P) fuel fuel (cstr_hdr c0 ++ cu) re kwl more' CSOK ltac:(rewrite ECS; discriminate)) as (st4 & RL & P4 & C4 & R4 & E4); auto.
    { rewrite ON. inversion NDR; assumption. }
    { intros n IN. rewrite ON in IN. rewrite RN0. apply mem_cons_false. split; [|reflexivity]. intros ->. inversion NDR as [|? ? NI _]. contradiction. }
    { rewrite FU. unfold k0. lia. }
    { intros c IN. specialize (LCS2 c IN). rewrite FU. unfold k0. lia. }
    rewrite RL. change (fold_left cstr_effect cs (obj_raw P)) with (rows_raw M P).
    (* the columns created so far *)
    assert (RC : r_cols (rows_raw M P) = AC M P).
    { unfold rows_raw, AC. destruct (cstrs_effect_fields (all_cstrs M P) (obj_raw P)) as (_ & _ & _ & _ & E & _). rewrite E.
      unfold obj_raw. destruct (add_terms_fields (rd_terms (obj_terms (l_cols P))) (raw0 (l_probname P) (l_max P) (l_objname P))) as (_ & _ & _ & _ & E1 & _).
      rewrite E1. reflexivity. }
    assert (INC : forall c, In c (l_cols P) -> mem (lc_name c) (r_cols (rows_raw M P)) = true).
    { intros c IN. rewrite RC. apply mem_In, (AC_In M P USE). unfold cn. now apply in_map. }
    assert (NIL : is_nil (r_cols (rows_raw M P)) = false).
    { assert (EXR : exists r, In r (written P)) by (destruct (written P) as [|r w]; [congruence|exists r; now left]).
      destruct EXR as (r & INr).
      unfold written in INr. apply filter_In in INr. destruct INr as [INr RW]. unfold row_written in RW.
      destruct (lr_ent r) as [|e el] eqn:EE; [discriminate|].
      assert (INe : In (fst e) (cn P)) by (apply (EN r e INr); rewrite EE; now left).
      apply (AC_In M P USE) in INe. rewrite RC. destruct (AC M P); [destruct INe|reflexivity]. }
    rewrite NIL.
    (* 4. bounds *)
    assert (KS4 : kwstate (fst (next_field true st4)) kwl more').
    { rewrite <- R4. apply next_field_kwline; auto. now rewrite C4. }
    assert (TT : exists kwlT moreT, tailT = kwlT :: moreT /\ kw_after_bounds kwlT).
    { unfold tailT, isec, int_section. destruct (l_intmarker P); eexists _, _; (split; [reflexivity|]); [left|right]; reflexivity. }
    destruct TT as (kwlT & moreT & ETT & KAB).
    assert (CBOK : Forall (colb_ok (r_cols (rows_raw M P))) (l_cols P)).
    { apply Forall_forall. intros c IN. destruct (WC c IN) as (A & B & _). repeat split; auto. }
    assert (BLEN : (List.length (flat_map (bound_lines M) (l_cols P)) <= k0)%nat).
    { fold bl. assert (List.length bl <= List.length bsec)%nat by (unfold bsec, bounds_section; fold bl; destruct bl; simpl; lia). unfold k0. lia. }
    assert (EL4 : kwl :: more' = bounds_section M (l_cols P) ++ kwlT :: moreT) by (rewrite <- ET, ETT; reflexivity).
    destruct (bounds_step M (fst (next_field true st4)) (rows_raw M P) (l_cols P) k0 kwl more' kwlT moreT KS4 EL4 KAB CBOK BLEN) as (st5 & RB & KS5).
    rewrite FU, RB. change (fold_left (bnd_effect M) (l_cols P) (rows_raw M P)) with (bnds_raw M P).
    (* 5. integers *)
    assert (RCB : r_cols (bnds_raw M P) = r_cols (rows_raw M P)).
    { unfold bnds_raw. destruct (bnds_effect_fields M (l_cols P) (rows_raw M P) ND) as (_ & _ & E & _). exact E. }
    assert (INOK : Forall (intname_ok (r_cols (bnds_raw M P))) (int_names P)).
    { apply Forall_forall. intros n IN. unfold int_names in IN. apply in_map_iff in IN. destruct IN as (c & <- & IN).
      apply filter_In in IN. destruct IN as [IN _]. split; [apply (WC c IN)|]. rewrite RCB. now apply INC. }
    assert (ILEN : (List.length (int_names P) <= k0)%nat).
    { destruct (l_intmarker P) eqn:IM.
      - pose proof (int_lines_shape (int_names P) []) as NL. cbn [app is_nil negb] in NL. cbv beta iota in NL.
        assert (NN : forall n, In n (int_names P) -> n <> []).
        { intros n IN. rewrite Forall_forall in INOK. destruct (INOK n IN) as [NO _]. destruct n; [destruct NO|discriminate]. }
        pose proof (names_lines_chars _ _ NL NN) as H.
        assert (chars (int_lines (int_names P) [" "%char] false) <= chars tailT)%nat.
        { unfold tailT, isec, int_section, int_names. rewrite IM. rewrite chars_app. unfold chars. cbn [fold_right]. lia. }
        unfold k0. lia.
      - assert (NI : int_names P = []).
        { unfold int_names. destruct (filter lc_int (l_cols P)) as [|c l] eqn:F; [reflexivity|]. exfalso.
          assert (IN : In c (filter lc_int (l_cols P))) by (rewrite F; now left). apply filter_In in IN. destruct IN as [IN I].
          assert (EX : existsb lc_int (l_cols P) = true) by (apply existsb_exists; eauto). specialize (WI EX). congruence. }
        rewrite NI. simpl. lia. }
    destruct (ints_step st5 (bnds_raw M P) P k0 kwlT moreT KS5 (eq_sym ETT) WI INOK ILEN) as (st6 & RI & KS6).
    rewrite RI. change (mark_all (bnds_raw M P) (int_names P)) with (final_raw M P).
    (* 6. End *)
    rewrite (kw_test_kw st6 _ _ _ KS6). change (existsb (fun k => ieq (s2l "End") (s2l k)) ["END"%string]) with true. cbn beta iota.
    rewrite FIN. reflexivity.
  Qed.
End Main2.

(* the hypotheses are satisfiable: a problem with a ranged row, a keyword as column name, an integer column *)
Example wf_lp_example :
  let c1 := {| lc_name := s2l "x"; lc_obj := 3; lc_lo := 0; lc_up := 1000; lc_int := false |} in
  let c2 := {| lc_name := s2l "end"; lc_obj := - (1 # 2); lc_lo := -1000; lc_up := 4; lc_int := true |} in
  let r1 := {| lr_name := s2l "c1"; lr_sense := SR; lr_rhs := 1; lr_range := 2; lr_ent := [(s2l "x", 1); (s2l "end", -2 # 3)] |} in
  let r2 := {| lr_name := s2l "empty"; lr_sense := SL; lr_rhs := 1; lr_range := 0; lr_ent := [] |} in
  let P := {| l_probname := Some (s2l "p"); l_max := true; l_objname := s2l "obj"; l_intmarker := true; l_cols := [c1; c2]; l_rows := [r1; r2] |} in
  wf_lp 1000 P /\
  match read_lp true 1000 (write_lp 1000 P) with Some P' => equiv_by_name (to_nlp P) (to_nlp P') | None => false end = true.
Proof.
  cbv zeta. split; [|vm_compute; reflexivity].
  unfold wf_lp. cbn [l_probname l_objname l_cols l_rows l_intmarker].
  split; [split; [discriminate|reflexivity]|].
  split; [split; reflexivity|].
  split; [repeat constructor; cbn; intuition discriminate|].
  split.
  { intros c [<-|[<-|[]]]; cbn [lc_name lc_obj lc_lo lc_up]; (split; [split; reflexivity|]); (split; [reflexivity|]);
      (split; [reflexivity|]); unfold Qle; cbn; lia. }
  split.
  { intros r e [<-|[<-|[]]] IN; cbn [lr_ent] in IN; [|destruct IN]. destruct IN as [<-|[<-|[]]]; cbn; auto. }
  split.
  { intros r IN. cbn in IN. destruct IN as [<-|[]]. unfold row_ok. cbn [lr_name lr_sense lr_rhs lr_range].
    split; [split; reflexivity|]. split.
    - repeat constructor; cbn; try reflexivity.
    - split; [discriminate|]. split; [split; reflexivity|]. intros _. split; reflexivity. }
  split; [repeat constructor; cbn; intuition discriminate|].
  split; [discriminate|].
  split; [|reflexivity].
  intros c [<-|[<-|[]]]; left; reflexivity.
Qed.

(* ---- the precondition as an executable test ------------------------------------------------------------------------------------- *)
(* used by checks/C08.py to count the generated problems the theorem speaks about *)

Definition name_okb (nm : name) : bool :=
  match nm with [] => false | c :: r => is_name_char c true && forallb (fun x => is_name_char x false) r end.
Lemma name_okb_ok nm : name_okb nm = true -> name_ok nm.
Proof. destruct nm as [|c r]; [discriminate|]. cbn. intros H. apply andb_true_iff in H. exact H. Qed.

Definition word_okb (w : list ascii) : bool :=
  negb (is_nil w) && forallb (fun c => negb (is_space c) && negb (special c)) w.
Lemma word_okb_ok w : word_okb w = true -> word_ok w.
Proof. unfold word_okb, word_ok. intros H. apply andb_true_iff in H. destruct H as [A B]. split; [destruct w; [discriminate|discriminate]|exact B]. Qed.

Fixpoint nodup_names (l : list name) : bool :=
  match l with [] => true | a :: t => negb (mem a t) && nodup_names t end.
Lemma nodup_names_ok l : nodup_names l = true -> NoDup l.
Proof.
  induction l as [|a l IH]; intros H; [constructor|]. cbn in H. apply andb_true_iff in H. destruct H as [A B].
  constructor; [|auto]. intros IN. apply mem_In in IN. rewrite IN in A. discriminate.
Qed.

Section WfB.
  Variable M : Q.
  Definition coef_okb (c : Q) : bool := negb (Qeq_bool (absq c) M).
  Definition val_okb (v : Q) : bool := negb (Qeq_bool v M) && negb (Qeq_bool v (- M)).
  Definition row_okb (cn0 : list name) (r : lrow) : bool :=
    name_okb (lr_name r) && forallb (fun t => coef_okb (fst t) && name_okb (snd t)) (row_terms cn0 r) &&
    negb (is_nil (row_terms cn0 r)) && val_okb (lr_rhs r) &&
    match lr_sense r with SR => val_okb (lr_rhs r + lr_range r) | _ => true end.

  Lemma val_okb_ok v : val_okb v = true -> val_ok M v.
  Proof. unfold val_okb, val_ok. intros H. apply andb_true_iff in H. destruct H as [A B]. now apply negb_true_iff in A, B. Qed.

  Lemma row_okb_ok cn0 r : row_okb cn0 r = true -> row_ok M cn0 r.
  Proof.
    unfold row_okb, row_ok. rewrite !andb_true_iff. intros [[[[A B] C] D] E].
    split; [now apply name_okb_ok|]. split.
    - unfold terms_ok. apply Forall_forall. intros t IN. rewrite forallb_forall in B. specialize (B t IN).
      apply andb_true_iff in B. destruct B as [B1 B2]. split; [unfold coef_ok; now apply negb_true_iff in B1|now apply name_okb_ok].
    - split; [destruct (row_terms cn0 r); [discriminate|discriminate]|]. split; [now apply val_okb_ok|].
      intros ES. rewrite ES in E. now apply val_okb_ok.
  Qed.

  Definition wf_lpb (P : llp) : bool :=
    match l_probname P with Some n => word_okb n | None => true end &&
    name_okb (l_objname P) &&
    nodup_names (cn P) &&
    forallb (fun c => name_okb (lc_name c) && negb (reserved (lc_name c)) && coef_okb (lc_obj c) && Qle_bool (lc_lo c) (lc_up c)) (l_cols P) &&
    forallb (fun r => forallb (fun e => mem (fst e) (cn P)) (lr_ent r)) (l_rows P) &&
    forallb (row_okb (cn P)) (written P) &&
    nodup_names (l_objname P :: map lr_name (written P)) &&
    negb (is_nil (written P)) &&
    forallb (fun c => negb (Qeq_bool (lc_obj c) 0) ||
                      existsb (fun r => negb (Qeq_bool (coefS (lr_ent r) (lc_name c)) 0)) (written P)) (l_cols P) &&
    (negb (existsb lc_int (l_cols P)) || l_intmarker P).

  Theorem wf_lpb_sound P : wf_lpb P = true -> wf_lp M P.
  Proof.
    unfold wf_lpb, wf_lp. rewrite !andb_true_iff. intros [[[[[[[[[A B] C] D] E] F] G] H] I] J].
    split; [destruct (l_probname P); [now apply word_okb_ok|exact Logic.I]|].
    split; [now apply name_okb_ok|]. split; [now apply nodup_names_ok|].
    split.
    { intros c IN. rewrite forallb_forall in D. specialize (D c IN). rewrite !andb_true_iff in D. destruct D as [[[D1 D2] D3] D4].
      split; [now apply name_okb_ok|]. split; [now apply negb_true_iff in D2|]. split; [unfold coef_ok; now apply negb_true_iff in D3|].
      now apply Qle_bool_iff. }
    split.
    { intros r e INr INe. rewrite forallb_forall in E. specialize (E r INr). rewrite forallb_forall in E. apply mem_In, (E e INe). }
    split; [intros r IN; rewrite forallb_forall in F; now apply row_okb_ok, F|].
    split; [now apply nodup_names_ok|]. split; [destruct (written P); [discriminate|discriminate]|].
    split.
    { intros c IN. rewrite forallb_forall in I. specialize (I c IN). apply orb_true_iff in I. destruct I as [I|I].
      - left. now apply negb_true_iff in I.
      - right. apply existsb_exists in I. destruct I as (r & INr & Z). exists r. split; [exact INr|now apply negb_true_iff in Z]. }
    intros EX. rewrite EX in J. exact J.
  Qed.

  (* the round trip for every problem that passes the test *)
  Corollary lp_roundtrip_b P : 0 < M -> wf_lpb P = true ->
    exists P', read_lp true M (write_lp M P) = Some P' /\ equiv_by_name (to_nlp P) (to_nlp P') = true.
  Proof. intros HM H. apply (lp_roundtrip M HM P), wf_lpb_sound, H. Qed.
End WfB.
