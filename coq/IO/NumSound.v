(* IO/NumSound.v -- theorems about the number scanner model of IO/Num.v:
     read_num_total   a result for every byte string, never more bytes consumed than offered
     read_denotes     structured literals of ANY length are read as the rational they spell
     read_print_num   whatever print_num (= mpq_get_str) prints is read back as the same rational
     no_fault refuted "1/0" faults (DivZero), "1e99999999999" overflows the C int *)
From Coq Require Import ZArith QArith List Ascii String Bool Lia Lqa.
From Coq Require Decimal DecimalString DecimalZ DecimalN DecimalPos.
From QSX Require Import IO.Num.
Import ListNotations.
Local Open Scope Z_scope.

Section Strict.
Variable strict : bool.     (* false: the code as found; true: with numreader_div_zero.diff *)
Local Notation scan := (scan strict).
Local Notation accept := (accept strict).
Local Notation conclude := (conclude strict).
Local Notation read_num := (read_num_gen strict).

(* ---- totality / progress ---------------------------------------------------- *)

Lemma scan_bounds s : forall st n, (n <= snd (scan s st n) <= n + List.length s)%nat.
Proof.
  induction s as [|c s IH]; intros st n; simpl; [lia|].
  destruct (accept st c); simpl; [|lia].
  destruct (step st c) as [st'|f]; simpl; [|lia].
  specialize (IH st' (S n)). lia.
Qed.

Lemma conclude_count st n : (snd (conclude st n) <= n)%nat.
Proof.
  unfold Num.conclude. destruct n; [simpl; lia|].
  match goal with |- context [if ?b then _ else _] => destruct b end; [destruct strict|]; simpl; lia.
Qed.

Theorem read_num_total s : exists r n, read_num s = (r, n) /\ (n <= List.length s)%nat.
Proof.
  unfold read_num_gen. pose proof (scan_bounds s st_init O) as B.
  destruct (scan s st_init O) as [[st|f] n]; simpl in B.
  - pose proof (conclude_count st n) as C. destruct (conclude st n) as [r k]. simpl in C.
    exists r, k. split; [reflexivity|lia].
  - exists (NFault f), n. split; [reflexivity|lia].
Qed.

(* every iteration of the loop consumes exactly one byte: the scan of c :: s either stops
   (count unchanged) or continues on s with the count increased by one *)
Theorem scan_progress c s st n :
  scan (c :: s) st n = (Run st, n) \/ (exists f, scan (c :: s) st n = (Flt f, S n)) \/
  exists st', scan (c :: s) st n = scan s st' (S n).
Proof.
  simpl. destruct (accept st c); [|now left]. right.
  destruct (step st c) as [st'|f]; [right; now exists st' | left; now exists f].
Qed.

(* the refutations of "no input faults" *)

(* ---- characters -------------------------------------------------------------- *)

Lemma accept_number_char st c : accept st c = true -> number_char c = true.
Proof.
  unfold Num.accept, number_char. intros H.
  destruct (is_digit c); [reflexivity|]. simpl in *.
  destruct (Ascii.eqb c "."); [reflexivity|]. rewrite andb_false_r in H. simpl in *.
  destruct (is_e c); [reflexivity|]. rewrite andb_false_r in H. simpl in *.
  destruct (is_pm c); [reflexivity|]. rewrite !andb_false_r in H. simpl in *.
  destruct (Ascii.eqb c "/"); [reflexivity|]. rewrite !andb_false_r in H. discriminate.
Qed.

Lemma scan_stops rest st n : stops rest -> scan rest st n = (Run st, n).
Proof.
  destruct rest as [|c r]; intros H; [reflexivity|]. simpl in *.
  destruct (accept st c) eqn:E; [|reflexivity].
  apply accept_number_char in E. congruence.
Qed.

(* ---- digit strings ------------------------------------------------------------ *)

Lemma uval_shift d : forall acc, uval d acc = acc * 10 ^ Z.of_nat (ulen d) + uval d 0.
Proof.
  unfold ulen.
  induction d; intros acc; cbn [uval chars_of_uint List.length];
    try (rewrite IHd, (IHd (10 * 0 + _)); rewrite Nat2Z.inj_succ, Z.pow_succ_r by lia; ring).
  simpl. ring.
Qed.

Lemma uval_nonneg d : forall acc, 0 <= acc -> acc <= uval d acc.
Proof.
  induction d; intros acc H; cbn [uval]; try lia;
    (eapply Z.le_trans; [|apply IHd]; lia).
Qed.

Lemma uval_of_uint_acc d : forall p, uval d (Zpos p) = Zpos (Pos.of_uint_acc d p).
Proof. induction d; intros p; cbn [uval Pos.of_uint_acc]; try reflexivity; rewrite <- IHd; f_equal; lia. Qed.

Lemma uval_of_uint d : uval d 0 = Z.of_uint d.
Proof.
  unfold Z.of_uint.
  induction d; cbn [uval Pos.of_uint]; try reflexivity; try (rewrite <- IHd; reflexivity);
    match goal with |- uval _ ?a = _ => change a with (Zpos (Z.to_pos a)) end;
    rewrite uval_of_uint_acc; reflexivity.
Qed.

Lemma pow10pos_spec k : Zpos (pow10pos (Z.of_nat k)) = 10 ^ Z.of_nat k.
Proof. unfold pow10pos. rewrite Z2Pos.id; [reflexivity|]. apply Z.pow_pos_nonneg; lia. Qed.

Lemma pow10pos_succ k : pow10pos (Z.of_nat (S k)) = (pow10pos (Z.of_nat k) * 10)%positive.
Proof.
  apply Pos2Z.inj. rewrite Pos2Z.inj_mul, !pow10pos_spec, Nat2Z.inj_succ, Z.pow_succ_r by lia. ring.
Qed.

(* running over mantissa digits *)
Definition push_run (dot_allowed : bool) (v : Z * positive) (d : Decimal.uint) : Z * positive :=
  (uval d (fst v), if dot_allowed then snd v else (snd v * pow10pos (Z.of_nat (ulen d)))%positive).

Lemma push_run_cons dot v k d :
  push_run dot (push_digit dot v k) d =
  (uval d (10 * fst v + k), if dot then snd v else (snd v * pow10pos (Z.of_nat (S (ulen d))))%positive).
Proof.
  unfold push_run, push_digit. cbn [fst snd]. f_equal.
  destruct dot; [reflexivity|]. rewrite pow10pos_succ. lia.
Qed.

Lemma mant_one ch k s adot aexp aes asg adiv l sg esg hd c v0 v1 n :
  is_digit ch = true -> code ch - 48 = k -> aexp || negb hd = true ->
  scan (ch :: s) (mk_nst adot aexp aes asg adiv l sg esg hd c v0 v1) n =
  scan s (mk_nst adot true aes false adiv l sg esg true c
            (if c then v0 else push_digit adot v0 k) (if c then push_digit adot v1 k else v1)) (S n).
Proof.
  intros D K H. cbn [Num.scan]. unfold Num.accept. rewrite D. cbn [orb]. unfold step. rewrite D.
  cbn [a_dot a_exp a_exp_sgn a_sgn a_div have_dig l_exp]. rewrite H, K.
  destruct c; reflexivity.
Qed.

Lemma run_mant d : forall rest adot aexp aes asg adiv l sg esg hd c v0 v1 n,
  aexp || negb hd = true -> d <> Decimal.Nil ->
  scan (chars_of_uint d ++ rest) (mk_nst adot aexp aes asg adiv l sg esg hd c v0 v1) n =
  scan rest (mk_nst adot true aes false adiv l sg esg true c
               (if c then v0 else push_run adot v0 d) (if c then push_run adot v1 d else v1)) (n + ulen d).
Proof.
  induction d; intros rest adot aexp aes asg adiv l sg esg hd c v0 v1 n H NN; [congruence| ..].
  all: cbn [chars_of_uint app]; erewrite mant_one by (try reflexivity; exact H).
  all: repeat match goal with |- context [push_digit ?a ?b ?k] =>
         lazymatch k with Z0 => fail | Zpos _ => fail | _ => let k' := eval vm_compute in k in change k with k' end end.
  all: destruct (Decimal.uint_eq_dec d Decimal.Nil) as [E|E].
  all: try (subst d; cbn [chars_of_uint app]; unfold push_run, push_digit, ulen; cbn [chars_of_uint List.length uval fst snd];
            replace (n + 1)%nat with (S n) by lia; destruct c, adot; reflexivity).
  all: rewrite IHd by (try reflexivity; exact E).
  all: unfold ulen; cbn [chars_of_uint List.length]; fold (ulen d);
       replace (S n + ulen d)%nat with (n + S (ulen d))%nat by lia.
  all: destruct c; rewrite push_run_cons; unfold push_run; cbn [fst snd uval]; reflexivity.
Qed.

(* running over exponent digits: a_exp = false, have_dig = true *)
Lemma exp_one ch k s adot aes asg adiv l sg esg c v0 v1 n :
  is_digit ch = true -> code ch - 48 = k -> 0 <= l -> 10 * l + k <= 999999999 -> 0 <= k ->
  scan (ch :: s) (mk_nst adot false aes asg adiv l sg esg true c v0 v1) n =
  scan s (mk_nst adot false false false adiv (10 * l + k) sg esg true c v0 v1) (S n).
Proof.
  intros D K L B K0. cbn [Num.scan]. unfold Num.accept. rewrite D. cbn [orb]. unfold step. rewrite D.
  cbn [a_dot a_exp a_exp_sgn a_sgn a_div have_dig l_exp orb negb].
  replace (int_max <? 10 * l) with false by (symmetry; apply Z.ltb_ge; unfold int_max; lia).
  replace (int_max <? 10 * l + code ch) with false by (symmetry; apply Z.ltb_ge; unfold int_max; lia).
  cbn [orb]. replace (10 * l + code ch - 48) with (10 * l + k) by lia. reflexivity.
Qed.

Lemma run_exp d : forall rest adot aes asg adiv l sg esg c v0 v1 n,
  0 <= l -> uval d l <= 999999999 -> d <> Decimal.Nil ->
  scan (chars_of_uint d ++ rest) (mk_nst adot false aes asg adiv l sg esg true c v0 v1) n =
  scan rest (mk_nst adot false false false adiv (uval d l) sg esg true c v0 v1) (n + ulen d).
Proof.
  induction d; intros rest adot aes asg adiv l sg esg c v0 v1 n L B NN; [congruence| ..].
  all: cbn [chars_of_uint app uval] in *.
  all: match type of B with uval _ ?a <= _ => assert (A : 0 <= a <= 999999999)
         by (split; [lia | eapply Z.le_trans; [apply (uval_nonneg d a); lia | exact B]]) end.
  all: erewrite exp_one by (vm_compute code; first [reflexivity | lia]).
  all: destruct (Decimal.uint_eq_dec d Decimal.Nil) as [E|E].
  all: try (subst d; cbn [chars_of_uint app uval]; unfold ulen; cbn [chars_of_uint List.length];
            replace (n + 1)%nat with (S n) by lia; reflexivity).
  all: rewrite IHd by (try lia; try exact E; exact B).
  all: unfold ulen; cbn [chars_of_uint List.length]; fold (ulen d);
       replace (S n + ulen d)%nat with (n + S (ulen d))%nat by lia; reflexivity.
Qed.

Lemma ulen_bound d : (ulen d <= 9)%nat -> uval d 0 <= 999999999.
Proof.
  intros H. assert (G : forall d acc, 0 <= acc -> uval d acc < (acc + 1) * 10 ^ Z.of_nat (ulen d)).
  { clear. unfold ulen. induction d; intros acc A; cbn [uval chars_of_uint List.length];
      try (rewrite Nat2Z.inj_succ, Z.pow_succ_r by lia;
           eapply Z.lt_le_trans; [apply IHd; lia|];
           set (P := 10 ^ Z.of_nat (List.length (chars_of_uint d)));
           assert (0 <= P) by (apply Z.pow_nonneg; lia); nia).
    simpl. lia. }
  specialize (G d 0 ltac:(lia)). rewrite Z.add_0_l, Z.mul_1_l in G.
  assert (10 ^ Z.of_nat (ulen d) <= 10 ^ 9) by (apply Z.pow_le_mono_r; lia).
  change (10 ^ 9) with 1000000000 in *. lia.
Qed.

(* single non-digit characters on explicit states *)
Ltac charfacts :=
  change (is_digit "+"%char) with false; change (is_digit "-"%char) with false;
  change (is_digit "."%char) with false; change (is_digit "e"%char) with false;
  change (is_digit "E"%char) with false; change (is_digit "/"%char) with false;
  change (is_pm "+"%char) with true; change (is_pm "-"%char) with true;
  change (is_pm "."%char) with false; change (is_pm "e"%char) with false;
  change (is_pm "E"%char) with false; change (is_pm "/"%char) with false;
  change (is_e "+"%char) with false; change (is_e "-"%char) with false;
  change (is_e "."%char) with false; change (is_e "e"%char) with true;
  change (is_e "E"%char) with true; change (is_e "/"%char) with false;
  change (Ascii.eqb "+"%char "."%char) with false; change (Ascii.eqb "-"%char "."%char) with false;
  change (Ascii.eqb "."%char "."%char) with true; change (Ascii.eqb "e"%char "."%char) with false;
  change (Ascii.eqb "E"%char "."%char) with false; change (Ascii.eqb "/"%char "."%char) with false;
  change (Ascii.eqb "+"%char "/"%char) with false; change (Ascii.eqb "-"%char "/"%char) with false;
  change (Ascii.eqb "."%char "/"%char) with false; change (Ascii.eqb "e"%char "/"%char) with false;
  change (Ascii.eqb "E"%char "/"%char) with false; change (Ascii.eqb "/"%char "/"%char) with true;
  change (Ascii.eqb "+"%char "-"%char) with false; change (Ascii.eqb "-"%char "-"%char) with true.

Lemma pm_one (neg : bool) s adot aexp aes asg adiv l sg esg hd c v0 v1 n :
  asg || aes = true ->
  scan ((if neg then "-"%char else "+"%char) :: s) (mk_nst adot aexp aes asg adiv l sg esg hd c v0 v1) n =
  scan s (mk_nst adot aexp false false adiv l (if neg then (if asg then true else sg) else sg)
            (if neg then (if asg then esg else true) else esg) hd c v0 v1) (S n).
Proof.
  intros H. destruct neg; cbn [Num.scan]; unfold Num.accept, step; charfacts;
    cbn [a_dot a_exp a_exp_sgn a_sgn a_div have_dig l_exp sgn exp_sgn cn q0 q1];
    rewrite ?andb_false_r, ?andb_true_r; cbn [orb];
    destruct asg, aes; try discriminate; rewrite ?orb_true_r; reflexivity.
Qed.

Lemma dot_one s aexp aes asg adiv l sg esg hd c v0 v1 n :
  scan ("."%char :: s) (mk_nst true aexp aes asg adiv l sg esg hd c v0 v1) n =
  scan s (mk_nst false aexp aes false adiv l sg esg hd c v0 v1) (S n).
Proof. cbn [Num.scan]; unfold Num.accept, step; charfacts; cbn [a_dot a_exp a_exp_sgn a_sgn a_div andb orb]. reflexivity. Qed.

Lemma e_one (up : bool) s adot aes asg adiv l sg esg hd c v0 v1 n :
  scan ((if up then "E"%char else "e"%char) :: s) (mk_nst adot true aes asg adiv l sg esg hd c v0 v1) n =
  scan s (mk_nst adot false true false adiv l sg esg hd c v0 v1) (S n).
Proof.
  destruct up; cbn [Num.scan]; unfold Num.accept, step; charfacts;
    cbn [a_dot a_exp a_exp_sgn a_sgn a_div andb orb]; rewrite ?andb_false_r; cbn [orb]; reflexivity.
Qed.

Lemma slash_one s adot aexp aes asg l sg esg c v0 v1 n :
  scan ("/"%char :: s) (mk_nst adot aexp aes asg true l sg esg true c v0 v1) n =
  scan s (mk_nst true false false true false 0 false false false true (finish v0 l esg sg) (0, 1%positive)) (S n).
Proof.
  cbn [Num.scan]; unfold Num.accept, step; charfacts;
    cbn [a_dot a_exp a_exp_sgn a_sgn a_div have_dig andb orb l_exp sgn exp_sgn q0]; rewrite ?andb_false_r; cbn [orb].
  rewrite ?orb_true_r, ?andb_true_r. cbn [andb orb]. rewrite ?orb_true_r. reflexivity.
Qed.

(* ---- a mantissa, phase 1: sign, integer digits, fraction -------------------------- *)

Definition start (c : bool) (vo : Z * positive) : nst :=
  mk_nst true false false true (negb c) 0 false false false c
         (if c then vo else (0, 1%positive)) (if c then (0, 1%positive) else vo).

Definition sign_neg (s : option bool) : bool := match s with Some true => true | _ => false end.
Definition frac_chars (fr : option Decimal.uint) : list ascii :=
  match fr with None => [] | Some f => "."%char :: chars_of_uint f end.
Definition frac_digits (fr : option Decimal.uint) : Decimal.uint :=
  match fr with None => Decimal.Nil | Some f => f end.
Definition mant_val (di : Decimal.uint) (fr : option Decimal.uint) : Z * positive :=
  (uval (frac_digits fr) (uval di 0), pow10pos (Z.of_nat (ulen (frac_digits fr)))).

Lemma ulen_app_len (l1 l2 : list ascii) : List.length (l1 ++ l2) = (List.length l1 + List.length l2)%nat.
Proof. apply app_length. Qed.

Lemma scan_phase1 sg di fr rest c vo n :
  (di <> Decimal.Nil \/ frac_digits fr <> Decimal.Nil) ->
  scan (sign_chars sg ++ chars_of_uint di ++ frac_chars fr ++ rest) (start c vo) n =
  scan rest (mk_nst (match fr with None => true | _ => false end) true false false (negb c) 0 (sign_neg sg) false true c
               (if c then vo else mant_val di fr) (if c then mant_val di fr else vo))
       (n + List.length (sign_chars sg ++ chars_of_uint di ++ frac_chars fr)).
Proof.
  intros OK. unfold start.
  (* sign *)
  assert (S1 : forall s, scan (sign_chars sg ++ s) (mk_nst true false false true (negb c) 0 false false false c
               (if c then vo else (0, 1%positive)) (if c then (0, 1%positive) else vo)) n =
             scan s (mk_nst true false false (match sg with None => true | _ => false end) (negb c) 0 (sign_neg sg) false false c
               (if c then vo else (0, 1%positive)) (if c then (0, 1%positive) else vo)) (n + List.length (sign_chars sg))).
  { intros s. destruct sg as [[|]|]; cbn [sign_chars app List.length sign_neg].
    - rewrite (pm_one true) by reflexivity. replace (n + 1)%nat with (S n) by lia. reflexivity.
    - rewrite (pm_one false) by reflexivity. replace (n + 1)%nat with (S n) by lia. reflexivity.
    - replace (n + 0)%nat with n by lia. reflexivity. }
  rewrite S1. clear S1.
  rewrite !ulen_app_len. set (n1 := (n + List.length (sign_chars sg))%nat).
  unfold mant_val.
  assert (FIN : forall st1 st2 a b, st1 = st2 -> a = b -> scan rest st1 a = scan rest st2 b) by (intros; subst; reflexivity).
  destruct (Decimal.uint_eq_dec di Decimal.Nil) as [Ei|Ei].
  - (* no integer digits: the fraction must have some *)
    subst di. cbn [chars_of_uint app List.length uval].
    destruct fr as [f|]; cbn [frac_digits frac_chars] in *; [|destruct OK; congruence].
    assert (Ef : f <> Decimal.Nil) by (destruct OK; congruence).
    cbn [app]. destruct sg as [[|]|]; cbn [sign_neg]; rewrite dot_one, run_mant by (try reflexivity; exact Ef);
      (apply FIN; [destruct c; unfold push_run; cbn [fst snd Pos.mul]; reflexivity
                  | unfold n1, ulen; cbn [List.length sign_chars]; lia]).
  - rewrite run_mant by (try reflexivity; try exact Ei; destruct sg as [[|]|]; reflexivity).
    destruct fr as [f|]; cbn [frac_digits frac_chars app List.length uval].
    + rewrite dot_one.
      destruct (Decimal.uint_eq_dec f Decimal.Nil) as [Ef|Ef].
      * subst f. cbn [chars_of_uint app List.length uval].
        apply FIN; [destruct c; unfold push_run, ulen; cbn [fst snd chars_of_uint List.length Pos.mul Z.of_nat]; reflexivity
                   | unfold n1, ulen; cbn [List.length]; lia].
      * rewrite run_mant by (try reflexivity; exact Ef).
        apply FIN; [destruct c; unfold push_run; cbn [fst snd Pos.mul]; reflexivity
                   | unfold n1, ulen; cbn [List.length]; lia].
    + apply FIN; [destruct c; unfold push_run, ulen; cbn [fst snd chars_of_uint List.length Z.of_nat]; reflexivity
                 | unfold n1, ulen; cbn [List.length]; lia].
Qed.

(* ---- phase 2: the exponent part ---------------------------------------------------- *)

Definition exp_chars (ex : option (bool * option bool * Decimal.uint)) : list ascii :=
  match ex with None => []
  | Some (up, s, ds) => (if up then "E"%char else "e"%char) :: sign_chars s ++ chars_of_uint ds end.
Definition expv (ex : option (bool * option bool * Decimal.uint)) : Z :=
  match ex with None => 0
  | Some (_, s, ds) => match s with Some true => - uval ds 0 | _ => uval ds 0 end end.

Lemma scan_phase2 ex rest adot adiv sg c v0 v1 n :
  match ex with None => True | Some (_, _, ds) => (ulen ds <= 9)%nat end ->
  exists st', scan (exp_chars ex ++ rest) (mk_nst adot true false false adiv 0 sg false true c v0 v1) n =
              scan rest st' (n + List.length (exp_chars ex)) /\
    cn st' = c /\ a_div st' = adiv /\ q0 st' = v0 /\ q1 st' = v1 /\ sgn st' = sg /\
    (if exp_sgn st' then - l_exp st' else l_exp st') = expv ex /\ have_dig st' = true.
Proof.
  intros OK. destruct ex as [[[up s] ds]|]; cbn [exp_chars expv app List.length].
  2:{ eexists. split; [replace (n + 0)%nat with n by lia; reflexivity|]. cbn. repeat split; reflexivity. }
  apply ulen_bound in OK.
  rewrite e_one.
  assert (S2 : forall r, scan (sign_chars s ++ r) (mk_nst adot false true false adiv 0 sg false true c v0 v1) (S n) =
                         scan r (mk_nst adot false (match s with None => true | _ => false end) false adiv 0 sg (sign_neg s) true c v0 v1)
                              (S n + List.length (sign_chars s))).
  { intros r. destruct s as [[|]|]; cbn [sign_chars app List.length sign_neg].
    - rewrite (pm_one true) by reflexivity. replace (S n + 1)%nat with (S (S n)) by lia. reflexivity.
    - rewrite (pm_one false) by reflexivity. replace (S n + 1)%nat with (S (S n)) by lia. reflexivity.
    - replace (S n + 0)%nat with (S n) by lia. reflexivity. }
  rewrite <- app_assoc, S2. clear S2. rewrite app_length.
  destruct (Decimal.uint_eq_dec ds Decimal.Nil) as [E|E].
  - subst ds. cbn [chars_of_uint app List.length uval].
    eexists. split; [match goal with |- scan _ _ ?a = scan _ _ ?b => replace b with a by lia end; reflexivity|].
    cbn. repeat split; try reflexivity. destruct s as [[|]|]; reflexivity.
  - rewrite run_exp by (try lia; try exact E; exact OK).
    eexists. split; [match goal with |- scan _ _ ?a = scan _ _ ?b => replace b with a by (unfold ulen; lia) end; reflexivity|].
    cbn. repeat split; try reflexivity. destruct s as [[|]|]; reflexivity.
Qed.

(* ---- values ------------------------------------------------------------------------- *)
Local Open Scope Q_scope.

Lemma pow10_pos k : (0 < 10 ^ k)%Z \/ (k < 0)%Z.
Proof. destruct (Z_lt_le_dec k 0); [now right|left]. apply Z.pow_pos_nonneg; lia. Qed.

Lemma finish_val N D l esg sg :
  qval (finish (N, D) l esg sg) ==
  (if sg then -1 # 1 else 1) * (N # D) * pow10 (if esg then (- l)%Z else l).
Proof.
  unfold finish. set (e := if esg then (- l)%Z else l). cbn [fst snd].
  assert (V : qval (if (0 <? e)%Z then ((N * 10 ^ e)%Z, D)
                    else if (e <? 0)%Z then (N, (D * pow10pos (- e))%positive) else (N, D)) == (N # D) * pow10 e).
  { unfold pow10, qval. destruct (Z.ltb_spec 0 e) as [P|P].
    - replace (0 <=? e)%Z with true by (symmetry; apply Z.leb_le; lia). cbn [fst snd].
      unfold Qeq, Qmult, inject_Z. cbn [Qnum Qden]. rewrite Pos.mul_1_r. reflexivity.
    - destruct (Z.ltb_spec e 0) as [P2|P2].
      + replace (0 <=? e)%Z with false by (symmetry; apply Z.leb_gt; lia). cbn [fst snd].
        assert (E10 : (10 ^ (- e))%Z = Zpos (pow10pos (- e))).
        { unfold pow10pos. rewrite Z2Pos.id; [reflexivity|]. apply Z.pow_pos_nonneg; lia. }
        rewrite E10. unfold Qeq, Qmult, Qinv, inject_Z. cbn [Qnum Qden]. rewrite Pos2Z.inj_mul. ring.
      + assert (E0 : e = 0%Z) by lia. rewrite E0. replace (if (0 <=? 0)%Z then inject_Z (10 ^ 0) else / inject_Z (10 ^ (- 0))) with (1 # 1) by reflexivity. cbn [fst snd]. ring. }
  match type of V with qval ?x == _ => set (v := x) in * end.
  destruct sg.
  - rewrite <- Qmult_assoc, <- V. destruct v as [a b]. unfold qval. cbn [fst snd].
    unfold Qeq, Qmult. cbn [Qnum Qden]. lia.
  - rewrite V. ring.
Qed.

Lemma mant_val_spec di fr :
  qval (mant_val di fr) ==
  inject_Z (uval di 0) + inject_Z (uval (frac_digits fr) 0) / inject_Z (10 ^ Z.of_nat (ulen (frac_digits fr))).
Proof.
  unfold mant_val, qval. cbn [fst snd]. set (f := frac_digits fr).
  rewrite Qmake_Qdiv, pow10pos_spec, uval_shift, inject_Z_plus, inject_Z_mult.
  assert (T : (0 < 10 ^ Z.of_nat (ulen f))%Z) by (apply Z.pow_pos_nonneg; lia).
  field. intros E. unfold Qeq, inject_Z in E. cbn [Qnum Qden] in E. lia.
Qed.

Lemma finish_fst_nz N D l esg sg : N <> 0%Z -> fst (finish (N, D) l esg sg) <> 0%Z.
Proof.
  intros NZ. unfold finish. set (e := if esg then (- l)%Z else l). cbn [fst snd].
  assert (fst (if (0 <? e)%Z then ((N * 10 ^ e)%Z, D)
               else if (e <? 0)%Z then (N, (D * pow10pos (- e))%positive) else (N, D)) <> 0%Z).
  { destruct (Z.ltb_spec 0 e); [|destruct (e <? 0)%Z; exact NZ]. cbn [fst].
    assert (0 < 10 ^ e)%Z by (apply Z.pow_pos_nonneg; lia). nia. }
  destruct sg; [|exact H].
  destruct (if (0 <? e)%Z then _ else _) as [a b]. cbn [fst] in *. lia.
Qed.

Lemma mant_val_nz di fr :
  (uval di 0 <> 0 \/ uval (frac_digits fr) 0 <> 0)%Z -> fst (mant_val di fr) <> 0%Z.
Proof.
  unfold mant_val. cbn [fst]. set (f := frac_digits fr). intros H. rewrite (uval_shift f (uval di 0)).
  pose proof (uval_nonneg di 0 ltac:(lia)). pose proof (uval_nonneg f 0 ltac:(lia)).
  set (T := (10 ^ Z.of_nat (ulen f))%Z) in *.
  assert (0 < T)%Z by (apply Z.pow_pos_nonneg; lia).
  assert (0 <= uval di 0 * T)%Z by (apply Z.mul_nonneg_nonneg; lia).
  destruct H as [H|H]; [|lia].
  assert (0 < uval di 0 * T)%Z by (apply Z.mul_pos_pos; lia). lia.
Qed.

(* ---- one mantissa from a start state -------------------------------------------------- *)

Lemma scan_mant m rest c vo n :
  mant_ok m ->
  exists st', scan (render_mant m ++ rest) (start c vo) n = scan rest st' (n + List.length (render_mant m)) /\
    cn st' = c /\ a_div st' = negb c /\ have_dig st' = true /\ (if c then q0 st' else q1 st') = vo /\
    qval (finish (cur st') (l_exp st') (exp_sgn st') (sgn st')) == denote_mant m /\
    (mant_nz m -> fst (finish (cur st') (l_exp st') (exp_sgn st') (sgn st')) <> 0%Z).
Proof.
  intros [OK1 OK2]. destruct m as [sg di fr ex]. cbn [m_sign m_int m_frac m_exp] in *.
  unfold frac_of in OK1. cbn [m_frac] in OK1. fold (frac_digits fr) in OK1.
  unfold render_mant. cbn [m_sign m_int m_frac m_exp]. fold (frac_chars fr). fold (exp_chars ex).
  rewrite <- !app_assoc. rewrite scan_phase1 by exact OK1.
  destruct (scan_phase2 ex rest (match fr with None => true | _ => false end) (negb c) (sign_neg sg) c
              (if c then vo else mant_val di fr) (if c then mant_val di fr else vo)
              (n + List.length (sign_chars sg ++ chars_of_uint di ++ frac_chars fr)) OK2)
    as (st' & SC & Hc & Hd & H0 & H1 & Hs & He & Hh).
  exists st'. split; [rewrite SC; f_equal; rewrite !app_length; lia|].
  split; [exact Hc|]. split; [exact Hd|]. split; [exact Hh|].
  assert (CUR : cur st' = mant_val di fr) by (unfold cur; rewrite Hc, H0, H1; destruct c; reflexivity).
  split; [rewrite H0, H1; destruct c; reflexivity|].
  rewrite CUR, Hs. destruct (mant_val di fr) as [N D] eqn:EV.
  split.
  - rewrite finish_val, He. unfold denote_mant. cbn [m_sign m_int m_frac m_exp].
    pose proof (mant_val_spec di fr) as MV. rewrite EV in MV. unfold qval in MV. cbn [fst snd] in MV.
    unfold frac_of, exp_of. cbn [m_frac m_exp]. fold (frac_digits fr). rewrite MV.
    replace (expv ex) with (match ex with None => 0%Z | Some (_, s, ds) => match s with Some true => (- uval ds 0)%Z | _ => uval ds 0 end end)
      by reflexivity.
    destruct sg as [[|]|]; cbn [sign_neg qsign]; reflexivity.
  - intros NZ. apply finish_fst_nz. change N with (fst (N, D)). rewrite <- EV. apply mant_val_nz.
    unfold mant_nz, frac_of in NZ. cbn [m_int m_frac] in NZ. exact NZ.
Qed.

(* ---- C10: structured literals are read as the rational they spell ------------------------ *)

Lemma start_false : st_init = start false (1%Z, 1%positive).
Proof. reflexivity. Qed.

Theorem read_denotes l rest :
  lit_ok l -> stops rest ->
  exists q, read_num (render_lit l ++ rest) = (Val q, List.length (render_lit l)) /\ q == denote l.
Proof.
  intros [OKn OKd] ST. destruct l as [mn md]. cbn [l_num l_den] in *.
  unfold read_num_gen, render_lit, denote. cbn [l_num l_den]. rewrite start_false.
  destruct md as [d|].
  - destruct OKd as [OKd NZ]. rewrite <- app_assoc. cbn [app].
    destruct (scan_mant mn ("/"%char :: render_mant d ++ rest) false (1%Z, 1%positive) O OKn)
      as (s1 & SC1 & C1 & D1 & Hh1 & O1 & V1 & _).
    rewrite SC1. destruct s1 as [adot aexp aes asg adiv le sg esg hd c v0 v1].
    cbn [cn a_div q0 q1 negb have_dig] in C1, D1, O1, Hh1. subst c adiv hd.
    rewrite slash_one.
    change (mk_nst true false false true false 0 false false false true (finish v0 le esg sg) (0%Z, 1%positive))
      with (start true (finish v0 le esg sg)).
    destruct (scan_mant d rest true (finish v0 le esg sg) (S (0 + List.length (render_mant mn))) OKd)
      as (s2 & SC2 & C2 & D2 & Hh2 & O2 & V2 & N2).
    rewrite SC2, (scan_stops rest s2 _ ST). unfold conclude.
    replace (S (0 + List.length (render_mant mn)) + List.length (render_mant d))%nat
      with (S (List.length (render_mant mn) + List.length (render_mant d))) by lia.
    rewrite C2. specialize (N2 NZ).
    destruct (fst (finish (cur s2) (l_exp s2) (exp_sgn s2) (sgn s2)) =? 0)%Z eqn:EZ;
      [apply Z.eqb_eq in EZ; congruence|].
    eexists. split.
    + f_equal. rewrite app_length. cbn [List.length]. lia.
    + rewrite O2, V2. cbn [cur cn q0] in V1. rewrite V1. reflexivity.
  - rewrite app_nil_r.
    destruct (scan_mant mn rest false (1%Z, 1%positive) O OKn) as (s1 & SC1 & C1 & D1 & Hh1 & O1 & V1 & _).
    rewrite SC1, (scan_stops rest s1 _ ST). unfold conclude.
    assert (LEN : (0 < List.length (render_mant mn))%nat).
    { destruct OKn as [[H|H] _]; unfold render_mant; rewrite !app_length.
      - destruct (m_int mn); try congruence; cbn [chars_of_uint List.length]; lia.
      - unfold frac_of in H. destruct (m_frac mn) as [f|]; [|congruence].
        destruct f; try congruence; cbn [chars_of_uint List.length]; lia. }
    destruct (0 + List.length (render_mant mn))%nat as [|k] eqn:EK; [lia|].
    rewrite C1, O1. cbn [fst Z.eqb].
    eexists. split; [f_equal; lia|].
    rewrite V1. unfold qval. cbn [fst snd]. field.
Qed.

(* ---- C08/C19: what the library prints is read back as the same rational ------------------- *)

Definition mant_of_Z (z : Z) : mant :=
  match Z.to_int z with
  | Decimal.Pos d => mk_mant None d None None
  | Decimal.Neg d => mk_mant (Some true) d None None
  end.
Definition lit_of (q : Q) : lit :=
  let q := Qred q in
  mk_lit (mant_of_Z (Qnum q))
         (match Qden q with 1%positive => None | d => Some (mk_mant None (Pos.to_uint d) None None) end).

Lemma to_int_nonnil z : match Z.to_int z with Decimal.Pos d | Decimal.Neg d => d <> Decimal.Nil end.
Proof. destruct z; cbn; [discriminate | apply DecimalPos.Unsigned.to_uint_nonnil ..]. Qed.

Lemma print_num_render q : print_num q = render_lit (lit_of q).
Proof.
  unfold print_num, lit_of, render_lit, print_Z, print_pos, mant_of_Z. cbn [l_num l_den].
  destruct (Qden (Qred q)); destruct (Z.to_int (Qnum (Qred q)));
    unfold render_mant; cbn [m_sign m_int m_frac m_exp sign_chars app]; rewrite ?app_nil_r; reflexivity.
Qed.

Lemma denote_mant_int sg d :
  denote_mant (mk_mant sg d None None) == qsign sg * inject_Z (uval d 0).
Proof.
  unfold denote_mant, frac_of, exp_of. cbn [m_sign m_int m_frac m_exp uval ulen chars_of_uint List.length Z.of_nat].
  change (pow10 0) with (1 # 1). change (inject_Z (10 ^ 0)) with (1 # 1). change (inject_Z 0) with (0 # 1). field.
Qed.

Lemma denote_mant_of_Z z : denote_mant (mant_of_Z z) == inject_Z z.
Proof.
  unfold mant_of_Z. pose proof (DecimalZ.of_to z) as E. destruct (Z.to_int z) as [d|d]; cbn [Z.of_int] in E;
    rewrite denote_mant_int, uval_of_uint; cbn [qsign].
  - rewrite E. ring.
  - rewrite <- E, inject_Z_opp. ring.
Qed.

Lemma lit_of_ok q : lit_ok (lit_of q).
Proof.
  unfold lit_of, lit_ok. cbn [l_num l_den]. split.
  - unfold mant_of_Z. pose proof (to_int_nonnil (Qnum (Qred q))) as H.
    destruct (Z.to_int (Qnum (Qred q))); (split; [left; exact H | exact I]).
  - assert (G : forall p, mant_ok (mk_mant None (Pos.to_uint p) None None) /\ mant_nz (mk_mant None (Pos.to_uint p) None None)).
    { intros p. split; [split; [left; apply DecimalPos.Unsigned.to_uint_nonnil | exact I]|].
      left. cbn [m_int]. rewrite uval_of_uint. unfold Z.of_uint. rewrite DecimalPos.Unsigned.of_to. discriminate. }
    destruct (Qden (Qred q)); [apply G | apply G | exact I].
Qed.

Lemma denote_lit_of q : denote (lit_of q) == q.
Proof.
  rewrite <- (Qred_correct q) at 2. unfold lit_of, denote. cbn [l_num l_den].
  destruct (Qred q) as [n d]. cbn [Qnum Qden].
  assert (G : forall p, denote_mant (mant_of_Z n) / denote_mant (mk_mant None (Pos.to_uint p) None None) == n # p).
  { intros p. rewrite denote_mant_of_Z, denote_mant_int. cbn [qsign]. rewrite uval_of_uint.
    unfold Z.of_uint. rewrite DecimalPos.Unsigned.of_to. cbn [Z.of_N]. rewrite (Qmake_Qdiv n p). field.
    intros E. unfold Qeq, inject_Z in E. cbn in E. discriminate. }
  destruct d; [apply G | apply G |].
  rewrite denote_mant_of_Z. rewrite (Qmake_Qdiv n 1). change (inject_Z (Z.pos 1)) with 1. field.
Qed.

Theorem read_print_num q rest :
  stops rest ->
  exists q', read_num (print_num q ++ rest) = (Val q', List.length (print_num q)) /\ q' == q.
Proof.
  intros ST. rewrite print_num_render.
  destruct (read_denotes (lit_of q) rest (lit_of_ok q) ST) as (q' & R & E).
  exists q'. split; [exact R|]. rewrite E. apply denote_lit_of.
Qed.

End Strict.

(* the refutations of "no input faults" for the code as found ... *)
Example no_fault_refuted_div_zero :
  read_num (list_ascii_of_string "1/0") = (NFault DivZero, 3%nat).
Proof. vm_compute. reflexivity. Qed.
Example no_fault_refuted_bare_slash :
  read_num (list_ascii_of_string "/") = (NFault DivZero, 1%nat).
Proof. vm_compute. reflexivity. Qed.
Example no_fault_refuted_int_overflow :
  read_num (list_ascii_of_string "1e99999999999") = (NFault IntOverflow, 12%nat).
Proof. vm_compute. reflexivity. Qed.
(* a valid LP name that the scanner takes for a number: "/1abc" is read as 0 with 2 bytes consumed *)
Example leading_slash_is_a_number :
  read_num (list_ascii_of_string "/1abc") = (Val ((0 # 1) / (1 # 1)), 2%nat).
Proof. vm_compute. reflexivity. Qed.

(* ... and their absence after the patch: no byte string divides by zero, "/..." is not a number *)
Lemma step_fault st c f : step st c = inr f -> f = IntOverflow.
Proof.
  unfold step. repeat match goal with |- context [if ?b then _ else _] => destruct b end; intros H; inversion H; reflexivity.
Qed.

Lemma scan_fault strict s : forall st n f k, scan strict s st n = (Flt f, k) -> f = IntOverflow.
Proof.
  induction s as [|c s IH]; intros st n f k H; simpl in H; [discriminate|].
  destruct (accept strict st c); [|discriminate].
  destruct (step st c) as [st'|f'] eqn:E; [eauto|]. inversion H; subst. eapply step_fault; eauto.
Qed.

Theorem fixed_no_div_zero s : fst (read_num_fixed s) <> NFault DivZero.
Proof.
  unfold read_num_fixed, read_num_gen. destruct (scan true s st_init 0) as [[st|f] n] eqn:E.
  - unfold conclude. destruct n; [discriminate|].
    match goal with |- context [if ?b then _ else _] => destruct b end; discriminate.
  - apply scan_fault in E. subst f. discriminate.
Qed.

Example fixed_examples :
  read_num_fixed (list_ascii_of_string "1/0") = (Val 0, 0%nat) /\
  read_num_fixed (list_ascii_of_string "/1abc") = (Val 0, 0%nat) /\
  read_num_fixed (list_ascii_of_string "-3/4x") = (Val ((-3 # 1) / (4 # 1)), 4%nat).
Proof. vm_compute. repeat split; reflexivity. Qed.

(* the stdlib printer agrees with chars_of_uint (so print_num is "the usual decimal notation") *)
Lemma chars_of_uint_stdlib d :
  chars_of_uint d = list_ascii_of_string (DecimalString.NilEmpty.string_of_uint d).
Proof. induction d; cbn; try rewrite IHd; reflexivity. Qed.

(* side condition examples: hypotheses are satisfiable, and the condition on [rest] is needed *)
Example read_print_num_example :
  read_num (print_num (-7 # 12) ++ list_ascii_of_string " x1") = (Val ((-7 # 1) / (12 # 1)), 5%nat).
Proof. vm_compute. reflexivity. Qed.
Example stops_needed :
  read_num (print_num (3 # 1) ++ list_ascii_of_string "e2") = (Val ((300 # 1) / (1 # 1)), 3%nat).
Proof. vm_compute. reflexivity. Qed.
Example read_denotes_example :   (* "-.5E+3/2.50" *)
  let l := mk_lit (mk_mant (Some true) Decimal.Nil (Some (Decimal.D5 Decimal.Nil)) (Some (true, Some false, Decimal.D3 Decimal.Nil)))
                  (Some (mk_mant None (Decimal.D2 Decimal.Nil) (Some (Decimal.D5 (Decimal.D0 Decimal.Nil))) None)) in
  string_of_list_ascii (render_lit l) = "-.5E+3/2.50"%string /\ Qred (denote l) = (-200 # 1) /\
  fst (read_num (render_lit l)) = Val ((-5000 # 10) / (250 # 100)).
Proof. vm_compute. repeat split; reflexivity. Qed.
