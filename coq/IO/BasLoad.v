(* C14 load_same_solution: loading the basis read back from a basis file gives the same loaded basis - hence the same basic
   solution and the same verdicts - as loading the basis that was written.
   IO/Bas.v: the file round trip returns the row statuses unchanged and the column statuses up to [Bas.norm]
   (a non-basic column at lower / free comes back free when both bounds are infinite, else at lower).
   Fac/Basis.v: ILLbasis_load normalises the status of every non-basic structural column against its bounds ([norm_stat],
   [loaded_basis]); at-lower and free are sent to the same status, so the difference the file introduces disappears. *)
From QSX Require IO.Bas.
From QSX Require Import Fac.BasisLoad.
Local Open Scope Q_scope.

Definition to_bstat (s : Bas.st) : bstat :=
  match s with Bas.Lo => BLower | Bas.Ba => BBasic | Bas.Up => BUpper | Bas.Fr => BFree end.

Definition mk_basis (cs rs : list Bas.st) : basis := {| cstat := map to_bstat cs; rstat := map to_bstat rs |}.

(* the loader does not distinguish at-lower from free *)
Lemma norm_stat_lower_free M c : norm_stat M c BLower = norm_stat M c BFree.
Proof. unfold norm_stat. destruct (Qeq_bool (ic_lo c) (- M)), (Qeq_bool (ic_up c) M); reflexivity. Qed.

Lemma norm_stat_file M c (x : N * Bas.st * bool) :
  norm_stat M c (to_bstat (Bas.norm x)) = norm_stat M c (to_bstat (Bas.cstat x)).
Proof.
  unfold Bas.norm. destruct (Bas.cstat x); try reflexivity; destruct (Bas.cfree x); cbn [to_bstat];
    try reflexivity; try apply norm_stat_lower_free; symmetry; apply norm_stat_lower_free.
Qed.

Lemma norm_from_file M P (cols : list (N * Bas.st * bool)) : forall j,
  norm_from M P j (map to_bstat (map Bas.norm cols)) = norm_from M P j (map to_bstat (map Bas.cstat cols)).
Proof.
  induction cols as [|x cols IH]; intros j; cbn [map norm_from]; [reflexivity|].
  rewrite norm_stat_file, IH. reflexivity.
Qed.

Theorem load_same_basis M P (cols : list (N * Bas.st * bool)) (rs : list Bas.st) :
  loaded_basis M P (mk_basis (map Bas.norm cols) rs) = loaded_basis M P (mk_basis (map Bas.cstat cols) rs).
Proof. unfold loaded_basis, mk_basis. cbn [cstat rstat]. rewrite norm_from_file. reflexivity. Qed.

(* write the basis, read the file back, load what was read: the loaded basis, the basic solution (primal and multipliers),
   and both verdicts are those of the basis that was written *)
Theorem load_same_solution M P ns isR cols rows :
  Bas.valid_basis cols rows ->
  exists L cs' rs',
    Bas.write_basis cols rows = Some L /\ Bas.read_basis cols (map fst rows) L = Some (cs', rs') /\
    let B := mk_basis (map Bas.cstat cols) (map snd rows) in
    let B' := mk_basis cs' rs' in
    loaded_basis M P B' = loaded_basis M P B /\
    xB_of P (loaded_basis M P B') = xB_of P (loaded_basis M P B) /\
    pi_of P (loaded_basis M P B') = pi_of P (loaded_basis M P B) /\
    (forall xB, zfull P (loaded_basis M P B') xB = zfull P (loaded_basis M P B) xB) /\
    lib_optimalstatus M P ns isR B' = lib_optimalstatus M P ns isR B /\
    (forall g, lib_dualstatus M P ns isR B' g = lib_dualstatus M P ns isR B g).
Proof.
  intros V. destruct (Bas.basis_roundtrip cols rows V) as (L & W & R).
  exists L, (map Bas.norm cols), (map snd rows). split; [exact W|]. split; [exact R|]. cbv zeta.
  pose proof (load_same_basis M P cols (map snd rows)) as E.
  unfold lib_optimalstatus, lib_dualstatus. rewrite E. repeat split; reflexivity.
Qed.
