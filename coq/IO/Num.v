(* IO/Num.v  --  the number scanner mpq_EGlpNumReadStrXc (qsopt_ex/eg_lpnum.c:694-836)
   as a total function, flag by flag, and GMP's base-10 output of a canonical rational.

   Bytes are [ascii], strings [list ascii].  The two accumulators den[0], den[1] of the C
   code are pairs (numerator : Z, denominator : positive) exactly as the mpz pairs they are
   (no normalisation happens before the final mpq_canonicalize / mpq_div).

   Abstractions (stated, not hidden):
   * [n_dig] is an int counter that the C code only ever compares with 0; it is modelled by
     the boolean [have_dig] (overflow of the counter needs 2^31 mantissa digits).
   * [l_exp] is a C int: [10 * l_exp + c - '0'] is evaluated left to right, the model
     reports [NFault IntOverflow] exactly when one of the two intermediate results leaves
     [0, INT_MAX] (signed overflow = undefined behaviour, caught by UBSan).
   * expanding the exponent ("while (l_exp--) mul 10") is [10 ^ l_exp].
   * [mpq_div] by a zero rational raises SIGFPE in GMP: [NFault DivZero]. *)
From Coq Require Import ZArith QArith List Ascii String Bool Lia.
From Coq Require Decimal DecimalString DecimalZ DecimalN DecimalPos.
Import ListNotations.
Local Open Scope Z_scope.

Inductive fault := DivZero | IntOverflow.
Inductive nres := Val (q : Q) | NFault (f : fault).

Definition int_max : Z := 2147483647.

Record nst := mk_nst {
  a_dot : bool; a_exp : bool; a_exp_sgn : bool; a_sgn : bool; a_div : bool;
  l_exp : Z; sgn : bool; exp_sgn : bool; have_dig : bool; cn : bool;
  q0 : Z * positive; q1 : Z * positive }.

Definition st_init : nst :=
  mk_nst true false false true true 0 false false false false (0, 1%positive) (1, 1%positive).

Definition code (c : ascii) : Z := Z.of_N (N_of_ascii c).
Definition is_digit (c : ascii) : bool := (48 <=? code c) && (code c <=? 57).
Definition is_e (c : ascii) : bool := Ascii.eqb c "e" || Ascii.eqb c "E".
Definition is_pm (c : ascii) : bool := Ascii.eqb c "+" || Ascii.eqb c "-".

(* the condition of the while loop.  [strict = false] is the code as found; [strict = true] is the code
   with notes/repo_patches/numreader_div_zero.diff applied ('/' only after a numerator digit, and a zero
   denominator counts as "nothing read"); the check probes the library to select the variant. *)
Definition accept (strict : bool) (st : nst) (c : ascii) : bool :=
  is_digit c || (a_dot st && Ascii.eqb c ".") || (a_exp st && is_e c) || (a_sgn st && is_pm c)
  || (a_div st && (negb strict || have_dig st) && Ascii.eqb c "/") || (a_exp_sgn st && is_pm c).

Definition cur (st : nst) : Z * positive := if cn st then q1 st else q0 st.
Definition set_cur (st : nst) (v : Z * positive) : nst :=
  if cn st
  then mk_nst (a_dot st) (a_exp st) (a_exp_sgn st) (a_sgn st) (a_div st) (l_exp st) (sgn st) (exp_sgn st) (have_dig st) (cn st) (q0 st) v
  else mk_nst (a_dot st) (a_exp st) (a_exp_sgn st) (a_sgn st) (a_div st) (l_exp st) (sgn st) (exp_sgn st) (have_dig st) (cn st) v (q1 st).

(* a mantissa digit d: den *= 10 if the dot was seen; num = 10 num + d *)
Definition push_digit (dot_allowed : bool) (v : Z * positive) (d : Z) : Z * positive :=
  (10 * fst v + d, if dot_allowed then snd v else (snd v * 10)%positive).

(* "now expand the exponent" + "check the sign" *)
Definition pow10pos (e : Z) : positive := Z.to_pos (10 ^ e).
Definition finish (v : Z * positive) (l : Z) (esg sg : bool) : Z * positive :=
  let l := if esg then - l else l in
  let v := if 0 <? l then (fst v * 10 ^ l, snd v)
           else if l <? 0 then (fst v, (snd v * pow10pos (- l))%positive) else v in
  if sg then (- fst v, snd v) else v.

Definition step (st : nst) (c : ascii) : nst + fault :=
  if is_digit c then
    if a_exp st || negb (have_dig st) then
      let st' := set_cur st (push_digit (a_dot st) (cur st) (code c - 48)) in
      inl (mk_nst (a_dot st') true (a_exp_sgn st') false (a_div st') (l_exp st') (sgn st') (exp_sgn st') true (cn st') (q0 st') (q1 st'))
    else
      if (int_max <? 10 * l_exp st) || (int_max <? 10 * l_exp st + code c) then inr IntOverflow
      else inl (mk_nst (a_dot st) (a_exp st) false false (a_div st) (10 * l_exp st + code c - 48) (sgn st) (exp_sgn st) (have_dig st) (cn st) (q0 st) (q1 st))
  else if Ascii.eqb c "." then
    inl (mk_nst false (a_exp st) (a_exp_sgn st) false (a_div st) (l_exp st) (sgn st) (exp_sgn st) (have_dig st) (cn st) (q0 st) (q1 st))
  else if is_pm c then
    (* case '-': if (a_sgn) sgn = 1; else exp_sgn = 1;  falls through to case '+' *)
    let sgn' := if Ascii.eqb c "-" then (if a_sgn st then true else sgn st) else sgn st in
    let esg' := if Ascii.eqb c "-" then (if a_sgn st then exp_sgn st else true) else exp_sgn st in
    inl (mk_nst (a_dot st) (a_exp st) false false (a_div st) (l_exp st) sgn' esg' (have_dig st) (cn st) (q0 st) (q1 st))
  else if is_e c then
    inl (mk_nst (a_dot st) false true false (a_div st) (l_exp st) (sgn st) (exp_sgn st) (have_dig st) (cn st) (q0 st) (q1 st))
  else (* '/' : finish den[0], start den[1] = 0/1 *)
    inl (mk_nst true false false true false 0 false false false true
                (finish (q0 st) (l_exp st) (exp_sgn st) (sgn st)) (0, 1%positive)).

Inductive sres := Run (st : nst) | Flt (f : fault).

Fixpoint scan (strict : bool) (s : list ascii) (st : nst) (n : nat) : sres * nat :=
  match s with
  | [] => (Run st, n)
  | c :: s' =>
    if accept strict st c then
      match step st c with
      | inl st' => scan strict s' st' (S n)
      | inr f => (Flt f, S n)
      end
    else (Run st, n)
  end.

Definition qval (v : Z * positive) : Q := Qmake (fst v) (snd v).

(* the code after the loop.  With n_char = 0 the C function leaves [var] untouched and
   returns 0; the model answers (Val 0, 0) and callers look at the count first. *)
Definition conclude (strict : bool) (st : nst) (n : nat) : nres * nat :=
  match n with
  | O => (Val 0%Q, O)
  | _ =>
    let v := finish (cur st) (l_exp st) (exp_sgn st) (sgn st) in
    let d0 := if cn st then q0 st else v in
    let d1 := if cn st then v else q1 st in
    if fst d1 =? 0 then (if strict then (Val 0%Q, O) else (NFault DivZero, n)) else (Val (qval d0 / qval d1)%Q, n)
  end.

Definition read_num_gen (strict : bool) (s : list ascii) : nres * nat :=
  match scan strict s st_init O with
  | (Run st, n) => conclude strict st n
  | (Flt f, n) => (NFault f, n)
  end.
Definition read_num : list ascii -> nres * nat := read_num_gen false.        (* the code as found *)
Definition read_num_fixed : list ascii -> nres * nat := read_num_gen true.   (* with the patch *)

(* ILLget_value, mpq branch (read_lp.c:706-722): value 1 when nothing was read *)
Definition get_value (strict : bool) (s : list ascii) : nres * nat :=
  match read_num_gen strict s with
  | (Val q, O) => (Val 1%Q, O)
  | r => r
  end.

(* ---- printing -------------------------------------------------------------- *)

Fixpoint chars_of_uint (d : Decimal.uint) : list ascii :=
  match d with
  | Decimal.Nil => []
  | Decimal.D0 d => "0"%char :: chars_of_uint d
  | Decimal.D1 d => "1"%char :: chars_of_uint d
  | Decimal.D2 d => "2"%char :: chars_of_uint d
  | Decimal.D3 d => "3"%char :: chars_of_uint d
  | Decimal.D4 d => "4"%char :: chars_of_uint d
  | Decimal.D5 d => "5"%char :: chars_of_uint d
  | Decimal.D6 d => "6"%char :: chars_of_uint d
  | Decimal.D7 d => "7"%char :: chars_of_uint d
  | Decimal.D8 d => "8"%char :: chars_of_uint d
  | Decimal.D9 d => "9"%char :: chars_of_uint d
  end.

Definition print_Z (z : Z) : list ascii :=
  match Z.to_int z with
  | Decimal.Pos d => chars_of_uint d
  | Decimal.Neg d => "-"%char :: chars_of_uint d
  end.

Definition print_pos (p : positive) : list ascii := chars_of_uint (Pos.to_uint p).

(* mpq_get_str (base 10) of a canonical rational: "num" or "num/den" *)
Definition print_num (q : Q) : list ascii :=
  let q := Qred q in
  match Qden q with
  | 1%positive => print_Z (Qnum q)
  | d => print_Z (Qnum q) ++ "/"%char :: print_pos d
  end.

(* ---- structured literals (the grammar of C10) -------------------------------- *)

Record mant := mk_mant {
  m_sign : option bool;                          (* None | Some false = '+' | Some true = '-' *)
  m_int : Decimal.uint;                          (* digits before the dot (may be empty) *)
  m_frac : option Decimal.uint;                  (* '.' digits *)
  m_exp : option (bool * option bool * Decimal.uint) (* (upper-case E?, sign, digits) *) }.
Record lit := mk_lit { l_num : mant; l_den : option mant }.

Definition sign_chars (s : option bool) : list ascii :=
  match s with None => [] | Some false => ["+"%char] | Some true => ["-"%char] end.

Definition render_mant (m : mant) : list ascii :=
  sign_chars (m_sign m) ++ chars_of_uint (m_int m) ++
  (match m_frac m with None => [] | Some f => "."%char :: chars_of_uint f end) ++
  (match m_exp m with None => []
   | Some (up, s, ds) => (if up then "E"%char else "e"%char) :: sign_chars s ++ chars_of_uint ds end).

Definition render_lit (l : lit) : list ascii :=
  render_mant (l_num l) ++ (match l_den l with None => [] | Some d => "/"%char :: render_mant d end).

(* value of a digit string read left to right from accumulator acc *)
Fixpoint uval (d : Decimal.uint) (acc : Z) : Z :=
  match d with
  | Decimal.Nil => acc
  | Decimal.D0 d => uval d (10 * acc + 0)
  | Decimal.D1 d => uval d (10 * acc + 1)
  | Decimal.D2 d => uval d (10 * acc + 2)
  | Decimal.D3 d => uval d (10 * acc + 3)
  | Decimal.D4 d => uval d (10 * acc + 4)
  | Decimal.D5 d => uval d (10 * acc + 5)
  | Decimal.D6 d => uval d (10 * acc + 6)
  | Decimal.D7 d => uval d (10 * acc + 7)
  | Decimal.D8 d => uval d (10 * acc + 8)
  | Decimal.D9 d => uval d (10 * acc + 9)
  end.
Definition ulen (d : Decimal.uint) : nat := List.length (chars_of_uint d).

Definition pow10 (e : Z) : Q := if 0 <=? e then inject_Z (10 ^ e) else Qinv (inject_Z (10 ^ (- e))).
Definition qsign (s : option bool) : Q := match s with Some true => (-1)%Q | _ => 1%Q end.
Definition frac_of (m : mant) : Decimal.uint := match m_frac m with None => Decimal.Nil | Some f => f end.
Definition exp_of (m : mant) : Z :=
  match m_exp m with
  | None => 0
  | Some (_, s, ds) => match s with Some true => - uval ds 0 | _ => uval ds 0 end
  end.

(* the rational a mantissa spells:  +-(int + frac / 10^|frac|) * 10^exp *)
Definition denote_mant (m : mant) : Q :=
  (qsign (m_sign m) *
   (inject_Z (uval (m_int m) 0) + inject_Z (uval (frac_of m) 0) / inject_Z (10 ^ Z.of_nat (ulen (frac_of m)))) *
   pow10 (exp_of m))%Q.

Definition denote (l : lit) : Q :=
  match l_den l with None => denote_mant (l_num l) | Some d => (denote_mant (l_num l) / denote_mant d)%Q end.

(* at least one mantissa digit; at most 9 exponent digits (so the C int cannot overflow) *)
Definition mant_ok (m : mant) : Prop :=
  (m_int m <> Decimal.Nil \/ frac_of m <> Decimal.Nil) /\
  match m_exp m with None => True | Some (_, _, ds) => (ulen ds <= 9)%nat end.
Definition mant_nz (m : mant) : Prop := uval (m_int m) 0 <> 0 \/ uval (frac_of m) 0 <> 0.
Definition lit_ok (l : lit) : Prop :=
  mant_ok (l_num l) /\ match l_den l with None => True | Some d => mant_ok d /\ mant_nz d end.

(* what may follow a literal: end of string or a byte the scanner never accepts *)
Definition number_char (c : ascii) : bool :=
  is_digit c || Ascii.eqb c "." || is_e c || is_pm c || Ascii.eqb c "/".
Definition stops (rest : list ascii) : Prop :=
  match rest with [] => True | c :: _ => number_char c = false end.
