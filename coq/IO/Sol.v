(* IO/Sol.v -- the solution file of QSexact_print_sol (exact.c:50-151) / esolver -O.
   After the status block come four sections VARS / REDUCED COST / PI / SLACK, each listing exactly
   the non-zero entries as "name = p/q" with the number printed by mpq_EGlpNumGetStr.
   print: sections from (name, value) lists; parse: split a line at " = " and read the number with
   the scanner model of IO/Num.v.  Round trip via read_print_num. *)
From Coq Require Import List Ascii String QArith Bool Lia.
Import ListNotations.
From QSX Require Import IO.Num IO.NumSound.
Local Open Scope Q_scope.

Definition sp : ascii := " "%char.
Definition eqc : ascii := "="%char.

Definition print_line (nm : list ascii) (q : Q) : list ascii := nm ++ sp :: eqc :: sp :: print_num q.

Definition nonzero (e : list ascii * Q) : bool := negb (Qeq_bool (snd e) 0).
Definition print_section (l : list (list ascii * Q)) : list (list ascii) :=
  map (fun e => print_line (fst e) (snd e)) (filter nonzero l).

Fixpoint take_name (l : list ascii) : list ascii * list ascii :=
  match l with
  | [] => ([], [])
  | c :: r => if Ascii.eqb c sp then ([], l) else let (a, b) := take_name r in (c :: a, b)
  end.

(* a line "name = number" with nothing after the number *)
Definition parse_line (strict : bool) (l : list ascii) : option (list ascii * Q) :=
  match take_name l with
  | (nm, s1 :: e :: s2 :: rest) =>
    if Ascii.eqb s1 sp && Ascii.eqb e eqc && Ascii.eqb s2 sp then
      match read_num_gen strict rest with
      | (Val q, n) => if Nat.eqb n (List.length rest) && negb (Nat.eqb n 0) then Some (nm, q) else None
      | _ => None
      end
    else None
  | _ => None
  end.

Definition name_ok (nm : list ascii) : Prop := Forall (fun c => c <> sp) nm.

Lemma take_name_app nm rest : name_ok nm -> take_name (nm ++ sp :: rest) = (nm, sp :: rest).
Proof.
  induction nm as [|c nm IH]; intros H; simpl; [reflexivity|].
  inversion H as [|? ? Hc Hn]; subst. destruct (Ascii.eqb_spec c sp); [contradiction|]. rewrite (IH Hn). reflexivity.
Qed.

Lemma print_num_nonempty q : (0 < List.length (print_num q))%nat.
Proof.
  rewrite print_num_render. unfold render_lit. rewrite app_length.
  assert (G : (0 < List.length (render_mant (l_num (lit_of q))))%nat).
  { destruct (lit_of_ok q) as [[[H|H] _] _]; unfold render_mant; rewrite !app_length.
    - destruct (m_int (l_num (lit_of q))); try congruence; cbn [chars_of_uint List.length]; lia.
    - unfold frac_of in H. destruct (m_frac (l_num (lit_of q))) as [f|]; [|congruence].
      destruct f; try congruence; cbn [chars_of_uint List.length]; lia. }
  lia.
Qed.

Theorem line_roundtrip strict nm q :
  name_ok nm -> exists q', parse_line strict (print_line nm q) = Some (nm, q') /\ q' == q.
Proof.
  intros H. unfold parse_line, print_line. rewrite (take_name_app nm _ H).
  change (Ascii.eqb sp sp && Ascii.eqb eqc eqc && Ascii.eqb sp sp) with true. cbn iota.
  destruct (read_print_num strict q [] I) as (q' & R & E). rewrite app_nil_r in R. rewrite R.
  rewrite Nat.eqb_refl. pose proof (print_num_nonempty q) as P.
  destruct (List.length (print_num q)) eqn:L; [lia|]. simpl. exists q'. split; [reflexivity|exact E].
Qed.

(* a whole section: what is parsed back is exactly the list of non-zero entries *)
Theorem section_roundtrip strict (l : list (list ascii * Q)) :
  Forall (fun e => name_ok (fst e)) l ->
  Forall2 (fun line e => exists q', parse_line strict line = Some (fst e, q') /\ q' == snd e)
          (print_section l) (filter nonzero l).
Proof.
  intros H. unfold print_section.
  assert (G : Forall (fun e => name_ok (fst e)) (filter nonzero l)).
  { apply Forall_forall. intros e I. apply filter_In in I. destruct I as [I _]. exact (proj1 (Forall_forall _ _) H e I). }
  induction (filter nonzero l) as [|e t IH]; simpl; constructor.
  - inversion G; subst. apply line_roundtrip. assumption.
  - apply IH. inversion G; assumption.
Qed.

Theorem section_lists_nonzeros (l : list (list ascii * Q)) e :
  In e (filter nonzero l) <-> In e l /\ ~ snd e == 0.
Proof.
  rewrite filter_In. unfold nonzero. rewrite negb_true_iff. split; intros [A B]; split; try assumption.
  - intros E. apply Qeq_bool_iff in E. congruence.
  - apply not_true_iff_false. intros E. apply Qeq_bool_iff in E. contradiction.
Qed.

Example sol_example :
  map string_of_list_ascii (print_section [(list_ascii_of_string "x1", 3 # 2); (list_ascii_of_string "y", 0); (list_ascii_of_string "z_", -4 # 1)])
  = ["x1 = 3/2"; "z_ = -4"]%string /\
  parse_line false (list_ascii_of_string "x1 = 3/2") = Some (list_ascii_of_string "x1", (3 # 1) / (2 # 1)).
Proof. vm_compute. split; reflexivity. Qed.
