(* IO/Bas.v -- basis files: ILLlib_writebasis (lib.c:3962-4076) and ILLlib_readbasis (lib.c:3741-3960)
   at line level.  A file is the list of its data lines (between NAME and ENDATA); names are
   interned to N.  Statuses: Lo '0', Ba '1', Up '2', Fr '3' (columns only).

   write: walk the rows; every non-basic row is paired with the next basic column
          (" XL col row" if the row is at lower, " XU col row" otherwise); then " UL col" for
          every column at upper.  Fails when the basic columns run out.
   read:  start from all columns at lower / all rows basic; XL/XU make the column basic and put
          the row at lower/upper; LL/UL put a column at lower/upper; unknown names fail; finally a
          column still at lower whose bounds are both infinite becomes free. *)
From Coq Require Import List NArith Bool Arith Lia.
Import ListNotations.

Inductive st := Lo | Ba | Up | Fr.
Inductive line := XU (c r : N) | XL (c r : N) | UL (c : N) | LL (c : N).

Definition is_ba (s : st) : bool := match s with Ba => true | _ => false end.
Definition is_up (s : st) : bool := match s with Up => true | _ => false end.

Notation col := (N * st * bool)%type.          (* name, status, both bounds infinite *)
Notation row := (N * st)%type.
Definition cname (c : col) : N := fst (fst c).
Definition cstat (c : col) : st := snd (fst c).
Definition cfree (c : col) : bool := snd c.

Definition basic_names (cols : list col) : list N := map cname (filter (fun c => is_ba (cstat c)) cols).
Definition upper_names (cols : list col) : list N := map cname (filter (fun c => is_up (cstat c)) cols).

Fixpoint pair_lines (rows : list row) (bc : list N) : option (list line) :=
  match rows with
  | [] => Some []
  | (r, s) :: rows' =>
    if is_ba s then pair_lines rows' bc
    else match bc with
         | [] => None                                 (* "No basic column to match non-basic row" *)
         | c :: bc' =>
           match pair_lines rows' bc' with
           | Some L => Some ((match s with Lo => XL c r | _ => XU c r end) :: L)
           | None => None
           end
         end
  end.

Definition write_basis (cols : list col) (rows : list row) : option (list line) :=
  match pair_lines rows (basic_names cols) with
  | Some L => Some (L ++ map UL (upper_names cols))
  | None => None
  end.

Definition upd (f : N -> st) (k : N) (v : st) : N -> st := fun x => if N.eqb x k then v else f x.
Definition memb (x : N) (l : list N) : bool := existsb (N.eqb x) l.

Fixpoint read_lines (cn rn : list N) (ls : list line) (cf rf : N -> st) : option ((N -> st) * (N -> st)) :=
  match ls with
  | [] => Some (cf, rf)
  | XL c r :: t => if memb c cn && memb r rn then read_lines cn rn t (upd cf c Ba) (upd rf r Lo) else None
  | XU c r :: t => if memb c cn && memb r rn then read_lines cn rn t (upd cf c Ba) (upd rf r Up) else None
  | UL c :: t => if memb c cn then read_lines cn rn t (upd cf c Up) rf else None
  | LL c :: t => if memb c cn then read_lines cn rn t (upd cf c Lo) rf else None
  end.

Definition fix_free (fr : bool) (s : st) : st := if fr then match s with Lo => Fr | _ => s end else s.

(* cols' statuses are ignored by the reader: only names and the free flags of the problem matter *)
Definition read_basis (cols : list col) (rn : list N) (ls : list line) : option (list st * list st) :=
  match read_lines (map cname cols) rn ls (fun _ => Lo) (fun _ => Ba) with
  | Some (cf, rf) => Some (map (fun c => fix_free (cfree c) (cf (cname c))) cols, map rf rn)
  | None => None
  end.

(* ---- validity ------------------------------------------------------------------ *)

Definition nonbasic_count (rows : list row) : nat := length (filter (fun r => negb (is_ba (snd r))) rows).
Definition basic_count_rows (rows : list row) : nat := length (filter (fun r => is_ba (snd r)) rows).

Definition valid_basis (cols : list col) (rows : list row) : Prop :=
  NoDup (map cname cols) /\ NoDup (map fst rows) /\
  length (basic_names cols) + basic_count_rows rows = length rows /\       (* as many basic variables as rows *)
  Forall (fun r => snd r <> Fr) rows.

Lemma count_split (rows : list row) : nonbasic_count rows + basic_count_rows rows = length rows.
Proof.
  unfold nonbasic_count, basic_count_rows. induction rows as [|[r s] t IH]; simpl; [reflexivity|].
  destruct (is_ba s); simpl; lia.
Qed.

Theorem pairing_counts cols rows :
  valid_basis cols rows -> length (basic_names cols) = nonbasic_count rows.
Proof. intros (_ & _ & H & _). pose proof (count_split rows). lia. Qed.

(* what comes back: free columns at lower are reported free, free-marked columns that are not free come back at lower *)
Definition norm (c : col) : st :=
  match cstat c with
  | Lo | Fr => if cfree c then Fr else Lo
  | s => s
  end.

(* ---- proofs -------------------------------------------------------------------- *)

Lemma memb_in x l : In x l -> memb x l = true.
Proof. intros H. unfold memb. apply existsb_exists. exists x. split; [exact H | apply N.eqb_refl]. Qed.

Lemma upd_same f k v : upd f k v k = v.
Proof. unfold upd. now rewrite N.eqb_refl. Qed.
Lemma upd_other f k v x : x <> k -> upd f k v x = f x.
Proof. unfold upd. intros H. destruct (N.eqb_spec x k); [contradiction|reflexivity]. Qed.

Lemma in_firstn {A} (x : A) : forall k l, In x (firstn k l) -> In x l.
Proof.
  induction k as [|k IH]; intros l H; simpl in H; [contradiction|].
  destruct l as [|a l]; [contradiction|]. destruct H as [H|H]; [now left | right; auto].
Qed.

Lemma pair_read cn rn : forall rows bc L cf rf,
  pair_lines rows bc = Some L -> NoDup (map fst rows) -> NoDup bc -> incl bc cn -> incl (map fst rows) rn ->
  Forall (fun r => snd r <> Fr) rows ->
  exists cf' rf', read_lines cn rn L cf rf = Some (cf', rf') /\
    (forall r s, In (r, s) rows -> s <> Ba -> rf' r = s) /\
    (forall x, (forall s, In (x, s) rows -> s = Ba) -> rf' x = rf x) /\
    (forall c, In c (firstn (nonbasic_count rows) bc) -> cf' c = Ba) /\
    (forall x, ~ In x (firstn (nonbasic_count rows) bc) -> cf' x = cf x).
Proof.
  induction rows as [|[r s] rows IH]; intros bc L cf rf PL ND NB IC IR NF.
  - simpl in PL. inversion PL; subst. exists cf, rf. simpl. repeat split; try tauto; intros; contradiction.
  - simpl in PL. simpl in ND. inversion ND as [|? ? NI ND']; subst. inversion NF as [|? ? NF1 NF']; subst. simpl in NF1.
    assert (IR' : incl (map fst rows) rn) by (intros x Hx; apply IR; now right).
    destruct (is_ba s) eqn:EB.
    + destruct s; try discriminate.
      destruct (IH bc L cf rf PL ND' NB IC IR' NF') as (cf' & rf' & R & A1 & A2 & A3 & A4).
      exists cf', rf'. split; [exact R|].
      change (nonbasic_count ((r, Ba) :: rows)) with (nonbasic_count rows).
      repeat split; try assumption.
      * intros r0 s0 [E|I] NE; [inversion E; subst; congruence | eauto].
      * intros x Hx. apply A2. intros s0 I. apply Hx. now right.
    + destruct bc as [|c bc']; [discriminate|].
      destruct (pair_lines rows bc') as [L'|] eqn:PL'; [|discriminate]. inversion PL; subst L. clear PL.
      inversion NB as [|? ? NC NB']; subst.
      assert (IC' : incl bc' cn) by (intros x Hx; apply IC; now right).
      assert (Mc : memb c cn = true) by (apply memb_in, IC; now left).
      assert (Mr : memb r rn = true) by (apply memb_in, IR; now left).
      set (s' := match s with Lo => Lo | _ => Up end).
      assert (Es : s' = s) by (destruct s; try reflexivity; [discriminate | congruence]).
      destruct (IH bc' L' (upd cf c Ba) (upd rf r s') PL' ND' NB' IC' IR' NF') as (cf' & rf' & R & A1 & A2 & A3 & A4).
      exists cf', rf'. split.
      { destruct s; simpl; rewrite Mc, Mr; simpl; try exact R; discriminate. }
      assert (K : nonbasic_count ((r, s) :: rows) = S (nonbasic_count rows)).
      { unfold nonbasic_count. simpl. rewrite EB. reflexivity. }
      repeat split.
      * intros r0 s0 [E|I] NE; [|eauto]. inversion E; subst r0 s0.
        rewrite A2; [rewrite upd_same; exact Es|].
        intros s0 I. exfalso. apply NI. change r with (fst (r, s0)). now apply in_map.
      * intros x Hx. rewrite A2; [|intros s0 I; apply Hx; now right].
        apply upd_other. intros E. subst x. specialize (Hx s (or_introl eq_refl)). rewrite Hx in EB. discriminate.
      * intros c0 I0. rewrite K in I0. simpl in I0. destruct I0 as [E|I]; [|eauto]. subst c0. rewrite A4; [apply upd_same|].
        intros I. apply NC. exact (in_firstn _ _ _ I).
      * intros x Hx. rewrite K in Hx. simpl in Hx. rewrite A4; [|intros I; apply Hx; now right].
        apply upd_other. intros E. subst x. apply Hx. now left.
Qed.

Lemma ul_read cn rn : forall us cf rf, incl us cn ->
  exists cf', read_lines cn rn (map UL us) cf rf = Some (cf', rf) /\
    (forall c, In c us -> cf' c = Up) /\ (forall x, ~ In x us -> cf' x = cf x).
Proof.
  induction us as [|u us IH]; intros cf rf IC; simpl.
  - exists cf. repeat split; intros; tauto.
  - rewrite (memb_in u cn (IC u (or_introl eq_refl))).
    destruct (IH (upd cf u Up) rf (fun x Hx => IC x (or_intror Hx))) as (cf' & R & A1 & A2).
    exists cf'. split; [exact R|]. split.
    + intros c [E|I]; [|auto]. subst c. destruct (in_dec N.eq_dec u us) as [I|NI]; [auto|].
      rewrite A2 by exact NI. apply upd_same.
    + intros x Hx. rewrite A2 by tauto. apply upd_other. intros E. subst. apply Hx. now left.
Qed.

Lemma read_lines_app cn rn : forall l1 l2 cf rf cf1 rf1,
  read_lines cn rn l1 cf rf = Some (cf1, rf1) ->
  read_lines cn rn (l1 ++ l2) cf rf = read_lines cn rn l2 cf1 rf1.
Proof.
  induction l1 as [|a l1 IH]; intros l2 cf rf cf1 rf1 H; simpl in *.
  - inversion H; subst. reflexivity.
  - destruct a; simpl;
      repeat match goal with |- context [if ?b then _ else _] => destruct b eqn:?; try discriminate end;
      try (apply IH; assumption); discriminate.
Qed.

Lemma nodup_status (cols : list col) : NoDup (map cname cols) ->
  forall c c', In c cols -> In c' cols -> cname c = cname c' -> c = c'.
Proof.
  induction cols as [|a cols IH]; intros ND c c' I I' E; [destruct I|].
  simpl in ND. inversion ND as [|? ? NI ND']; subst.
  destruct I as [I|I], I' as [I'|I']; subst; auto.
  - exfalso. apply NI. rewrite E. now apply in_map.
  - exfalso. apply NI. rewrite <- E. now apply in_map.
Qed.

Lemma NoDup_map_filter {A B} (f : A -> B) (p : A -> bool) l : NoDup (map f l) -> NoDup (map f (filter p l)).
Proof.
  induction l as [|a l IH]; simpl; intros H; [constructor|]. inversion H as [|? ? NI ND]; subst.
  destruct (p a); simpl; [constructor|]; auto.
  intros I. apply NI. apply in_map_iff in I. destruct I as (x & E & I). apply filter_In in I. destruct I as [I _].
  rewrite <- E. now apply in_map.
Qed.

Theorem basis_roundtrip cols rows :
  valid_basis cols rows ->
  exists L, write_basis cols rows = Some L /\
            read_basis cols (map fst rows) L = Some (map norm cols, map snd rows).
Proof.
  intros V. pose proof (pairing_counts cols rows V) as PC. destruct V as (NDc & NDr & _ & NF).
  unfold write_basis.
  assert (PL : exists L, pair_lines rows (basic_names cols) = Some L).
  { assert (G : forall rows bc, nonbasic_count rows <= length bc -> exists L, pair_lines rows bc = Some L).
    { clear. induction rows as [|[r s] rows IH]; intros bc H; simpl; [now exists []|].
      unfold nonbasic_count in H. simpl in H. destruct (is_ba s); simpl in H; [apply IH; exact H|].
      destruct bc as [|c bc]; [simpl in H; lia|]. destruct (IH bc) as (L & E); [simpl in H; unfold nonbasic_count; lia|].
      rewrite E. eexists. reflexivity. }
    apply G. lia. }
  destruct PL as (L & PL). rewrite PL. eexists. split; [reflexivity|].
  unfold read_basis.
  assert (NDb : NoDup (basic_names cols)) by (apply NoDup_map_filter, NDc).
  assert (ICb : incl (basic_names cols) (map cname cols)).
  { intros x Hx. unfold basic_names in Hx. apply in_map_iff in Hx. destruct Hx as (c & E & I). apply filter_In in I. rewrite <- E. apply in_map, I. }
  assert (ICu : incl (upper_names cols) (map cname cols)).
  { intros x Hx. unfold upper_names in Hx. apply in_map_iff in Hx. destruct Hx as (c & E & I). apply filter_In in I. rewrite <- E. apply in_map, I. }
  destruct (pair_read (map cname cols) (map fst rows) rows (basic_names cols) L (fun _ => Lo) (fun _ => Ba) PL NDr NDb ICb (incl_refl _) NF)
    as (cf1 & rf1 & R1 & A1 & A2 & A3 & A4).
  destruct (ul_read (map cname cols) (map fst rows) (upper_names cols) cf1 rf1 ICu) as (cf2 & R2 & B1 & B2).
  rewrite (read_lines_app _ _ _ _ _ _ _ _ R1), R2.
  rewrite <- PC, firstn_all in A3, A4.
  f_equal. f_equal.
  - (* columns *)
    apply map_ext_in. intros c Ic.
    assert (ST : forall c', In c' cols -> cname c' = cname c -> cstat c' = cstat c).
    { intros c' I' E. now rewrite (nodup_status cols NDc c' c I' Ic E). }
    unfold norm. destruct (cstat c) eqn:S.
    + (* at lower *)
      rewrite B2, A4.
      * unfold fix_free. destruct (cfree c); reflexivity.
      * intros I. unfold basic_names in I. apply in_map_iff in I. destruct I as (c' & E & I). apply filter_In in I. destruct I as [I Hb].
        rewrite (ST c' I E) in Hb. discriminate.
      * intros I. unfold upper_names in I. apply in_map_iff in I. destruct I as (c' & E & I). apply filter_In in I. destruct I as [I Hb].
        rewrite (ST c' I E) in Hb. discriminate.
    + (* basic *)
      rewrite B2, A3.
      * unfold fix_free. destruct (cfree c); reflexivity.
      * unfold basic_names. apply in_map, filter_In. split; [exact Ic | now rewrite S].
      * intros I. unfold upper_names in I. apply in_map_iff in I. destruct I as (c' & E & I). apply filter_In in I. destruct I as [I Hb].
        rewrite (ST c' I E) in Hb. discriminate.
    + (* at upper *)
      rewrite B1.
      * unfold fix_free. destruct (cfree c); reflexivity.
      * unfold upper_names. apply in_map, filter_In. split; [exact Ic | now rewrite S].
    + (* marked free *)
      rewrite B2, A4.
      * unfold fix_free. destruct (cfree c); reflexivity.
      * intros I. unfold basic_names in I. apply in_map_iff in I. destruct I as (c' & E & I). apply filter_In in I. destruct I as [I Hb].
        rewrite (ST c' I E) in Hb. discriminate.
      * intros I. unfold upper_names in I. apply in_map_iff in I. destruct I as (c' & E & I). apply filter_In in I. destruct I as [I Hb].
        rewrite (ST c' I E) in Hb. discriminate.
  - (* rows *)
    rewrite map_map. apply map_ext_in. intros [r s] Ir. simpl.
    destruct (is_ba s) eqn:EB.
    + destruct s; try discriminate. rewrite A2; [reflexivity|].
      intros s0 I0. assert (E : (r, s0) = (r, Ba)).
      { clear - NDr I0 Ir. induction rows as [|a rows IH]; [destruct Ir|]. simpl in NDr. inversion NDr as [|? ? NI ND]; subst.
        destruct I0 as [I0|I0], Ir as [Ir|Ir]; subst; auto; try congruence.
        - exfalso. apply NI. apply in_map_iff. exists (r, Ba). split; [reflexivity|assumption].
        - exfalso. apply NI. apply in_map_iff. exists (r, s0). split; [reflexivity|assumption]. }
      now inversion E.
    + apply A1; [exact Ir|]. intros E. subst s. discriminate.
Qed.

(* ---- the consequences named in the property ------------------------------------------ *)

Corollary same_basic_set cols : forall c, In c cols -> (norm c = Ba <-> cstat c = Ba).
Proof. intros c _. unfold norm. destruct (cstat c), (cfree c); split; congruence. Qed.

Corollary same_at_upper cols : forall c, In c cols -> (norm c = Up <-> cstat c = Up).
Proof. intros c _. unfold norm. destruct (cstat c), (cfree c); split; congruence. Qed.

Corollary differences_only_nonbasic_free c :
  norm c <> cstat c -> (cstat c = Lo /\ cfree c = true) \/ (cstat c = Fr /\ cfree c = false).
Proof. unfold norm. destruct (cstat c), (cfree c); intros H; try congruence; auto. Qed.

Example roundtrip_example :
  let cols := [(1%N, Ba, false); (2%N, Up, false); (3%N, Lo, true); (4%N, Ba, false)] in
  let rows := [(10%N, Up); (11%N, Ba); (12%N, Lo)] in
  write_basis cols rows = Some [XU 1 10; XL 4 12; UL 2] /\
  read_basis cols [10%N; 11%N; 12%N] [XU 1 10; XL 4 12; UL 2] = Some ([Ba; Up; Fr; Ba], [Up; Ba; Lo]).
Proof. vm_compute. split; reflexivity. Qed.

(* writing fails exactly when the basic columns run out (the C code logs "No basic column to match") *)
Example write_fails_example : write_basis [(1%N, Lo, false)] [(10%N, Lo)] = None.
Proof. reflexivity. Qed.

(* ---- the wrapper mpq_QSwrite_basis (qsopt.c:1836-1874) and the problem's own basis ---------------
   With B = NULL the wrapper writes p->basis and then, at CLEANUP, calls ILLlp_basis_free on the very
   basis it was asked to write: the arrays of p->basis are released (the struct stays, with
   nstruct = nrows = 0).  [fixed = true] models the wrapper freeing only its private copy. *)
Inductive pbasis := NoBasis | HasBasis (c r : list st) | EmptiedBasis.

Definition qs_write_basis (fixed : bool) (own : pbasis) (arg : option (list st * list st)) (file_ok : bool) : pbasis * bool :=
  match arg with
  | Some _ => (own, file_ok)                             (* a caller's basis is converted to a private copy, freed afterwards *)
  | None =>
    match own with
    | HasBasis c r => (if fixed then own else EmptiedBasis, file_ok)
    | _ => (own, false)                                  (* "no basis available" *)
    end
  end.

Theorem write_own_basis_keeps_it_refuted :
  exists own, snd (qs_write_basis false own None true) = true /\ fst (qs_write_basis false own None true) <> own.
Proof. exists (HasBasis [Ba] [Lo]). simpl. split; [reflexivity | discriminate]. Qed.

Theorem write_own_basis_keeps_it_fixed own arg ok : fst (qs_write_basis true own arg ok) = own.
Proof. destruct arg, own; reflexivity. Qed.

Theorem write_callers_basis_keeps_own fixed own B ok : fst (qs_write_basis fixed own (Some B) ok) = own.
Proof. reflexivity. Qed.
