(* IO/LpWrite.v -- the LP writer ILLwrite_lp (qsopt_ex/lp.c: write_objective, write_the_expr, write_row,
   write_bounds, write_intvars; qsopt_ex/write_lp.c: the line buffer ILLwrite_lp_state_xxx) as a function from a
   problem by name - after name repair (fix_names) - to the list of lines it prints.

   The line buffer of the C code is the text itself ([line->total] = its length, [startlen] = length of the
   saved start, ILLwrite_lp_state_start = that many blanks).  The expression writers are split in two steps:
   * [row_items] / [obj_items] decide, term by term, where the C code wraps the line (LINE_LEN = 256 tested
     before a term in rows, after a term and only with >= 4 terms on the line in the objective) and where it
     puts the look-ahead "+" - the result is a list of [item]s;
   * [layout] turns items into lines.
   Reading is proved for every well-formed item list (IO/LpRoundtrip.v), i.e. for arbitrary wrapping points.

   Numbers: ILLwrite_lp_state_append_number prints "inf " / "-inf " for the sentinel +-M, else mpq_get_str. *)
From Coq Require Import QArith List Ascii String Bool Arith Lia.
From QSX Require Import Base.QSum LP.User IO.Num IO.Bounds IO.Equiv.
Import ListNotations.
Local Open Scope Q_scope.

Definition name := list ascii.
Definition line := list ascii.
Definition s2l (s : string) : list ascii := list_ascii_of_string s.

Record lcol := { lc_name : name; lc_obj : Q; lc_lo : Q; lc_up : Q; lc_int : bool }.
Record lrow := { lr_name : name; lr_sense : sense; lr_rhs : Q; lr_range : Q; lr_ent : list (name * Q) }.
(* l_intmarker: lp->intmarker != NULL (the "Integer" header is printed even when no column is marked) *)
Record llp := { l_probname : option name; l_max : bool; l_objname : name; l_intmarker : bool;
                l_cols : list lcol; l_rows : list lrow }.

Fixpoint leqb (a b : list ascii) : bool :=
  match a, b with
  | [], [] => true
  | x :: a', y :: b' => Ascii.eqb x y && leqb a' b'
  | _, _ => false
  end.

Lemma leqb_spec a b : reflect (a = b) (leqb a b).
Proof.
  revert b. induction a as [|x a IH]; intros [|y b]; simpl; try (constructor; congruence).
  destruct (Ascii.eqb_spec x y) as [E|E]; simpl.
  - destruct (IH b) as [E'|E']; constructor; congruence.
  - constructor; congruence.
Qed.
Lemma leqb_refl a : leqb a a = true.
Proof. destruct (leqb_spec a a); congruence. Qed.

Definition LINE_LEN : nat := 256.
Definition blanks (n : nat) : line := repeat " "%char n.

(* coefficient of a column in a row given by name (entries of one name add up, as in IO/Equiv.coefN) *)
Definition coefS (e : list (name * Q)) (nm : name) : Q :=
  fold_right (fun p a => (if leqb (fst p) nm then snd p else 0) + a) 0 e.

Section Writer.
  Variable M : Q.

  Definition print_val (v : Q) : list ascii :=
    if Qeq_bool v M then s2l "inf " else if Qeq_bool v (- M) then s2l "-inf " else print_num v.

  (* ILLwrite_lp_state_append_coef (line, v, cnt): cnt0 <-> cnt = 0 *)
  Definition coef_text (v : Q) (cnt0 : bool) : list ascii :=
    let neg := Qltb v 0 in
    let a := if neg then - v else v in
    (if neg then s2l " - " else if cnt0 then s2l " " else s2l " + ") ++
    (if Qeq_bool a 1 then [] else print_val a).
  Definition term_text (v : Q) (cnt0 : bool) (nm : name) : list ascii := coef_text v cnt0 ++ " "%char :: nm.

  Inductive item :=
  | ITerm (cnt0 : bool) (c : Q) (nm : name)   (* append_coef; " "; name *)
  | IPlus                                     (* append " +" *)
  | IBreak (n : nat).                         (* print the line; start again with n blanks *)

  (* lines completed + the line under construction *)
  Fixpoint layout (cur : line) (its : list item) : list line * line :=
    match its with
    | [] => ([], cur)
    | ITerm f c nm :: r => layout (cur ++ term_text c f nm) r
    | IPlus :: r => layout (cur ++ s2l " +") r
    | IBreak n :: r => let (ls, c') := layout (blanks n) r in (cur :: ls, c')
    end.

  (* write_the_expr: terms = the non-zero coefficients of the row in column order *)
  Fixpoint row_items (startlen : nat) (terms : list (Q * name)) (total : nat) (var0 firstVar : bool) : list item :=
    match terms with
    | [] => []
    | (c, nm) :: r =>
      if (LINE_LEN <=? total)%nat then
        let plus := negb firstVar && negb (Qltb c 0) in
        let total1 := (startlen + (if plus then 2 else 0))%nat in
        IBreak startlen :: (if plus then [IPlus] else []) ++
        ITerm true c nm :: row_items startlen r (total1 + List.length (term_text c true nm)) false false
      else
        ITerm var0 c nm :: row_items startlen r (total + List.length (term_text c var0 nm)) false false
    end.

  (* write_objective: after a term, with >= 4 terms on the line and >= LINE_LEN characters, look ahead for the
     sign of the next non-zero coefficient, append " +" if it is positive, print the line.  When no term follows
     the C code prints the line and starts a new one that is never printed ("var > 0 || !printed"): here the
     line simply stays the current one *)
  Fixpoint obj_items (startlen : nat) (terms : list (Q * name)) (total var : nat) : list item :=
    match terms with
    | [] => []
    | (c, nm) :: r =>
      let f := (var =? 0)%nat in
      let total' := (total + List.length (term_text c f nm))%nat in
      if ((LINE_LEN <=? total') && (4 <=? S var))%nat then
        match r with
        | [] => [ITerm f c nm]
        | (c2, _) :: _ =>
          ITerm f c nm :: (if Qltb c2 0 then [] else [IPlus]) ++ IBreak startlen :: obj_items startlen r startlen 0
        end
      else ITerm f c nm :: obj_items startlen r total' (S var)
    end.

  Definition nonzero_terms (cols : list name) (coef : name -> Q) : list (Q * name) :=
    flat_map (fun nm => if Qeq_bool (coef nm) 0 then [] else [(coef nm, nm)]) cols.

  Definition obj_lines (objname : name) (cols : list lcol) : list line :=
    let hdr := " "%char :: objname ++ s2l ": " in
    let terms := flat_map (fun c => if Qeq_bool (lc_obj c) 0 then [] else [(lc_obj c, lc_name c)]) cols in
    let '(ls, cur) := layout hdr (obj_items (List.length hdr) terms (List.length hdr) 0) in
    ls ++ [cur].

  Definition row_terms (cols : list name) (r : lrow) : list (Q * name) := nonzero_terms cols (coefS (lr_ent r)).

  Definition expr_layout (hdr : line) (terms : list (Q * name)) : list line * line :=
    layout hdr (row_items (List.length hdr) terms (List.length hdr) true true).

  Definition range_comment (lo ub : Q) : list ascii :=
    " "%char :: "009"%char :: s2l "\ RANGE (" ++ print_val lo ++ s2l ", " ++ print_val ub ++ s2l ")".

  Definition row_lines (cols : list name) (r : lrow) : list line :=
    let terms := row_terms cols r in
    let '(ls, cur) := expr_layout (" "%char :: lr_name r ++ s2l ": ") terms in
    match lr_sense r with
    | SG => ls ++ [cur ++ s2l " >= " ++ print_val (lr_rhs r)]
    | SL => ls ++ [cur ++ s2l " <= " ++ print_val (lr_rhs r)]
    | SE => ls ++ [cur ++ s2l " = " ++ print_val (lr_rhs r)]
    | SR =>
      let ub := lr_rhs r + lr_range r in
      let '(ls2, cur2) := expr_layout (s2l "   ") terms in
      ls ++ [cur ++ s2l " >= " ++ print_val (lr_rhs r) ++ range_comment (lr_rhs r) ub] ++
      ls2 ++ [cur2 ++ s2l " <= " ++ print_val ub]
    end.

  (* rows with rowcnt = 0 are not written *)
  Definition row_written (r : lrow) : bool := match lr_ent r with [] => false | _ => true end.

  (* write_bounds: the line of one statement (the saved start is " ") *)
  Definition stmt_line (nm : name) (b : bstmt) : line :=
    match b with
    | BFix v => s2l "  " ++ nm ++ s2l " = " ++ print_val v
    | BFreeS => " "%char :: nm ++ s2l " free"
    | BLo l => " "%char :: print_val l ++ s2l " <= " ++ nm
    | BUp u => " "%char :: nm ++ s2l " <= " ++ print_val u
    | BLoUp l u => " "%char :: print_val l ++ s2l " <= " ++ nm ++ s2l " <= " ++ print_val u
    end.
  Definition bound_lines (c : lcol) : list line :=
    map (stmt_line (lc_name c)) (encode_bounds M (lc_lo c) (lc_up c) (lc_int c)).
  Definition bounds_section (cols : list lcol) : list line :=
    match flat_map bound_lines cols with
    | [] => []
    | ls => s2l "Bounds" :: ls
    end.

  (* write_intvars: var <-> "var > 0" *)
  Fixpoint int_lines (names : list name) (cur : line) (var : bool) : list line :=
    match names with
    | [] => if var then [cur] else []
    | nm :: r =>
      let cur' := cur ++ (if var then [" "%char] else []) ++ nm in
      if (LINE_LEN <=? List.length cur')%nat then cur' :: int_lines r [" "%char] false else int_lines r cur' true
    end.
  Definition int_section (P : llp) : list line :=
    if l_intmarker P
    then s2l "Integer" :: int_lines (map lc_name (filter lc_int (l_cols P))) [" "%char] false
    else [].

  Definition write_lp (P : llp) : list line :=
    let cn := map lc_name (l_cols P) in
    (match l_probname P with Some n => [s2l "Problem"; " "%char :: n] | None => [] end) ++
    [if l_max P then s2l "Maximize" else s2l "Minimize"] ++
    obj_lines (l_objname P) (l_cols P) ++
    [s2l "Subject To"] ++
    flat_map (row_lines cn) (filter row_written (l_rows P)) ++
    bounds_section (l_cols P) ++
    int_section P ++
    [s2l "End"].

  (* the bytes of the file: every line is printed with "%s\n" *)
  Definition file_bytes (ls : list line) : list ascii := flat_map (fun l => l ++ ["010"%char]) ls.
End Writer.

(* ---- names as numbers: the problems by name of IO/Equiv.v ------------------------------------------- *)
(* base-256 numeral with a leading 1: injective (N_of_name_inj in IO/LpRoundtrip.v) *)
Definition N_of_name (s : name) : N := fold_left (fun acc c => (acc * 256 + N_of_ascii c)%N) s 1%N.
Definition to_ncol (c : lcol) : ncol :=
  {| nc_name := N_of_name (lc_name c); nc_obj := lc_obj c; nc_lo := lc_lo c; nc_up := lc_up c; nc_int := lc_int c |}.
Definition to_nrow (r : lrow) : nrow :=
  {| nr_name := N_of_name (lr_name r); nr_sense := lr_sense r; nr_rhs := lr_rhs r; nr_range := lr_range r;
     nr_ent := map (fun e => (N_of_name (fst e), snd e)) (lr_ent r) |}.
Definition to_nlp (P : llp) : nlp :=
  {| n_max := l_max P; n_cols := map to_ncol (l_cols P); n_rows := map to_nrow (l_rows P) |}.

Example write_lp_example :
  let c1 := {| lc_name := s2l "x"; lc_obj := 3; lc_lo := 0; lc_up := 1000; lc_int := false |} in
  let c2 := {| lc_name := s2l "end"; lc_obj := - (1 # 2); lc_lo := -1000; lc_up := 4; lc_int := true |} in
  let r1 := {| lr_name := s2l "c1"; lr_sense := SR; lr_rhs := 1; lr_range := 2; lr_ent := [(s2l "x", 1); (s2l "end", -2 # 3)] |} in
  let P := {| l_probname := Some (s2l "p"); l_max := true; l_objname := s2l "obj"; l_intmarker := true; l_cols := [c1; c2]; l_rows := [r1] |} in
  map string_of_list_ascii (write_lp 1000 P) =
  ["Problem"; " p"; "Maximize"; " obj:  3 x - 1/2 end"; "Subject To";
   " c1:   x - 2/3 end >= 1 " ++ String "009" "\ RANGE (1, 3)"; "     x - 2/3 end <= 3";
   "Bounds"; " -inf  <= end <= 4"; "Integer"; " end"; "End"]%string.
Proof. vm_compute. reflexivity. Qed.
