(* IO/MpsTok.v -- the MPS tokenizer of IO/MpsRead.v on known text: first two layers of the MPS round-trip proof.
   Layer 1 (fields): on a line made of blank-separated words ILLmps_next_line / ILLmps_next_field deliver the words,
     get_double / ILLmps_next_bound deliver the rational print_num spelled, the marker test finds 'MARKER' exactly
     where a word contains it.
   Layer 2 (records): one ROWS / COLUMNS / MARKER / RHS / RANGES / BOUNDS record as the writer lays it out has the
     effect [*_effect] on the raw problem. *)
From Coq Require Import QArith List Ascii String Bool Arith NArith Lia Lqa.
From QSX Require Import Base.QSum LP.User IO.Num IO.NumSound IO.Bounds IO.Ranges IO.Lex IO.Equiv IO.LpWrite IO.LpRead IO.LpTok IO.MpsWrite IO.MpsRead.
Import ListNotations.
Local Open Scope Q_scope.

(* ---- characters and words --------------------------------------------------------------------------------------- *)
Definition wchar (c : ascii) : bool := negb (is_space c) && negb (Ascii.eqb c "000").
Definition word (w : name) : Prop := w <> [] /\ forallb wchar w = true.
Definition wordb (w : name) : bool := negb (is_nil w) && forallb wchar w.
(* end of word: the end of the line or a blank *)
Definition eow (rest : list ascii) : Prop := match rest with [] => True | c :: _ => is_blank c = true end.
Definition mcleanc (c : ascii) : bool := negb (Ascii.eqb c "010" || Ascii.eqb c "000").
Definition mclean (l : list ascii) : Prop := forallb mcleanc l = true.
Definition noquote (l : list ascii) : Prop := forallb (fun c => negb (Ascii.eqb c "'")) l = true.

Lemma wordb_sound w : wordb w = true -> word w.
Proof. unfold wordb, word. intros H. apply andb_true_iff in H as [A B]. split; [|exact B]. destruct w; [discriminate|congruence]. Qed.

Lemma blank_facts c : is_blank c = true -> is_space c = true /\ mcleanc c = true /\ number_char c = false /\ c <> "'"%char /\ c <> "$"%char.
Proof. all_ascii c; vm_compute; intros H; try discriminate H; repeat split; discriminate. Qed.

Lemma wchar_facts c : wchar c = true -> is_space c = false /\ is_blank c = false /\ mcleanc c = true.
Proof. all_ascii c; vm_compute; intros H; try discriminate H; repeat split. Qed.

Lemma numchar_facts c : numchar c = true ->
  wchar c = true /\ c <> "'"%char /\ c <> "$"%char /\ c <> "+"%char /\ Ascii.eqb (to_lower "I") (to_lower c) = false.
Proof. all_ascii c; vm_compute; intros H; try discriminate H; repeat split; discriminate. Qed.

Lemma mclean_app a b : mclean a -> mclean b -> mclean (a ++ b).
Proof. unfold mclean. intros. now rewrite forallb_app, H, H0. Qed.
Lemma mclean_app_inv a b : mclean (a ++ b) -> mclean a /\ mclean b.
Proof. unfold mclean. rewrite forallb_app. intros H. now apply andb_true_iff in H. Qed.
Lemma mclean_blank b : all_blank b -> mclean b.
Proof. unfold all_blank, mclean. intros H. apply forallb_forall. intros x IN. rewrite forallb_forall in H. apply blank_facts, H, IN. Qed.
Lemma mclean_word w : word w -> mclean w.
Proof. intros [_ H]. unfold mclean. apply forallb_forall. intros x IN. rewrite forallb_forall in H. apply wchar_facts, H, IN. Qed.
Lemma word_num v : word (print_num v).
Proof.
  split; [apply print_num_nonempty|]. apply forallb_forall. intros x IN. pose proof (print_num_numchar v) as H.
  rewrite forallb_forall in H. apply numchar_facts, H, IN.
Qed.
Lemma noquote_num v : noquote (print_num v).
Proof.
  apply forallb_forall. intros x IN. pose proof (print_num_numchar v) as H. rewrite forallb_forall in H.
  destruct (numchar_facts x (H x IN)) as (_ & Q & _). apply negb_true_iff. destruct (Ascii.eqb_spec x "'"); congruence.
Qed.
Lemma noquote_app a b : noquote a -> noquote b -> noquote (a ++ b).
Proof. unfold noquote. intros. now rewrite forallb_app, H, H0. Qed.
Lemma noquote_blank b : all_blank b -> noquote b.
Proof.
  unfold all_blank, noquote. intros H. apply forallb_forall. intros x IN. rewrite forallb_forall in H.
  destruct (blank_facts x (H x IN)) as (_ & _ & _ & Q & _). apply negb_true_iff. destruct (Ascii.eqb_spec x "'"); congruence.
Qed.

Lemma mcut_clean l : mclean l -> mcut l = l.
Proof.
  unfold mclean. induction l as [|c l IH]; cbn [mcut forallb]; intros H; [reflexivity|].
  apply andb_true_iff in H as [A B]. unfold mcleanc in A. apply negb_true_iff in A. rewrite A, (IH B). reflexivity.
Qed.

Lemma all_blank_cons x b : is_blank x = true -> all_blank b -> all_blank (x :: b).
Proof. unfold all_blank. cbn. intros -> ->. reflexivity. Qed.

Lemma skip_blanks_app b r : all_blank b -> Lex.skip_blanks (b ++ r) = Lex.skip_blanks r.
Proof. unfold all_blank. induction b as [|x b IH]; cbn; intros H; [reflexivity|]. apply andb_true_iff in H as [A B]. rewrite A. auto. Qed.
Lemma skip_blanks_stop x r : is_blank x = false -> Lex.skip_blanks (x :: r) = x :: r.
Proof. cbn. intros ->. reflexivity. Qed.
Lemma skip_space_app b r : all_blank b -> skip_space (b ++ r) = skip_space r.
Proof.
  unfold all_blank. induction b as [|x b IH]; cbn [app forallb skip_space]; intros H; [reflexivity|]. apply andb_true_iff in H as [A B].
  destruct (blank_facts x A) as (S & _). rewrite S. auto.
Qed.
Lemma take_word_word w rest : forallb wchar w = true -> eow rest -> take_word (w ++ rest) = (w, rest).
Proof.
  induction w as [|c w IH]; cbn [app forallb]; intros H E.
  - destruct rest as [|x r]; [reflexivity|]. cbn in E. destruct (blank_facts x E) as (S & _). cbn. now rewrite S.
  - apply andb_true_iff in H as [A B]. destruct (wchar_facts c A) as (S & _). cbn [take_word]. rewrite S, (IH B E). reflexivity.
Qed.

Lemma word_head w : word w -> exists x t, w = x :: t /\ wchar x = true /\ forallb wchar t = true.
Proof. intros [NE H]. destruct w as [|x t]; [congruence|]. cbn in H. apply andb_true_iff in H as [A B]. eauto. Qed.

Lemma skip_blanks_word b w rest : all_blank b -> word w -> Lex.skip_blanks (b ++ w ++ rest) = w ++ rest.
Proof.
  intros AB W. rewrite (skip_blanks_app b _ AB). destruct (word_head w W) as (x & t & -> & A & _).
  destruct (wchar_facts x A) as (_ & NB & _). cbn [app]. now apply skip_blanks_stop.
Qed.

Lemma sword_word b w rest : all_blank b -> word w -> eow rest -> sword (b ++ w ++ rest) = w.
Proof.
  intros AB W E. unfold sword. rewrite (skip_space_app b _ AB). destruct (word_head w W) as (x & t & EW & A & B).
  destruct (wchar_facts x A) as (S & _).
  assert (SK : skip_space (w ++ rest) = w ++ rest) by (subst w; cbn [app skip_space]; now rewrite S).
  rewrite SK, (take_word_word w rest (proj2 W) E). reflexivity.
Qed.

Lemma sword_blank b : all_blank b -> sword b = [].
Proof.
  unfold sword, all_blank. induction b as [|x b IH]; cbn [forallb skip_space]; intros H; [reflexivity|]. apply andb_true_iff in H as [A B].
  destruct (blank_facts x A) as (S & _). rewrite S. auto.
Qed.

Lemma skipn_app_len {A} (w r : list A) : skipn (List.length w) (w ++ r) = r.
Proof. induction w; cbn; auto. Qed.

Definition no_dollar (w : name) : Prop := match w with x :: _ => x <> "$"%char | [] => True end.

(* ---- layer 1: fields ---------------------------------------------------------------------------------------------- *)

Lemma skipc_word t b w rest : t_cur t = b ++ w ++ rest -> all_blank b -> word w -> (no_dollar w \/ (t_fnum t < 2)%nat) ->
  skipc t = (tk_cur t (w ++ rest), false).
Proof.
  intros E AB W ND. unfold skipc. rewrite E, (skip_blanks_word b w rest AB W). f_equal.
  destruct (word_head w W) as (x & t0 & -> & _). cbn [app]. destruct ND as [ND|ND].
  - cbn in ND. destruct (Ascii.eqb_spec x "$"); [congruence|reflexivity].
  - destruct (2 <=? t_fnum t)%nat eqn:L; [apply Nat.leb_le in L; lia|]. apply andb_false_r.
Qed.

Theorem mnext_field_word t b w rest : t_cur t = b ++ w ++ rest -> all_blank b -> word w -> eow rest ->
  (no_dollar w \/ (t_fnum t < 2)%nat) ->
  mnext_field t = (mk_tk (tl rest) (t_line t) (t_key t) w (S (t_fnum t)), true).
Proof.
  intros E AB W EW ND. unfold mnext_field.
  rewrite (skipc_word (tk_fld t []) b w rest E AB W ND). cbn [tk_cur t_cur t_line t_key t_fnum tk_fld].
  pose proof (sword_word [] w rest eq_refl W EW) as SW. cbn [app] in SW. rewrite SW.
  destruct w as [|x t0]; [destruct W; congruence|]. cbv beta iota. rewrite skipn_app_len. reflexivity.
Qed.

Lemma mnext_field_end t b : t_cur t = b -> all_blank b -> snd (mnext_field t) = false.
Proof.
  intros E AB. unfold mnext_field, skipc. cbn [tk_fld t_cur t_fnum tk_cur]. rewrite E.
  assert (S0 : Lex.skip_blanks b = []).
  { clear E. unfold all_blank in AB. induction b as [|x b IH]; [reflexivity|]. cbn in *. apply andb_true_iff in AB as [A B]. rewrite A. auto. }
  rewrite S0. cbn. reflexivity.
Qed.

Lemma stops_eow rest : eow rest -> stops rest.
Proof. destruct rest as [|x r]; [intros; exact I|]. cbn. intros H. apply blank_facts, H. Qed.

Theorem get_double_num t b v rest : t_cur t = b ++ print_num v ++ rest -> all_blank b -> stops rest ->
  get_double true t = DVal (mk_tk rest (t_line t) (t_key t) (t_fld t) (S (t_fnum t))) (rr v).
Proof.
  intros E AB ST. unfold get_double.
  assert (ND : no_dollar (print_num v)).
  { destruct (print_num_head v) as (x & t0 & -> & NC). cbn. apply numchar_facts, NC. }
  rewrite (skipc_word t b (print_num v) rest E AB (word_num v) (or_introl ND)). cbn [tk_cur t_cur].
  destruct (rr_spec v rest ST) as [RD _]. rewrite RD.
  destruct (List.length (print_num v)) as [|n] eqn:LN.
  { pose proof (print_num_nonempty v). destruct (print_num v); [congruence|discriminate]. }
  rewrite <- LN, skipn_app_len. reflexivity.
Qed.

(* a name the number scanner does not take anything from *)
Definition numlike (w : name) : bool := match read_num_gen true w with (Val _, O) => false | _ => true end.

Theorem peek_name t b w rest : t_cur t = b ++ w ++ rest -> all_blank b -> word w -> eow rest -> numlike w = false ->
  (no_dollar w \/ (t_fnum t < 2)%nat) ->
  peek_number true t = PkNo (tk_cur t (w ++ rest)).
Proof.
  intros E AB W EW NL ND. unfold peek_number. rewrite (skipc_word t b w rest E AB W ND). cbn [tk_cur t_cur].
  rewrite (read_num_app true w rest (stops_eow rest EW)). unfold numlike in NL.
  destruct (read_num_gen true w) as [[q|f] [|n]]; try discriminate. reflexivity.
Qed.

Definition numhead (c : list ascii) : Prop := match c with [] => True | x :: _ => numchar x = true end.
Lemma iprefix_inf c : numhead c -> iprefix (s2l "INFINITY") c = false /\ iprefix (s2l "INF") c = false.
Proof.
  destruct c as [|x c]; [split; reflexivity|]. cbn [numhead]. intros H.
  destruct (numchar_facts x H) as (_ & _ & _ & _ & L). cbn [s2l list_ascii_of_string iprefix]. rewrite L. split; reflexivity.
Qed.

Theorem next_bound_num M t b v : t_cur t = b ++ print_num v -> all_blank b ->
  next_bound true M t = DVal (mk_tk [] (t_line t) (t_key t) (t_fld t) (S (t_fnum t))) (rr v).
Proof.
  intros E AB. unfold next_bound.
  assert (ND : no_dollar (print_num v)).
  { destruct (print_num_head v) as (x & t0 & -> & NC). cbn. apply numchar_facts, NC. }
  assert (E' : t_cur t = b ++ print_num v ++ []) by (now rewrite app_nil_r).
  rewrite (skipc_word t b (print_num v) [] E' AB (word_num v) (or_introl ND)). rewrite app_nil_r. cbn [tk_cur t_cur].
  pose proof (print_num_numchar v) as NC.
  destruct (print_num v) as [|x r] eqn:EP; [now pose proof (print_num_nonempty v)|].
  cbn [forallb] in NC. apply andb_true_iff in NC as [NX NR].
  assert (PLUS : Ascii.eqb x "+" = false) by (destruct (numchar_facts x NX) as (_ & _ & _ & P & _); destruct (Ascii.eqb_spec x "+"); congruence).
  rewrite PLUS, orb_false_r.
  assert (TAIL : numhead r).
  { destruct r as [|y r']; [exact I|]. cbn in NR. now apply andb_true_iff in NR as [A _]. }
  assert (G : get_double true (tk_cur t (x :: r)) = DVal (mk_tk [] (t_line t) (t_key t) (t_fld t) (S (t_fnum t))) (rr v)).
  { apply (get_double_num (tk_cur t (x :: r)) [] v []); [cbn [tk_cur t_cur app]; now rewrite app_nil_r, EP|reflexivity|exact I]. }
  destruct (Ascii.eqb x "-") eqn:MINUS; cbn [orb skipn].
  - destruct (iprefix_inf r TAIL) as [I1 I2]. rewrite I1, I2. cbn [Nat.ltb Nat.leb]. exact G.
  - destruct (iprefix_inf (x :: r) NX) as [I1 I2]. rewrite I1, I2. cbn [Nat.ltb Nat.leb]. exact G.
Qed.

(* ---- the marker test ------------------------------------------------------------------------------------------------- *)
Lemma hm_noquote l : noquote l -> forall m, has_marker_aux m l = false.
Proof.
  unfold noquote. induction l as [|c l IH]; cbn [forallb has_marker_aux]; intros H m; [reflexivity|].
  apply andb_true_iff in H as [A B]. apply negb_true_iff in A. destruct m; [apply IH, B|]. rewrite A. apply IH, B.
Qed.

Lemma prefixb_eow k : forallb (fun c => negb (is_blank c)) k = true -> forall s rest, eow rest -> prefixb k (s ++ rest) = prefixb k s.
Proof.
  induction k as [|a k IH]; cbn [forallb]; intros H s rest E; [reflexivity|]. apply andb_true_iff in H as [A B].
  destruct s as [|x s]; cbn [app prefixb].
  - destruct rest as [|y r]; [reflexivity|]. cbn in E. destruct (Ascii.eqb_spec a y) as [->|]; [|reflexivity].
    apply negb_true_iff in A. congruence.
  - now rewrite (IH B s rest E).
Qed.

Lemma hm_word w : forallb wchar w = true -> forall m rest, eow rest ->
  has_marker_aux m (w ++ rest) = has_marker_aux m w || has_marker_aux false rest.
Proof.
  induction w as [|c w IH]; cbn [forallb app]; intros H m rest E.
  - cbn [has_marker_aux orb]. destruct rest as [|y r]; [destruct m; reflexivity|]. cbn in E.
    destruct (blank_facts y E) as (_ & _ & _ & Q & _). cbn [has_marker_aux]. rewrite E. cbn [negb].
    destruct (Ascii.eqb_spec y "'"); [congruence|]. destruct m; reflexivity.
  - apply andb_true_iff in H as [A B]. destruct (wchar_facts c A) as (_ & NB & _). cbn [has_marker_aux]. rewrite NB. cbn [negb].
    destruct m; [apply IH; assumption|].
    destruct (Ascii.eqb c "'").
    + rewrite (IH B true rest E).
      change (c :: w ++ rest) with ((c :: w) ++ rest). rewrite (prefixb_eow (s2l "'MARKER'") eq_refl (c :: w) rest E).
      now rewrite orb_assoc.
    + apply IH; assumption.
Qed.

Lemma hm_blanks b l : all_blank b -> has_marker_aux false (b ++ l) = has_marker_aux false l.
Proof.
  unfold all_blank. induction b as [|x b IH]; cbn [forallb app]; intros H; [reflexivity|]. apply andb_true_iff in H as [A B].
  destruct (blank_facts x A) as (_ & _ & _ & Q & _). cbn [has_marker_aux]. destruct (Ascii.eqb_spec x "'"); [congruence|]. apply IH, B.
Qed.

Lemma hm_find a z : noquote a -> has_marker_aux false (a ++ s2l "'MARKER'" ++ z) = true.
Proof.
  unfold noquote. induction a as [|c a IH]; cbn [forallb app]; intros H; [reflexivity|].
  apply andb_true_iff in H as [A B]. apply negb_true_iff in A. cbn [has_marker_aux]. rewrite A. apply IH, B.
Qed.

(* ---- lines -------------------------------------------------------------------------------------------------------------- *)
Theorem scan_data_line b w rest : b <> [] -> all_blank b -> word w -> eow rest -> mclean rest ->
  scan_line (b ++ w ++ rest) = LTok (mk_tk rest (b ++ w ++ rest) [] w 1).
Proof.
  intros NE AB W E MC. destruct b as [|x b]; [congruence|]. unfold scan_line. cbn [app].
  change (x :: b ++ w ++ rest) with ((x :: b) ++ w ++ rest).
  rewrite (mcut_clean ((x :: b) ++ w ++ rest)) by (apply mclean_app; [now apply mclean_blank|apply mclean_app; [now apply mclean_word|exact MC]]).
  assert (BX : is_blank x = true) by (unfold all_blank in AB; cbn in AB; now apply andb_true_iff in AB as [A _]). rewrite BX.
  rewrite (skip_blanks_word (x :: b) w rest AB W).
  pose proof (sword_word [] w rest eq_refl W E) as SW. cbn [app] in SW. rewrite SW.
  destruct w as [|y t0]; [destruct W; congruence|]. cbv beta iota. rewrite skipn_app_len. reflexivity.
Qed.

(* ---- layer 2: records ----------------------------------------------------------------------------------------------------- *)
Section Records.
  Variable M : Q.

  Definition new_row (nm : name) (s : option sense) : xrow := {| xw_name := nm; xw_sense := s; xw_rhs := 0; xw_rhsind := false; xw_rng := None |}.

  Lemma all_blank_s2l2 : all_blank (s2l "  "). Proof. reflexivity. Qed.

  (* " N  name", " G  name", ... *)
  Theorem row_record (k : ascii) s nm x : sense_of_field [k] = Some s -> word [k] -> word nm -> has_row nm x = false -> x_active x = ARows ->
    exists t, scan_line (" "%char :: k :: s2l "  " ++ nm) = LTok t /\ t_key t = [] /\
              line_in_section true M t x = MOk (set_rows x (x_rows x ++ [new_row nm s])).
  Proof.
    intros SF WK W NR ACT.
    assert (SL : scan_line ([" "%char] ++ [k] ++ (s2l "  " ++ nm)) = LTok (mk_tk (s2l "  " ++ nm) ([" "%char] ++ [k] ++ (s2l "  " ++ nm)) [] [k] 1)).
    { apply scan_data_line; [discriminate|reflexivity|exact WK|reflexivity|].
      apply mclean_app; [reflexivity|now apply mclean_word]. }
    eexists. split; [exact SL|]. split; [reflexivity|].
    unfold line_in_section. rewrite ACT. unfold add_row. cbn [t_fld]. rewrite SF.
    erewrite (mnext_field_word _ (s2l "  ") nm []); [| cbn [t_cur]; now rewrite app_nil_r | reflexivity | exact W | exact I | right; cbn; lia].
    cbn [t_fld]. rewrite NR. reflexivity.
  Qed.

  (* the column a COLUMNS record works on: created with the current integer mode, or marked when it exists already *)
  Definition ensure_col (cn : name) (x : xraw) : list xcol :=
    if has_col cn x
    then (if x_intvar x then upd_col cn (fun c => {| xc_name := xc_name c; xc_int := true; xc_sos := xc_sos c; xc_ent := xc_ent c; xc_bnd := xc_bnd c |}) (x_cols x)
          else x_cols x)
    else x_cols x ++ [{| xc_name := cn; xc_int := x_intvar x; xc_sos := None; xc_ent := []; xc_bnd := bst0 |}].
  Definition ent_effect (cn rn : name) (v : Q) (x : xraw) : xraw := add_ent (set_cols x (ensure_col cn x)) cn rn (rr v).

  Definition ent_line (cn rn : name) (v : Q) : line := s2l "  " ++ cn ++ s2l "    " ++ rn ++ s2l "    " ++ print_num v.

  Lemma ent_line_nomarker cn rn v : word cn -> word rn -> has_marker cn = false -> has_marker rn = false -> has_marker (ent_line cn rn v) = false.
  Proof.
    intros WC WR HC HR. unfold has_marker, ent_line in *.
    rewrite (hm_blanks (s2l "  ") _ eq_refl).
    rewrite (hm_word cn (proj2 WC) false) by reflexivity. rewrite HC. cbn [orb].
    rewrite (hm_blanks (s2l "    ") _ eq_refl).
    rewrite (hm_word rn (proj2 WR) false) by reflexivity. rewrite HR. cbn [orb].
    apply hm_noquote. apply noquote_app; [reflexivity|apply noquote_num].
  Qed.

  Theorem ent_record cn rn v x : word cn -> word rn -> has_marker cn = false -> has_marker rn = false ->
    has_row rn x = true -> x_active x = ACols -> x_sosvar x = false ->
    exists t, scan_line (ent_line cn rn v) = LTok t /\ t_key t = [] /\ line_in_section true M t x = MOk (ent_effect cn rn v x).
  Proof.
    intros WC WR HC HR ROW ACT SOS. unfold ent_line.
    assert (MC : mclean (s2l "    " ++ rn ++ s2l "    " ++ print_num v)).
    { apply mclean_app; [reflexivity|]. apply mclean_app; [now apply mclean_word|]. apply mclean_app; [reflexivity|apply mclean_word, word_num]. }
    pose proof (scan_data_line (s2l "  ") cn (s2l "    " ++ rn ++ s2l "    " ++ print_num v) ltac:(discriminate) eq_refl WC eq_refl MC) as SL.
    eexists. split; [exact SL|]. split; [reflexivity|].
    unfold line_in_section. rewrite ACT. unfold add_col. cbn [t_line].
    pose proof (ent_line_nomarker cn rn v WC WR HC HR) as NM. unfold ent_line in NM. rewrite NM.
    unfold read_col_line. cbn [t_fld]. fold (ensure_col cn x). rewrite SOS.
    erewrite (mnext_field_word _ (s2l "    ") rn (s2l "    " ++ print_num v)); [|reflexivity|reflexivity|exact WR|reflexivity|right; cbn; lia].
    unfold line_fuel. cbn [t_cur col_pairs t_fld tl app s2l list_ascii_of_string].
    assert (ROW' : has_row rn (set_cols x (ensure_col cn x)) = true) by exact ROW. rewrite ROW'. cbn [negb].
    erewrite (get_double_num _ (s2l "   ") v []); [|cbn [t_cur]; now rewrite app_nil_r|reflexivity|exact I].
    cbn [t_fld].
    match goal with |- context [mnext_field ?t] => pose proof (mnext_field_end t [] eq_refl eq_refl) as ME; destruct (mnext_field t) as [t2 ok] end.
    cbn [snd] in ME. subst ok. reflexivity.
  Qed.

  (* marker lines *)
  Definition mark_line (i : nat) (org : bool) : line :=
    s2l " MARK" ++ dec_nat i ++ s2l "qs      'MARKER'    '" ++ (if org then s2l "INTORG" else s2l "INTEND") ++ s2l "'".
  Definition mark_effect (org : bool) (x : xraw) : xraw := set_marks x org (x_sosvar x) (x_nsos x).

  Lemma dec_nat_numchar i : forallb numchar (MpsWrite.dec_nat i) = true.
  Proof. unfold MpsWrite.dec_nat. apply print_Z_numchar. Qed.

  Theorem mark_record i org x : x_active x = ACols ->
    exists t, scan_line (mark_line i org) = LTok t /\ t_key t = [] /\ line_in_section true M t x = MOk (mark_effect org x).
  Proof.
    intros ACT. unfold mark_line.
    set (w := s2l "MARK" ++ MpsWrite.dec_nat i ++ s2l "qs").
    set (rest := s2l "      'MARKER'    '" ++ (if org then s2l "INTORG" else s2l "INTEND") ++ s2l "'").
    assert (EL : s2l " MARK" ++ MpsWrite.dec_nat i ++ s2l "qs      'MARKER'    '" ++ (if org then s2l "INTORG" else s2l "INTEND") ++ s2l "'" = [" "%char] ++ w ++ rest).
    { unfold w, rest. cbn [s2l list_ascii_of_string app]. rewrite <- !app_assoc. reflexivity. }
    assert (WD : forallb wchar (MpsWrite.dec_nat i) = true).
    { apply forallb_forall. intros c IN. pose proof (dec_nat_numchar i) as H. rewrite forallb_forall in H. apply numchar_facts, H, IN. }
    assert (WW : word w).
    { split; [unfold w; discriminate|]. unfold w. rewrite !forallb_app, WD. reflexivity. }
    assert (NQ : noquote ([" "%char] ++ w)).
    { apply noquote_app; [reflexivity|]. unfold w. apply noquote_app; [reflexivity|]. apply noquote_app; [|reflexivity].
      apply forallb_forall. intros c IN. pose proof (dec_nat_numchar i) as H. rewrite forallb_forall in H.
      destruct (numchar_facts c (H c IN)) as (_ & Q & _). apply negb_true_iff. destruct (Ascii.eqb_spec c "'"); congruence. }
    rewrite EL.
    assert (MC : mclean rest) by (unfold rest; destruct org; reflexivity).
    assert (ER : eow rest) by (unfold rest; reflexivity).
    pose proof (scan_data_line [" "%char] w rest ltac:(discriminate) eq_refl WW ER MC) as SL.
    eexists. split; [exact SL|]. split; [reflexivity|].
    unfold line_in_section. rewrite ACT. unfold add_col. cbn [t_line].
    assert (HM : has_marker ([" "%char] ++ w ++ rest) = true).
    { unfold has_marker.
      assert (EQ : [" "%char] ++ w ++ rest = (([" "%char] ++ w) ++ s2l "      ") ++ s2l "'MARKER'" ++ (s2l "    '" ++ (if org then s2l "INTORG" else s2l "INTEND") ++ s2l "'")).
      { unfold rest. rewrite <- !app_assoc. reflexivity. }
      rewrite EQ. apply hm_find. apply noquote_app; [exact NQ|reflexivity]. }
    rewrite HM. unfold read_marker_line. cbn [t_fld].
    assert (S1 : leqb w (s2l "S1") || leqb w (s2l "S2") = false) by (unfold w; reflexivity). rewrite S1.
    unfold rest. destruct org; vm_compute; reflexivity.
  Qed.

  (* ---- RHS and RANGES records ---------------------------------------------------------------------------------------- *)
  (* [sn] is the set name the writer uses ("RHS" / "RANGE" in the code as found) *)
  Definition set_rhs_row (v : Q) (r : xrow) : xrow :=
    {| xw_name := xw_name r; xw_sense := xw_sense r; xw_rhs := v; xw_rhsind := true; xw_rng := xw_rng r |}.
  Definition set_rng_row (g : Q) (r : xrow) : xrow :=
    {| xw_name := xw_name r; xw_sense := xw_sense r; xw_rhs := xw_rhs r; xw_rhsind := xw_rhsind r; xw_rng := Some g |}.
  Definition rhs_effect (sn rn : name) (v : Q) (x : xraw) : xraw :=
    set_rows (set_names x (Some (Some sn)) (x_rngname x) (x_bndname x)) (upd_row rn (set_rhs_row (rr v)) (x_rows x)).
  Definition rng_effect (sn rn : name) (g : Q) (x : xraw) : xraw :=
    set_rows (set_names x (x_rhsname x) (Some (Some sn)) (x_bndname x)) (upd_row rn (set_rng_row (rr g)) (x_rows x)).
  Definition set_line (sn rn : name) (v : Q) : line := " "%char :: sn ++ s2l "    " ++ rn ++ s2l "    " ++ print_num v.

  (* the set-name field followed by the row: [known] = the set name is itself a row name *)
  Lemma setname_row (sn rn : name) v (known : bool) : word sn -> word rn -> (known = true -> numlike rn = false) ->
    exists t, scan_line (set_line sn rn v) = LTok t /\ t_key t = [] /\ t_fld t = sn /\
              exists t1 b', possibly_blank true known t = Some (t1, Some sn) /\ t_cur t1 = b' ++ rn ++ s2l "    " ++ print_num v /\ all_blank b' /\
                            t_fnum t1 = 1%nat /\ t_fld t1 = sn /\ line_fuel t = S (List.length (t_cur t)).
  Proof.
    intros WS WR NL. unfold set_line. change (" "%char :: sn ++ s2l "    " ++ rn ++ s2l "    " ++ print_num v) with ([" "%char] ++ sn ++ s2l "    " ++ rn ++ s2l "    " ++ print_num v).
    assert (MC : mclean (s2l "    " ++ rn ++ s2l "    " ++ print_num v)).
    { apply mclean_app; [reflexivity|]. apply mclean_app; [now apply mclean_word|]. apply mclean_app; [reflexivity|apply mclean_word, word_num]. }
    pose proof (scan_data_line [" "%char] sn (s2l "    " ++ rn ++ s2l "    " ++ print_num v) ltac:(discriminate) eq_refl WS eq_refl MC) as SL.
    eexists. split; [exact SL|]. split; [reflexivity|]. split; [reflexivity|].
    unfold possibly_blank. destruct known.
    - erewrite (peek_name _ (s2l "    ") rn (s2l "    " ++ print_num v)); [|reflexivity|reflexivity|exact WR|reflexivity|now apply NL|right; cbn; lia].
      eexists. exists []. split; [reflexivity|]. repeat split; reflexivity.
    - eexists. exists (s2l "    "). split; [reflexivity|]. repeat split; reflexivity.
  Qed.

  Lemma set_field_name_same (cur : option (option name)) (sn : name) : (cur = None \/ cur = Some (Some sn)) ->
    set_field_name cur (Some sn) = (Some (Some sn), false).
  Proof. intros [-> | ->]; cbn [set_field_name oname_eqb]; [reflexivity|]. now rewrite leqb_refl. Qed.

  Theorem rhs_record sn rn v x row : word sn -> word rn -> x_active x = ARhs ->
    (x_rhsname x = None \/ x_rhsname x = Some (Some sn)) ->
    find_row rn x = Some row -> xw_rhsind row = false -> xw_sense row <> None ->
    (has_row sn x = true -> numlike rn = false) ->
    exists t, scan_line (set_line sn rn v) = LTok t /\ t_key t = [] /\ line_in_section true M t x = MOk (rhs_effect sn rn v x).
  Proof.
    intros WS WR ACT SN FR RI NS NL.
    destruct (setname_row sn rn v (has_row sn x) WS WR NL)
      as (t & SL & K & F & t1 & b' & PB & C1 & AB & N1 & F1 & LF).
    exists t. split; [exact SL|]. split; [exact K|].
    unfold line_in_section. rewrite ACT. unfold add_rhs. rewrite F, PB.
    rewrite (set_field_name_same _ sn SN).
    erewrite (mnext_field_word t1 b' rn (s2l "    " ++ print_num v) C1 AB WR); [|reflexivity|right; lia].
    rewrite LF. cbn [rhs_pairs t_fld].
    assert (FR' : find_row rn (set_names x (Some (Some sn)) (x_rngname x) (x_bndname x)) = Some row) by exact FR. rewrite FR'.
    erewrite (get_double_num _ (s2l "   ") v []); [|cbn [t_cur]; now rewrite app_nil_r|reflexivity|exact I].
    rewrite RI. destruct (xw_sense row) as [s0|] eqn:ES; [|congruence].
    match goal with |- context [mnext_field ?t] => pose proof (mnext_field_end t [] eq_refl eq_refl) as ME; destruct (mnext_field t) as [t2 ok] end.
    cbn [snd] in ME. subst ok. reflexivity.
  Qed.

  Theorem rng_record sn rn v x row : word sn -> word rn -> x_active x = ARanges ->
    (x_rngname x = None \/ x_rngname x = Some (Some sn)) ->
    find_row rn x = Some row -> xw_rng row = None -> xw_sense row <> None ->
    (has_row sn x = true -> numlike rn = false) ->
    exists t, scan_line (set_line sn rn v) = LTok t /\ t_key t = [] /\ line_in_section true M t x = MOk (rng_effect sn rn v x).
  Proof.
    intros WS WR ACT SN FR RI NS NL.
    destruct (setname_row sn rn v (has_row sn x) WS WR NL)
      as (t & SL & K & F & t1 & b' & PB & C1 & AB & N1 & F1 & LF).
    exists t. split; [exact SL|]. split; [exact K|].
    unfold line_in_section. rewrite ACT. unfold add_ranges. rewrite F, PB.
    rewrite (set_field_name_same _ sn SN).
    erewrite (mnext_field_word t1 b' rn (s2l "    " ++ print_num v) C1 AB WR); [|reflexivity|right; lia].
    rewrite LF. cbn [rng_pairs t_fld].
    assert (FR' : find_row rn (set_names x (x_rhsname x) (Some (Some sn)) (x_bndname x)) = Some row) by exact FR. rewrite FR'.
    erewrite (get_double_num _ (s2l "   ") v []); [|cbn [t_cur]; now rewrite app_nil_r|reflexivity|exact I].
    rewrite RI. destruct (xw_sense row) as [s0|] eqn:ES; [|congruence].
    match goal with |- context [mnext_field ?t] => pose proof (mnext_field_end t [] eq_refl eq_refl) as ME; destruct (mnext_field t) as [t2 ok] end.
    cbn [snd] in ME. subst ok. reflexivity.
  Qed.

  (* ---- BOUNDS records ---------------------------------------------------------------------------------------------------- *)
  Definition rec_type (r : mrec) : btype := match r with MFX _ => TFX | MFR => TFR | MMI => TMI | MLO _ => TLO | MPL => TPL | MUP _ => TUP end.
  Definition rec_tyname (r : mrec) : list ascii :=
    match r with MFX _ => s2l "FX" | MFR => s2l "FR" | MMI => s2l "MI" | MLO _ => s2l "LO" | MPL => s2l "PL" | MUP _ => s2l "UP" end.
  Definition rec_arg (r : mrec) : option Q := match r with MFX v | MLO v | MUP v => Some v | _ => None end.
  Definition rec_val (r : mrec) : Q := match rec_arg r with Some v => rr v | None => 0 end.
  Definition bnd_col (r : mrec) (c : xcol) : xcol :=
    let (b, i) := set_bound M (rec_type r) (rec_val r) (xc_bnd c) (xc_int c) in
    {| xc_name := xc_name c; xc_int := i; xc_sos := xc_sos c; xc_ent := xc_ent c; xc_bnd := b |}.
  Definition bnd_effect (bn : name) (r : mrec) (cn : name) (x : xraw) : xraw :=
    set_cols (set_names x (x_rhsname x) (x_rngname x) (Some (Some bn))) (upd_col cn (bnd_col r) (x_cols x)).

  Lemma mrec_line_shape bn r cn :
    mrec_line_gen bn (r, cn) = [" "%char] ++ rec_tyname r ++ ([" "%char] ++ bn ++ s2l "    " ++ cn ++ match rec_arg r with Some v => s2l "    " ++ print_num v | None => [] end).
  Proof. destruct r; cbn [mrec_line_gen fst snd rec_tyname rec_arg]; try reflexivity; now rewrite app_nil_r. Qed.

  Theorem bnd_record bn r cn x : word bn -> word cn -> no_dollar cn -> x_active x = ABounds ->
    (x_bndname x = None \/ x_bndname x = Some (Some bn)) ->
    has_col cn x = true -> (has_col bn x = true -> numlike cn = false) ->
    exists t, scan_line (mrec_line_gen bn (r, cn)) = LTok t /\ t_key t = [] /\ line_in_section true M t x = MOk (bnd_effect bn r cn x).
  Proof.
    intros WB WC ND ACT SN HC NL. rewrite mrec_line_shape.
    set (tail := match rec_arg r with Some v => s2l "    " ++ print_num v | None => [] end).
    assert (ET : eow tail) by (unfold tail; destruct (rec_arg r); [reflexivity|exact I]).
    assert (MT : mclean tail) by (unfold tail; destruct (rec_arg r); [apply mclean_app; [reflexivity|apply mclean_word, word_num]|reflexivity]).
    assert (WT : word (rec_tyname r)) by (destruct r; split; (discriminate || reflexivity)).
    assert (MC : mclean ([" "%char] ++ bn ++ s2l "    " ++ cn ++ tail)).
    { apply mclean_app; [reflexivity|]. apply mclean_app; [now apply mclean_word|]. apply mclean_app; [reflexivity|]. apply mclean_app; [now apply mclean_word|exact MT]. }
    pose proof (scan_data_line [" "%char] (rec_tyname r) ([" "%char] ++ bn ++ s2l "    " ++ cn ++ tail) ltac:(discriminate) eq_refl WT eq_refl MC) as SL.
    eexists. split; [exact SL|]. split; [reflexivity|].
    unfold line_in_section. rewrite ACT. unfold add_bounds. cbn [t_fld].
    assert (BT : btype_of (rec_tyname r) = Some (rec_type r)) by (destruct r; reflexivity). rewrite BT.
    erewrite (mnext_field_word _ [" "%char] bn (s2l "    " ++ cn ++ tail)); [|reflexivity|reflexivity|exact WB|reflexivity|right; cbn; lia].
    cbn [t_fld t_fnum t_line t_key].
    change (tl (s2l "    " ++ cn ++ tail)) with (s2l "   " ++ cn ++ tail).
    set (t1 := mk_tk (s2l "   " ++ cn ++ tail) _ _ _ _).
    assert (PB : exists t2 b', possibly_blank true (has_col bn x) t1 = Some (t2, @Some name bn) /\ t_cur t2 = b' ++ cn ++ tail /\ all_blank b' /\
                               t_fnum t2 = 2%nat).
    { unfold possibly_blank. destruct (has_col bn x) eqn:HB.
      - erewrite (peek_name t1 (s2l "   ") cn tail); [|reflexivity|reflexivity|exact WC|exact ET|now apply NL|left; exact ND].
        eexists. exists []. split; [reflexivity|]. repeat split; reflexivity.
      - exists t1, (s2l "   "). split; [reflexivity|]. repeat split; reflexivity. }
    destruct PB as (t2 & b' & PB & C2 & AB & N2). rewrite PB.
    rewrite (set_field_name_same _ bn SN).
    rewrite (mnext_field_word t2 b' cn tail C2 AB WC ET (or_introl ND)). cbn [t_fld].
    assert (HC' : has_col cn (set_names x (x_rhsname x) (x_rngname x) (Some (Some bn))) = true) by exact HC. rewrite HC'. cbn [negb].
    unfold bnd_effect, bnd_col, rec_val. unfold tail. destruct r; cbn [rec_type rec_arg needs_value tl app s2l list_ascii_of_string]; try reflexivity;
      (erewrite (next_bound_num M _ (s2l "   ") _); [reflexivity|reflexivity|reflexivity]).
  Qed.
End Records.
