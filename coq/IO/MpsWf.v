(* IO/MpsWf.v -- the precondition of the MPS round trip as an executable test (wf_mpsb, proved sound for wf_mps), an
   example, the round trip on the bytes of the file, and the refutation of the statement without the hypothesis on the
   writer's set names: mps_roundtrip_setname_clash_refuted (a column called BOUND and a column whose name starts like a
   number: the bound of the second lands on the first, silently). *)
From Coq Require Import QArith List Ascii String Bool Arith NArith Lia Lqa.
From QSX Require Import Base.QSum LP.User IO.Num IO.NumSound IO.Bounds IO.Ranges IO.Lex IO.Equiv IO.LpWrite IO.LpRead IO.LpTok IO.LpFinish
  IO.LpRoundtrip IO.LpBytes IO.LpNames IO.MpsWrite IO.MpsRead IO.MpsTotal IO.MpsTok IO.MpsSections IO.MpsEquiv IO.MpsRoundtrip.
Import ListNotations.
Local Open Scope Q_scope.

Definition no_dollarb (w : name) : bool := match w with x :: _ => negb (Ascii.eqb x "$") | [] => true end.
Definition nameokb (w : name) : bool := wordb w && negb (has_marker w).
Definition is_noneQ (o : option Q) : bool := match o with None => true | Some _ => false end.

Section B.
  Variable M : Q.

  Definition usedb (P : mlp) : list mrow := filter (row_used (m_cols P)) (m_rows P).
  Definition recs (c : mcol) : list mrec := mps_records M (mc_lo c) (mc_up c) (mc_int c).

  (* everything except the three conditions on the set names *)
  Definition wf_coreb (P : mlp) : bool :=
    let cols := m_cols P in let used := usedb P in let on := m_objname P in
    nameokb on && forallb (fun c => nameokb (mc_name c)) cols && forallb (fun r => nameokb (mr_name r)) used &&
    nodup_names (map mc_name cols) &&
    forallb (fun c => Qle_bool (mc_lo c) (mc_up c) && forallb (fun e => negb (leqb (fst e) on)) (mc_ent c)) cols &&
    forallb col_nonempty cols && (m_intmarker P || forallb (fun c => negb (mc_int c)) cols) &&
    nodup_names (map mr_name (m_rows P)) &&
    forallb (fun r => match mr_sense r with SR => Qle_bool 0 (mr_range r) && m_rangeval P | _ => Qeq_bool (mr_range r) 0 end) (m_rows P) &&
    forallb (fun c => forallb (fun e => existsb (leqb (fst e)) (map mr_name (m_rows P))) (mc_ent c)) cols &&
    negb (existsb (leqb on) (map mr_name used)) && negb (is_nil used) &&
    forallb (fun c => is_nil (recs c) || no_dollarb (mc_name c)) cols.

  Definition setnames_okb (P : mlp) : bool :=
    let cols := m_cols P in let used := usedb P in let rn := m_objname P :: map mr_name used in
    (negb (existsb (leqb (s2l "RHS")) rn) || forallb (fun r => is_noneQ (rhs_entry r) || negb (numlike (mr_name r))) used) &&
    (negb (existsb (leqb (s2l "RANGE")) rn) || forallb (fun r => is_noneQ (range_entry r) || negb (numlike (mr_name r))) used) &&
    (negb (existsb (leqb (s2l "BOUND")) (map mc_name cols)) || forallb (fun c => is_nil (recs c) || negb (numlike (mc_name c))) cols).

  Definition wf_mpsb (P : mlp) : bool := wf_coreb P && setnames_okb P.

  Lemma nameokb_ok w : nameokb w = true -> word w /\ has_marker w = false.
  Proof. unfold nameokb. intros H. apply andb_true_iff in H as [A B]. split; [now apply wordb_sound|now apply negb_true_iff in B]. Qed.

  Lemma existsb_leqb_in n l : existsb (leqb n) l = true <-> In n l.
  Proof.
    split.
    - intros H. apply existsb_exists in H as (x & IN & E). destruct (leqb_spec n x); [now subst|discriminate].
    - intros H. apply existsb_exists. exists n. split; [exact H|apply leqb_refl].
  Qed.

  Theorem wf_coreb_sound P : wf_coreb P = true -> wf_core M P.
  Proof.
    unfold wf_coreb, usedb. cbv zeta. intros C. rewrite !andb_true_iff in C.
    destruct C as ((((((((((((A1 & A2) & A3) & A4) & A5) & A6) & A7) & A8) & A9) & A10) & A11) & A12) & A13).
    constructor.
    - now apply nameokb_ok.
    - intros c IC. rewrite forallb_forall in A2. now apply nameokb_ok, A2.
    - intros r IR. rewrite forallb_forall in A3. now apply nameokb_ok, A3.
    - unfold cols_wf. split; [now apply nodup_names_ok|]. split; [|split; [exact A6|]].
      + intros c IC. rewrite forallb_forall in A5. specialize (A5 c IC). apply andb_true_iff in A5 as [L E]. split; [now apply Qle_bool_iff|exact E].
      + apply orb_true_iff in A7. destruct A7; [now left|now right].
    - unfold rows_wf. split; [now apply nodup_names_ok|]. intros r IR. rewrite forallb_forall in A9. specialize (A9 r IR).
      destruct (mr_sense r); try (now apply Qeq_bool_iff). apply andb_true_iff in A9 as [L V]. split; [now apply Qle_bool_iff|exact V].
    - intros c e IC IE. rewrite forallb_forall in A10. specialize (A10 c IC). rewrite forallb_forall in A10. specialize (A10 e IE).
      now apply existsb_leqb_in.
    - intros IN. apply negb_true_iff in A11. apply existsb_leqb_in in IN. congruence.
    - apply negb_true_iff in A12. intros E. rewrite E in A12. discriminate.
    - intros c IC HR. rewrite forallb_forall in A13. specialize (A13 c IC). apply orb_true_iff in A13 as [N|D].
      + exfalso. apply HR. fold (recs c). destruct (recs c); [reflexivity|discriminate].
      + unfold no_dollarb in D. unfold no_dollar. destruct (mc_name c) as [|x t]; [exact I|]. apply negb_true_iff in D. intros ->. discriminate.
  Qed.

  Theorem wf_mpsb_sound P : wf_mpsb P = true -> wf_mps M P.
  Proof.
    unfold wf_mpsb. intros H. apply andb_true_iff in H as [C S]. split; [now apply wf_coreb_sound|].
    unfold setnames_okb, usedb in S. cbv zeta in S. rewrite !andb_true_iff in S. destruct S as ((S1 & S2) & S3).
    unfold set_ok. split; [|split].
    - intros IN r IR NE. apply orb_true_iff in S1 as [N|F].
      + apply negb_true_iff in N. apply existsb_leqb_in in IN. unfold row_names in IN. congruence.
      + rewrite forallb_forall in F. specialize (F r IR). apply orb_true_iff in F as [X|X]; [destruct (rhs_entry r); [discriminate|congruence]|now apply negb_true_iff in X].
    - intros IN r IR NE. apply orb_true_iff in S2 as [N|F].
      + apply negb_true_iff in N. apply existsb_leqb_in in IN. unfold row_names in IN. congruence.
      + rewrite forallb_forall in F. specialize (F r IR). apply orb_true_iff in F as [X|X]; [destruct (range_entry r); [discriminate|congruence]|now apply negb_true_iff in X].
    - intros IN c IC HR. apply orb_true_iff in S3 as [N|F].
      + apply negb_true_iff in N. apply existsb_leqb_in in IN. congruence.
      + rewrite forallb_forall in F. specialize (F c IC). apply orb_true_iff in F as [X|X]; [|now apply negb_true_iff in X].
        exfalso. apply HR. fold (recs c). destruct (recs c); [reflexivity|discriminate].
  Qed.

  (* ---- the repaired writer: set names that no row (column) carries ------------------------------------------------------------- *)
  Definition fixed_names (P : mlp) : name * name * name :=
    let rn := m_objname P :: map mr_name (m_rows P) in
    (uname rn (s2l "RHS") [] None, uname rn (s2l "RANGE") [] None, uname (map mc_name (m_cols P)) (s2l "BOUND") [] None).
  Definition write_mps_fixed (P : mlp) : list line :=
    let '(a, b, c) := fixed_names P in render_gen a b c (sections_of M P).

  Lemma word_app a b : word a -> forallb wchar b = true -> word (a ++ b).
  Proof. intros [NE H] HB. split; [destruct a; [congruence|discriminate]|]. now rewrite forallb_app, H, HB. Qed.

  Lemma word_uname tab base : word base -> word (uname tab base [] None).
  Proof.
    intros W. unfold uname. cbn [app]. destruct (negb (mem base tab)); [exact W|].
    destruct (first_free_spec base tab (List.length tab) 0) as (j & EQ & _). rewrite EQ. unfold cand.
    apply word_app; [exact W|]. cbn [forallb]. apply andb_true_iff. split; [reflexivity|].
    apply forallb_forall. intros c IN. pose proof (print_Z_numchar (Z.of_nat j)) as H. rewrite forallb_forall in H. apply numchar_facts, H, IN.
  Qed.

  Lemma uname_not_in tab base : ~ In (uname tab base [] None) tab.
  Proof. intros IN. apply mem_In in IN. rewrite uname_fresh in IN. discriminate. Qed.

  Theorem mps_roundtrip_fixed : 0 < M -> forall P, wf_core M P ->
    exists P', read_mps true M (write_mps_fixed P) = Some P' /\ equiv_by_name (mlp_to_nlp P) (mlp_to_nlp P') = true.
  Proof.
    intros HM P WC. unfold write_mps_fixed, fixed_names. cbv zeta.
    set (rn := m_objname P :: map mr_name (m_rows P)).
    apply (mps_roundtrip_gen M HM P (uname rn (s2l "RHS") [] None) (uname rn (s2l "RANGE") [] None) (uname (map mc_name (m_cols P)) (s2l "BOUND") [] None));
      try (apply word_uname; split; [discriminate|reflexivity]); [exact WC|].
    assert (SUB : forall n, In n (row_names P) -> In n rn).
    { unfold row_names, rn. intros n [<-|IN]; [now left|right]. apply in_map_iff in IN as (r & <- & IR). apply in_map. apply filter_In in IR. apply IR. }
    unfold set_ok. split; [|split].
    - intros IN. exfalso. exact (uname_not_in rn _ (SUB _ IN)).
    - intros IN. exfalso. exact (uname_not_in rn _ (SUB _ IN)).
    - intros IN. exfalso. exact (uname_not_in _ _ IN).
  Qed.
End B.

(* ---- the round trip on the bytes of the file -------------------------------------------------------------------------- *)
Lemma mcut_nl l : mcut (l ++ [nl]) = mcut l.
Proof. induction l as [|c l IH]; [reflexivity|]. cbn [app mcut]. now rewrite IH. Qed.

Lemma scan_line_nl l : ~ In nl l -> scan_line (l ++ [nl]) = scan_line l.
Proof.
  intros NI. destruct l as [|x l]; [reflexivity|]. unfold scan_line. change ((x :: l) ++ [nl]) with (x :: (l ++ [nl])). cbv beta iota.
  change (x :: (l ++ [nl])) with ((x :: l) ++ [nl]). rewrite mcut_nl. reflexivity.
Qed.

Lemma mnext_line_nl : forall ls, Forall (fun l => ~ In nl l) ls ->
  mnext_line (map (fun l => l ++ [nl]) ls) = (fst (mnext_line ls), map (fun l => l ++ [nl]) (snd (mnext_line ls))).
Proof.
  induction 1 as [|l ls NI _ IH]; [reflexivity|]. cbn [map mnext_line]. rewrite (scan_line_nl l NI). destruct (scan_line l); [exact IH|reflexivity|reflexivity].
Qed.

Section Bytes.
  Variable strict : bool.
  Variable M : Q.

  Lemma read_section_nl t rest x : Forall (fun l => ~ In nl l) rest ->
    read_section t (map (fun l => l ++ [nl]) rest) x =
    match read_section t rest x with MOk (x1, r1) => MOk (x1, map (fun l => l ++ [nl]) r1) | MErr e => MErr e | MFlt => MFlt | MFuel => MFuel end.
  Proof.
    intros F. unfold read_section. destruct (key_of (t_key t)) as [k|]; [|reflexivity]. destruct (seen k x); [reflexivity|].
    destruct (negb (order_ok k x)); [reflexivity|].
    destruct k; try reflexivity; rewrite (mnext_line_nl rest F); destruct (mnext_line rest) as [[t2|] r2]; cbn [fst snd]; try reflexivity;
      repeat match goal with |- context [if ?b then _ else _] => destruct b end; try reflexivity; destruct (maxmin (t_fld t2)); reflexivity.
  Qed.

  Lemma mnext_line_forall ls : Forall (fun l => ~ In nl l) ls -> Forall (fun l => ~ In nl l) (snd (mnext_line ls)).
  Proof. induction 1 as [|l ls NI F IH]; [constructor|]. cbn [mnext_line]. destruct (scan_line l); [exact IH|exact F|exact F]. Qed.

  Lemma read_section_forall t rest x x1 r1 : Forall (fun l => ~ In nl l) rest -> read_section t rest x = MOk (x1, r1) -> Forall (fun l => ~ In nl l) r1.
  Proof.
    intros F. unfold read_section. destruct (key_of (t_key t)) as [k|]; [|discriminate]. destruct (seen k x); [discriminate|].
    destruct (negb (order_ok k x)); [discriminate|].
    pose proof (mnext_line_forall rest F) as F2.
    destruct k; try (intros X; inversion X; subst; exact F); destruct (mnext_line rest) as [[t2|] r2]; cbn [snd] in F2; try discriminate;
      repeat match goal with |- context [if ?b then _ else _] => destruct b end; try discriminate; try (intros X; inversion X; subst; exact F2);
      destruct (maxmin (t_fld t2)); try discriminate; intros X; inversion X; subst; exact F2.
  Qed.

  Lemma mloop_nl : forall fuel ls x, Forall (fun l => ~ In nl l) ls ->
    mloop strict M fuel (map (fun l => l ++ [nl]) ls) x = mloop strict M fuel ls x.
  Proof.
    induction fuel as [|k IH]; intros ls x F; [reflexivity|]. cbn [mloop]. rewrite (mnext_line_nl ls F).
    pose proof (mnext_line_forall ls F) as F2. destruct (mnext_line ls) as [[t|] rest]; cbn [fst snd] in *; [|reflexivity].
    destruct (t_key t) as [|a key].
    - destruct (line_in_section strict M t x); try reflexivity. apply IH, F2.
    - destruct (leqb (a :: key) (s2l "ENDATA")); [reflexivity|]. rewrite (read_section_nl t rest x F2).
      destruct (read_section t rest x) as [[x1 r1]| | |] eqn:RS; try reflexivity. apply IH. apply (read_section_forall t rest x x1 r1 F2 RS).
  Qed.

  Theorem read_mps_bytes ls : Forall line_ok ls -> read_mps_res strict M (split_lines (file_bytes ls)) = read_mps_res strict M ls.
  Proof.
    intros LO. rewrite (split_lines_file ls LO). unfold read_mps_res. rewrite map_length.
    rewrite mloop_nl; [reflexivity|]. apply Forall_forall. intros l IN. rewrite Forall_forall in LO. apply (LO l IN).
  Qed.
End Bytes.

Theorem mps_roundtrip_bytes M P : 0 < M -> wf_mps M P -> Forall line_ok (write_mps M P) ->
  exists P', read_mps true M (split_lines (file_bytes (write_mps M P))) = Some P' /\ equiv_by_name (mlp_to_nlp P) (mlp_to_nlp P') = true.
Proof.
  intros HM WF LO. destruct (mps_roundtrip M HM P WF) as (P' & R & E). exists P'. split; [|exact E].
  unfold read_mps in *. now rewrite (read_mps_bytes true M _ LO).
Qed.

(* ---- example and refutation --------------------------------------------------------------------------------------------- *)
Definition mps_example : mlp :=
  let c1 := {| mc_name := s2l "x"; mc_obj := 3; mc_lo := 0; mc_up := 1000; mc_int := true; mc_ent := [(s2l "c1", 1)] |} in
  let c2 := {| mc_name := s2l "RHS"; mc_obj := 0; mc_lo := -1000; mc_up := 4; mc_int := false; mc_ent := [(s2l "c1", -2 # 3); (s2l "BOUND", 5)] |} in
  let r1 := {| mr_name := s2l "c1"; mr_sense := SR; mr_rhs := 1; mr_range := 2 |} in
  let r2 := {| mr_name := s2l "BOUND"; mr_sense := SL; mr_rhs := -7 # 2; mr_range := 0 |} in
  let r3 := {| mr_name := s2l "unused"; mr_sense := SE; mr_rhs := 7; mr_range := 0 |} in
  {| m_probname := s2l "p"; m_max := true; m_objname := s2l "obj"; m_intmarker := true; m_rangeval := true; m_cols := [c1; c2]; m_rows := [r1; r2; r3] |}.

Example wf_mps_example : wf_mps 1000 mps_example /\
  match read_mps true 1000 (write_mps 1000 mps_example) with
  | Some P' => equiv_by_name (mlp_to_nlp mps_example) (mlp_to_nlp P') && (List.length (m_rows P') =? 2)%nat
  | None => false
  end = true.
Proof. split; [apply wf_mpsb_sound; vm_compute; reflexivity|vm_compute; reflexivity]. Qed.

(* a column called BOUND and a column called 2: the record " UP BOUND    2    4" is read with a blank set name as
   "upper bound 2 for column BOUND" (the trailing 4 only raises a warning).  All other hypotheses of wf_mps hold. *)
Definition mps_clash : mlp :=
  let c1 := {| mc_name := s2l "BOUND"; mc_obj := 1; mc_lo := 0; mc_up := 1000; mc_int := false; mc_ent := [(s2l "r", 1)] |} in
  let c2 := {| mc_name := s2l "2"; mc_obj := 1; mc_lo := 0; mc_up := 4; mc_int := false; mc_ent := [(s2l "r", 1)] |} in
  let r1 := {| mr_name := s2l "r"; mr_sense := SL; mr_rhs := 10; mr_range := 0 |} in
  {| m_probname := s2l "clash"; m_max := true; m_objname := s2l "obj"; m_intmarker := false; m_rangeval := false; m_cols := [c1; c2]; m_rows := [r1] |}.

Theorem mps_roundtrip_setname_clash_refuted :
  wf_coreb 1000 mps_clash = true /\ setnames_okb 1000 mps_clash = false /\
  exists P', read_mps true 1000 (write_mps 1000 mps_clash) = Some P' /\
             equiv_by_name (mlp_to_nlp mps_clash) (mlp_to_nlp P') = false /\
             map (fun c => (mc_name c, mc_up c)) (m_cols P') = [(s2l "BOUND", 2 / 1); (s2l "2", 1000)].
Proof. split; [vm_compute; reflexivity|]. split; [vm_compute; reflexivity|]. eexists. split; [vm_compute; reflexivity|]. split; vm_compute; reflexivity. Qed.

(* the same clash in the RHS section: the record " RHS    1    5" is taken for a record of another (blank) RHS set and
   skipped - row 1 comes back with right-hand side 0; when it is the first record of the section the file is rejected *)
Definition mps_clash_rhs (rhs1 : Q) : mlp :=
  let c1 := {| mc_name := s2l "x"; mc_obj := 1; mc_lo := 0; mc_up := 1000; mc_int := false; mc_ent := [(s2l "RHS", 1); (s2l "1", 1)] |} in
  let r1 := {| mr_name := s2l "RHS"; mr_sense := SL; mr_rhs := rhs1; mr_range := 0 |} in
  let r2 := {| mr_name := s2l "1"; mr_sense := SG; mr_rhs := 5; mr_range := 0 |} in
  {| m_probname := s2l "clash"; m_max := false; m_objname := s2l "obj"; m_intmarker := false; m_rangeval := false; m_cols := [c1]; m_rows := [r1; r2] |}.

Theorem mps_roundtrip_setname_clash_rhs_refuted :
  wf_coreb 1000 (mps_clash_rhs 10) = true /\ setnames_okb 1000 (mps_clash_rhs 10) = false /\
  (exists P', read_mps true 1000 (write_mps 1000 (mps_clash_rhs 10)) = Some P' /\
              equiv_by_name (mlp_to_nlp (mps_clash_rhs 10)) (mlp_to_nlp P') = false /\
              map (fun r => (mr_name r, mr_rhs r)) (m_rows P') = [(s2l "RHS", 10 / 1); (s2l "1", 0)]) /\
  wf_coreb 1000 (mps_clash_rhs 0) = true /\ read_mps_res true 1000 (write_mps 1000 (mps_clash_rhs 0)) = MErr ERhsNotRow.
Proof.
  split; [vm_compute; reflexivity|]. split; [vm_compute; reflexivity|]. split.
  - eexists. split; [vm_compute; reflexivity|]. split; vm_compute; reflexivity.
  - split; vm_compute; reflexivity.
Qed.
