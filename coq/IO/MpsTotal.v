(* IO/MpsTotal.v -- the MPS reader model is a total function of its input: the fuel handed to its loops is never
   exhausted.  Measures: the loops over the (row, value) pairs of a COLUMNS / RHS / RANGES record consume at least
   one byte of the line per iteration (get_double reads a non-empty number), the loop of ILLread_mps over the lines
   consumes at least one line per iteration (ILLmps_next_line; the OBJSENSE / OBJNAME / REFROW sections take one more).
     mps_reader_total : read_mps_res strict M ls <> MFuel
   This is the "never loops without consuming input" half of C11 for this reader. *)
From Coq Require Import QArith List Ascii String Bool Arith Lia.
From QSX Require Import Base.QSum IO.Num IO.NumSound IO.Lex IO.LpWrite IO.LpRead IO.MpsWrite IO.MpsRead.
Import ListNotations.

Lemma skip_blanks_le l : (List.length (Lex.skip_blanks l) <= List.length l)%nat.
Proof. apply skip_blanks_len. Qed.

Lemma skipn_le {A} n (l : list A) : (List.length (skipn n l) <= List.length l)%nat.
Proof. rewrite skipn_length. lia. Qed.

Lemma tl_le {A} (l : list A) : (List.length (tl l) <= List.length l)%nat.
Proof. destruct l; simpl; lia. Qed.

Lemma skipc_le t : (List.length (t_cur (fst (skipc t))) <= List.length (t_cur t))%nat.
Proof. unfold skipc. cbn [fst tk_cur t_cur]. apply skip_blanks_le. Qed.

Lemma mnext_field_le t : (List.length (t_cur (fst (mnext_field t))) <= List.length (t_cur t))%nat.
Proof.
  unfold mnext_field. pose proof (skipc_le (tk_fld t [])) as H. destruct (skipc (tk_fld t [])) as [t1 com]. cbn [fst] in H.
  cbn [tk_fld t_cur] in H.
  destruct com; [exact H|].
  destruct (sword (t_cur t1)) as [|a w]; [exact H|]. cbn [fst t_cur].
  pose proof (tl_le (skipn (List.length (a :: w)) (t_cur t1))). pose proof (@skipn_le ascii (List.length (a :: w)) (t_cur t1)). lia.
Qed.

Section T.
  Variable strict : bool.
  Variable M : Q.

  Lemma get_double_lt t t1 q : get_double strict t = DVal t1 q -> (List.length (t_cur t1) < List.length (t_cur t))%nat.
  Proof.
    unfold get_double. pose proof (skipc_le t) as H. destruct (skipc t) as [t0 com]. cbn [fst] in H.
    destruct com; [discriminate|].
    destruct (read_num_total strict (t_cur t0)) as (r & n & E & L). rewrite E.
    destruct r as [v|f]; [|discriminate]. destruct n as [|n]; [discriminate|].
    intros X. inversion X; subst. unfold tk_bump, tk_cur. cbn [t_cur]. change (List.length (skipn (S n) (t_cur t0)) < List.length (t_cur t))%nat. rewrite skipn_length. lia.
  Qed.

  Lemma col_pairs_total : forall fuel t x cn, (List.length (t_cur t) < fuel)%nat -> col_pairs strict fuel t x cn <> MFuel.
  Proof.
    induction fuel as [|k IH]; intros t x cn L; [lia|]. cbn [col_pairs].
    destruct (negb (has_row (t_fld t) x)); [discriminate|].
    destruct (get_double strict t) as [t1 q| |] eqn:G; try discriminate.
    apply get_double_lt in G. pose proof (mnext_field_le t1) as F. destruct (mnext_field t1) as [t2 ok]. cbn [fst] in F.
    destruct ok; [|discriminate]. apply IH. lia.
  Qed.

  Lemma rhs_pairs_total : forall fuel t x, (List.length (t_cur t) < fuel)%nat -> rhs_pairs strict fuel t x <> MFuel.
  Proof.
    induction fuel as [|k IH]; intros t x L; [lia|]. cbn [rhs_pairs].
    destruct (find_row (t_fld t) x); [|discriminate].
    destruct (get_double strict t) as [t1 q| |] eqn:G; try discriminate.
    destruct (xw_rhsind x0); [discriminate|].
    apply get_double_lt in G. pose proof (mnext_field_le t1) as F. destruct (mnext_field t1) as [t2 ok]. cbn [fst] in F.
    destruct ok; [|discriminate]. apply IH. lia.
  Qed.

  Lemma rng_pairs_total : forall fuel t x, (List.length (t_cur t) < fuel)%nat -> rng_pairs strict fuel t x <> MFuel.
  Proof.
    induction fuel as [|k IH]; intros t x L; [lia|]. cbn [rng_pairs].
    destruct (find_row (t_fld t) x); [|discriminate].
    destruct (get_double strict t) as [t1 q| |] eqn:G; try discriminate.
    apply get_double_lt in G. pose proof (mnext_field_le t1) as F. destruct (mnext_field t1) as [t2 ok]. cbn [fst] in F.
    destruct ok; [|discriminate]. apply IH. lia.
  Qed.

  Lemma peek_le t t1 : peek_number strict t = PkNum t1 \/ peek_number strict t = PkNo t1 -> (List.length (t_cur t1) <= List.length (t_cur t))%nat.
  Proof.
    unfold peek_number. pose proof (skipc_le t) as H. destruct (skipc t) as [t0 com]. cbn [fst] in H.
    destruct com; [intros [X|X]; inversion X; subst; exact H|].
    destruct (read_num_gen strict (t_cur t0)) as [[v|f] [|n]]; intros [X|X]; inversion X; subst; exact H.
  Qed.

  Lemma possibly_blank_le known t t1 nm : possibly_blank strict known t = Some (t1, nm) -> (List.length (t_cur t1) <= List.length (t_cur t))%nat.
  Proof.
    unfold possibly_blank. destruct known; [|intros X; inversion X; subst; lia].
    destruct (peek_number strict t) as [t0|t0|] eqn:P; intros X; inversion X; subst; apply peek_le; auto.
  Qed.

  Lemma read_marker_total t x : read_marker_line t x <> MFuel.
  Proof.
    unfold read_marker_line.
    destruct (if leqb (t_fld t) (s2l "S1") || leqb (t_fld t) (s2l "S2") then mnext_field t else (t, true)) as [t1 ok1].
    destruct (if ok1 then mnext_field t1 else (t1, false)) as [t2 ok2].
    destruct (negb (leqb (t_fld t2) (s2l "'MARKER'"))); [discriminate|].
    destruct (mnext_field t2) as [t3 [|]]; [|discriminate].
    repeat match goal with |- context [if ?b then _ else _] => destruct b end; discriminate.
  Qed.

  Lemma line_in_section_total t x : line_in_section strict M t x <> MFuel.
  Proof.
    unfold line_in_section. destruct (x_active x); try discriminate.
    - unfold add_row. destruct (sense_of_field (t_fld t)); [|discriminate].
      destruct (mnext_field t) as [t1 [|]]; [|discriminate]. destruct (has_row (t_fld t1) x); discriminate.
    - unfold add_col. destruct (has_marker (t_line t)); [apply read_marker_total|].
      unfold read_col_line.
      match goal with |- match ?s with MOk _ => _ | MErr _ => _ | MFlt => _ | MFuel => _ end <> _ => assert (NS : s <> MFuel); [|destruct s; try congruence] end.
      { destruct (x_sosvar x); [|discriminate].
        match goal with |- match ?f with Some _ => _ | None => _ end <> _ => destruct f as [c|]; [|discriminate] end.
        destruct (xc_sos c); [|discriminate]. match goal with |- (if ?b then _ else _) <> _ => destruct b; discriminate end. }
      pose proof (mnext_field_le t) as F. destruct (mnext_field t) as [t1 [|]]; [|discriminate]. cbn [fst] in F.
      apply col_pairs_total. unfold line_fuel. lia.
    - unfold add_rhs. destruct (possibly_blank strict (has_row (t_fld t) x) t) as [[t1 nm]|] eqn:PB; [|discriminate].
      apply possibly_blank_le in PB. destruct (set_field_name (x_rhsname x) nm) as [keep skip]. destruct skip; [discriminate|].
      destruct nm.
      + pose proof (mnext_field_le t1) as F. destruct (mnext_field t1) as [t2 [|]]; [|discriminate]. cbn [fst] in F.
        apply rhs_pairs_total. unfold line_fuel. lia.
      + apply rhs_pairs_total. unfold line_fuel. lia.
    - unfold add_ranges. destruct (possibly_blank strict (has_row (t_fld t) x) t) as [[t1 nm]|] eqn:PB; [|discriminate].
      apply possibly_blank_le in PB. destruct (set_field_name (x_rngname x) nm) as [keep skip]. destruct skip; [discriminate|].
      destruct nm.
      + pose proof (mnext_field_le t1) as F. destruct (mnext_field t1) as [t2 [|]]; [|discriminate]. cbn [fst] in F.
        apply rng_pairs_total. unfold line_fuel. lia.
      + apply rng_pairs_total. unfold line_fuel. lia.
    - unfold add_bounds. destruct (btype_of (t_fld t)); [|discriminate].
      destruct (mnext_field t) as [t1 [|]]; [|discriminate].
      destruct (possibly_blank strict (has_col (t_fld t1) x) t1) as [[t2 nm]|]; [|discriminate].
      destruct (set_field_name (x_bndname x) nm) as [keep skip]. destruct skip; [discriminate|].
      destruct (match nm with Some _ => mnext_field t2 | None => (t2, true) end) as [t3 [|]]; [|discriminate].
      match goal with |- (if ?b then _ else _) <> _ => destruct b; [discriminate|] end.
      destruct (needs_value b); [|discriminate].
      destruct (next_bound strict M t3); discriminate.
  Qed.

  Lemma mnext_line_len : forall ls r rest, mnext_line ls = (r, rest) -> (List.length rest <= List.length ls)%nat /\ (ls <> [] -> (List.length rest < List.length ls)%nat).
  Proof.
    induction ls as [|l ls IH]; intros r rest E; cbn [mnext_line] in E.
    - inversion E; subst. split; [lia|congruence].
    - destruct (scan_line l).
      + apply IH in E. cbn [List.length]. split; [lia|intros _; lia].
      + inversion E; subst. cbn [List.length]. split; [lia|intros _; lia].
      + inversion E; subst. cbn [List.length]. split; [lia|intros _; lia].
  Qed.

  Lemma read_section_len t rest x x1 rest1 : read_section t rest x = MOk (x1, rest1) -> (List.length rest1 <= List.length rest)%nat.
  Proof.
    unfold read_section. destruct (key_of (t_key t)) as [k|]; [|discriminate].
    destruct (seen k x); [discriminate|]. destruct (negb (order_ok k x)); [discriminate|].
    destruct k; try (intros X; inversion X; subst; lia).
    - destruct (mnext_line rest) as [[t2|] rest2] eqn:NL; [|discriminate]. apply mnext_line_len in NL.
      destruct (negb (is_nil (t_key t2)) || is_nil (t_fld t2)); [discriminate|].
      destruct (maxmin (t_fld t2)); [|discriminate]. intros X; inversion X; subst; lia.
    - destruct (mnext_line rest) as [[t2|] rest2] eqn:NL; [|discriminate]. apply mnext_line_len in NL.
      destruct (negb (is_nil (t_key t2)) || is_nil (t_fld t2)); [discriminate|]. intros X; inversion X; subst; lia.
    - destruct (mnext_line rest) as [[t2|] rest2] eqn:NL; [|discriminate]. apply mnext_line_len in NL.
      destruct (is_nil (t_key t2) && negb (is_nil (t_fld t2))); [|discriminate]. intros X; inversion X; subst; lia.
  Qed.

  Lemma mloop_total : forall fuel ls x, (List.length ls < fuel)%nat -> mloop strict M fuel ls x <> MFuel.
  Proof.
    induction fuel as [|k IH]; intros ls x L; [lia|]. cbn [mloop].
    destruct (mnext_line ls) as [[t|] rest] eqn:NL; [|discriminate].
    assert (NE : ls <> []) by (intros ->; cbn in NL; discriminate).
    apply mnext_line_len in NL. destruct NL as [_ NL]. specialize (NL NE).
    destruct (t_key t) as [|a key].
    - pose proof (line_in_section_total t x) as T. destruct (line_in_section strict M t x); try congruence; try discriminate.
      apply IH. lia.
    - destruct (leqb (a :: key) (s2l "ENDATA")); [discriminate|].
      destruct (read_section t rest x) as [[x1 rest1]| | |] eqn:RS; try discriminate.
      + apply read_section_len in RS. apply IH. lia.
      + exfalso. unfold read_section in RS.
        destruct (key_of (t_key t)) as [k0|]; [|discriminate]. destruct (seen k0 x); [discriminate|]. destruct (negb (order_ok k0 x)); [discriminate|].
        destruct k0; try discriminate;
          destruct (mnext_line rest) as [[t2|] rest2]; try discriminate;
          repeat match type of RS with context [if ?b then _ else _] => destruct b end; try discriminate;
          destruct (maxmin (t_fld t2)); discriminate.
  Qed.

  Lemma finish_total x : finish M x <> MFuel.
  Proof.
    unfold finish.
    match goal with |- match ?o with MOk _ => _ | MErr _ => _ | MFlt => _ | MFuel => _ end <> _ =>
      assert (NS : o <> MFuel /\ o <> MFlt); [|destruct o; try discriminate; try (destruct NS; congruence)] end.
    { destruct (x_obj x) as [on|]; [destruct (has_row on x); split; discriminate|].
      match goal with |- context [find ?f ?l] => destruct (find f l) end; split; discriminate. }
    repeat match goal with |- (if ?b then _ else _) <> _ => destruct b; [discriminate|] end. discriminate.
  Qed.

  Theorem mps_reader_total ls : read_mps_res strict M ls <> MFuel.
  Proof.
    unfold read_mps_res. pose proof (mloop_total (S (List.length ls)) ls (xraw0) (Nat.lt_succ_diag_r _)) as T.
    destruct (mloop strict M (S (List.length ls)) ls xraw0); try congruence; try discriminate. apply finish_total.
  Qed.
End T.
